#!/bin/sh
# run a command while holding the /repo-state lock (seed trials modify /repo's working tree; checks must not overlap them)
mkdir -p /verif/work
exec flock /verif/work/.repo_lock "$@"
