#!/usr/bin/env python3
"""tools/keep_seed.py <out_dir> <seed-id> <detected json>  — store a confirmed seeded change under /verif/seeded/<id>/"""
import json, os, shutil, sys, glob
src, sid, det = sys.argv[1], sys.argv[2], json.loads(sys.argv[3])
dst = f"/verif/seeded/{sid}"
os.makedirs(dst, exist_ok=True)
for f in glob.glob(os.path.join(src, "*")):
    if os.path.isfile(f) and os.path.basename(f) != "meta.json":
        shutil.copy(f, dst)
m = json.load(open(os.path.join(src, "meta.json")))
m["id"] = sid
m["confirmed"] = "tools/confirm_seed.sh in a scratch worktree: existing suite passes with the change; the demonstration fails with it and passes without it"
m["detected_by"] = det
m["what_i_ran"] = "tools/try_seed.sh <patch.diff> <IDs>  (git apply to /repo, ./check <ID> quick tier, git checkout -- .)"
json.dump(m, open(os.path.join(dst, "meta.json"), "w"), indent=1)
print("kept", dst)
