#!/bin/sh
# usage: tools/process_seed.sh <tag> <ID> [<ID>...] — confirm a sub-agent's seeded change (scratch worktree), try it against the
# named checks (applies to /repo under the lock, always undone), then remove the sub-agent's worktree. Log: work/seedproc_<tag>.log
tag="$1"; shift
out=/tmp/mut/${tag}_out
{
  echo "### $tag"
  /verif/tools/confirm_seed.sh "$out" || { echo "NOT CONFIRMED"; exit 1; }
  /verif/tools/try_seed.sh "$out/patch.diff" "$@"
  git -C /repo worktree remove --force /tmp/mut/$tag 2>/dev/null; rm -rf /tmp/mut/$tag
  echo "### done $tag"
} > /verif/work/seedproc_$tag.log 2>&1
