#!/bin/sh
# usage: tools/try_harmless.sh <dir with harmless_k.diff> <out log> [IDs…]  — every check must stay green (exit 0, no VIOLATION)
# on each behaviour-preserving patch; prints one line per (patch, check) that does not.
d="$1"; log="$2"; shift 2
ids="${*:-C01 C02 C03 C04 C05 C06 C07 C08 C09 C10 C11 C12 C13 C14 C15 C16 C17 C18 C19}"
: > "$log"
for p in "$d"/harmless_*.diff; do
  k=$(basename "$p" .diff)
  /verif/tools/try_seed.sh "$p" $ids > /verif/work/$k.try.log 2>&1
  awk -v k="$k" '/^=== /{id=$3} /^exit=/{ if ($0!="exit=0") print k, id, $0 } /^VIOLATION/{print k, id, $0}' /verif/work/$k.try.log >> "$log"
  echo "$k done: $(grep -c '^exit=0' /verif/work/$k.try.log) green of $(grep -c '^exit=' /verif/work/$k.try.log)" >> "$log"
done
echo ALLDONE >> "$log"
