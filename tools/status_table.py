#!/usr/bin/env python3
"""print the §10.0 status table of DESIGN.md from tools/props.py, evidence/*.json, known_findings.json and seeded/"""
import json, os, sys, glob, re
sys.path.insert(0, os.path.dirname(os.path.abspath(__file__)))
from props import PROPS
kf = json.load(open('/verif/known_findings.json'))['findings']
print("| property | theorem modules / theorems | correspondence and oracle suites | open findings | fixed | seeds kept |")
print("|---|---|---|---|---|---|")
for i in range(1, 20):
    pid = f"C{i:02d}"
    c = PROPS[pid]
    mods = c['thm'] if isinstance(c['thm'], list) else [c['thm']]
    ev = json.load(open(f'/verif/evidence/{pid}.json'))
    nthm = len(ev['coverage']['theorems'])
    op = sorted({f['id'] for f in kf if f['property'] == pid and f.get('status') == 'open'})
    fx = sorted({f['id'] for f in kf if f['property'] == pid and f.get('status') == 'fixed'})
    seeds = len(glob.glob(f'/verif/seeded/{pid}*'))
    print(f"| {pid} | {len(mods)} / {nthm} | {', '.join(c['suites'])} | {', '.join(op) or '–'} | {', '.join(fx) or '–'} | {seeds} |")
