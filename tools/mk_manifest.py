#!/usr/bin/env python3
"""Regenerate /verif/MANIFEST.json from tools/props.py (single source of truth)."""
import json, os, sys
sys.path.insert(0, os.path.dirname(os.path.abspath(__file__)))
from props import PROPS, NOT_APPLICABLE, HOOK_COMMITS

ALL = [f"C{i:02d}" for i in range(1, 20)]
checks = []
for pid in ALL:
    if pid not in PROPS:
        continue
    c = PROPS[pid]
    checks.append({
        "property_id": pid,
        "quick_cmd": f"./check {pid} --tier quick",
        "thorough_cmd": f"./check {pid} --tier thorough",
        "evidence_file": f"/verif/evidence/{pid}.json",
        "replay_cmd_template": f"./check {pid} --replay {{path}}",
        "engine": "lean4-proof+correspondence",
        "level_claimed": {"category": "proof", "text": c["level_text"], "design_ref": c.get("design_ref", f"DESIGN.md §6 {pid}")},
        "level_note": c["level_note"],
        "technique": c["technique"],
    })
na = [{"property_id": p, "reason": NOT_APPLICABLE[p]} for p in ALL if p not in PROPS]
m = {
    "version": 1,
    "setup_cmd": "./check setup",
    "hooks": {
        "guard": "cargo feature `verif-hooks` on crates/sameold (default off)",
        "enable": "harness/Cargo.toml depends on /repo/crates/sameold with features = [\"verif-hooks\"]; cargo build --release --offline in /verif/harness",
        "baseline_off_cmd": "cd /repo && cargo test --workspace --no-fail-fast --offline",
        "source_commits": HOOK_COMMITS,
        "add_only": True,
    },
    "engines": [{
        "name": "lean4-proof+correspondence",
        "path": "/verif/check",
        "serves_properties": [c["property_id"] for c in checks],
        "kind_free_text": "Lean 4 theorems over hand-written models + generated constants/tables (translator), tied to the code by a Rust differential correspondence harness and Lean specification oracles",
    }],
    "checks": checks,
    "not_applicable": na,
    "notes": "See DESIGN.md. Every check rebuilds the harness against /repo's working tree, regenerates lean/SameVerif/Gen, rebuilds the theorem module, audits axioms, then runs the correspondence suites.",
}
json.dump(m, open(os.path.join(os.path.dirname(os.path.abspath(__file__)), "..", "MANIFEST.json"), "w"), indent=1)
print(f"{len(checks)} checks, {len(na)} not claimed")
