#!/bin/sh
# thorough tier of every property, one at a time, each under the /repo-state lock; logs under work/thorough/
mkdir -p /verif/work/thorough
cd /verif
for id in "$@"; do
  t0=$(date +%s)
  tools/locked.sh ./check "$id" --tier thorough > work/thorough/$id.log 2>&1
  echo "$id rc=$? $(( $(date +%s) - t0 ))s $(grep -cE '^VIOLATION' work/thorough/$id.log) violations $(grep -cE '^KNOWN-FINDING' work/thorough/$id.log) known" >> work/thorough/SUMMARY.txt
done
