#!/bin/sh
# usage: tools/confirm_seed.sh <dir with patch.diff demo.diff RUN.txt>
# Confirms in a scratch worktree: (1) patch compiles and the existing suite passes; (2) the demonstration fails with the
# patch; (3) the demonstration passes without it. Removes the worktree afterwards.
d=$(cd "$1" && pwd); w=/tmp/confirm_$$
git -C /repo worktree add -q "$w" HEAD || exit 2
trap 'git -C /repo worktree remove --force "$w" 2>/dev/null; rm -rf "$w"' EXIT
cd "$w" || exit 2
export CARGO_NET_OFFLINE=true CARGO_TARGET_DIR=/tmp/confirm_target
git apply "$d/patch.diff" || { echo "CONFIRM: patch does not apply"; exit 1; }
if cargo test --workspace --offline > /tmp/confirm_suite.log 2>&1; then echo "CONFIRM: existing suite passes with the change: $(grep -c '\.\.\. ok' /tmp/confirm_suite.log) tests ok, $(grep -c 'FAILED' /tmp/confirm_suite.log) failed"; else echo "CONFIRM: existing suite FAILS with the change"; tail -5 /tmp/confirm_suite.log; exit 1; fi
git apply "$d/demo.diff" || { echo "CONFIRM: demo does not apply"; exit 1; }
run=$(grep -v "^#" "$d/RUN.txt" | head -1 | sed "s#^cd /tmp/mut/[A-Za-z0-9_]* *&& *##")
if sh -c "$run" > /tmp/confirm_demo1.log 2>&1; then echo "CONFIRM: demonstration PASSES with the change (bad)"; exit 1; else echo "CONFIRM: demonstration fails with the change (good)"; fi
git apply -R "$d/patch.diff" || { echo "CONFIRM: cannot revert patch"; exit 1; }
if sh -c "$run" > /tmp/confirm_demo2.log 2>&1; then echo "CONFIRM: demonstration passes without the change (good)"; else echo "CONFIRM: demonstration FAILS without the change (bad)"; tail -5 /tmp/confirm_demo2.log; exit 1; fi
echo "CONFIRM: OK"
