"""Per-property configuration of ./check: theorem module, correspondence suites, assumptions."""

TRUSTED_BASE = [
    "Lean 4.33.0 kernel (thorough tier: re-checked by leanchecker)",
    "axioms allowed per theorem, audited with #print axioms: propext, Classical.choice, Quot.sound (no native_decide, no bv_decide, no sorry)",
    "translator: harness `dump` (links the working-tree crate with feature verif-hooks) + tools/gen_lean.py -> lean/SameVerif/Gen/*.lean",
    "correspondence harness (/verif/harness, Rust) and the compiled Lean driver `samemodel` (Lean compiler/runtime executes the model; cannot make a theorem true)",
    "hooks in /repo (feature verif-hooks): re-exports and three add-only observation taps",
    "rustc/LLVM, core/std, and the crates regex, chrono, phf, strum, arrayvec, arraydeque: modelled and validated by correspondence, not verified",
]

HOOK_COMMITS = ["89cac3b"]

# properties not (yet) claimed; every one has an executable logic core and is planned (DESIGN.md §9)
NOT_APPLICABLE = {f"C{i:02d}": "not yet claimed in this revision: model/suite under construction (see DESIGN.md §9 staging); the technique does apply"
                  for i in range(1, 20)}

PROPS = {
    "C03": {
        "thm": "SameVerif.Thm.C03",
        "technique": "Lean 4 theorems (bitwise majority for all bytes; combine on (H,H,X) for all H, X, 3 orders) + exhaustive hash correspondence of the vote functions + differential correspondence of combine",
        "level_text": "Proved in Lean for all inputs: each bit of the 2-of-3 vote is the majority, the error count is the number of non-unanimous bit positions, the 2-of-2 vote is equality-or-zero; "
                      "for every canonical SAME-charset header H, every third burst X of any length and all 3 orders, combine returns exactly H with voting=min(|H|,|X|) and parity=the specified disagreement count. "
                      "The hand-written model is tied to the code exhaustively for the vote functions (2^24+2^16 by hash) and by sampled differential correspondence for estimate/combine; independent Lean oracles judge every implementation answer.",
        "level_note": "Assumes the correspondence harness and translator are right; the message-level model/code tie is sampled (not exhaustive); header grammar acceptance relies on the checkHeader model of the regex (validated under C06).",
        "suites": ["combiner"],
        "rule": "votes: all 2^24 triples and 2^16 pairs enumerated on both sides and compared by range hash (17 hash requests, each non-trivial); "
                "combine/estimate: grammar-generated headers (every location count 1..31 x callsign length 3..8 first, then random shapes) with a third burst from 10 corruption "
                "kinds in all 3 positions, pairs, singles, >3 bursts, and unstructured burst sets; a case is non-trivial if it is a hash range or has at least one non-empty burst; distinct by request text",
        "exhaustive": False,
        "exhaustive_note": "the per-byte vote functions ARE enumerated exhaustively (2^24 + 2^16) by range hash in both tiers; the message-level requests are sampled, the message-level claim is the theorem combine_two_of_three",
        "assumptions": [
            "hand-written Lean models of combiner.rs / message.rs are tied to the code by differential correspondence (sampled, except the vote functions which are exhaustive)",
            "the regex crate's leftmost-first semantics is modelled by checkHeader and validated by the header suite (C06)",
        ],
        "spec_ops": {"spec.c03.vote3": "vote3", "spec.c03.vote2": "vote2", "spec.c03.counts": "combine", "spec.c03.pair": "combine"},
    },
    "C06": {
        "thm": "SameVerif.Thm.C06",
        "suites": ["header"],
        "technique": "Lean 4 theorems (parser accepts iff grammar decomposition exists; stored text = longest matched prefix; error kinds) + hash-exhaustive 1-edit neighbourhood correspondence + independent offset-based shape oracle",
        "level_text": "Proved in Lean for all byte strings: MessageHeader::new (model) accepts iff the text is ASCII and begins with ZCZC-ORG-EEE(-PSSCCC)+ +TTTT-JJJHHMM-CALLSIGN-; the stored text is exactly the matched prefix, is the LONGEST header-shaped prefix (greedy callsign), the time offset is the position of '+'; "
                      "rejections are NotAscii iff non-ASCII, Malformed otherwise, never another kind. The model (a hand-rolled matcher for the regex) is tied to the real regex/accessors on the complete 1-edit neighbourhood (131 symbols incl. multi-byte UTF-8, substitute/insert/delete at every position) of grammar-generated seeds by hash, "
                      "plus sampled 2-3-edit and unstructured inputs; every individually listed answer (constructor result, every accessor, re-parse, byte-slice dispatch) is also judged by an independent offset-based Lean oracle.",
        "level_note": "Accessor-equals-field and panic-freedom of accessors are currently established by correspondence + oracle on every sampled input (the model has explicit Panic branches and none was ever taken), not yet by theorem; regex crate semantics are modelled, not verified.",
        "rule": "seeds: grammar-generated headers with every location count 1..31 and 32, callsign length 3..8 (some with '-' inside), 6 kinds of trailing bytes; per seed the complete 1-edit neighbourhood at every position (stride 3 for seeds > 80 bytes in quick) as one hash request per position; "
                "150-300 sampled 2-3-edit variants per seed; unstructured strings over 3 alphabets; msg3/msgstr dispatch requests incl. invalid UTF-8. Non-trivial = non-empty input; distinct by request text. counters.neighbourhood_strings_hashed is the number of strings inside hash requests.",
        "exhaustive": False,
        "exhaustive_note": "each hdrnbhd request enumerates its neighbourhood completely on both sides; the set of seeds is sampled",
        "assumptions": ["regex crate leftmost-first semantics is modelled by checkHeader; tie is differential (neighbourhood-exhaustive around seeds)"],
        "spec_ops": {"spec.c06.hdr": "hdr", "spec.c06.msg3": "msg3"},
        "op_specs": {"hdr": "spec.c06.hdr"},
    },
}
