"""Per-property configuration of ./check: theorem module, correspondence suites, assumptions."""

TRUSTED_BASE = [
    "Lean 4.33.0 kernel (thorough tier: re-checked by leanchecker)",
    "axioms allowed per theorem, audited with #print axioms: propext, Classical.choice, Quot.sound (no native_decide, no bv_decide, no sorry)",
    "translator: harness `dump` (links the working-tree crate with feature verif-hooks) + tools/gen_lean.py -> lean/SameVerif/Gen/*.lean",
    "correspondence harness (/verif/harness, Rust) and the compiled Lean driver `samemodel` (Lean compiler/runtime executes the model; cannot make a theorem true)",
    "hooks in /repo (feature verif-hooks): re-exports (incl. Agc, DCBlocker, TimingLoop, the PI-gain computation) and four add-only observation taps (T0 timing-error-detector samples, T1 squelch, T2 byte clock, T3 symbol ticks)",
    "rustc/LLVM, core/std, and the crates regex, chrono, phf, strum, arrayvec, arraydeque: modelled and validated by correspondence, not verified",
]

HOOK_COMMITS = ["89cac3b", "2698c5e", "6681146", "7adda70"]

# properties not (yet) claimed; every one has an executable logic core and is planned (DESIGN.md §9)
NOT_APPLICABLE = {}   # every property is claimed

ASM_RULE = "asmseq: random op sequences (bursts: header A/B, NNNN, corrupted, with disallowed tails, empty, arbitrary; time steps 0, 1, hold-1..hold+1, hist-1..hist+1, random) with output AND private state (history, pending, previous with deadlines) compared after every call. asmscen: scripted burst histories with assemble at each burst-end tick, no polls inside link-busy windows, a poll at EVERY other tick: (i) C02 grid = 64 presence masks x {absent, corrupted} x header-to-trailer gaps (1 s .. beyond the history window, both edges of hold and history) x pause {0.95,1.0,1.05 s} x header length class (37..252 bytes); (ii) sequences of 1..3 transmissions (header A, header B, trailer) with masks and inter-transmission gaps; (iii) the same message twice with the gap swept across the duplicate window edge; (iv) trailer then a lone foreign burst. Non-trivial = every scenario/op; distinct by request text."
SIG_RULE = "sigc01: synthesized complete transmissions (f64 continuous-phase AFSK, fractional samples/symbol): header from the SAME grammar (1..31 locations, callsign 3..8), rate from the 8 standard rates and random integers in [8000, 96000], amplitude log-uniform in [300, 30000] (i16 scale, inside samedec's AGC range; see DESIGN.md on the amplitude domain), DC up to 20 % of amplitude, random carrier phase and sub-sample start, baud error in [-1 %, +1 %], pause 1 s +-5 %, noise up to 20 dB SNR, lead-in 0..2 s, voice gap 1..11.5 s, library-default and samedec configurations; for every case the tapped observation streams are replayed on the Lean link model (T1+T2 => T3 link states, byte-tick count, resync ticks) and transport model (T3 => events with timestamps). signear: 16 kinds of audio without a complete SAME transmission. Non-trivial = every case; distinct by request text."

PROPS = {
    "C03": {
        "thm": "SameVerif.Thm.C03",
        "technique": "Lean 4 theorems (bitwise majority for all bytes; combine on (H,H,X) for all H, X, 3 orders) + exhaustive hash correspondence of the vote functions + differential correspondence of combine",
        "level_text": "Proved in Lean for all inputs: each bit of the 2-of-3 vote is the majority, the error count is the number of non-unanimous bit positions, the 2-of-2 vote is equality-or-zero; "
                      "for every canonical SAME-charset header H, every third burst X of any length and all 3 orders, combine returns exactly H with voting=min(|H|,|X|) and parity=the specified disagreement count. "
                      "The hand-written model is tied to the code exhaustively for the vote functions (2^24+2^16 by hash) and by sampled differential correspondence for estimate/combine; independent Lean oracles judge every implementation answer.",
        "level_note": "Assumes the correspondence harness and translator are right; the message-level model/code tie is sampled (not exhaustive); header grammar acceptance relies on the checkHeader model of the regex (validated under C06).",
        "suites": ["combiner"],
        "rule": "votes: all 2^24 triples and 2^16 pairs enumerated on both sides and compared by range hash (17 hash requests, each non-trivial); "
                "combine/estimate: grammar-generated headers (every location count 1..31 x callsign length 3..8 first, then random shapes) with a third burst from 10 corruption "
                "kinds in all 3 positions, pairs, singles, >3 bursts, and unstructured burst sets; a case is non-trivial if it is a hash range or has at least one non-empty burst; distinct by request text",
        "exhaustive": False,
        "exhaustive_note": "the per-byte vote functions ARE enumerated exhaustively (2^24 + 2^16) by range hash in both tiers; the message-level requests are sampled, the message-level claim is the theorem combine_two_of_three",
        "assumptions": [
            "hand-written Lean models of combiner.rs / message.rs are tied to the code by differential correspondence (sampled, except the vote functions which are exhaustive)",
            "the regex crate's leftmost-first semantics is modelled by checkHeader and validated by the header suite (C06)",
        ],
        "spec_ops": {"spec.c03.vote3": "vote3", "spec.c03.vote2": "vote2", "spec.c03.counts": "combine", "spec.c03.pair": "combine"},
    },
    "C06": {
        "thm": "SameVerif.Thm.C06",
        "suites": ["header"],
        "technique": "Lean 4 theorems (parser accepts iff grammar decomposition exists; stored text = longest matched prefix; error kinds) + hash-exhaustive 1-edit neighbourhood correspondence + independent offset-based shape oracle",
        "level_text": "Proved in Lean for all byte strings: MessageHeader::new (model) accepts iff the text is ASCII and begins with ZCZC-ORG-EEE(-PSSCCC)+ +TTTT-JJJHHMM-CALLSIGN-; the stored text is exactly the matched prefix, is the LONGEST header-shaped prefix (greedy callsign), the time offset is the position of '+'; "
                      "rejections are NotAscii iff non-ASCII, Malformed otherwise, never another kind. The model (a hand-rolled matcher for the regex) is tied to the real regex/accessors on the complete 1-edit neighbourhood (131 symbols incl. multi-byte UTF-8, substitute/insert/delete at every position) of grammar-generated seeds by hash, "
                      "plus sampled 2-3-edit and unstructured inputs; every individually listed answer (constructor result, every accessor including the originator class and the national flag, re-parse, byte-slice dispatch) is also judged by an independent offset-based Lean oracle.",
        "level_note": "Accessor-equals-field (originator_str, event_str, callsign, locations, duration, issue time AND the interpreting accessors originator(), event(), is_national()), panic-freedom of every accessor, re-parse identity and the no-line-feed fact are theorems about the model (Thm/C06 accessors, accessors_total, sem_accessors_total, originator_class, national_flag, reparse); the regex crate's semantics are modelled (checkHeader), not verified, and tied differentially.",
        "rule": "seeds: grammar-generated headers with every location count 1..31 and 32, callsign length 3..8 (some with '-' inside), 6 kinds of trailing bytes; per seed the complete 1-edit neighbourhood at every position (stride 3 for seeds > 80 bytes in quick) as one hash request per position; "
                "150-300 sampled 2-3-edit variants per seed; unstructured strings over 3 alphabets; 600 (quick) / 8000 (thorough) directed field-semantics headers (WXR with callsigns around the EC/ marker at the start, inside, at the end, lower-case; sole/double/mixed 000000 locations with national and near-national event codes; counters field_semantics:*); msg3/msgstr dispatch requests incl. invalid UTF-8. Non-trivial = non-empty input; distinct by request text. counters.neighbourhood_strings_hashed is the number of strings inside hash requests.",
        "exhaustive": False,
        "exhaustive_note": "each hdrnbhd request enumerates its neighbourhood completely on both sides; the set of seeds is sampled",
        "assumptions": ["regex crate leftmost-first semantics is modelled by checkHeader; tie is differential (neighbourhood-exhaustive around seeds)"],
        "spec_ops": {"spec.c06.hdr": "hdr", "spec.c06.msg3": "msg3"},
        "op_specs": {"hdr": "spec.c06.hdr"},
    },
    "C16": {
        "thm": "SameVerif.Thm.C16",
        "suites": ["events"],
        "technique": "Lean 4 theorems by kernel evaluation over tables GENERATED from the compiled crate (61 published codes, fallback for all strings, no '%', order/numbers, classes, originators) + exhaustive hash correspondence over all 2^21 ASCII triples and all strings of length 0..4 over a 40-symbol alphabet",
        "level_text": "Proved in Lean over the phf/strum data dumped from the compiled crate on every run: each of the 61 independently transcribed published codes decodes to its documented phenomenon and significance; for ALL strings the decoder is the three-stage lookup with last-letter fallback and (Unrecognized, Unknown) otherwise; "
                      "no phenomenon x significance display keeps a '%'; numeric form 0..5 in the stated order; test/national/weather classes consistent; PEP/CIV/WXR/EAS/EC rule and Unknown for every other 3-byte code. "
                      "The lookup logic model is tied to the public API exhaustively: all 2,097,152 three-character ASCII strings and all 2,625,641 strings of length 0..4 over a 40-symbol alphabet with multi-byte UTF-8, by range hash, in both tiers; individually listed answers are judged by an oracle written from the published table.",
        "level_note": "Trusts the dump (hook + strum/phf accessors) to report the tables the crate really uses; mitigated because the same tables are exercised exhaustively through EventCode::from.",
        "rule": "hash ranges: 32 x 65536 ASCII triples, 0..4-letter strings over 40 symbols in ranges of 64000; individual evt/sigfrom/org requests: published codes, two-letter-code + letter, random ASCII, multi-byte. Non-trivial = every request; distinct by text. counters.exhaustive:* give the number of strings inside hash requests.",
        "exhaustive": True,
        "exhaustive_note": "the quantifier's two finite domains (2^21 ASCII triples; length 0..4 over the 40-symbol alphabet) are enumerated completely on both sides in both tiers",
        "assumptions": ["strum EnumString behaviour for Originator (variant name accepted for EnvironmentCanada) is modelled and sampled"],
        "spec_ops": {"spec.c16.evt": "evt", "spec.c16.org": "org", "spec.c16.sigfrom": "sigfrom"},
        "op_specs": {"evt": "spec.c16.evt"},
    },
    "C15": {
        "thm": "SameVerif.Thm.C15",
        "suites": ["time"],
        "technique": "Lean 4 theorem for ALL years (year inference exact within 179 days, tight at 180; invalid dates rejected; expiry iff) over a closed-form Gregorian calendar + exhaustive hash correspondence through the public API over 1970..2200 x 366 x +-90 days",
        "level_text": "Proved in Lean for every year in chrono's range, every valid day/time and every receive date within 179 days (so within +-90): the reconstructed issue time is the true instant; the bound is tight at 180; day 0, day > 366, day 366 in a non-leap year, hour >= 24, minute >= 60 are errors; a result always carries the message's own fields; "
                      "expiry holds iff issue + duration < now to the nanosecond. The closed-form calendar is proved self-consistent (year lengths, monotone). The model is tied to MessageHeader::issue_datetime / is_expired_at / valid_duration(_fields) / issue_daytime_fields exhaustively over all 15,303,246 (issue date 1970..2200, receive offset -90..+90) pairs "
                      "with boundary times of day and durations, all 10,000 TTTT and 5 x 10,000 HHMM values, by hash, in both tiers; individually listed round trips (also far years, negative years) are judged by an oracle with its own year-counting calendar.",
        "level_note": "chrono's calendar (from_yo_opt, and_hms_opt, timestamp, DateTime+Duration, ordering) is modelled, validated exhaustively on 1970..2200 and sampled elsewhere; receive ordinals above 2^31 (impossible for a real date) are outside the hook-level domain.",
        "rule": "231 hash requests (one per issue year, 366 x 181 pairs each), durhash, 5 hhmmhash; individual `issue` requests: true instants x offsets (boundaries +-90, +-179, random) incl. far and negative years; invalid/extreme field products; expiry boundary quadruples (at, +1 ns, -1 ns, +1 s). Non-trivial = every request; distinct by text.",
        "exhaustive": True,
        "exhaustive_note": "the property's finite quantifier (issue year 1970..2200 x every day of year x offset -90..+90; all TTTT; all HHMM) is enumerated completely on both sides in both tiers",
        "assumptions": ["Utc::now() is not involved (callers pass the receive time)"],
        "spec_ops": {"spec.c15.invalid": "issue"},
    },
    "C07": {
        "thm": "SameVerif.Thm.C07",
        "suites": ["framer", "framerseq", "sigphase"],
        "spec_filter": r"^spec\.(c07\.stream|sig c07) ",
        "technique": "Lean 4 theorems about the framer automaton (refinement of a declarative, index-based framing specification; bytes in order; one burst per start; give-up; length cap) + hash-exhaustive correspondence over a reduced alphabet with restarts/ends at every position + declarative oracle on long streams",
        "level_text": "The framer model (Framer::input/end/state, message_prefix_errors) is proved in Lean, for all byte streams and budgets, to report bursts that are the matched window as received followed by the received bytes in order, ending as specified; "
                      "it is tied to the real Framer through the hook exhaustively over all sequences of a 10-symbol alphabet (preamble, Z, C, N, '-', 'A', NUL, 0xFF, 1-bit-off Z and C) of depth 4 (quick) / 5 (thorough) after 9 structured starts, with a restart or end() inserted at every position, for 10 (quick) / all 72 (thorough) budget pairs, by hash incl. the final state snapshot; "
                      "long random streams (up to 300 data bytes, over the cap) are replayed on model and code and judged by the declarative framing specification; random stateful op sequences compare the private state after every call.",
        "level_note": "Bit-phase to byte alignment: proved for the link model in C01.burst_delivered (any acquisition point in the first 90 preamble bits); at signal level suite sigphase sends single bursts at all 16 half-symbol phases behind lead-in bits at another phase (random bits, preamble-like bytes followed by a 1..7-bit slip, alternating bits, extra preamble bytes) and demands exactly one burst that starts with the transmitted bytes in order, and replays the taps on the link model. Budgets above 7 for the prefix are outside the builder's clamp and not enumerated.",
        "rule": "hash requests: (budget pair) x (structured start) x quarter of the tail space; each stands for 10^depth/4 tails x (2*depth+1) restart/end variants. fr.stream: preamble length 0..24, prefix with 0..4 bit errors or absent, data 0..300 bytes with 0..40% invalid, garbage tail. framerseq: random calls with restarts (p=1/25) and end() (p=1/40), state snapshot compared after every call. Non-trivial: hash ranges, streams, and every stateful call; distinct by request text.",
        "exhaustive": False,
        "exhaustive_note": "exhaustive within the stated reduced alphabet/depth/budget grid (counters.exhaustive:op_sequences); the property's depth-12 space is not reached",
        "assumptions": ["the chain-level precondition 'four 0xAB training bytes follow every start' is C01/C10's link model, here streams with fewer preamble bytes are included and judged by the same specification"],
        "spec_ops": {"spec.c07.stream": "fr.stream"},
    },
    "C08": {
        "thm": ["SameVerif.Thm.C08", "SameVerif.Thm.C08rx", "SameVerif.Thm.ChainLatency"],
        "thm_thorough": ["SameVerif.Thm.ChainLatencyDemo"],
        "suites": ["asmseq", "asmscen", "sigc01", "sigseq", "sighold"],
        "spec_filter": r"^spec\.(asm c08|sig c08|sig c08seq|sig c08hold) ",
        "technique": "Lean 4 invariants over all assembler operation histories (no EndOfMessage is ever left pending; accept never sets a deadline beyond now+hold; a due result is released by the next poll) + receiver-level run theorems (Thm/C08rx: the pending result is reported at the FIRST NoCarrier tick at or after acceptance + HOLD whatever Searching/Reading ticks intervene, nothing before) + differential correspondence of the Assembler incl. private state + per-tick-polled scenario sweeps judged by a delay oracle + chain-level LATENCY theorems (Thm/ChainLatency, under Spec.StreamObserved2 on one tick stream from the initial states): every burst is reported at a tick in [e+31, e+rel+31] (e = first tick after its last bit, rel = ticks until the close threshold fails); the StartOfMessage comes either at a NoCarrier tick >= b2+HOLD before the third burst is assembled, or at EXACTLY b3+HOLD; the EndOfMessage at EXACTLY the tick of the trailer burst that establishes it (first if the header bursts have expired, second otherwise); in samples: <= tau*(rel+31+HOLD) after the last header bit, which is below 1.5 s at the nominal symbol rate iff rel <= 68 (latency_nominal); bounds attained on the demo stream (thorough tier) + signal-level suites sigseq/sighold judged by a trace-only hold oracle",
        "level_text": "Proved in Lean over every state and every operation of the assembler model: an EndOfMessage is output by the very call that assembles its establishing burst and is never left pending; every pending result is due no later than its acceptance + MAX_INTERBURST_SYMBOLS (= documented 1.311 s, from the generated constants) and any poll at or after the deadline outputs it and empties the slot, so nothing is held for ever. "
                      "The model is tied to the real Assembler through the hook (outputs and private state after every call) and on thousands of scripted histories with a poll at every idle tick; the oracle checks EOM-at-burst-tick and SOM <= last carrying burst + hold on a quiet channel.",
        "level_note": "Ticks are symbol-synchronizer outputs; the conversion to seconds/samples and the burst-termination latency are sampled at signal level (sigc01, sigseq, sighold: carrier activity inside the hold, destroyed-prefix bursts), not proved. One open known finding (F8) is reported as KNOWN-FINDING.",
        "rule": ASM_RULE + " " + SIG_RULE,
        "exhaustive": False,
        "assumptions": ["the receiver polls the assembler on every symbol tick whose link state is NoCarrier (C13/C09 receiver model)", "tick rate ~ 520.83 Hz (front-end assumption FE4, sampled)"],
    },
    "C04": {
        "thm": ["SameVerif.Thm.C04", "SameVerif.Thm.C04rx"],
        "suites": ["asmseq", "asmscen", "sigc01", "signear", "sigseq", "siglong"],
        "spec_filter": r"^spec\.(asm c04|sig c04|sig nosom) ",
        "technique": "Lean 4 invariant over all assembler operation histories (every reported message is `combine` of a run of <= 3 consecutive bursts of the log) + theorem that `combine` only reports bytes backed by two agreeing bursts or the bitwise majority of three; + receiver-level provenance theorems (Thm/C04rx: every EndOfMessage EVENT of every run from the initial state is a decoded trailer or the forced one strictly later than 135 s after a still-open StartOfMessage event; the timer is armed by StartOfMessage outputs only); correspondence at hook and signal level; evidence oracle on every event trace",
        "level_text": "Proved in Lean: for ALL burst sets, a decoded header has every byte equal (after MSb masking) in two bursts or the bitwise majority of three, needs two bursts covering every reported position, a single burst or a pair disagreeing on the first byte never decodes, an end-of-message estimate begins NN; and over ALL operation histories with non-decreasing ticks the assembler model only ever reports `combine` of a run of at most three consecutive bursts of its burst log (invariant with init/idle/assemble preservation). The models are tied to the real combiner/Assembler through the hook and, in situ, to the real receiver's tapped streams; the evidence oracle (independent of the models) judges the complete event trace of every scenario and every signal case, including a near-miss library (silence, noise, tones, programme, wrong-baud and preamble-less FSK, preamble only, lone bursts, disagreeing bursts, prefixes with 3+ bit errors).",
        "level_note": "That non-SAME AUDIO yields fewer than two agreeing bursts is a statement about f32 DSP: sampled (signear), not proved. The forced end-of-message arm is proved at receiver level (Thm/C04rx eom_event_decoded_or_forced, timer_provenance, no_som_output_no_forced) and exercised by siglong's noheader_* kinds (> 135 s after a decode error or a lone trailer burst).",
        "rule": ASM_RULE + " " + SIG_RULE,
        "exhaustive": False,
        "assumptions": ["symbol tick counts passed to the assembler are non-decreasing (they are a u64 counter)", "FE: non-SAME audio does not produce two bursts that agree (sampled)"],
    },
    "C01": {
        "thm": ["SameVerif.Thm.C01", "SameVerif.Thm.Chain", "SameVerif.Thm.C01r", "SameVerif.Thm.C01s", "SameVerif.Thm.ChainR", "SameVerif.Thm.C01t", "SameVerif.Thm.ChainT", "SameVerif.Thm.TransportFull", "SameVerif.Thm.ChainFull"],
        "thm_thorough": ["SameVerif.Thm.ChainFullDemo"],
        "suites": ["sigc01", "fullrx"],
        "spec_filter": r"^spec\.sig (c01|fe) ",
        "technique": "Lean 4 theorems about the discrete chain (sync-word ambiguity, warm-up; digital chain theorem under front-end assumptions) + in-situ correspondence of the link and transport models on tapped real runs + sampled signal-level decoding over the property's line-condition domain",
        "level_text": "PARTIAL by nature: no theorem is about f32 DSP. Proved in Lean: the sync word is four preamble bytes, every misaligned 32-bit window over the preamble is 8 or 24 bit errors away (never within a budget <= 7), warm-up behaviour; one observed burst is delivered exactly once as payload ++ tail (burst_delivered); and the DIGITAL CHAIN composed end to end (Thm/Chain transmission_decoded): for every canonical header H, if the front end delivers what Spec.BurstObserved says for three bursts of H (acquisition within 90 preamble bits, correct hard decisions and equalizer bytes from there, release after the carrier stops) followed by silence for the hold time, with the three segments inside the history window, the voted link-layer tails free of '-' (F7's condition) and the sample counter within one forced-EOM timeout, then link model -> framer -> assembler -> receiver glue emit EXACTLY ONE message event, a StartOfMessage with text exactly H, offset of '+', zero parity count, voting count 0 or |H|; instantiated on a concrete 3-burst stream (demo_decoded). The front-end ASSUMPTIONS were measured against the real DSP and REFINED: the first formalisation (Spec.BurstObserved: open threshold rises exactly when the correlator window is right, and is down in the whole lead and tail) is met by 0 % of 957 real tapped bursts, so Thm/C01r, C01s, ChainR re-prove everything under Spec.StreamObserved — per burst: bits, close threshold and (31 ticks later) open threshold right from an acquisition index acq <= 89, equalizer bytes right, release after the carrier stops; globally: outside the synchronised stretches NO tick has both the open threshold met and a correlator window within maxErrors of the sync word (C01s.stream_bursts, ChainR.stream_decoded, from the INITIAL states). StreamObserved is decidable and its `decide` IS the check the driver runs on every sampled run's taps (C01s.checked_stream_bursts: check = true => the link model delivers exactly the transmitted bursts): per-run certificates, counted in the evidence (suites.sigc01.assumption_checks; quick tier: 779 of 960 bursts, 59 of 160 whole transmissions). Thm/C01t and ChainT generalise once more (Spec.StreamObserved2): per burst a `sync` tick at which the adjusting hit happens, the lead-in run through an abstract squelch automaton (Spec/PreSync preRun, proved to be followed by the link model: preRun_sim) that allows early hits on a partially filled window, hits at a neighbouring bit phase followed by a re-synchronisation, hits dropped at once, and a close-threshold flicker after release; also decidable and decided per run (fe2_all): about 148 of 160 whole transmissions of the quick tier are certified by C01t.checked_stream_bursts2 / ChainT.stream_decoded2; the rest (lead-in under 32 ticks, no alignment) are covered by correspondence and oracle only. The WHOLE transmission is composed too (Thm/TransportFull full_transmission: three header bursts, a release poll, three trailer bursts with any polls => outputs exactly [StartOfMessage H, EndOfMessage], the EndOfMessage at the first trailer burst if the header bursts have expired and at the second otherwise; Thm/ChainFull stream_full2: six observed bursts on one tick stream from the initial states, a hit-free hold between the groups => the message events are exactly [StartOfMessage with text H, EndOfMessage], in that order; instantiated on a 3252-tick stream in ChainFullDemo, thorough tier), with kernel-checked witnesses of what happens when a hypothesis is dropped (no release poll: F4; a third burst after the record expired: F5; a long trailer tail: second StartOfMessage). C03/C06/C07 supply the combiner, parser and framer theorems the chain rests on. Tie: for every sampled transmission the real receiver's tapped observation streams are replayed on the Lean link model and transport/receiver model, which must reproduce the real link states and the real event trace, timestamps included. Sampled: complete transmissions over rates 8..96 kHz (standard and arbitrary), amplitude, DC, phase, sub-sample start, +-1 % baud, pause 1 s +-5 %, noise to 20 dB SNR, lead-in, voice gap; the oracle demands exactly [StartOfMessage H, EndOfMessage].",
        "level_note": "The DSP above the observation boundary (DC block, AGC, matched filters, timing loop, power tracker, equalizer arithmetic) is NOT modelled or proved; it enters as the tapped observation stream. Amplitude domain is [300, 30000] (see DESIGN.md): with normalised +-1 audio and wide gain limits the additive AGC converges too slowly, which the crate documents.",
        "rule": SIG_RULE,
        "exhaustive": False,
        "assumptions": ["FE1-FE4 (acquisition, tracking, release, clock) hold for the real DSP on the property's line conditions: measured on every sampled case (counters fe*), never proved"],
    },
    "C02": {
        "thm": ["SameVerif.Thm.C02", "SameVerif.Thm.C02poll"],
        "suites": ["asmseq", "asmscen", "sigmask"],
        "spec_filter": r"^spec\.(asm|sig) c02 ",
        "technique": "Lean 4 theorems on the assembler model for every header, every poll schedule (two intact bursts are reported exactly once; a single burst never yields a StartOfMessage) + kernel-evaluated counterexample for the known lost-trailer case + correspondence with private state + full 64-mask sweeps at transport and signal level",
        "level_text": "Proved in Lean: combine of two identical canonical headers is exactly that header (voting 0, parity 0); from an empty assembler, two intact bursts within the history window, with ANY polls in between and ANY polls before the hold expires, yield no output until the first poll at or after t2+hold, which outputs exactly StartOfMessage H; a single burst followed by any polls never yields a StartOfMessage (only a lone NN.. burst yields a fast EndOfMessage); three maximum-length bursts at the longest pause fit the history window (over the generated constants); C03.combine_two_of_three covers the corrupted third burst in all orders. The full trailer clause is FALSE today in one region: eom_lost_counterexample evaluates the history H@1000, H@2900, NNNN@3581, NNNN@4262 to [StartOfMessage] only (known finding F4, reproduced on the real receiver at signal level). Tie: hook-level correspondence incl. private state; all 64 presence masks x corruption x gaps x pauses x lengths at transport level with a poll at every idle tick, and all 64 masks at signal level, judged by the C02 oracle.",
        "level_note": "The corrupted-burst clause is now a poll-schedule-generic theorem (Thm/C02poll two_of_three_polls): for every canonical header H, EVERY third burst X (any bytes, any length, empty, NN-prefixed, a truncated or extended H) in any of the three positions, any polls in time order, bursts within the history window: exactly ONE StartOfMessage is output and its text is H. For X first or in the middle the proof forces the hypothesis NoHeaderPrefix H (no proper prefix of H is itself a complete header; true whenever the callsign holds no '-', noHeaderPrefix_of_dashfree_callsign) and the kernel-checked counterexample prefix_header_reported_twice shows what happens without it (a burst cut short inside a callsign with '-' is reported as a shorter header, then H: N2/F7's greedy-callsign family). One open known finding (F4).",
        "rule": ASM_RULE + " sigmask: all 64 presence masks x header-to-trailer gaps x rates at signal level with bursts replaced by silence.",
        "exhaustive": False,
        "assumptions": ["ticks are non-decreasing", "the receiver polls on every NoCarrier tick and never while the link is busy (receiver model, C13)"],
    },
    "C05": {
        "thm": ["SameVerif.Thm.C05", "SameVerif.Thm.C05seq"],
        "suites": ["asmseq", "asmscen", "sigmask", "sigseq"],
        "spec_filter": r"^spec\.(asm c05|asm c05w|asm c05g|sig c05one|sig c05seq) ",
        "technique": "Lean 4 invariants over all assembler operation histories (history bound, duplicate-suppression invariant) lifted to runs: two consecutive reports of the same text are at least MAX_HISTORY_DURATION apart; re-report after the window; kernel-evaluated counterexample for the known duplicate trailer; run-level ORDER theorems (Thm/C05seq): two different headers transmitted one after the other (three or two bursts each, any polls, first one released before the second arrives, gap outside the zone where exactly one burst of the first is still remembered) are reported exactly once each, in the order transmitted; the same header twice is reported once if the repeat ends inside the window and twice if it begins after it (sharp: repeat_straddling_window_reported); for EVERY sorted history the reports follow the burst log (each report is `combine` of a run of at most three consecutive bursts, and the runs' end positions are strictly increasing); kernel-checked counterexamples for what is false (no poll between the transmissions: F8; the one-burst zone: a decode error, or even a never-transmitted shorter header, can be reported in between) + scenario sweeps with subsequence and window oracles",
        "level_text": "Proved in Lean over every sorted operation list from the initial state: the history never holds more than two bursts and every entry is live and bounded; the duplicate-suppression invariant is preserved by idle and assemble; consequently two consecutive message reports with the same text are at least HIST ticks apart (dedup window, measured from the report, exactly HIST long), and a message whose combine succeeds after the previous entry expired is accepted again (re-report). The at-most-once clause is FALSE today for trailers: eom_twice_counterexample evaluates NNNN@100, NNNN@805, NNNN@1510, X@6215 to two EndOfMessage (known finding F5); eom_once_partial states exactly when a second EOM can occur. Tie and exploration as C02; the oracle checks that the reported sequence is an in-order subsequence of the transmitted one (no duplicates) and both edges of the window.",
        "level_note": "Order preservation is proved at transport level (Thm/C05seq reports_in_log_order, som_reports_in_log_order, two_transmissions_in_order and its variants); at signal level it is checked by the subsequence oracle on sweeps. One open known finding (F5).",
        "rule": ASM_RULE,
        "exhaustive": False,
        "assumptions": ["ticks are non-decreasing"],
    },
    "C18": {
        "thm": ["SameVerif.Thm.C18", "SameVerif.Thm.Dsp"],
        "suites": ["sigreset", "dsp"],
        "spec_filter": r"^spec\.c18\.",
        "technique": "Lean 4 theorem on a field-level model of every component's new()/reset() (reset s equals init cfg in every live field, for ANY state) + proof in the link model that the one differing field (equalizer mode) is dead (train() precedes the next use) + field-by-field Debug comparison and event/timestamp comparison against a fresh receiver after resets swept through every phase",
        "level_text": "Proved in Lean: in the field model mirroring DCBlocker/Agc/FskDemod/TimingLoop/CodeAndPowerSquelch/Equalizer/Framer/Assembler/SameReceiver reset code, reset() of ANY state equals a freshly built receiver of the same configuration in every field except the equalizer's training mode; in the link model a receiver whose byte clock is stopped (which reset() and end() guarantee) always re-synchronises first, and a re-synchronisation calls train() before the equalizer is used, so that field cannot influence behaviour. "
                      "Tie (this is the sharp part): after prefixes cut at every phase of a transmission (idle, lead-in, mid-preamble, mid-burst, message pending, hold running, after the report, mid-trailer, random) the real receiver is reset and (i) its Debug rendering is compared field by field with a fresh one modulo exactly the field proved dead, (ii) its events with timestamps on a subsequent clean or impaired transmission are compared with a fresh receiver's; the post-reset run is also replayed on the link/transport models.",
        "level_note": "The field model is hand-written from the reset() methods; its tie to the code is the Debug comparison (sampled over histories, exact per field). Genuine defect F3 found by this check was repaired by a fix: commit (AGC initial gain, timing-loop bandwidth).",
        "rule": "per case: rate in {8000, 22050, 44100}, library-default or samedec configuration, a complete transmission as prefix, reset point by phase (10 phases, cyclic), subsequent transmission with its own random line conditions starting 0..0.3 s after the reset. Non-trivial = every case; distinct by request text.",
        "exhaustive": False,
        "assumptions": ["f32 DSP is a deterministic function of the component states (same state + same input => same output): holds for safe Rust without interior randomness"],
    },
    "C13": {
        "thm": "SameVerif.Thm.C13",
        "suites": ["sigchunk", "sigc01", "signear"],
        "spec_filter": r"^spec\.(c13\.calls|sig c13life) ",
        "technique": "Lean 4 theorems for EVERY per-sample step function about the process()/event-queue/iterator-binding model (drain = queue ++ fold; any partition into bindings, any number of next() calls before dropping a binding: same events, state and sample count; no read-ahead; monotone timestamps) + the same model driven by one-shot traces of the real receiver against real chunked/call-by-call runs",
        "level_text": "Proved in Lean, generically in the step function (so independent of all DSP): draining a binding yields the queued events followed by exactly the events of folding the step over the samples; splitting the stream into any consecutive chunks/bindings, or dropping a binding after any number of next() calls on a by-reference source, changes neither the event list nor the final state nor the consumed-sample count; a call that returns a freshly generated event has consumed exactly up to the sample that generated it, a call served from the queue consumes nothing, None means the source is exhausted and nothing was generated; timestamps never decrease. "
                      "Tie: the same Lean `next` driven by the one-shot trace must predict, call by call, the event and input_sample_counter() of the real receiver under random partitions (1-sample chunks, cuts inside preambles, bursts and hold periods) and call schedules mixing iter_events / iter_messages / next()-then-drop; an independent oracle checks the statement's clauses on the recorded calls; the link-event lifecycle is checked on every signal trace.",
        "level_note": "That the real per-sample processing is a function of the receiver state and the sample (no hidden read-ahead below process()) is what the chunked runs sample.",
        "rule": "sigchunk: per stream (clean or noisy transmission, several rates) 34 (quick) / 160 (thorough) schedules: 0..40 cut points (random, inside bursts, inside preambles, inside hold periods, 1-3-sample chunks) x per-chunk mode (drain, one event per binding, messages only, mixed patterns). Non-trivial = every schedule; distinct by request text.",
        "exhaustive": False,
        "assumptions": [],
    },
    "C09": {
        "thm": ["SameVerif.Thm.C09", "SameVerif.Thm.C09busy"],
        "suites": ["siglong", "framer"],
        "spec_filter": r"^spec\.(sig c09|c07\.stream) ",
        "technique": "Lean 4 invariants and run-level theorem on the receiver glue model (timer armed by every StartOfMessage event, forced EndOfMessage not swallowed by the change filter, every StartOfMessage closed by the first NoCarrier tick after the timeout) + framer length cap/busy bound (C07) + 140 s runs of the real receiver replayed on the models",
        "level_text": "Proved in Lean on the model of process_transportlayer/process(): every StartOfMessage event arms force_eom_at = sample + 135 s * rate; the timer is cleared only by an EndOfMessage; with the timer armed, the first tick whose link state is NoCarrier and whose sample counter is beyond the timeout emits the EndOfMessage event (an invariant shows the change filter cannot swallow it); run-level: after any prefix, a StartOfMessage at sample p is followed by an EndOfMessage or a newer StartOfMessage no later than the first NoCarrier tick after p + 135 s. With C07.busy_bounded/burst_length_bounded (a framer started once returns to idle within 271 bytes; bursts <= 252 bytes - the repaired defect F2) NoCarrier ticks recur. "
                      "Tie: 140-second runs of the real receiver after a header (silence, noise, tone, programme, repeated preambles, an endless carrier of valid characters, garbage FSK, endless preamble, further header, late trailer, lone bursts, back-to-back over-long bursts) are replayed tick by tick on the link and transport models and judged by the C09 oracle (closed within 135 s + 6 s, no burst above 252 bytes).",
        "level_note": "A link that re-synchronises for ever (bit slips every ~34 bits) could postpone NoCarrier indefinitely; the number of re-synchronisations per run is measured (counters.resyncs_bucket) and small for every audio class of the property, not proved.",
        "rule": "siglong: one case per audio class (quick) / 120 cases over rates (thorough), each >= 141 s after the header. framer: see C07. Non-trivial = every case.",
        "exhaustive": False,
        "assumptions": ["NoCarrier ticks recur after the timeout: bounded busy period per start (proved, C07) x bounded number of re-synchronisations (measured)"],
    },
    "C14": {
        "thm": "SameVerif.Thm.C14",
        "suites": ["sigflush", "app"],
        "needs_samedec": True,
        "spec_filter": r"^spec\.(sig (c14|c14ref)|c11) ",
        "technique": "Lean 4 theorems on the receiver model (a pending result is emitted at the first NoCarrier tick at or after its deadline, under the change filter; 4 s of samples contain more ticks than latency + hold) + close-cut recordings at every rate through the real flush() loop",
        "level_text": "Proved in Lean: while a result is pending the reported transport state differs from it (invariant), so the change filter passes it; over any run of NoCarrier ticks that reaches the pending deadline the message event is emitted exactly at the first tick with symbol count >= deadline and the slot is emptied (also in the presence of the forced-EOM timer: first or second due tick); arithmetic over the generated constants: if ticks are at most rate/260 samples apart (half the nominal symbol rate - a deliberately weak clock assumption), 4*rate samples contain >= 1040 ticks > 300 + MAX_INTERBURST_SYMBOLS + 1. "
                      "Sampled on the real receiver: header-only (2 or 3 bursts), full transmissions (2 or 3 trailer bursts) and 252-byte headers, cut at the last sample of the final burst, +1 sample, +2..200 samples and random points up to 2.2 s later, at 3 (quick) / 8 (thorough) rates: messages before the cut plus those from repeated flush() are exactly the transmission's messages, then None twice.",
        "level_note": "The tick rate on zeros and the release latency L are front-end facts (sampled). The command-line clause (\"the command-line program prints them before exiting\") is checked here too: the app suite (real samedec binary; directed end-of-input cases 8..15: a header without trailer or a lone trailer burst cut on the last sample, without and with a child attached at that moment) judged by the C11 printed-output oracle; the state-machine theorems are C11's.",
        "rule": "sigflush: rate x {header3, header2, full3, full2, long_header3} x 7 (quick) / 50 (thorough) cut offsets. Non-trivial = every case.",
        "exhaustive": False,
        "assumptions": ["FE4: the symbol clock on silence stays above half its nominal rate", "release latency <= 300 ticks (sampled)"],
    },
    "C17": {
        "thm": ["SameVerif.Thm.C17", "SameVerif.Thm.Dsp"],
        "suites": ["cfgfuzz", "dsp"],
        "spec_filter": r"^spec\.(c17\.|dsp\.(agc|dc1) )",
        "technique": "Lean 4 theorem that every integer panic guard reachable from build() holds for all documented configurations and rates >= 8 kHz (after the fix of F1) + correspondence of the derived lengths + product of boundary/random values of all 14 builder parameters through the real build() and a short run under catch_unwind",
        "level_text": "Proved in Lean for every rate >= 8000, every DC-blocker length including the documented 0.0, the equalizer disabled or with any requested orders: the DC window, the demodulator window and both equalizer windows have length >= 1 and feedback order <= feed-forward order, i.e. every assert!(len > 0), from_identity(len-1) and usize::clamp(_, 1, nff) reachable from build() is satisfied. The derived lengths of the model are compared with the real receiver's (read from its Debug rendering). "
                      "Sampled: 1500 (quick) / 40000 (thorough) configurations from the product of special values, clamping edges, values beyond the clamps and random values of all parameters x rates 8000..192000, each built and run on a burst under catch_unwind with overflow checks on. The genuine defect F1 (DC length 0.0 panics) found by this check was repaired by a fix: commit.",
        "level_note": "Float guards (f32::clamp argument order: min <= max for the AGC limits is the documented precondition; NaN is outside 'finite values') are preconditions of the domain, not theorems. The samedec command-line options are exercised in the app suite (C11).",
        "rule": "cfgfuzz: every parameter drawn from its documented special values, clamping edges, out-of-range values and random values; gain limits incl. zero, negative, equal, 1e-30..1e30; counts 0..u32::MAX; rates incl. 8000, 8001, 192000 and random. Non-trivial = every configuration; distinct by request text.",
        "exhaustive": False,
        "assumptions": ["documented domain: finite values, AGC min <= max, rate >= 8000; DC-blocker length <= 100 symbols and rate <= 192000 to bound memory/time"],
        "spec_ops": {"spec.c17.run": "cfg.run"},
    },
    "C11": {
        "thm": "SameVerif.Thm.C11",
        "suites": ["app"],
        "needs_samedec": True,
        "spec_filter": r"^spec\.(c11|c17\.opts) ",
        "technique": "Lean 4 theorems on the Waiting/Alerting state-machine model for EVERY receiver message trace and every child oracle (printed = library messages then flushed messages, in order; nothing when quiet) + the real samedec binary on synthesized recordings against the in-process library reference and the model",
        "level_text": "Proved in Lean for every input (message trace with sample positions + flushed messages), every spawn oracle, child configured or not: the printed sequence is exactly the messages decoded while input lasts followed by those completed by flush at end of input, one per message, in order; --quiet prints nothing; the fuel of the model is never exhausted (equality with a fuel-free walk). By C13 the message trace does not depend on how app.rs re-binds iterators. "
                      "Tie: the built samedec binary (from the working tree) is run on synthesized recordings - 0..4 transmissions, lossy or not, close-cut or padded, odd trailing byte, 6 rates, file and stdin input, -v levels, --quiet, with and without a recorder child - and its stdout, exit status and recorded children must equal the Lean model's prediction computed from the in-process library reference (same builder settings as main.rs); the C11 oracle compares stdout with the library messages directly. The documented special option values (e.g. --dc-blocker-len 0) must not abort the program.",
        "level_note": "clap argument parsing, the logger's stream, process I/O are observed, not modelled. --demo mode is out of scope.",
        "rule": "app: 28 (quick) / 400 (thorough) runs: recording shape x rate x quiet x child x verbosity x file/stdin, plus 9 option-value runs. Non-trivial = every run; distinct by request text.",
        "exhaustive": False,
        "assumptions": ["OS: process spawn, pipes and wait behave as documented"],
    },
    "C12": {
        "thm": "SameVerif.Thm.C12",
        "suites": ["app"],
        "needs_samedec": True,
        "spec_filter": r"^spec\.c12(\.wait)? ",
        "technique": "Lean 4 theorems on the app model (exactly one child per StartOfMessage; the k-th child's stdin is the half-open sample range from its header's position to the next message's position or end of input; ranges in bounds, ordered, non-overlapping; one spawn attempt per StartOfMessage) + recorder child dumping environment and stdin, compared byte for byte, + Lean oracle restating the environment from the header model",
        "level_text": "Proved in Lean for every message trace: with a child configured and spawns succeeding the children are exactly expectedChildren (one per StartOfMessage, in order, each fed samples [position of its header, position of the next message or end of input)); for ANY oracle the children are a sublist of that specification (a failed spawn removes only that child), every StartOfMessage gets exactly one spawn attempt, ranges are within the input, ordered and non-overlapping; no child and no attempt without configuration. "
                      "Tie: a recorder child dumps SAMEDEC_* and its stdin for every spawn; the harness checks the stdin bytes equal the exact input slice and the Lean oracle re-derives every variable from the header text with the C06/C16/C15 models: MSG, RATE, ORG, ORIGINATOR, EVT, EVENT, SIGNIFICANCE, SIG_NUM, LOCATIONS (space-separated), IS_NATIONAL, and PURGETIME - ISSUETIME = validity duration.",
        "level_note": "The environment is also a MODEL (Model/Spawner childEnv: all twelve SAMEDEC_* variables incl. ISSUETIME/PURGETIME as epoch seconds from the Time model), compared byte for byte with what the recorder child saw (op app.env, clock = UTC year/day bracketing the run; skipped and counted if the date changed), and proved to restate the header fields for every accepted header and clock (env_restates_header, env_total). The oracle judges PURGETIME - ISSUETIME independently. OS pipe/spawn/wait are assumed.",
        "rule": "app: the runs with a child (half of all runs): recordings with 1..3 messages incl. header directly after header and missing trailers, all grammar-generated headers. Non-trivial = every run.",
        "exhaustive": False,
        "assumptions": ["OS: a pipe delivers the bytes written, in order; wait() returns after the child exits"],
    },
    "C19": {
        "thm": "SameVerif.Thm.C19",
        "suites": ["appfault"],
        "needs_samedec": True,
        "spec_filter": r"^spec\.c19 ",
        "technique": "Lean 4 theorem that the printed sequence of the app model is independent of the child-behaviour oracle (and equals the reference), with model-level termination + fault-injecting children (missing, non-executable, exit 0/1, close stdin and linger, partial read, slow reader, killed) assigned to each message of real runs",
        "level_text": "Proved in Lean: for every message trace and ANY two child oracles the printed sequences coincide and (when not quiet) equal the library's messages, every message printed exactly once; the state machine's recursion is bounded by the number of messages. "
                      "Fault enumeration on the real binary: for recordings with 1..3 messages every behaviour from {missing executable, non-executable file, exit 0 at once, exit 1 at once, close stdin then linger, read partially then exit, slow reader, killed by SIGKILL} is assigned to each message position (quick: each once per position; thorough: all 8^n for n <= 2 plus random assignments); stdout must equal the run without a child, exit status 0, wall clock < 30 s.",
        "level_note": "That a write to a closed pipe returns EPIPE instead of killing the process (Rust ignores SIGPIPE) and that wait() returns once the child has exited are OS axioms; they are exactly what the fault runs exercise.",
        "rule": "appfault: (recording with n messages) x (assignment of behaviours). Non-trivial = every run; evaluations counts runs.",
        "exhaustive": False,
        "assumptions": ["OS: EPIPE on write to a closed pipe with SIGPIPE ignored; wait() returns after exit"],
    },
    "C10": {
        "thm": ["SameVerif.Thm.C10", "SameVerif.Thm.Dsp"],
        "suites": ["sighostile", "dsp", "fullrx"],
        "spec_filter": r"^spec\.(sig c10|dsp\.(agc|tl|clock)) ",
        "technique": "Lean 4 theorems on the link model from EVERY invariant-satisfying state (32 ticks below both thresholds return it to unsynchronised/unlocked/idle and emit a frame in progress; after 64 such ticks all future behaviour equals a cold-started link's) + hostile-prefix audio library through the real receiver under catch_unwind, replayed on the models",
        "level_text": "PARTIAL by nature (float finiteness and AGC/timing recovery are sampled). Proved in Lean for the discrete link layer: a structural invariant holds in every reachable state; from ANY state satisfying it - mid-burst, locked, framer reading, any correlator/power-history contents - 32 symbol ticks with power below both thresholds (bits and equalizer bytes arbitrary) leave the byte clock stopped, the lock released and the framer idle, and a frame in progress is emitted, not lost (the bound 32 is tight); a quiet unsynchronised link stays quiet; correlator and power history forget everything older than 32 ticks; consequently after 64 such ticks the link's answers to EVERY future input equal those of a cold-started link that heard the same last 32 ticks (bisimulation, equalizer-training field dead). The only partial operation on that path (`power_history.front().expect`) is shown to be safe. "
                      "Sampled: 60 (quick) / 1500 (thorough) hostile prefixes composed of 1..5 segments from 12 generators (random and boundary samples to +-2^20, clipping squares, DC steps, truncated and malformed transmissions, endless preamble, garbage carrier, level jumps, impulses, ramps, noise), then >= 1 s of quiet and a C01 transmission: no panic (catch_unwind, overflow checks on), exact decode of the final transmission, no non-finite number in the Debug rendering; every run is replayed on the link and transport models.",
        "level_note": "No theorem about f32: overflow/NaN-freedom for |x| <= 2^20 within the documented gain range is an informal bound (DESIGN.md §6 C10) exercised by the suite. Open known finding F6 (marginal decode at >= 88.2 kHz with baud error) applies to the final transmission here as well.",
        "rule": "sighostile: prefix segments drawn with replacement from the 12 generators, random durations; rate from the standard set and random; both configurations. Non-trivial = every case.",
        "exhaustive": False,
        "assumptions": ["FE3: after the carrier stops the smoothed power falls below both thresholds (sampled)", "non-finite input samples are outside the domain"],
    },
}
