#!/bin/sh
# usage: tools/try_seed.sh <patch.diff> <ID> [<ID>...]   — apply a seeded change to /repo, run the checks, ALWAYS undo it
# re-exec under the /repo-state lock
if [ -z "$TRY_SEED_LOCKED" ]; then TRY_SEED_LOCKED=1 exec /verif/tools/locked.sh env TRY_SEED_LOCKED=1 "$0" "$@"; fi
patch="$1"; shift
cd /repo || exit 2
if ! git diff --quiet; then echo "/repo has uncommitted changes; refusing"; exit 2; fi
git apply "$patch" || { echo "patch does not apply"; exit 2; }
trap 'git -C /repo checkout -- . ; git -C /repo clean -fdq crates 2>/dev/null' EXIT
cd /verif
for id in "$@"; do
  echo "=== ./check $id on seeded tree"
  ./check "$id" > /verif/work/seed_$id.log 2>&1
  echo "exit=$?"
  grep -E "^VIOLATION|^KNOWN-FINDING" /verif/work/seed_$id.log | cut -c1-200 | head -5
  tail -1 /verif/work/seed_$id.log | cut -c1-300
done
