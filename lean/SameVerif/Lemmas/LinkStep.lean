import SameVerif.Lemmas.LinkRun
/- One tick of the link model, case by case (support for C01). -/
namespace SameVerif

/-- the correlator error the tick computes -/
def errOf (s : LState) (o : Obs) : Nat := popcount32 (SYNC_WORD ^^^ corrPush s.corr o.bit)
/-- the oldest power-history entry the tick looks at -/
def headOf (s : LState) (o : Obs) : Bool := (push32 s.pwr o.closeOk).headD true
/-- a sync hit is impossible at this tick -/
def NoHit (c : LCfg) (s : LState) (o : Obs) : Prop :=
  s.lock = true ∨ o.openOk = false ∨ c.maxErrors < errOf s o

theorem hit_false (c : LCfg) (s : LState) (o : Obs) (h : NoHit c s o) :
    (!s.lock && decide (popcount32 (SYNC_WORD ^^^ ((s.corr >>> 1) ||| ((if o.bit then (1 : UInt32) else 0) <<< 31))) ≤ c.maxErrors) && o.openOk) = false := by
  rcases h with h | h | h
  · simp [h]
  · simp [h]
  · have : ¬ popcount32 (SYNC_WORD ^^^ ((s.corr >>> 1) ||| ((if o.bit then (1 : UInt32) else 0) <<< 31))) ≤ c.maxErrors := by
      unfold errOf corrPush at h; omega
    simp [this]

/-- unsynchronised, idle, no hit: nothing happens -/
theorem lstep_quiet (c : LCfg) (s : LState) (o : Obs) (b : Byte)
    (h1 : 31 ≤ s.nsym) (hc : s.clock = none) (hf : s.fr = .idle) (hno : NoHit c s o) :
    (lstep c s o b).2.1 = .noCarrier ∧ (lstep c s o b).1.clock = none
      ∧ (lstep c s o b).1.lock = s.lock ∧ (lstep c s o b).1.fr = .idle
      ∧ (lstep c s o b).1.train = s.train := by
  have hh := hit_false c s o hno
  have h2 : ¬ s.nsym + 1 < 32 := by omega
  simp [lstep, h2, hh, hc, hf, fend]

/-- the hit expression of `lstep`, named -/
def hitOf (c : LCfg) (s : LState) (o : Obs) : Bool :=
  !s.lock && decide (popcount32 (SYNC_WORD ^^^ ((s.corr >>> 1) ||| ((if o.bit then (1 : UInt32) else 0) <<< 31))) ≤ c.maxErrors) && o.openOk

/-- first synchronisation from the quiescent state -/
theorem lstep_sync (c : LCfg) (s : LState) (o : Obs) (b : Byte)
    (h1 : 31 ≤ s.nsym) (hc : s.clock = none) (hl : s.lock = false) (hf : s.fr = .idle)
    (ho : o.openOk = true) (he : errOf s o ≤ c.maxErrors) (hp : c.fc.maxPrefixErr < 15) :
    (lstep c s o b).2.1 = .searching ∧ (lstep c s o b).1.clock = some 1
      ∧ (lstep c s o b).1.lock = false ∧ (lstep c s o b).1.fr = .search 0xAB 1
      ∧ (lstep c s o b).1.train = 3 ∧ (lstep c s o b).2.2 = some true := by
  have h2 : ¬ s.nsym + 1 < 32 := by omega
  have he' : popcount32 (SYNC_WORD ^^^ ((s.corr >>> 1) ||| ((if o.bit then (1 : UInt32) else 0) <<< 31))) ≤ c.maxErrors := he
  have hw : PREAMBLE_BYTE.toUInt32 = 0xAB := by decide
  have hpe : prefixErrors (0xAB : UInt32) = 15 := by decide +kernel
  have hq : ¬ 15 ≤ c.fc.maxPrefixErr := by omega
  have hs : ¬ (0 + 1 > Gen.PREFIX_SEARCH_LEN) := by decide
  simp [lstep, h2, hc, hl, hf, ho, he', fend, finput, finputNR, hw, hpe, hq, hs]

/-- a non-byte tick while synchronised -/
theorem lstep_tick (c : LCfg) (s : LState) (o : Obs) (b : Byte) (k : Nat)
    (h1 : 31 ≤ s.nsym) (hc : s.clock = some k) (hk : 1 ≤ k) (hno : NoHit c s o)
    (hh : headOf s o = true) :
    (lstep c s o b).2.1 = fstate s.fr ∧ (lstep c s o b).1.clock = some ((k + 1) % 8)
      ∧ (lstep c s o b).1.lock = s.lock ∧ (lstep c s o b).1.fr = s.fr
      ∧ (lstep c s o b).1.train = s.train := by
  have hhit := hit_false c s o hno
  have h2 : ¬ s.nsym + 1 < 32 := by omega
  obtain ⟨k', rfl⟩ : ∃ k', k = k' + 1 := ⟨k - 1, by omega⟩
  unfold headOf at hh
  rw [List.headD_eq_head?_getD] at hh
  simp [lstep, h2, hhit, hc, hh]

/-- the carrier is dropped -/
theorem lstep_drop (c : LCfg) (s : LState) (o : Obs) (b : Byte) (k : Nat)
    (h1 : 31 ≤ s.nsym) (hc : s.clock = some k) (hno : NoHit c s o)
    (hh : headOf s o = false) :
    (lstep c s o b).2.1 = (fend s.fr).2 ∧ (lstep c s o b).1.clock = none
      ∧ (lstep c s o b).1.lock = false ∧ (lstep c s o b).1.fr = (fend s.fr).1 := by
  have hhit := hit_false c s o hno
  have h2 : ¬ s.nsym + 1 < 32 := by omega
  unfold headOf at hh
  rw [List.headD_eq_head?_getD] at hh
  simp [lstep, h2, hhit, hc, hh, LState.endRx]

/-- a byte tick that is not a resynchronisation -/
theorem lstep_byte (c : LCfg) (s : LState) (o : Obs) (b : Byte)
    (h1 : 31 ≤ s.nsym) (hc : s.clock = some 0) (hh : headOf s o = true) :
    let byte := if s.train > 0 then PREAMBLE_BYTE else b
    let r := finputNR c.fc s.fr byte
    (lstep c s o b).2.1 = r.2 ∧ (lstep c s o b).1.fr = r.1
      ∧ (lstep c s o b).1.train = s.train - 1
      ∧ (lstep c s o b).1.clock = (match r.2 with | .reading => some 1 | .searching => some 1 | _ => none)
      ∧ (lstep c s o b).1.lock = (match r.2 with | .reading => true | .searching => s.lock | _ => false) := by
  intro byte r
  have h2 : ¬ s.nsym + 1 < 32 := by omega
  unfold headOf at hh
  rw [List.headD_eq_head?_getD] at hh
  have hr : finputNR c.fc s.fr (if s.train > 0 then PREAMBLE_BYTE else b) = r := rfl
  by_cases hhit : hitOf c s o = true
  · unfold hitOf at hhit
    simp only [lstep, h2, hhit, hc, hh, finput, LState.endRx, if_false, if_true]
    simp
    rw [hr]
    cases r.2 <;> simp
  · have hhit' : hitOf c s o = false := by simpa using hhit
    unfold hitOf at hhit'
    simp only [lstep, h2, hhit', hc, hh, finput, LState.endRx, if_false, if_true]
    simp [hh]
    rw [hr]
    cases r.2 <;> simp

end SameVerif
