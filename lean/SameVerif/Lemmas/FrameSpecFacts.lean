import SameVerif.Lemmas.FramerRefine
/- Facts about the index-based specification `Spec.linkAt`, and the link to `feedStart` (C07). -/
namespace SameVerif
open SameVerif.Spec

def LinkSt.isBurst : LinkSt → Bool
  | .burst _ => true
  | _ => false

theorem max_burst_ge_four : 4 ≤ Gen.MAX_BURST_LENGTH := by decide
theorem prefix_search_pos : 1 ≤ Gen.PREFIX_SEARCH_LEN := by decide

/-! ### spec side -/

theorem specStates_length (pb ib : Nat) (bs : List Byte) : (specStates pb ib bs).length = bs.length := by
  simp [specStates]

theorem specStates_getElem (pb ib : Nat) (bs : List Byte) (i : Nat) (hi : i < bs.length) :
    (specStates pb ib bs)[i]'(by rw [specStates_length]; exact hi) = linkAt pb ib bs (i + 1) := by
  simp [specStates]

/-- the first byte of a start always reports `searching` -/
theorem linkAt_one (pb ib : Nat) (bs : List Byte) : linkAt pb ib bs 1 = .searching := by
  unfold linkAt
  split
  · rw [if_pos prefix_search_pos]
  · next k0 hs =>
    have hk1 := (startIndex_some hs).1
    by_cases h : 1 < k0
    · rw [if_pos h]
    · have : k0 = 1 := by omega
      subst this
      rw [if_neg h, if_pos (by simp), if_pos (by simp)]

/-- the only way the spec reports a burst -/
theorem linkAt_burst {pb ib : Nat} {bs : List Byte} {i : Nat} {b : List Byte}
    (h : linkAt pb ib bs i = .burst b) :
    ∃ k0 je, startIndex pb bs = some k0 ∧ endIndex ib (bs.drop k0) = some je ∧ i = k0 + je
      ∧ b = windowAt bs k0 ++ (bs.drop k0).take (je - 1) := by
  unfold linkAt at h
  split at h
  · split at h <;> cases h
  · next k0 hs =>
    split at h
    · cases h
    · split at h
      · split at h <;> cases h
      · simp only [] at h
        split at h
        · cases h
        · next je he =>
          split at h
          · cases h
          · split at h
            · next h1 h2 h3 hje =>
              refine ⟨k0, je, hs, he, ?_, ?_⟩
              · have := beq_iff_eq.mp hje
                omega
              · injection h with h; exact h.symm
            · cases h

theorem linkAt_after_end {pb ib : Nat} {bs : List Byte} {k0 je i : Nat}
    (hs : startIndex pb bs = some k0) (he : endIndex ib (bs.drop k0) = some je)
    (hi : k0 + je < i) : linkAt pb ib bs i = .noCarrier := by
  have e1 := (endIndex_some he).1
  unfold linkAt
  rw [hs]
  simp only [he]
  rw [if_neg (by omega), if_neg (by simp; omega), if_neg (by omega), if_neg (by simp; omega)]

theorem linkAt_none {pb ib : Nat} {bs : List Byte} (hs : startIndex pb bs = none) (i : Nat) :
    linkAt pb ib bs i = if i ≤ Gen.PREFIX_SEARCH_LEN then .searching else .noCarrier := by
  unfold linkAt
  rw [hs]

/-- the burst that ends at `je` holds at most `MAX_BURST_LENGTH` bytes -/
theorem endIndex_bound {ib : Nat} {ds : List Byte} {je : Nat} (he : endIndex ib ds = some je) :
    4 + (je - 1) ≤ Gen.MAX_BURST_LENGTH := by
  obtain ⟨e1, e2, e3, e4⟩ := endIndex_some he
  have h4 := max_burst_ge_four
  by_cases h : je = 1
  · omega
  · have := e4 (je - 1) (by omega) (by omega)
    omega

/-- a burst cannot stay open: the length cap ends it -/
theorem endIndex_exists {ib : Nat} {ds : List Byte}
    (hlen : Gen.MAX_BURST_LENGTH - 4 + 1 ≤ ds.length) :
    ∃ je, endIndex ib ds = some je ∧ je ≤ Gen.MAX_BURST_LENGTH - 4 + 1 := by
  have h4 := max_burst_ge_four
  cases he : endIndex ib ds with
  | none =>
    have := endIndex_none he (Gen.MAX_BURST_LENGTH - 4 + 1) (by omega) hlen
    omega
  | some je =>
    refine ⟨je, rfl, ?_⟩
    obtain ⟨e1, e2, e3, e4⟩ := endIndex_some he
    by_cases h : je ≤ Gen.MAX_BURST_LENGTH - 4 + 1
    · exact h
    · have := e4 (Gen.MAX_BURST_LENGTH - 4 + 1) (by omega) (by omega)
      omega

/-- one start keeps the link busy for a bounded number of bytes -/
theorem linkAt_busy_bounded (pb ib : Nat) (bs : List Byte) (i : Nat) (hi : i ≤ bs.length)
    (hb : Gen.PREFIX_SEARCH_LEN + 1 + (Gen.MAX_BURST_LENGTH - 4) + 1 < i) :
    linkAt pb ib bs i = .noCarrier := by
  cases hs : startIndex pb bs with
  | none => rw [linkAt_none hs, if_neg (by omega)]
  | some k0 =>
    obtain ⟨hk1, hk2, hk3, _, _⟩ := startIndex_some hs
    obtain ⟨je, he, hje⟩ := endIndex_exists (ib := ib) (ds := bs.drop k0)
      (by rw [List.length_drop]; omega)
    exact linkAt_after_end hs he (by omega)

/-! ### model side -/

/-- a restart from a state that is not `.read` reports `searching` and forgets the old state -/
theorem finput_restart_notRead (c : FCfg) (s0 : FState) (b : Byte)
    (h0 : s0 = .idle ∨ ∃ w n, s0 = .search w n) :
    finput c s0 b true = ((finputNR c (.search 0 0) b).1, .searching) := by
  rcases h0 with rfl | ⟨w, n, rfl⟩ <;> simp [finput, fend]

/-- the state after a restart never depends on the state before it -/
theorem finput_restart_state (c : FCfg) (s0 : FState) (b : Byte) :
    (finput c s0 b true).1 = (finputNR c (.search 0 0) b).1 := by
  cases s0 <;> simp only [finput, fend, if_true] <;> split <;> rfl

theorem feedStart_getElem_zero (c : FCfg) (s0 : FState) (bs : List Byte)
    (h0 : s0 = .idle ∨ ∃ w n, s0 = .search w n) (h : 0 < bs.length) :
    (feedStart c s0 bs)[0]'(by rw [feedStart_length]; exact h) = .searching := by
  cases bs with
  | nil => simp at h
  | cons b bs => simp [feedStart, finput_restart_notRead c s0 b h0]

theorem feedStart_getElem_pos (c : FCfg) (s0 : FState) (bs : List Byte) (i : Nat)
    (hi : i < bs.length) (h1 : 1 ≤ i) :
    (feedStart c s0 bs)[i]'(by rw [feedStart_length]; exact hi)
      = linkAt c.maxPrefixErr c.maxInvalid bs (i + 1) := by
  rw [← out_eq_linkAt c bs i hi h1]
  cases bs with
  | nil => simp at hi
  | cons b bs =>
    obtain ⟨i, rfl⟩ : ∃ i', i = i' + 1 := ⟨i - 1, by omega⟩
    simp only [feedStart, List.getElem_cons_succ, stAfter, List.take_succ_cons, feedState]
    rw [feed_getElem c _ bs i (by simpa using hi), finput_restart_state]

/-! ### bursts in the output of one start -/

/-- a burst reported by a start is reported on some byte `i + 1 ≥ 2`, by the spec's burst clause -/
theorem burst_mem (c : FCfg) (s0 : FState) (bs : List Byte)
    (h0 : s0 = .idle ∨ ∃ w n, s0 = .search w n) (b : List Byte)
    (hb : .burst b ∈ feedStart c s0 bs) :
    ∃ i, i < bs.length ∧ linkAt c.maxPrefixErr c.maxInvalid bs (i + 1) = .burst b := by
  obtain ⟨i, hi, hib⟩ := List.getElem_of_mem hb
  have hi' : i < bs.length := by rw [feedStart_length] at hi; exact hi
  cases i with
  | zero => rw [feedStart_getElem_zero c s0 bs h0 hi'] at hib; cases hib
  | succ i =>
    rw [feedStart_getElem_pos c s0 bs (i + 1) hi' (by omega)] at hib
    exact ⟨i + 1, hi', hib⟩

/-- after a burst, only `noCarrier` (indexed form) -/
theorem after_burst (c : FCfg) (s0 : FState) (bs : List Byte)
    (h0 : s0 = .idle ∨ ∃ w n, s0 = .search w n) (i j : Nat) (b : List Byte)
    (hi : i < (feedStart c s0 bs).length) (hj : j < (feedStart c s0 bs).length) (hij : i < j)
    (hb : (feedStart c s0 bs)[i] = .burst b) : (feedStart c s0 bs)[j] = .noCarrier := by
  have hi' : i < bs.length := by rw [feedStart_length] at hi; exact hi
  have hj' : j < bs.length := by rw [feedStart_length] at hj; exact hj
  cases i with
  | zero => rw [feedStart_getElem_zero c s0 bs h0 hi'] at hb; cases hb
  | succ i =>
    rw [feedStart_getElem_pos c s0 bs (i + 1) hi' (by omega)] at hb
    obtain ⟨k0, je, hs, he, hije, _⟩ := linkAt_burst hb
    rw [feedStart_getElem_pos c s0 bs j hj' (by omega)]
    exact linkAt_after_end hs he (by omega)

/-! ### a list fact -/

theorem filter_length_le_one {α : Type} (p : α → Bool) (l : List α)
    (h : ∀ i j (hi : i < l.length) (hj : j < l.length), i < j → p l[i] = true → p l[j] = false) :
    (l.filter p).length ≤ 1 := by
  induction l with
  | nil => simp
  | cons x xs ih =>
    have ih' := ih (fun i j hi hj hij hp =>
      h (i + 1) (j + 1) (by simpa using hi) (by simpa using hj) (by omega) (by simpa using hp))
    by_cases hx : p x = true
    · have hall : xs.filter p = [] := by
        rw [List.filter_eq_nil_iff]
        intro a ha
        obtain ⟨j, hj, rfl⟩ := List.getElem_of_mem ha
        have := h 0 (j + 1) (by simp) (by simpa using hj) (by omega) (by simpa using hx)
        simpa using this
      simp [hx, hall]
    · simp [hx, ih']

end SameVerif
