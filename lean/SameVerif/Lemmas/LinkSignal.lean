import SameVerif.Lemmas.LinkSync
import SameVerif.Spec.FrontEnd2
/-
  What the front-end assumptions of one burst say about each tick of `body ++ tail`
  (support for C01): sync hits, power history, equalizer bytes.
-/
namespace SameVerif
open SameVerif.Spec

section
variable {pl : List Byte} {lead body tail : List Tick} {acq rel : Nat}

theorem xs_body (body tail : List Tick) (t : Nat) (h : t < body.length) :
    (body ++ tail)[t]'(by rw [List.length_append]; omega) = body[t] :=
  List.getElem_append_left h

theorem xs_tail (body tail : List Tick) (t : Nat) (h1 : body.length ≤ t) (h2 : t < (body ++ tail).length) :
    (body ++ tail)[t] = tail[t - body.length]'(by rw [List.length_append] at h2; omega) :=
  List.getElem_append_right h1

/-- no hit at a body tick before `acq + 31`: by hypothesis (`BTNoHit`), stated on the model's state -/
theorem noHit_early {c : LCfg} {s1 : LState} (N : BTNoHit c s1 body tail acq) (t : Nat)
    (h1 : t < acq + 31) (h2 : t < body.length) :
    NoHit c (lrunState c s1 ((body ++ tail).take t)) ((body ++ tail)[t]'(by rw [List.length_append]; omega)).1 :=
  N.early t h1 _ (List.getElem?_eq_getElem _)

/-- no hit at a tail tick: by hypothesis -/
theorem noHit_tail {c : LCfg} {s1 : LState} (N : ∀ t, body.length ≤ t → NoHitAt c s1 (body ++ tail) t) (t : Nat)
    (h1 : body.length ≤ t) (h2 : t < (body ++ tail).length) :
    NoHit c (lrunState c s1 ((body ++ tail).take t)) ((body ++ tail)[t]).1 :=
  N t h1 _ (List.getElem?_eq_getElem _)

theorem open_body (H : BurstObserved' pl body tail acq rel) (t : Nat)
    (h1 : acq + 31 ≤ t) (h2 : t < body.length) :
    ((body ++ tail)[t]'(by rw [List.length_append]; omega)).1.openOk = true := by
  rw [xs_body body tail t h2]
  exact H.open_ok t h2 h1

/-- once 32 correct bits are in the correlator, its error is the window error of the frame -/
theorem err_body (H : BurstTracked pl body tail acq rel) (c : LCfg) (s : LState) (t : Nat)
    (h1 : acq + 31 ≤ t) (h2 : t < body.length) :
    errOf (lrunState c s ((body ++ tail).take t)) ((body ++ tail)[t]'(by rw [List.length_append]; omega)).1
      = werr (frameOf pl) t := by
  rw [errOf_run c s (body ++ tail) t (by omega) (by rw [List.length_append]; omega)]
  unfold werr
  apply List.countP_congr
  intro i hi
  have hi : i < 32 := List.mem_range.mp hi
  have hm : t - 31 + i < body.length := by omega
  have hb : bitAt (body ++ tail) (t - 31 + i) = frameBit (frameOf pl) (t - 31 + i) := by
    unfold bitAt
    rw [List.getElem?_append_left hm, List.getElem?_eq_getElem hm]
    simp only [Option.map_some, Option.getD_some]
    rw [H.bits_ok _ hm (by omega), bitsOf_getD]
  rw [hb]

theorem head_true (H : BurstTracked pl body tail acq rel) (c : LCfg) (s : LState) (t : Nat)
    (h1 : acq + 31 ≤ t) (h2 : t < body.length + 31 + rel) (h3 : t < (body ++ tail).length) :
    headOf (lrunState c s ((body ++ tail).take t)) ((body ++ tail)[t]).1 = true := by
  rw [headOf_run c s (body ++ tail) t (by omega) h3]
  by_cases hb : t - 31 < body.length
  · rw [xs_body body tail _ hb]
    exact H.close_ok _ hb (by omega)
  · rw [xs_tail body tail _ (by omega) (by omega)]
    exact H.rel_hold _ _ (by omega)

theorem head_false (H : BurstTracked pl body tail acq rel) (c : LCfg) (s : LState) (t : Nat)
    (h2 : body.length + 31 + rel = t) (h3 : t < (body ++ tail).length) :
    headOf (lrunState c s ((body ++ tail).take t)) ((body ++ tail)[t]).1 = false := by
  rw [headOf_run c s (body ++ tail) t (by omega) h3]
  rw [xs_tail body tail _ (by omega) (by omega)]
  have e : t - 31 - body.length = rel := by omega
  simp only [e]
  exact H.rel_drop _

/-- the equalizer's decision at the byte tick that ends correlator byte `q` is transmitted byte `q - 3` -/
theorem eq_byte (H : BurstTracked pl body tail acq rel) (q : Nat) (h3 : 3 ≤ q)
    (hq : q - 3 < (frameOf pl).length) (hlt : 8 * q + 7 < (body ++ tail).length) :
    ((body ++ tail)[8 * q + 7]).2 = (frameOf pl).getD (q - 3) 0 := by
  have hlen := H.body_len
  by_cases hb : 8 * q + 7 < body.length
  · rw [xs_body body tail _ hb]
    have := H.eq_ok (q - 3) (by omega) (by rw [show q - 3 + 3 = q by omega]; exact hb)
    simp only [show q - 3 + 3 = q by omega] at this
    exact this
  · rw [xs_tail body tail _ (by omega) hlt]
    have hm : q - (frameOf pl).length < 3 := by omega
    have e : 8 * q + 7 - body.length = 8 * (q - (frameOf pl).length) + 7 := by omega
    have hk : 8 * (q - (frameOf pl).length) + 7 < tail.length := by
      rw [List.length_append] at hlt; omega
    have := H.eq_tail (q - (frameOf pl).length) hm hk
    have hq2 : (frameOf pl).length ≤ q := by omega
    have hfl := frame_length pl
    have e2 : (frameOf pl).length - 3 + (q - (frameOf pl).length) = q - 3 := by omega
    simp only [e]
    rw [this, e2]

end
end SameVerif
