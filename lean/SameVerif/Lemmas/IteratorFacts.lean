import SameVerif.Model.IteratorRun
/-
  Helper lemmas for C13: `foldEvents`, `pull`, `next` characterised for an arbitrary `step`.
-/
namespace SameVerif

variable {σ α ε : Type}

/-- no sample of the list generates an event (starting from state `s`) -/
def Silent (step : σ → α → σ × List ε) : σ → List α → Prop
  | _, [] => True
  | s, x :: xs => (step s x).2 = [] ∧ Silent step (step s x).1 xs

/-- what a receiver still owes: the queued events, then those its samples will generate -/
def owed (step : σ → α → σ × List ε) (r : Rx σ ε) (src : List α) : List ε :=
  r.queue ++ (foldEvents step r.st src).1

theorem foldEvents_nil (step : σ → α → σ × List ε) (s : σ) : foldEvents step s [] = ([], s) := rfl

theorem foldEvents_cons (step : σ → α → σ × List ε) (s : σ) (x : α) (xs : List α) :
    foldEvents step s (x :: xs)
      = ((step s x).2 ++ (foldEvents step (step s x).1 xs).1, (foldEvents step (step s x).1 xs).2) := rfl

theorem foldEvents_append (step : σ → α → σ × List ε) (s : σ) (xs ys : List α) :
    foldEvents step s (xs ++ ys)
      = ((foldEvents step s xs).1 ++ (foldEvents step (foldEvents step s xs).2 ys).1,
         (foldEvents step (foldEvents step s xs).2 ys).2) := by
  induction xs generalizing s with
  | nil => simp [foldEvents_nil]
  | cons x xs ih => simp [foldEvents_cons, ih]

theorem silent_iff_fold (step : σ → α → σ × List ε) (s : σ) (xs : List α) :
    Silent step s xs ↔ (foldEvents step s xs).1 = [] := by
  induction xs generalizing s with
  | nil => simp [Silent, foldEvents_nil]
  | cons x xs ih => simp [Silent, foldEvents_cons, ih]

/-- `Silent` spelled out sample by sample -/
theorem silent_iff_forall (step : σ → α → σ × List ε) (s : σ) (xs : List α) :
    Silent step s xs ↔
      ∀ pre x post, xs = pre ++ x :: post → (step (foldEvents step s pre).2 x).2 = [] := by
  induction xs generalizing s with
  | nil =>
    simp [Silent]
  | cons y ys ih =>
    simp only [Silent, ih]
    constructor
    · rintro ⟨h0, h⟩ pre x post heq
      cases pre with
      | nil =>
        simp at heq
        rw [← heq.1]; exact h0
      | cons p pre =>
        simp at heq
        rw [foldEvents_cons]
        obtain ⟨rfl, heq⟩ := heq
        exact h pre x post heq
    · intro h
      refine ⟨h [] y ys rfl, ?_⟩
      intro pre x post heq
      have := h (y :: pre) x post (by simp [heq])
      rw [foldEvents_cons] at this
      exact this

theorem pull_nil (step : σ → α → σ × List ε) (r : Rx σ ε) : pull step r [] = (none, r, []) := rfl

theorem pull_cons_silent (step : σ → α → σ × List ε) (r : Rx σ ε) (x : α) (xs : List α)
    (h : (step r.st x).2 = []) :
    pull step r (x :: xs)
      = pull step { st := (step r.st x).1, queue := r.queue, consumed := r.consumed + 1 } xs := by
  rw [pull]
  cases hs : step r.st x with
  | mk s' es =>
    rw [hs] at h
    simp at h
    subst h
    rfl

theorem pull_cons_event (step : σ → α → σ × List ε) (r : Rx σ ε) (x : α) (xs : List α) (e : ε) (q : List ε)
    (h : (step r.st x).2 = e :: q) :
    pull step r (x :: xs)
      = (some e, { st := (step r.st x).1, queue := r.queue ++ q, consumed := r.consumed + 1 }, xs) := by
  rw [pull]
  cases hs : step r.st x with
  | mk s' es =>
    rw [hs] at h
    simp at h
    subst h
    rfl

/-- `pull` returned nothing: the whole source was read and was silent -/
theorem pull_none (step : σ → α → σ × List ε) (r r' : Rx σ ε) (src src' : List α)
    (h : pull step r src = (none, r', src')) :
    src' = [] ∧ Silent step r.st src
      ∧ r' = { st := (foldEvents step r.st src).2, queue := r.queue, consumed := r.consumed + src.length } := by
  induction src generalizing r with
  | nil =>
    rw [pull_nil] at h
    simp at h
    obtain ⟨rfl, rfl⟩ := h
    simp [Silent, foldEvents_nil]
  | cons x xs ih =>
    cases hq : (step r.st x).2 with
    | nil =>
      rw [pull_cons_silent step r x xs hq] at h
      obtain ⟨h1, h2, h3⟩ := ih _ h
      refine ⟨h1, ⟨hq, h2⟩, ?_⟩
      rw [h3, foldEvents_cons]
      simp only [List.length_cons]
      congr 1
      omega
    | cons e q =>
      rw [pull_cons_event step r x xs e q hq] at h
      simp at h

/-- `pull` returned an event: a silent prefix was read, then the sample that generated it -/
theorem pull_some (step : σ → α → σ × List ε) (r r' : Rx σ ε) (src src' : List α) (e : ε)
    (h : pull step r src = (some e, r', src')) :
    ∃ pre x q, src = pre ++ x :: src' ∧ Silent step r.st pre
      ∧ step (foldEvents step r.st pre).2 x = (r'.st, e :: q)
      ∧ r'.queue = r.queue ++ q ∧ r'.consumed = r.consumed + pre.length + 1 := by
  induction src generalizing r with
  | nil =>
    rw [pull_nil] at h
    simp at h
  | cons x xs ih =>
    cases hq : (step r.st x).2 with
    | nil =>
      rw [pull_cons_silent step r x xs hq] at h
      obtain ⟨pre, y, q, h1, h2, h3, h4, h5⟩ := ih _ h
      refine ⟨x :: pre, y, q, by simp [h1], ⟨hq, h2⟩, ?_, h4, ?_⟩
      · rw [foldEvents_cons]; exact h3
      · simp only [List.length_cons] at *
        omega
    | cons e' q =>
      rw [pull_cons_event step r x xs e' q hq] at h
      simp only [Prod.mk.injEq, Option.some.injEq] at h
      obtain ⟨rfl, rfl, rfl⟩ := h
      refine ⟨[], x, q, rfl, trivial, ?_, rfl, by simp⟩
      rw [foldEvents_nil]
      exact Prod.ext rfl hq

theorem next_queue (step : σ → α → σ × List ε) (r : Rx σ ε) (src : List α) (e : ε) (q : List ε)
    (h : r.queue = e :: q) : next step r src = (some e, { r with queue := q }, src) := by
  unfold next; rw [h]

theorem next_empty (step : σ → α → σ × List ε) (r : Rx σ ε) (src : List α)
    (h : r.queue = []) : next step r src = pull step r src := by
  unfold next; rw [h]

/-- **Conservation.**  One call of `next()` hands over the head of what is owed and leaves the
    rest owed; final state and final counter are unaffected. -/
theorem next_conserves (step : σ → α → σ × List ε) (r r' : Rx σ ε) (src src' : List α) (o : Option ε)
    (h : next step r src = (o, r', src')) :
    owed step r src = o.toList ++ owed step r' src'
      ∧ (foldEvents step r.st src).2 = (foldEvents step r'.st src').2
      ∧ r.consumed + src.length = r'.consumed + src'.length := by
  cases hq : r.queue with
  | cons e q =>
    rw [next_queue step r src e q hq] at h
    simp only [Prod.mk.injEq] at h
    obtain ⟨rfl, rfl, rfl⟩ := h
    simp [owed, hq]
  | nil =>
    rw [next_empty step r src hq] at h
    cases o with
    | none =>
      obtain ⟨rfl, hs, rfl⟩ := pull_none step r r' src src' h
      simp [owed, hq, foldEvents_nil, (silent_iff_fold step r.st src).1 hs]
    | some e =>
      obtain ⟨pre, x, q, rfl, hs, hx, hq', hc⟩ := pull_some step r r' src src' e h
      have hpre := (silent_iff_fold step r.st pre).1 hs
      simp only [owed, hq, foldEvents_append, foldEvents_cons, hx, hpre, hq', List.length_append,
        List.length_cons, Option.toList_some]
      refine ⟨by simp, trivial, by omega⟩

end SameVerif
