import SameVerif.Lemmas.LinkSignal
import SameVerif.Lemmas.LinkFramer
/-
  The phases of one burst through the link model (support for C01):
  quiet until the first aligned all-correct window, first sync, search, read, garbage, drop.
-/
namespace SameVerif
open SameVerif.Spec

theorem payload_len_ge {pl : List Byte} (hok : PayloadOk pl) : 4 ≤ pl.length := by
  have : (pl.take 4).length = 4 := by
    rcases hok.starts with h | h <;> rw [h] <;> rfl
  rw [List.length_take] at this
  omega

theorem lrunBursts_nil (c : LCfg) (s : LState) : lrunBursts c s [] = [] := rfl

section
variable {pl : List Byte} {lead body tail : List Tick} {acq rel : Nat}

/-- phase 1: nothing happens before the first aligned window that ends at or after `acq + 31` -/
theorem phase_quiet (H : BurstObserved' pl body tail acq rel) (hok : PayloadOk pl)
    (c : LCfg) (hE : c.maxErrors ≤ 6) (s1 : LState) (hq : Quiescent s1)
    (N : BTNoHit c s1 body tail acq)
    (j0 : Nat) (hj0 : j0 ≤ 127) (hmis : ∀ t, acq + 31 ≤ t → t < j0 → t % 8 ≠ 7) :
    ∀ t, t ≤ j0 →
      (lrunState c s1 ((body ++ tail).take t)).clock = none
      ∧ (lrunState c s1 ((body ++ tail).take t)).lock = false
      ∧ (lrunState c s1 ((body ++ tail).take t)).fr = .idle
      ∧ lrunBursts c s1 ((body ++ tail).take t) = [] := by
  have hlen := H.body_len
  have hfl := frame_length pl
  have hpl := payload_len_ge hok
  intro t
  induction t with
  | zero => intro _; exact ⟨hq.clock, hq.lock, hq.fr, rfl⟩
  | succ t ih =>
    intro ht
    obtain ⟨i1, i2, i3, i4⟩ := ih (by omega)
    have htb : t < body.length := by omega
    have htx : t < (body ++ tail).length := by rw [List.length_append]; omega
    have hns : 31 ≤ (lrunState c s1 ((body ++ tail).take t)).nsym := by
      rw [nsym_run]; have := hq.warm; omega
    have hno : NoHit c (lrunState c s1 ((body ++ tail).take t)) ((body ++ tail)[t]).1 := by
      by_cases he : t < acq + 31
      · exact noHit_early N t he htb
      · refine Or.inr (Or.inr ?_)
        rw [err_body H.tracked c s1 t (by omega) htb]
        have := werr_preamble_misaligned pl t (by omega) (by omega) (hmis t (by omega) (by omega))
        omega
    obtain ⟨o1, o2, o3, o4, _⟩ := lstep_quiet c _ _ ((body ++ tail)[t]).2 hns i1 i3 hno
    rw [lrunState_take_succ c s1 _ t htx, lrunBursts_take_succ c s1 _ t htx, o1, i4]
    exact ⟨o2, by rw [o3, i2], o4, rfl⟩

/-- phase 2: the first sync, at the first aligned window `j0 ≥ acq + 31` -/
theorem phase_sync (H : BurstObserved' pl body tail acq rel) (hok : PayloadOk pl)
    (c : LCfg) (hE : c.maxErrors ≤ 6) (hP : c.fc.maxPrefixErr < 15) (s1 : LState) (hq : Quiescent s1)
    (N : BTNoHit c s1 body tail acq)
    (j0 : Nat) (hj0 : j0 ≤ 127) (hj0a : acq + 31 ≤ j0) (hj07 : j0 % 8 = 7)
    (hmis : ∀ t, acq + 31 ≤ t → t < j0 → t % 8 ≠ 7) :
    (lrunState c s1 ((body ++ tail).take (j0 + 1))).clock = some 1
      ∧ (lrunState c s1 ((body ++ tail).take (j0 + 1))).lock = false
      ∧ (lrunState c s1 ((body ++ tail).take (j0 + 1))).fr = .search 0xAB 1
      ∧ (lrunState c s1 ((body ++ tail).take (j0 + 1))).train = 3
      ∧ lrunBursts c s1 ((body ++ tail).take (j0 + 1)) = [] := by
  have hlen := H.body_len
  have hfl := frame_length pl
  have hpl := payload_len_ge hok
  obtain ⟨i1, i2, i3, i4⟩ := phase_quiet H hok c hE s1 hq N j0 hj0 hmis j0 (Nat.le_refl _)
  have htb : j0 < body.length := by omega
  have htx : j0 < (body ++ tail).length := by rw [List.length_append]; omega
  have hns : 31 ≤ (lrunState c s1 ((body ++ tail).take j0)).nsym := by
    rw [nsym_run]; have := hq.warm; omega
  have herr : errOf (lrunState c s1 ((body ++ tail).take j0)) ((body ++ tail)[j0]).1 ≤ c.maxErrors := by
    rw [err_body H.tracked c s1 j0 hj0a htb, werr_preamble_aligned pl j0 (by omega) hj0 hj07]
    omega
  obtain ⟨o1, o2, o3, o4, o5, _⟩ := lstep_sync c _ _ ((body ++ tail)[j0]).2 hns i1 i2 i3
    (open_body H j0 hj0a htb) herr (by omega)
  rw [lrunState_take_succ c s1 _ j0 htx, lrunBursts_take_succ c s1 _ j0 htx, o1, i4]
  exact ⟨o2, o3, o4, o5, rfl⟩

/-- phase 3: from the first sync to the byte tick after the last payload byte, the byte clock ticks
    every 8 symbols without a resynchronisation, and the framer has been fed
    `0xAB × (19 - q0) ++ payload`; `d` counts the ticks after the sync tick `8 q0 + 7` -/
theorem phase_synced (H : BurstObserved' pl body tail acq rel) (hok : PayloadOk pl)
    (hdash : ∀ h : 4 < pl.length, pl[4] = 45)
    (c : LCfg) (hE : c.maxErrors ≤ 6) (hF : PrefixFacts c.fc pl) (s1 : LState) (hq : Quiescent s1)
    (N : BTNoHit c s1 body tail acq)
    (q0 : Nat) (h3 : 3 ≤ q0) (h15 : q0 ≤ 15) (hacq : acq + 31 ≤ 8 * q0 + 7)
    (hbase : (lrunState c s1 ((body ++ tail).take (8 * q0 + 7 + 1))).clock = some 1
      ∧ (lrunState c s1 ((body ++ tail).take (8 * q0 + 7 + 1))).lock = false
      ∧ (lrunState c s1 ((body ++ tail).take (8 * q0 + 7 + 1))).fr = .search 0xAB 1
      ∧ (lrunState c s1 ((body ++ tail).take (8 * q0 + 7 + 1))).train = 3
      ∧ lrunBursts c s1 ((body ++ tail).take (8 * q0 + 7 + 1)) = []) :
    ∀ d, 8 * q0 + 8 + d ≤ body.length + 31 →
      (lrunState c s1 ((body ++ tail).take (8 * q0 + 8 + d))).clock = some ((d % 8 + 1) % 8)
      ∧ (lrunState c s1 ((body ++ tail).take (8 * q0 + 8 + d))).train = 4 - (d / 8 + 1)
      ∧ (lrunState c s1 ((body ++ tail).take (8 * q0 + 8 + d))).fr = Fst (19 - q0) pl (d / 8 + 1)
      ∧ (lrunState c s1 ((body ++ tail).take (8 * q0 + 8 + d))).lock = decide (19 - q0 + 4 ≤ d / 8 + 1)
      ∧ lrunBursts c s1 ((body ++ tail).take (8 * q0 + 8 + d)) = [] := by
  have hlen := H.body_len
  have hfl := frame_length pl
  have hpl := payload_len_ge hok
  have htl := H.tail_len
  intro d
  induction d with
  | zero =>
    intro _
    obtain ⟨b1, b2, b3, b4, b5⟩ := hbase
    refine ⟨b1, b4, ?_, ?_, b5⟩
    · rw [b3]; unfold Fst abw; rw [if_pos (by omega)]; simp
    · rw [b2]; simp
  | succ d ih =>
    intro hd
    obtain ⟨i1, i2, i3, i4, i5⟩ := ih (by omega)
    have htx : 8 * q0 + 8 + d < (body ++ tail).length := by rw [List.length_append]; omega
    have hns : 31 ≤ (lrunState c s1 ((body ++ tail).take (8 * q0 + 8 + d))).nsym := by
      rw [nsym_run]; have := hq.warm; omega
    have hhead := head_true H.tracked c s1 (8 * q0 + 8 + d) (by omega) (by omega) htx
    rw [show 8 * q0 + 8 + (d + 1) = 8 * q0 + 8 + d + 1 by omega,
      lrunState_take_succ c s1 _ _ htx, lrunBursts_take_succ c s1 _ _ htx]
    by_cases hbt : d % 8 = 7
    · -- byte tick
      have hc0 : (lrunState c s1 ((body ++ tail).take (8 * q0 + 8 + d))).clock = some 0 := by
        rw [i1, hbt]
      have hstep := lstep_byte c _ _ ((body ++ tail)[8 * q0 + 8 + d]).2 hns hc0 hhead
      simp only at hstep
      have hbyte : (if (lrunState c s1 ((body ++ tail).take (8 * q0 + 8 + d))).train > 0 then PREAMBLE_BYTE
          else ((body ++ tail)[8 * q0 + 8 + d]).2) = byteAt (19 - q0) pl (d / 8 + 1) := by
        rw [i2]
        by_cases htr : 4 - (d / 8 + 1) > 0
        · rw [if_pos htr]
          unfold byteAt
          rw [frame_getD_lt pl _ (by omega)]
          decide
        · rw [if_neg htr]
          have e : 8 * q0 + 8 + d = 8 * (q0 + (d / 8 + 1)) + 7 := by omega
          simp only [e]
          rw [eq_byte H.tracked (q0 + (d / 8 + 1)) (by omega) (by omega) (by rw [← e]; exact htx)]
          unfold byteAt
          congr 1
          omega
      rw [hbyte, i3, Fst_step c.fc (19 - q0) (by omega) (by omega) pl hok.allowed hok.fits hpl
        hF.b0 hF.b1 hF.b2 hF.b3 hF.b4 (d / 8 + 1) (by omega) (by omega)] at hstep
      obtain ⟨o1, o2, o3, o4, o5⟩ := hstep
      have em : (d + 1) / 8 + 1 = d / 8 + 1 + 1 := by omega
      have ec : ((d + 1) % 8 + 1) % 8 = 1 := by omega
      rw [o1, o2, o3, o4, o5, i4, i5, em, ec]
      by_cases hs : d / 8 + 1 + 1 < 19 - q0 + 4
      · simp only [if_pos hs]
        refine ⟨?_, ?_, ?_, ?_, ?_⟩ <;> first | trivial | rfl | omega | (simp; omega)
      · simp only [if_neg hs]
        refine ⟨?_, ?_, ?_, ?_, ?_⟩ <;> first | trivial | rfl | omega | (simp; omega)
    · -- ordinary tick
      have hk : (d % 8 + 1) % 8 = d % 8 + 1 := by omega
      have hno : NoHit c (lrunState c s1 ((body ++ tail).take (8 * q0 + 8 + d)))
          ((body ++ tail)[8 * q0 + 8 + d]).1 := by
        by_cases hl : 19 - q0 + 4 ≤ d / 8 + 1
        · left; rw [i4]; simpa using hl
        · by_cases hb : 8 * q0 + 8 + d < body.length
          · refine Or.inr (Or.inr ?_)
            rw [err_body H.tracked c s1 _ (by omega) hb]
            by_cases hpre : 8 * q0 + 8 + d ≤ 126
            · have := werr_preamble_misaligned pl (8 * q0 + 8 + d) (by omega) hpre (by omega)
              omega
            · have := werr_payload_misaligned pl hok hdash (8 * q0 + 8 + d) (by omega) (by omega)
                (by omega) (by omega)
              omega
          · exact noHit_tail N.late _ (by omega) htx
      obtain ⟨o1, o2, o3, o4, o5⟩ := lstep_tick c _ _ ((body ++ tail)[8 * q0 + 8 + d]).2 (d % 8 + 1) hns
        (by rw [i1, hk]) (by omega) hno hhead
      have em : (d + 1) / 8 = d / 8 := by omega
      rw [o1, o2, o3, o4, o5, i2, i3, i4, i5, em]
      refine ⟨by congr 1; omega, rfl, rfl, rfl, ?_⟩
      cases (Fst (19 - q0) pl (d / 8 + 1)) <;> rfl

/-- what phase 4 maintains at tail tick `k ≥ 31`: still reading `payload ++ g`, or done -/
def GarbageInv (c : LCfg) (s1 : LState) (xs : List Tick) (pl : List Byte) (n rel k : Nat) : Prop :=
  (k ≤ rel + 31
    ∧ (lrunState c s1 (xs.take (n + k))).clock = some ((k - 31) % 8)
    ∧ (lrunState c s1 (xs.take (n + k))).lock = true
    ∧ (lrunState c s1 (xs.take (n + k))).train = 0
    ∧ ∃ g inv, (lrunState c s1 (xs.take (n + k))).fr = .read (pl ++ g) inv
        ∧ g.length ≤ (k - 31 + 7) / 8
        ∧ lrunBursts c s1 (xs.take (n + k)) = [])
  ∨ ((lrunState c s1 (xs.take (n + k))).clock = none
    ∧ (lrunState c s1 (xs.take (n + k))).lock = false
    ∧ (lrunState c s1 (xs.take (n + k))).fr = .idle
    ∧ ∃ g, lrunBursts c s1 (xs.take (n + k)) = [pl ++ g] ∧ g.length ≤ (rel + 7) / 8)

/-- phase 4: after the last payload byte the framer reads garbage until it gives up or the power
    history empties; exactly one burst `payload ++ g` comes out -/
theorem phase_garbage (H : BurstTracked pl body tail acq rel) (hok : PayloadOk pl)
    (c : LCfg) (s1 : LState) (hw : 32 ≤ s1.nsym)
    (N : ∀ t, body.length ≤ t → NoHitAt c s1 (body ++ tail) t)
    (hbase : (lrunState c s1 ((body ++ tail).take (body.length + 31))).clock = some 0
      ∧ (lrunState c s1 ((body ++ tail).take (body.length + 31))).lock = true
      ∧ (lrunState c s1 ((body ++ tail).take (body.length + 31))).train = 0
      ∧ (lrunState c s1 ((body ++ tail).take (body.length + 31))).fr = .read pl 0
      ∧ lrunBursts c s1 ((body ++ tail).take (body.length + 31)) = []) :
    ∀ e, 31 + e ≤ tail.length → GarbageInv c s1 (body ++ tail) pl body.length rel (31 + e) := by
  have hlen := H.body_len
  have hfl := frame_length pl
  have hpl := payload_len_ge hok
  have htl := H.tail_len
  have hacq := H.acq_le
  intro e
  induction e with
  | zero =>
    intro _
    obtain ⟨b1, b2, b3, b4, b5⟩ := hbase
    left
    exact ⟨by omega, b1, b2, b3, [], 0, by simpa using b4, by simp, b5⟩
  | succ e ih =>
    intro he
    have htx : body.length + (31 + e) < (body ++ tail).length := by rw [List.length_append]; omega
    have hns : 31 ≤ (lrunState c s1 ((body ++ tail).take (body.length + (31 + e)))).nsym := by
      rw [nsym_run]; omega
    unfold GarbageInv
    rw [show body.length + (31 + (e + 1)) = body.length + (31 + e) + 1 by omega,
      lrunState_take_succ c s1 _ _ htx, lrunBursts_take_succ c s1 _ _ htx]
    rcases ih (by omega) with ⟨hk, i1, i2, i3, g, inv, i4, i5, i6⟩ | ⟨i1, i2, i3, g, i4, i5⟩
    · have hno : NoHit c (lrunState c s1 ((body ++ tail).take (body.length + (31 + e))))
          ((body ++ tail)[body.length + (31 + e)]).1 := Or.inl i2
      by_cases hend : 31 + e = rel + 31
      · -- the power history has emptied: carrier dropped, burst emitted
        have hh := head_false H c s1 (body.length + (31 + e)) (by omega) htx
        obtain ⟨o1, o2, o3, o4⟩ := lstep_drop c _ _ ((body ++ tail)[body.length + (31 + e)]).2 _ hns i1 hno hh
        right
        rw [o1, o2, o3, o4, i4, i6]
        exact ⟨rfl, rfl, rfl, g, rfl, by omega⟩
      · have hh := head_true H c s1 (body.length + (31 + e)) (by omega) (by omega) htx
        by_cases hbt : (31 + e - 31) % 8 = 0
        · -- byte tick: a garbage byte is appended, or the framer ends the burst
          have hstep := lstep_byte c _ _ ((body ++ tail)[body.length + (31 + e)]).2 hns (by rw [i1, hbt]) hh
          simp only at hstep
          rw [i3, if_neg (by omega), i4] at hstep
          simp only [finputNR] at hstep
          by_cases hc : (decide ((inv + if isAllowed ((body ++ tail)[body.length + (31 + e)]).2 = true then 0 else 1)
              > c.fc.maxInvalid) || decide ((pl ++ g).length ≥ Gen.MAX_BURST_LENGTH)) = true
          · rw [if_pos hc] at hstep
            obtain ⟨o1, o2, o3, o4, o5⟩ := hstep
            right
            rw [o1, o2, o4, o5, i6]
            exact ⟨rfl, rfl, rfl, g, rfl, by omega⟩
          · rw [if_neg hc] at hstep
            obtain ⟨o1, o2, o3, o4, o5⟩ := hstep
            left
            rw [o1, o2, o3, o4, o5, i6]
            refine ⟨by omega, by simp; omega, rfl, rfl,
              g ++ [((body ++ tail)[body.length + (31 + e)]).2], _, by rw [List.append_assoc], ?_, rfl⟩
            rw [List.length_append, List.length_singleton]
            omega
        · -- ordinary tick
          obtain ⟨o1, o2, o3, o4, o5⟩ := lstep_tick c _ _ ((body ++ tail)[body.length + (31 + e)]).2
            ((31 + e - 31) % 8) hns i1 (by omega) hno hh
          left
          rw [o1, o2, o3, o4, o5, i2, i3, i4, i6]
          exact ⟨by omega, by congr 1; omega, rfl, rfl, g, inv, rfl, by omega, rfl⟩
    · -- done: quiet until the end of the tail
      have hno := noHit_tail N (body.length + (31 + e)) (by omega) htx
      obtain ⟨o1, o2, o3, o4, _⟩ := lstep_quiet c _ _ ((body ++ tail)[body.length + (31 + e)]).2 hns i1 i3 hno
      right
      rw [o1, o2, o3, o4, i2, i4]
      exact ⟨rfl, rfl, rfl, g, rfl, i5⟩

end
end SameVerif
