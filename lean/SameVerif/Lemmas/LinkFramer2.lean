import SameVerif.Lemmas.LinkFramer
/-
  `Fst_step` for up to 18 preamble bytes into the framer (support for `Thm/C01t.lean`): when the
  squelch synchronises early — at body tick 15 or 23, on a window that still contains lead-in
  ticks — the framer is fed `19 - q` bytes `0xAB` (4 of them training bytes) before the payload,
  `q` the index of the sync byte; the search gives up only after `PREFIX_SEARCH_LEN = 21` bytes.
-/
namespace SameVerif
open SameVerif.Spec

/-- byte number `m` (0-based) of `0xAB × a ++ pl` -/
def byteAt2 (a : Nat) (pl : List Byte) (m : Nat) : Byte := if m < a then 0xAB else pl.getD (m - a) 0

theorem byteAt2_eq (a : Nat) (ha : a ≤ 16) (pl : List Byte) (m : Nat) : byteAt2 a pl m = byteAt a pl m := by
  unfold byteAt2 byteAt
  by_cases h : m < a
  · rw [if_pos h, frame_getD_lt pl _ (by omega)]
  · rw [if_neg h, frame_getD_ge pl _ (by omega)]
    congr 1
    omega

/-- one byte of `0xAB × a ++ pl` into the framer: it keeps searching until the fourth prefix
    byte, then reads the payload verbatim -/
theorem Fst_step2 (fc : FCfg) (a : Nat) (ha4 : 4 ≤ a) (ha18 : a ≤ 18) (pl : List Byte)
    (hall : ∀ b ∈ pl, isAllowed b = true) (hfits : pl.length ≤ Gen.MAX_BURST_LENGTH)
    (hlen : 4 ≤ pl.length) (hb0 : fc.maxPrefixErr < 15)
    (hb1 : ¬ prefixErrors (wordOf [0xAB, 0xAB, 0xAB, pl.getD 0 0]) ≤ fc.maxPrefixErr)
    (hb2 : ¬ prefixErrors (wordOf [0xAB, 0xAB, pl.getD 0 0, pl.getD 1 0]) ≤ fc.maxPrefixErr)
    (hb3 : ¬ prefixErrors (wordOf [0xAB, pl.getD 0 0, pl.getD 1 0, pl.getD 2 0]) ≤ fc.maxPrefixErr)
    (hb4 : prefixErrors (wordOf [pl.getD 0 0, pl.getD 1 0, pl.getD 2 0, pl.getD 3 0]) ≤ fc.maxPrefixErr)
    (m : Nat) (hm1 : 1 ≤ m) (hmM : m < a + pl.length) :
    finputNR fc (Fst a pl m) (byteAt2 a pl m)
      = (Fst a pl (m + 1), if m + 1 < a + 4 then .searching else .reading) := by
  have hps : Gen.PREFIX_SEARCH_LEN = 21 := rfl
  by_cases c1 : m < a
  · -- preamble byte onto preamble bytes
    have hbyte : byteAt2 a pl m = 0xAB := by unfold byteAt2; rw [if_pos c1]
    have := abw_errors (m + 1) (by omega)
    unfold Fst
    rw [if_pos (by omega), if_pos (by omega), hbyte]
    simp only [finputNR]
    rw [abw_step m hm1, if_neg (by omega), if_neg (by omega), if_pos (by omega)]
  · have hbyte : byteAt2 a pl m = pl.getD (m - a) 0 := by
      unfold byteAt2; rw [if_neg c1]
    by_cases c2 : m = a
    · subst c2
      unfold Fst
      rw [if_pos (Nat.le_refl _), if_neg (by omega), if_pos rfl, hbyte, abw_ge4 m ha4,
        Nat.sub_self]
      simp only [finputNR]
      rw [← wordOf_slide, if_neg hb1, if_neg (by omega), if_pos (by omega)]
    · by_cases c3 : m = a + 1
      · subst c3
        unfold Fst
        rw [if_neg (by omega), if_pos rfl, if_neg (by omega), if_neg (by omega), if_pos rfl, hbyte,
          show a + 1 - a = 1 by omega]
        simp only [finputNR]
        rw [← wordOf_slide, if_neg hb2, if_neg (by omega), if_pos (by omega)]
      · by_cases c4 : m = a + 2
        · subst c4
          unfold Fst
          rw [if_neg (by omega), if_neg (by omega), if_pos rfl, if_neg (by omega), if_neg (by omega),
            if_neg (by omega), if_pos rfl, hbyte, show a + 2 - a = 2 by omega]
          simp only [finputNR]
          rw [← wordOf_slide, if_neg hb3, if_neg (by omega), if_pos (by omega)]
        · by_cases c5 : m = a + 3
          · subst c5
            unfold Fst
            rw [if_neg (by omega), if_neg (by omega), if_neg (by omega), if_pos rfl, if_neg (by omega),
              if_neg (by omega), if_neg (by omega), if_neg (by omega), hbyte,
              show a + 3 - a = 3 by omega, show a + 3 + 1 - a = 4 by omega]
            simp only [finputNR]
            rw [← wordOf_slide, if_pos hb4, beBytes_wordOf_four, if_neg (by omega), take4_eq hlen]
          · -- reading the payload
            have hk : m - a < pl.length := by omega
            have hby : pl.getD (m - a) 0 = pl[m - a] := by
              rw [List.getD_eq_getElem?_getD, List.getElem?_eq_getElem hk]; rfl
            have hal : isAllowed pl[m - a] = true := hall _ (List.getElem_mem hk)
            unfold Fst
            rw [if_neg (by omega), if_neg (by omega), if_neg (by omega), if_neg (by omega),
              if_neg (by omega), if_neg (by omega), if_neg (by omega), if_neg (by omega), hbyte, hby,
              if_neg (by omega)]
            simp only [finputNR, hal, if_true, Nat.add_zero]
            have hl : (pl.take (m - a)).length = m - a := by rw [List.length_take]; omega
            have hnot : ¬ ((decide (0 > fc.maxInvalid) || decide ((pl.take (m - a)).length ≥ Gen.MAX_BURST_LENGTH)) = true) := by
              rw [hl]; simp; omega
            rw [if_neg hnot, List.take_append_getElem hk, show m + 1 - a = m - a + 1 by omega]

end SameVerif
