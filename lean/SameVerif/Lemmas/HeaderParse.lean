import SameVerif.Model.Header
/- Soundness and completeness lemmas for the pieces of the recursive-descent header matcher. -/
namespace SameVerif

theorem stripLit_some (lit : List Byte) : ∀ (s r : List Byte), stripLit lit s = some r ↔ s = lit ++ r := by
  induction lit with
  | nil => intro s r; simp [stripLit]
  | cons l ls ih =>
    intro s r
    cases s with
    | nil => simp [stripLit]
    | cons c cs =>
      simp only [stripLit]
      by_cases h : l = c
      · subst h; simp [ih]
      · have : (l == c) = false := by simp [h]
        simp [this]
        intro hc; exact absurd hc.symm h

theorem takeN_some (p : Byte → Bool) : ∀ (n : Nat) (s a r : List Byte),
    takeN p n s = some (a, r) → s = a ++ r ∧ a.length = n ∧ ∀ b ∈ a, p b = true := by
  intro n
  induction n with
  | zero => intro s a r h; simp [takeN] at h; obtain ⟨rfl, rfl⟩ := h; simp
  | succ n ih =>
    intro s a r h
    cases s with
    | nil => simp [takeN] at h
    | cons c cs =>
      simp only [takeN] at h
      by_cases hp : p c = true
      · simp only [hp, ↓reduceIte] at h
        cases hrec : takeN p n cs with
        | none => simp [hrec] at h
        | some ar =>
          obtain ⟨a', r'⟩ := ar
          simp [hrec] at h
          obtain ⟨rfl, rfl⟩ := h
          obtain ⟨h1, h2, h3⟩ := ih cs a' r' hrec
          refine ⟨by simp [h1], by simp [h2], ?_⟩
          intro b hb
          rcases List.mem_cons.mp hb with rfl | hb
          · exact hp
          · exact h3 b hb
      · simp [hp] at h

theorem takeN_append (p : Byte → Bool) : ∀ (a r : List Byte), (∀ b ∈ a, p b = true) →
    takeN p a.length (a ++ r) = some (a, r) := by
  intro a
  induction a with
  | nil => intro r _; simp [takeN]
  | cons c a ih =>
    intro r h
    have hc : p c = true := h c (by simp)
    have := ih r (fun b hb => h b (by simp [hb]))
    simp [takeN, hc, this]

/-- the text of a run of location groups -/
def renderLocs (gs : List (List Byte)) : List Byte := gs.flatMap (fun g => 45 :: g)

def IsLoc (g : List Byte) : Prop := g.length = 6 ∧ ∀ b ∈ g, isDigit b = true

theorem locGroups_sound : ∀ (f : Nat) (s : List Byte) (gs : List (List Byte)) (r : List Byte),
    locGroups f s = (gs, r) → s = renderLocs gs ++ r ∧ ∀ g ∈ gs, IsLoc g := by
  intro f
  induction f with
  | zero => intro s gs r h; simp [locGroups] at h; obtain ⟨rfl, rfl⟩ := h; simp [renderLocs]
  | succ f ih =>
    intro s gs r h
    unfold locGroups at h
    split at h
    · rename_i cs
      split at h
      · rename_i d r0 hd
        cases hrec : locGroups f r0 with
        | mk gs' r' =>
          simp [hrec] at h
          obtain ⟨rfl, rfl⟩ := h
          obtain ⟨h1, h2, h3⟩ := takeN_some _ _ _ _ _ hd
          obtain ⟨h4, h5⟩ := ih r0 gs' r' hrec
          refine ⟨by simp [renderLocs, h1, h4] , ?_⟩
          intro g hg
          rcases List.mem_cons.mp hg with rfl | hg
          · exact ⟨h2, h3⟩
          · exact h5 g hg
      · simp at h; obtain ⟨rfl, rfl⟩ := h; simp [renderLocs]
    · simp at h; obtain ⟨rfl, rfl⟩ := h; simp [renderLocs]

theorem locGroups_complete : ∀ (gs : List (List Byte)) (f : Nat) (r : List Byte),
    (∀ g ∈ gs, IsLoc g) → gs.length ≤ f → r.head? ≠ some 45 →
    locGroups f (renderLocs gs ++ r) = (gs, r) := by
  intro gs
  induction gs with
  | nil =>
    intro f r _ _ hr
    cases f with
    | zero => simp [locGroups, renderLocs]
    | succ f =>
      simp only [renderLocs, List.flatMap_nil, List.nil_append]
      unfold locGroups
      split
      · rename_i cs; simp at hr
      · rfl
  | cons g gs ih =>
    intro f r hg hf hr
    obtain ⟨f', rfl⟩ : ∃ f', f = f' + 1 := ⟨f - 1, by simp at hf; omega⟩
    have hgl : IsLoc g := hg g (by simp)
    have hrest := ih f' r (fun x hx => hg x (by simp [hx])) (by simp at hf; omega) hr
    have htake : takeN isDigit 6 (g ++ (renderLocs gs ++ r)) = some (g, renderLocs gs ++ r) := by
      have := takeN_append isDigit g (renderLocs gs ++ r) hgl.2
      rw [hgl.1] at this; exact this
    have hs : renderLocs (g :: gs) ++ r = 45 :: (g ++ (renderLocs gs ++ r)) := by
      simp [renderLocs]
    rw [hs]
    unfold locGroups
    simp [htake, hrest]

def IsCall (c : List Byte) : Prop := 3 ≤ c.length ∧ c.length ≤ 8 ∧ ∀ b ∈ c, notLF b = true

theorem callTry_sound (s : List Byte) (n : Nat) (c r : List Byte) (h : callTry s n = some (c, r)) :
    s = c ++ 45 :: r ∧ c.length = n ∧ ∀ b ∈ c, notLF b = true := by
  unfold callTry at h
  split at h
  · rename_i c' r' ht
    simp at h; obtain ⟨rfl, rfl⟩ := h
    obtain ⟨h1, h2, h3⟩ := takeN_some _ _ _ _ _ ht
    exact ⟨h1, h2, h3⟩
  · simp at h

theorem callsignOf_sound (s c r : List Byte) (h : callsignOf s = some (c, r)) :
    s = c ++ 45 :: r ∧ IsCall c := by
  unfold callsignOf at h
  obtain ⟨n, hn, hc⟩ := List.exists_of_findSome?_eq_some h
  obtain ⟨h1, h2, h3⟩ := callTry_sound s n c r hc
  refine ⟨h1, ?_, ?_, h3⟩ <;> simp at hn <;> omega

theorem callTry_complete (c r : List Byte) (hc : ∀ b ∈ c, notLF b = true) :
    callTry (c ++ 45 :: r) c.length = some (c, r) := by
  unfold callTry
  rw [takeN_append notLF c (45 :: r) hc]
  rfl

theorem callsignOf_complete (c r : List Byte) (h : IsCall c) : (callsignOf (c ++ 45 :: r)).isSome = true := by
  unfold callsignOf
  rw [List.findSome?_isSome_iff]
  refine ⟨c.length, ?_, ?_⟩
  · obtain ⟨h1, h2, _⟩ := h
    simp; omega
  · rw [callTry_complete c r h.2.2]; rfl

end SameVerif

namespace SameVerif

/-- `.{3,8}-` is greedy: no admissible callsign split is longer than the one found -/
theorem callsignOf_greedy (s c r c2 r2 : List Byte) (h : callsignOf s = some (c, r))
    (h2 : s = c2 ++ 45 :: r2) (hc2 : IsCall c2) : c2.length ≤ c.length := by
  have hm : callTry s c2.length = some (c2, r2) := by rw [h2]; exact callTry_complete c2 r2 hc2.2.2
  obtain ⟨hlo, hhi, _⟩ := hc2
  generalize c2.length = m at hm hlo hhi
  simp only [callsignOf, List.findSome?] at h
  have hm' : m = 3 ∨ m = 4 ∨ m = 5 ∨ m = 6 ∨ m = 7 ∨ m = 8 := by omega
  split at h
  · rename_i x hx
    cases h
    have := (callTry_sound s 8 c r hx).2.1
    omega
  · rename_i h8
    split at h
    · rename_i x hx
      cases h
      have := (callTry_sound s 7 c r hx).2.1
      rcases hm' with rfl | rfl | rfl | rfl | rfl | rfl <;> simp_all
    · rename_i h7
      split at h
      · rename_i x hx
        cases h
        have := (callTry_sound s 6 c r hx).2.1
        rcases hm' with rfl | rfl | rfl | rfl | rfl | rfl <;> simp_all
      · rename_i h6
        split at h
        · rename_i x hx
          cases h
          have := (callTry_sound s 5 c r hx).2.1
          rcases hm' with rfl | rfl | rfl | rfl | rfl | rfl <;> simp_all
        · rename_i h5
          split at h
          · rename_i x hx
            cases h
            have := (callTry_sound s 4 c r hx).2.1
            rcases hm' with rfl | rfl | rfl | rfl | rfl | rfl <;> simp_all
          · rename_i h4
            split at h
            · rename_i x hx
              cases h
              have := (callTry_sound s 3 c r hx).2.1
              rcases hm' with rfl | rfl | rfl | rfl | rfl | rfl <;> simp_all
            · simp at h

end SameVerif
