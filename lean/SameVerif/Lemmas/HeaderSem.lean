import SameVerif.Lemmas.HeaderAccessors
import SameVerif.Model.HeaderSem
/- Helper lemmas for the interpreting accessors (`originator`, `event`, `is_national`). -/
namespace SameVerif
open SameVerif.Gen

theorem natStr_inj (a b : List Byte) (h : natStr a = natStr b) : a = b := by
  induction a generalizing b with
  | nil => cases b <;> simp_all [natStr]
  | cons x xs ih =>
    cases b with
    | nil => simp [natStr] at h
    | cons y ys =>
      simp only [natStr, List.map_cons, List.cons.injEq] at h
      have := UInt8.toNat_inj.mp h.1
      rw [this, ih ys (by simpa [natStr] using h.2)]

/-- joined locations spell `000000` exactly when the only location is `000000` -/
theorem locs_national_iff (gs : List (List Byte)) (hne : gs ≠ []) (h : ∀ g ∈ gs, IsLoc g) :
    (natStr ([45].intercalate gs) == LOCATION_NATIONAL) = decide (gs = [[48, 48, 48, 48, 48, 48]]) := by
  have hl := locText_length gs hne h
  rw [locText_eq_intercalate] at hl
  cases gs with
  | nil => exact absurd rfl hne
  | cons g rest =>
    cases rest with
    | nil =>
      simp only [List.intercalate, List.intersperse, List.flatten_cons, List.flatten_nil, List.append_nil]
      by_cases hg : g = [48, 48, 48, 48, 48, 48]
      · subst hg; decide
      · have : natStr g ≠ LOCATION_NATIONAL := by
          intro e
          apply hg
          apply natStr_inj
          rw [e]; rfl
        simp [this, hg]
    | cons g2 rest =>
      have hlen : (natStr ([45].intercalate (g :: g2 :: rest))).length ≠ LOCATION_NATIONAL.length := by
        simp only [natStr, List.length_map, LOCATION_NATIONAL, List.length_cons, List.length_nil] at hl ⊢
        omega
      have : natStr ([45].intercalate (g :: g2 :: rest)) ≠ LOCATION_NATIONAL := fun e => hlen (by rw [e])
      rw [beq_eq_false_iff_ne.mpr this]
      simp


def nationalCodes : List Str := [[69, 65, 78], [78, 73, 67], [78, 65, 84], [78, 80, 84], [78, 83, 84]]

theorem cb3_national : ∀ e ∈ codebook3, (e.2.1.info.national = true ↔ e.1 ∈ nationalCodes) := by decide +kernel
theorem cb2_not_national : ∀ e ∈ codebook2, e.2.info.national = false := by decide +kernel
theorem national_in_cb3 : ∀ c ∈ nationalCodes, (lookup3 c).isSome = true := by decide +kernel

theorem find_mem {α} (p : α → Bool) (l : List α) (x : α) (h : l.find? p = some x) : x ∈ l ∧ p x = true :=
  ⟨List.mem_of_find?_eq_some h, List.find?_some h⟩

/-- the decoded phenomenon is national exactly for the five national activation codes -/
theorem national_iff (code : Str) :
    (eventCode code).1.info.national = true ↔ code ∈ nationalCodes := by
  unfold eventCode parseEvent
  split
  · rename_i a b c
    cases h3 : lookup3 [a, b, c] with
    | some e =>
      simp only [Option.getD_some]
      unfold lookup3 at h3
      cases hf : codebook3.find? (fun e => e.1 == [a, b, c]) with
      | none => simp [hf] at h3
      | some x =>
        simp only [hf, Option.map_some, Option.some.injEq] at h3
        obtain ⟨hm, hpx⟩ := find_mem _ _ _ hf
        have := cb3_national x hm
        have hx1 : x.1 = [a, b, c] := by simpa using hpx
        rw [← h3, ← hx1]
        exact this
    | none =>
      have hn : [a, b, c] ∉ nationalCodes := by
        intro hm
        have := national_in_cb3 _ hm
        rw [h3] at this
        exact absurd this (by simp)
      simp only [hn, iff_false]
      split
      · simp [Phenomenon.info]
      · cases h2 : lookup2 [a, b] with
        | none => simp [Phenomenon.info]
        | some p =>
          unfold lookup2 at h2
          cases hf : codebook2.find? (fun e => e.1 == [a, b]) with
          | none => simp [hf] at h2
          | some x =>
            simp only [hf, Option.map_some, Option.some.injEq] at h2
            have := cb2_not_national x (find_mem _ _ _ hf).1
            simp [← h2, this]
  · rename_i hne
    have hn : code ∉ nationalCodes := by
      intro hm
      simp only [nationalCodes, List.mem_cons, List.not_mem_nil, or_false] at hm
      rcases hm with rfl | rfl | rfl | rfl | rfl <;> exact hne _ _ _ rfl
    simp [hn, Phenomenon.info]

end SameVerif
