import SameVerif.Model.LinkRun
/-
  Helper lemmas for C10: an equational characterisation of `lstep` in terms of small named
  pieces, the structural invariant `LinkInv`, the power-history / correlator closed forms and
  the "silence drains the squelch" argument.
-/
namespace SameVerif

/-! ### `lstep` in small pieces -/

/-- the correlator word after shifting in this tick's bit -/
def corrOf (s : LState) (o : Obs) : UInt32 :=
  (s.corr >>> 1) ||| ((if o.bit then (1 : UInt32) else 0) <<< 31)

/-- the squelch (re)synchronises at this tick -/
def hitOf (c : LCfg) (s : LState) (o : Obs) : Bool :=
  !s.lock && decide (popcount32 (SYNC_WORD ^^^ corrOf s o) ≤ c.maxErrors) && o.openOk

/-- the squelch drops the carrier at this tick -/
def droppedOf (c : LCfg) (s : LState) (o : Obs) : Bool :=
  !hitOf c s o && s.clock.isSome && !((push32 s.pwr o.closeOk).headD true)

/-- the unconditional part of a tick: correlator, power history, symbol count -/
def baseOf (s : LState) (o : Obs) : LState :=
  { s with corr := corrOf s o, pwr := push32 s.pwr o.closeOk, nsym := s.nsym + 1 }

/-- a tick at which the squelch reports no byte and "no carrier": the framer is ended -/
def endTick (s1 : LState) : LState × LinkSt × Option Bool :=
  ({ s1 with fr := (fend s1.fr).1 }, (fend s1.fr).2, none)

/-- a byte tick: the framer gets a byte (the forced preamble byte while training) -/
def byteTick (c : LCfg) (s1 : LState) (adjusted : Bool) (eqByte : Byte) :
    LState × LinkSt × Option Bool :=
  let train := if adjusted then 4 else s1.train
  let byte := if train > 0 then PREAMBLE_BYTE else eqByte
  let r := finput c.fc s1.fr byte adjusted
  let s2 : LState := { s1 with clock := some 1, train := train - 1, fr := r.1 }
  match r.2 with
  | .reading => ({ s2 with lock := true }, r.2, some adjusted)
  | .noCarrier => (s2.endRx, r.2, some adjusted)
  | .burst _ => (s2.endRx, r.2, some adjusted)
  | .searching => (s2, r.2, some adjusted)

/-- `is_resync` of a byte tick caused by a sync-word hit: the byte clock was moved -/
def adjOf : Option Nat → Bool
  | some 0 => false
  | _ => true

/-- **`lstep` by cases.** -/
theorem lstep_eq (c : LCfg) (s : LState) (o : Obs) (b : Byte) :
    lstep c s o b =
      if s.nsym + 1 < 32 then endTick (baseOf s o)
      else if hitOf c s o then byteTick c (baseOf s o) (adjOf s.clock) b
      else if droppedOf c s o then endTick (baseOf s o).endRx
      else match s.clock with
        | none => endTick (baseOf s o)
        | some 0 => byteTick c (baseOf s o) false b
        | some (k + 1) => ({ baseOf s o with clock := some ((k + 2) % 8) }, fstate s.fr, none) := by
  unfold lstep droppedOf hitOf baseOf corrOf
  dsimp only
  generalize ((if o.bit = true then (1 : UInt32) else 0) <<< 31) = bitv
  generalize (!s.lock && decide (popcount32 (SYNC_WORD ^^^ (s.corr >>> 1 ||| bitv)) ≤ c.maxErrors) && o.openOk) = hit
  by_cases hw : s.nsym + 1 < 32
  · simp [hw, endTick]
  · simp only [hw, ↓reduceIte]
    cases hit with
    | true =>
      simp only [Bool.not_true, Bool.false_and, Bool.false_eq_true, ↓reduceIte]
      rcases hc : s.clock with _ | k
      · simp [byteTick, LState.endRx, adjOf]
        split <;> simp_all
      · cases k with
        | zero => simp [byteTick, LState.endRx, adjOf]; split <;> simp_all
        | succ k => simp [byteTick, LState.endRx, adjOf]; split <;> simp_all
    | false =>
      simp only [Bool.not_false, Bool.true_and, Bool.false_eq_true, ↓reduceIte]
      by_cases hd : (s.clock.isSome && !(push32 s.pwr o.closeOk).headD true) = true
      · simp only [hd, ↓reduceIte, endTick, LState.endRx]
      · simp only [hd]
        rcases hc : s.clock with _ | k
        · simp [endTick]
        · cases k with
          | zero => simp [byteTick, LState.endRx]; split <;> simp_all
          | succ k => simp

/-! ### elementary facts about the pieces -/

theorem fend_fst (f : FState) : (fend f).1 = .idle := by cases f <;> rfl

theorem fend_idle : fend .idle = (.idle, .noCarrier) := rfl

theorem hitOf_closed (c : LCfg) (s : LState) (o : Obs) (h : o.openOk = false) :
    hitOf c s o = false := by simp [hitOf, h]

theorem hitOf_unlocked (c : LCfg) (s : LState) (o : Obs) (h : hitOf c s o = true) :
    s.lock = false := by
  simp only [hitOf, Bool.and_eq_true, Bool.not_eq_true'] at h
  exact h.1.1

theorem push32_length (h : List Bool) (b : Bool) : (push32 h b).length = min (h.length + 1) 32 := by
  simp only [push32, List.length_drop, List.length_append, List.length_singleton]; omega

theorem push32_ne_nil (h : List Bool) (b : Bool) : push32 h b ≠ [] := by
  intro e
  have := push32_length h b
  rw [e] at this
  simp only [List.length_nil] at this; omega

@[simp] theorem endTick_fst (s1 : LState) : (endTick s1).1 = { s1 with fr := .idle } := by
  simp [endTick, fend_fst]

@[simp] theorem endTick_snd (s1 : LState) : (endTick s1).2 = ((fend s1.fr).2, none) := rfl

/-- the shape of a byte tick's result -/
theorem byteTick_shape (c : LCfg) (s1 : LState) (adj : Bool) (b : Byte) :
    ∃ byte, (adj = true → byte = PREAMBLE_BYTE) ∧
      (byteTick c s1 adj b).2 = ((finput c.fc s1.fr byte adj).2, some adj) ∧
      (byteTick c s1 adj b).1.corr = s1.corr ∧ (byteTick c s1 adj b).1.pwr = s1.pwr ∧
      (byteTick c s1 adj b).1.nsym = s1.nsym ∧
      (byteTick c s1 adj b).1.fr = (finput c.fc s1.fr byte adj).1 ∧
      (byteTick c s1 adj b).1.train = (if adj then 4 else s1.train) - 1 ∧
      (((finput c.fc s1.fr byte adj).2 = .reading ∧ (byteTick c s1 adj b).1.clock = some 1 ∧
          (byteTick c s1 adj b).1.lock = true) ∨
        ((finput c.fc s1.fr byte adj).2 = .searching ∧ (byteTick c s1 adj b).1.clock = some 1 ∧
          (byteTick c s1 adj b).1.lock = s1.lock) ∨
        (((finput c.fc s1.fr byte adj).2 = .noCarrier ∨ ∃ m, (finput c.fc s1.fr byte adj).2 = .burst m) ∧
          (byteTick c s1 adj b).1.clock = none ∧ (byteTick c s1 adj b).1.lock = false)) := by
  refine ⟨if (if adj then 4 else s1.train) > 0 then PREAMBLE_BYTE else b, ?_, ?_⟩
  · intro h; simp [h]
  · simp only [byteTick]
    split <;> simp_all [LState.endRx]

/-- the unconditional part of every tick -/
theorem lstep_base (c : LCfg) (s : LState) (o : Obs) (b : Byte) :
    (lstep c s o b).1.corr = corrOf s o ∧ (lstep c s o b).1.pwr = push32 s.pwr o.closeOk
      ∧ (lstep c s o b).1.nsym = s.nsym + 1 := by
  rw [lstep_eq]
  split
  · simp [baseOf]
  · split
    · obtain ⟨_, _, _, h1, h2, h3, _⟩ := byteTick_shape c (baseOf s o) (adjOf s.clock) b
      rw [h1, h2, h3]; simp [baseOf]
    · split
      · simp [baseOf, LState.endRx]
      · split
        · simp [baseOf]
        · obtain ⟨_, _, _, h1, h2, h3, _⟩ := byteTick_shape c (baseOf s o) false b
          rw [h1, h2, h3]; simp [baseOf]
        · simp [baseOf]

/-- a tick with the power below the opening threshold cannot (re)synchronise -/
theorem lstep_closed (c : LCfg) (s : LState) (o : Obs) (b : Byte) (h : o.openOk = false) :
    lstep c s o b =
      if s.nsym + 1 < 32 then endTick (baseOf s o)
      else if (s.clock.isSome && !((push32 s.pwr o.closeOk).headD true)) = true then
        endTick (baseOf s o).endRx
      else match s.clock with
        | none => endTick (baseOf s o)
        | some 0 => byteTick c (baseOf s o) false b
        | some (k + 1) => ({ baseOf s o with clock := some ((k + 2) % 8) }, fstate s.fr, none) := by
  rw [lstep_eq]
  simp [droppedOf, hitOf_closed c s o h]

/-! ### the structural invariant -/

/-- what every reachable link state satisfies, for every configuration -/
structure LinkInv (s : LState) : Prop where
  /-- the power history holds one entry per symbol seen, at most 32 -/
  pwr_len : s.pwr.length = min s.nsym 32
  /-- no synchronisation before the sample history is full -/
  warm : s.nsym < 32 → s.clock = none
  /-- a sync lock is only held while the byte clock runs -/
  lock_sync : s.lock = true → s.clock.isSome = true
  /-- the byte clock counts symbols modulo 8 -/
  clock_lt : ∀ k, s.clock = some k → k < 8

theorem linkInv_init : LinkInv {} := by
  constructor <;> simp

theorem linkInv_step (c : LCfg) (s : LState) (o : Obs) (b : Byte) (h : LinkInv s) :
    LinkInv (lstep c s o b).1 := by
  obtain ⟨hcorr, hpwr, hnsym⟩ := lstep_base c s o b
  have hlen : (lstep c s o b).1.pwr.length = min (lstep c s o b).1.nsym 32 := by
    rw [hpwr, hnsym, push32_length, h.pwr_len]; omega
  have hrest : ((lstep c s o b).1.nsym < 32 → (lstep c s o b).1.clock = none)
      ∧ ((lstep c s o b).1.lock = true → (lstep c s o b).1.clock.isSome = true)
      ∧ ∀ k, (lstep c s o b).1.clock = some k → k < 8 := by
    rw [hnsym]
    have hbyte : ∀ adj, ¬ s.nsym + 1 < 32 →
        (s.nsym + 1 < 32 → (byteTick c (baseOf s o) adj b).1.clock = none)
        ∧ ((byteTick c (baseOf s o) adj b).1.lock = true →
            (byteTick c (baseOf s o) adj b).1.clock.isSome = true)
        ∧ ∀ k, (byteTick c (baseOf s o) adj b).1.clock = some k → k < 8 := by
      intro adj hw
      obtain ⟨_, _, _, _, _, _, _, _, hc⟩ := byteTick_shape c (baseOf s o) adj b
      rcases hc with ⟨_, h1, h2⟩ | ⟨_, h1, h2⟩ | ⟨_, h1, h2⟩
      · rw [h1]; refine ⟨fun x => absurd x hw, fun _ => rfl, ?_⟩
        intro k hk; injection hk with hk; omega
      · rw [h1]; refine ⟨fun x => absurd x hw, fun _ => rfl, ?_⟩
        intro k hk; injection hk with hk; omega
      · rw [h1, h2]; simp
    rw [lstep_eq]
    split
    · next hw =>
      have hn : s.nsym < 32 := by omega
      have hc := h.warm hn
      have hl : s.lock = false := by
        cases hl : s.lock with
        | false => rfl
        | true => have := h.lock_sync hl; rw [hc] at this; cases this
      simp [baseOf, hc, hl]
    · next hw =>
      split
      · exact hbyte _ hw
      · split
        · simp [baseOf, LState.endRx]
        · split
          · next hc =>
            have hl : s.lock = false := by
              cases hl : s.lock with
              | false => rfl
              | true => have := h.lock_sync hl; rw [hc] at this; cases this
            simp [baseOf, hc, hl]
          · exact hbyte _ hw
          · next k hc =>
            refine ⟨fun x => absurd x hw, fun _ => rfl, ?_⟩
            intro k' hk'
            simp only [Option.some.injEq] at hk'
            omega
  exact ⟨hlen, hrest.1, hrest.2.1, hrest.2.2⟩

theorem linkInv_run (c : LCfg) (xs : List Tick) : ∀ s, LinkInv s → LinkInv (lrunState c s xs) := by
  induction xs with
  | nil => intro s h; exact h
  | cons x xs ih => intro s h; exact ih _ (linkInv_step c s x.1 x.2 h)

/-! ### the unsynchronised state -/

/-- the squelch is not synchronised, holds no lock, and the framer is idle — the state of a
    new receiver as far as everything except the two shift registers is concerned -/
def QuietState (s : LState) : Prop := s.clock = none ∧ s.lock = false ∧ s.fr = .idle

theorem quietState_init : QuietState {} := ⟨rfl, rfl, rfl⟩

/-- without enough power to open the squelch, an unsynchronised link stays unsynchronised and
    reports `noCarrier` -/
theorem quiet_step (c : LCfg) (s : LState) (o : Obs) (b : Byte) (hs : QuietState s)
    (ho : o.openOk = false) :
    QuietState (lstep c s o b).1 ∧ (lstep c s o b).2 = (.noCarrier, none) := by
  obtain ⟨h1, h2, h3⟩ := hs
  rw [lstep_closed c s o b ho]
  simp [h1, baseOf, QuietState, h2, h3, fend_idle]

/-- streams whose every tick is below the opening threshold -/
def AllClosed (xs : List Tick) : Prop := ∀ x ∈ xs, x.1.openOk = false

/-- streams whose every tick is below both thresholds -/
def AllSilent (xs : List Tick) : Prop := ∀ x ∈ xs, x.1.openOk = false ∧ x.1.closeOk = false

theorem AllSilent.closed {xs : List Tick} (h : AllSilent xs) : AllClosed xs :=
  fun x hx => (h x hx).1

theorem quiet_run (c : LCfg) (xs : List Tick) : ∀ s, QuietState s → AllClosed xs →
    QuietState (lrunState c s xs) ∧ ∀ ls ∈ lrun c s xs, ls = .noCarrier := by
  induction xs with
  | nil => intro s h _; exact ⟨h, by simp [lrun]⟩
  | cons x xs ih =>
    intro s h hx
    have h1 := quiet_step c s x.1 x.2 h (hx x (by simp))
    have h2 := ih _ h1.1 (fun y hy => hx y (by simp [hy]))
    refine ⟨h2.1, ?_⟩
    intro ls hls
    simp only [lrun, List.mem_cons] at hls
    rcases hls with hls | hls
    · rw [hls, h1.2]
    · exact h2.2 ls hls

/-! ### run bookkeeping -/

theorem lrunState_append (c : LCfg) (xs ys : List Tick) : ∀ s,
    lrunState c s (xs ++ ys) = lrunState c (lrunState c s xs) ys := by
  induction xs with
  | nil => intro s; rfl
  | cons x xs ih => intro s; simp only [List.cons_append, lrunState]; exact ih _

theorem lrun_append (c : LCfg) (xs ys : List Tick) : ∀ s,
    lrun c s (xs ++ ys) = lrun c s xs ++ lrun c (lrunState c s xs) ys := by
  induction xs with
  | nil => intro s; rfl
  | cons x xs ih => intro s; simp only [List.cons_append, lrun, lrunState, ih]

theorem lrunState_nsym (c : LCfg) (xs : List Tick) : ∀ s,
    (lrunState c s xs).nsym = s.nsym + xs.length := by
  induction xs with
  | nil => intro s; rfl
  | cons x xs ih =>
    intro s
    simp only [lrunState, ih, (lstep_base c s x.1 x.2).2.2, List.length_cons]; omega

/-! ### silence drains the power history -/

/-- the newest `k` entries of the power history are all "below the closing threshold" -/
def TailFalse (k : Nat) (h : List Bool) : Prop := ∀ x ∈ h.drop (h.length - k), x = false

theorem tailFalse_zero (h : List Bool) : TailFalse 0 h := by
  intro x hx; simp at hx

theorem mem_drop_of_le {α : Type} {l : List α} {m n : Nat} {x : α} (hmn : m ≤ n)
    (hx : x ∈ l.drop n) : x ∈ l.drop m := by
  have : l.drop n = (l.drop m).drop (n - m) := by
    rw [List.drop_drop]; congr 1; omega
  rw [this] at hx
  exact List.mem_of_mem_drop hx

theorem tailFalse_push (k : Nat) (h : List Bool) (hk : TailFalse k h) :
    TailFalse (k + 1) (push32 h false) := by
  intro x hx
  rw [push32_length] at hx
  simp only [push32, List.drop_drop, List.length_append, List.length_singleton] at hx
  have hx' : x ∈ (h ++ [false]).drop (h.length - k) := by
    apply mem_drop_of_le _ hx
    omega
  rw [List.drop_append_of_le_length (by omega)] at hx'
  simp only [List.mem_append, List.mem_singleton] at hx'
  rcases hx' with hx' | hx'
  · exact hk x hx'
  · exact hx'

theorem headD_of_all_false (l : List Bool) (hne : l ≠ []) (h : ∀ x ∈ l, x = false) :
    l.headD true = false := by
  cases l with
  | nil => exact absurd rfl hne
  | cons a l => simpa using h a (by simp)

theorem tailFalse_head (k : Nat) (h : List Bool) (hk : TailFalse k h) (hlen : h.length ≤ k)
    (hne : h ≠ []) : h.headD true = false := by
  apply headD_of_all_false h hne
  intro x hx
  apply hk
  have : h.length - k = 0 := by omega
  rw [this]; exact hx

/-- `k` silent ticks have been heard: either the link is already unsynchronised, or the newest
    `k` power-history entries are below the closing threshold -/
def Draining (k : Nat) (s : LState) : Prop := QuietState s ∨ (k < 32 ∧ TailFalse k s.pwr)

theorem draining_zero (s : LState) : Draining 0 s := Or.inr ⟨by omega, tailFalse_zero _⟩

theorem draining_done (k : Nat) (s : LState) (hk : 32 ≤ k) (h : Draining k s) : QuietState s := by
  rcases h with h | ⟨h, _⟩
  · exact h
  · omega

theorem unlocked_of_unsync {s : LState} (h : LinkInv s) (hc : s.clock = none) : s.lock = false := by
  cases hl : s.lock with
  | false => rfl
  | true => have := h.lock_sync hl; rw [hc] at this; cases this

theorem draining_step (c : LCfg) (k : Nat) (s : LState) (o : Obs) (b : Byte) (hinv : LinkInv s)
    (hd : Draining k s) (ho : o.openOk = false) (hcl : o.closeOk = false) :
    Draining (k + 1) (lstep c s o b).1 := by
  rcases hd with hq | ⟨hk, ht⟩
  · exact Or.inl (quiet_step c s o b hq ho).1
  · have ht' : TailFalse (k + 1) (push32 s.pwr false) := tailFalse_push k _ ht
    by_cases hk' : k + 1 < 32
    · right
      refine ⟨hk', ?_⟩
      rw [(lstep_base c s o b).2.1, hcl]; exact ht'
    · left
      have hhead : (push32 s.pwr false).headD true = false := by
        apply tailFalse_head (k + 1) _ ht' _ (push32_ne_nil _ _)
        rw [push32_length]; omega
      rw [lstep_closed c s o b ho, hcl, hhead]
      split
      · next hw =>
        have hc := hinv.warm (by omega)
        simp [QuietState, baseOf, hc, unlocked_of_unsync hinv hc]
      · cases hc : s.clock with
        | none => simp [QuietState, baseOf, hc, unlocked_of_unsync hinv hc]
        | some j => simp [QuietState, baseOf, LState.endRx]

theorem draining_run (c : LCfg) (xs : List Tick) : ∀ (k : Nat) (s : LState), LinkInv s →
    Draining k s → AllSilent xs → Draining (k + xs.length) (lrunState c s xs) := by
  induction xs with
  | nil => intro k s _ hd _; exact hd
  | cons x xs ih =>
    intro k s hinv hd hx
    have h1 := draining_step c k s x.1 x.2 hinv hd (hx x (by simp)).1 (hx x (by simp)).2
    have h2 := ih (k + 1) _ (linkInv_step c s x.1 x.2 hinv) h1 (fun y hy => hx y (by simp [hy]))
    simp only [lrunState, List.length_cons]
    have e : k + (xs.length + 1) = k + 1 + xs.length := by omega
    rw [e]; exact h2

/-! ### a frame in progress is emitted, not lost -/

theorem finputNR_read (c : FCfg) (msg : List Byte) (inv : Nat) (data : Byte) :
    finputNR c (.read msg inv) data = (.idle, .burst msg)
      ∨ ∃ inv', finputNR c (.read msg inv) data = (.read (msg ++ [data]) inv', .reading) := by
  simp only [finputNR]
  generalize inv + (if isAllowed data = true then 0 else 1) = inv'
  split
  · exact Or.inl rfl
  · exact Or.inr ⟨_, rfl⟩

/-- one tick below the opening threshold while the framer reads: either the framer keeps reading
    (the burst only grows, nothing is reported) or the burst is reported as it stands -/
theorem read_step (c : LCfg) (s : LState) (o : Obs) (b : Byte) (msg : List Byte) (inv : Nat)
    (hf : s.fr = .read msg inv) (ho : o.openOk = false) :
    (∃ msg' inv', (lstep c s o b).1.fr = .read msg' inv' ∧ msg <+: msg'
        ∧ ∀ m, (lstep c s o b).2.1 ≠ .burst m)
      ∨ ((lstep c s o b).1.fr = .idle ∧ (lstep c s o b).2.1 = .burst msg) := by
  rw [lstep_closed c s o b ho]
  split
  · right; simp [baseOf, hf, fend]
  · split
    · right; simp [baseOf, hf, fend, LState.endRx]
    · split
      · right; simp [baseOf, hf, fend]
      · obtain ⟨byte, _, hout, _, _, _, hfr, _, _⟩ := byteTick_shape c (baseOf s o) false b
        rw [hout, hfr]
        have e : (baseOf s o).fr = .read msg inv := hf
        rw [e]
        simp only [finput, Bool.false_eq_true, ↓reduceIte]
        rcases finputNR_read c.fc msg inv byte with h | ⟨inv', h⟩
        · right; rw [h]; exact ⟨rfl, rfl⟩
        · left; rw [h]
          exact ⟨_, _, rfl, List.prefix_append _ _, fun m hm => by cases hm⟩
      · left
        refine ⟨msg, inv, hf, List.prefix_rfl, ?_⟩
        intro m hm
        simp [hf, fstate] at hm

/-- one tick below the opening threshold with an idle framer: it stays idle, nothing reported -/
theorem idle_step (c : LCfg) (s : LState) (o : Obs) (b : Byte) (hf : s.fr = .idle)
    (ho : o.openOk = false) :
    (lstep c s o b).1.fr = .idle ∧ ∀ m, (lstep c s o b).2.1 ≠ .burst m := by
  rw [lstep_closed c s o b ho]
  split
  · simp [baseOf, hf, fend]
  · split
    · simp [baseOf, hf, fend, LState.endRx]
    · split
      · simp [baseOf, hf, fend]
      · obtain ⟨byte, _, hout, _, _, _, hfr, _, _⟩ := byteTick_shape c (baseOf s o) false b
        rw [hout, hfr]
        have e : (baseOf s o).fr = .idle := hf
        rw [e]
        simp [finput, finputNR]
      · simp [baseOf, hf, fstate]

theorem lrunBursts_nil (c : LCfg) (s : LState) : lrunBursts c s [] = [] := rfl

theorem lrunBursts_cons_burst (c : LCfg) (s : LState) (x : Tick) (xs : List Tick) (m : List Byte)
    (h : (lstep c s x.1 x.2).2.1 = .burst m) :
    lrunBursts c s (x :: xs) = m :: lrunBursts c (lstep c s x.1 x.2).1 xs := by
  simp only [lrunBursts, lrun, List.filterMap_cons, h]

theorem lrunBursts_cons_other (c : LCfg) (s : LState) (x : Tick) (xs : List Tick)
    (h : ∀ m, (lstep c s x.1 x.2).2.1 ≠ .burst m) :
    lrunBursts c s (x :: xs) = lrunBursts c (lstep c s x.1 x.2).1 xs := by
  simp only [lrunBursts, lrun, List.filterMap_cons]

theorem idle_run (c : LCfg) (xs : List Tick) : ∀ s, s.fr = .idle → AllClosed xs →
    lrunBursts c s xs = [] ∧ (lrunState c s xs).fr = .idle := by
  induction xs with
  | nil => intro s h _; exact ⟨rfl, h⟩
  | cons x xs ih =>
    intro s h hx
    obtain ⟨h1, h2⟩ := idle_step c s x.1 x.2 h (hx x (by simp))
    rw [lrunBursts_cons_other c s x xs h2]
    exact ih _ h1 (fun y hy => hx y (by simp [hy]))

theorem read_run (c : LCfg) (xs : List Tick) : ∀ s msg inv, s.fr = .read msg inv → AllClosed xs →
    (∃ msg' inv', (lrunState c s xs).fr = .read msg' inv' ∧ msg <+: msg' ∧ lrunBursts c s xs = [])
      ∨ (∃ msg', msg <+: msg' ∧ lrunBursts c s xs = [msg'] ∧ (lrunState c s xs).fr = .idle) := by
  induction xs with
  | nil => intro s msg inv h _; exact Or.inl ⟨msg, inv, h, List.prefix_rfl, rfl⟩
  | cons x xs ih =>
    intro s msg inv h hx
    have hx' : AllClosed xs := fun y hy => hx y (by simp [hy])
    rcases read_step c s x.1 x.2 msg inv h (hx x (by simp)) with ⟨msg', inv', h1, h2, h3⟩ | ⟨h1, h2⟩
    · rw [lrunBursts_cons_other c s x xs h3]
      rcases ih _ msg' inv' h1 hx' with ⟨m2, i2, g1, g2, g3⟩ | ⟨m2, g1, g2, g3⟩
      · exact Or.inl ⟨m2, i2, g1, h2.trans g2, g3⟩
      · exact Or.inr ⟨m2, h2.trans g1, g2, g3⟩
    · rw [lrunBursts_cons_burst c s x xs msg h2]
      obtain ⟨g1, g2⟩ := idle_run c xs _ h1 hx'
      exact Or.inr ⟨msg, List.prefix_rfl, by rw [g1], g2⟩

/-! ### framer / squelch coupling (needs the builder's bound on the prefix error budget) -/

/-- the framer is only busy while the squelch is synchronised, and only reads under lock -/
structure FrInv (s : LState) : Prop where
  fr_sync : s.fr ≠ .idle → s.clock.isSome = true
  read_lock : ∀ msg inv, s.fr = .read msg inv → s.lock = true

theorem frInv_init : FrInv {} := by constructor <;> simp

theorem preamble_prefixErrors :
    prefixErrors (((0 : UInt32) <<< 8) ||| PREAMBLE_BYTE.toUInt32) = 15 := by decide +kernel

theorem preamble_prefixErrors' : prefixErrors PREAMBLE_BYTE.toUInt32 = 15 := by decide +kernel

theorem finputNR_out (c : FCfg) (f : FState) (data : Byte) :
    ((finputNR c f data).2 = .reading)
      ∨ ((finputNR c f data).2 = .searching ∧ ∃ w n, (finputNR c f data).1 = .search w n)
      ∨ (((finputNR c f data).2 = .noCarrier ∨ ∃ m, (finputNR c f data).2 = .burst m)
          ∧ (finputNR c f data).1 = .idle) := by
  cases f with
  | idle => simp [finputNR]
  | search w n =>
    simp only [finputNR]
    split
    · simp
    · split <;> simp
  | read msg inv =>
    rcases finputNR_read c msg inv data with h | ⟨inv', h⟩ <;> rw [h] <;> simp

theorem finput_restart_preamble (c : FCfg) (f : FState) (hc : c.maxPrefixErr < 15)
    (hf : ∀ msg inv, f ≠ .read msg inv) :
    (finput c f PREAMBLE_BYTE true).2 = .searching
      ∧ ∃ w n, (finput c f PREAMBLE_BYTE true).1 = .search w n := by
  have hp : ¬ prefixErrors PREAMBLE_BYTE.toUInt32 ≤ c.maxPrefixErr := by
    rw [preamble_prefixErrors']; omega
  have hs : ¬ (0 + 1 > Gen.PREFIX_SEARCH_LEN) := by decide
  cases f with
  | idle => simp [finput, fend, finputNR, hp, hs]
  | search w n => simp [finput, fend, finputNR, hp, hs]
  | read msg inv => exact absurd rfl (hf msg inv)

theorem frInv_byteTick (c : LCfg) (s1 : LState) (adj : Bool) (b : Byte)
    (hc : c.fc.maxPrefixErr < 15) (hl : adj = true → s1.lock = false) (h : FrInv s1) :
    FrInv (byteTick c s1 adj b).1 := by
  obtain ⟨byte, hbyte, _, _, _, _, hfr, _, hcases⟩ := byteTick_shape c s1 adj b
  have hout : ((finput c.fc s1.fr byte adj).2 = .reading)
      ∨ ((finput c.fc s1.fr byte adj).2 = .searching ∧ ∃ w n, (finput c.fc s1.fr byte adj).1 = .search w n)
      ∨ (((finput c.fc s1.fr byte adj).2 = .noCarrier ∨ ∃ m, (finput c.fc s1.fr byte adj).2 = .burst m)
          ∧ (finput c.fc s1.fr byte adj).1 = .idle) := by
    cases adj with
    | false => simpa [finput] using finputNR_out c.fc s1.fr byte
    | true =>
      rw [hbyte rfl]
      have hnr : ∀ msg inv, s1.fr ≠ .read msg inv := by
        intro msg inv e
        have := h.read_lock msg inv e
        rw [hl rfl] at this; cases this
      exact Or.inr (Or.inl (finput_restart_preamble c.fc s1.fr hc hnr))
  constructor
  · intro hne
    rcases hcases with ⟨_, h1, _⟩ | ⟨_, h1, _⟩ | ⟨ho, _, _⟩
    · rw [h1]; rfl
    · rw [h1]; rfl
    · rcases hout with h' | ⟨h', _⟩ | ⟨_, h'⟩
      · rcases ho with ho | ⟨m, ho⟩ <;> rw [h'] at ho <;> cases ho
      · rcases ho with ho | ⟨m, ho⟩ <;> rw [h'] at ho <;> cases ho
      · rw [hfr, h'] at hne; exact absurd rfl hne
  · intro msg inv hm
    rw [hfr] at hm
    rcases hcases with ⟨_, _, h2⟩ | ⟨ho, _, _⟩ | ⟨ho, _, _⟩
    · exact h2
    · rcases hout with h' | ⟨_, w, n, h'⟩ | ⟨h', _⟩
      · rw [h'] at ho; cases ho
      · rw [h'] at hm; cases hm
      · rcases h' with h' | ⟨m, h'⟩ <;> rw [h'] at ho <;> cases ho
    · rcases hout with h' | ⟨h', _⟩ | ⟨_, h'⟩
      · rcases ho with ho | ⟨m, ho⟩ <;> rw [h'] at ho <;> cases ho
      · rcases ho with ho | ⟨m, ho⟩ <;> rw [h'] at ho <;> cases ho
      · rw [h'] at hm; cases hm

theorem frInv_step (c : LCfg) (s : LState) (o : Obs) (b : Byte) (hc : c.fc.maxPrefixErr < 15)
    (h : FrInv s) : FrInv (lstep c s o b).1 := by
  have hidle : ∀ s1 : LState, FrInv { s1 with fr := .idle } := by
    intro s1; constructor <;> simp
  rw [lstep_eq]
  split
  · rw [endTick_fst]; exact hidle _
  · split
    · next hh =>
      exact frInv_byteTick c _ _ b hc (fun _ => hitOf_unlocked c s o hh) ⟨h.fr_sync, h.read_lock⟩
    · split
      · rw [endTick_fst]; exact hidle _
      · split
        · rw [endTick_fst]; exact hidle _
        · exact frInv_byteTick c _ _ b hc (fun x => by cases x) ⟨h.fr_sync, h.read_lock⟩
        · exact ⟨fun _ => rfl, h.read_lock⟩

end SameVerif
