import SameVerif.Model.Combiner
/- Bit-level facts about the two vote functions (all bytes, no enumeration). -/
namespace SameVerif

theorem bitOf_and (a b : Byte) (i : Nat) : bitOf (a &&& b) i = (bitOf a i && bitOf b i) := by
  simp [bitOf, UInt8.toBitVec_and]

theorem bitOf_or (a b : Byte) (i : Nat) : bitOf (a ||| b) i = (bitOf a i || bitOf b i) := by
  simp [bitOf, UInt8.toBitVec_or]

theorem bitOf_xor (a b : Byte) (i : Nat) : bitOf (a ^^^ b) i = (bitOf a i != bitOf b i) := by
  simp [bitOf, UInt8.toBitVec_xor]

theorem bitOf_not (a : Byte) (i : Nat) (hi : i < 8) : bitOf (~~~a) i = !bitOf a i := by
  simp [bitOf, UInt8.toBitVec_not, hi]

theorem bitOf_ge (a : Byte) (i : Nat) (hi : 8 ≤ i) : bitOf a i = false := by
  simp [bitOf]; exact BitVec.getLsbD_of_ge _ _ hi

theorem byte_ext (a b : Byte) (h : ∀ i, i < 8 → bitOf a i = bitOf b i) : a = b := by
  apply UInt8.eq_of_toBitVec_eq
  apply BitVec.eq_of_getLsbD_eq
  intro i hi
  exact h i hi

end SameVerif

namespace SameVerif

theorem countP_range8_congr (p q : Nat → Bool) (h : ∀ i, i < 8 → p i = q i) :
    (List.range 8).countP p = (List.range 8).countP q := by
  apply List.countP_congr
  intro i hi
  have : i < 8 := List.mem_range.mp hi
  simp [h i this]

theorem countZeros8_eq (x : Byte) : countZeros8 x = (List.range 8).countP (fun i => !bitOf x i) := by
  unfold countZeros8 popcount8
  have h := List.length_eq_countP_add_countP (bitOf x) (l := List.range 8)
  simp only [List.length_range] at h
  have : (List.range 8).countP (fun i => !bitOf x i) = (List.range 8).countP (fun a => ¬ bitOf x a = true) := by
    apply List.countP_congr; intro i _; simp
  omega

end SameVerif

namespace SameVerif

/-- lift a kernel-evaluated check over all 256 byte values to a universally quantified statement -/
theorem forall_byte (p : Byte → Bool)
    (h : (List.range 256).all (fun n => p (UInt8.ofNat n)) = true) : ∀ b, p b = true := by
  intro b
  have hb : b.toNat < 256 := UInt8.toNat_lt b
  have := List.all_eq_true.mp h b.toNat (List.mem_range.mpr hb)
  simpa using this

theorem allowed_lt_128 : ∀ b : Byte, isAllowed b = true → b < 128 := by
  have := forall_byte (fun b => !isAllowed b || decide (b < 128)) (by decide +kernel)
  intro b hb
  have h := this b
  simp [hb] at h
  exact h

theorem allowed_mask : ∀ b : Byte, isAllowed b = true → (b &&& ~~~(0x80 : Byte)) = b := by
  have := forall_byte (fun b => !isAllowed b || ((b &&& ~~~(0x80 : Byte)) == b)) (by decide +kernel)
  intro b hb
  have h := this b
  simp [hb] at h
  exact h

theorem allowed_msb : ∀ b : Byte, isAllowed b = true → ((b &&& 0x80) != 0) = false := by
  have := forall_byte (fun b => !isAllowed b || !((b &&& 0x80) != 0)) (by decide +kernel)
  intro b hb
  have h := this b
  simp [hb] at h
  simp [h]

end SameVerif
