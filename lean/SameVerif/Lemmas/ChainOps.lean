import SameVerif.Lemmas.ChainBridge
import SameVerif.Lemmas.ChainLink
import SameVerif.Lemmas.CombineTwo
/-
  Layer 3 support: the operation list of the composed run (`opsOfTicks ∘ mkTicks`) — times,
  order, shape over burst-free stretches, over a segment, over trailing silence.
-/
namespace SameVerif.Chain
open SameVerif SameVerif.Asm SameVerif.Spec

/-! ### `mkTicks` -/

theorem mkTicks_append (samples : Nat → Nat) (sym0 : Nat) (L1 : List LinkSt) : ∀ (i : Nat) (L2 : List LinkSt),
    mkTicks samples sym0 i (L1 ++ L2)
      = mkTicks samples sym0 i L1 ++ mkTicks samples sym0 (i + L1.length) L2 := by
  induction L1 with
  | nil => intro i L2; rfl
  | cons x L1 ih =>
    intro i L2
    simp only [List.cons_append, mkTicks, ih, List.length_cons]
    rw [show i + 1 + L1.length = i + (L1.length + 1) by omega]

theorem mem_mkTicks (samples : Nat → Nat) (sym0 : Nat) (L : List LinkSt) : ∀ (i : Nat) (tk : RTick),
    tk ∈ mkTicks samples sym0 i L →
    ∃ j, i ≤ j ∧ j < i + L.length ∧ tk.1 = samples j ∧ tk.2.1 = sym0 + 1 + j := by
  induction L with
  | nil => intro i tk h; cases h
  | cons x L ih =>
    intro i tk h
    simp only [mkTicks, List.mem_cons] at h
    rcases h with h | h
    · exact ⟨i, Nat.le_refl _, by simp, by rw [h], by rw [h]⟩
    · obtain ⟨j, h1, h2, h3, h4⟩ := ih (i + 1) tk h
      exact ⟨j, by omega, by simp only [List.length_cons]; omega, h3, h4⟩

/-- the sample condition of the bridge, from a condition on the sample function -/
theorem samplesWithin_mkTicks (rate smax : Nat) (samples : Nat → Nat) (sym0 i : Nat) (L : List LinkSt)
    (h : ∀ j, i ≤ j → j < i + L.length → samples j ≤ smax ∧ smax ≤ samples j + TIMEOUT rate) :
    SamplesWithin rate smax (mkTicks samples sym0 i L) := by
  constructor
  · intro tk htk
    obtain ⟨j, h1, h2, h3, _⟩ := mem_mkTicks samples sym0 L i tk htk
    rw [h3]; exact (h j h1 h2).1
  · intro tk htk
    obtain ⟨j, h1, h2, h3, _⟩ := mem_mkTicks samples sym0 L i tk htk
    rw [h3]; exact (h j h1 h2).2

/-! ### the operations of the composed run -/

/-- the operations of ticks `i …` -/
abbrev opsAt (samples : Nat → Nat) (sym0 i : Nat) (L : List LinkSt) : List AOp :=
  opsOfTicks (mkTicks samples sym0 i L)

theorem opsAt_nil (samples : Nat → Nat) (sym0 i : Nat) : opsAt samples sym0 i [] = [] := rfl

theorem opsAt_cons (samples : Nat → Nat) (sym0 i : Nat) (x : LinkSt) (L : List LinkSt) :
    opsAt samples sym0 i (x :: L)
      = opOfTick (samples i, sym0 + 1 + i, x) ++ opsAt samples sym0 (i + 1) L := by
  simp only [opsAt, mkTicks, opsOfTicks_cons]

theorem opsAt_append (samples : Nat → Nat) (sym0 i : Nat) (L1 L2 : List LinkSt) :
    opsAt samples sym0 i (L1 ++ L2)
      = opsAt samples sym0 i L1 ++ opsAt samples sym0 (i + L1.length) L2 := by
  simp only [opsAt, mkTicks_append, opsOfTicks_append]

theorem opsAt_burst (samples : Nat → Nat) (sym0 i : Nat) (b : List Byte) (L : List LinkSt) :
    opsAt samples sym0 i (.burst b :: L) = .burst b (sym0 + 1 + i) :: opsAt samples sym0 (i + 1) L := by
  rw [opsAt_cons]; rfl

/-- every operation's time is the symbol count of one of the ticks -/
theorem opsAt_time (samples : Nat → Nat) (sym0 : Nat) (L : List LinkSt) : ∀ (i : Nat),
    ∀ op ∈ opsAt samples sym0 i L, sym0 + 1 + i ≤ op.time ∧ op.time < sym0 + 1 + i + L.length := by
  induction L with
  | nil => intro i op h; cases h
  | cons x L ih =>
    intro i op h
    rw [opsAt_cons] at h
    rcases List.mem_append.1 h with h | h
    · have : op.time = sym0 + 1 + i := by
        cases x <;> simp [opOfTick] at h <;> rw [h] <;> rfl
      simp only [List.length_cons]; omega
    · have := ih (i + 1) op h
      simp only [List.length_cons]; omega

/-- **the operations come in time order** (strictly: one tick, one symbol count) -/
theorem opsAt_sorted (samples : Nat → Nat) (sym0 : Nat) (L : List LinkSt) : ∀ (i : Nat),
    Sorted (opsAt samples sym0 i L) := by
  induction L with
  | nil => intro i; exact List.Pairwise.nil
  | cons x L ih =>
    intro i
    rw [opsAt_cons]
    unfold Sorted
    rw [List.pairwise_append]
    refine ⟨?_, ih (i + 1), ?_⟩
    · cases x <;> simp [opOfTick]
    · intro a ha b hb
      have h1 : a.time = sym0 + 1 + i := by
        cases x <;> simp [opOfTick] at ha <;> rw [ha] <;> rfl
      have h2 := (opsAt_time samples sym0 L (i + 1) b hb).1
      omega

/-- a burst-free stretch gives polls only -/
theorem opsAt_noBurst (samples : Nat → Nat) (sym0 : Nat) (L : List LinkSt) (h : NoBurst L) : ∀ (i : Nat),
    ∃ polls : List Nat, opsAt samples sym0 i L = polls.map .poll := by
  induction L with
  | nil => intro i; exact ⟨[], rfl⟩
  | cons x L ih =>
    intro i
    obtain ⟨polls, hp⟩ := ih (fun ls hls => h ls (List.mem_cons_of_mem _ hls)) (i + 1)
    rw [opsAt_cons, hp]
    cases x with
    | burst b => exact absurd rfl (h (.burst b) List.mem_cons_self b)
    | noCarrier => exact ⟨(sym0 + 1 + i) :: polls, rfl⟩
    | searching => exact ⟨polls, rfl⟩
    | reading => exact ⟨polls, rfl⟩

/-- trailing silence: polls, the last of them at the last tick -/
theorem opsAt_silence (samples : Nat → Nat) (sym0 i n : Nat) (hn : 0 < n) :
    ∃ polls : List Nat, opsAt samples sym0 i (List.replicate n .noCarrier)
      = polls.map .poll ++ [.poll (sym0 + i + n)] := by
  obtain ⟨m, rfl⟩ : ∃ m, n = m + 1 := ⟨n - 1, by omega⟩
  rw [List.replicate_succ', opsAt_append]
  obtain ⟨polls, hp⟩ := opsAt_noBurst samples sym0 _ (noBurst_replicate m) i
  refine ⟨polls, ?_⟩
  rw [hp, List.length_replicate, opsAt_cons, opsAt_nil, List.append_nil]
  simp only [opOfTick]
  rw [show sym0 + 1 + (i + m) = sym0 + i + (m + 1) by omega]

/-- one segment: polls, the burst at tick `i + k` with `k` past the end of the body, polls -/
theorem opsAt_segOut (samples : Nat → Nat) (sym0 i : Nat) (g : Seg) (payload t : List Byte)
    (L : List LinkSt) (h : SegOut g payload t L) :
    ∃ (pa pb : List Nat) (k : Nat), opsAt samples sym0 i L
        = pa.map .poll ++ .burst (payload ++ t) (sym0 + 1 + i + k) :: pb.map .poll
      ∧ g.lead.length + g.body.length + 31 ≤ k ∧ k < g.ticks.length := by
  obtain ⟨pre, post, h1, h2, h3, h4⟩ := h.split
  obtain ⟨pa, hpa⟩ := opsAt_noBurst samples sym0 pre h2 i
  obtain ⟨pb, hpb⟩ := opsAt_noBurst samples sym0 post h3 (i + pre.length + 1)
  refine ⟨pa, pb, pre.length, ?_, h4, ?_⟩
  · rw [h1, opsAt_append, opsAt_burst, hpa, hpb]
    rw [show sym0 + 1 + (i + pre.length) = sym0 + 1 + i + pre.length by omega]
  · rw [← h.len, h1, List.length_append, List.length_cons]
    omega

/-! ### leading polls -/

/-- polls on the initial assembler state do nothing -/
theorem run_polls_init (polls : List Nat) :
    (runOps {} (polls.map .poll)).2 = []
      ∧ (runOps {} (polls.map .poll)).1.history = []
      ∧ (runOps {} (polls.map .poll)).1.pending = none
      ∧ (runOps {} (polls.map .poll)).1.previous = none := by
  obtain ⟨h1, h2, h3⟩ := run_polls_quiet polls {} rfl
  have h4 := run_polls_history_sublist polls {}
  exact ⟨h1, List.eq_nil_of_sublist_nil h4, h2, h3⟩

/-! ### a canonical header meets the link layer's payload conditions -/

theorem stripLit_cons_isSome (l : Byte) (ls s : List Byte) (h : (stripLit (l :: ls) s).isSome = true) :
    ∃ cs, s = l :: cs ∧ (stripLit ls cs).isSome = true := by
  cases s with
  | nil => simp [stripLit] at h
  | cons c cs =>
    by_cases hc : l = c
    · subst hc
      exact ⟨cs, rfl, by simpa [stripLit] using h⟩
    · simp [stripLit, hc] at h

theorem header_prefix (H : List Byte) (r : Nat × Nat) (h : checkHeader H = some r) :
    ∃ rest, H = 90 :: 67 :: 90 :: 67 :: 45 :: rest := by
  have hs := startsWith_of_checkHeader H r h
  simp only [startsWith, litZCZC] at hs
  obtain ⟨s1, rfl, hs1⟩ := stripLit_cons_isSome _ _ _ hs
  obtain ⟨s2, rfl, hs2⟩ := stripLit_cons_isSome _ _ _ hs1
  obtain ⟨s3, rfl, hs3⟩ := stripLit_cons_isSome _ _ _ hs2
  obtain ⟨s4, rfl, hs4⟩ := stripLit_cons_isSome _ _ _ hs3
  obtain ⟨s5, rfl, _⟩ := stripLit_cons_isSome _ _ _ hs4
  exact ⟨s5, rfl⟩

/-- a header text the parser accepts, in the SAME character set, short enough for a burst, meets
    all the payload conditions of `C01.burst_delivered`, whatever the prefix budget -/
theorem payloadCond_of_header (c : LCfg) (H : List Byte) (r : Nat × Nat) (hcan : checkHeader H = some r)
    (hall : ∀ b ∈ H, isAllowed b = true) (hfits : H.length ≤ Gen.MAX_BURST_LENGTH) :
    PayloadCond c H := by
  obtain ⟨rest, rfl⟩ := header_prefix H r hcan
  refine ⟨⟨Or.inl rfl, hall, hfits⟩, fun _ => rfl, ?_⟩
  intro h
  simp at h

end SameVerif.Chain
