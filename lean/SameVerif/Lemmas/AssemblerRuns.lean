import SameVerif.Lemmas.AssemblerSteps
/-
  `runOps` over concatenations and over stretches of polls.
-/
namespace SameVerif.Asm

theorem runOps_nil (s : AState) : runOps s [] = (s, []) := rfl

theorem runOps_cons (s : AState) (op : AOp) (ops : List AOp) :
    runOps s (op :: ops)
      = ((runOps (stepOp s op).1 ops).1, outOf op.time (stepOp s op).2 ++ (runOps (stepOp s op).1 ops).2) := rfl

theorem runOps_append (a : List AOp) : ∀ (s : AState) (b : List AOp),
    runOps s (a ++ b)
      = ((runOps (runOps s a).1 b).1, (runOps s a).2 ++ (runOps (runOps s a).1 b).2) := by
  induction a with
  | nil => intro s b; simp [runOps_nil]
  | cons op a ih =>
    intro s b
    simp only [List.cons_append, runOps_cons, ih, List.append_assoc]

theorem outOf_quiet (t : Nat) (tr : Transport) (h : ∀ r, tr ≠ .message r) : outOf t tr = [] := by
  cases tr with
  | message r => exact absurd rfl (h r)
  | idle => rfl
  | assembling => rfl

/-- polls while nothing is pending: no output, `pending` and `previous` untouched -/
theorem run_polls_quiet (polls : List Nat) : ∀ s : AState, s.pending = none →
    (runOps s (polls.map .poll)).2 = [] ∧ (runOps s (polls.map .poll)).1.pending = none
      ∧ (runOps s (polls.map .poll)).1.previous = s.previous := by
  induction polls with
  | nil => intro s h; exact ⟨rfl, h, rfl⟩
  | cons u polls ih =>
    intro s h
    have hi := idle_of_pending_none s u h
    simp only [List.map_cons, runOps_cons, stepOp, AOp.time]
    have hs' : (aIdle s u).1.pending = none := by rw [hi.1]
    have hprev : (aIdle s u).1.previous = s.previous := by rw [hi.1]
    obtain ⟨h1, h2, h3⟩ := ih (aIdle s u).1 hs'
    rw [outOf_quiet _ _ hi.2, h1, h2, h3, hprev]
    exact ⟨rfl, rfl, rfl⟩

/-- polls while nothing is pending and no history entry expires: the state does not move -/
theorem run_polls_still (polls : List Nat) (s : AState) (hp : s.pending = none)
    (hl : s.history.length ≤ 2) (hf : ∀ u ∈ polls, ∀ e ∈ s.history, u < e.deadline) :
    runOps s (polls.map .poll) = (s, []) := by
  induction polls with
  | nil => rfl
  | cons u polls ih =>
    have hi := idle_of_pending_none s u hp
    have hh : pruneHistory s.history u = s.history :=
      pruneHistory_fresh _ _ hl (hf u (by simp))
    have hs : (aIdle s u).1 = s := by
      rw [hi.1, hh]
      cases s; simp only at hp; subst hp; rfl
    simp only [List.map_cons, runOps_cons, stepOp, AOp.time]
    rw [outOf_quiet _ _ hi.2, hs, ih (fun v hv => hf v (by simp [hv]))]
    rfl

/-- polls before the pending result is due: no output, the slot and `previous` are kept -/
theorem run_polls_waiting (polls : List Nat) (t : Timed MsgResult) : ∀ s : AState,
    s.pending = some t → (∀ u ∈ polls, u < t.deadline) →
    (runOps s (polls.map .poll)).2 = [] ∧ (runOps s (polls.map .poll)).1.pending = some t
      ∧ (runOps s (polls.map .poll)).1.previous = s.previous := by
  induction polls with
  | nil => intro s h _; exact ⟨rfl, h, rfl⟩
  | cons u polls ih =>
    intro s h hu
    have hi := idle_of_not_due s t u h (hu u (by simp))
    simp only [List.map_cons, runOps_cons, stepOp, AOp.time]
    have hs' : (aIdle s u).1.pending = some t := by rw [hi.1]
    have hprev : (aIdle s u).1.previous = s.previous := by rw [hi.1]
    obtain ⟨h1, h2, h3⟩ := ih (aIdle s u).1 hs' (fun v hv => hu v (by simp [hv]))
    rw [outOf_quiet _ _ hi.2, h1, h2, h3, hprev]
    exact ⟨rfl, rfl, rfl⟩

end SameVerif.Asm

namespace SameVerif.Asm

/-- a burst that combines to nothing, arriving with an empty history and nothing pending:
    it is stored and nothing else happens -/
theorem burst_stored (s : AState) (b : List Byte) (now : Nat) (hne : b.isEmpty = false)
    (hh : s.history = []) (hp : s.pending = none) (hc : combine MAXLEN [b.take MAXLEN] = none) :
    (stepOp s (.burst b now)).1
        = { history := [⟨b.take MAXLEN, now + HIST⟩], pending := none,
            previous := prunePrevious s.previous now }
      ∧ ∀ r, (stepOp s (.burst b now)).2 ≠ .message r := by
  have hist : historyAfter s b now = [⟨b.take MAXLEN, now + HIST⟩] := by
    simp [historyAfter, hh, pruneHistory_nil]
  have hest : estimateOf s b now = none := by
    unfold estimateOf
    rw [hist]
    simp only [List.map_cons, List.map_nil, hc]
    rfl
  have hpa : pendingAfter s b now = none := by
    unfold pendingAfter; rw [hest]; exact hp
  rw [stepOp_eq, preIdle_burst _ _ _ hne, hist, hpa]
  simp only [AOp.time]
  have hi := idle_of_pending_none
    { history := [⟨b.take MAXLEN, now + HIST⟩], pending := none,
      previous := prunePrevious s.previous now } now rfl
  refine ⟨?_, hi.2⟩
  rw [hi.1]
  have : pruneHistory [⟨b.take MAXLEN, now + HIST⟩] now = [⟨b.take MAXLEN, now + HIST⟩] := by
    apply pruneHistory_fresh
    · simp
    · intro e he
      have := HIST_pos
      simp only [List.mem_singleton] at he
      subst he; simp only; omega
  simp only [this]

/-- a burst that completes a StartOfMessage the duplicate filter lets through, with nothing
    pending: the message is held until `now + HOLD` and nothing is output yet -/
theorem burst_accepted (s : AState) (b : List Byte) (now : Nat) (h : Header) (hne : b.isEmpty = false)
    (hp : s.pending = none)
    (hc : combine MAXLEN ((historyAfter s b now).map (·.data)) = some (.ok (.som h)))
    (hprev : ∀ p, s.previous = some p → p.data.text ≠ h.text) :
    (stepOp s (.burst b now)).1.pending = some ⟨.ok (.som h), now + HOLD⟩
      ∧ (stepOp s (.burst b now)).1.previous = prunePrevious s.previous now
      ∧ ∀ r, (stepOp s (.burst b now)).2 ≠ .message r := by
  have hest : estimateOf s b now = some (.ok (.som h)) := by
    unfold estimateOf
    rw [hc]
    apply dedup_pass
    intro p hpp
    rcases prunePrevious_cases s.previous now with ⟨hn, _⟩ | ⟨hk, _⟩
    · rw [hn] at hpp; cases hpp
    · rw [hk] at hpp; exact hprev p hpp
  have hpa : pendingAfter s b now = some ⟨.ok (.som h), now + HOLD⟩ := by
    unfold pendingAfter; rw [hest]; simp only [hp, accept, acceptNew_som]
  rw [stepOp_eq, preIdle_burst _ _ _ hne, hpa]
  have hi := idle_of_not_due
    { history := historyAfter s b now, pending := some ⟨.ok (.som h), now + HOLD⟩,
      previous := prunePrevious s.previous now } ⟨.ok (.som h), now + HOLD⟩ now rfl
      (by have := HOLD_pos; simp only; omega)
  simp only [AOp.time]
  rw [hi.1]
  exact ⟨rfl, rfl, hi.2⟩

end SameVerif.Asm
