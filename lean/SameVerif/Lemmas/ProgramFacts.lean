import SameVerif.Model.Program
import SameVerif.Lemmas.FullRxFacts
import SameVerif.Thm.C13
/-
  Helper lemmas for Thm/Program.lean.

  * `pcmOfBytes`: length, range, append at even offsets.
  * The `iter_messages` loop (`nextMsg`, `liveMsgs` of Model/Program.lean) for an ARBITRARY step
    function and an arbitrary "is this event a message" projection (`nextMsgG`, `liveMsgsK`):
    what it returns, in terms of the events still owed, each paired with the value of the sample
    counter at which the binding hands it over (`owedPos`).
  * The same for `progStep` (the whole-receiver model): positions are the events' timestamps.
  * Invariants of the state carried through `next`/`nextMsg`/`liveMsgs`/`flushAll`.
-/
namespace SameVerif

/-! ## generic: the message loop over an arbitrary step function -/

section Generic
variable {σ α ε μ : Type}

/-- `nextMsg` of Model/Program.lean for an arbitrary step function -/
def nextMsgG (step : σ → α → σ × List ε) (isMsg : ε → Option μ) :
    Nat → Rx σ ε → List α → Option μ × Rx σ ε × List α
  | 0, r, src => (none, r, src)
  | fuel + 1, r, src =>
    match next step r src with
    | (none, r', src') => (none, r', src')
    | (some e, r', src') =>
      match isMsg e with
      | some m => (some m, r', src')
      | none => nextMsgG step isMsg fuel r' src'

/-- `liveMsgs` of Model/Program.lean for an arbitrary step function; `nextMsg` gets the fuel
    `k * src.length + queue.length + 1` (`k` = events a sample may generate: the model has `k = 2`,
    and had `k = 1` before it was corrected) -/
def liveMsgsK (step : σ → α → σ × List ε) (isMsg : ε → Option μ) (k : Nat) :
    Nat → Rx σ ε → List α → List (Nat × μ) × Rx σ ε
  | 0, r, _ => ([], r)
  | fuel + 1, r, src =>
    match nextMsgG step isMsg (k * src.length + r.queue.length + 1) r src with
    | (none, r', _) => ([], r')
    | (some m, r', src') =>
      let (rest, r'') := liveMsgsK step isMsg k fuel r' src'
      ((r'.consumed, m) :: rest, r'')

/-- the reference fold, every event paired with the 1-based index (counted from `c`) of the
    sample that generated it -/
def foldPos (step : σ → α → σ × List ε) : σ → Nat → List α → List (Nat × ε)
  | _, _, [] => []
  | s, c, x :: xs => (step s x).2.map (fun e => (c + 1, e)) ++ foldPos step (step s x).1 (c + 1) xs

/-- what a receiver still owes, with the counter value at which each event will be handed over:
    queued events at the current counter, generated ones at the index of their sample -/
def owedPos (step : σ → α → σ × List ε) (r : Rx σ ε) (src : List α) : List (Nat × ε) :=
  r.queue.map (fun e => (r.consumed, e)) ++ foldPos step r.st r.consumed src

/-- the messages among positioned events -/
def msgsOf (isMsg : ε → Option μ) (l : List (Nat × ε)) : List (Nat × μ) :=
  l.filterMap (fun x => (isMsg x.2).map (fun m => (x.1, m)))

theorem foldPos_map_snd (step : σ → α → σ × List ε) (s : σ) (c : Nat) (xs : List α) :
    (foldPos step s c xs).map (·.2) = (foldEvents step s xs).1 := by
  induction xs generalizing s c with
  | nil => rfl
  | cons x xs ih =>
    simp [foldPos, foldEvents_cons, ih, List.map_map, Function.comp_def]

theorem foldPos_length (step : σ → α → σ × List ε) (s : σ) (c : Nat) (xs : List α) :
    (foldPos step s c xs).length = (foldEvents step s xs).1.length := by
  rw [← foldPos_map_snd step s c xs, List.length_map]

theorem foldPos_append (step : σ → α → σ × List ε) (s : σ) (c : Nat) (xs ys : List α) :
    foldPos step s c (xs ++ ys)
      = foldPos step s c xs ++ foldPos step (foldEvents step s xs).2 (c + xs.length) ys := by
  induction xs generalizing s c with
  | nil => simp [foldPos, foldEvents_nil]
  | cons x xs ih =>
    simp only [List.cons_append, foldPos, ih, foldEvents_cons, List.length_cons, List.append_assoc]
    congr 3
    omega

theorem foldPos_silent (step : σ → α → σ × List ε) (s : σ) (c : Nat) (xs : List α)
    (h : Silent step s xs) : foldPos step s c xs = [] := by
  have := foldPos_length step s c xs
  rw [(silent_iff_fold step s xs).1 h] at this
  exact List.eq_nil_of_length_eq_zero this

/-- one call of `next()` that returns an event: it is the head of what is owed, at the counter
    value the receiver then shows; the rest stays owed; the samples used are a prefix -/
theorem next_some_owedPos (step : σ → α → σ × List ε) (r r' : Rx σ ε) (src src' : List α) (e : ε)
    (h : next step r src = (some e, r', src')) :
    owedPos step r src = (r'.consumed, e) :: owedPos step r' src'
      ∧ ∃ used, src = used ++ src' ∧ r'.st = (foldEvents step r.st used).2
          ∧ r'.consumed = r.consumed + used.length := by
  rcases C13.no_read_ahead step r r' src src' e h with
    ⟨q, h1, h2, h3, h4, h5⟩ | ⟨h0, pre, x, q, h1, h2, h3, h4, h5⟩
  · refine ⟨?_, [], by simp [h3], by simp [foldEvents_nil, h5], by simp [h4]⟩
    simp only [owedPos, h1, h2, h3, h4, h5, List.map_cons, List.cons_append]
  · refine ⟨?_, pre ++ [x], by simp [h1], ?_, by simp [h5]; omega⟩
    · have e1 : (step (foldEvents step r.st pre).2 x).2 = e :: q := by rw [h3]
      have e2 : (step (foldEvents step r.st pre).2 x).1 = r'.st := by rw [h3]
      simp only [owedPos, h0, h1, h4, h5, List.map_nil, List.nil_append, foldPos_append,
        foldPos_silent step r.st r.consumed pre h2, foldPos, e1, e2, List.map_cons, List.cons_append]
    · rw [foldEvents_append, foldEvents_cons, foldEvents_nil, h3]

/-- one call of `next()` that returns nothing: nothing was owed, everything has been read -/
theorem next_none_owedPos (step : σ → α → σ × List ε) (r r' : Rx σ ε) (src src' : List α)
    (h : next step r src = (none, r', src')) :
    owedPos step r src = [] ∧ src' = []
      ∧ r' = { st := (foldEvents step r.st src).2, queue := [], consumed := r.consumed + src.length } := by
  obtain ⟨h1, h2, h3, h4, h5, h6⟩ := C13.none_means_exhausted step r r' src src' h
  refine ⟨?_, h1, ?_⟩
  · simp [owedPos, h3, foldPos_silent step r.st r.consumed src h6]
  · cases r' with
    | mk st q c =>
      simp only at h2 h4 h5
      subst h2 h4 h5
      rfl

/-- a message is owed behind `pre` non-messages and the fuel covers `pre`: it is returned, at its
    position, and exactly what was owed behind it stays owed -/
theorem nextMsgG_found (step : σ → α → σ × List ε) (isMsg : ε → Option μ) (fuel : Nat) :
    ∀ (r : Rx σ ε) (src : List α) (pre : List (Nat × ε)) (p : Nat) (e : ε) (rest : List (Nat × ε)) (m : μ),
      owedPos step r src = pre ++ (p, e) :: rest → (∀ x ∈ pre, isMsg x.2 = none) → isMsg e = some m →
      pre.length < fuel →
      ∃ r' src', nextMsgG step isMsg fuel r src = (some m, r', src') ∧ r'.consumed = p
        ∧ owedPos step r' src' = rest
        ∧ ∃ used, src = used ++ src' ∧ r'.st = (foldEvents step r.st used).2
            ∧ r'.consumed = r.consumed + used.length := by
  induction fuel with
  | zero => intro r src pre p e rest m _ _ _ hf; omega
  | succ fuel ih =>
    intro r src pre p e rest m ho hpre hm hf
    rw [nextMsgG]
    cases hn : next step r src with
    | mk o t =>
      obtain ⟨r1, src1⟩ := t
      cases o with
      | none =>
        obtain ⟨h1, _, _⟩ := next_none_owedPos step r r1 src src1 hn
        rw [h1] at ho
        simp at ho
      | some e1 =>
        obtain ⟨h1, used, hu1, hu2, hu3⟩ := next_some_owedPos step r r1 src src1 e1 hn
        rw [h1] at ho
        cases pre with
        | nil =>
          simp only [List.nil_append, List.cons.injEq, Prod.mk.injEq] at ho
          obtain ⟨⟨hp, he⟩, hr⟩ := ho
          subst he
          simp only [hm]
          exact ⟨r1, src1, rfl, hp, hr, used, hu1, hu2, hu3⟩
        | cons x pre' =>
          simp only [List.cons_append, List.cons.injEq] at ho
          obtain ⟨hx, hr⟩ := ho
          have hnone : isMsg e1 = none := by
            have := hpre x List.mem_cons_self
            rw [← hx] at this
            exact this
          simp only [hnone]
          obtain ⟨r', src', g1, g2, g3, used', gu1, gu2, gu3⟩ :=
            ih r1 src1 pre' p e rest m hr (fun y hy => hpre y (List.mem_cons_of_mem _ hy)) hm
              (by simp only [List.length_cons] at hf; omega)
          refine ⟨r', src', g1, g2, g3, used ++ used', ?_, ?_, ?_⟩
          · rw [hu1, gu1, List.append_assoc]
          · rw [gu2, hu2, foldEvents_append]
          · rw [gu3, hu3, List.length_append]; omega

/-- no message is owed: nothing is returned, whatever the fuel -/
theorem nextMsgG_none (step : σ → α → σ × List ε) (isMsg : ε → Option μ) (fuel : Nat) :
    ∀ (r : Rx σ ε) (src : List α), (∀ x ∈ owedPos step r src, isMsg x.2 = none) →
      (nextMsgG step isMsg fuel r src).1 = none := by
  induction fuel with
  | zero => intro r src _; rfl
  | succ fuel ih =>
    intro r src ho
    rw [nextMsgG]
    cases hn : next step r src with
    | mk o t =>
      obtain ⟨r1, src1⟩ := t
      cases o with
      | none => rfl
      | some e1 =>
        obtain ⟨h1, _⟩ := next_some_owedPos step r r1 src src1 e1 hn
        rw [h1] at ho
        have hnone : isMsg e1 = none := ho _ List.mem_cons_self
        simp only [hnone]
        exact ih r1 src1 (fun y hy => ho y (List.mem_cons_of_mem _ hy))

/-- no message is owed and the fuel exceeds what is owed: the source is read to its end -/
theorem nextMsgG_none_exact (step : σ → α → σ × List ε) (isMsg : ε → Option μ) (fuel : Nat) :
    ∀ (r : Rx σ ε) (src : List α), (∀ x ∈ owedPos step r src, isMsg x.2 = none) →
      (owedPos step r src).length < fuel →
      nextMsgG step isMsg fuel r src
        = (none, { st := (foldEvents step r.st src).2, queue := [], consumed := r.consumed + src.length }, []) := by
  induction fuel with
  | zero => intro r src _ hf; omega
  | succ fuel ih =>
    intro r src ho hf
    rw [nextMsgG]
    cases hn : next step r src with
    | mk o t =>
      obtain ⟨r1, src1⟩ := t
      cases o with
      | none =>
        obtain ⟨_, h2, h3⟩ := next_none_owedPos step r r1 src src1 hn
        rw [h2, h3]
      | some e1 =>
        obtain ⟨h1, used, hu1, hu2, hu3⟩ := next_some_owedPos step r r1 src src1 e1 hn
        rw [h1] at ho hf
        have hnone : isMsg e1 = none := ho _ List.mem_cons_self
        simp only [hnone]
        rw [ih r1 src1 (fun y hy => ho y (List.mem_cons_of_mem _ hy))
          (by simp only [List.length_cons] at hf; omega)]
        rw [hu1, foldEvents_append, hu2, hu3, List.length_append, Nat.add_assoc]

/-- a list of positioned events either holds no message, or splits at its first message -/
theorem msgsOf_split (isMsg : ε → Option μ) (l : List (Nat × ε)) :
    ((∀ x ∈ l, isMsg x.2 = none) ∧ msgsOf isMsg l = [])
    ∨ ∃ pre p e rest m, l = pre ++ (p, e) :: rest ∧ (∀ x ∈ pre, isMsg x.2 = none) ∧ isMsg e = some m
        ∧ msgsOf isMsg l = (p, m) :: msgsOf isMsg rest := by
  induction l with
  | nil => exact Or.inl ⟨(fun _ h => nomatch h), rfl⟩
  | cons x l ih =>
    obtain ⟨p, e⟩ := x
    cases hm : isMsg e with
    | some m =>
      exact Or.inr ⟨[], p, e, l, m, rfl, (fun _ h => nomatch h), hm, by simp [msgsOf, hm]⟩
    | none =>
      rcases ih with ⟨h1, h2⟩ | ⟨pre, p', e', rest, m, h1, h2, h3, h4⟩
      · refine Or.inl ⟨?_, ?_⟩
        · intro y hy
          rcases List.mem_cons.1 hy with rfl | hy
          · exact hm
          · exact h1 y hy
        · simp only [msgsOf] at h2 ⊢
          simp [hm, h2]
      · refine Or.inr ⟨(p, e) :: pre, p', e', rest, m, by rw [h1]; rfl, ?_, h3, ?_⟩
        · intro y hy
          rcases List.mem_cons.1 hy with rfl | hy
          · exact hm
          · exact h2 y hy
        · simp only [msgsOf] at h4 ⊢
          simp [hm, h4]

theorem msgsOf_length_le (isMsg : ε → Option μ) (l : List (Nat × ε)) :
    (msgsOf isMsg l).length ≤ l.length := List.length_filterMap_le _ _

theorem owedPos_length (step : σ → α → σ × List ε) (r : Rx σ ε) (src : List α) :
    (owedPos step r src).length = r.queue.length + (foldEvents step r.st src).1.length := by
  simp [owedPos, foldPos_length]

/-- no sample generates more than `k` events: the fuel `liveMsgsK` gives `nextMsg` exceeds what is owed -/
theorem owed_lt_fuel (step : σ → α → σ × List ε) (k : Nat) (hk : ∀ s x, (step s x).2.length ≤ k)
    (r : Rx σ ε) (src : List α) :
    (owedPos step r src).length < k * src.length + r.queue.length + 1 := by
  rw [owedPos_length]
  have := C13.fold_length_le step k hk r.st src
  omega

/-- **the message loop loses nothing and reads the input to its end.**  If no sample generates
    more than `k` events and the outer fuel covers the number of messages owed, `liveMsgsK k`
    returns exactly the messages owed, in order, each with the counter value at which it is
    handed over; with one more unit of outer fuel it ends in the final state of the fold, with an
    empty queue and every sample counted. -/
theorem liveMsgsK_spec (step : σ → α → σ × List ε) (isMsg : ε → Option μ) (k : Nat)
    (hk : ∀ s x, (step s x).2.length ≤ k) (fuel : Nat) :
    ∀ (r : Rx σ ε) (src : List α), (msgsOf isMsg (owedPos step r src)).length ≤ fuel →
      (liveMsgsK step isMsg k fuel r src).1 = msgsOf isMsg (owedPos step r src)
      ∧ ((msgsOf isMsg (owedPos step r src)).length < fuel →
          (liveMsgsK step isMsg k fuel r src).2
            = { st := (foldEvents step r.st src).2, queue := [], consumed := r.consumed + src.length }) := by
  induction fuel with
  | zero =>
    intro r src hf
    have : msgsOf isMsg (owedPos step r src) = [] := List.eq_nil_of_length_eq_zero (by omega)
    rw [this]
    exact ⟨rfl, fun h => by simp at h⟩
  | succ fuel ih =>
    intro r src hf
    have hlt := owed_lt_fuel step k hk r src
    rw [liveMsgsK]
    rcases msgsOf_split isMsg (owedPos step r src) with ⟨h1, h2⟩ | ⟨pre, p, e, rest, m, h1, h2, h3, h4⟩
    · rw [nextMsgG_none_exact step isMsg _ r src h1 hlt, h2]
      exact ⟨rfl, fun _ => rfl⟩
    · have hlen : pre.length < k * src.length + r.queue.length + 1 := by
        rw [h1] at hlt
        simp only [List.length_append, List.length_cons] at hlt
        omega
      obtain ⟨r', src', g1, g2, g3, used, gu1, gu2, gu3⟩ :=
        nextMsgG_found step isMsg _ r src pre p e rest m h1 h2 h3 hlen
      rw [g1, h4]
      simp only
      rw [h4] at hf
      obtain ⟨i1, i2⟩ := ih r' src' (by rw [g3]; simp only [List.length_cons] at hf; omega)
      refine ⟨by rw [i1, g2, g3], fun hlt' => ?_⟩
      rw [i2 (by rw [g3]; simp only [List.length_cons] at hlt'; omega)]
      rw [gu1, foldEvents_append, gu2, gu3, List.length_append, Nat.add_assoc]

/-- `nextMsg` never skips a sample and never counts backwards -/
theorem nextMsgG_counts (step : σ → α → σ × List ε) (isMsg : ε → Option μ) (fuel : Nat) :
    ∀ (r r' : Rx σ ε) (src src' : List α) (o : Option μ),
      nextMsgG step isMsg fuel r src = (o, r', src') →
      r'.consumed + src'.length = r.consumed + src.length ∧ r.consumed ≤ r'.consumed := by
  induction fuel with
  | zero =>
    intro r r' src src' o h
    simp only [nextMsgG, Prod.mk.injEq] at h
    obtain ⟨_, rfl, rfl⟩ := h
    exact ⟨rfl, Nat.le_refl _⟩
  | succ fuel ih =>
    intro r r' src src' o h
    rw [nextMsgG] at h
    cases hn : next step r src with
    | mk o1 t =>
      obtain ⟨r1, src1⟩ := t
      obtain ⟨c1, c2, _⟩ := C13.next_counts step r r1 src src1 o1 hn
      rw [hn] at h
      cases o1 with
      | none =>
        simp only [Prod.mk.injEq] at h
        obtain ⟨_, rfl, rfl⟩ := h
        exact ⟨c1, c2⟩
      | some e1 =>
        simp only at h
        cases hm : isMsg e1 with
        | some m =>
          rw [hm] at h
          simp only [Prod.mk.injEq] at h
          obtain ⟨_, rfl, rfl⟩ := h
          exact ⟨c1, c2⟩
        | none =>
          rw [hm] at h
          obtain ⟨d1, d2⟩ := ih r1 r' src1 src' o h
          exact ⟨by omega, by omega⟩

/-- the positions `liveMsgs` reports: within the input, non-decreasing (no hypothesis at all) -/
theorem liveMsgsK_pos (step : σ → α → σ × List ε) (isMsg : ε → Option μ) (k fuel : Nat) :
    ∀ (r : Rx σ ε) (src : List α),
      (∀ x ∈ (liveMsgsK step isMsg k fuel r src).1, r.consumed ≤ x.1 ∧ x.1 ≤ r.consumed + src.length)
      ∧ (liveMsgsK step isMsg k fuel r src).1.Pairwise (fun a b => a.1 ≤ b.1) := by
  induction fuel with
  | zero => intro r src; exact ⟨(fun _ h => nomatch h), List.Pairwise.nil⟩
  | succ fuel ih =>
    intro r src
    rw [liveMsgsK]
    cases hn : nextMsgG step isMsg (k * src.length + r.queue.length + 1) r src with
    | mk o t =>
      obtain ⟨r1, src1⟩ := t
      obtain ⟨c1, c2⟩ := nextMsgG_counts step isMsg _ r r1 src src1 o hn
      cases o with
      | none => exact ⟨(fun _ h => nomatch h), List.Pairwise.nil⟩
      | some m =>
        obtain ⟨i1, i2⟩ := ih r1 src1
        simp only
        refine ⟨?_, List.pairwise_cons.2 ⟨?_, i2⟩⟩
        · intro x hx
          rcases List.mem_cons.1 hx with rfl | hx
          · simp only; omega
          · have := i1 x hx; omega
        · intro x hx
          have := i1 x hx
          simp only; omega

/-! ### a property of the state carried through the loops -/

theorem pull_pres (step : σ → α → σ × List ε) (P : σ → Prop) (hstep : ∀ s x, P s → P (step s x).1)
    (src : List α) : ∀ r : Rx σ ε, P r.st → P (pull step r src).2.1.st := by
  induction src with
  | nil => intro r h; exact h
  | cons x xs ih =>
    intro r h
    cases hq : (step r.st x).2 with
    | nil =>
      rw [pull_cons_silent step r x xs hq]
      exact ih _ (hstep _ _ h)
    | cons e q =>
      rw [pull_cons_event step r x xs e q hq]
      exact hstep _ _ h

theorem next_pres (step : σ → α → σ × List ε) (P : σ → Prop) (hstep : ∀ s x, P s → P (step s x).1)
    (r : Rx σ ε) (src : List α) (h : P r.st) : P (next step r src).2.1.st := by
  cases hq : r.queue with
  | cons e q => rw [next_queue step r src e q hq]; exact h
  | nil => rw [next_empty step r src hq]; exact pull_pres step P hstep src r h

theorem nextMsgG_pres (step : σ → α → σ × List ε) (isMsg : ε → Option μ) (P : σ → Prop)
    (hstep : ∀ s x, P s → P (step s x).1) (fuel : Nat) :
    ∀ (r : Rx σ ε) (src : List α), P r.st → P (nextMsgG step isMsg fuel r src).2.1.st := by
  induction fuel with
  | zero => intro r src h; exact h
  | succ fuel ih =>
    intro r src h
    rw [nextMsgG]
    have := next_pres step P hstep r src h
    cases hn : next step r src with
    | mk o t =>
      obtain ⟨r1, src1⟩ := t
      rw [hn] at this
      cases o with
      | none => exact this
      | some e1 =>
        simp only
        cases isMsg e1 with
        | some m => exact this
        | none => exact ih r1 src1 this

theorem liveMsgsK_pres (step : σ → α → σ × List ε) (isMsg : ε → Option μ) (P : σ → Prop)
    (hstep : ∀ s x, P s → P (step s x).1) (k fuel : Nat) :
    ∀ (r : Rx σ ε) (src : List α), P r.st → P (liveMsgsK step isMsg k fuel r src).2.st := by
  induction fuel with
  | zero => intro r src h; exact h
  | succ fuel ih =>
    intro r src h
    rw [liveMsgsK]
    have := nextMsgG_pres step isMsg P hstep (k * src.length + r.queue.length + 1) r src h
    cases hn : nextMsgG step isMsg (k * src.length + r.queue.length + 1) r src with
    | mk o t =>
      obtain ⟨r1, src1⟩ := t
      rw [hn] at this
      cases o with
      | none => exact this
      | some m => exact ih r1 src1 this

theorem msgsOf_const_length (isMsg : ε → Option μ) (c : Nat) (evs : List ε) :
    (msgsOf isMsg (evs.map (fun e => (c, e)))).length = (evs.filterMap isMsg).length := by
  induction evs with
  | nil => rfl
  | cons e evs ih =>
    cases hm : isMsg e with
    | none => simpa [msgsOf, List.filterMap_cons, hm] using ih
    | some m => simpa [msgsOf, List.filterMap_cons, hm] using ih

/-- at most one message per sample: at most as many messages as samples -/
theorem msgsOf_foldPos_le (step : σ → α → σ × List ε) (isMsg : ε → Option μ)
    (h1 : ∀ s x, ((step s x).2.filterMap isMsg).length ≤ 1) (xs : List α) :
    ∀ s c, (msgsOf isMsg (foldPos step s c xs)).length ≤ xs.length := by
  induction xs with
  | nil => intro s c; simp [foldPos, msgsOf]
  | cons x xs ih =>
    intro s c
    have e : msgsOf isMsg (foldPos step s c (x :: xs))
        = msgsOf isMsg ((step s x).2.map (fun e => (c + 1, e)))
          ++ msgsOf isMsg (foldPos step (step s x).1 (c + 1) xs) := by
      simp only [foldPos, msgsOf, List.filterMap_append]
    rw [e, List.length_append, msgsOf_const_length, List.length_cons]
    have := h1 s x
    have := ih (step s x).1 (c + 1)
    omega

end Generic

theorem rTick_length_le_two (rate : Nat) (s : RState) (sample sym : Nat) (ls : LinkSt) :
    (rTick rate s sample sym ls).2.length ≤ 2 := by
  rw [rTick_eq]
  simp only [List.length_append]
  have h1 : (linkEv s sample ls).length ≤ 1 := by
    unfold linkEv; split <;> simp
  have h2 : (trEv s sample (tlCore s sample sym ls).2).length ≤ 1 := by
    unfold trEv
    split
    · split <;> simp
    · simp
  omega

end SameVerif

namespace SameVerif.Dsp
open SameVerif Arith

/-! ## input conversion -/

theorem pcmOfBytes_cons2 (lo hi : UInt8) (rest : List UInt8) :
    pcmOfBytes (lo :: hi :: rest)
      = (if lo.toNat + 256 * hi.toNat < 32768 then ((lo.toNat + 256 * hi.toNat : Nat) : Int)
         else ((lo.toNat + 256 * hi.toNat : Nat) : Int) - 65536) :: pcmOfBytes rest := rfl

theorem pcmOfBytes_single (b : UInt8) : pcmOfBytes [b] = [] := rfl

theorem pcmOfBytes_length_aux (n : Nat) : ∀ bs : List UInt8, bs.length ≤ n →
    (pcmOfBytes bs).length = bs.length / 2 := by
  induction n with
  | zero =>
    intro bs h
    cases bs with
    | nil => rfl
    | cons _ _ => simp at h
  | succ n ih =>
    intro bs h
    match bs, h with
    | [], _ => rfl
    | [_], _ => simp [pcmOfBytes_single]
    | lo :: hi :: rest, h =>
      rw [pcmOfBytes_cons2]
      simp only [List.length_cons] at h ⊢
      rw [ih rest (by omega)]
      omega

theorem pcmOfBytes_append_aux (cs : List UInt8) (n : Nat) : ∀ bs : List UInt8, bs.length ≤ n →
    bs.length % 2 = 0 → pcmOfBytes (bs ++ cs) = pcmOfBytes bs ++ pcmOfBytes cs := by
  induction n with
  | zero =>
    intro bs h _
    cases bs with
    | nil => rfl
    | cons _ _ => simp at h
  | succ n ih =>
    intro bs h he
    match bs, h, he with
    | [], _, _ => rfl
    | [_], _, he => simp at he
    | lo :: hi :: rest, h, he =>
      simp only [List.length_cons] at h he
      simp only [List.cons_append, pcmOfBytes_cons2]
      rw [ih rest (by omega) (by omega)]

theorem pcmOfBytes_range_aux (n : Nat) : ∀ bs : List UInt8, bs.length ≤ n →
    ∀ v ∈ pcmOfBytes bs, -32768 ≤ v ∧ v ≤ 32767 := by
  induction n with
  | zero =>
    intro bs h v hv
    cases bs with
    | nil => cases hv
    | cons _ _ => simp at h
  | succ n ih =>
    intro bs h v hv
    match bs, h, hv with
    | [], _, hv => cases hv
    | [_], _, hv => cases hv
    | lo :: hi :: rest, h, hv =>
      rw [pcmOfBytes_cons2] at hv
      simp only [List.length_cons] at h
      rcases List.mem_cons.1 hv with rfl | hv
      · have h1 := lo.toNat_lt
        have h2 := hi.toNat_lt
        split <;> omega
      · exact ih rest (by omega) v hv

/-! ## the loops of Model/Program.lean are the generic ones at `progStep` -/

section Prog
variable {F : Type} [Arith F] [Hypot F]

theorem nextMsg_eq_G (fuel : Nat) : ∀ (r : PRx F) (src : List F),
    nextMsg fuel r src = nextMsgG progStep amsgOfEvent fuel r src := by
  induction fuel with
  | zero => intro r src; rfl
  | succ fuel ih =>
    intro r src
    simp only [nextMsg, nextMsgG, ih]
    rcases next progStep r src with ⟨_ | e, r1, s1⟩
    · rfl
    · dsimp only
      cases amsgOfEvent e <;> rfl

theorem liveMsgs_eq_K (fuel : Nat) : ∀ (r : PRx F) (src : List F),
    liveMsgs fuel r src = liveMsgsK progStep amsgOfEvent 2 fuel r src := by
  induction fuel with
  | zero => intro r src; rfl
  | succ fuel ih =>
    intro r src
    simp only [liveMsgs, liveMsgsK, ih, nextMsg_eq_G]
    rcases nextMsgG progStep amsgOfEvent (2 * src.length + r.queue.length + 1) r src with ⟨_ | m, r1, s1⟩ <;> rfl

/-! ## `progStep` -/

theorem progStep_none (x : F) : progStep (none : Option (FullRx F)) x = (none, []) := rfl

theorem progStep_some_none {r : FullRx F} {x : F} (h : r.sample x = none) :
    progStep (some r) x = (none, []) := by
  simp only [progStep, h]

theorem progStep_some_some {r r' : FullRx F} {x : F} {evs : List Event} (h : r.sample x = some (r', evs)) :
    progStep (some r) x = (some r', evs) := by
  simp only [progStep, h]

theorem foldEvents_progStep_none (xs : List F) :
    foldEvents progStep (none : Option (FullRx F)) xs = ([], none) := by
  induction xs with
  | nil => rfl
  | cons x xs ih => rw [foldEvents_cons, progStep_none]; simp only [ih, List.append_nil]

theorem foldPos_progStep_none (c : Nat) (xs : List F) :
    foldPos progStep (none : Option (FullRx F)) c xs = [] := by
  have := foldPos_length progStep (none : Option (FullRx F)) c xs
  rw [foldEvents_progStep_none] at this
  exact List.eq_nil_of_length_eq_zero this

/-- the plain fold of `progStep` is `FullRx.run` -/
theorem foldEvents_progStep_run (xs : List F) : ∀ (r r' : FullRx F) (evs : List Event),
    FullRx.run r xs = some (r', evs) → foldEvents progStep (some r) xs = (evs, some r') := by
  induction xs with
  | nil =>
    intro r r' evs h
    simp only [FullRx.run, Option.some.injEq, Prod.mk.injEq] at h
    obtain ⟨rfl, rfl⟩ := h
    rfl
  | cons x xs ih =>
    intro r r' evs h
    unfold FullRx.run at h
    cases hs : r.sample x with
    | none => rw [hs] at h; cases h
    | some p =>
      obtain ⟨r1, ev⟩ := p
      rw [hs] at h
      dsimp only at h
      cases hr : FullRx.run r1 xs with
      | none => rw [hr] at h; cases h
      | some q =>
        obtain ⟨r2, evs'⟩ := q
        rw [hr] at h
        simp only [Option.some.injEq, Prod.mk.injEq] at h
        obtain ⟨rfl, rfl⟩ := h
        rw [foldEvents_cons, progStep_some_some hs, ih r1 r2 evs' hr]

theorem foldEvents_progStep_panic (xs : List F) : ∀ (r : FullRx F),
    FullRx.run r xs = none → (foldEvents progStep (some r) xs).2 = none := by
  induction xs with
  | nil => intro r h; cases h
  | cons x xs ih =>
    intro r h
    unfold FullRx.run at h
    cases hs : r.sample x with
    | none => rw [foldEvents_cons, progStep_some_none hs, foldEvents_progStep_none]
    | some p =>
      obtain ⟨r1, ev⟩ := p
      rw [hs] at h
      dsimp only at h
      rw [foldEvents_cons, progStep_some_some hs]
      cases hr : FullRx.run r1 xs with
      | none => exact ih r1 hr
      | some q => rw [hr] at h; cases h

/-- the index of the generating sample IS the event's timestamp, when the receiver's own counter
    agrees with the binding's (`FullRx.sample_counter`) — also across a panic -/
theorem foldPos_progStep (xs : List F) : ∀ (r : FullRx F),
    foldPos progStep (some r) r.inputCounter xs
      = (foldEvents progStep (some r) xs).1.map (fun e => (e.stamp, e)) := by
  induction xs with
  | nil => intro r; rfl
  | cons x xs ih =>
    intro r
    rw [foldPos, foldEvents_cons]
    cases hs : r.sample x with
    | none =>
      rw [progStep_some_none hs, foldPos_progStep_none, foldEvents_progStep_none]
      rfl
    | some p =>
      obtain ⟨r1, ev⟩ := p
      obtain ⟨c1, s1⟩ := FullRx.sample_counter hs
      rw [progStep_some_some hs]
      simp only [List.map_append]
      rw [← c1, ih r1]
      congr 1
      apply List.map_congr_left
      intro e he
      rw [s1 e he, c1]

/-- one sample generates at most two events: a link-state change and a transport-state change -/
theorem progStep_length_le_two (s : Option (FullRx F)) (x : F) : (progStep s x).2.length ≤ 2 := by
  cases s with
  | none => simp [progStep_none]
  | some r =>
    cases hs : r.sample x with
    | none => simp [progStep_some_none hs]
    | some p =>
      obtain ⟨r', evs⟩ := p
      rw [progStep_some_some hs]
      obtain ⟨q, sym, _, hc⟩ := FullRx.sample_cases hs
      rcases hc with ⟨_, _, rfl⟩ | ⟨sy, _, hsy⟩
      · simp
      · obtain ⟨_, a2, _⟩ := FullRx.symbol_refines q sy
        rw [hsy] at a2
        dsimp only at a2 ⊢
        rw [a2]
        exact rTick_length_le_two _ _ _ _ _

/-- … and at most one of them is a message (link events are not) -/
theorem progStep_msgs_le_one (s : Option (FullRx F)) (x : F) :
    ((progStep s x).2.filterMap amsgOfEvent).length ≤ 1 := by
  cases s with
  | none => simp [progStep_none]
  | some r =>
    cases hs : r.sample x with
    | none => simp [progStep_some_none hs]
    | some p =>
      obtain ⟨r', evs⟩ := p
      rw [progStep_some_some hs]
      obtain ⟨q, sym, _, hc⟩ := FullRx.sample_cases hs
      rcases hc with ⟨_, _, rfl⟩ | ⟨sy, _, hsy⟩
      · simp
      · obtain ⟨_, a2, _⟩ := FullRx.symbol_refines q sy
        rw [hsy] at a2
        dsimp only at a2 ⊢
        rw [a2, rTick_eq, List.filterMap_append, List.length_append]
        have h1 : ∀ (rx : RState) (n : Nat) (ls : LinkSt),
            (linkEv rx n ls).filterMap amsgOfEvent = [] := by
          intro rx n ls
          unfold linkEv; split <;> simp [amsgOfEvent]
        rw [h1, List.length_nil, Nat.zero_add]
        refine Nat.le_trans (List.length_filterMap_le _ _) ?_
        unfold trEv
        split
        · split <;> simp
        · simp

theorem msgsOf_stamped (l : List Event) :
    msgsOf amsgOfEvent (l.map (fun e => (e.stamp, e)))
      = l.filterMap (fun e => (amsgOfEvent e).map (fun m => (e.stamp, m))) := by
  simp [msgsOf, List.filterMap_map, Function.comp_def]

/-- a message event is a transport event -/
theorem amsgOfEvent_link (n : Nat) (ls : LinkSt) : amsgOfEvent (.link n ls) = none := rfl

/-! ## a property of the receiver state carried through the program's loops -/

theorem nextMsg_pres (P : Option (FullRx F) → Prop) (hstep : ∀ s x, P s → P (progStep s x).1)
    (fuel : Nat) (r : PRx F) (src : List F) (h : P r.st) : P (nextMsg fuel r src).2.1.st := by
  rw [nextMsg_eq_G]; exact nextMsgG_pres progStep amsgOfEvent P hstep fuel r src h

theorem liveMsgs_pres (P : Option (FullRx F) → Prop) (hstep : ∀ s x, P s → P (progStep s x).1)
    (fuel : Nat) (r : PRx F) (src : List F) (h : P r.st) : P (liveMsgs fuel r src).2.st := by
  rw [liveMsgs_eq_K]; exact liveMsgsK_pres progStep amsgOfEvent P hstep 2 fuel r src h

theorem flushOnce_pres (P : Option (FullRx F) → Prop) (hstep : ∀ s x, P s → P (progStep s x).1)
    (rate : Nat) (r : PRx F) (h : P r.st) : P (flushOnce rate r).2.st :=
  nextMsg_pres P hstep _ r _ h

theorem flushAll_pres (P : Option (FullRx F) → Prop) (hstep : ∀ s x, P s → P (progStep s x).1)
    (rate : Nat) (fuel : Nat) : ∀ r : PRx F, P r.st → P (flushAll rate fuel r).2.st := by
  induction fuel with
  | zero => intro r h; exact h
  | succ fuel ih =>
    intro r h
    rw [flushAll]
    have := flushOnce_pres P hstep rate r h
    cases hf : flushOnce rate r with
    | mk o r1 =>
      rw [hf] at this
      cases o with
      | none => exact this
      | some m => exact ih r1 this

/-! ## `appInputOf` unfolded -/

theorem appInputOf_some {cfg : RxCfg F} {bytes : List UInt8} {inp : AppInput}
    (h : appInputOf cfg bytes = some inp) :
    ∃ r0, FullRx.new cfg = some r0 ∧
      inp.n = ((pcmOfBytes bytes).map (ofI16 (F := F))).length ∧
      inp.live = (liveMsgs (((pcmOfBytes bytes).map (ofI16 (F := F))).length + 1) ⟨some r0, [], 0⟩
        ((pcmOfBytes bytes).map ofI16)).1 ∧
      inp.flushed = (flushAll cfg.rate 64 (liveMsgs (((pcmOfBytes bytes).map (ofI16 (F := F))).length + 1)
        ⟨some r0, [], 0⟩ ((pcmOfBytes bytes).map ofI16)).2).1 := by
  unfold appInputOf at h
  cases hn : FullRx.new cfg with
  | none => rw [hn] at h; cases h
  | some r0 =>
    rw [hn] at h
    dsimp only at h
    split at h
    · cases h
    · cases h
      exact ⟨r0, rfl, rfl, rfl, rfl⟩

theorem appInputOf_none_iff (cfg : RxCfg F) (bytes : List UInt8) :
    appInputOf cfg bytes = none ↔
      FullRx.new cfg = none ∨ ∃ r0, FullRx.new cfg = some r0 ∧
        (flushAll cfg.rate 64 (liveMsgs (((pcmOfBytes bytes).map (ofI16 (F := F))).length + 1)
          ⟨some r0, [], 0⟩ ((pcmOfBytes bytes).map ofI16)).2).2.st = none := by
  unfold appInputOf
  cases hn : FullRx.new cfg with
  | none => simp
  | some r0 =>
    dsimp only
    split
    · rename_i h; simp only [List.length_map] at h; simp [h]
    · rename_i x h; simp only [List.length_map] at h; simp [h]

end Prog

end SameVerif.Dsp
