import SameVerif.Lemmas.CombineTwo
/-
  `estimate_message` / `combine` on one and on two bursts, by reduction to the three-burst lemmas:
  an exhausted burst in front of the others changes nothing.
-/
namespace SameVerif.Asm
open SameVerif.Spec

/-- an exhausted burst contributes to no vote -/
theorem estimateLoop_nil_cons (cap : Nat) : ∀ bs : List (List Byte),
    estimateLoop cap ([] :: bs) = estimateLoop cap bs := by
  induction cap with
  | zero => intro bs; rfl
  | succ c ih =>
    intro bs
    simp only [estimateLoop, List.filterMap_cons, List.head?_nil, List.map_cons, List.tail_nil, ih]
    rfl

theorem combine_congr (maxLen : Nat) (a b : List (List Byte))
    (h : estimateMessage maxLen a = estimateMessage maxLen b) : combine maxLen a = combine maxLen b := by
  unfold combine
  rw [h]

/-- two bursts are three bursts, the first of them empty -/
theorem estimateMessage_pair (maxLen : Nat) (H : List Byte) :
    estimateMessage maxLen [H, H] = estimateMessage maxLen (arrange 0 H []) := by
  simp only [estimateMessage, arrange, List.take]
  rw [estimateLoop_nil_cons]

/-- one burst is three bursts, two of them empty -/
theorem estimateMessage_single (maxLen : Nat) (b : List Byte) :
    estimateMessage maxLen [b] = estimateLoop maxLen (arrange 2 [] b) := by
  simp only [estimateMessage, arrange, List.take]
  rw [estimateLoop_nil_cons, estimateLoop_nil_cons]

/-- every estimated byte of a single burst rests on one burst -/
theorem estimateMessage_single_counts (maxLen : Nat) (b : List Byte) :
    ∀ e ∈ estimateMessage maxLen [b], e.nbursts = 1 := by
  rw [estimateMessage_single]
  exact estimateLoop_tail_single 2 maxLen b

/-- the first estimated byte of a single burst is its first byte, eighth bit cleared -/
theorem estimateLoop_single_head (cap : Nat) (b : List Byte) (e : EstByte) (es : List EstByte)
    (h : estimateLoop cap [b] = e :: es) : ∃ x xs, b = x :: xs ∧ e.byte = x &&& ~~~(0x80 : Byte) := by
  cases cap with
  | zero => simp [estimateLoop] at h
  | succ c =>
    cases b with
    | nil => simp [estimateLoop, voteAt, List.filterMap] at h
    | cons x xs =>
      refine ⟨x, xs, rfl, ?_⟩
      simp only [estimateLoop, List.filterMap_cons, List.head?_cons, List.filterMap_nil, List.map_cons,
        List.map_nil, voteAt] at h
      split at h
      · cases h
      · cases h; rfl

theorem truncLen_ones (counts : List Nat) (h : ∀ c ∈ counts, c = 1) : truncLen counts 2 = 0 := by
  cases counts with
  | nil => rfl
  | cons c cs =>
    have : c = 1 := h c (by simp)
    subst this
    simp [truncLen]

/-- **A single burst** is never a header and never an error: nothing of it is backed by two
    bursts; only the trailer test on the raw estimate can succeed. -/
theorem combine_single (maxLen : Nat) (b : List Byte) :
    combine maxLen [b] = none ∨ combine maxLen [b] = some (.ok .eom) := by
  unfold combine
  simp only
  split
  · left; rfl
  · have hc : truncLen ((estimateMessage maxLen [b]).map (·.nbursts)) 2 = 0 := by
      apply truncLen_ones
      intro c hc
      obtain ⟨e, he, rfl⟩ := List.mem_map.mp hc
      exact estimateMessage_single_counts maxLen b e he
    rw [hc]
    have ht : ∀ errs counts, Msg.tryFromBytes [] errs counts = .error .unrecognizedPrefix := by
      intro errs counts; rfl
    simp only [List.take_zero, ht]
    split
    · right; rfl
    · left; simp

/-- a single burst combines to a trailer only if it begins (eighth bits aside) with `NN` -/
theorem combine_single_eom (maxLen : Nat) (b : List Byte) (h : combine maxLen [b] = some (.ok .eom)) :
    ∃ x xs, b = x :: xs ∧ (x &&& ~~~(0x80 : Byte)) = 78 := by
  unfold combine at h
  simp only at h
  split at h
  · cases h
  · have hc : truncLen ((estimateMessage maxLen [b]).map (·.nbursts)) 2 = 0 := by
      apply truncLen_ones
      intro c hc
      obtain ⟨e, he, rfl⟩ := List.mem_map.mp hc
      exact estimateMessage_single_counts maxLen b e he
    rw [hc] at h
    have ht : ∀ errs counts, Msg.tryFromBytes [] errs counts = .error .unrecognizedPrefix := by
      intro errs counts; rfl
    simp only [List.take_zero, ht] at h
    split at h
    · rename_i hp
      cases hest : estimateMessage maxLen [b] with
      | nil => rw [hest] at hp; simp [prefixIsEom] at hp
      | cons e es =>
        have hest' : estimateLoop maxLen [b] = e :: es := by
          simpa [estimateMessage] using hest
        obtain ⟨x, xs, hb, hx⟩ := estimateLoop_single_head maxLen b e es hest'
        refine ⟨x, xs, hb, ?_⟩
        rw [hest] at hp
        cases es with
        | nil => simp [prefixIsEom] at hp
        | cons e2 es2 =>
          simp [prefixIsEom] at hp
          rw [← hx]; exact hp.1
    · simp at h

theorem head_of_checkHeader (H : List Byte) (r : Nat × Nat) (h : checkHeader H = some r) :
    ∃ rest, H = 90 :: rest := by
  have hs := startsWith_of_checkHeader H r h
  cases H with
  | nil => simp [startsWith, stripLit, litZCZC] at hs
  | cons c cs =>
    by_cases hc : (90 : Byte) = c
    · exact ⟨cs, by rw [hc]⟩
    · simp [startsWith, stripLit, litZCZC, hc] at hs

/-- a lone header burst gives nothing at all -/
theorem combine_single_header (maxLen : Nat) (H : List Byte) (r : Nat × Nat)
    (hcan : checkHeader H = some r) : combine maxLen [H] = none := by
  rcases combine_single maxLen H with h | h
  · exact h
  · obtain ⟨x, xs, hb, hx⟩ := combine_single_eom maxLen H h
    obtain ⟨rest, hr⟩ := head_of_checkHeader H r hcan
    rw [hr] at hb
    cases hb
    exact absurd hx (by decide)

end SameVerif.Asm
