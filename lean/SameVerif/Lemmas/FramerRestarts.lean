import SameVerif.Thm.C09
import SameVerif.Lemmas.FrameSpecFacts
/-
  Lemmas for `Thm/C09busy.lean`: how long a framer fed `(byte, restart)` pairs can report
  `searching`/`reading` without a break, as a function of the restarts it is given.

  The accounting is a potential function `fuel : FState → Nat` — the number of busy outputs a state
  can still produce WITHOUT any restart.  A byte without restart that reports a busy output burns
  one unit; a restart that reports a busy output (only possible from a state that is not `.read`)
  refills the tank to `BUSY_MAX - 1`, which is at most `PREFIX_SEARCH_LEN` more than it held.
-/
namespace SameVerif.C09
open SameVerif

/-- the link reports a frame in progress: neither `noCarrier` nor a finished burst -/
def Busy (o : LinkSt) : Prop := o = .searching ∨ o = .reading

instance : DecidablePred Busy := fun o => by unfold Busy; exact inferInstance

theorem not_busy_iff (o : LinkSt) : ¬ Busy o ↔ o = .noCarrier ∨ ∃ b, o = .burst b := by
  cases o <;> simp [Busy]

/-- the longest busy stretch of ONE start: `PREFIX_SEARCH_LEN + 1` search bytes (the last of them
    the byte that completes the prefix) and `MAX_BURST_LENGTH - 4` data bytes — 270 -/
abbrev BUSY_MAX : Nat := Gen.PREFIX_SEARCH_LEN + 1 + (Gen.MAX_BURST_LENGTH - 4)

/-- number of inputs that re-synchronise the byte clock -/
def restarts (xs : List (Byte × Bool)) : Nat := xs.countP (fun x => x.2)

/-- framer state after feeding `(byte, restart)` pairs -/
def runR (c : FCfg) : FState → List (Byte × Bool) → FState
  | s, [] => s
  | s, (b, r) :: bs => runR c (finput c s b r).1 bs

/-- busy outputs a state can still produce without a restart -/
def fuel : FState → Nat
  | .idle => 0
  | .search _ n => (Gen.PREFIX_SEARCH_LEN + 1 - min n Gen.PREFIX_SEARCH_LEN) + (Gen.MAX_BURST_LENGTH - 4)
  | .read msg _ => Gen.MAX_BURST_LENGTH - msg.length

/-! ### running -/

theorem feedR_length (c : FCfg) (s : FState) (xs : List (Byte × Bool)) :
    (feedR c s xs).length = xs.length := by
  induction xs generalizing s with
  | nil => rfl
  | cons x xs ih => obtain ⟨b, r⟩ := x; simp [feedR, ih]

theorem feedR_append (c : FCfg) (s : FState) (xs ys : List (Byte × Bool)) :
    feedR c s (xs ++ ys) = feedR c s xs ++ feedR c (runR c s xs) ys := by
  induction xs generalizing s with
  | nil => rfl
  | cons x xs ih => obtain ⟨b, r⟩ := x; simp [feedR, runR, ih]

theorem runR_append (c : FCfg) (s : FState) (xs ys : List (Byte × Bool)) :
    runR c s (xs ++ ys) = runR c (runR c s xs) ys := by
  induction xs generalizing s with
  | nil => rfl
  | cons x xs ih => obtain ⟨b, r⟩ := x; simp [runR, ih]

theorem feedR_take (c : FCfg) (s : FState) (xs : List (Byte × Bool)) (j : Nat) :
    (feedR c s xs).take j = feedR c s (xs.take j) := by
  induction xs generalizing s j with
  | nil => simp [feedR]
  | cons x xs ih =>
    obtain ⟨b, r⟩ := x
    cases j with
    | zero => simp [feedR]
    | succ j => simp [feedR, ih]

theorem feedR_drop (c : FCfg) (s : FState) (xs : List (Byte × Bool)) (i : Nat) :
    (feedR c s xs).drop i = feedR c (runR c s (xs.take i)) (xs.drop i) := by
  induction xs generalizing s i with
  | nil => simp [feedR, runR]
  | cons x xs ih =>
    obtain ⟨b, r⟩ := x
    cases i with
    | zero => simp [runR]
    | succ i => simp [feedR, runR, ih]

/-! ### one step -/

theorem psl_eq : Gen.PREFIX_SEARCH_LEN = 21 := rfl
theorem mbl_eq : Gen.MAX_BURST_LENGTH = 252 := rfl

/-- one byte WITHOUT restart: `noCarrier`, or a burst that leaves the framer idle, or a busy output
    that burns one unit of fuel -/
theorem step_nr (c : FCfg) (s : FState) (b : Byte) :
    (finput c s b false).2 = .noCarrier
      ∨ ((∃ m, (finput c s b false).2 = .burst m) ∧ (finput c s b false).1 = .idle)
      ∨ (Busy (finput c s b false).2 ∧ (finput c s b false).1 ≠ .idle
          ∧ fuel (finput c s b false).1 + 1 ≤ fuel s) := by
  have hP := psl_eq
  have hM := mbl_eq
  cases s with
  | idle => left; simp [finput, finputNR]
  | search w n =>
    by_cases hp : prefixErrors (w <<< 8 ||| b.toUInt32) ≤ c.maxPrefixErr
    · right; right
      simp only [finput, finputNR, Bool.false_eq_true, if_false, hp, if_true, fuel, beBytes,
        List.length_cons, List.length_nil]
      refine ⟨Or.inr rfl, by simp, ?_⟩
      omega
    · by_cases hq : n + 1 > Gen.PREFIX_SEARCH_LEN
      · left; simp [finput, finputNR, hp, hq]
      · right; right
        simp only [finput, finputNR, Bool.false_eq_true, if_false, hp, hq, fuel]
        refine ⟨Or.inl rfl, by simp, ?_⟩
        omega
  | read m iv =>
    by_cases hc : (decide (iv + (if isAllowed b then 0 else 1) > c.maxInvalid)
        || decide (m.length ≥ Gen.MAX_BURST_LENGTH)) = true
    · right; left
      simp only [finput, finputNR, Bool.false_eq_true, if_false, hc, if_true]
      exact ⟨⟨m, rfl⟩, trivial⟩
    · right; right
      simp only [finput, finputNR, Bool.false_eq_true, if_false, hc, fuel, List.length_append,
        List.length_singleton]
      simp only [Bool.or_eq_true, decide_eq_true_eq, not_or] at hc
      refine ⟨Or.inr rfl, by simp, ?_⟩
      omega

/-- the state a restart leaves behind: searching with the counter at 1, or (prefix budget so large
    that one byte matches) reading a 4-byte burst — never idle, and with `BUSY_MAX - 1` fuel at most -/
theorem restart_state (c : FCfg) (s : FState) (b : Byte) :
    (finput c s b true).1 ≠ .idle ∧ fuel (finput c s b true).1 + 1 ≤ BUSY_MAX := by
  have hP := psl_eq
  have hM := mbl_eq
  rw [finput_restart_state]
  by_cases hp : prefixErrors ((0 : UInt32) <<< 8 ||| b.toUInt32) ≤ c.maxPrefixErr
  · simp only [finputNR, hp, if_true, fuel, beBytes, List.length_cons, List.length_nil, BUSY_MAX]
    exact ⟨by simp, by omega⟩
  · have hq : ¬ (0 + 1 > Gen.PREFIX_SEARCH_LEN) := by omega
    simp only [finputNR, hp, hq, if_false, fuel, BUSY_MAX]
    exact ⟨by simp, by omega⟩

/-- a restart reports a busy output exactly when the framer was not reading -/
theorem restart_busy_iff (c : FCfg) (s : FState) (b : Byte) :
    Busy (finput c s b true).2 ↔ ∀ m iv, s ≠ .read m iv := by
  cases s <;> simp [finput, fend, Busy]

/-- every state that is not idle and not reading holds at least `BUSY_MAX - PREFIX_SEARCH_LEN` fuel -/
theorem fuel_search_ge (w : UInt32) (n : Nat) : BUSY_MAX ≤ fuel (.search w n) + Gen.PREFIX_SEARCH_LEN := by
  have hP := psl_eq
  simp only [fuel, BUSY_MAX]; omega

theorem fuel_le (s : FState) : fuel s ≤ BUSY_MAX := by
  have hP := psl_eq
  have hM := mbl_eq
  cases s <;> simp only [fuel, BUSY_MAX] <;> omega

/-- one byte with a busy output, restart or not: the state afterwards is not idle and holds at most
    `BUSY_MAX - 1` fuel; measured against the state before, a byte without restart burns one unit and a
    restart adds at most `PREFIX_SEARCH_LEN - 1` (when the state before was not idle) -/
theorem step_busy (c : FCfg) (s : FState) (b : Byte) (r : Bool) (h : Busy (finput c s b r).2) :
    (finput c s b r).1 ≠ .idle ∧ fuel (finput c s b r).1 + 1 ≤ BUSY_MAX
      ∧ (s ≠ .idle → fuel (finput c s b r).1 + 1 ≤ fuel s + (if r then Gen.PREFIX_SEARCH_LEN else 0)) := by
  cases r with
  | true =>
    obtain ⟨h1, h2⟩ := restart_state c s b
    refine ⟨h1, h2, fun hs => ?_⟩
    rw [restart_busy_iff] at h
    cases s with
    | idle => exact absurd rfl hs
    | search w n => have := fuel_search_ge w n; simp only [if_true]; omega
    | read m iv => exact absurd rfl (h m iv)
  | false =>
    rcases step_nr c s b with h0 | ⟨⟨m, h0⟩, _⟩ | ⟨_, h1, h2⟩
    · rw [h0] at h; rcases h with h | h <;> cases h
    · rw [h0] at h; rcases h with h | h <;> cases h
    · have := fuel_le s
      refine ⟨h1, by omega, fun _ => by simpa using h2⟩

/-! ### counting restarts -/

theorem restarts_nil : restarts [] = 0 := rfl

theorem restarts_cons (b : Byte) (r : Bool) (xs : List (Byte × Bool)) :
    restarts ((b, r) :: xs) = restarts xs + (if r then 1 else 0) := by
  simp [restarts, List.countP_cons]

theorem restarts_append (xs ys : List (Byte × Bool)) : restarts (xs ++ ys) = restarts xs + restarts ys := by
  simp [restarts, List.countP_append]

theorem restarts_take_mono (xs : List (Byte × Bool)) {n m : Nat} (h : n ≤ m) :
    restarts (xs.take n) ≤ restarts (xs.take m) :=
  List.Sublist.countP_le (List.take_sublist_take_left h)

theorem restarts_eq_zero (xs : List (Byte × Bool)) : restarts xs = 0 ↔ ∀ x ∈ xs, x.2 = false := by
  simp [restarts, List.countP_eq_zero]

/-- split at the first restart -/
theorem first_restart (xs : List (Byte × Bool)) (h : 1 ≤ restarts xs) :
    ∃ nr b zs, xs = nr ++ (b, true) :: zs ∧ restarts nr = 0 := by
  induction xs with
  | nil => simp [restarts] at h
  | cons x xs ih =>
    obtain ⟨b, r⟩ := x
    cases r with
    | true => exact ⟨[], b, xs, rfl, rfl⟩
    | false =>
      rw [restarts_cons] at h
      obtain ⟨nr, b', zs, rfl, h0⟩ := ih (by simpa using h)
      refine ⟨(b, false) :: nr, b', zs, rfl, ?_⟩
      rw [restarts_cons, h0]; rfl

/-! ### runs: the linear bound -/

/-- a busy run from a state that is not idle ends in a state that is not idle -/
theorem busy_run_not_idle (c : FCfg) (xs : List (Byte × Bool)) (s : FState) (hs : s ≠ .idle)
    (h : ∀ o ∈ feedR c s xs, Busy o) : runR c s xs ≠ .idle := by
  induction xs generalizing s with
  | nil => exact hs
  | cons x xs ih =>
    obtain ⟨b, r⟩ := x
    simp only [feedR, List.mem_cons, forall_eq_or_imp] at h
    exact ih _ (step_busy c s b r h.1).1 h.2

/-- the accounting: a busy run from a state that is not idle is no longer than the fuel of that state
    plus `PREFIX_SEARCH_LEN` for every restart -/
theorem busy_run_fuel (c : FCfg) (xs : List (Byte × Bool)) (s : FState) (hs : s ≠ .idle)
    (h : ∀ o ∈ feedR c s xs, Busy o) :
    xs.length ≤ fuel s + Gen.PREFIX_SEARCH_LEN * restarts xs := by
  induction xs generalizing s with
  | nil => simp
  | cons x xs ih =>
    obtain ⟨b, r⟩ := x
    simp only [feedR, List.mem_cons, forall_eq_or_imp] at h
    obtain ⟨h1, _, h3⟩ := step_busy c s b r h.1
    have := ih _ h1 h.2
    have := h3 hs
    rw [restarts_cons, List.length_cons, psl_eq] at *
    cases r <;> simp only [if_true, if_false, Bool.false_eq_true] at * <;> omega

/-- **the linear bound, run form**: a run all of whose outputs are busy — from ANY state — is no
    longer than `BUSY_MAX` plus `PREFIX_SEARCH_LEN` for every restart after its first input -/
theorem busy_run_le (c : FCfg) (s : FState) (xs : List (Byte × Bool))
    (h : ∀ o ∈ feedR c s xs, Busy o) :
    xs.length ≤ Gen.PREFIX_SEARCH_LEN * restarts xs.tail + BUSY_MAX := by
  cases xs with
  | nil => simp
  | cons x xs =>
    obtain ⟨b, r⟩ := x
    simp only [feedR, List.mem_cons, forall_eq_or_imp] at h
    obtain ⟨h1, h2, _⟩ := step_busy c s b r h.1
    have := busy_run_fuel c xs _ h1 h.2
    simp only [List.tail_cons, List.length_cons]
    omega

/-! ### the search counter between two restarts -/

/-- `searching` outputs a state can still produce without a restart -/
def sfuel : FState → Nat
  | .search _ n => Gen.PREFIX_SEARCH_LEN - n
  | _ => 0

/-- a byte without restart that LEAVES the framer searching found it searching, one byte younger -/
theorem step_nr_search (c : FCfg) (s : FState) (b : Byte) (w' : UInt32) (n' : Nat)
    (h : (finput c s b false).1 = .search w' n') :
    (∃ w n, s = .search w n) ∧ sfuel (finput c s b false).1 + 1 ≤ sfuel s := by
  cases s with
  | idle => simp [finput, finputNR] at h
  | search w n =>
    refine ⟨⟨w, n, rfl⟩, ?_⟩
    simp only [finput, finputNR, Bool.false_eq_true, if_false] at h ⊢
    by_cases hp : prefixErrors (w <<< 8 ||| b.toUInt32) ≤ c.maxPrefixErr
    · simp [hp] at h
    · by_cases hq : n + 1 > Gen.PREFIX_SEARCH_LEN
      · simp [hp, hq] at h
      · simp only [hp, hq, if_false, sfuel]; omega
  | read m iv =>
    by_cases hc : (decide (iv + (if isAllowed b then 0 else 1) > c.maxInvalid)
        || decide (m.length ≥ Gen.MAX_BURST_LENGTH)) = true
    · simp [finput, finputNR, hc] at h
    · simp [finput, finputNR, hc] at h

/-- bytes without restart that leave the framer searching: it was searching all along -/
theorem search_run (c : FCfg) (nr : List (Byte × Bool)) (s : FState) (h0 : restarts nr = 0)
    (hf : ∃ w n, runR c s nr = .search w n) :
    (∃ w n, s = .search w n) ∧ nr.length + sfuel (runR c s nr) ≤ sfuel s := by
  induction nr generalizing s with
  | nil => exact ⟨hf, by simp [runR]⟩
  | cons x nr ih =>
    obtain ⟨b, r⟩ := x
    rw [restarts_cons] at h0
    have hr : r = false := by cases r <;> simp_all
    subst hr
    simp only [runR] at hf ⊢
    obtain ⟨⟨w1, n1, h1⟩, h2⟩ := ih _ (by simpa using h0) hf
    obtain ⟨h3, h4⟩ := step_nr_search c s b w1 n1 h1
    exact ⟨h3, by rw [List.length_cons]; omega⟩

theorem restart_sfuel (c : FCfg) (s : FState) (b : Byte) :
    sfuel (finput c s b true).1 + 1 ≤ Gen.PREFIX_SEARCH_LEN := by
  have hP := psl_eq
  rw [finput_restart_state]
  by_cases hp : prefixErrors ((0 : UInt32) <<< 8 ||| b.toUInt32) ≤ c.maxPrefixErr
  · simp only [finputNR, hp, if_true, sfuel]; omega
  · have hq : ¬ (0 + 1 > Gen.PREFIX_SEARCH_LEN) := by omega
    simp only [finputNR, hp, hq, if_false, sfuel]; omega

/-- **restarts chain.**  In a busy run that begins with a restart, the next restart (if there is
    one) comes within `PREFIX_SEARCH_LEN` bytes, the one after it within `PREFIX_SEARCH_LEN` more, … :
    if `k` further restarts follow at all, the first `PREFIX_SEARCH_LEN * k + 1` inputs hold `k + 1`. -/
theorem restart_chain (c : FCfg) (k : Nat) (zs : List (Byte × Bool)) (s : FState) (b : Byte)
    (h : ∀ o ∈ feedR c s ((b, true) :: zs), Busy o) (hk : k ≤ restarts zs) :
    k + 1 ≤ restarts (((b, true) :: zs).take (Gen.PREFIX_SEARCH_LEN * k + 1)) := by
  rw [psl_eq]
  induction k generalizing zs s b with
  | zero => simp [restarts]
  | succ k ih =>
    obtain ⟨nr, b', zs', rfl, h0⟩ := first_restart zs (by omega)
    rw [restarts_append, h0, restarts_cons] at hk
    simp only [feedR, feedR_append, List.mem_cons, List.mem_append, forall_eq_or_imp] at h
    obtain ⟨hb, hrest⟩ := h
    have hnr : ∀ o ∈ feedR c (finput c s b true).1 nr, Busy o := fun o ho => hrest o (Or.inl ho)
    have hb' : Busy (finput c (runR c (finput c s b true).1 nr) b' true).2 :=
      hrest _ (Or.inr (Or.inl rfl))
    have htail : ∀ o ∈ feedR c (runR c (finput c s b true).1 nr) ((b', true) :: zs'), Busy o := by
      intro o ho
      apply hrest o
      simpa [feedR] using Or.inr ho
    have hni := busy_run_not_idle c nr _ (restart_state c s b).1 hnr
    have hnr' := (restart_busy_iff c _ b').1 hb'
    have hsearch : ∃ w n, runR c (finput c s b true).1 nr = .search w n := by
      cases hst : runR c (finput c s b true).1 nr with
      | idle => exact absurd hst hni
      | search w n => exact ⟨w, n, rfl⟩
      | read m iv => exact absurd hst (hnr' m iv)
    have hlen := (search_run c nr _ h0 hsearch).2
    have hsf := restart_sfuel c s b
    rw [psl_eq] at hsf
    have hih := ih zs' _ b' htail (by simpa using hk)
    have hle : nr.length ≤ 21 * (k + 1) := by omega
    rw [List.take_succ_cons, restarts_cons, List.take_append, List.take_of_length_le hle,
      restarts_append, h0]
    have := restarts_take_mono ((b', true) :: zs')
      (show 21 * k + 1 ≤ 21 * (k + 1) - nr.length by omega)
    simp only [if_true]
    omega

/-! ### restart density -/

/-- every window of `W` consecutive inputs holds at most `k` restarts -/
def Windowed (W k : Nat) (xs : List (Byte × Bool)) : Prop :=
  ∀ a, restarts ((xs.drop a).take W) ≤ k

/-- any two restarts are at least `G` positions apart -/
def Sparse (G : Nat) (xs : List (Byte × Bool)) : Prop :=
  ∀ p q bp bq, p < q → xs[p]? = some (bp, true) → xs[q]? = some (bq, true) → p + G ≤ q

theorem windowed_sub {W k : Nat} {xs : List (Byte × Bool)} (h : Windowed W k xs) (i L : Nat) :
    Windowed W k ((xs.drop i).take L) := by
  intro a
  rw [List.drop_take, List.take_take, List.drop_drop]
  exact Nat.le_trans (restarts_take_mono _ (Nat.min_le_left _ _)) (h (i + a))

theorem one_restart (l : List (Byte × Bool)) (h : 1 ≤ restarts l) :
    ∃ (v : Nat) (b : Byte), l[v]? = some (b, true) := by
  obtain ⟨nr, b, zs, rfl, _⟩ := first_restart l h
  exact ⟨nr.length, b, by simp⟩

theorem two_restarts (l : List (Byte × Bool)) (h : 2 ≤ restarts l) :
    ∃ (u v : Nat) (bu bv : Byte), u < v ∧ l[u]? = some (bu, true) ∧ l[v]? = some (bv, true) := by
  obtain ⟨nr, b, zs, rfl, h0⟩ := first_restart l (by omega)
  rw [restarts_append, h0, restarts_cons] at h
  obtain ⟨v, bv, hv⟩ := one_restart zs (by simpa using h)
  refine ⟨nr.length, nr.length + 1 + v, b, bv, by omega, by simp, ?_⟩
  rw [List.getElem?_append_right (by omega)]
  have : nr.length + 1 + v - nr.length = v + 1 := by omega
  rw [this, List.getElem?_cons_succ, hv]

/-- restarts at least `G` apart: at most one in every window of `G` -/
theorem sparse_windowed {G : Nat} {xs : List (Byte × Bool)} (h : Sparse G xs) : Windowed G 1 xs := by
  intro a
  apply Nat.le_of_not_lt
  intro hlt
  obtain ⟨u, v, bu, bv, huv, hu, hv⟩ := two_restarts _ hlt
  rw [List.getElem?_take] at hu hv
  split at hv
  · rename_i hvG
    rw [if_pos (by omega)] at hu
    rw [List.getElem?_drop] at hu hv
    have := h (a + u) (a + v) bu bv (by omega) hu hv
    omega
  · cases hv

/-- **restarts per busy run.**  Every window of `W` inputs holds at most `k` restarts and
    `PREFIX_SEARCH_LEN * k < W`: a busy run holds at most `k` restarts after its first input. -/
theorem busy_run_windowed (c : FCfg) (s : FState) (xs : List (Byte × Bool)) (W k : Nat)
    (hW : Gen.PREFIX_SEARCH_LEN * k < W) (hwin : Windowed W k xs)
    (h : ∀ o ∈ feedR c s xs, Busy o) : restarts xs.tail ≤ k := by
  apply Nat.le_of_not_lt
  intro hlt
  cases xs with
  | nil => simp [restarts] at hlt
  | cons x ys =>
    rw [List.tail_cons] at hlt
    obtain ⟨nr, b, zs, rfl, h0⟩ := first_restart ys (by omega)
    rw [restarts_append, h0, restarts_cons] at hlt
    have hsplit : x :: (nr ++ (b, true) :: zs) = (x :: nr) ++ (b, true) :: zs := rfl
    rw [hsplit, feedR_append] at h
    have hch := restart_chain c k zs _ b (fun o ho => h o (List.mem_append_right _ ho))
      (by simp only [if_true] at hlt; omega)
    have hw := hwin (nr.length + 1)
    have hd : (x :: (nr ++ (b, true) :: zs)).drop (nr.length + 1) = (b, true) :: zs := by
      simp
    rw [hd] at hw
    have := restarts_take_mono ((b, true) :: zs) (show Gen.PREFIX_SEARCH_LEN * k + 1 ≤ W by omega)
    omega

/-- the same when the run BEGINS with a restart: that one counts against the window too -/
theorem busy_run_windowed_restart (c : FCfg) (s : FState) (b : Byte) (zs : List (Byte × Bool)) (W k : Nat)
    (hW : Gen.PREFIX_SEARCH_LEN * k < W) (hwin : Windowed W k ((b, true) :: zs))
    (h : ∀ o ∈ feedR c s ((b, true) :: zs), Busy o) : restarts zs + 1 ≤ k := by
  apply Nat.le_of_not_lt
  intro hlt
  have hch := restart_chain c k zs s b h (by omega)
  have hw := hwin 0
  rw [List.drop_zero] at hw
  have := restarts_take_mono ((b, true) :: zs) (show Gen.PREFIX_SEARCH_LEN * k + 1 ≤ W by omega)
  omega

/-! ### without restarts: `noCarrier` follows -/

/-- an idle framer that is not restarted reports `noCarrier` at once -/
theorem idle_run_noCarrier (c : FCfg) (xs : List (Byte × Bool)) (h0 : restarts xs = 0)
    (h : .noCarrier ∉ feedR c .idle xs) : xs = [] := by
  cases xs with
  | nil => rfl
  | cons x xs =>
    obtain ⟨b, r⟩ := x
    rw [restarts_cons] at h0
    have hr : r = false := by cases r <;> simp_all
    subst hr
    exact absurd (by simp [feedR, finput, finputNR]) h

/-- without restarts and without a `noCarrier` report: at most `fuel s` busy bytes and one burst -/
theorem nr_run_fuel (c : FCfg) (xs : List (Byte × Bool)) (s : FState) (h0 : restarts xs = 0)
    (h : .noCarrier ∉ feedR c s xs) : xs.length ≤ fuel s + 1 := by
  induction xs generalizing s with
  | nil => simp
  | cons x xs ih =>
    obtain ⟨b, r⟩ := x
    rw [restarts_cons] at h0
    have hr : r = false := by cases r <;> simp_all
    subst hr
    have h0' : restarts xs = 0 := by simpa using h0
    simp only [feedR, List.mem_cons, not_or] at h
    rcases step_nr c s b with hn | ⟨_, hi⟩ | ⟨_, _, hf⟩
    · exact absurd hn.symm h.1
    · rw [hi] at h
      rw [idle_run_noCarrier c xs h0' h.2]; simp
    · have := ih _ h0' h.2
      rw [List.length_cons]; omega

/-! ### from output indices to runs -/

/-- the outputs at indices `[i, i + L)` of a run are the outputs of the run over the inputs at those
    indices, started in the state reached after the first `i` inputs -/
theorem feedR_window (c : FCfg) (s : FState) (xs : List (Byte × Bool)) (i L : Nat) :
    feedR c (runR c s (xs.take i)) ((xs.drop i).take L) = ((feedR c s xs).drop i).take L := by
  rw [feedR_drop, feedR_take]

theorem window_busy (c : FCfg) (s : FState) (xs : List (Byte × Bool)) (i j : Nat)
    (h : ∀ k, i ≤ k → k < j → ∀ o, (feedR c s xs)[k]? = some o → Busy o) :
    ∀ o ∈ feedR c (runR c s (xs.take i)) ((xs.drop i).take (j - i)), Busy o := by
  intro o ho
  rw [feedR_window, List.mem_iff_getElem?] at ho
  obtain ⟨t, ht⟩ := ho
  rw [List.getElem?_take] at ht
  split at ht
  · rw [List.getElem?_drop] at ht
    exact h (i + t) (by omega) (by omega) o ht
  · cases ht

theorem window_length (xs : List (Byte × Bool)) (i j : Nat) (hj : j ≤ xs.length) :
    ((xs.drop i).take (j - i)).length = j - i := by
  rw [List.length_take, List.length_drop]; omega

theorem window_tail (xs : List (Byte × Bool)) (i j : Nat) :
    ((xs.drop i).take (j - i)).tail = (xs.take j).drop (i + 1) := by
  rw [← List.drop_one, List.drop_take, List.drop_drop, List.drop_take]
  congr 1

end SameVerif.C09
