import SameVerif.Lemmas.ChainLinkR
/-
  Layer 2 of the digital chain, generic in HOW each burst is shown to be delivered: everything
  downstream needs only `Delivers c s g payload` — over the ticks of segment `g`, entered in state
  `s`, the link model reports exactly one burst `payload ++ t` (`SegOut`: after the end of the
  body, `|t| ≤ ⌈rel / 8⌉`) and is quiescent again.  `seg_out` (old assumptions), `seg_out_r`
  (realistic assumptions) and `delivers_of_stream2` (generalised synchronisation,
  `Lemmas/StreamLink2.lean`) all establish it.
-/
namespace SameVerif.Chain
open SameVerif SameVerif.Spec

/-- segment `g`, entered in link state `s`, delivers `payload` -/
def Delivers (c : LCfg) (s : LState) (g : Seg) (payload : List Byte) : Prop :=
  ∃ t, SegOut g payload t (lrun c s g.ticks) ∧ lrunBursts c s g.ticks = [payload ++ t]
    ∧ Quiescent (lrunState c s g.ticks)

theorem delivers_of_observed_r (c : LCfg) (hE : c.maxErrors ≤ 6) (hP : c.fc.maxPrefixErr ≤ 7)
    (payload : List Byte) (hc : PayloadCond c payload) (g : Seg) (hg : Observed' payload g)
    (s : LState) (hs : Ready s) (hw : 32 ≤ s.nsym + g.lead.length) (hn : NoFalse c s g) :
    Delivers c s g payload := seg_out_r c hE hP payload hc g hg s hs hw hn

/-- `SegOut` from the three facts about where bursts are reported -/
theorem segOut_of_facts (c : LCfg) (s : LState) (g : Seg) (payload t : List Byte)
    (hb : lrunBursts c s g.ticks = [payload ++ t])
    (hlead : lrunBursts c s g.lead = [])
    (hf : lrunBursts c (lrunState c s g.lead) ((g.body ++ g.tail).take (g.body.length + 31)) = [])
    (htl : 31 ≤ g.tail.length) (hlen : t.length ≤ (g.rel + 7) / 8) :
    SegOut g payload t (lrun c s g.ticks) := by
  refine ⟨lrun_length c _ s, ?_, hlen⟩
  have hk : g.lead.length + g.body.length + 31 ≤ g.ticks.length := by
    simp only [Seg.ticks, List.length_append]; omega
  have htake : g.ticks.take (g.lead.length + g.body.length + 31)
      = g.lead ++ (g.body ++ g.tail).take (g.body.length + 31) := by
    simp only [Seg.ticks, List.append_assoc]
    rw [List.take_append, List.take_of_length_le (by omega)]
    congr 2
    omega
  have hpre : ((lrun c s g.ticks).take (g.lead.length + g.body.length + 31)).flatMap burstOf = [] := by
    rw [← lrun_take, ← lrunBursts_eq, htake, lrunBursts_append, hlead, hf]; rfl
  have hall : (lrun c s g.ticks).flatMap burstOf = [payload ++ t] := by
    rw [← lrunBursts_eq]; exact hb
  rw [← List.take_append_drop (g.lead.length + g.body.length + 31) (lrun c s g.ticks),
    List.flatMap_append, hpre, List.nil_append] at hall
  obtain ⟨pre, post, h1, h2, h3⟩ := split_single _ _ hall
  refine ⟨(lrun c s g.ticks).take (g.lead.length + g.body.length + 31) ++ pre, post, ?_, ?_, h3, ?_⟩
  · rw [List.append_assoc, ← h1, List.take_append_drop]
  · exact noBurst_append _ _ ((noBurst_iff _).1 hpre) h2
  · rw [List.length_append, List.length_take, lrun_length]
    omega

/-- every segment of a sequence delivers its payload, each entered in the state the previous left -/
def DeliversAll (c : LCfg) : LState → List (List Byte × Seg) → Prop
  | _, [] => True
  | s, p :: ps => Delivers c s p.2 p.1 ∧ DeliversAll c (lrunState c s p.2.ticks) ps

theorem segments_delivered_g (c : LCfg) (ps : List (List Byte × Seg)) : ∀ (s : LState), Ready s →
    DeliversAll c s ps →
    Forall₂ (fun p b => ∃ t, b = p.1 ++ t ∧ t.length ≤ (p.2.rel + 7) / 8) ps
        (lrunBursts c s (ps.flatMap (fun p => p.2.ticks)))
      ∧ Ready (lrunState c s (ps.flatMap (fun p => p.2.ticks))) := by
  induction ps with
  | nil => intro s hs _; exact ⟨.nil, hs⟩
  | cons p ps ih =>
    intro s _ hall
    obtain ⟨⟨t, hso, hb, hq⟩, hrest⟩ := hall
    obtain ⟨i1, i2⟩ := ih _ hq.ready hrest
    simp only [List.flatMap_cons]
    rw [lrunBursts_append, lrunState_append, hb]
    exact ⟨.cons ⟨t, rfl, hso.tail_len⟩ i1, i2⟩

/-- **three delivered bursts and a quiet stretch, tick by tick** -/
theorem three_delivered (c : LCfg) (payload : List Byte) (g1 g2 g3 : Seg) (quiet : List Tick) (s : LState)
    (d1 : Delivers c s g1 payload) (d2 : Delivers c (lrunState c s g1.ticks) g2 payload)
    (d3 : Delivers c (lrunState c (lrunState c s g1.ticks) g2.ticks) g3 payload)
    (hq : QuietNoHit c (lrunState c (lrunState c (lrunState c s g1.ticks) g2.ticks) g3.ticks) quiet) :
    ∃ t1 t2 t3 L1 L2 L3,
      lrun c s (g1.ticks ++ g2.ticks ++ g3.ticks ++ quiet)
          = L1 ++ L2 ++ L3 ++ List.replicate quiet.length .noCarrier
        ∧ SegOut g1 payload t1 L1 ∧ SegOut g2 payload t2 L2 ∧ SegOut g3 payload t3 L3
        ∧ lrunBursts c s (g1.ticks ++ g2.ticks ++ g3.ticks ++ quiet)
            = [payload ++ t1, payload ++ t2, payload ++ t3]
        ∧ Ready (lrunState c s (g1.ticks ++ g2.ticks ++ g3.ticks ++ quiet)) := by
  obtain ⟨t1, o1, b1, q1⟩ := d1
  obtain ⟨t2, o2, b2, q2⟩ := d2
  obtain ⟨t3, o3, b3, q3⟩ := d3
  obtain ⟨hqo, q4⟩ := quiet_out_r c _ q3.ready quiet hq
  have hqb : lrunBursts c (lrunState c (lrunState c (lrunState c s g1.ticks) g2.ticks) g3.ticks) quiet = [] := by
    rw [lrunBursts_eq, hqo]
    exact (noBurst_iff _).2 (noBurst_replicate _)
  refine ⟨t1, t2, t3, _, _, _, ?_, o1, o2, o3, ?_, ?_⟩
  · simp only [lrun_append, lrunState_append, hqo]
  · simp only [lrunBursts_append, lrunState_append, b1, b2, b3, hqb]
    rfl
  · simp only [lrunState_append]
    exact q4

end SameVerif.Chain
