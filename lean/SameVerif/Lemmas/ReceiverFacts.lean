import SameVerif.Model.ReceiverRun
import SameVerif.Thm.C08
/-
  Helper lemmas for C09 / C14: `transportLayer` and `rTick` in closed form, the `PartialEq`
  model is equality, receiver invariants and their preservation.
-/
namespace SameVerif
open SameVerif.C08

/-! ### `beq'` is equality -/

theorem DecodeErr.beq'_iff (a b : DecodeErr) : a.beq' b = true ↔ a = b := by
  cases a <;> cases b <;> simp [DecodeErr.beq']

theorem MsgResult.beq'_iff (a b : MsgResult) : MsgResult.beq' a b = true ↔ a = b := by
  cases a <;> cases b <;> simp [MsgResult.beq', DecodeErr.beq'_iff]

theorem Transport.beq'_iff (a b : Transport) : a.beq' b = true ↔ a = b := by
  cases a <;> cases b <;> simp [Transport.beq', MsgResult.beq'_iff]

theorem Transport.beq'_false_iff (a b : Transport) : a.beq' b = false ↔ a ≠ b := by
  rw [← Bool.not_eq_true, Transport.beq'_iff]

/-! ### `transportLayer` in closed form -/

/-- the assembler part of `process_transportlayer` (does not depend on `rate`) -/
def tlCore (s : RState) (sample sym : Nat) (ls : LinkSt) : AState × Option Transport :=
  match ls with
  | .burst b => let (a, t) := aAssemble s.asm b sym; (a, some t)
  | .noCarrier =>
    match s.forceEomAt with
    | some timeout =>
      if sample > timeout then (s.asm, some (.message (.ok .eom)))
      else let (a, t) := aIdle s.asm sym; (a, some t)
    | none => let (a, t) := aIdle s.asm sym; (a, some t)
  | _ => (s.asm, none)

/-- the timer update of `process_transportlayer` -/
def forceAfter (rate sample : Nat) (old : Option Nat) (out : Option Transport) : Option Nat :=
  match out with
  | some (.message (.ok (.som _))) => some (sample + Gen.MAX_MESSAGE_DURATION_SECS * rate)
  | some (.message (.ok .eom)) => none
  | _ => old

theorem transportLayer_eq (rate : Nat) (s : RState) (sample sym : Nat) (ls : LinkSt) :
    transportLayer rate s sample sym ls
      = ({ s with asm := (tlCore s sample sym ls).1,
                  forceEomAt := forceAfter rate sample s.forceEomAt (tlCore s sample sym ls).2 },
         (tlCore s sample sym ls).2) := by
  cases ls <;> rfl

/-- is this tick a forced end-of-message? -/
def Forced (s : RState) (sample : Nat) (ls : LinkSt) : Prop :=
  ls = .noCarrier ∧ ∃ T, s.forceEomAt = some T ∧ sample > T

/-- the three things a tick can do: not consult anything, force an EOM, or call the assembler
    (every assembler call ends in `aIdle` of some assembler state) -/
theorem tlCore_cases (s : RState) (sample sym : Nat) (ls : LinkSt) :
    (tlCore s sample sym ls = (s.asm, none) ∧ ls ≠ .noCarrier)
    ∨ (Forced s sample ls ∧ tlCore s sample sym ls = (s.asm, some (.message (.ok .eom))))
    ∨ (¬ Forced s sample ls ∧
        ((ls = .noCarrier ∧ tlCore s sample sym ls = ((aIdle s.asm sym).1, some (aIdle s.asm sym).2))
         ∨ ∃ b, ls = .burst b ∧ tlCore s sample sym ls = ((aAssemble s.asm b sym).1, some (aAssemble s.asm b sym).2))) := by
  cases ls with
  | searching => left; exact ⟨rfl, by simp⟩
  | reading => left; exact ⟨rfl, by simp⟩
  | burst b =>
    right; right
    refine ⟨by simp [Forced], Or.inr ⟨b, rfl, rfl⟩⟩
  | noCarrier =>
    right
    cases hf : s.forceEomAt with
    | none =>
      right
      refine ⟨by simp [Forced, hf], Or.inl ⟨rfl, ?_⟩⟩
      simp [tlCore, hf]
    | some T =>
      by_cases hT : sample > T
      · left
        refine ⟨⟨rfl, T, hf, hT⟩, ?_⟩
        simp [tlCore, hf, hT]
      · right
        refine ⟨?_, Or.inl ⟨rfl, ?_⟩⟩
        · simp only [Forced, hf, Option.some.injEq, true_and]
          rintro ⟨T', rfl, h⟩
          exact hT h
        · simp [tlCore, hf, hT]

/-! ### `rTick` in closed form -/

def linkEv (s : RState) (sample : Nat) (ls : LinkSt) : List Event :=
  if ls != s.linkState then [Event.link sample ls] else []

def trEv (s : RState) (sample : Nat) (out : Option Transport) : List Event :=
  match out with
  | some t => if t.beq' s.transportState then [] else [Event.transport sample t]
  | none => []

/-- the state after a tick -/
def rNext (rate : Nat) (s : RState) (sample sym : Nat) (ls : LinkSt) : RState :=
  { asm := (tlCore s sample sym ls).1
    linkState := ls
    transportState := match (tlCore s sample sym ls).2 with
      | some t => t
      | none => s.transportState
    forceEomAt := forceAfter rate sample s.forceEomAt (tlCore s sample sym ls).2 }

theorem rTick_eq (rate : Nat) (s : RState) (sample sym : Nat) (ls : LinkSt) :
    rTick rate s sample sym ls
      = (rNext rate s sample sym ls, linkEv s sample ls ++ trEv s sample (tlCore s sample sym ls).2) := by
  have hcore : ∀ l, tlCore { s with linkState := l } sample sym ls = tlCore s sample sym ls := by
    intro l; cases ls <;> rfl
  have hfirst : (if (ls != s.linkState) = true then (({ s with linkState := ls } : RState), [Event.link sample ls])
        else (s, []))
      = (({ s with linkState := ls } : RState), linkEv s sample ls) := by
    cases s with
    | mk a l t f =>
      by_cases hl : ls = l
      · subst hl; simp [linkEv]
      · simp [linkEv, hl]
  unfold rTick
  rw [hfirst]
  simp only [transportLayer_eq, hcore]
  unfold rNext
  generalize tlCore s sample sym ls = c
  obtain ⟨a, out⟩ := c
  cases out with
  | none => simp [trEv]
  | some t =>
    simp only [trEv]
    by_cases hb : t.beq' s.transportState = true
    · have := (Transport.beq'_iff _ _).1 hb
      subst this
      simp [hb]
    · simp [hb]

/-! ### what the assembler can answer -/

/-- `aIdle` either releases the (due) pending result and empties the slot, or keeps the slot as
    it is and answers `idle` / `assembling` -/
theorem aIdle_cases (a : AState) (now : Nat) :
    (∃ t, a.pending = some t ∧ t.deadline ≤ now ∧ (aIdle a now).2 = .message t.data
        ∧ (aIdle a now).1.pending = none)
    ∨ ((aIdle a now).1.pending = a.pending ∧ ((aIdle a now).2 = .idle ∨ (aIdle a now).2 = .assembling)
        ∧ ∀ t, a.pending = some t → now < t.deadline) := by
  cases hp : a.pending with
  | none =>
    right
    refine ⟨?_, ?_, by simp⟩
    · rw [idle_pending, hp]; rfl
    · unfold aIdle poll
      simp only [hp]
      split <;> simp
  | some t =>
    by_cases hd : t.deadline ≤ now
    · left
      exact ⟨t, rfl, hd, due_is_released a t now hp hd⟩
    · right
      have hk := not_due_is_kept a t now hp (by omega)
      refine ⟨hk.1, ?_, ?_⟩
      · cases h : (aIdle a now).2 with
        | idle => simp
        | assembling => simp
        | message r => exact absurd h (hk.2 r)
      · intro t' ht'
        cases ht'
        omega

/-- every `aAssemble` ends in `aIdle` of a state whose slot is the old one or a fresh `acceptNew` -/
theorem aAssemble_as_idle (s : AState) (b : List Byte) (now : Nat) :
    ∃ a', aAssemble s b now = aIdle a' now
      ∧ (a'.pending = s.pending ∨ ∃ r, a'.pending = some (acceptNew r now)) := by
  unfold aAssemble
  split
  · exact ⟨s, rfl, Or.inl rfl⟩
  · refine ⟨_, rfl, ?_⟩
    simp only [pendingAfter]
    cases estimateOf s b now with
    | none => left; rfl
    | some r =>
      rcases accept_cases s.pending r now with h | h
      · left; exact h
      · right; exact ⟨r, h⟩

theorem acceptNew_due (r : MsgResult) (now : Nat) (h : (acceptNew r now).deadline ≤ now) : r = .ok .eom := by
  unfold acceptNew at h
  split at h
  · rfl
  · simp [HOLD, Gen.MAX_INTERBURST_SYMBOLS] at h
    omega

/-- a message answered by `aAssemble` is an EndOfMessage or the old pending result, now due -/
theorem aAssemble_message (s : AState) (b : List Byte) (now : Nat) (r : MsgResult)
    (h : (aAssemble s b now).2 = .message r) :
    (aAssemble s b now).1.pending = none
      ∧ (r = .ok .eom ∨ ∃ t, s.pending = some t ∧ t.deadline ≤ now ∧ t.data = r) := by
  obtain ⟨a', ha, hp⟩ := aAssemble_as_idle s b now
  rw [ha] at h ⊢
  rcases aIdle_cases a' now with ⟨t, h1, h2, h3, h4⟩ | ⟨_, h2, _⟩
  · refine ⟨h4, ?_⟩
    rw [h3] at h
    cases h
    rcases hp with hp | ⟨r', hp⟩
    · right; exact ⟨t, by rw [← hp, h1], h2, rfl⟩
    · left
      rw [h1] at hp
      cases hp
      rw [acceptNew_data]
      exact acceptNew_due r' now h2
  · rcases h2 with h2 | h2 <;> rw [h2] at h <;> cases h

/-- a slot still occupied after `aAssemble` means the answer was `idle` / `assembling` -/
theorem aAssemble_kept (s : AState) (b : List Byte) (now : Nat)
    (h : (aAssemble s b now).1.pending.isSome) :
    (aAssemble s b now).2 = .idle ∨ (aAssemble s b now).2 = .assembling := by
  obtain ⟨a', ha, _⟩ := aAssemble_as_idle s b now
  rw [ha] at h ⊢
  rcases aIdle_cases a' now with ⟨t, _, _, _, h4⟩ | ⟨_, h2, _⟩
  · rw [h4] at h; cases h
  · exact h2

theorem aIdle_kept (a : AState) (now : Nat) (h : (aIdle a now).1.pending.isSome) :
    (aIdle a now).2 = .idle ∨ (aIdle a now).2 = .assembling := by
  rcases aIdle_cases a now with ⟨t, _, _, _, h4⟩ | ⟨_, h2, _⟩
  · rw [h4] at h; cases h
  · exact h2

/-! ### receiver invariants -/

/-- B3: while the timer is armed, the reported transport state is not EndOfMessage -/
def ForceInv (s : RState) : Prop := s.forceEomAt.isSome → s.transportState ≠ .message (.ok .eom)

/-- while a result is pending, the reported transport state is `idle`, `assembling` or
    EndOfMessage (in particular: never a StartOfMessage) -/
def PendInv (s : RState) : Prop :=
  s.asm.pending.isSome →
    s.transportState = .idle ∨ s.transportState = .assembling ∨ s.transportState = .message (.ok .eom)

/-- the receiver invariant used by C09 and C14 -/
def RInv (s : RState) : Prop := ForceInv s ∧ PendInv s ∧ NoEomPending s.asm

theorem rInv_init : RInv {} := by
  refine ⟨?_, ?_, noEomPending_init⟩
  · intro h; cases h
  · intro h; cases h

theorem forceInv_next (rate : Nat) (s : RState) (sample sym : Nat) (ls : LinkSt) (h : ForceInv s) :
    ForceInv (rNext rate s sample sym ls) := by
  unfold ForceInv rNext
  simp only
  cases hout : (tlCore s sample sym ls).2 with
  | none => exact h
  | some t =>
    simp only
    intro hf heq
    subst heq
    simp [forceAfter] at hf

theorem tlCore_noEom (s : RState) (sample sym : Nat) (ls : LinkSt) (h : NoEomPending s.asm) :
    NoEomPending (tlCore s sample sym ls).1 := by
  rcases tlCore_cases s sample sym ls with ⟨h1, _⟩ | ⟨_, h1⟩ | ⟨_, ⟨_, h1⟩ | ⟨b, _, h1⟩⟩ <;> rw [h1]
  · exact h
  · exact h
  · exact noEomPending_idle s.asm sym h
  · exact noEomPending_assemble s.asm b sym h

theorem pendInv_next (rate : Nat) (s : RState) (sample sym : Nat) (ls : LinkSt) (h : PendInv s) :
    PendInv (rNext rate s sample sym ls) := by
  unfold PendInv rNext
  simp only
  rcases tlCore_cases s sample sym ls with ⟨h1, _⟩ | ⟨_, h1⟩ | ⟨_, ⟨_, h1⟩ | ⟨b, _, h1⟩⟩ <;> rw [h1] <;> simp only
  · exact h
  · intro _; right; right; trivial
  · intro hp
    rcases aIdle_kept s.asm sym hp with h2 | h2 <;> simp [h2]
  · intro hp
    rcases aAssemble_kept s.asm b sym hp with h2 | h2 <;> simp [h2]

theorem rInv_next (rate : Nat) (s : RState) (sample sym : Nat) (ls : LinkSt) (h : RInv s) :
    RInv (rNext rate s sample sym ls) :=
  ⟨forceInv_next rate s sample sym ls h.1, pendInv_next rate s sample sym ls h.2.1,
   tlCore_noEom s sample sym ls h.2.2⟩

theorem rInv_tick (rate : Nat) (s : RState) (sample sym : Nat) (ls : LinkSt) (h : RInv s) :
    RInv (rTick rate s sample sym ls).1 := by
  rw [rTick_eq]; exact rInv_next rate s sample sym ls h

/-- under `PendInv` + `NoEomPending` the pending result differs from the reported state -/
theorem pending_ne_state (s : RState) (t : Timed MsgResult) (hp : s.asm.pending = some t)
    (h1 : PendInv s) (h2 : NoEomPending s.asm) : Transport.message t.data ≠ s.transportState := by
  intro heq
  rcases h1 (by simp [hp]) with h | h | h <;> rw [h] at heq
  · cases heq
  · cases heq
  · injection heq with heq
    exact h2 t hp heq

/-- a StartOfMessage answer needs a pending result on entry -/
theorem som_out_needs_pending (s : RState) (sample sym : Nat) (ls : LinkSt) (h : Header)
    (hout : (tlCore s sample sym ls).2 = some (.message (.ok (.som h)))) :
    ∃ t, s.asm.pending = some t ∧ t.data = .ok (.som h) := by
  rcases tlCore_cases s sample sym ls with ⟨h1, _⟩ | ⟨_, h1⟩ | ⟨_, ⟨_, h1⟩ | ⟨b, _, h1⟩⟩ <;> rw [h1] at hout
  · cases hout
  · cases hout
  · simp only [Option.some.injEq] at hout
    rcases aIdle_cases s.asm sym with ⟨t, h2, _, h3, _⟩ | ⟨_, h3, _⟩
    · rw [h3] at hout
      injection hout with hout
      exact ⟨t, h2, hout⟩
    · rcases h3 with h3 | h3 <;> rw [h3] at hout <;> cases hout
  · simp only [Option.some.injEq] at hout
    rcases (aAssemble_message s.asm b sym _ hout).2 with h2 | ⟨t, h2, _, h3⟩
    · cases h2
    · exact ⟨t, h2, h3⟩

/-! ### runs -/

theorem rRun_nil (rate : Nat) (s : RState) : rRun rate s [] = (s, []) := rfl

theorem rRun_cons (rate : Nat) (s : RState) (sample sym : Nat) (ls : LinkSt) (ts : List RTick) :
    rRun rate s ((sample, sym, ls) :: ts)
      = ((rRun rate (rTick rate s sample sym ls).1 ts).1,
         (rTick rate s sample sym ls).2 ++ (rRun rate (rTick rate s sample sym ls).1 ts).2) := rfl

theorem rRun_append (rate : Nat) (s : RState) (xs ys : List RTick) :
    rRun rate s (xs ++ ys)
      = ((rRun rate (rRun rate s xs).1 ys).1, (rRun rate s xs).2 ++ (rRun rate (rRun rate s xs).1 ys).2) := by
  induction xs generalizing s with
  | nil => simp [rRun_nil]
  | cons x xs ih =>
    obtain ⟨sample, sym, ls⟩ := x
    simp [rRun_cons, ih]

theorem rInv_run (rate : Nat) (s : RState) (ts : List RTick) (h : RInv s) : RInv (rRun rate s ts).1 := by
  induction ts generalizing s with
  | nil => exact h
  | cons x xs ih =>
    obtain ⟨sample, sym, ls⟩ := x
    rw [rRun_cons]
    exact ih _ (rInv_tick rate s sample sym ls h)

/-! ### one `NoCarrier` tick while a result is pending (C14) -/

/-- any answer that is a message leaves the slot empty -/
theorem message_out_empties (s : RState) (sample sym : Nat) (ls : LinkSt) (r : MsgResult)
    (hnf : ¬ Forced s sample ls) (hout : (tlCore s sample sym ls).2 = some (.message r)) :
    (tlCore s sample sym ls).1.pending = none := by
  rcases tlCore_cases s sample sym ls with ⟨h1, _⟩ | ⟨hf, _⟩ | ⟨_, ⟨_, h1⟩ | ⟨b, _, h1⟩⟩
  · rw [h1] at hout; cases hout
  · exact absurd hf hnf
  · rw [h1] at hout ⊢
    simp only [Option.some.injEq] at hout
    rcases aIdle_cases s.asm sym with ⟨t, _, _, _, h4⟩ | ⟨_, h3, _⟩
    · exact h4
    · rcases h3 with h3 | h3 <;> rw [h3] at hout <;> cases hout
  · rw [h1] at hout ⊢
    simp only [Option.some.injEq] at hout
    exact (aAssemble_message s.asm b sym r hout).1

/-- a `NoCarrier` tick before the deadline keeps the pending result (forced or not) and emits
    no message other than, possibly, the forced EndOfMessage -/
theorem nc_tick_early (s : RState) (sample sym : Nat) (t : Timed MsgResult)
    (hp : s.asm.pending = some t) (hearly : sym < t.deadline) :
    (tlCore s sample sym .noCarrier).1.pending = some t
      ∧ (Forced s sample .noCarrier ∨
          (tlCore s sample sym .noCarrier).2 = some .idle ∨ (tlCore s sample sym .noCarrier).2 = some .assembling) := by
  rcases tlCore_cases s sample sym .noCarrier with ⟨_, h1⟩ | ⟨hf, h1⟩ | ⟨_, ⟨_, h1⟩ | ⟨b, h0, _⟩⟩
  · exact absurd rfl h1
  · rw [h1]; exact ⟨hp, Or.inl hf⟩
  · rw [h1]
    have hk := not_due_is_kept s.asm t sym hp hearly
    refine ⟨hk.1, Or.inr ?_⟩
    cases h : (aIdle s.asm sym).2 with
    | idle => simp
    | assembling => simp
    | message r => exact absurd h (hk.2 r)
  · cases h0

/-- a `NoCarrier` tick at or after the deadline, not pre-empted by the timer, answers the
    pending result and empties the slot -/
theorem nc_tick_due (s : RState) (sample sym : Nat) (t : Timed MsgResult)
    (hp : s.asm.pending = some t) (hdue : t.deadline ≤ sym) (hnf : ¬ Forced s sample .noCarrier) :
    tlCore s sample sym .noCarrier = ((aIdle s.asm sym).1, some (.message t.data))
      ∧ (aIdle s.asm sym).1.pending = none := by
  have hr := due_is_released s.asm t sym hp hdue
  rcases tlCore_cases s sample sym .noCarrier with ⟨_, h1⟩ | ⟨hf, _⟩ | ⟨_, ⟨_, h1⟩ | ⟨b, h0, _⟩⟩
  · exact absurd rfl h1
  · exact absurd hf hnf
  · rw [h1, hr.1]; exact ⟨rfl, hr.2⟩
  · cases h0

end SameVerif
