import SameVerif.Lemmas.Bits
import SameVerif.Spec.Vote
/- `estimate_message` on two equal allowed bursts and one arbitrary burst, in the three orders. -/
namespace SameVerif
open SameVerif.Spec

/-- the three positions of the odd burst -/
def arrange {α} (pos : Nat) (h x : α) : List α :=
  match pos with
  | 0 => [x, h, h]
  | 1 => [h, x, h]
  | _ => [h, h, x]

def mask7 (x : Byte) : Byte := x &&& ~~~(0x80 : Byte)

/-- error count charged at one position where `x` is the odd byte against `h` -/
def perByteErr (h x : Byte) : Nat :=
  disputes2 h (mask7 x) + (if (x &&& 0x80) != 0 then 1 else 0)

/-- what the estimator must produce over the length of `hs` -/
def zipPart : List Byte → List Byte → List EstByte
  | [], _ => []
  | h :: hs, [] => ⟨h, 2, 0⟩ :: zipPart hs []
  | h :: hs, x :: xs => ⟨h, 3, perByteErr h x⟩ :: zipPart hs xs

theorem disputed3_xhh (x h : Bool) : disputed3 x h h = (h != x) := by cases x <;> cases h <;> rfl
theorem disputed3_hxh (x h : Bool) : disputed3 h x h = (h != x) := by cases x <;> cases h <;> rfl
theorem disputed3_hhx (x h : Bool) : disputed3 h h x = (h != x) := by cases x <;> cases h <;> rfl

theorem voteCorrect_xhh (x h : Byte) : voteCorrect x h h = (h, disputes2 h x) := by
  apply Prod.ext
  · apply byte_ext; intro i hi
    have := bitOf_not
    simp only [voteCorrect, bitOf_or, bitOf_and, bitOf_not _ _ hi, bitOf_xor]
    cases bitOf x i <;> cases bitOf h i <;> rfl
  · show (voteCorrect x h h).2 = _
    simp only [voteCorrect, countZeros8_eq, disputes2]
    apply countP_range8_congr; intro i hi
    simp only [bitOf_and, bitOf_not _ _ hi, bitOf_xor]
    cases bitOf x i <;> cases bitOf h i <;> rfl

theorem voteCorrect_hxh (x h : Byte) : voteCorrect h x h = (h, disputes2 h x) := by
  apply Prod.ext
  · apply byte_ext; intro i hi
    simp only [voteCorrect, bitOf_or, bitOf_and, bitOf_not _ _ hi, bitOf_xor]
    cases bitOf x i <;> cases bitOf h i <;> rfl
  · show (voteCorrect h x h).2 = _
    simp only [voteCorrect, countZeros8_eq, disputes2]
    apply countP_range8_congr; intro i hi
    simp only [bitOf_and, bitOf_not _ _ hi, bitOf_xor]
    cases bitOf x i <;> cases bitOf h i <;> rfl

theorem voteCorrect_hhx (x h : Byte) : voteCorrect h h x = (h, disputes2 h x) := by
  apply Prod.ext
  · apply byte_ext; intro i hi
    simp only [voteCorrect, bitOf_or, bitOf_and, bitOf_not _ _ hi, bitOf_xor]
    cases bitOf x i <;> cases bitOf h i <;> rfl
  · show (voteCorrect h h x).2 = _
    simp only [voteCorrect, countZeros8_eq, disputes2]
    apply countP_range8_congr; intro i hi
    simp only [bitOf_and, bitOf_not _ _ hi, bitOf_xor]
    cases bitOf x i <;> cases bitOf h i <;> rfl

theorem bitOf_zero (i : Nat) : bitOf 0 i = false := by
  simp [bitOf]

theorem voteDetect_same (h : Byte) : voteDetect h h = (h, 0) := by
  simp only [voteDetect, popcount8]
  apply Prod.ext
  · simp
  · simp [bitOf_zero]


theorem mask7_allowed (h : Byte) (hh : isAllowed h = true) : mask7 h = h := allowed_mask h hh

/-- over the length of the two equal bursts the estimator reproduces them byte for byte, whatever
    the third burst holds and wherever it sits; afterwards only the third burst's tail is left -/
theorem estimateLoop_two_equal (pos : Nat) (hs : List Byte) :
    ∀ (xs : List Byte) (cap : Nat), (∀ b ∈ hs, isAllowed b = true) → hs.length ≤ cap →
      estimateLoop cap (arrange pos hs xs)
        = zipPart hs xs ++ estimateLoop (cap - hs.length) (arrange pos [] (xs.drop hs.length)) := by
  induction hs with
  | nil => intro xs cap _ _; simp [zipPart]
  | cons h hs ih =>
    intro xs cap hall hcap
    have hh : isAllowed h = true := hall h (by simp)
    have hall' : ∀ b ∈ hs, isAllowed b = true := fun b hb => hall b (by simp [hb])
    obtain ⟨cap', rfl⟩ : ∃ c, cap = c + 1 := ⟨cap - 1, by simp at hcap; omega⟩
    have hcap' : hs.length ≤ cap' := by simp at hcap; omega
    have hm : h &&& ~~~(0x80 : Byte) = h := allowed_mask h hh
    have hmsb : ((h &&& 0x80) != 0) = false := allowed_msb h hh
    have hsub : cap' + 1 - (h :: hs).length = cap' - hs.length := by simp
    rw [hsub]
    cases xs with
    | nil =>
      have key : estimateLoop (cap' + 1) (arrange pos (h :: hs) [])
          = ⟨h, 2, 0⟩ :: estimateLoop cap' (arrange pos hs []) := by
        rcases pos with _ | _ | n <;>
          simp [estimateLoop, arrange, voteAt, List.filterMap, hm, hmsb, voteDetect_same, hh]
      rw [key, ih [] cap' hall' hcap']
      simp [zipPart]
    | cons x xs =>
      have key : estimateLoop (cap' + 1) (arrange pos (h :: hs) (x :: xs))
          = ⟨h, 3, perByteErr h x⟩ :: estimateLoop cap' (arrange pos hs xs) := by
        rcases pos with _ | _ | n <;>
          simp [estimateLoop, arrange, voteAt, List.filterMap, hm, hmsb, voteCorrect_xhh, voteCorrect_hxh,
            voteCorrect_hhx, hh, perByteErr, mask7] <;> omega
      rw [key, ih xs cap' hall' hcap']
      simp [zipPart]

/-- once the two equal bursts are exhausted every further estimate rests on a single burst -/
theorem estimateLoop_tail_single (pos : Nat) :
    ∀ (cap : Nat) (ys : List Byte), ∀ e ∈ estimateLoop cap (arrange pos ([] : List Byte) ys), e.nbursts = 1 := by
  intro cap
  induction cap with
  | zero => intro ys e he; simp [estimateLoop] at he
  | succ c ih =>
    intro ys e he
    cases ys with
    | nil =>
      rcases pos with _ | _ | n <;> simp [estimateLoop, arrange, voteAt, List.filterMap] at he
    | cons y ys =>
      have key : estimateLoop (c + 1) (arrange pos [] (y :: ys))
          = if !isAllowed (y &&& ~~~(0x80 : Byte)) then []
            else ⟨y &&& ~~~(0x80 : Byte), 1, 0 + (if ((y &&& 0x80) != 0) then 1 else 0)⟩
                  :: estimateLoop c (arrange pos [] ys) := by
        rcases pos with _ | _ | n <;> simp [estimateLoop, arrange, voteAt, List.filterMap]
      rw [key] at he
      split at he
      · simp at he
      · rcases List.mem_cons.mp he with h | h
        · simp [h]
        · exact ih ys e h

end SameVerif
