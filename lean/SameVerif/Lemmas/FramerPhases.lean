import SameVerif.Lemmas.FramerRun
/-
  The three phases of one framer start (search, read, idle), as a characterisation of the model
  state after `k` bytes in terms of the index-based specification (support for C07).
-/
namespace SameVerif
open SameVerif.Spec

/-! ### the spec's "least index" definitions, unfolded -/

theorem startIndex_some {pb : Nat} {bs : List Byte} {k0 : Nat} (h : startIndex pb bs = some k0) :
    1 ≤ k0 ∧ k0 ≤ bs.length ∧ k0 ≤ Gen.PREFIX_SEARCH_LEN + 1
      ∧ prefixErrors (wordOf (windowAt bs k0)) ≤ pb
      ∧ ∀ k', 1 ≤ k' → k' < k0 → ¬ prefixErrors (wordOf (windowAt bs k')) ≤ pb := by
  obtain ⟨h1, h2, h3, h4⟩ := find_range_some h
  refine ⟨h1, by omega, by omega, by simpa using h3, ?_⟩
  intro k' a b
  simpa using h4 k' a b

theorem startIndex_none {pb : Nat} {bs : List Byte} (h : startIndex pb bs = none) :
    ∀ k', 1 ≤ k' → k' ≤ bs.length → k' ≤ Gen.PREFIX_SEARCH_LEN + 1 →
      ¬ prefixErrors (wordOf (windowAt bs k')) ≤ pb := by
  intro k' a b c
  simpa using find_range_none h k' a (by omega)

theorem endIndex_some {ib : Nat} {ds : List Byte} {je : Nat} (h : endIndex ib ds = some je) :
    1 ≤ je ∧ je ≤ ds.length
      ∧ (invalidUpTo ds je > ib ∨ 4 + (je - 1) ≥ Gen.MAX_BURST_LENGTH)
      ∧ ∀ j', 1 ≤ j' → j' < je →
          ¬ (invalidUpTo ds j' > ib ∨ 4 + (j' - 1) ≥ Gen.MAX_BURST_LENGTH) := by
  obtain ⟨h1, h2, h3, h4⟩ := find_range_some h
  refine ⟨h1, h2, by simpa using h3, ?_⟩
  intro j' a b
  simpa using h4 j' a b

theorem endIndex_none {ib : Nat} {ds : List Byte} (h : endIndex ib ds = none) :
    ∀ j', 1 ≤ j' → j' ≤ ds.length →
      ¬ (invalidUpTo ds j' > ib ∨ 4 + (j' - 1) ≥ Gen.MAX_BURST_LENGTH) := by
  intro j' a b
  simpa using find_range_none h j' a b

theorem invalidUpTo_zero (ds : List Byte) : invalidUpTo ds 0 = 0 := by
  simp [invalidUpTo]

theorem invalidUpTo_succ (ds : List Byte) (j : Nat) (hj : j < ds.length) :
    invalidUpTo ds (j + 1) = invalidUpTo ds j + (if isAllowed ds[j] then 0 else 1) := by
  unfold invalidUpTo
  rw [← List.take_append_getElem hj, List.filter_append, List.length_append]
  by_cases h : isAllowed ds[j] = true <;> simp [h]

/-! ### single steps of the model, in spec vocabulary -/

theorem finputNR_search (c : FCfg) (bs : List Byte) (k : Nat) (hk : k < bs.length) :
    finputNR c (.search (wordOf (windowAt bs k)) k) bs[k]
      = if prefixErrors (wordOf (windowAt bs (k + 1))) ≤ c.maxPrefixErr then
          (.read (windowAt bs (k + 1)) 0, .reading)
        else if k + 1 > Gen.PREFIX_SEARCH_LEN then (.idle, .noCarrier)
        else (.search (wordOf (windowAt bs (k + 1))) (k + 1), .searching) := by
  simp only [finputNR]
  rw [← wordOf_windowAt_succ bs k hk, beBytes_wordOf_windowAt]

theorem finputNR_read (c : FCfg) (W : List Byte) (hW : W.length = 4) (ds : List Byte) (j : Nat)
    (hj : j < ds.length) :
    finputNR c (.read (W ++ ds.take j) (invalidUpTo ds j)) ds[j]
      = if invalidUpTo ds (j + 1) > c.maxInvalid ∨ 4 + j ≥ Gen.MAX_BURST_LENGTH then
          (.idle, .burst (W ++ ds.take j))
        else (.read (W ++ ds.take (j + 1)) (invalidUpTo ds (j + 1)), .reading) := by
  have hl : (W ++ ds.take j).length = 4 + j := by
    rw [List.length_append, hW, List.length_take]; omega
  simp only [finputNR]
  rw [← invalidUpTo_succ ds j hj, hl, List.append_assoc, List.take_append_getElem hj]
  simp only [Bool.or_eq_true, decide_eq_true_eq]

theorem finputNR_idle (c : FCfg) (b : Byte) : finputNR c .idle b = (.idle, .noCarrier) := rfl

/-! ### the state after `k` bytes -/

/-- state of a framer restarted at the first byte of `bs`, after the first `k` bytes -/
def stAfter (c : FCfg) (bs : List Byte) (k : Nat) : FState :=
  feedState c (.search 0 0) (bs.take k)

theorem stAfter_zero (c : FCfg) (bs : List Byte) : stAfter c bs 0 = .search 0 0 := by
  simp [stAfter, feedState]

theorem stAfter_succ (c : FCfg) (bs : List Byte) (k : Nat) (hk : k < bs.length) :
    stAfter c bs (k + 1) = (finputNR c (stAfter c bs k) bs[k]).1 :=
  feedState_take_succ c _ bs k hk

/-- search phase: no window within budget so far, and the search length not exhausted -/
theorem stAfter_search (c : FCfg) (bs : List Byte) :
    ∀ k, k ≤ bs.length → k ≤ Gen.PREFIX_SEARCH_LEN →
      (∀ k', 1 ≤ k' → k' ≤ k → ¬ prefixErrors (wordOf (windowAt bs k')) ≤ c.maxPrefixErr) →
      stAfter c bs k = .search (wordOf (windowAt bs k)) k := by
  intro k
  induction k with
  | zero => intro _ _ _; rw [stAfter_zero, wordOf_windowAt_zero]
  | succ k ih =>
    intro h1 h2 h3
    have hk : k < bs.length := by omega
    rw [stAfter_succ c bs k hk, ih (by omega) (by omega) (fun k' a b => h3 k' a (by omega)),
      finputNR_search c bs k hk, if_neg (h3 (k + 1) (by omega) (by omega)), if_neg (by omega)]

/-- read phase: the burst has started at `k0` and no end condition has occurred so far -/
theorem stAfter_read (c : FCfg) (bs : List Byte) (k0 : Nat)
    (hk0 : stAfter c bs k0 = .read (windowAt bs k0) 0) :
    ∀ j, k0 + j ≤ bs.length →
      (∀ j', 1 ≤ j' → j' ≤ j →
        ¬ (invalidUpTo (bs.drop k0) j' > c.maxInvalid ∨ 4 + (j' - 1) ≥ Gen.MAX_BURST_LENGTH)) →
      stAfter c bs (k0 + j)
        = .read (windowAt bs k0 ++ (bs.drop k0).take j) (invalidUpTo (bs.drop k0) j) := by
  intro j
  induction j with
  | zero => intro _ _; simp [hk0, invalidUpTo_zero]
  | succ j ih =>
    intro h1 h2
    have hk : k0 + j < bs.length := by omega
    have hj : j < (bs.drop k0).length := by rw [List.length_drop]; omega
    have hb : bs[k0 + j] = (bs.drop k0)[j] := by rw [List.getElem_drop]
    rw [← Nat.add_assoc, stAfter_succ c bs (k0 + j) hk, ih (by omega) (fun j' a b => h2 j' a (by omega)),
      hb, finputNR_read c _ (windowAt_length bs k0) _ j hj, if_neg (by simpa using h2 (j + 1) (by omega) (by omega))]

/-- once idle, idle for the rest of the stream -/
theorem stAfter_idle (c : FCfg) (bs : List Byte) (k1 : Nat) (h : stAfter c bs k1 = .idle) :
    ∀ m, k1 + m ≤ bs.length → stAfter c bs (k1 + m) = .idle := by
  intro m
  induction m with
  | zero => intro _; exact h
  | succ m ih =>
    intro h1
    rw [← Nat.add_assoc, stAfter_succ c bs (k1 + m) (by omega), ih (by omega), finputNR_idle]

end SameVerif
