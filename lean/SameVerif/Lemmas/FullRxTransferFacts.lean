import SameVerif.Lemmas.FullRxFacts
import SameVerif.Lemmas.RxProv
import SameVerif.Thm.C04
/-
  Helper lemmas for Thm/FullRxTransfer.lean: the receiver ticks `stampedTicks` of a whole-receiver
  trace split exactly where the trace splits; their stamps are the trace's stamps; the events of
  `rRun` carry the stamps of the ticks that produced them.
-/
namespace SameVerif

/-- the receiver tick `lstep` produces from the link state `ls` on the stamped tick `p` -/
def rtickOf (c : LCfg) (ls : LState) (p : Nat × Tick) : RTick :=
  (p.1, (lstep c ls p.2.1 p.2.2).1.nsym, (lstep c ls p.2.1 p.2.2).2.1)

theorem stampedTicks_cons (c : LCfg) (ls : LState) (p : Nat × Tick) (tr : List (Nat × Tick)) :
    stampedTicks c ls (p :: tr) = rtickOf c ls p :: stampedTicks c (lstep c ls p.2.1 p.2.2).1 tr := by
  obtain ⟨n, t⟩ := p; rfl

/-- the stamps of the receiver ticks are the stamps of the trace -/
theorem stampedTicks_stamps (c : LCfg) (tr : List (Nat × Tick)) : ∀ ls,
    (stampedTicks c ls tr).map (·.1) = tr.map (·.1) := by
  induction tr with
  | nil => intro ls; rfl
  | cons p tr ih => intro ls; rw [stampedTicks_cons, List.map_cons, List.map_cons, ih]; rfl

theorem stampedTicks_length (c : LCfg) (tr : List (Nat × Tick)) (ls : LState) :
    (stampedTicks c ls tr).length = tr.length := by
  have := congrArg List.length (stampedTicks_stamps c tr ls)
  simpa using this

/-- a split of the receiver ticks is a split of the trace: the tick in the middle is what `lstep`
    reported, from the link state after the prefix, on the trace entry in the middle -/
theorem stampedTicks_split (c : LCfg) (tr : List (Nat × Tick)) : ∀ (ls : LState) (tpre : List RTick)
    (x : RTick) (tpost : List RTick), stampedTicks c ls tr = tpre ++ x :: tpost →
    ∃ trpre p trpost, tr = trpre ++ p :: trpost ∧ tpre = stampedTicks c ls trpre
      ∧ x = rtickOf c (lrunState c ls (trpre.map (·.2))) p
      ∧ tpost = stampedTicks c (lstep c (lrunState c ls (trpre.map (·.2))) p.2.1 p.2.2).1 trpost := by
  induction tr with
  | nil => intro ls tpre x tpost h; cases tpre <;> cases h
  | cons q tr ih =>
    intro ls tpre x tpost h
    rw [stampedTicks_cons] at h
    cases tpre with
    | nil =>
      simp only [List.nil_append, List.cons.injEq] at h
      obtain ⟨rfl, rfl⟩ := h
      exact ⟨[], q, tr, rfl, rfl, rfl, rfl⟩
    | cons y ys =>
      simp only [List.cons_append, List.cons.injEq] at h
      obtain ⟨rfl, h⟩ := h
      obtain ⟨trpre, p, trpost, rfl, rfl, rfl, rfl⟩ := ih _ ys x tpost h
      refine ⟨q :: trpre, p, trpost, rfl, ?_, ?_, ?_⟩
      · rw [stampedTicks_cons]
      · simp only [List.map_cons, lrunState]
      · simp only [List.map_cons, lrunState]

/-- every event of a receiver run carries the stamp of one of its ticks -/
theorem rRun_stamp (rate : Nat) (ticks : List RTick) : ∀ (s : RState),
    ∀ e ∈ (rRun rate s ticks).2, ∃ tk ∈ ticks, e.stamp = tk.1 := by
  induction ticks with
  | nil => intro s e he; cases he
  | cons x xs ih =>
    obtain ⟨smp, sy, ls⟩ := x
    intro s e he
    rw [rRun_cons] at he
    rcases List.mem_append.1 he with he | he
    · exact ⟨(smp, sy, ls), List.mem_cons_self, rTick_stamp rate s smp sy ls e he⟩
    · obtain ⟨tk, htk, h⟩ := ih _ e he
      exact ⟨tk, List.mem_cons_of_mem _ htk, h⟩

/-! ### the link state the receiver glue remembers, and link events -/

/-- after a tick the remembered link state is the one the tick reported -/
theorem rTick_linkState (rate : Nat) (s : RState) (sample sym : Nat) (ls : LinkSt) :
    (rTick rate s sample sym ls).1.linkState = ls := by
  rw [rTick_eq]; rfl

/-- a link event is emitted exactly when the reported link state differs from the remembered one -/
theorem link_event_tick (rate : Nat) (s : RState) (sample sym : Nat) (ls : LinkSt) (smp : Nat) (l : LinkSt) :
    Event.link smp l ∈ (rTick rate s sample sym ls).2 ↔ smp = sample ∧ l = ls ∧ ls ≠ s.linkState := by
  rw [RxProv.rTick_events]
  have ht : Event.link smp l ∉ trEv s sample (transportLayer rate s sample sym ls).2 := by
    rcases RxProv.trEv_cases s sample (transportLayer rate s sample sym ls).2 with h | ⟨t, h⟩ <;> rw [h] <;> simp
  simp only [List.mem_append, ht, or_false]
  unfold linkEv
  by_cases h : ls = s.linkState
  · simp [h]
  · have : (ls != s.linkState) = true := by simpa using h
    simp only [this, ↓reduceIte, List.mem_singleton, Event.link.injEq]
    constructor
    · rintro ⟨rfl, rfl⟩; exact ⟨rfl, rfl, h⟩
    · rintro ⟨rfl, rfl, _⟩; exact ⟨rfl, rfl⟩

/-- every link event of a run is the link state some tick of the run reported, at that tick's stamp -/
theorem link_event_is_tick (rate : Nat) (ticks : List RTick) : ∀ (s : RState) (smp : Nat) (l : LinkSt),
    Event.link smp l ∈ (rRun rate s ticks).2 → ∃ sym, (smp, sym, l) ∈ ticks := by
  induction ticks with
  | nil => intro s smp l h; cases h
  | cons x xs ih =>
    obtain ⟨sample, sy, ls⟩ := x
    intro s smp l h
    rw [rRun_cons] at h
    rcases List.mem_append.1 h with h | h
    · obtain ⟨rfl, rfl, _⟩ := (link_event_tick _ _ _ _ _ _ _).1 h
      exact ⟨sy, List.mem_cons_self⟩
    · obtain ⟨sym, hm⟩ := ih _ smp l h
      exact ⟨sym, List.mem_cons_of_mem _ hm⟩

/-- the remembered link state after a run: the last tick's, or the initial one -/
theorem rRun_linkState (rate : Nat) (ticks : List RTick) : ∀ (s : RState),
    (rRun rate s ticks).1.linkState = (ticks.getLast?.map (·.2.2)).getD s.linkState := by
  induction ticks with
  | nil => intro s; rfl
  | cons x xs ih =>
    obtain ⟨sample, sy, ls⟩ := x
    intro s
    rw [rRun_cons]
    simp only
    rw [ih, rTick_linkState]
    cases xs with
    | nil => rfl
    | cons y ys =>
      rw [List.getLast?_cons_cons]
      cases hl : (y :: ys).getLast? with
      | none => simp at hl
      | some z => rfl

/-! ### C04 along a receiver run: the assembler inside `rRun` is in a `C04.Reach` state -/

/-- the log of non-empty bursts (clipped to the burst buffer) the ticks hand to the assembler -/
def burstLog (ticks : List RTick) : List (List Byte) :=
  ticks.filterMap fun tk =>
    match tk.2.2 with
    | .burst b => if b.isEmpty then none else some (b.take MAXLEN)
    | _ => none

theorem burstLog_append (a b : List RTick) : burstLog (a ++ b) = burstLog a ++ burstLog b := by
  simp [burstLog]

/-- one tick keeps the assembler reachable (symbol counts non-decreasing); the log grows by the
    tick's burst, if it is a non-empty one -/
theorem reach_tick (rate : Nat) (s : RState) (sample sym : Nat) (ls : LinkSt) (log : List (List Byte)) (T : Nat)
    (h : C04.Reach log T s.asm) (hT : T ≤ sym) :
    ∃ T', C04.Reach (log ++ burstLog [(sample, sym, ls)]) T' (rTick rate s sample sym ls).1.asm
      ∧ (T' = T ∨ T' = sym) := by
  have hasm : (rTick rate s sample sym ls).1.asm = (tlCore s sample sym ls).1 := by rw [rTick_eq]; rfl
  rw [hasm]
  rcases tlCore_cases s sample sym ls with ⟨hc, hn⟩ | ⟨hf, hc⟩ | ⟨_, ⟨hl, hc⟩ | ⟨b, hl, hc⟩⟩
  · refine ⟨T, ?_, Or.inl rfl⟩
    rw [hc]
    have : burstLog [(sample, sym, ls)] = [] := by
      cases ls with
      | noCarrier => exact absurd rfl hn
      | searching => rfl
      | reading => rfl
      | burst b => exact absurd (congrArg Prod.snd hc) (by simp [tlCore])
    rw [this, List.append_nil]; exact h
  · refine ⟨T, ?_, Or.inl rfl⟩
    rw [hc, hf.1]
    simpa [burstLog] using h
  · refine ⟨sym, ?_, Or.inr rfl⟩
    rw [hc, hl]
    simpa [burstLog] using C04.Reach.idle sym h hT
  · refine ⟨sym, ?_, Or.inr rfl⟩
    rw [hc, hl]
    by_cases hb : b.isEmpty = true
    · have : b = [] := by simpa using hb
      subst this
      rw [C04.assemble_empty]
      simpa [burstLog] using C04.Reach.idle sym h hT
    · have hb' : b.isEmpty = false := by simpa using hb
      have hne : b ≠ [] := by intro h0; subst h0; simp at hb'
      have := C04.Reach.assemble b sym h hT hb'
      simpa [burstLog, hne] using this

/-- along a run with non-decreasing symbol counts the assembler stays reachable; the log is the
    burst log of the ticks; the latest call time is the initial one or some tick's symbol count -/
theorem reach_run (rate : Nat) (ticks : List RTick) : ∀ (s : RState) (log : List (List Byte)) (T : Nat),
    C04.Reach log T s.asm → ticks.Pairwise (fun a b => a.2.1 ≤ b.2.1) → (∀ tk ∈ ticks, T ≤ tk.2.1) →
    ∃ T', C04.Reach (log ++ burstLog ticks) T' (rRun rate s ticks).1.asm
      ∧ (T' = T ∨ ∃ tk ∈ ticks, T' = tk.2.1) := by
  induction ticks with
  | nil => intro s log T h _ _; exact ⟨T, by simpa [burstLog, rRun_nil] using h, Or.inl rfl⟩
  | cons x xs ih =>
    obtain ⟨sample, sy, ls⟩ := x
    intro s log T h hpw hT
    rw [List.pairwise_cons] at hpw
    obtain ⟨T1, h1, hT1⟩ := reach_tick rate s sample sy ls log T h (hT _ List.mem_cons_self)
    have hT1' : ∀ tk ∈ xs, T1 ≤ tk.2.1 := by
      intro tk htk
      rcases hT1 with rfl | rfl
      · exact hT tk (List.mem_cons_of_mem _ htk)
      · exact hpw.1 tk htk
    obtain ⟨T2, h2, hT2⟩ := ih _ _ T1 h1 hpw.2 hT1'
    refine ⟨T2, ?_, ?_⟩
    · rw [rRun_cons]
      rw [show (sample, sy, ls) :: xs = [(sample, sy, ls)] ++ xs from rfl, burstLog_append, ← List.append_assoc]
      exact h2
    · rcases hT2 with rfl | ⟨tk, htk, rfl⟩
      · rcases hT1 with rfl | rfl
        · exact Or.inl rfl
        · exact Or.inr ⟨_, List.mem_cons_self, rfl⟩
      · exact Or.inr ⟨tk, List.mem_cons_of_mem _ htk, rfl⟩

/-- **C04 at receiver level.**  A run from the initial state over ticks with non-decreasing symbol
    counts: every StartOfMessage EVENT was emitted by a tick of the run, and is `combine` of a run `r`
    of two or three consecutive non-empty bursts among the bursts handed over up to and including
    that tick, which supports every byte of the reported header. -/
theorem som_event_has_evidence (rate : Nat) (ticks : List RTick)
    (hpw : ticks.Pairwise (fun a b => a.2.1 ≤ b.2.1)) (smp : Nat) (h : Header)
    (hev : Event.transport smp (.message (.ok (.som h))) ∈ (rRun rate {} ticks).2) :
    ∃ tpre sym ls tpost r, ticks = tpre ++ (smp, sym, ls) :: tpost
      ∧ Spec.IsRun r (burstLog (tpre ++ [(smp, sym, ls)])) ∧ 2 ≤ r.length
      ∧ combine MAXLEN r = some (.ok (.som h))
      ∧ ∀ (i : Nat) (hi : i < h.text.length), Spec.SupportsByte r i h.text[i] := by
  obtain ⟨E1, E2, hsplit⟩ := List.append_of_mem hev
  obtain ⟨tpre, sample, sym, ls, tpost, epre, epost, rfl, htick, _, _⟩ :=
    RxProv.run_event_split rate ticks {} E1 _ E2 hsplit
  have hmem : Event.transport smp (.message (.ok (.som h)))
      ∈ (rTick rate (rRun rate {} tpre).1 sample sym ls).2 := by rw [htick]; simp
  obtain ⟨rfl, hout, _⟩ := (C09.mem_tick_transport _ _ _ _ _ _ _).1 hmem
  rw [RxProv.tl_out_eq] at hout
  rw [List.pairwise_append] at hpw
  obtain ⟨hpre, _, hcross⟩ := hpw
  obtain ⟨T, hreach, hT⟩ := reach_run rate tpre {} [] 0 C04.Reach.init hpre (fun _ _ => Nat.zero_le _)
  rw [List.nil_append] at hreach
  have hTle : T ≤ sym := by
    rcases hT with rfl | ⟨tk, htk, rfl⟩
    · exact Nat.zero_le _
    · exact hcross tk htk _ List.mem_cons_self
  refine ⟨tpre, sym, ls, tpost, ?_⟩
  rw [burstLog_append]
  rcases tlCore_cases (rRun rate {} tpre).1 smp sym ls with ⟨hc, _⟩ | ⟨_, hc⟩ | ⟨_, ⟨hl, hc⟩ | ⟨b, hl, hc⟩⟩
  · rw [hc] at hout; cases hout
  · rw [hc] at hout; cases hout
  · rw [hc] at hout
    simp only [Option.some.injEq] at hout
    obtain ⟨r, h1, h2, h3, h4⟩ := C04.som_has_evidence_idle _ T sym _ h hreach hout
    subst hl
    exact ⟨r, rfl, by simpa [burstLog] using h1, h2, h3, h4⟩
  · rw [hc] at hout
    simp only [Option.some.injEq] at hout
    subst hl
    by_cases hb : b.isEmpty = true
    · have : b = [] := by simpa using hb
      subst this
      rw [C04.assemble_empty] at hout
      obtain ⟨r, h1, h2, h3, h4⟩ := C04.som_has_evidence_idle _ T sym _ h hreach hout
      exact ⟨r, rfl, by simpa [burstLog] using h1, h2, h3, h4⟩
    · have hb' : b.isEmpty = false := by simpa using hb
      have hne : b ≠ [] := by intro h0; subst h0; simp at hb'
      obtain ⟨r, h1, h2, h3, h4⟩ := C04.som_has_evidence _ T sym _ b h hreach hTle hb' hout
      exact ⟨r, rfl, by simpa [burstLog, hne] using h1, h2, h3, h4⟩

/-- the symbol counts of the receiver ticks of a trace increase strictly, from the link state's -/
theorem stampedTicks_syms (c : LCfg) (tr : List (Nat × Tick)) : ∀ ls,
    (stampedTicks c ls tr).Pairwise (fun a b => a.2.1 < b.2.1)
      ∧ ∀ tk ∈ stampedTicks c ls tr, ls.nsym < tk.2.1 := by
  induction tr with
  | nil => intro ls; exact ⟨List.Pairwise.nil, fun _ h => by cases h⟩
  | cons p tr ih =>
    intro ls
    rw [stampedTicks_cons]
    obtain ⟨i1, i2⟩ := ih (lstep c ls p.2.1 p.2.2).1
    rw [lstep_nsym] at i2
    refine ⟨List.pairwise_cons.2 ⟨?_, i1⟩, ?_⟩
    · intro tk htk
      have := i2 tk htk
      simp only [rtickOf, lstep_nsym]; omega
    · intro tk htk
      rcases List.mem_cons.1 htk with rfl | htk
      · simp only [rtickOf, lstep_nsym]; omega
      · have := i2 tk htk; omega

end SameVerif
