import SameVerif.Spec.Evidence
import SameVerif.Thm.C08
/-
  The assembler only ever reports `combine` of a run of at most three consecutive bursts (C04).
-/
namespace SameVerif
open SameVerif.Spec

/-! ### small facts about the parts of `assemble` -/

theorem dedup_some (prev : Option (Timed Msg)) (res : Option MsgResult) (r : MsgResult)
    (h : dedup prev res = some r) : res = some r := by
  unfold dedup at h
  split at h
  · split at h
    · split at h
      · exact h
      · cases h
    · exact h
  · exact h

theorem pruneHistory_length_le (h : List (Timed (List Byte))) (now : Nat) :
    (pruneHistory h now).length ≤ 2 := by
  unfold pruneHistory
  simp only [List.length_drop]
  omega

theorem historyAfter_length_le (s : AState) (burst : List Byte) (now : Nat) :
    (historyAfter s burst now).length ≤ 3 := by
  unfold historyAfter
  have := pruneHistory_length_le s.history now
  simp only [List.length_append, List.length_cons, List.length_nil]
  omega

theorem idle_history (s : AState) (now : Nat) :
    (aIdle s now).1.history = pruneHistory s.history now := by
  unfold aIdle
  cases h : poll s.pending now with
  | mk p o =>
    cases o with
    | none => simp
    | some r => cases r <;> simp

/-- deadlines never decrease along the history -/
def DeadlinesSorted {α} (h : List (Timed α)) : Prop := h.Pairwise (fun a b => a.deadline ≤ b.deadline)

/-- with non-decreasing deadlines the live entries are the most recent ones -/
theorem filter_live_suffix {α} (now : Nat) : ∀ (h : List (Timed α)), DeadlinesSorted h →
    h.filter (fun e => !e.expiredAt now) <:+ h := by
  intro h
  induction h with
  | nil => intro _; exact List.suffix_refl _
  | cons a l ih =>
    intro hs
    have hs' := List.pairwise_cons.mp hs
    by_cases ha : a.expiredAt now = true
    · rw [List.filter_cons]
      simp only [ha, Bool.not_true, Bool.false_eq_true, ↓reduceIte]
      exact List.IsSuffix.trans (ih hs'.2) (List.suffix_cons a l)
    · have hall : ∀ e ∈ a :: l, (!e.expiredAt now) = true := by
        intro e he
        rcases List.mem_cons.mp he with rfl | he
        · simpa using ha
        · have := hs'.1 e he
          simp [Timed.expiredAt] at ha ⊢
          omega
      rw [List.filter_eq_self.mpr hall]
      exact List.suffix_refl _

theorem pruneHistory_suffix (h : List (Timed (List Byte))) (now : Nat) (hs : DeadlinesSorted h) :
    pruneHistory h now <:+ h := by
  unfold pruneHistory
  exact List.IsSuffix.trans (List.drop_suffix _ _) (filter_live_suffix now h hs)

theorem pruneHistory_sorted (h : List (Timed (List Byte))) (now : Nat) (hs : DeadlinesSorted h) :
    DeadlinesSorted (pruneHistory h now) :=
  List.Pairwise.sublist (pruneHistory_suffix h now hs).sublist hs

theorem pruneHistory_mem (h : List (Timed (List Byte))) (now : Nat) (hs : DeadlinesSorted h) :
    ∀ e ∈ pruneHistory h now, e ∈ h :=
  fun _ he => (pruneHistory_suffix h now hs).subset he

/-! ### the invariant -/

/-- What is true of the assembler after any sequence of calls with non-decreasing tick counts:
    `log` holds the non-empty bursts received so far (each clipped to the burst buffer), oldest
    first, and `T` is the tick count of the latest call. -/
structure Inv (log : List (List Byte)) (T : Nat) (s : AState) : Prop where
  /-- the pending result is `combine` of a run of at most three consecutive logged bursts -/
  pending : ∀ t, s.pending = some t → ∃ r, IsRun r log ∧ combine MAXLEN r = some t.data
  /-- the history is the most recent part of the log -/
  hist_suffix : s.history.map (·.data) <:+ log
  hist_sorted : DeadlinesSorted s.history
  hist_due : ∀ e ∈ s.history, e.deadline ≤ T + HIST

theorem inv_init : Inv [] 0 {} where
  pending := by intro t h; simp at h
  hist_suffix := List.suffix_refl _
  hist_sorted := List.Pairwise.nil
  hist_due := by intro e he; simp at he

theorem isRun_extend (r log : List (List Byte)) (x : List Byte) (h : IsRun r log) :
    IsRun r (log ++ [x]) :=
  ⟨List.IsInfix.trans h.1 (List.prefix_append log [x]).isInfix, h.2⟩

theorem inv_idle (log : List (List Byte)) (T now : Nat) (s : AState) (hT : T ≤ now)
    (h : Inv log T s) : Inv log now (aIdle s now).1 where
  pending := by
    intro t ht
    rw [C08.idle_pending] at ht
    rcases C08.poll_pending s.pending now with hp | ⟨hp, _⟩
    · rw [hp] at ht; cases ht
    · rw [hp] at ht; exact h.pending t ht
  hist_suffix := by
    rw [idle_history]
    exact List.IsSuffix.trans ((pruneHistory_suffix _ now h.hist_sorted).map _) h.hist_suffix
  hist_sorted := by rw [idle_history]; exact pruneHistory_sorted _ now h.hist_sorted
  hist_due := by
    rw [idle_history]
    intro e he
    have := h.hist_due e (pruneHistory_mem _ now h.hist_sorted e he)
    omega

theorem estimate_from_history (s : AState) (burst : List Byte) (now : Nat) (r : MsgResult)
    (h : estimateOf s burst now = some r) :
    combine MAXLEN ((historyAfter s burst now).map (·.data)) = some r :=
  dedup_some _ _ _ h

theorem pending_from_estimate (s : AState) (burst : List Byte) (now : Nat) :
    pendingAfter s burst now = s.pending ∨
      ∃ r, estimateOf s burst now = some r ∧ pendingAfter s burst now = some (acceptNew r now) := by
  unfold pendingAfter
  cases he : estimateOf s burst now with
  | none => left; rfl
  | some r =>
    rcases C08.accept_cases s.pending r now with ha | ha
    · left; exact ha
    · right; exact ⟨r, rfl, ha⟩

theorem historyAfter_data (s : AState) (burst : List Byte) (now : Nat) :
    (historyAfter s burst now).map (·.data)
      = (pruneHistory s.history now).map (·.data) ++ [burst.take MAXLEN] := by
  simp [historyAfter]

theorem historyAfter_suffix (log : List (List Byte)) (T now : Nat) (s : AState) (burst : List Byte)
    (h : Inv log T s) :
    (historyAfter s burst now).map (·.data) <:+ log ++ [burst.take MAXLEN] := by
  rw [historyAfter_data]
  obtain ⟨t, ht⟩ := List.IsSuffix.trans ((pruneHistory_suffix _ now h.hist_sorted).map _) h.hist_suffix
  exact ⟨t, by rw [← ht]; simp⟩

/-- the state `assemble` hands to `idle` once the burst has been taken in -/
def afterBurst (s : AState) (burst : List Byte) (now : Nat) : AState :=
  { history := historyAfter s burst now, pending := pendingAfter s burst now,
    previous := prunePrevious s.previous now }

theorem assemble_eq (s : AState) (burst : List Byte) (now : Nat) (hb : burst.isEmpty = false) :
    aAssemble s burst now = aIdle (afterBurst s burst now) now := by
  simp [aAssemble, hb, afterBurst]

theorem inv_afterBurst (log : List (List Byte)) (T now : Nat) (s : AState) (burst : List Byte)
    (hT : T ≤ now) (h : Inv log T s) :
    Inv (log ++ [burst.take MAXLEN]) now (afterBurst s burst now) where
  pending := by
    intro t ht
    simp only [afterBurst] at ht
    rcases pending_from_estimate s burst now with hp | ⟨r, he, hp⟩
    · rw [hp] at ht
      obtain ⟨r, hr, hc⟩ := h.pending t ht
      exact ⟨r, isRun_extend r log _ hr, hc⟩
    · rw [hp] at ht
      cases ht
      refine ⟨(historyAfter s burst now).map (·.data),
        ⟨(historyAfter_suffix log T now s burst h).isInfix, ?_⟩, ?_⟩
      · simpa using historyAfter_length_le s burst now
      · rw [C08.acceptNew_data]; exact estimate_from_history s burst now r he
  hist_suffix := historyAfter_suffix log T now s burst h
  hist_sorted := by
    simp only [afterBurst, historyAfter, DeadlinesSorted]
    rw [List.pairwise_append]
    refine ⟨pruneHistory_sorted _ now h.hist_sorted, List.pairwise_singleton _ _, ?_⟩
    intro a ha b hb
    simp only [List.mem_singleton] at hb
    subst hb
    have := h.hist_due a (pruneHistory_mem _ now h.hist_sorted a ha)
    simp only; omega
  hist_due := by
    intro e he
    simp only [afterBurst, historyAfter, List.mem_append, List.mem_singleton] at he
    rcases he with he | rfl
    · have := h.hist_due e (pruneHistory_mem _ now h.hist_sorted e he)
      omega
    · simp

theorem inv_assemble (log : List (List Byte)) (T now : Nat) (s : AState) (burst : List Byte)
    (hT : T ≤ now) (hb : burst.isEmpty = false) (h : Inv log T s) :
    Inv (log ++ [burst.take MAXLEN]) now (aAssemble s burst now).1 := by
  rw [assemble_eq s burst now hb]
  exact inv_idle _ now now _ (Nat.le_refl _) (inv_afterBurst log T now s burst hT h)

/-! ### what is reported -/

theorem message_from_pending (s : AState) (now : Nat) (r : MsgResult)
    (h : (aIdle s now).2 = .message r) :
    ∃ t, s.pending = some t ∧ t.data = r ∧ t.deadline ≤ now := by
  unfold aIdle poll at h
  cases hp : s.pending with
  | none => simp [hp] at h; split at h <;> cases h
  | some t =>
    by_cases hd : t.expiredAt now = true
    · refine ⟨t, rfl, ?_, by simpa [Timed.expiredAt] using hd⟩
      simp only [hp, hd, ↓reduceIte] at h
      cases hdat : t.data with
      | error e => simp [hdat] at h; exact h
      | ok m => simp [hdat] at h; rw [h]
    · simp only [hp, hd] at h
      simp at h
      split at h <;> cases h

theorem idle_message_evidence (log : List (List Byte)) (T now : Nat) (s : AState) (res : MsgResult)
    (h : Inv log T s) (hm : (aIdle s now).2 = .message res) :
    ∃ r, IsRun r log ∧ combine MAXLEN r = some res := by
  obtain ⟨t, hp, hd, _⟩ := message_from_pending s now res hm
  obtain ⟨r, hr, hc⟩ := h.pending t hp
  exact ⟨r, hr, by rw [hc, hd]⟩

theorem assemble_message_evidence (log : List (List Byte)) (T now : Nat) (s : AState)
    (burst : List Byte) (res : MsgResult) (hT : T ≤ now) (hb : burst.isEmpty = false)
    (h : Inv log T s) (hm : (aAssemble s burst now).2 = .message res) :
    ∃ r, IsRun r (log ++ [burst.take MAXLEN]) ∧ combine MAXLEN r = some res := by
  rw [assemble_eq s burst now hb] at hm
  exact idle_message_evidence _ now now _ res (inv_afterBurst log T now s burst hT h) hm

end SameVerif
