import SameVerif.Model.FramerRun
import SameVerif.Spec.Frame
import SameVerif.Lemmas.FramerBits
/- The framer model run over a stream, characterised index by index (support for C07). -/
namespace SameVerif
open SameVerif.Spec

/-! ### the sliding window -/

theorem windowAt_length (bs : List Byte) (k : Nat) : (windowAt bs k).length = 4 := by
  simp only [windowAt, List.length_drop, List.length_append, List.length_cons, List.length_nil]
  omega

theorem windowAt_zero (bs : List Byte) : windowAt bs 0 = [0, 0, 0, 0] := by
  simp [windowAt]

theorem windowAt_succ (bs : List Byte) (k : Nat) (hk : k < bs.length) :
    windowAt bs (k + 1) = (windowAt bs k).drop 1 ++ [bs[k]] := by
  unfold windowAt
  simp only
  rw [← List.take_append_getElem hk, ← List.append_assoc, List.drop_drop]
  have hlen : ([0, 0, 0, 0] ++ List.take k bs : List Byte).length = 4 + min k bs.length := by
    simp only [List.length_append, List.length_cons, List.length_nil, List.length_take, Nat.add_comm]
  rw [List.length_append, hlen, List.drop_append_of_le_length (by rw [hlen]; simp)]
  simp only [List.length_cons, List.length_nil]
  congr 2
  omega

theorem eq_four_of_length {α : Type} (l : List α) (h : l.length = 4) :
    ∃ a b c d, l = [a, b, c, d] := by
  match l, h with
  | [a, b, c, d], _ => exact ⟨a, b, c, d, rfl⟩

theorem wordOf_windowAt_succ (bs : List Byte) (k : Nat) (hk : k < bs.length) :
    wordOf (windowAt bs (k + 1)) = (wordOf (windowAt bs k) <<< 8) ||| bs[k].toUInt32 := by
  rw [windowAt_succ bs k hk]
  obtain ⟨a, b, c, d, h⟩ := eq_four_of_length _ (windowAt_length bs k)
  rw [h]
  exact wordOf_slide a b c d bs[k]

theorem beBytes_wordOf_windowAt (bs : List Byte) (k : Nat) :
    beBytes (wordOf (windowAt bs k)) = windowAt bs k := by
  obtain ⟨a, b, c, d, h⟩ := eq_four_of_length _ (windowAt_length bs k)
  rw [h]
  exact beBytes_wordOf_four a b c d

theorem wordOf_windowAt_zero (bs : List Byte) : wordOf (windowAt bs 0) = 0 := by
  rw [windowAt_zero]; decide

/-! ### "least index such that" -/

theorem find_range_some {n : Nat} {p : Nat → Bool} {k : Nat}
    (h : ((List.range n).map (· + 1)).find? p = some k) :
    1 ≤ k ∧ k ≤ n ∧ p k = true ∧ ∀ k', 1 ≤ k' → k' < k → p k' = false := by
  rw [List.find?_eq_some_iff_getElem] at h
  obtain ⟨hp, i, hi, hik, hmin⟩ := h
  simp only [List.length_map, List.length_range] at hi
  simp only [List.getElem_map, List.getElem_range] at hik hmin
  subst hik
  refine ⟨by omega, by omega, hp, ?_⟩
  intro k' h1 h2
  have := hmin (k' - 1) (by omega)
  have e : k' - 1 + 1 = k' := by omega
  rw [e] at this
  simpa using this

theorem find_range_none {n : Nat} {p : Nat → Bool}
    (h : ((List.range n).map (· + 1)).find? p = none) :
    ∀ k', 1 ≤ k' → k' ≤ n → p k' = false := by
  rw [List.find?_eq_none] at h
  intro k' h1 h2
  have := h k' (by
    simp only [List.mem_map, List.mem_range]
    exact ⟨k' - 1, by omega, by omega⟩)
  simpa using this

/-! ### running the model -/

theorem feed_length (c : FCfg) (s : FState) (bs : List Byte) : (feed c s bs).length = bs.length := by
  induction bs generalizing s with
  | nil => rfl
  | cons b bs ih => simp [feed, ih]

theorem feedStart_length (c : FCfg) (s0 : FState) (bs : List Byte) :
    (feedStart c s0 bs).length = bs.length := by
  cases bs with
  | nil => rfl
  | cons b bs => simp [feedStart, feed_length]

theorem feedState_take_succ (c : FCfg) (s : FState) (bs : List Byte) (k : Nat) (hk : k < bs.length) :
    feedState c s (bs.take (k + 1)) = (finputNR c (feedState c s (bs.take k)) bs[k]).1 := by
  induction bs generalizing s k with
  | nil => simp at hk
  | cons b bs ih =>
    cases k with
    | zero => simp [feedState]
    | succ k =>
      simp only [List.take_succ_cons, feedState, List.getElem_cons_succ]
      exact ih _ k (by simpa using hk)

theorem feed_getElem (c : FCfg) (s : FState) (bs : List Byte) (i : Nat) (hi : i < bs.length) :
    (feed c s bs)[i]'(by rw [feed_length]; exact hi)
      = (finputNR c (feedState c s (bs.take i)) bs[i]).2 := by
  induction bs generalizing s i with
  | nil => simp at hi
  | cons b bs ih =>
    cases i with
    | zero => simp [feed, feedState]
    | succ i =>
      simp only [feed, List.getElem_cons_succ, List.take_succ_cons, feedState]
      exact ih _ i (by simpa using hi)

end SameVerif
