import SameVerif.Lemmas.LinkInv
/-
  Helper lemmas for C10, second part: the two shift registers of the squelch (power history,
  sync-word correlator) forget everything older than 32 ticks, and link states that agree in
  everything live are indistinguishable by any future input.
-/
namespace SameVerif

/-! ### the two shift registers forget: power history -/

/-- the last `n` elements -/
def lastN {α : Type} (n : Nat) (l : List α) : List α := l.drop (l.length - n)

theorem push32_eq_lastN (h : List Bool) (b : Bool) : push32 h b = lastN 32 (h ++ [b]) := rfl

theorem lastN_length {α : Type} (n : Nat) (l : List α) : (lastN n l).length = min l.length n := by
  simp only [lastN, List.length_drop]; omega

theorem lastN_of_length_le {α : Type} (n : Nat) (l : List α) (h : l.length ≤ n) : lastN n l = l := by
  have : l.length - n = 0 := by omega
  simp [lastN, this]

theorem lastN_lastN_append {α : Type} (n : Nat) (l m : List α) :
    lastN n (lastN n l ++ m) = lastN n (l ++ m) := by
  by_cases h : l.length ≤ n
  · rw [lastN_of_length_le n l h]
  · have hl : (l.drop (l.length - n)).length = n := by rw [List.length_drop]; omega
    simp only [lastN, List.length_append, hl]
    have e : l.length + m.length - n = (l.length - n) + m.length := by omega
    have e' : n + m.length - n = m.length := by omega
    rw [e, e', ← List.drop_drop,
      List.drop_append_of_le_length (l₁ := l) (l₂ := m) (i := l.length - n) (by omega)]

theorem lastN_append_of_le {α : Type} (n : Nat) (l m : List α) (h : n ≤ m.length) :
    lastN n (l ++ m) = lastN n m := by
  unfold lastN
  have e : (l ++ m).length - n = l.length + (m.length - n) := by
    rw [List.length_append]; omega
  rw [e, ← List.drop_drop, List.drop_left]

/-- the power history after a run, in closed form -/
theorem lrunState_pwr (c : LCfg) (xs : List Tick) : ∀ s,
    lastN 32 (lrunState c s xs).pwr = lastN 32 (s.pwr ++ xs.map (fun x => x.1.closeOk)) := by
  induction xs with
  | nil => intro s; simp [lrunState]
  | cons x xs ih =>
    intro s
    simp only [lrunState, List.map_cons]
    rw [ih, (lstep_base c s x.1 x.2).2.1, push32_eq_lastN, lastN_lastN_append]
    simp

theorem lrunState_pwr_le (c : LCfg) (xs : List Tick) : ∀ s, s.pwr.length ≤ 32 →
    (lrunState c s xs).pwr.length ≤ 32 := by
  induction xs with
  | nil => intro s h; exact h
  | cons x xs ih =>
    intro s _
    rw [lrunState]
    apply ih
    rw [(lstep_base c s x.1 x.2).2.1, push32_length]; omega

theorem lrunState_pwr_length (c : LCfg) (xs : List Tick) (hne : xs ≠ []) (s : LState) :
    (lrunState c s xs).pwr.length ≤ 32 := by
  cases xs with
  | nil => exact absurd rfl hne
  | cons x xs =>
    rw [lrunState]
    apply lrunState_pwr_le
    rw [(lstep_base c s x.1 x.2).2.1, push32_length]; omega

/-- after 32 ticks the power history is just the last 32 observations -/
theorem lrunState_pwr_forget (c : LCfg) (xs : List Tick) (s : LState) (h : 32 ≤ xs.length) :
    (lrunState c s xs).pwr = lastN 32 (xs.map (fun x => x.1.closeOk)) := by
  have hne : xs ≠ [] := by intro e; rw [e] at h; simp at h
  rw [← lastN_of_length_le 32 _ (lrunState_pwr_length c xs hne s), lrunState_pwr,
    lastN_append_of_le _ _ _ (by simpa using h)]

/-! ### the two shift registers forget: sync-word correlator -/

/-- the newest `k` bits (the top `k` bits) of two correlator words agree -/
def AgreeHigh (k : Nat) (a b : UInt32) : Prop := a.toBitVec >>> (32 - k) = b.toBitVec >>> (32 - k)

theorem agreeHigh_zero (a b : UInt32) : AgreeHigh 0 a b := by
  simp only [AgreeHigh]
  rw [BitVec.ushiftRight_eq_zero (by omega), BitVec.ushiftRight_eq_zero (by omega)]

theorem agreeHigh_eq (k : Nat) (a b : UInt32) (hk : 32 ≤ k) (h : AgreeHigh k a b) : a = b := by
  apply UInt32.eq_of_toBitVec_eq
  have e : 32 - k = 0 := by omega
  simpa [AgreeHigh, e] using h

theorem agreeHigh_shift (k : Nat) (a b v : UInt32) (h : AgreeHigh k a b) :
    AgreeHigh (k + 1) ((a >>> 1) ||| v) ((b >>> 1) ||| v) := by
  have e1 : ∀ x : UInt32, ((x >>> 1) ||| v).toBitVec = x.toBitVec >>> 1 ||| v.toBitVec := by
    intro x
    rw [UInt32.toBitVec_or, UInt32.toBitVec_shiftRight, BitVec.ushiftRight_eq']
    have : ((1 : UInt32).toBitVec % 32).toNat = 1 := by decide
    rw [this]
  simp only [AgreeHigh, e1, BitVec.ushiftRight_or_distrib]
  congr 1
  by_cases hk : 32 ≤ k
  · rw [agreeHigh_eq k a b hk h]
  · have e : 32 - k = 1 + (32 - (k + 1)) := by omega
    simp only [AgreeHigh] at h
    rw [e, BitVec.shiftRight_add, BitVec.shiftRight_add] at h
    exact h

theorem agreeHigh_run (c : LCfg) (xs : List Tick) : ∀ (k : Nat) (s1 s2 : LState),
    AgreeHigh k s1.corr s2.corr →
    AgreeHigh (k + xs.length) (lrunState c s1 xs).corr (lrunState c s2 xs).corr := by
  induction xs with
  | nil => intro k s1 s2 h; exact h
  | cons x xs ih =>
    intro k s1 s2 h
    simp only [lrunState, List.length_cons]
    have e : k + (xs.length + 1) = k + 1 + xs.length := by omega
    rw [e]
    apply ih
    rw [(lstep_base c s1 x.1 x.2).1, (lstep_base c s2 x.1 x.2).1]
    exact agreeHigh_shift k _ _ _ h

/-- after 32 ticks the correlator holds just the last 32 bits -/
theorem lrunState_corr_forget (c : LCfg) (xs : List Tick) (s1 s2 : LState) (h : 32 ≤ xs.length) :
    (lrunState c s1 xs).corr = (lrunState c s2 xs).corr :=
  agreeHigh_eq _ _ _ (by omega) (agreeHigh_run c xs 0 s1 s2 (agreeHigh_zero _ _))

/-! ### observational equivalence of link states -/

/-- two link states that no future input can tell apart: equal in everything except the number
    of symbols seen (both histories full) and — while the byte clock is stopped — the dead
    training counter -/
structure LEquiv (s1 s2 : LState) : Prop where
  corr : s1.corr = s2.corr
  pwr : s1.pwr = s2.pwr
  clock : s1.clock = s2.clock
  lock : s1.lock = s2.lock
  fr : s1.fr = s2.fr
  full1 : 32 ≤ s1.nsym
  full2 : 32 ≤ s2.nsym
  train : s1.clock.isSome = true → s1.train = s2.train

theorem lequiv_byteTick (c : LCfg) (s1 s2 : LState) (adj : Bool) (b : Byte)
    (hcorr : s1.corr = s2.corr) (hpwr : s1.pwr = s2.pwr) (hlock : s1.lock = s2.lock)
    (hfr : s1.fr = s2.fr) (h1 : 32 ≤ s1.nsym) (h2 : 32 ≤ s2.nsym)
    (htrain : adj = false → s1.train = s2.train) :
    (byteTick c s1 adj b).2 = (byteTick c s2 adj b).2
      ∧ LEquiv (byteTick c s1 adj b).1 (byteTick c s2 adj b).1 := by
  have ht : (if adj = true then 4 else s1.train) = (if adj = true then 4 else s2.train) := by
    cases adj with
    | true => rfl
    | false => simp [htrain rfl]
  simp only [byteTick, ht, hfr]
  split <;> refine ⟨rfl, ?_⟩ <;> constructor <;> simp_all [LState.endRx]

theorem lequiv_step (c : LCfg) (s1 s2 : LState) (o : Obs) (b : Byte) (h : LEquiv s1 s2) :
    (lstep c s1 o b).2 = (lstep c s2 o b).2 ∧ LEquiv (lstep c s1 o b).1 (lstep c s2 o b).1 := by
  obtain ⟨hcorr, hpwr, hclock, hlock, hfr, h1, h2, htrain⟩ := h
  have hhit : hitOf c s1 o = hitOf c s2 o := by unfold hitOf corrOf; rw [hcorr, hlock]
  have hdrop : droppedOf c s1 o = droppedOf c s2 o := by simp [droppedOf, hhit, hclock, hpwr]
  have hb : ∀ adj, (adj = false → s1.train = s2.train) →
      (byteTick c (baseOf s1 o) adj b).2 = (byteTick c (baseOf s2 o) adj b).2
      ∧ LEquiv (byteTick c (baseOf s1 o) adj b).1 (byteTick c (baseOf s2 o) adj b).1 := by
    intro adj ha
    apply lequiv_byteTick c _ _ adj b
    · simp [baseOf, corrOf, hcorr]
    · simp [baseOf, hpwr]
    · exact hlock
    · exact hfr
    · simp only [baseOf]; omega
    · simp only [baseOf]; omega
    · exact ha
  have he : ∀ (t1 t2 : LState), t1.corr = t2.corr → t1.pwr = t2.pwr → t1.clock = t2.clock →
      t1.lock = t2.lock → t1.fr = t2.fr → 32 ≤ t1.nsym → 32 ≤ t2.nsym →
      (t1.clock.isSome = true → t1.train = t2.train) →
      (endTick t1).2 = (endTick t2).2 ∧ LEquiv (endTick t1).1 (endTick t2).1 := by
    intro t1 t2 g1 g2 g3 g4 g5 g6 g7 g8
    refine ⟨by simp [g5], ?_⟩
    rw [endTick_fst, endTick_fst]
    exact ⟨g1, g2, g3, g4, rfl, g6, g7, g8⟩
  rw [lstep_eq, lstep_eq, ← hhit, ← hdrop, ← hclock]
  have hw1 : ¬ s1.nsym + 1 < 32 := by omega
  have hw2 : ¬ s2.nsym + 1 < 32 := by omega
  simp only [hw1, hw2, ↓reduceIte]
  split
  · apply hb
    intro ha
    apply htrain
    cases hc : s1.clock with
    | none => rw [hc] at ha; cases ha
    | some k => rfl
  · split
    · apply he <;> simp [baseOf, LState.endRx, corrOf, hcorr, hpwr, hfr] <;> omega
    · split
      · next hc =>
        apply he <;> simp [baseOf, corrOf, hcorr, hpwr, hfr, hlock, hc, ← hclock] <;> omega
      · next hc => exact hb false (fun _ => htrain (by rw [hc]; rfl))
      · next k hc =>
        refine ⟨by rw [hfr], ?_⟩
        exact ⟨by simp [baseOf, corrOf, hcorr], by simp [baseOf, hpwr], rfl, hlock, hfr,
          by simp only [baseOf]; omega, by simp only [baseOf]; omega,
          fun _ => htrain (by rw [hc]; rfl)⟩

theorem lequiv_run (c : LCfg) (ys : List Tick) : ∀ s1 s2, LEquiv s1 s2 →
    lrun c s1 ys = lrun c s2 ys ∧ LEquiv (lrunState c s1 ys) (lrunState c s2 ys) := by
  induction ys with
  | nil => intro s1 s2 h; exact ⟨rfl, h⟩
  | cons y ys ih =>
    intro s1 s2 h
    obtain ⟨g1, g2⟩ := lequiv_step c s1 s2 y.1 y.2 h
    obtain ⟨g3, g4⟩ := ih _ _ g2
    simp only [lrun, lrunState]
    exact ⟨by rw [g1, g3], g4⟩

end SameVerif
