import SameVerif.Lemmas.AssemblerSeq
import SameVerif.Lemmas.DashFreeTail
import SameVerif.Lemmas.CombineTails
import SameVerif.Lemmas.Evidence
/-
  Support for C02poll — "two of three bursts, one of them corrupted, ANY poll schedule" at the
  transport:
  * the header parser on its own match (`checkHeader_take`), what `combine` promises about the
    header it returns (`combine_som_canonical`, `combine_pair_voting`);
  * `NoHeaderPrefix` with a checker and a sufficient condition (no `-` inside the callsign);
  * a small calculus of assembler states in which at most one StartOfMessage with the text `H`
    has been, or can still be, output (`Open` / `Done`), with the poll and burst steps.
-/
namespace SameVerif
open SameVerif.Spec

/-! ### the vocabulary of the theorem -/

/-- the StartOfMessage outputs of a run, with their times -/
def soms (out : List (Nat × MsgResult)) : List (Nat × Header) :=
  out.filterMap (fun p => match p.2 with | .ok (.som h) => some (p.1, h) | _ => none)

/-- no proper prefix of `H` is itself accepted by the header parser as a complete header -/
def NoHeaderPrefix (H : List Byte) : Prop :=
  ∀ n, n < H.length → ∀ off', checkHeader (H.take n) ≠ some (off', n)

/-- `NoHeaderPrefix`, as a computation -/
def noHeaderPrefixB (H : List Byte) : Bool :=
  (List.range H.length).all (fun n => (checkHeader (H.take n)).map (·.2) != some n)

theorem noHeaderPrefix_of_check (H : List Byte) (h : noHeaderPrefixB H = true) : NoHeaderPrefix H := by
  intro n hn off' hc
  unfold noHeaderPrefixB at h
  rw [List.all_eq_true] at h
  have := h n (List.mem_range.mpr hn)
  rw [hc] at this
  simp at this

theorem soms_nil : soms [] = [] := rfl

/-- a header text is not the trailer text -/
theorem header_ne_trailer (H : List Byte) (r : Nat × Nat) (h : checkHeader H = some r) :
    H ≠ litNNNN := by
  intro he
  have : checkHeader litNNNN = none := by decide
  rw [he, this] at h
  cases h

theorem soms_append (a b : List (Nat × MsgResult)) : soms (a ++ b) = soms a ++ soms b := by
  unfold soms; exact List.filterMap_append

theorem soms_som (u : Nat) (h : Header) : soms [(u, .ok (.som h))] = [(u, h)] := rfl
theorem soms_err (u : Nat) (e : DecodeErr) : soms [(u, .error e)] = [] := rfl
theorem soms_eom (u : Nat) : soms [(u, .ok .eom)] = [] := rfl

/-! ### the parser on its own match -/

/-- the match found on `s`, cut out of `s`, is matched again, entirely -/
theorem checkHeader_take (s : List Byte) (o n : Nat) (h : checkHeader s = some (o, n)) :
    checkHeader (s.take n) = some (o, n) ∧ (s.take n).length = n := by
  unfold checkHeader at h
  cases hp : parseFields s with
  | none => simp [hp] at h
  | some f =>
    simp only [hp, Option.some.injEq, Prod.mk.injEq] at h
    obtain ⟨ho, hn⟩ := h
    obtain ⟨hw, hs, _⟩ := parseFields_sound' s f hp
    have hrl := fields_render_length f hw
    have hlen : f.render.length = n := by omega
    have htake : s.take n = f.render := by
      rw [hs]; exact List.take_left' hlen
    rw [htake]
    refine ⟨?_, hlen⟩
    obtain ⟨call', rest', hp'⟩ := parseFields_complete f [] hw
    obtain ⟨_, hs', hcs⟩ := parseFields_sound' _ _ hp'
    simp only [Fields.render, List.append_assoc, List.cons_append, List.nil_append] at hs'
    have e : f.call ++ 45 :: [] = call' ++ 45 :: rest' := by simpa using hs'
    simp only at hcs
    rw [← e, callsignOf_dashfree f.call [] hw.call (by simp)] at hcs
    simp only [Option.some.injEq, Prod.mk.injEq] at hcs
    obtain ⟨rfl, rfl⟩ := hcs
    rw [List.append_nil] at hp'
    unfold checkHeader
    rw [hp']
    simp only [Option.some.injEq, Prod.mk.injEq]
    omega

/-- what the message parser promises about a header it returns -/
theorem tryFromBytes_som_parse (inp : List Byte) (errs counts : List Nat) (h : Header)
    (ht : Msg.tryFromBytes inp errs counts = .ok (.som h)) :
    ∃ len, checkHeader inp = some (h.offsetTime, len) ∧ h.text = inp.take len ∧
      h.voting = ((counts.zip (inp.take len)).filter (fun p => !(p.1 < 3))).length := by
  unfold Msg.tryFromBytes at ht
  split at ht
  · cases ht
  · split at ht
    · cases hn : Header.newWithErrorInfo inp errs counts with
      | error e => simp [hn] at ht
      | ok h' =>
        simp only [hn, Except.ok.injEq, Msg.som.injEq] at ht
        subst ht
        unfold Header.newWithErrorInfo Header.newWithErrors Header.new at hn
        by_cases ha : inp.all isAsciiByte = true
        · simp only [ha, Bool.not_true, Bool.false_eq_true, ↓reduceIte] at hn
          cases hc : checkHeader inp with
          | none => simp [hc] at hn
          | some p =>
            obtain ⟨off, len⟩ := p
            simp only [hc, Except.ok.injEq] at hn
            subst hn
            exact ⟨len, rfl, rfl, rfl⟩
        · simp [ha] at hn
    · split at ht <;> cases ht

/-- **Every header `combine` returns is canonical**: its text is its own complete match. -/
theorem combine_som_canonical (maxLen : Nat) (bursts : List (List Byte)) (h : Header)
    (hc : combine maxLen bursts = some (.ok (.som h))) :
    checkHeader h.text = some (h.offsetTime, h.text.length) := by
  obtain ⟨len, h1, h2, _⟩ := tryFromBytes_som_parse _ _ _ _ (combine_som_parse maxLen bursts h hc)
  obtain ⟨h3, h4⟩ := checkHeader_take _ _ _ h1
  rw [h2, h4]
  exact h3

theorem estimateLoop_nbursts_le (cap : Nat) (bs : List (List Byte)) (e : EstByte)
    (he : e ∈ estimateLoop cap bs) : e.nbursts ≤ bs.length := by
  obtain ⟨j, v, _, h2⟩ := estimateLoop_mem_vote cap bs e he
  rw [h2]
  unfold columnAt
  rw [List.length_map]
  exact List.length_filterMap_le _ _

/-- a header voted from two bursts has no byte backed by three -/
theorem combine_pair_voting (maxLen : Nat) (a b : List Byte) (h : Header)
    (hc : combine maxLen [a, b] = some (.ok (.som h))) : h.voting = 0 := by
  obtain ⟨len, _, _, h3⟩ := tryFromBytes_som_parse _ _ _ _ (combine_som_parse maxLen [a, b] h hc)
  rw [h3, List.length_eq_zero_iff, List.filter_eq_nil_iff]
  intro p hp
  have h1 := (List.of_mem_zip hp).1
  obtain ⟨e, he, hen⟩ := List.mem_map.mp h1
  have := estimateLoop_nbursts_le maxLen ([a, b].take 3) e he
  simp only [List.take, List.length_cons, List.length_nil] at this
  simp only [decide_eq_false_iff_not, Nat.not_lt, Bool.not_eq_eq_eq_not, Bool.not_true]
  omega

/-! ### a sufficient condition for `NoHeaderPrefix`: no `-` inside the callsign -/

/-- **No `-` inside the callsign.**  If the bytes of a canonical header between the callsign
    offset (`off + 14`) and the closing `-` hold no `-`, no proper prefix of it is a header. -/
theorem noHeaderPrefix_of_dashfree_call (H : List Byte) (off : Nat)
    (hcan : checkHeader H = some (off, H.length))
    (hd : ∀ b ∈ (H.drop (off + 14)).dropLast, b ≠ 45) : NoHeaderPrefix H := by
  intro n hn off' hq
  obtain ⟨fH, hpH, hwH, hH, _, hoff⟩ := canonical_fields H off hcan
  have hlq : (H.take n).length = n := by rw [List.length_take]; omega
  obtain ⟨fQ, _, hwQ, hQ, _, _⟩ := canonical_fields (H.take n) off' (by rw [hlq]; exact hq)
  -- `H` begins with the rendering of the prefix's fields, so it parses to the same fields up to
  -- the callsign
  obtain ⟨call', rest', hp'⟩ := parseFields_complete fQ (H.drop n) hwQ
  rw [← hQ, List.take_append_drop, hpH] at hp'
  simp only [Option.some.injEq] at hp'
  have hlocs : fH.locs = fQ.locs := by rw [hp']
  have hrH := fields_render_length fH hwH
  have hrQ := fields_render_length fQ hwQ
  have hlH : H.length = 27 + 7 * fH.locs.length + fH.call.length := by rw [← hrH, ← hH]
  have hlQ : n = 27 + 7 * fQ.locs.length + fQ.call.length := by rw [← hrQ, ← hQ, hlq]
  have hcl : fQ.call.length < fH.call.length := by rw [hlocs] at hlH; omega
  -- the byte of `H` that closes the prefix's callsign
  have hbyte : H[n - 1]? = some 45 := by
    have h1 : (H.take n)[n - 1]? = some 45 := by
      rw [hQ]
      simp only [Fields.render]
      rw [List.getElem?_append_right (by
        simp only [List.length_append, List.length_cons] at hrQ ⊢
        simp only [Fields.render, List.length_append, List.length_cons, List.length_nil] at hrQ
        omega)]
      have : n - 1 - (litZCZC ++ fQ.org ++ 45 :: fQ.evt ++ renderLocs fQ.locs ++ 43 :: fQ.purge
          ++ 45 :: fQ.issue ++ 45 :: fQ.call).length = 0 := by
        simp only [Fields.render, List.length_append, List.length_cons, List.length_nil] at hrQ
        simp only [List.length_append, List.length_cons]
        omega
      rw [this]; rfl
    rw [List.getElem?_take] at h1
    have : n - 1 < n := by omega
    simpa [this] using h1
  -- it lies inside the callsign of `H`
  have hmem : (45 : Byte) ∈ (H.drop (off + 14)).dropLast := by
    have hk : n - 1 = off + 14 + fQ.call.length := by rw [hoff, hlocs]; omega
    have h2 : (H.drop (off + 14))[fQ.call.length]? = some 45 := by
      rw [List.getElem?_drop, ← hk]; exact hbyte
    have h3 : ((H.drop (off + 14)).dropLast)[fQ.call.length]? = some 45 := by
      rw [List.dropLast_eq_take, List.getElem?_take]
      have : fQ.call.length < (H.drop (off + 14)).length - 1 := by
        rw [List.length_drop, hoff]; omega
      rw [if_pos this]; exact h2
    exact List.mem_of_getElem? h3
  exact hd 45 hmem rfl

end SameVerif

namespace SameVerif.Asm

/-! ### runs: an empty burst is a poll; a stretch of polls, completely -/

theorem stepOp_burst_empty (s : AState) (b : List Byte) (t : Nat) (hb : b.isEmpty = true) :
    stepOp s (.burst b t) = stepOp s (.poll t) := by
  rw [stepOp_eq, stepOp_eq, preIdle_burst_empty _ _ _ hb]
  rfl

/-- an empty burst anywhere in a run may be replaced by a poll at the same tick -/
theorem runOps_burst_empty (s : AState) (a rest : List AOp) (b : List Byte) (t : Nat)
    (hb : b.isEmpty = true) :
    runOps s (a ++ .burst b t :: rest) = runOps s (a ++ .poll t :: rest) := by
  rw [runOps_append, runOps_append, runOps_cons, runOps_cons, stepOp_burst_empty _ _ _ hb]
  rfl

theorem run_polls_hlen (polls : List Nat) (s : AState) (hl : s.history.length ≤ 2) :
    (runOps s (polls.map .poll)).1.history.length ≤ 2 :=
  Nat.le_trans (run_polls_history_sublist polls s).length_le hl

/-- a stretch of polls either changes nothing that matters, or outputs the pending entry, once -/
theorem run_polls_cases (polls : List Nat) (s : AState) :
    ((runOps s (polls.map .poll)).2 = [] ∧ (runOps s (polls.map .poll)).1.pending = s.pending
        ∧ (runOps s (polls.map .poll)).1.previous = s.previous)
    ∨ (∃ tm u, s.pending = some tm ∧ u ∈ polls ∧ tm.deadline ≤ u
        ∧ (runOps s (polls.map .poll)).2 = [(u, tm.data)]
        ∧ (runOps s (polls.map .poll)).1.pending = none
        ∧ (runOps s (polls.map .poll)).1.previous
            = (match tm.data with | .ok m => some ⟨m, u + HIST⟩ | .error _ => s.previous)) := by
  cases hp : s.pending with
  | none =>
    left
    obtain ⟨h1, h2, h3⟩ := run_polls_quiet polls s hp
    exact ⟨h1, h2, h3⟩
  | some tm =>
    by_cases hex : ∃ u ∈ polls, tm.deadline ≤ u
    · right
      cases hd : tm.data with
      | ok m =>
        obtain ⟨u, hu, hdl, hout, hpn, hpv⟩ := run_polls_release polls tm m hd s hp hex
        exact ⟨tm, u, rfl, hu, hdl, by rw [hout, hd], hpn, by rw [hpv, hd]⟩
      | error e =>
        obtain ⟨u, hu, hdl, hout, hpn, hpv⟩ := run_polls_release_err polls tm e hd s hp hex
        exact ⟨tm, u, rfl, hu, hdl, by rw [hout, hd], hpn, by rw [hpv, hd]⟩
    · left
      have hA : ∀ u ∈ polls, u < tm.deadline := by
        intro u hu
        by_cases h : u < tm.deadline
        · exact h
        · exact absurd ⟨u, hu, by omega⟩ hex
      obtain ⟨h1, h2, h3⟩ := run_polls_waiting polls tm s hp hA
      exact ⟨h1, h2, h3⟩

/-! ### states in which at most one StartOfMessage `H` has been, or can still be, output -/

/-- what an estimate may be while the header is not yet established: anything but a
    StartOfMessage other than the two-burst header `H` -/
def GoodEst (H : List Byte) (off : Nat) (r : Option MsgResult) : Prop :=
  ∀ h, r = some (.ok (.som h)) → h.text = H ∧ h.offsetTime = off ∧ h.voting = 0

/-- **Nothing reported yet.**  The previous report (if any) is not `H`; whatever is held is an
    error or a two-burst header with the text `H`, due at `lo` or later. -/
structure Open (H : List Byte) (off lo : Nat) (S : AState) : Prop where
  prev : ∀ p, S.previous = some p → p.data.text ≠ H
  pend : ∀ tm, S.pending = some tm → lo ≤ tm.deadline ∧
    ((∃ e, tm.data = .error e) ∨
      ∃ h, tm.data = .ok (.som h) ∧ h.text = H ∧ h.offsetTime = off ∧ h.voting = 0)
  hlen : S.history.length ≤ 2

/-- **`H` has been reported**, at `lo` or later, and nothing is held. -/
structure Done (H : List Byte) (lo : Nat) (S : AState) : Prop where
  pend : S.pending = none
  prev : ∃ m d, S.previous = some ⟨m, d⟩ ∧ m.text = H ∧ lo + HIST ≤ d
  hlen : S.history.length ≤ 2

/-- polls from an `Open` state: no StartOfMessage and still `Open`, or the held `H` is output
    (once) and the state is `Done` -/
theorem open_polls (H : List Byte) (off lo : Nat) (polls : List Nat) (S : AState)
    (hS : Open H off lo S) :
    (soms (runOps S (polls.map .poll)).2 = [] ∧ Open H off lo (runOps S (polls.map .poll)).1)
    ∨ (∃ u h, u ∈ polls ∧ soms (runOps S (polls.map .poll)).2 = [(u, h)] ∧ h.text = H
        ∧ h.offsetTime = off ∧ Done H lo (runOps S (polls.map .poll)).1) := by
  have hl := run_polls_hlen polls S hS.hlen
  rcases run_polls_cases polls S with ⟨ho, hp, hv⟩ | ⟨tm, u, hp, hu, hd, ho, hpn, hpv⟩
  · left
    rw [ho]
    exact ⟨rfl, by rw [hv]; exact hS.prev, by rw [hp]; exact hS.pend, hl⟩
  · obtain ⟨hlo, ⟨e, he⟩ | ⟨h, hdat, ht, hoff, _⟩⟩ := hS.pend tm hp
    · left
      rw [ho, he]
      refine ⟨rfl, ?_, ?_, hl⟩
      · rw [hpv, he]; exact hS.prev
      · rw [hpn]; intro tm' h'; cases h'
    · right
      refine ⟨u, h, hu, by rw [ho, hdat]; rfl, ht, hoff, hpn, ?_, hl⟩
      exact ⟨.som h, u + HIST, by rw [hpv, hdat], ht, by omega⟩

theorem done_polls (H : List Byte) (lo : Nat) (polls : List Nat) (S : AState) (hS : Done H lo S) :
    (runOps S (polls.map .poll)).2 = [] ∧ Done H lo (runOps S (polls.map .poll)).1 := by
  obtain ⟨h1, h2, h3⟩ := run_polls_quiet polls S hS.pend
  exact ⟨h1, h2, by rw [h3]; exact hS.prev, run_polls_hlen polls S hS.hlen⟩

/-- a burst that completes a StartOfMessage `H` meets an `Open` state: it takes the slot
    (replacing an error or the two-burst header), nothing is output yet -/
theorem open_burst_som (H : List Byte) (off lo : Nat) (S : AState) (b : List Byte) (now : Nat)
    (hnew : Header) (hne : b.isEmpty = false) (hS : Open H off lo S)
    (hc : combine MAXLEN ((historyAfter S b now).map (·.data)) = some (.ok (.som hnew)))
    (htext : hnew.text = H) :
    (stepOp S (.burst b now)).1.pending = some ⟨.ok (.som hnew), now + HOLD⟩
      ∧ ∀ r, (stepOp S (.burst b now)).2 ≠ .message r := by
  have hest : estimateOf S b now = some (.ok (.som hnew)) := by
    unfold estimateOf
    rw [hc]
    apply dedup_pass
    intro p hpp
    rcases prunePrevious_cases S.previous now with ⟨hn, _⟩ | ⟨hk, _⟩
    · rw [hn] at hpp; cases hpp
    · rw [hk] at hpp
      show p.data.text ≠ hnew.text
      rw [htext]; exact hS.prev p hpp
  have hpa : pendingAfter S b now = some ⟨.ok (.som hnew), now + HOLD⟩ := by
    unfold pendingAfter
    rw [hest]
    cases hp : S.pending with
    | none => rfl
    | some tm =>
      have hr : acceptReplaces tm.data (.ok (.som hnew)) = true := by
        rcases (hS.pend tm hp).2 with ⟨e, he⟩ | ⟨h, hd, _, _, hv⟩
        · rw [he]; rfl
        · rw [hd]; simp [acceptReplaces, hv]
      simp only [accept, hr, ↓reduceIte, acceptNew_som]
  obtain ⟨hs, hq⟩ := step_burst_pending S b now _ hne hpa (by have := HOLD_pos; simp only; omega)
  rw [hs]
  exact ⟨rfl, hq⟩

/-- a burst that completes a StartOfMessage `H` meets a `Done` state in which the report is still
    remembered: it is suppressed -/
theorem done_burst_som (H : List Byte) (lo : Nat) (S : AState) (b : List Byte) (now : Nat)
    (hnew : Header) (hne : b.isEmpty = false) (hS : Done H lo S)
    (hc : combine MAXLEN ((historyAfter S b now).map (·.data)) = some (.ok (.som hnew)))
    (htext : hnew.text = H) (hlive : now < lo + HIST) :
    (stepOp S (.burst b now)).1.pending = none
      ∧ ∀ r, (stepOp S (.burst b now)).2 ≠ .message r := by
  obtain ⟨m, d, hpv, hm, hd⟩ := hS.prev
  have hpp : prunePrevious S.previous now = some ⟨m, d⟩ := by
    have : ¬ (d ≤ now) := by omega
    simp [hpv, prunePrevious, Timed.expiredAt, this]
  have hest : estimateOf S b now = none := by
    unfold estimateOf
    rw [hc, hpp]
    have ht' : m.text = (Msg.som hnew).text := by rw [hm]; exact htext.symm
    simp [dedup, ht']
  have hpa : pendingAfter S b now = none := by
    unfold pendingAfter; rw [hest]; exact hS.pend
  obtain ⟨hs, hq⟩ := step_burst_none S b now hne hpa
  rw [hs]
  exact ⟨rfl, hq⟩

/-- **Polls, the third burst, polls.**  From an `Open` state: any polls up to `t3`, then a burst
    that, voted with what is stored, gives a StartOfMessage `H`, then polls of which one reaches
    `t3 + HOLD`.  Exactly one StartOfMessage is output in the stretch, and its text is `H`. -/
theorem finish_third (H : List Byte) (off lo : Nat) (S : AState) (b3 : List Byte) (t3 : Nat)
    (polls2 polls : List Nat) (h0 : List (Timed (List Byte))) (hnew : Header)
    (hS : Open H off lo S) (hne : b3.isEmpty = false)
    (hp2 : ∀ u ∈ polls2, u ≤ t3)
    (hh : pruneHistory S.history t3 = h0)
    (hc : combine MAXLEN (h0.map (·.data) ++ [b3.take MAXLEN]) = some (.ok (.som hnew)))
    (htext : hnew.text = H) (hoff : hnew.offsetTime = off)
    (hwin : t3 < lo + HIST)
    (hex : ∃ u ∈ polls, t3 + HOLD ≤ u) :
    ∃ u h, soms (runOps S (polls2.map .poll ++ .burst b3 t3 :: polls.map .poll)).2 = [(u, h)]
      ∧ h.text = H ∧ h.offsetTime = off := by
  have hh' : pruneHistory (runOps S (polls2.map .poll)).1.history t3 = h0 := by
    rw [(run_polls_prune polls2 t3 S hS.hlen hp2).1]; exact hh
  have hc' : combine MAXLEN ((historyAfter (runOps S (polls2.map .poll)).1 b3 t3).map (·.data))
      = some (.ok (.som hnew)) := by
    unfold historyAfter
    rw [hh', List.map_append]
    exact hc
  rw [runOps_append_snd, soms_append, runOps_cons_snd, soms_append]
  rcases open_polls H off lo polls2 S hS with ⟨ho, hO⟩ | ⟨u, h, _, ho, ht, hof, hD⟩
  · obtain ⟨hpend, hq⟩ := open_burst_som H off lo _ b3 t3 hnew hne hO hc' htext
    obtain ⟨u, _, _, hout, _, _⟩ := run_polls_release polls ⟨.ok (.som hnew), t3 + HOLD⟩ (.som hnew) rfl
      _ hpend hex
    refine ⟨u, hnew, ?_, htext, hoff⟩
    rw [ho, outOf_quiet _ _ hq, hout]
    rfl
  · obtain ⟨hpend, hq⟩ := done_burst_som H lo _ b3 t3 hnew hne hD hc' htext hwin
    obtain ⟨hout, _, _⟩ := run_polls_quiet polls _ hpend
    refine ⟨u, h, ?_, ht, hof⟩
    rw [ho, outOf_quiet _ _ hq, hout]
    rfl

/-! ### the first two bursts -/

/-- **Any first burst.**  From the initial state a non-empty burst is stored; nothing is held
    afterwards; the only possible output is an EndOfMessage in the same call. -/
theorem first_burst (b : List Byte) (t : Nat) (hne : b.isEmpty = false) :
    (stepOp {} (.burst b t)).1.history = [⟨b.take MAXLEN, t + HIST⟩]
      ∧ (stepOp {} (.burst b t)).1.pending = none
      ∧ (∀ p, (stepOp {} (.burst b t)).1.previous = some p → p.data = .eom)
      ∧ soms (outOf t (stepOp {} (.burst b t)).2) = [] := by
  have hist : historyAfter {} b t = [⟨b.take MAXLEN, t + HIST⟩] := by
    simp [historyAfter, pruneHistory_nil]
  have hfresh : pruneHistory [(⟨b.take MAXLEN, t + HIST⟩ : Timed (List Byte))] t
      = [⟨b.take MAXLEN, t + HIST⟩] :=
    prune_one_fresh _ _ (by have := HIST_pos; simp only; omega)
  rcases combine_single MAXLEN (b.take MAXLEN) with hc | hc
  · obtain ⟨hs, hq⟩ := burst_stored {} b t hne rfl rfl hc
    rw [hs, outOf_quiet _ _ hq]
    refine ⟨rfl, rfl, ?_, rfl⟩
    intro p hp
    simp [prunePrevious] at hp
  · have hest : estimateOf {} b t = some (.ok .eom) := by
      unfold estimateOf
      rw [hist]
      simp only [List.map_cons, List.map_nil, hc]
      rfl
    have hpa : pendingAfter {} b t = some ⟨.ok .eom, t⟩ := by
      unfold pendingAfter; rw [hest]; rfl
    have hs := step_burst_due {} b t ⟨.ok .eom, t⟩ .eom hne hpa rfl (Nat.le_refl _)
    rw [hs, hist, hfresh]
    refine ⟨rfl, rfl, ?_, rfl⟩
    intro p hp
    simp only [Option.some.injEq] at hp
    rw [← hp]

/-- **A burst while nothing is held** and nothing like `H` has been reported, whose estimate is
    not a foreign StartOfMessage: no StartOfMessage is output, and the state is `Open`. -/
theorem calm_burst_open (H : List Byte) (off lo : Nat) (S : AState) (b : List Byte) (now : Nat)
    (hne : b.isEmpty = false) (hpend : S.pending = none)
    (hprev : ∀ p, S.previous = some p → p.data.text ≠ H) (hHN : H ≠ litNNNN) (hlo : lo ≤ now)
    (hgood : GoodEst H off (combine MAXLEN ((historyAfter S b now).map (·.data)))) :
    soms (outOf now (stepOp S (.burst b now)).2) = [] ∧ Open H off lo (stepOp S (.burst b now)).1 := by
  have hl : (stepOp S (.burst b now)).1.history.length ≤ 2 := by
    rw [step_burst_history S b now hne]; exact pruneHistory_length_le _ _
  have hpv : ∀ p, prunePrevious S.previous now = some p → p.data.text ≠ H := by
    intro p hpp
    rcases prunePrevious_cases S.previous now with ⟨hn, _⟩ | ⟨hk, _⟩
    · rw [hn] at hpp; cases hpp
    · rw [hk] at hpp; exact hprev p hpp
  cases hest : estimateOf S b now with
  | none =>
    have hpa : pendingAfter S b now = none := by
      unfold pendingAfter; rw [hest]; exact hpend
    obtain ⟨hs, hq⟩ := step_burst_none S b now hne hpa
    refine ⟨by rw [outOf_quiet _ _ hq]; rfl, ?_, ?_, hl⟩
    · rw [hs]; exact hpv
    · rw [hs]; intro tm h; cases h
  | some r =>
    have hpa : pendingAfter S b now = some (acceptNew r now) := by
      unfold pendingAfter; rw [hest, hpend]; rfl
    cases r with
    | error e =>
      rw [acceptNew_error] at hpa
      obtain ⟨hs, hq⟩ := step_burst_pending S b now _ hne hpa (by have := HOLD_pos; simp only; omega)
      refine ⟨by rw [outOf_quiet _ _ hq]; rfl, ?_, ?_, hl⟩
      · rw [hs]; exact hpv
      · rw [hs]
        intro tm h
        simp only [Option.some.injEq] at h
        subst h
        exact ⟨by simp only; omega, Or.inl ⟨e, rfl⟩⟩
    | ok m =>
      cases m with
      | eom =>
        rw [acceptNew_eom'] at hpa
        have hs := step_burst_due S b now ⟨.ok .eom, now⟩ .eom hne hpa rfl (Nat.le_refl _)
        rw [hs] at hl ⊢
        refine ⟨rfl, ?_, ?_, hl⟩
        · intro p hp
          simp only [Option.some.injEq] at hp
          rw [← hp]
          exact fun h => hHN h.symm
        · intro tm h; cases h
      | som h =>
        rw [acceptNew_som] at hpa
        obtain ⟨hs, hq⟩ := step_burst_pending S b now _ hne hpa (by have := HOLD_pos; simp only; omega)
        have hr : combine MAXLEN ((historyAfter S b now).map (·.data)) = some (.ok (.som h)) := by
          unfold estimateOf at hest
          exact dedup_some _ _ _ hest
        obtain ⟨ht, ho, hv⟩ := hgood h hr
        refine ⟨by rw [outOf_quiet _ _ hq]; rfl, ?_, ?_, hl⟩
        · rw [hs]; exact hpv
        · rw [hs]
          intro tm h'
          simp only [Option.some.injEq] at h'
          subst h'
          exact ⟨by simp only; omega, Or.inr ⟨h, rfl, ht, ho, hv⟩⟩

/-- **Two non-empty bursts from the initial state**, any polls in between.  If the two-burst vote
    is not a foreign StartOfMessage, no StartOfMessage is output up to and including the second
    burst's call, both bursts are stored, and the state is `Open`. -/
theorem first_two (H : List Byte) (off : Nat) (b1 b2 : List Byte) (t1 t2 : Nat) (polls1 : List Nat)
    (hne1 : b1.isEmpty = false) (hne2 : b2.isEmpty = false) (hHN : H ≠ litNNNN)
    (h12 : t1 ≤ t2) (h21 : t2 < t1 + HIST) (hp1 : ∀ u ∈ polls1, u ≤ t2)
    (hgood : GoodEst H off (combine MAXLEN [b1.take MAXLEN, b2.take MAXLEN])) :
    ∃ S2 out,
      (∀ rest, (runOps {} (.burst b1 t1 :: (polls1.map .poll ++ .burst b2 t2 :: rest))).2
          = out ++ (runOps S2 rest).2)
      ∧ soms out = [] ∧ Open H off t1 S2
      ∧ S2.history = [⟨b1.take MAXLEN, t1 + HIST⟩, ⟨b2.take MAXLEN, t2 + HIST⟩] := by
  obtain ⟨hh1, hpn1, hpv1, ho1⟩ := first_burst b1 t1 hne1
  generalize hS1 : (stepOp {} (.burst b1 t1)).1 = S1 at hh1 hpn1 hpv1
  generalize hO1 : outOf t1 (stepOp {} (.burst b1 t1)).2 = out1 at ho1
  -- the polls between the bursts
  obtain ⟨hq, hpn, hpv⟩ := run_polls_quiet polls1 S1 hpn1
  have hhp : pruneHistory (runOps S1 (polls1.map .poll)).1.history t2 = [⟨b1.take MAXLEN, t1 + HIST⟩] := by
    rw [(run_polls_prune polls1 t2 S1 (by rw [hh1]; simp) hp1).1, hh1]
    exact prune_one_fresh _ _ (by simp only; omega)
  generalize hS1' : (runOps S1 (polls1.map .poll)).1 = S1' at hpn hpv hhp
  -- the second burst
  have hha : historyAfter S1' b2 t2
      = [⟨b1.take MAXLEN, t1 + HIST⟩, ⟨b2.take MAXLEN, t2 + HIST⟩] := by
    unfold historyAfter; rw [hhp]; rfl
  have hprev : ∀ p, S1'.previous = some p → p.data.text ≠ H := by
    intro p hp
    rw [hpv] at hp
    rw [hpv1 p hp]
    exact fun h => hHN h.symm
  obtain ⟨ho2, hO2⟩ := calm_burst_open H off t1 S1' b2 t2 hne2 hpn hprev hHN h12
    (by rw [hha]; exact hgood)
  have hh2 : (stepOp S1' (.burst b2 t2)).1.history
      = [⟨b1.take MAXLEN, t1 + HIST⟩, ⟨b2.take MAXLEN, t2 + HIST⟩] := by
    rw [step_burst_history S1' b2 t2 hne2, hha]
    exact prune_two_fresh _ _ _ (by simp only; omega) (by have := HIST_pos; simp only; omega)
  refine ⟨(stepOp S1' (.burst b2 t2)).1, out1 ++ outOf t2 (stepOp S1' (.burst b2 t2)).2, ?_, ?_, hO2, hh2⟩
  · intro rest
    rw [runOps_cons_snd]
    simp only [AOp.time]
    rw [hO1, hS1, runOps_append_snd, hq, hS1', List.nil_append, runOps_cons_snd, List.append_assoc]
    rfl
  · rw [soms_append, ho1, ho2]; rfl

/-- **Two equal header bursts, any polls** between them and after them, the last one at or after
    `tb + HOLD`: the two-burst header is output exactly once, and nothing else is. -/
theorem two_equal_polls (H : List Byte) (off ta tb t : Nat) (pa pb : List Nat)
    (hcan : checkHeader H = some (off, H.length))
    (hfit : H.length ≤ MAXLEN)
    (hc2 : combine MAXLEN [H, H] = some (.ok (.som ⟨H, off, 0, 0⟩)))
    (hab : tb < ta + HIST) (hpa : ∀ u ∈ pa, u ≤ tb) (ht : tb + HOLD ≤ t) :
    ∃ u, (runOps {} (.burst H ta :: (pa.map .poll ++ .burst H tb :: (pb.map .poll ++ [.poll t])))).2
      = [(u, .ok (.som ⟨H, off, 0, 0⟩))] := by
  have hne : H.isEmpty = false := by
    have := ne_nil_of_checkHeader H _ hcan
    cases H with
    | nil => exact absurd rfl this
    | cons _ _ => rfl
  obtain ⟨S2, hrun, _, hpend, _⟩ := two_bursts_held {} H ta tb ⟨H, off, 0, 0⟩ pa hne hfit
    (combine_single_header _ _ _ hcan) hc2 rfl rfl (by intro p hp; cases hp) hab hpa
  have hops : pb.map AOp.poll ++ [.poll t] = (pb ++ [t]).map AOp.poll := by simp
  obtain ⟨u, _, _, hout, _, _⟩ := run_polls_release (pb ++ [t]) ⟨.ok (.som ⟨H, off, 0, 0⟩), tb + HOLD⟩
    (.som ⟨H, off, 0, 0⟩) rfl S2 hpend ⟨t, by simp, ht⟩
  exact ⟨u, by rw [hrun, hops, hout]⟩

end SameVerif.Asm
