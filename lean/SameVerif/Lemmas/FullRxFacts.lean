/-
  Helper definitions and lemmas for the theorems about the whole-receiver model
  (`Model/FullRx.lean`): Thm/FullRx.lean.
-/
import SameVerif.Model.FullRx
import SameVerif.Model.Chain
import SameVerif.Lemmas.DspLaws
import SameVerif.Lemmas.LinkRun
import SameVerif.Lemmas.ReceiverFacts

namespace SameVerif.FullRxAux
open SameVerif

/-! ### `lstep` by cases

  (The same decomposition as in Lemmas/LinkInv.lean, which cannot be imported together with
  Lemmas/LinkRun.lean — the two families share lemma names.  Kept in its own namespace.) -/

def hitOf (c : LCfg) (s : LState) (o : Obs) : Bool :=
  !s.lock && decide (popcount32 (SYNC_WORD ^^^ corrPush s.corr o.bit) ≤ c.maxErrors) && o.openOk

def droppedOf (c : LCfg) (s : LState) (o : Obs) : Bool :=
  !hitOf c s o && s.clock.isSome && !((push32 s.pwr o.closeOk).headD true)

def baseOf (s : LState) (o : Obs) : LState :=
  { s with corr := corrPush s.corr o.bit, pwr := push32 s.pwr o.closeOk, nsym := s.nsym + 1 }

def endTick (s1 : LState) : LState × LinkSt × Option Bool :=
  ({ s1 with fr := (fend s1.fr).1 }, (fend s1.fr).2, none)

def byteTick (c : LCfg) (s1 : LState) (adjusted : Bool) (eqByte : Byte) :
    LState × LinkSt × Option Bool :=
  let train := if adjusted then 4 else s1.train
  let byte := if train > 0 then PREAMBLE_BYTE else eqByte
  let r := finput c.fc s1.fr byte adjusted
  let s2 : LState := { s1 with clock := some 1, train := train - 1, fr := r.1 }
  match r.2 with
  | .reading => ({ s2 with lock := true }, r.2, some adjusted)
  | .noCarrier => (s2.endRx, r.2, some adjusted)
  | .burst _ => (s2.endRx, r.2, some adjusted)
  | .searching => (s2, r.2, some adjusted)

def adjOf : Option Nat → Bool
  | some 0 => false
  | _ => true

theorem lstep_eq (c : LCfg) (s : LState) (o : Obs) (b : Byte) :
    lstep c s o b =
      if s.nsym + 1 < 32 then endTick (baseOf s o)
      else if hitOf c s o then byteTick c (baseOf s o) (adjOf s.clock) b
      else if droppedOf c s o then endTick (baseOf s o).endRx
      else match s.clock with
        | none => endTick (baseOf s o)
        | some 0 => byteTick c (baseOf s o) false b
        | some (k + 1) => ({ baseOf s o with clock := some ((k + 2) % 8) }, fstate s.fr, none) := by
  unfold lstep droppedOf hitOf baseOf corrPush
  dsimp only
  generalize ((if o.bit = true then (1 : UInt32) else 0) <<< 31) = bitv
  generalize (!s.lock && decide (popcount32 (SYNC_WORD ^^^ (s.corr >>> 1 ||| bitv)) ≤ c.maxErrors) && o.openOk) = hit
  by_cases hw : s.nsym + 1 < 32
  · simp [hw, endTick]
  · simp only [hw, ↓reduceIte]
    cases hit with
    | true =>
      simp only [Bool.not_true, Bool.false_and, Bool.false_eq_true, ↓reduceIte]
      rcases hc : s.clock with _ | k
      · simp [byteTick, LState.endRx, adjOf]
        split <;> simp_all
      · cases k with
        | zero => simp [byteTick, LState.endRx, adjOf]; split <;> simp_all
        | succ k => simp [byteTick, LState.endRx, adjOf]; split <;> simp_all
    | false =>
      simp only [Bool.not_false, Bool.true_and, Bool.false_eq_true, ↓reduceIte]
      by_cases hd : (s.clock.isSome && !(push32 s.pwr o.closeOk).headD true) = true
      · simp only [hd, ↓reduceIte, endTick, LState.endRx]
      · simp only [hd]
        rcases hc : s.clock with _ | k
        · simp [endTick]
        · cases k with
          | zero => simp [byteTick, LState.endRx]; split <;> simp_all
          | succ k => simp

theorem byteTick_flag (c : LCfg) (s1 : LState) (adj : Bool) (b : Byte) :
    (byteTick c s1 adj b).2.2 = some adj := by
  unfold byteTick
  dsimp only
  split <;> rfl

end SameVerif.FullRxAux

namespace SameVerif
open FullRxAux

/-! ### G1: `lstep` looks at the byte only at byte ticks -/

theorem lstep_bytetick_indep (c : LCfg) (s : LState) (o : Obs) (b b' : Byte) :
    (lstep c s o b).2.2 = (lstep c s o b').2.2 := by
  rw [lstep_eq, lstep_eq]
  split
  · rfl
  · split
    · rw [byteTick_flag, byteTick_flag]
    · split
      · rfl
      · split
        · rfl
        · rw [byteTick_flag, byteTick_flag]
        · rfl

theorem lstep_byte_irrelevant (c : LCfg) (s : LState) (o : Obs) (b b' : Byte) :
    (lstep c s o b).2.2 = none → lstep c s o b' = lstep c s o b := by
  rw [lstep_eq, lstep_eq]
  split
  · intro _; rfl
  · split
    · rw [byteTick_flag]; intro h; cases h
    · split
      · intro _; rfl
      · split
        · intro _; rfl
        · rw [byteTick_flag]; intro h; cases h
        · intro _; rfl

end SameVerif

namespace SameVerif.Dsp
open Arith

section Refine
variable {F : Type} [Arith F]

/-! ### G2: what the float part hands to the discrete part at one symbol -/

/-- the observation the squelch derives from the symbol estimate: sign of the soft symbol, and the
    tracked power (after this symbol) against the two thresholds -/
def FullRx.obsOf (r : FullRx F) (s : SymEst F) : Obs :=
  ⟨ge s.sym zero, ge (r.pt.track s.sym).power r.cfg.powerOpen, ge (r.pt.track s.sym).power r.cfg.powerClose⟩

/-- the sample history after this symbol's two samples (at most 64, newest last) -/
def FullRx.histOf (r : FullRx F) (s : SymEst F) : List F :=
  (r.hist ++ [s.zero, s.sym]).drop ((r.hist ++ [s.zero, s.sym]).length - 64)

/-- the equalizer as it is when it gets the byte's samples: retrained first at a resynchronisation -/
def FullRx.eqAt (r : FullRx F) (adjusted : Bool) : Equalizer F :=
  if adjusted then r.eq.train else r.eq

/-- the byte the equalizer decides at this symbol if it is a byte tick, `0` otherwise
    (`lstep` does not look at it then: `lstep_byte_irrelevant`) -/
def FullRx.byteOf (r : FullRx F) (s : SymEst F) : Byte :=
  match (lstep r.cfg.lcfg r.link (r.obsOf s) 0).2.2 with
  | none => 0
  | some adjusted => ((r.eqAt adjusted).input ((r.histOf s).take 16)).2

/-- the tick the discrete chain is fed at this symbol -/
def FullRx.tickOf (r : FullRx F) (s : SymEst F) : Tick := (r.obsOf s, r.byteOf s)

/-- the link model's step at this symbol -/
def FullRx.linkStep (r : FullRx F) (s : SymEst F) : LState × LinkSt × Option Bool :=
  lstep r.cfg.lcfg r.link (r.obsOf s) (r.byteOf s)

theorem FullRx.endDsp_fields (r : FullRx F) :
    r.endDsp.cfg = r.cfg ∧ r.endDsp.link = r.link ∧ r.endDsp.rx = r.rx ∧
    r.endDsp.inputCounter = r.inputCounter ∧ r.endDsp.dc = r.dc ∧ r.endDsp.demod = r.demod ∧
    r.endDsp.tedClock = r.tedClock ∧ r.endDsp.untilNext = r.untilNext :=
  ⟨rfl, rfl, rfl, rfl, rfl, rfl, rfl, rfl⟩

/-- first half of `FullRx.symbol`, verbatim: squelch bookkeeping, probe, equalizer; yields the float
    state and the result of `lstep` -/
def FullRx.pre (r : FullRx F) (s : SymEst F) : FullRx F × (LState × LinkSt × Option Bool) :=
  let hist := let h := r.hist ++ [s.zero, s.sym]; h.drop (h.length - 64)
  let pt := r.pt.track s.sym
  let o : Obs := ⟨ge s.sym zero, ge pt.power r.cfg.powerOpen, ge pt.power r.cfg.powerClose⟩
  let r := { r with hist, pt }
  let probe := lstep r.cfg.lcfg r.link o 0
  match probe.2.2 with
  | none => (r, probe)
  | some adjusted =>
    let r := if adjusted then
        { r with agc := r.agc.lock true, tl := r.tl.setGains r.cfg.alphaL r.cfg.betaL, eq := r.eq.train }
      else r
    let (eq, byte) := r.eq.input (r.hist.take 16)
    ({ r with eq }, lstep r.cfg.lcfg r.link o byte)

/-- second half of `FullRx.symbol`, verbatim: `end()`, transport layer, events -/
def FullRx.post (p : FullRx F × (LState × LinkSt × Option Bool)) : FullRx F × List Event :=
  let (r, res) := p
  let ended := r.link.clock.isSome && res.1.clock.isNone
  let r := { r with link := res.1 }
  let r := if ended then r.endDsp else r
  let (rx, evs) := rTick r.cfg.rate r.rx r.inputCounter r.link.nsym res.2.1
  ({ r with rx }, evs)

theorem FullRx.symbol_eq (r : FullRx F) (s : SymEst F) : r.symbol s = FullRx.post (r.pre s) := by
  unfold FullRx.symbol FullRx.post FullRx.pre
  rfl

/-- the first half hands `lstep` exactly `(obsOf, byteOf)`; of the float state it touches the
    history, the power tracker, the equalizer and — at a resynchronisation — the AGC lock and the
    loop gains -/
theorem FullRx.pre_spec (r : FullRx F) (s : SymEst F) :
    (r.pre s).2 = r.linkStep s ∧ (r.pre s).1.cfg = r.cfg ∧ (r.pre s).1.link = r.link ∧
    (r.pre s).1.rx = r.rx ∧ (r.pre s).1.inputCounter = r.inputCounter ∧
    (r.pre s).1.dc = r.dc ∧ (r.pre s).1.demod = r.demod ∧
    (r.pre s).1.tedClock = r.tedClock ∧ (r.pre s).1.untilNext = r.untilNext ∧
    ((r.pre s).1.agc = r.agc ∨ (r.pre s).1.agc = r.agc.lock true) ∧
    ((r.pre s).1.tl = r.tl ∨ (r.pre s).1.tl = r.tl.setGains r.cfg.alphaL r.cfg.betaL) := by
  unfold FullRx.pre FullRx.linkStep FullRx.byteOf FullRx.eqAt FullRx.histOf FullRx.obsOf
  dsimp only
  cases h : (lstep r.cfg.lcfg r.link
      ⟨ge s.sym zero, ge (r.pt.track s.sym).power r.cfg.powerOpen,
        ge (r.pt.track s.sym).power r.cfg.powerClose⟩ 0).2.2 with
  | none => simp only [true_or, and_self]
  | some adj =>
    cases adj
    · simp only [Bool.false_eq_true, ↓reduceIte, true_or, and_self]
    · simp only [↓reduceIte, or_true, and_self]

theorem FullRx.post_spec (p : FullRx F × (LState × LinkSt × Option Bool)) :
    (FullRx.post p).1.link = p.2.1 ∧
    (FullRx.post p).2 = (rTick p.1.cfg.rate p.1.rx p.1.inputCounter p.2.1.nsym p.2.2.1).2 ∧
    (FullRx.post p).1.rx = (rTick p.1.cfg.rate p.1.rx p.1.inputCounter p.2.1.nsym p.2.2.1).1 ∧
    (FullRx.post p).1.cfg = p.1.cfg ∧ (FullRx.post p).1.inputCounter = p.1.inputCounter ∧
    (FullRx.post p).1.dc = p.1.dc ∧ (FullRx.post p).1.demod = p.1.demod ∧
    (FullRx.post p).1.tedClock = p.1.tedClock ∧ (FullRx.post p).1.untilNext = p.1.untilNext ∧
    ((FullRx.post p).1.agc = p.1.agc ∨ (FullRx.post p).1.agc = p.1.agc.lock false) ∧
    ((FullRx.post p).1.tl = p.1.tl ∨
      (FullRx.post p).1.tl = (p.1.tl.setGains p.1.cfg.alphaU p.1.cfg.betaU).reset) := by
  obtain ⟨r, res⟩ := p
  unfold FullRx.post
  dsimp only
  cases (r.link.clock.isSome && res.1.clock.isNone)
  · simp only [Bool.false_eq_true, ↓reduceIte, true_or, and_self]
  · simp only [↓reduceIte, FullRx.endDsp, or_true, and_self]

/-- **G2.** One symbol of the whole-receiver model is one `lstep` followed by one `rTick`, on the
    observation and byte the float part produced. -/
theorem FullRx.symbol_refines (r : FullRx F) (s : SymEst F) :
    (r.symbol s).1.link = (r.linkStep s).1 ∧
    (r.symbol s).2 = (rTick r.cfg.rate r.rx r.inputCounter (r.linkStep s).1.nsym (r.linkStep s).2.1).2 ∧
    (r.symbol s).1.rx = (rTick r.cfg.rate r.rx r.inputCounter (r.linkStep s).1.nsym (r.linkStep s).2.1).1 ∧
    (r.symbol s).1.cfg = r.cfg ∧ (r.symbol s).1.inputCounter = r.inputCounter := by
  obtain ⟨a1, a2, a3, a4, a5, _⟩ := FullRx.post_spec (r.pre s)
  obtain ⟨b1, b2, _, b4, b5, _⟩ := FullRx.pre_spec r s
  rw [FullRx.symbol_eq]
  rw [b1, b2, b4, b5] at a2 a3
  exact ⟨a1.trans (by rw [b1]), a2, a3, a4.trans b2, a5.trans b5⟩

end Refine

/-! ### event timestamps -/

end SameVerif.Dsp

namespace SameVerif

/-- the input sample counter an event carries -/
def Event.stamp : Event → Nat
  | .link n _ => n
  | .transport n _ => n

theorem rTick_stamp (rate : Nat) (s : RState) (sample sym : Nat) (ls : LinkSt) :
    ∀ e ∈ (rTick rate s sample sym ls).2, e.stamp = sample := by
  rw [rTick_eq]
  intro e he
  simp only [List.mem_append] at he
  rcases he with he | he
  · unfold linkEv at he
    split at he
    · simp only [List.mem_singleton] at he; subst he; rfl
    · cases he
  · unfold trEv at he
    split at he
    · split at he
      · cases he
      · simp only [List.mem_singleton] at he; subst he; rfl
    · cases he

end SameVerif

namespace SameVerif.Dsp
open Arith

section Front
variable {F : Type} [Arith F] [Hypot F]

/-! ### `sample` = float front end, then the discrete step -/

/-- the float front end of `FullRx.sample`, verbatim up to the call of `symbol`: the state in
    which `symbol` would be called and the symbol estimate, if the timing loop produced one -/
def FullRx.front (r : FullRx F) (x : F) : Option (FullRx F × Option (SymEst F)) :=
  match r.dc.filter x with
  | none => none
  | some (dc, y) =>
    match r.agc.input y with
    | none => none
    | some (agc, sa) =>
      let r := { r with dc, agc, demod := r.demod.push sa, tedClock := r.tedClock + 1, inputCounter := r.inputCounter + 1 }
      if clockFires r.untilNext r.tedClock then
        let rem := clockRemaining r.untilNext r.tedClock
        let r := { r with tedClock := 0 }
        match r.demod.demod with
        | none => none
        | some saLow =>
          match r.tl.input saLow rem with
          | none => none
          | some (tl, untilNext, sym) => some ({ r with tl, untilNext }, sym)
      else some (r, none)

/-- the discrete step, if there is a symbol -/
def FullRx.finish (p : FullRx F × Option (SymEst F)) : FullRx F × List Event :=
  match p.2 with
  | none => (p.1, [])
  | some s => p.1.symbol s

theorem FullRx.sample_eq (r : FullRx F) (x : F) : r.sample x = (r.front x).map FullRx.finish := by
  unfold FullRx.sample FullRx.front
  cases r.dc.filter x with
  | none => rfl
  | some p =>
    obtain ⟨dc, y⟩ := p
    dsimp only
    cases r.agc.input y with
    | none => rfl
    | some p =>
      obtain ⟨agc, sa⟩ := p
      dsimp only
      cases clockFires r.untilNext (r.tedClock + 1) with
      | false => rfl
      | true =>
        simp only [↓reduceIte]
        cases (r.demod.push sa).demod with
        | none => rfl
        | some saLow =>
          dsimp only
          cases r.tl.input saLow (clockRemaining r.untilNext (r.tedClock + 1)) with
          | none => rfl
          | some p =>
            obtain ⟨tl, u, sym⟩ := p
            cases sym <;> rfl

/-- what the front end leaves alone; the components it runs are characterised separately -/
theorem FullRx.front_spec {r q : FullRx F} {x : F} {sym : Option (SymEst F)}
    (h : r.front x = some (q, sym)) :
    q.cfg = r.cfg ∧ q.link = r.link ∧ q.rx = r.rx ∧ q.inputCounter = r.inputCounter + 1 := by
  unfold FullRx.front at h
  cases h1 : r.dc.filter x with
  | none => rw [h1] at h; cases h
  | some p =>
    obtain ⟨dc, y⟩ := p
    rw [h1] at h
    dsimp only at h
    cases h2 : r.agc.input y with
    | none => rw [h2] at h; cases h
    | some p =>
      obtain ⟨agc, sa⟩ := p
      rw [h2] at h
      dsimp only at h
      cases h3 : clockFires r.untilNext (r.tedClock + 1) with
      | false => 
        rw [h3] at h
        simp only [Bool.false_eq_true, ↓reduceIte, Option.some.injEq, Prod.mk.injEq] at h
        obtain ⟨rfl, _⟩ := h
        exact ⟨rfl, rfl, rfl, rfl⟩
      | true =>
        rw [h3] at h
        simp only [↓reduceIte] at h
        cases h4 : (r.demod.push sa).demod with
        | none => rw [h4] at h; cases h
        | some saLow =>
          rw [h4] at h
          dsimp only at h
          cases h5 : r.tl.input saLow (clockRemaining r.untilNext (r.tedClock + 1)) with
          | none => rw [h5] at h; cases h
          | some p =>
            obtain ⟨tl, u, sym'⟩ := p
            rw [h5] at h
            simp only [Option.some.injEq, Prod.mk.injEq] at h
            obtain ⟨rfl, _⟩ := h
            exact ⟨rfl, rfl, rfl, rfl⟩

end Front

/-! ### G5: the input sample counter and the event timestamps -/

section G5
variable {F : Type} [Arith F] [Hypot F]

/-- `sample` through `front`: the three ways a sample can end -/
theorem FullRx.sample_cases {r r' : FullRx F} {x : F} {evs : List Event}
    (h : r.sample x = some (r', evs)) :
    ∃ q sym, r.front x = some (q, sym) ∧
      ((sym = none ∧ r' = q ∧ evs = []) ∨ (∃ s, sym = some s ∧ q.symbol s = (r', evs))) := by
  rw [FullRx.sample_eq] at h
  cases hf : r.front x with
  | none => rw [hf] at h; cases h
  | some p =>
    obtain ⟨q, sym⟩ := p
    rw [hf] at h
    simp only [Option.map_some, Option.some.injEq] at h
    refine ⟨q, sym, rfl, ?_⟩
    cases sym with
    | none =>
      simp only [FullRx.finish, Prod.mk.injEq] at h
      exact Or.inl ⟨rfl, h.1.symm, h.2.symm⟩
    | some s => exact Or.inr ⟨s, rfl, h⟩

theorem FullRx.sample_counter {r r' : FullRx F} {x : F} {evs : List Event}
    (h : r.sample x = some (r', evs)) :
    r'.inputCounter = r.inputCounter + 1 ∧ ∀ e ∈ evs, e.stamp = r.inputCounter + 1 := by
  obtain ⟨q, sym, hf, hc⟩ := FullRx.sample_cases h
  obtain ⟨_, _, _, hq⟩ := FullRx.front_spec hf
  rcases hc with ⟨_, rfl, rfl⟩ | ⟨s, _, hs⟩
  · exact ⟨hq, fun e he => by cases he⟩
  · obtain ⟨_, a2, _, _, a5⟩ := FullRx.symbol_refines q s
    rw [hs] at a2 a5
    dsimp only at a2 a5
    refine ⟨a5.trans hq, ?_⟩
    intro e he
    rw [a2] at he
    rw [← hq]
    exact rTick_stamp _ _ _ _ _ e he

theorem FullRx.run_timestamps (xs : List F) : ∀ (r r' : FullRx F) (evs : List Event),
    FullRx.run r xs = some (r', evs) →
    r'.inputCounter = r.inputCounter + xs.length ∧
    (∀ e ∈ evs, r.inputCounter < e.stamp ∧ e.stamp ≤ r.inputCounter + xs.length) ∧
    evs.Pairwise (fun a b => a.stamp ≤ b.stamp) := by
  induction xs with
  | nil =>
    intro r r' evs h
    simp only [FullRx.run, Option.some.injEq, Prod.mk.injEq] at h
    obtain ⟨rfl, rfl⟩ := h
    exact ⟨rfl, fun e he => (by cases he), List.Pairwise.nil⟩
  | cons x xs ih =>
    intro r r' evs h
    unfold FullRx.run at h
    cases h1 : r.sample x with
    | none => rw [h1] at h; cases h
    | some p =>
      obtain ⟨r1, ev⟩ := p
      rw [h1] at h
      dsimp only at h
      cases h2 : FullRx.run r1 xs with
      | none => rw [h2] at h; cases h
      | some p =>
        obtain ⟨r2, evs'⟩ := p
        rw [h2] at h
        simp only [Option.some.injEq, Prod.mk.injEq] at h
        obtain ⟨rfl, rfl⟩ := h
        obtain ⟨c1, s1⟩ := FullRx.sample_counter h1
        obtain ⟨c2, s2, p2⟩ := ih r1 r2 evs' h2
        refine ⟨by rw [c2, c1, List.length_cons]; omega, ?_, ?_⟩
        · intro e he
          rw [List.length_cons]
          rcases List.mem_append.1 he with he | he
          · rw [s1 e he]; omega
          · have := s2 e he; omega
        · rw [List.pairwise_append]
          refine ⟨?_, p2, ?_⟩
          · rw [List.pairwise_iff_forall_sublist]
            intro a b hab
            have ha := s1 a (hab.subset (by simp))
            have hb := s1 b (hab.subset (by simp))
            omega
          · intro a ha b hb
            have := s1 a ha
            have := s2 b hb
            omega
end G5

/-! ### G4: the whole receiver never panics -/

section G4
variable {F : Type} [Arith F] [OrderLaws F]

/-- the invariant of a running whole receiver: the three components that can panic are inside
    their own invariants (Lemmas/DspLaws.lean) -/
structure RxInv (len : Nat) (lo hi bw spt pmin pmax : F) (r : FullRx F) : Prop where
  dc : DcInv len r.dc
  agc : AgcInv lo hi bw r.agc
  tl : TlInv spt pmin pmax r.tl

/-- the demodulator's `clamp(_, -1, 1)` cannot panic -/
theorem Demod.demod_total [Hypot F] (d : Demod F) : ∃ y, d.demod = some y :=
  clamp_isSome_of_le (OrderLaws.neg_one_le_one (F := F))

theorem PowerTracker.new_total (bw : F) : ∃ p, PowerTracker.new bw = some p := by
  obtain ⟨b, h⟩ := clamp_isSome_of_le (x := bw) (OrderLaws.zero_le_one (F := F))
  exact ⟨⟨b, zero⟩, by simp [PowerTracker.new, h]⟩

theorem FullRx.front_total [Hypot F] {len : Nat} {lo hi bw spt pmin pmax : F} {r : FullRx F}
    (hinv : RxInv len lo hi bw spt pmin pmax r) (hl : 0 < len) (hle : le lo hi = true)
    (h1 : le pmin spt = true) (h2 : le spt pmax = true) (x : F) :
    ∃ q sym, r.front x = some (q, sym) ∧ RxInv len lo hi bw spt pmin pmax q := by
  obtain ⟨dc, y, e1, i1⟩ := dcInv_filter hinv.dc hl x
  obtain ⟨agc, sa, e2, i2, _⟩ := agcInv_input hinv.agc hle y
  unfold FullRx.front
  rw [e1]; dsimp only; rw [e2]; dsimp only
  cases clockFires r.untilNext (r.tedClock + 1) with
  | false =>
    simp only [Bool.false_eq_true, ↓reduceIte]
    exact ⟨_, _, rfl, ⟨i1, i2, hinv.tl⟩⟩
  | true =>
    simp only [↓reduceIte]
    obtain ⟨saLow, e3⟩ := Demod.demod_total (r.demod.push sa)
    rw [e3]; dsimp only
    obtain ⟨tl, e4, i4, _⟩ := tl_input_inv hinv.tl (le_trans' h1 h2) saLow
      (clockRemaining r.untilNext (r.tedClock + 1))
    rw [e4]
    exact ⟨_, _, rfl, ⟨i1, i2, i4⟩⟩

omit [OrderLaws F] in
theorem FullRx.symbol_inv {len : Nat} {lo hi bw spt pmin pmax : F} {r : FullRx F}
    (hinv : RxInv len lo hi bw spt pmin pmax r) (h1 : le pmin spt = true) (h2 : le spt pmax = true)
    (s : SymEst F) : RxInv len lo hi bw spt pmin pmax (r.symbol s).1 := by
  obtain ⟨_, _, _, _, _, a6, _, _, _, a10, a11⟩ := FullRx.post_spec (r.pre s)
  obtain ⟨_, _, _, _, _, b6, _, _, _, b10, b11⟩ := FullRx.pre_spec r s
  rw [FullRx.symbol_eq]
  have hagc : AgcInv lo hi bw (r.pre s).1.agc := by
    rcases b10 with e | e <;> rw [e]
    · exact hinv.agc
    · exact agcInv_lock hinv.agc true
  have htl : TlInv spt pmin pmax (r.pre s).1.tl := by
    rcases b11 with e | e <;> rw [e]
    · exact hinv.tl
    · exact tl_setGains_inv hinv.tl _ _
  refine ⟨by rw [a6, b6]; exact hinv.dc, ?_, ?_⟩
  · rcases a10 with e | e <;> rw [e]
    · exact hagc
    · exact agcInv_lock hagc false
  · rcases a11 with e | e <;> rw [e]
    · exact htl
    · exact tl_reset_inv (tl_setGains_inv htl _ _) h1 h2

theorem FullRx.sample_total [Hypot F] {len : Nat} {lo hi bw spt pmin pmax : F} {r : FullRx F}
    (hinv : RxInv len lo hi bw spt pmin pmax r) (hl : 0 < len) (hle : le lo hi = true)
    (h1 : le pmin spt = true) (h2 : le spt pmax = true) (x : F) :
    ∃ r' evs, r.sample x = some (r', evs) ∧ RxInv len lo hi bw spt pmin pmax r' := by
  obtain ⟨q, sym, e, hq⟩ := FullRx.front_total hinv hl hle h1 h2 x
  rw [FullRx.sample_eq, e]
  cases sym with
  | none => exact ⟨q, [], rfl, hq⟩
  | some s => exact ⟨(q.symbol s).1, (q.symbol s).2, rfl, FullRx.symbol_inv hq h1 h2 s⟩

theorem FullRx.run_total [Hypot F] {len : Nat} {lo hi bw spt pmin pmax : F}
    (hl : 0 < len) (hle : le lo hi = true) (h1 : le pmin spt = true) (h2 : le spt pmax = true)
    (xs : List F) : ∀ r : FullRx F, RxInv len lo hi bw spt pmin pmax r →
    ∃ r' evs, FullRx.run r xs = some (r', evs) ∧ RxInv len lo hi bw spt pmin pmax r' := by
  induction xs with
  | nil => intro r h; exact ⟨r, [], rfl, h⟩
  | cons x xs ih =>
    intro r h
    obtain ⟨r1, ev, e1, i1⟩ := FullRx.sample_total h hl hle h1 h2 x
    obtain ⟨r2, evs, e2, i2⟩ := ih r1 i1
    exact ⟨r2, ev ++ evs, by simp only [FullRx.run, e1, e2], i2⟩

/-- `FullRx.new` spelled out -/
theorem FullRx.new_some {c : RxCfg F} (hl : 0 < c.dcLen) :
    ∃ dc agc tl pt, DcBlock.new c.dcLen = some dc ∧ Agc.new c.agcBw c.agcMin c.agcMax = some agc ∧
      TimingLoop.new c.sps c.alphaU c.betaU c.maxDev = some tl ∧ PowerTracker.new c.squelchBw = some pt ∧
      FullRx.new c = some ⟨c, dc, agc, Demod.new c.mark c.space, tl, 0, tl.samplesPerTed, 0, pt, [],
          Equalizer.new c.nff c.nfb c.relax c.reg SYNC_WORD, {}, {}⟩ := by
  obtain ⟨_, _, e2⟩ := agc_new_some c.agcBw c.agcMin c.agcMax
  obtain ⟨_, _, e3⟩ := tl_new_some c.sps c.alphaU c.betaU c.maxDev
  obtain ⟨pt, e4⟩ := PowerTracker.new_total c.squelchBw
  refine ⟨_, _, _, pt, dc_new_some hl, e2, e3, e4, ?_⟩
  unfold FullRx.new
  rw [dc_new_some hl, e2, e3, e4]

theorem FullRx.new_none_iff (c : RxCfg F) : FullRx.new c = none ↔ c.dcLen = 0 := by
  constructor
  · intro h
    cases hn : c.dcLen with
    | zero => rfl
    | succ n =>
      obtain ⟨_, _, _, _, _, _, _, _, e⟩ := FullRx.new_some (c := c) (by omega)
      rw [e] at h; cases h
  · intro h
    unfold FullRx.new
    rw [(dc_new_none_iff' c.dcLen).2 h]

theorem FullRx.new_inv {c : RxCfg F} {r0 : FullRx F} (h : FullRx.new c = some r0)
    (hle : le c.agcMin c.agcMax = true)
    (h1 : le r0.tl.periodMin r0.tl.samplesPerTed = true)
    (h2 : le r0.tl.samplesPerTed r0.tl.periodMax = true) :
    0 < c.dcLen ∧
    RxInv c.dcLen c.agcMin c.agcMax r0.agc.bandwidth r0.tl.samplesPerTed r0.tl.periodMin r0.tl.periodMax r0 ∧
    r0.cfg = c ∧ r0.link = {} ∧ r0.rx = {} ∧ r0.inputCounter = 0 := by
  have hl : 0 < c.dcLen := by
    cases hn : c.dcLen with
    | zero => rw [(FullRx.new_none_iff c).2 hn] at h; cases h
    | succ n => omega
  obtain ⟨dc, agc, tl, pt, e1, e2, e3, e4, e⟩ := FullRx.new_some hl
  rw [e] at h; cases h
  dsimp only at h1 h2 ⊢
  obtain ⟨_, _, e3'⟩ := tl_new_some c.sps c.alphaU c.betaU c.maxDev
  have havg : tl.periodAvg = tl.samplesPerTed := by
    rw [e3] at e3'; cases e3'; rfl
  exact ⟨hl, ⟨(dcInv_new e1).2, (agcInv_new e2 hle).1, ⟨rfl, rfl, rfl, havg ▸ h1, havg ▸ h2⟩⟩, rfl, rfl, rfl, rfl⟩

end G4


section NewFields
variable {F : Type} [Arith F]

/-- what `FullRx.new` builds (no laws needed) -/
theorem FullRx.new_fields {c : RxCfg F} {r0 : FullRx F} (h : FullRx.new c = some r0) :
    r0.cfg = c ∧ r0.link = {} ∧ r0.rx = {} ∧ r0.inputCounter = 0 ∧
    DcBlock.new c.dcLen = some r0.dc ∧ Agc.new c.agcBw c.agcMin c.agcMax = some r0.agc ∧
    TimingLoop.new c.sps c.alphaU c.betaU c.maxDev = some r0.tl := by
  unfold FullRx.new at h
  split at h
  · rename_i h1 h2 h3 h4
    cases h
    exact ⟨rfl, rfl, rfl, rfl, h1, h2, h3⟩
  · cases h

end NewFields

end SameVerif.Dsp

/-! ### G3: the run is the discrete chain on the ticks the float part produced -/

namespace SameVerif
/-- the receiver ticks of the discrete chain fed with stamped ticks `(input sample counter, tick)`:
    `lstep` tick by tick, each result paired with its stamp and the new symbol count -/
def stampedTicks (c : LCfg) : LState → List (Nat × Tick) → List RTick
  | _, [] => []
  | ls, (n, t) :: tr =>
    (n, (lstep c ls t.1 t.2).1.nsym, (lstep c ls t.1 t.2).2.1) :: stampedTicks c (lstep c ls t.1 t.2).1 tr

/-- the stamps as a function of the tick index (0 beyond the end), for `chain` -/
def stampsOf (tr : List (Nat × Tick)) : Nat → Nat := fun i => (tr[i]?.map (·.1)).getD 0

theorem mkTicks_shift (samples : Nat → Nat) (sym0 : Nat) (L : List LinkSt) : ∀ i,
    mkTicks samples sym0 (i + 1) L = mkTicks (fun j => samples (j + 1)) (sym0 + 1) i L := by
  induction L with
  | nil => intro i; rfl
  | cons ls L ih =>
    intro i
    simp only [mkTicks, ih]
    rw [show sym0 + 1 + (i + 1) = sym0 + 1 + 1 + i by omega]

/-- `stampedTicks` is `chainTicks` with the stamps as the sample function -/
theorem stampedTicks_eq (c : LCfg) (tr : List (Nat × Tick)) : ∀ ls,
    stampedTicks c ls tr = chainTicks c ls ls.nsym (stampsOf tr) (tr.map (·.2)) := by
  induction tr with
  | nil => intro ls; rfl
  | cons p tr ih =>
    intro ls
    obtain ⟨n, t⟩ := p
    unfold chainTicks at ih ⊢
    simp only [stampedTicks, List.map_cons, lrun, mkTicks, ih, lstep_nsym]
    rw [mkTicks_shift]
    rfl

theorem stampedTicks_append (c : LCfg) (xs ys : List (Nat × Tick)) : ∀ ls,
    stampedTicks c ls (xs ++ ys)
      = stampedTicks c ls xs ++ stampedTicks c (lrunState c ls (xs.map (·.2))) ys := by
  induction xs with
  | nil => intro ls; rfl
  | cons p xs ih => intro ls; obtain ⟨n, t⟩ := p; simp only [List.cons_append, stampedTicks, ih, List.map_cons, lrunState]
end SameVerif

namespace SameVerif.Dsp
open Arith
section G3
variable {F : Type} [Arith F] [Hypot F]

/-- what the float part hands to the discrete part at this sample: nothing, or — when the timing
    loop produced a symbol — the input sample counter and the tick `(obsOf, byteOf)` -/
def FullRx.tickAt (r : FullRx F) (x : F) : List (Nat × Tick) :=
  match r.front x with
  | some (q, some s) => [(q.inputCounter, q.tickOf s)]
  | _ => []

/-- run `FullRx.sample` over the samples and collect the stamped ticks -/
def FullRx.trace (r : FullRx F) : List F → Option (FullRx F × List (Nat × Tick))
  | [] => some (r, [])
  | x :: xs =>
    match r.sample x with
    | none => none
    | some (r', _) =>
      match FullRx.trace r' xs with
      | none => none
      | some (r'', tr) => some (r'', r.tickAt x ++ tr)

/-- one sample: nothing for the discrete part, or exactly one `lstep` + `rTick` on `tickAt` -/
theorem FullRx.sample_refines {r r' : FullRx F} {x : F} {evs : List Event}
    (h : r.sample x = some (r', evs)) :
    r'.cfg = r.cfg ∧
    evs = (rRun r.cfg.rate r.rx (stampedTicks r.cfg.lcfg r.link (r.tickAt x))).2 ∧
    r'.rx = (rRun r.cfg.rate r.rx (stampedTicks r.cfg.lcfg r.link (r.tickAt x))).1 ∧
    r'.link = lrunState r.cfg.lcfg r.link ((r.tickAt x).map (·.2)) := by
  obtain ⟨q, sym, hf, hc⟩ := FullRx.sample_cases h
  obtain ⟨q1, q2, q3, _⟩ := FullRx.front_spec hf
  unfold FullRx.tickAt
  rw [hf]
  rcases hc with ⟨rfl, rfl, rfl⟩ | ⟨s, rfl, hs⟩
  · exact ⟨q1, rfl, q3, q2⟩
  · obtain ⟨a1, a2, a3, a4, _⟩ := FullRx.symbol_refines q s
    rw [hs] at a1 a2 a3 a4
    dsimp only at a1 a2 a3 a4 ⊢
    unfold FullRx.linkStep at a1 a2 a3
    rw [q1, q2] at a1
    rw [q1, q2, q3] at a2 a3
    simp only [stampedTicks, rRun_cons, rRun_nil, List.append_nil, FullRx.tickOf, List.map_cons,
      List.map_nil, lrunState]
    exact ⟨a4.trans q1, a2, a3, a1⟩

theorem FullRx.run_trace (xs : List F) : ∀ (r r' : FullRx F) (evs : List Event),
    FullRx.run r xs = some (r', evs) →
    ∃ tr, FullRx.trace r xs = some (r', tr) ∧ r'.cfg = r.cfg ∧
      evs = (rRun r.cfg.rate r.rx (stampedTicks r.cfg.lcfg r.link tr)).2 ∧
      r'.rx = (rRun r.cfg.rate r.rx (stampedTicks r.cfg.lcfg r.link tr)).1 ∧
      r'.link = lrunState r.cfg.lcfg r.link (tr.map (·.2)) := by
  induction xs with
  | nil =>
    intro r r' evs h
    simp only [FullRx.run, Option.some.injEq, Prod.mk.injEq] at h
    obtain ⟨rfl, rfl⟩ := h
    exact ⟨[], rfl, rfl, rfl, rfl, rfl⟩
  | cons x xs ih =>
    intro r r' evs h
    unfold FullRx.run at h
    cases h1 : r.sample x with
    | none => rw [h1] at h; cases h
    | some p =>
      obtain ⟨r1, ev⟩ := p
      rw [h1] at h
      dsimp only at h
      cases h2 : FullRx.run r1 xs with
      | none => rw [h2] at h; cases h
      | some p =>
        obtain ⟨r2, evs'⟩ := p
        rw [h2] at h
        simp only [Option.some.injEq, Prod.mk.injEq] at h
        obtain ⟨rfl, rfl⟩ := h
        obtain ⟨c1, e1, x1, l1⟩ := FullRx.sample_refines h1
        obtain ⟨tr, t2, c2, e2, x2, l2⟩ := ih r1 r2 evs' h2
        refine ⟨r.tickAt x ++ tr, by simp only [FullRx.trace, h1, t2], c2.trans c1, ?_, ?_, ?_⟩
        · rw [stampedTicks_append, rRun_append, e1, e2, c1, x1, l1]
        · rw [stampedTicks_append, rRun_append, x2, c1, x1, l1]
        · rw [List.map_append, lrunState_append, l2, c1, l1]

theorem FullRx.tickAt_stamp (r : FullRx F) (x : F) :
    (r.tickAt x).length ≤ 1 ∧ ∀ p ∈ r.tickAt x, p.1 = r.inputCounter + 1 := by
  unfold FullRx.tickAt
  split
  · rename_i q s hf
    refine ⟨Nat.le_refl 1, ?_⟩
    intro p hp
    simp only [List.mem_singleton] at hp; subst hp
    exact (FullRx.front_spec hf).2.2.2
  · exact ⟨Nat.zero_le 1, fun p hp => by cases hp⟩

theorem FullRx.trace_stamps (xs : List F) : ∀ (r r' : FullRx F) (tr : List (Nat × Tick)),
    FullRx.trace r xs = some (r', tr) →
    (∀ p ∈ tr, r.inputCounter < p.1 ∧ p.1 ≤ r.inputCounter + xs.length) ∧
    tr.Pairwise (fun a b => a.1 < b.1) ∧ tr.length ≤ xs.length := by
  induction xs with
  | nil =>
    intro r r' tr h
    simp only [FullRx.trace, Option.some.injEq, Prod.mk.injEq] at h
    obtain ⟨rfl, rfl⟩ := h
    exact ⟨fun p hp => (by cases hp), List.Pairwise.nil, Nat.le_refl 0⟩
  | cons x xs ih =>
    intro r r' tr h
    unfold FullRx.trace at h
    cases h1 : r.sample x with
    | none => rw [h1] at h; cases h
    | some p =>
      obtain ⟨r1, ev⟩ := p
      rw [h1] at h
      dsimp only at h
      cases h2 : FullRx.trace r1 xs with
      | none => rw [h2] at h; cases h
      | some p =>
        obtain ⟨r2, tr'⟩ := p
        rw [h2] at h
        simp only [Option.some.injEq, Prod.mk.injEq] at h
        obtain ⟨rfl, rfl⟩ := h
        obtain ⟨c1, _⟩ := FullRx.sample_counter h1
        obtain ⟨l1, s1⟩ := FullRx.tickAt_stamp r x
        obtain ⟨s2, p2, l2⟩ := ih r1 r2 tr' h2
        refine ⟨?_, ?_, by rw [List.length_append, List.length_cons]; omega⟩
        · intro p hp
          rw [List.length_cons]
          rcases List.mem_append.1 hp with hp | hp
          · rw [s1 p hp]; omega
          · have := s2 p hp; omega
        · rw [List.pairwise_append]
          refine ⟨?_, p2, ?_⟩
          · match hm : r.tickAt x, l1 with
            | [], _ => exact List.Pairwise.nil
            | [a], _ => exact List.pairwise_singleton _ _
          · intro a ha b hb
            have := s1 a ha
            have := s2 b hb
            omega
end G3
end SameVerif.Dsp
