import SameVerif.Thm.C14
import SameVerif.Thm.C05
/-
  Helper lemmas for Thm/RxProv.lean: the per-tick outputs of `transportLayer` along a run,
  locating an event of a run in the tick that produced it, ticks that leave a pending result alone.
-/
namespace SameVerif.RxProv
open SameVerif SameVerif.C08 SameVerif.C09 SameVerif.C14

/-! ### the outputs of `transportLayer` along a run -/

/-- the per-tick outputs of `transportLayer` along `rRun`: `(sample, output)` -/
def outs (rate : Nat) : RState → List RTick → List (Nat × Option Transport)
  | _, [] => []
  | s, (sample, sym, ls) :: ts =>
    (sample, (transportLayer rate s sample sym ls).2) :: outs rate (rTick rate s sample sym ls).1 ts

/-- an output that leaves the end-of-message timer alone: neither StartOfMessage nor EndOfMessage -/
def TimerQuiet (o : Option Transport) : Prop :=
  o ≠ some (.message (.ok .eom)) ∧ ∀ h, o ≠ some (.message (.ok (.som h)))

theorem outs_nil (rate : Nat) (s : RState) : outs rate s [] = [] := rfl

theorem outs_cons (rate : Nat) (s : RState) (sample sym : Nat) (ls : LinkSt) (ts : List RTick) :
    outs rate s ((sample, sym, ls) :: ts)
      = (sample, (transportLayer rate s sample sym ls).2) :: outs rate (rTick rate s sample sym ls).1 ts := rfl

theorem outs_append (rate : Nat) (s : RState) (xs ys : List RTick) :
    outs rate s (xs ++ ys) = outs rate s xs ++ outs rate (rRun rate s xs).1 ys := by
  induction xs generalizing s with
  | nil => rfl
  | cons x xs ih =>
    obtain ⟨sample, sym, ls⟩ := x
    simp [outs_cons, rRun_cons, ih]

theorem outs_length (rate : Nat) (s : RState) (ts : List RTick) : (outs rate s ts).length = ts.length := by
  induction ts generalizing s with
  | nil => rfl
  | cons x xs ih =>
    obtain ⟨sample, sym, ls⟩ := x
    simp [outs_cons, ih]

/-- `outs` really is what `rTick` sees: `rTick` calls `transportLayer` after updating the link
    state, which `transportLayer` never reads -/
theorem transportLayer_linkState (rate : Nat) (s : RState) (l : LinkSt) (sample sym : Nat) (ls : LinkSt) :
    (transportLayer rate { s with linkState := l } sample sym ls).2
      = (transportLayer rate s sample sym ls).2 := by
  cases ls <;> rfl

theorem tl_out_eq (rate : Nat) (s : RState) (sample sym : Nat) (ls : LinkSt) :
    (transportLayer rate s sample sym ls).2 = (tlCore s sample sym ls).2 := by
  rw [transportLayer_eq]

/-- the events of a tick: the link-state change, then the output if it differs from the
    reported transport state -/
theorem rTick_events (rate : Nat) (s : RState) (sample sym : Nat) (ls : LinkSt) :
    (rTick rate s sample sym ls).2
      = linkEv s sample ls ++ trEv s sample (transportLayer rate s sample sym ls).2 := by
  rw [rTick_eq, transportLayer_eq]

/-- the timer after a tick -/
theorem tick_force (rate : Nat) (s : RState) (sample sym : Nat) (ls : LinkSt) :
    (rTick rate s sample sym ls).1.forceEomAt
      = forceAfter rate sample s.forceEomAt (transportLayer rate s sample sym ls).2 := by
  rw [rTick_eq, transportLayer_eq]; rfl

theorem forceAfter_cases (rate sample : Nat) (old : Option Nat) (out : Option Transport) :
    (∃ h, out = some (.message (.ok (.som h)))
        ∧ forceAfter rate sample old out = some (sample + Gen.MAX_MESSAGE_DURATION_SECS * rate))
    ∨ (out = some (.message (.ok .eom)) ∧ forceAfter rate sample old out = none)
    ∨ (TimerQuiet out ∧ forceAfter rate sample old out = old) := by
  unfold forceAfter
  split
  · left; exact ⟨_, rfl, rfl⟩
  · right; left; exact ⟨rfl, rfl⟩
  · right; right
    rename_i h1 h2
    exact ⟨⟨fun h => h2 h, fun h hh => h1 h hh⟩, rfl⟩

/-- a run all of whose outputs are quiet leaves the timer as it was -/
theorem quiet_run_timer (rate : Nat) (ticks : List RTick) : ∀ s : RState,
    (∀ o ∈ outs rate s ticks, TimerQuiet o.2) → (rRun rate s ticks).1.forceEomAt = s.forceEomAt := by
  induction ticks with
  | nil => intro s _; rfl
  | cons x xs ih =>
    obtain ⟨smp, sy, ls⟩ := x
    intro s hq
    rw [rRun_cons, ih _ (fun o ho => hq o (by rw [outs_cons]; exact List.mem_cons_of_mem _ ho)), tick_force]
    have h0 := hq (smp, (transportLayer rate s smp sy ls).2) (by rw [outs_cons]; exact List.mem_cons_self)
    rcases forceAfter_cases rate smp s.forceEomAt (transportLayer rate s smp sy ls).2
      with ⟨h, ho, _⟩ | ⟨ho, _⟩ | ⟨_, hf⟩
    · exact absurd ho (h0.2 h)
    · exact absurd ho h0.1
    · exact hf

/-- easy direction of the change filter: a transport event of a run is the output of a tick -/
theorem event_mem_outs (rate : Nat) (ticks : List RTick) : ∀ (s : RState) (smp : Nat) (t : Transport),
    Event.transport smp t ∈ (rRun rate s ticks).2 → (smp, some t) ∈ outs rate s ticks := by
  induction ticks with
  | nil => intro s smp t h; cases h
  | cons x xs ih =>
    obtain ⟨sample, sy, ls⟩ := x
    intro s smp t h
    rw [rRun_cons] at h
    rw [outs_cons]
    rcases List.mem_append.1 h with h | h
    · rw [mem_tick_transport] at h
      obtain ⟨rfl, ho, _⟩ := h
      rw [ho]; exact List.mem_cons_self
    · exact List.mem_cons_of_mem _ (ih _ smp t h)

/-- hard direction, for StartOfMessage: under `PendInv` a StartOfMessage output always differs from
    the reported transport state, so it is reported; it is the last event of its tick -/
theorem som_out_event (rate : Nat) (s : RState) (sample sym : Nat) (ls : LinkSt) (h : Header)
    (hP : PendInv s)
    (hout : (transportLayer rate s sample sym ls).2 = some (.message (.ok (.som h)))) :
    (rTick rate s sample sym ls).2
      = linkEv s sample ls ++ [Event.transport sample (.message (.ok (.som h)))] := by
  rw [rTick_events, hout]
  rw [tl_out_eq] at hout
  have hne : Transport.message (.ok (.som h)) ≠ s.transportState := by
    intro heq
    obtain ⟨t, hp, _⟩ := som_out_needs_pending s sample sym ls h hout
    rcases hP (by simp [hp]) with h' | h' | h' <;> rw [h'] at heq <;> cases heq
  have hb : Transport.beq' (.message (.ok (.som h))) s.transportState = false :=
    (Transport.beq'_false_iff _ _).2 hne
  simp [trEv, hb]

/-! ### locating an event in the tick that produced it -/

theorem linkEv_cases (s : RState) (sample : Nat) (ls : LinkSt) :
    linkEv s sample ls = [] ∨ linkEv s sample ls = [Event.link sample ls] := by
  unfold linkEv; split <;> simp

theorem trEv_cases (s : RState) (sample : Nat) (out : Option Transport) :
    trEv s sample out = [] ∨ ∃ t, trEv s sample out = [Event.transport sample t] := by
  unfold trEv
  split
  · split <;> simp
  · simp

theorem not_closes_linkEv (s : RState) (sample : Nat) (ls : LinkSt) : ∀ e ∈ linkEv s sample ls, ¬ Closes e := by
  intro e he
  rcases linkEv_cases s sample ls with h | h <;> rw [h] at he
  · cases he
  · simp only [List.mem_singleton] at he
    subst he
    rintro ⟨smp, h | ⟨_, h⟩⟩ <;> cases h

/-- a transport event is the last event of its tick, preceded exactly by the link event (if any) -/
theorem tick_transport_split (s : RState) (sample : Nat) (ls : LinkSt) (out : Option Transport)
    (epre epost : List Event) (smp : Nat) (t : Transport)
    (h : linkEv s sample ls ++ trEv s sample out = epre ++ Event.transport smp t :: epost) :
    epre = linkEv s sample ls ∧ epost = [] := by
  rcases linkEv_cases s sample ls with hl | hl <;> rcases trEv_cases s sample out with ht | ⟨t', ht⟩ <;>
    rw [hl, ht] at h <;> rw [hl]
  · cases epre <;> simp at h
  · cases epre with
    | nil => simp at h; exact ⟨rfl, h.2⟩
    | cons a as => cases as <;> simp at h
  · cases epre with
    | nil => simp at h
    | cons a as => cases as <;> simp at h
  · cases epre with
    | nil => simp at h
    | cons a as =>
      cases as with
      | nil => simp at h; exact ⟨by rw [h.1], h.2.2⟩
      | cons b bs => cases bs <;> simp at h

/-- an event at a given position of a run's event list belongs to a definite tick -/
theorem run_event_split (rate : Nat) (ticks : List RTick) :
    ∀ (s : RState) (pre : List Event) (e : Event) (post : List Event),
      (rRun rate s ticks).2 = pre ++ e :: post →
      ∃ tpre sample sym ls tpost epre epost,
        ticks = tpre ++ (sample, sym, ls) :: tpost
        ∧ (rTick rate (rRun rate s tpre).1 sample sym ls).2 = epre ++ e :: epost
        ∧ pre = (rRun rate s tpre).2 ++ epre
        ∧ post = epost ++ (rRun rate (rTick rate (rRun rate s tpre).1 sample sym ls).1 tpost).2 := by
  induction ticks with
  | nil => intro s pre e post h; simp [rRun_nil] at h
  | cons x xs ih =>
    obtain ⟨sample, sy, ls⟩ := x
    intro s pre e post h
    rw [rRun_cons] at h
    simp only at h
    rcases List.append_eq_append_iff.1 h with ⟨a', h1, h2⟩ | ⟨c', h1, h2⟩
    · obtain ⟨tpre, sample', sym', ls', tpost, epre, epost, rfl, i2, i3, i4⟩ := ih _ a' e post h2
      refine ⟨(sample, sy, ls) :: tpre, sample', sym', ls', tpost, epre, epost, rfl, i2, ?_, i4⟩
      rw [h1, i3, rRun_cons]
      simp only [List.append_assoc]
    · cases c' with
      | nil =>
        simp only [List.nil_append, List.append_nil] at h1 h2
        obtain ⟨tpre, sample', sym', ls', tpost, epre, epost, rfl, i2, i3, i4⟩ := ih _ [] e post h2.symm
        refine ⟨(sample, sy, ls) :: tpre, sample', sym', ls', tpost, epre, epost, rfl, i2, ?_, i4⟩
        rw [rRun_cons, ← h1]
        simp only [List.append_assoc]
        rw [← i3, List.append_nil]
      | cons c cs =>
        simp only [List.cons_append, List.cons.injEq] at h2
        obtain ⟨rfl, rfl⟩ := h2
        exact ⟨[], sample, sy, ls, xs, pre, cs, rfl, h1, by simp [rRun_nil], rfl⟩

/-! ### ticks that leave a pending result alone -/

/-- a tick that cannot release `t`: Searching, Reading, or NoCarrier before the deadline -/
def Early (t : Timed MsgResult) (tk : RTick) : Prop :=
  (tk.2.2 = .searching ∨ tk.2.2 = .reading) ∨ (tk.2.2 = .noCarrier ∧ tk.2.1 < t.deadline)

/-- the first tick satisfying `p` -/
theorem exists_first (p : RTick → Prop) (ticks : List RTick) (hex : ∃ tk ∈ ticks, p tk) :
    ∃ pre tk post, ticks = pre ++ tk :: post ∧ (∀ x ∈ pre, ¬ p x) ∧ p tk := by
  induction ticks with
  | nil => obtain ⟨_, h, _⟩ := hex; cases h
  | cons x xs ih =>
    by_cases hx : p x
    · exact ⟨[], x, xs, rfl, fun _ h => (by cases h), hx⟩
    · obtain ⟨tk, htk, hd⟩ := hex
      have : tk ∈ xs := by
        rcases List.mem_cons.1 htk with rfl | h
        · exact absurd hd hx
        · exact h
      obtain ⟨pre, tk', post, rfl, h1, h2⟩ := ih ⟨tk, this, hd⟩
      refine ⟨x :: pre, tk', post, rfl, ?_, h2⟩
      intro y hy
      rcases List.mem_cons.1 hy with rfl | hy
      · exact hx
      · exact h1 y hy

/-- a Searching / Reading tick does not consult the assembler -/
theorem tlCore_carrier (s : RState) (sample sym : Nat) (ls : LinkSt)
    (hls : ls = .searching ∨ ls = .reading) : tlCore s sample sym ls = (s.asm, none) := by
  rcases hls with rfl | rfl <;> rfl

theorem noMessage_linkEv (s : RState) (sample : Nat) (ls : LinkSt) : NoMessage (linkEv s sample ls) := by
  intro e he smp r heq
  subst heq
  rcases linkEv_cases s sample ls with h | h <;> rw [h] at he <;> simp at he

end SameVerif.RxProv
