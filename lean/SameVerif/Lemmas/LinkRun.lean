import SameVerif.Model.LinkRun
/- Running the link model: append/take lemmas and the three autonomous fields (support for C01). -/
namespace SameVerif

/-- the burst carried by a link state, as a list of at most one element -/
def burstOf : LinkSt → List (List Byte)
  | .burst b => [b]
  | _ => []

def corrPush (w : UInt32) (b : Bool) : UInt32 := (w >>> 1) ||| ((if b then (1 : UInt32) else 0) <<< 31)

theorem lrunState_append (c : LCfg) (s : LState) (xs ys : List Tick) :
    lrunState c s (xs ++ ys) = lrunState c (lrunState c s xs) ys := by
  induction xs generalizing s with
  | nil => rfl
  | cons x xs ih => simp only [List.cons_append, lrunState, ih]

theorem lrun_append (c : LCfg) (s : LState) (xs ys : List Tick) :
    lrun c s (xs ++ ys) = lrun c s xs ++ lrun c (lrunState c s xs) ys := by
  induction xs generalizing s with
  | nil => rfl
  | cons x xs ih => simp only [List.cons_append, lrun, lrunState, ih]

theorem lrunBursts_eq (c : LCfg) (s : LState) (xs : List Tick) :
    lrunBursts c s xs = (lrun c s xs).flatMap burstOf := by
  unfold lrunBursts
  induction lrun c s xs with
  | nil => rfl
  | cons a l ih =>
    cases a <;> simp [List.filterMap_cons, burstOf, ih]

theorem lrunBursts_append (c : LCfg) (s : LState) (xs ys : List Tick) :
    lrunBursts c s (xs ++ ys) = lrunBursts c s xs ++ lrunBursts c (lrunState c s xs) ys := by
  simp only [lrunBursts, lrun_append, List.filterMap_append]

theorem lrunBursts_single (c : LCfg) (s : LState) (x : Tick) :
    lrunBursts c s [x] = burstOf (lstep c s x.1 x.2).2.1 := by
  rw [lrunBursts_eq]; simp [lrun]

theorem lrunState_take_succ (c : LCfg) (s : LState) (xs : List Tick) (t : Nat) (ht : t < xs.length) :
    lrunState c s (xs.take (t + 1))
      = (lstep c (lrunState c s (xs.take t)) xs[t].1 xs[t].2).1 := by
  rw [← List.take_append_getElem ht, lrunState_append]; rfl

theorem lrunBursts_take_succ (c : LCfg) (s : LState) (xs : List Tick) (t : Nat) (ht : t < xs.length) :
    lrunBursts c s (xs.take (t + 1))
      = lrunBursts c s (xs.take t) ++ burstOf (lstep c (lrunState c s (xs.take t)) xs[t].1 xs[t].2).2.1 := by
  rw [← List.take_append_getElem ht, lrunBursts_append, lrunBursts_single]

/-! ### the three autonomous fields -/

theorem lstep_corr (c : LCfg) (s : LState) (o : Obs) (b : Byte) :
    (lstep c s o b).1.corr = corrPush s.corr o.bit := by
  unfold lstep corrPush
  simp only []
  repeat' split
  all_goals rfl

theorem lstep_nsym (c : LCfg) (s : LState) (o : Obs) (b : Byte) :
    (lstep c s o b).1.nsym = s.nsym + 1 := by
  unfold lstep
  simp only []
  repeat' split
  all_goals rfl

theorem lstep_pwr (c : LCfg) (s : LState) (o : Obs) (b : Byte) :
    (lstep c s o b).1.pwr = push32 s.pwr o.closeOk := by
  unfold lstep
  simp only []
  repeat' split
  all_goals rfl

end SameVerif
