import SameVerif.Model.AssemblerRun
/-
  Step lemmas for the assembler model: history pruning, the duplicate filter, a complete case
  split of `aIdle`, and `stepOp` as "prepare, then idle".
-/
namespace SameVerif.Asm

deriving instance DecidableEq for Except

/-! ### constants -/

theorem HOLD_pos : 0 < HOLD := by decide
theorem HIST_pos : 0 < HIST := by decide

/-! ### history pruning -/

theorem pruneHistory_length_le (h : List (Timed (List Byte))) (now : Nat) :
    (pruneHistory h now).length ≤ 2 := by
  simp only [pruneHistory, List.length_drop]
  omega

theorem mem_pruneHistory (h : List (Timed (List Byte))) (now : Nat) (e : Timed (List Byte))
    (he : e ∈ pruneHistory h now) : e ∈ h ∧ now < e.deadline := by
  have := List.mem_of_mem_drop he
  simp only [List.mem_filter, Timed.expiredAt, Bool.not_eq_true', decide_eq_false_iff_not] at this
  exact ⟨this.1, by omega⟩

/-- a short history without expired entries is left alone -/
theorem pruneHistory_fresh (h : List (Timed (List Byte))) (now : Nat) (hl : h.length ≤ 2)
    (hf : ∀ e ∈ h, now < e.deadline) : pruneHistory h now = h := by
  have hfil : h.filter (fun e => !e.expiredAt now) = h := by
    apply List.filter_eq_self.mpr
    intro e he
    have := hf e he
    simp [Timed.expiredAt]
    omega
  simp only [pruneHistory, hfil]
  have : h.length - 2 = 0 := by omega
  rw [this]; rfl

/-- once every entry has expired nothing is left -/
theorem pruneHistory_expired (h : List (Timed (List Byte))) (now : Nat)
    (hx : ∀ e ∈ h, e.deadline ≤ now) : pruneHistory h now = [] := by
  have hfil : h.filter (fun e => !e.expiredAt now) = [] := by
    apply List.filter_eq_nil_iff.mpr
    intro e he
    have := hx e he
    simp [Timed.expiredAt]
    omega
  simp [pruneHistory, hfil]

theorem pruneHistory_nil (now : Nat) : pruneHistory [] now = [] := rfl

/-! ### the previous-message slot and the duplicate filter -/

theorem prunePrevious_cases (p : Option (Timed Msg)) (now : Nat) :
    (prunePrevious p now = none ∧ ∀ q, p = some q → q.deadline ≤ now)
      ∨ (prunePrevious p now = p ∧ ∃ q, p = some q ∧ now < q.deadline) := by
  cases p with
  | none => left; simp [prunePrevious]
  | some q =>
    by_cases h : q.deadline ≤ now
    · left; simp [prunePrevious, Timed.expiredAt, h]
    · right; simp [prunePrevious, Timed.expiredAt, h]; omega

theorem dedup_some (prev : Option (Timed Msg)) (res : Option MsgResult) (r : MsgResult)
    (h : dedup prev res = some r) : res = some r := by
  unfold dedup at h
  split at h
  · split at h
    · split at h
      · exact h
      · cases h
    · exact h
  · exact h

/-- a message that passes the filter differs in text from the (live) previous message -/
theorem dedup_ok_text (prev : Option (Timed Msg)) (res : Option MsgResult) (m : Msg)
    (h : dedup prev res = some (.ok m)) : ∀ p, prev = some p → p.data.text ≠ m.text := by
  intro p hp heq
  have hres := dedup_some prev res _ h
  subst hres hp
  simp [dedup, heq] at h

theorem dedup_pass (prev : Option (Timed Msg)) (m : Msg)
    (h : ∀ p, prev = some p → p.data.text ≠ m.text) : dedup prev (some (.ok m)) = some (.ok m) := by
  cases prev with
  | none => rfl
  | some p => simp [dedup, h p rfl]

theorem dedup_none_prev (res : Option MsgResult) : dedup none res = res := by
  unfold dedup
  split <;> rfl

/-! ### `aIdle`, completely -/

/-- the three things a poll can do -/
theorem idle_cases (s : AState) (now : Nat) :
    (∃ t m, s.pending = some t ∧ t.deadline ≤ now ∧ t.data = .ok m ∧
        aIdle s now = ({ history := pruneHistory s.history now, pending := none,
                         previous := some ⟨m, now + HIST⟩ }, .message (.ok m)))
    ∨ (∃ t e, s.pending = some t ∧ t.deadline ≤ now ∧ t.data = .error e ∧
        aIdle s now = ({ history := pruneHistory s.history now, pending := none,
                         previous := s.previous }, .message (.error e)))
    ∨ ((s.pending = none ∨ ∃ t, s.pending = some t ∧ now < t.deadline) ∧
        aIdle s now = ({ history := pruneHistory s.history now, pending := s.pending,
                         previous := s.previous },
                       if (pruneHistory s.history now).isEmpty then .idle else .assembling)) := by
  cases hp : s.pending with
  | none =>
    right; right
    refine ⟨Or.inl rfl, ?_⟩
    simp [aIdle, poll, hp]
  | some t =>
    by_cases hd : t.deadline ≤ now
    · cases hdat : t.data with
      | ok m =>
        left
        refine ⟨t, m, rfl, hd, hdat, ?_⟩
        simp [aIdle, poll, hp, Timed.expiredAt, hd, hdat]
      | error e =>
        right; left
        refine ⟨t, e, rfl, hd, hdat, ?_⟩
        simp [aIdle, poll, hp, Timed.expiredAt, hd, hdat]
    · right; right
      refine ⟨Or.inr ⟨t, rfl, by omega⟩, ?_⟩
      simp [aIdle, poll, hp, Timed.expiredAt, hd]

theorem idle_history (s : AState) (now : Nat) :
    (aIdle s now).1.history = pruneHistory s.history now := by
  rcases idle_cases s now with ⟨_, _, _, _, _, h⟩ | ⟨_, _, _, _, _, h⟩ | ⟨_, h⟩ <;> rw [h]

/-- a poll outputs a decoded message exactly when one is pending and due -/
theorem idle_out_ok (s : AState) (now : Nat) (m : Msg) (h : (aIdle s now).2 = .message (.ok m)) :
    ∃ t, s.pending = some t ∧ t.deadline ≤ now ∧ t.data = .ok m ∧
      (aIdle s now).1 = { history := pruneHistory s.history now, pending := none,
                          previous := some ⟨m, now + HIST⟩ } := by
  rcases idle_cases s now with ⟨t, m', hp, hd, hdat, he⟩ | ⟨_, _, _, _, _, he⟩ | ⟨_, he⟩
  · rw [he] at h ⊢
    simp only [Transport.message.injEq, Except.ok.injEq] at h
    subst h
    exact ⟨t, hp, hd, hdat, rfl⟩
  · rw [he] at h; simp at h
  · rw [he] at h; split at h <;> cases h

/-- nothing pending, nothing output, nothing changed but the history -/
theorem idle_of_pending_none (s : AState) (now : Nat) (hp : s.pending = none) :
    (aIdle s now).1 = { history := pruneHistory s.history now, pending := none, previous := s.previous }
      ∧ ∀ r, (aIdle s now).2 ≠ .message r := by
  rcases idle_cases s now with ⟨_, _, h, _⟩ | ⟨_, _, h, _⟩ | ⟨_, he⟩
  · rw [hp] at h; cases h
  · rw [hp] at h; cases h
  · rw [he, hp]
    refine ⟨rfl, ?_⟩
    intro r; simp only; split <;> simp

/-- a pending result that is not yet due stays; nothing is output -/
theorem idle_of_not_due (s : AState) (t : Timed MsgResult) (now : Nat) (hp : s.pending = some t)
    (hd : now < t.deadline) :
    (aIdle s now).1 = { history := pruneHistory s.history now, pending := some t, previous := s.previous }
      ∧ ∀ r, (aIdle s now).2 ≠ .message r := by
  rcases idle_cases s now with ⟨t', _, h, hd', _⟩ | ⟨t', _, h, hd', _⟩ | ⟨_, he⟩
  · rw [hp] at h; cases h; omega
  · rw [hp] at h; cases h; omega
  · rw [he, hp]
    refine ⟨rfl, ?_⟩
    intro r; simp only; split <;> simp

/-- a pending decoded message that is due is output, and remembered for `HIST` ticks -/
theorem idle_of_due_ok (s : AState) (t : Timed MsgResult) (m : Msg) (now : Nat)
    (hp : s.pending = some t) (hdat : t.data = .ok m) (hd : t.deadline ≤ now) :
    aIdle s now = ({ history := pruneHistory s.history now, pending := none,
                     previous := some ⟨m, now + HIST⟩ }, .message (.ok m)) := by
  rcases idle_cases s now with ⟨t', m', h, _, hdat', he⟩ | ⟨t', _, h, _, hdat', _⟩ | ⟨h, _⟩
  · rw [hp] at h; cases h
    rw [hdat] at hdat'; cases hdat'
    exact he
  · rw [hp] at h; cases h
    rw [hdat] at hdat'; cases hdat'
  · rcases h with h | ⟨t', h, hd'⟩
    · rw [hp] at h; cases h
    · rw [hp] at h; cases h; omega

/-! ### every operation is "prepare, then poll" -/

/-- the state `aIdle` is applied to inside an operation -/
def preIdle (s : AState) : AOp → AState
  | .poll _ => s
  | .burst b t =>
    if b.isEmpty then s
    else { history := historyAfter s b t, pending := pendingAfter s b t,
           previous := prunePrevious s.previous t }

theorem preIdle_poll (s : AState) (t : Nat) : preIdle s (.poll t) = s := rfl

theorem preIdle_burst_empty (s : AState) (b : List Byte) (t : Nat) (hb : b.isEmpty = true) :
    preIdle s (.burst b t) = s := by
  simp [preIdle, hb]

theorem preIdle_burst (s : AState) (b : List Byte) (t : Nat) (hb : b.isEmpty = false) :
    preIdle s (.burst b t)
      = { history := historyAfter s b t, pending := pendingAfter s b t,
          previous := prunePrevious s.previous t } := by
  simp [preIdle, hb]

theorem stepOp_eq (s : AState) (op : AOp) : stepOp s op = aIdle (preIdle s op) op.time := by
  cases op with
  | poll t => rfl
  | burst b t =>
    simp only [stepOp, aAssemble, preIdle, AOp.time]
    split <;> rfl

/-- what the pending slot can hold once a burst has been taken in: the old entry, or the
    (filtered) estimate with its own deadline -/
theorem pendingAfter_cases (s : AState) (b : List Byte) (now : Nat) :
    pendingAfter s b now = s.pending
      ∨ ∃ r, estimateOf s b now = some r ∧ pendingAfter s b now = some (acceptNew r now) := by
  unfold pendingAfter
  cases h : estimateOf s b now with
  | none => left; rfl
  | some r =>
    simp only
    unfold accept
    cases s.pending with
    | none => right; exact ⟨r, rfl, rfl⟩
    | some old =>
      simp only
      cases acceptReplaces old.data r
      · left; rfl
      · right; exact ⟨r, rfl, rfl⟩

theorem acceptNew_som (h : Header) (now : Nat) :
    acceptNew (.ok (.som h)) now = ⟨.ok (.som h), now + HOLD⟩ := rfl

theorem acceptNew_error (e : DecodeErr) (now : Nat) :
    acceptNew (.error e) now = ⟨.error e, now + HOLD⟩ := rfl

theorem acceptNew_eom' (now : Nat) : acceptNew (.ok .eom) now = ⟨.ok .eom, now⟩ := rfl

theorem acceptNew_data' (msg : MsgResult) (now : Nat) : (acceptNew msg now).data = msg := by
  unfold acceptNew; split <;> rfl

/-- only an EndOfMessage is due in the call that accepts it -/
theorem acceptNew_due (msg : MsgResult) (now : Nat) (h : (acceptNew msg now).deadline ≤ now) :
    msg = .ok .eom := by
  unfold acceptNew at h
  split at h
  · rfl
  · have := HOLD_pos; simp at h; omega

end SameVerif.Asm
