import SameVerif.Lemmas.ChainBridge
import SameVerif.Lemmas.ChainOps
import SameVerif.Lemmas.StreamLink2
/-
  LAYER B of the whole-transmission chain theorem — the receiver glue when the assembler DOES
  output EndOfMessage.  `Chain.run_events` excludes such runs because an EndOfMessage answered
  while the reported transport state already is EndOfMessage yields no event
  (`C04rx.eom_event_tick`).  Here: the reported transport state is not EndOfMessage at the start
  and the assembler run outputs at most one EndOfMessage — then the correspondence is exact again.
-/
namespace SameVerif.Chain
open SameVerif SameVerif.Asm SameVerif.C08

/-- is this assembler output an EndOfMessage? -/
def isEomOut : Nat × MsgResult → Bool
  | (_, .ok .eom) => true
  | _ => false

/-- number of EndOfMessage outputs -/
def eomCount (os : List (Nat × MsgResult)) : Nat := (os.filter isEomOut).length

theorem eomCount_append (a b : List (Nat × MsgResult)) : eomCount (a ++ b) = eomCount a + eomCount b := by
  simp [eomCount]

theorem eomCount_zero (os : List (Nat × MsgResult)) (h : eomCount os = 0) : ∀ o ∈ os, o.2 ≠ .ok .eom := by
  intro o ho heq
  have : o ∈ os.filter isEomOut := by
    apply List.mem_filter.mpr
    refine ⟨ho, ?_⟩
    obtain ⟨t, r⟩ := o
    simp only at heq
    subst heq
    rfl
  unfold eomCount at h
  rw [List.length_eq_zero_iff.mp h] at this
  cases this

/-- the message events of the transport part of a tick, when the reported transport state is not
    EndOfMessage: every message answered is an event -/
theorem msgEvents_trEv_fresh (s : RState) (hinv : RInv s) (sample sym : Nat) (ls : LinkSt)
    (hts : s.transportState ≠ .message (.ok .eom)) :
    msgEvents (trEv s sample (tlCore s sample sym ls).2)
      = match (tlCore s sample sym ls).2 with
        | some (.message r) => [(sample, r)]
        | _ => [] := by
  cases hout : (tlCore s sample sym ls).2 with
  | none => rfl
  | some t =>
    cases t with
    | idle => simp only [trEv]; split <;> rfl
    | assembling => simp only [trEv]; split <;> rfl
    | message r =>
      have hn : Transport.message r ≠ s.transportState := by
        by_cases hr : r = .ok .eom
        · subst hr; exact fun h => hts h.symm
        · exact msg_out_ne_state s hinv sample sym ls r hr hout
      have hb : (Transport.message r).beq' s.transportState = false :=
        (Transport.beq'_false_iff _ _).2 hn
      simp [trEv, hb, msgEvents, msgOfEvent]

/-- one tick whose reported transport state is not EndOfMessage: its message events against its
    operation's outputs (EndOfMessage outputs included) -/
theorem tick_events_fresh (s : RState) (hinv : RInv s) (sample sym : Nat) (ls : LinkSt)
    (hnf : ∀ T, s.forceEomAt = some T → sample ≤ T)
    (hts : s.transportState ≠ .message (.ok .eom)) :
    Forall₂ (Matches [(sample, sym, ls)])
      (msgEvents (linkEv s sample ls ++ trEv s sample (tlCore s sample sym ls).2))
      (runOps s.asm (opOfTick (sample, sym, ls))).2 := by
  have hcore := tlCore_noforce s sample sym ls hnf
  rw [msgEvents_append, msgEvents_linkEv, List.nil_append, msgEvents_trEv_fresh s hinv sample sym ls hts,
    hcore]
  cases ls with
  | searching => exact .nil
  | reading => exact .nil
  | burst b =>
    simp only [opOfTick, runOps, AOp.time, List.append_nil]
    cases (stepOp s.asm (.burst b sym)).2 with
    | idle => exact .nil
    | assembling => exact .nil
    | message r => exact .cons ⟨rfl, _, List.mem_singleton.2 rfl⟩ .nil
  | noCarrier =>
    simp only [opOfTick, runOps, AOp.time, List.append_nil]
    cases (stepOp s.asm (.poll sym)).2 with
    | idle => exact .nil
    | assembling => exact .nil
    | message r => exact .cons ⟨rfl, _, List.mem_singleton.2 rfl⟩ .nil

/-- after a tick (timer not firing) whose operation outputs no EndOfMessage, the reported
    transport state is still not EndOfMessage -/
theorem next_state_not_eom (rate : Nat) (s : RState) (sample sym : Nat) (ls : LinkSt)
    (hnf : ∀ T, s.forceEomAt = some T → sample ≤ T)
    (hts : s.transportState ≠ .message (.ok .eom))
    (h0 : eomCount (runOps s.asm (opOfTick (sample, sym, ls))).2 = 0) :
    (rNext rate s sample sym ls).transportState ≠ .message (.ok .eom) := by
  have hcore := tlCore_noforce s sample sym ls hnf
  have hz := eomCount_zero _ h0
  simp only [rNext]
  rw [hcore]
  cases ls with
  | searching => exact hts
  | reading => exact hts
  | burst b =>
    simp only
    intro heq
    apply hz (sym, .ok .eom) _ rfl
    simp [opOfTick, runOps, heq, outOf, AOp.time]
  | noCarrier =>
    simp only
    intro heq
    apply hz (sym, .ok .eom) _ rfl
    simp [opOfTick, runOps, heq, outOf, AOp.time]

/-- **Bridge, event part, with EndOfMessage.**  Receiver invariant `RInv`, timer not firing, the
    reported transport state not EndOfMessage at the start, and AT MOST ONE EndOfMessage among the
    outputs of the assembler run.  Then the message events of the receiver run are, in order and
    one for one, the outputs of the assembler run (`Matches`: same result; the event's sample and
    the output's time belong to one tick). -/
theorem run_events_eom (rate smax : Nat) (ticks : List RTick) : ∀ (s : RState), RInv s → NoFire smax s →
    SamplesWithin rate smax ticks →
    s.transportState ≠ .message (.ok .eom) →
    eomCount (runOps s.asm (opsOfTicks ticks)).2 ≤ 1 →
    Forall₂ (Matches ticks) (msgEvents (rRun rate s ticks).2) (runOps s.asm (opsOfTicks ticks)).2 := by
  induction ticks with
  | nil => intro s _ _ _ _ _; exact .nil
  | cons tk ts ih =>
    intro s hinv hnf hsw hts hcnt
    obtain ⟨sample, sym, ls⟩ := tk
    have hhi := hsw.hi _ List.mem_cons_self
    have hlo := hsw.lo _ List.mem_cons_self
    simp only at hhi hlo
    have hnf' : ∀ T, s.forceEomAt = some T → sample ≤ T := fun T hT => Nat.le_trans hhi (hnf T hT)
    rw [opsOfTicks_cons, runOps_append_snd, eomCount_append] at hcnt
    have hasm : (rNext rate s sample sym ls).asm = (runOps s.asm (opOfTick (sample, sym, ls))).1 := by
      simp only [rNext]; exact tlCore_asm s sample sym ls hnf'
    rw [rRun_cons, rTick_eq, opsOfTicks_cons, runOps_append_snd]
    simp only
    rw [msgEvents_append]
    apply Forall₂.append
    · apply forall2_matches_mono [(sample, sym, ls)] _ (by simp)
      exact tick_events_fresh s hinv sample sym ls hnf' hts
    · apply forall2_matches_mono ts _ (fun x hx => List.mem_cons_of_mem _ hx)
      rw [← hasm]
      by_cases h0 : eomCount (runOps s.asm (opOfTick (sample, sym, ls))).2 = 0
      · apply ih _ (rInv_next rate s sample sym ls hinv) (noFire_next rate smax s sample sym ls hnf hlo)
          hsw.tail (next_state_not_eom rate s sample sym ls hnf' hts h0)
        rw [hasm]; omega
      · apply run_events rate smax ts _ (rInv_next rate s sample sym ls hinv)
          (noFire_next rate smax s sample sym ls hnf hlo) hsw.tail
        rw [hasm]
        exact eomCount_zero _ (by omega)

/-- two outputs, two events -/
theorem forall2_pair {α β : Type} {R : α → β → Prop} {es : List α} {o1 o2 : β}
    (h : Forall₂ R es [o1, o2]) : ∃ e1 e2, es = [e1, e2] ∧ R e1 o1 ∧ R e2 o2 := by
  cases h with
  | cons hr ht =>
    cases ht with
    | cons hr2 ht2 => cases ht2; exact ⟨_, _, rfl, hr, hr2⟩


/-! ## support for LAYER C -/

open SameVerif.Spec

/-! ### operations of a segment, with where its polls are -/

/-- a `.noCarrier` tick is a poll at its symbol count -/
theorem mem_opsAt_noCarrier (samples : Nat → Nat) (sym0 : Nat) (L : List LinkSt) : ∀ (i j : Nat),
    L[j]? = some .noCarrier → AOp.poll (sym0 + 1 + (i + j)) ∈ opsAt samples sym0 i L := by
  induction L with
  | nil => intro i j h; simp at h
  | cons x L ih =>
    intro i j h
    rw [opsAt_cons]
    cases j with
    | zero =>
      simp only [List.getElem?_cons_zero, Option.some.injEq] at h
      subst h
      apply List.mem_append_left
      simp [opOfTick]
    | succ j =>
      simp only [List.getElem?_cons_succ] at h
      apply List.mem_append_right
      have := ih (i + 1) j h
      rwa [show i + 1 + j = i + (j + 1) by omega] at this

/-- one segment: polls, the burst at tick `i + k` with `k` past the end of the body, polls; the polls
    before the burst come before it in time, and every `.noCarrier` tick before the burst is one -/
theorem opsAt_segOut_polls (samples : Nat → Nat) (sym0 i : Nat) (g : Seg) (payload t : List Byte)
    (L : List LinkSt) (h : SegOut g payload t L) :
    ∃ (pa pb : List Nat) (k : Nat), opsAt samples sym0 i L
        = pa.map .poll ++ .burst (payload ++ t) (sym0 + 1 + i + k) :: pb.map .poll
      ∧ g.lead.length + g.body.length + 31 ≤ k ∧ k < g.ticks.length
      ∧ (∀ u ∈ pa, u < sym0 + 1 + i + k)
      ∧ (∀ j, j < k → L[j]? = some .noCarrier → sym0 + 1 + (i + j) ∈ pa) := by
  obtain ⟨pre, post, h1, h2, h3, h4⟩ := h.split
  obtain ⟨pa, hpa⟩ := opsAt_noBurst samples sym0 pre h2 i
  obtain ⟨pb, hpb⟩ := opsAt_noBurst samples sym0 post h3 (i + pre.length + 1)
  refine ⟨pa, pb, pre.length, ?_, h4, ?_, ?_, ?_⟩
  · rw [h1, opsAt_append, opsAt_burst, hpa, hpb]
    rw [show sym0 + 1 + (i + pre.length) = sym0 + 1 + i + pre.length by omega]
  · rw [← h.len, h1, List.length_append, List.length_cons]
    omega
  · intro u hu
    have hm : AOp.poll u ∈ opsAt samples sym0 i pre := by rw [hpa]; exact List.mem_map.mpr ⟨u, hu, rfl⟩
    exact (opsAt_time samples sym0 pre i _ hm).2
  · intro j hj hnc
    have hpj : pre[j]? = some .noCarrier := by
      rw [h1, List.getElem?_append_left hj] at hnc; exact hnc
    have hm := mem_opsAt_noCarrier samples sym0 pre i j hpj
    rw [hpa] at hm
    obtain ⟨u, hu, he⟩ := List.mem_map.mp hm
    cases he
    exact hu

/-! ### a stretch of the stream without possible hits -/

/-- ticks `[Lo, Lo + K)` of the stream hold no potential hit: from the state the model is in after
    `Lo` ticks, that stretch is quiet -/
theorem quiet_gap (c : LCfg) (stream : List Tick) (Lo K : Nat) (hL : Lo + K ≤ stream.length)
    (h31 : 31 ≤ Lo)
    (hq : ∀ t, Lo ≤ t → t < Lo + K → potHit c.maxErrors (fun i => stream.getD i dfltTick) t = false) :
    QuietNoHit c (lrunState c {} (stream.take Lo)) ((stream.drop Lo).take K) := by
  intro t _
  have hta : (stream.take Lo).length = Lo := by rw [List.length_take]; omega
  have hlk : ((stream.drop Lo).take K).length = K := by
    rw [List.length_take, List.length_drop]; omega
  by_cases ht : t < K
  · have h0 := noHitAt_of_quietAt c {} stream (Lo + t) (by omega)
      (fun _ => quietAt_of_potHit (hq (Lo + t) (by omega) (by omega)))
    have h1 : NoHitAt c {} (stream.take Lo ++ stream.drop Lo) ((stream.take Lo).length + t) := by
      rw [List.take_append_drop, hta]; exact h0
    have h2 := (noHitAt_append_right c {} _ _ t).1 h1
    rw [← List.take_append_drop K (stream.drop Lo)] at h2
    exact (noHitAt_append_left c _ _ _ t (by rw [hlk]; exact ht)).1 h2
  · intro x hx
    have := (List.getElem?_eq_some_iff.1 hx).1
    omega

/-! ### six delivered segments and a quiet stretch, tick by tick -/

/-- **Six delivered bursts (three of `H`, three of `NNNN`) and a quiet stretch, tick by tick**; the
    first `m + 1` ticks of the fourth segment hold no possible hit, so its tick `m` is `.noCarrier`. -/
theorem six_delivered (c : LCfg) (H : List Byte) (g1 g2 g3 g4 g5 g6 : Seg) (quiet : List Tick)
    (s : LState)
    (hd : DeliversAll c s [(H, g1), (H, g2), (H, g3), (litNNNN, g4), (litNNNN, g5), (litNNNN, g6)])
    (hq : QuietNoHit c (lrunState c s (g1.ticks ++ g2.ticks ++ g3.ticks ++ g4.ticks ++ g5.ticks
      ++ g6.ticks)) quiet)
    (m : Nat) (hm : m < g4.ticks.length)
    (hgap : QuietNoHit c (lrunState c s (g1.ticks ++ g2.ticks ++ g3.ticks)) (g4.ticks.take (m + 1))) :
    ∃ t1 t2 t3 e1 e2 e3 L1 L2 L3 L4 L5 L6,
      lrun c s (g1.ticks ++ g2.ticks ++ g3.ticks ++ g4.ticks ++ g5.ticks ++ g6.ticks ++ quiet)
          = L1 ++ L2 ++ L3 ++ L4 ++ L5 ++ L6 ++ List.replicate quiet.length .noCarrier
        ∧ SegOut g1 H t1 L1 ∧ SegOut g2 H t2 L2 ∧ SegOut g3 H t3 L3
        ∧ SegOut g4 litNNNN e1 L4 ∧ SegOut g5 litNNNN e2 L5 ∧ SegOut g6 litNNNN e3 L6
        ∧ L4[m]? = some .noCarrier
        ∧ lrunBursts c s (g1.ticks ++ g2.ticks ++ g3.ticks ++ g4.ticks ++ g5.ticks ++ g6.ticks ++ quiet)
            = [H ++ t1, H ++ t2, H ++ t3, litNNNN ++ e1, litNNNN ++ e2, litNNNN ++ e3] := by
  simp only [DeliversAll] at hd
  obtain ⟨⟨t1, o1, b1, q1⟩, ⟨t2, o2, b2, q2⟩, ⟨t3, o3, b3, q3⟩, ⟨e1, o4, b4, q4⟩, ⟨e2, o5, b5, q5⟩,
    ⟨e3, o6, b6, q6⟩, _⟩ := hd
  simp only [lrunState_append] at hq hgap
  obtain ⟨hqo, _⟩ := quiet_out_r c _ q6.ready quiet hq
  have hqb : lrunBursts c (lrunState c (lrunState c (lrunState c (lrunState c (lrunState c
      (lrunState c s g1.ticks) g2.ticks) g3.ticks) g4.ticks) g5.ticks) g6.ticks) quiet = [] := by
    rw [lrunBursts_eq, hqo]
    exact (noBurst_iff _).2 (noBurst_replicate _)
  obtain ⟨hgo, _⟩ := quiet_out_r c _ q3.ready _ hgap
  have hnc : (lrun c (lrunState c (lrunState c (lrunState c s g1.ticks) g2.ticks) g3.ticks) g4.ticks)[m]?
      = some .noCarrier := by
    have hlen : (g4.ticks.take (m + 1)).length = m + 1 := by rw [List.length_take]; omega
    rw [lrun_take, hlen] at hgo
    have h1 : ((lrun c (lrunState c (lrunState c (lrunState c s g1.ticks) g2.ticks) g3.ticks)
        g4.ticks).take (m + 1))[m]? = some .noCarrier := by
      rw [hgo]; simp
    rwa [List.getElem?_take_of_lt (by omega)] at h1
  refine ⟨t1, t2, t3, e1, e2, e3, _, _, _, _, _, _, ?_, o1, o2, o3, o4, o5, o6, hnc, ?_⟩
  · simp only [lrun_append, lrunState_append, hqo]
  · simp only [lrunBursts_append, lrunState_append, b1, b2, b3, b4, b5, b6, hqb]
    rfl

end SameVerif.Chain
