import SameVerif.Lemmas.HeaderFields
import SameVerif.Model.Message
/-
  Helper lemmas for the `MessageHeader` accessors: every accessor of a header whose text is the
  rendering of well-formed fields returns exactly the corresponding field; re-parsing a rendering;
  absence of line feeds; prefix tests.
-/
namespace SameVerif

/-- the value of a decimal digit string -/
def digitsVal (s : List Byte) : Nat := s.foldl (fun n c => 10 * n + (c.toNat - 48)) 0

/-! ### slices -/

theorem sliceP_mid (a m b : List Byte) (i j : Nat) (hi : i = a.length) (hj : j = a.length + m.length) :
    sliceP (a ++ m ++ b) i j = .ok m := by
  subst hi hj
  unfold sliceP
  have hb : a.length ≤ a.length + m.length ∧ a.length + m.length ≤ (a ++ m ++ b).length := by
    simp only [List.length_append]; omega
  rw [if_pos hb]
  have h1 : (a ++ m ++ b).drop a.length = m ++ b := by
    rw [List.append_assoc]; exact List.drop_left
  have h2 : a.length + m.length - a.length = m.length := by omega
  rw [h1, h2, List.take_left]

theorem sliceP_take (d : List Byte) (n : Nat) (h : n ≤ d.length) : sliceP d 0 n = .ok (d.take n) := by
  unfold sliceP
  rw [if_pos ⟨Nat.zero_le _, h⟩]
  simp

theorem sliceP_drop_take (d : List Byte) (a b : Nat) (h1 : a ≤ b) (h2 : b ≤ d.length) :
    sliceP d a b = .ok ((d.drop a).take (b - a)) := by
  unfold sliceP
  rw [if_pos ⟨h1, h2⟩]

theorem sliceP_drop (d : List Byte) (a : Nat) (h1 : a ≤ d.length) :
    sliceP d a d.length = .ok (d.drop a) := by
  unfold sliceP
  rw [if_pos ⟨h1, Nat.le_refl _⟩]
  congr 1
  apply List.take_of_length_le
  simp

/-! ### character classes -/

theorem isDigit_ne_dash (b : Byte) (h : isDigit b = true) : b ≠ 45 := by
  rintro rfl; revert h; decide

theorem isDigit_ne_lf (b : Byte) (h : isDigit b = true) : b ≠ 10 := by
  rintro rfl; revert h; decide

theorem isAlpha_ne_lf (b : Byte) (h : isAlpha b = true) : b ≠ 10 := by
  rintro rfl; revert h; decide

theorem notLF_ne_lf (b : Byte) (h : notLF b = true) : b ≠ 10 := by
  rintro rfl; revert h; decide

/-! ### numeric parses -/

theorem parseDigits_ok (s : List Byte) (hne : s ≠ []) (hd : ∀ b ∈ s, isDigit b = true) :
    parseDigits s = .ok (digitsVal s) := by
  unfold parseDigits digitsVal
  have h1 : s.isEmpty = false := by cases s <;> simp_all
  have h2 : s.all isDigit = true := by rw [List.all_eq_true]; exact hd
  simp [h1, h2]

/-! ### `split('-')` on the location text -/

/-- the fold inside `splitDash` -/
def splitAux (s : List Byte) : List Byte × List (List Byte) :=
  s.foldr (fun c (cur, acc) => if c == 45 then ([], cur :: acc) else (c :: cur, acc)) ([], [])

theorem splitDash_eq (s : List Byte) : Header.splitDash s = (splitAux s).1 :: (splitAux s).2 := by
  unfold Header.splitDash splitAux
  rfl

theorem splitAux_dash (t : List Byte) : splitAux (45 :: t) = ([], (splitAux t).1 :: (splitAux t).2) := by
  simp [splitAux]

theorem splitAux_nodash (g t : List Byte) (hg : ∀ b ∈ g, b ≠ 45) :
    splitAux (g ++ t) = (g ++ (splitAux t).1, (splitAux t).2) := by
  induction g with
  | nil => simp
  | cons c g ih =>
    have hc : c ≠ 45 := hg c (by simp)
    have := ih (fun b hb => hg b (by simp [hb]))
    have e : splitAux (c :: g ++ t) =
        (if c == 45 then ([], (splitAux (g ++ t)).1 :: (splitAux (g ++ t)).2)
         else (c :: (splitAux (g ++ t)).1, (splitAux (g ++ t)).2)) := by
      simp [splitAux]
    rw [e, this]
    simp [hc]

theorem splitAux_renderLocs (gs : List (List Byte)) (h : ∀ g ∈ gs, IsLoc g) :
    splitAux (renderLocs gs) = ([], gs) := by
  induction gs with
  | nil => simp [renderLocs, splitAux]
  | cons g gs ih =>
    have hg : ∀ b ∈ g, b ≠ 45 := fun b hb => isDigit_ne_dash b ((h g (by simp)).2 b hb)
    have := ih (fun x hx => h x (by simp [hx]))
    have e : renderLocs (g :: gs) = 45 :: (g ++ renderLocs gs) := by simp [renderLocs]
    rw [e, splitAux_dash, splitAux_nodash g _ hg, this]
    simp

/-- the text between the first `-` of the location run and the `+` -/
def locText (gs : List (List Byte)) : List Byte := (renderLocs gs).drop 1

theorem renderLocs_eq_dash_locText (gs : List (List Byte)) (hne : gs ≠ []) :
    renderLocs gs = 45 :: locText gs := by
  cases gs with
  | nil => exact absurd rfl hne
  | cons g gs => simp [locText, renderLocs]

theorem locText_cons (g : List Byte) (gs : List (List Byte)) :
    locText (g :: gs) = g ++ renderLocs gs := by
  simp [locText, renderLocs]

theorem splitDash_locText (gs : List (List Byte)) (hne : gs ≠ []) (h : ∀ g ∈ gs, IsLoc g) :
    Header.splitDash (locText gs) = gs := by
  cases gs with
  | nil => exact absurd rfl hne
  | cons g gs =>
    have hg : ∀ b ∈ g, b ≠ 45 := fun b hb => isDigit_ne_dash b ((h g (by simp)).2 b hb)
    have hr := splitAux_renderLocs gs (fun x hx => h x (by simp [hx]))
    rw [locText_cons, splitDash_eq, splitAux_nodash g _ hg, hr]
    simp

/-- the location text is the locations joined by `-` -/
theorem locText_eq_intercalate (gs : List (List Byte)) : locText gs = [45].intercalate gs := by
  cases gs with
  | nil => simp [locText, renderLocs]
  | cons g gs =>
    rw [locText_cons]
    induction gs generalizing g with
    | nil => simp [renderLocs]
    | cons g2 gs ih =>
      have e : renderLocs (g2 :: gs) = 45 :: (g2 ++ renderLocs gs) := by simp [renderLocs]
      rw [e, ih g2]
      simp [List.intercalate]

theorem locText_length (gs : List (List Byte)) (hne : gs ≠ []) (h : ∀ g ∈ gs, IsLoc g) :
    (locText gs).length + 1 = 7 * gs.length := by
  have := renderLocs_length gs h
  rw [renderLocs_eq_dash_locText gs hne] at this
  simpa using this

/-! ### the accessors on a rendered header -/

section accessors
variable (h : Header) (f : Fields) (hw : f.WF) (ht : h.text = f.render)
  (ho : h.offsetTime = 12 + 7 * f.locs.length)
include hw ht

theorem originatorStr_render : h.originatorStr = .ok f.org := by
  unfold Header.originatorStr
  have e : f.render = litZCZC ++ f.org ++
      (45 :: f.evt ++ renderLocs f.locs ++ 43 :: f.purge ++ 45 :: f.issue ++ 45 :: f.call ++ [45]) := by
    simp [Fields.render, List.append_assoc]
  rw [ht, e]
  exact sliceP_mid _ _ _ _ _ (by simp [litZCZC, Header.OFFSET_ORG])
    (by simp [litZCZC, Header.OFFSET_ORG, hw.org.1])

theorem eventStr_render : h.eventStr = .ok f.evt := by
  unfold Header.eventStr
  have e : f.render = (litZCZC ++ f.org ++ [45]) ++ f.evt ++
      (renderLocs f.locs ++ 43 :: f.purge ++ 45 :: f.issue ++ 45 :: f.call ++ [45]) := by
    simp [Fields.render, List.append_assoc]
  rw [ht, e]
  exact sliceP_mid _ _ _ _ _ (by simp [litZCZC, Header.OFFSET_EVT, hw.org.1])
    (by simp [litZCZC, Header.OFFSET_EVT, hw.org.1, hw.evt.1])

include ho

theorem locationStr_render : h.locationStr = .ok (locText f.locs) := by
  unfold Header.locationStr
  have e : f.render = (litZCZC ++ f.org ++ 45 :: f.evt ++ [45]) ++ locText f.locs ++
      (43 :: f.purge ++ 45 :: f.issue ++ 45 :: f.call ++ [45]) := by
    simp [Fields.render, List.append_assoc, renderLocs_eq_dash_locText f.locs hw.locs_ne]
  have hl := locText_length f.locs hw.locs_ne hw.locs
  rw [ht, e, ho]
  exact sliceP_mid _ _ _ _ _ (by simp [litZCZC, Header.OFFSET_AREA_START, hw.org.1, hw.evt.1])
    (by simp [litZCZC, hw.org.1, hw.evt.1]; omega)

theorem locations_render : h.locations = .ok f.locs := by
  unfold Header.locations
  rw [locationStr_render h f hw ht ho]
  simp only
  rw [splitDash_locText f.locs hw.locs_ne hw.locs]

theorem purgeSlice_render :
    sliceP h.text (h.offsetTime + Header.OFFSET_FROMPLUS_VALIDTIME)
      (h.offsetTime + Header.OFFSET_FROMPLUS_VALIDTIME + 4) = .ok f.purge := by
  have e : f.render = (litZCZC ++ f.org ++ 45 :: f.evt ++ renderLocs f.locs ++ [43]) ++ f.purge ++
      (45 :: f.issue ++ 45 :: f.call ++ [45]) := by
    simp [Fields.render, List.append_assoc]
  have hl := renderLocs_length f.locs hw.locs
  rw [ht, e, ho]
  exact sliceP_mid _ _ _ _ _
    (by simp [litZCZC, Header.OFFSET_FROMPLUS_VALIDTIME, hw.org.1, hw.evt.1, hl]; omega)
    (by simp [litZCZC, Header.OFFSET_FROMPLUS_VALIDTIME, hw.org.1, hw.evt.1, hl, hw.purge.1]; omega)

theorem issueSlice_render :
    sliceP h.text (h.offsetTime + Header.OFFSET_FROMPLUS_ISSUETIME)
      (h.offsetTime + Header.OFFSET_FROMPLUS_ISSUETIME + 7) = .ok f.issue := by
  have e : f.render = (litZCZC ++ f.org ++ 45 :: f.evt ++ renderLocs f.locs ++ 43 :: f.purge ++ [45])
      ++ f.issue ++ (45 :: f.call ++ [45]) := by
    simp [Fields.render, List.append_assoc]
  have hl := renderLocs_length f.locs hw.locs
  rw [ht, e, ho]
  exact sliceP_mid _ _ _ _ _
    (by simp [litZCZC, Header.OFFSET_FROMPLUS_ISSUETIME, hw.org.1, hw.evt.1, hl, hw.purge.1]; omega)
    (by simp [litZCZC, Header.OFFSET_FROMPLUS_ISSUETIME, hw.org.1, hw.evt.1, hl, hw.purge.1,
          hw.issue.1]; omega)

theorem callsign_render : h.callsign = .ok f.call := by
  unfold Header.callsign
  have e : f.render = (litZCZC ++ f.org ++ 45 :: f.evt ++ renderLocs f.locs ++ 43 :: f.purge
      ++ 45 :: f.issue ++ [45]) ++ f.call ++ [45] := by
    simp [Fields.render, List.append_assoc]
  have hl := renderLocs_length f.locs hw.locs
  have hlen : ¬ (h.text.length < Header.OFFSET_FROMEND_CALLSIGN_END) := by
    rw [ht, e]; simp [Header.OFFSET_FROMEND_CALLSIGN_END]
  rw [if_neg hlen, ht, e, ho]
  exact sliceP_mid _ _ _ _ _
    (by simp [litZCZC, Header.OFFSET_FROMPLUS_CALLSIGN, hw.org.1, hw.evt.1, hl, hw.purge.1,
          hw.issue.1]; omega)
    (by simp [litZCZC, Header.OFFSET_FROMEND_CALLSIGN_END, hw.org.1, hw.evt.1, hl, hw.purge.1,
          hw.issue.1]; omega)

theorem validDurationFields_render :
    h.validDurationFields = .ok (digitsVal (f.purge.take 2), digitsVal (f.purge.drop 2)) := by
  unfold Header.validDurationFields
  rw [purgeSlice_render h f hw ht ho]
  obtain ⟨hl, hd⟩ := hw.purge
  have s1 : sliceP f.purge 0 2 = .ok (f.purge.take 2) := sliceP_take _ _ (by omega)
  have s2 : sliceP f.purge 2 4 = .ok (f.purge.drop 2) := by
    have := sliceP_drop f.purge 2 (by omega); rwa [hl] at this
  have p1 : parseDigits (f.purge.take 2) = .ok (digitsVal (f.purge.take 2)) :=
    parseDigits_ok _ (by intro hc; have := congrArg List.length hc; simp [hl] at this)
      (fun b hb => hd b (List.mem_of_mem_take hb))
  have p2 : parseDigits (f.purge.drop 2) = .ok (digitsVal (f.purge.drop 2)) :=
    parseDigits_ok _ (by intro hc; have := congrArg List.length hc; simp [hl] at this)
      (fun b hb => hd b (List.mem_of_mem_drop hb))
  simp only [s1, s2, p1, p2]

theorem issueDaytimeFields_render :
    h.issueDaytimeFields = .ok (digitsVal (f.issue.take 3), digitsVal ((f.issue.drop 3).take 2),
      digitsVal (f.issue.drop 5)) := by
  unfold Header.issueDaytimeFields
  rw [issueSlice_render h f hw ht ho]
  obtain ⟨hl, hd⟩ := hw.issue
  have s1 : sliceP f.issue 0 3 = .ok (f.issue.take 3) := sliceP_take _ _ (by omega)
  have s2 : sliceP f.issue 3 5 = .ok ((f.issue.drop 3).take 2) :=
    sliceP_drop_take _ _ _ (by omega) (by omega)
  have s3 : sliceP f.issue 5 7 = .ok (f.issue.drop 5) := by
    have := sliceP_drop f.issue 5 (by omega); rwa [hl] at this
  have p1 : parseDigits (f.issue.take 3) = .ok (digitsVal (f.issue.take 3)) :=
    parseDigits_ok _ (by intro hc; have := congrArg List.length hc; simp [hl] at this)
      (fun b hb => hd b (List.mem_of_mem_take hb))
  have p2 : parseDigits ((f.issue.drop 3).take 2) = .ok (digitsVal ((f.issue.drop 3).take 2)) :=
    parseDigits_ok _ (by intro hc; have := congrArg List.length hc; simp [hl] at this)
      (fun b hb => hd b (List.mem_of_mem_drop (List.mem_of_mem_take hb)))
  have p3 : parseDigits (f.issue.drop 5) = .ok (digitsVal (f.issue.drop 5)) :=
    parseDigits_ok _ (by intro hc; have := congrArg List.length hc; simp [hl] at this)
      (fun b hb => hd b (List.mem_of_mem_drop hb))
  simp only [s1, s2, s3, p1, p2, p3]

end accessors

/-! ### re-parsing a rendering -/

/-- on exactly `callsign-`, the greedy `.{3,8}-` finds that callsign and nothing remains -/
theorem callsignOf_exact (c : List Byte) (hc : IsCall c) : callsignOf (c ++ [45]) = some (c, []) := by
  have hs := callsignOf_complete c [] hc
  cases hcs : callsignOf (c ++ [45]) with
  | none => simp [hcs] at hs
  | some p =>
    obtain ⟨c', r'⟩ := p
    obtain ⟨e, _⟩ := callsignOf_sound _ _ _ hcs
    have hge := callsignOf_greedy _ c' r' c [] hcs rfl hc
    have hlen := congrArg List.length e
    simp only [List.length_append, List.length_cons, List.length_nil] at hlen
    have hr : r' = [] := List.eq_nil_of_length_eq_zero (by omega)
    subst hr
    have : c = c' := by
      have := List.append_cancel_right e
      exact this
    subst this
    rfl

/-- the rendering of well-formed fields parses back to the same fields, with nothing left over -/
theorem parseFields_render (f : Fields) (hw : f.WF) :
    parseFields f.render = some { f with rest := [] } := by
  obtain ⟨call', rest', hp⟩ := parseFields_complete f [] hw
  obtain ⟨_, hs, hcs⟩ := parseFields_sound' _ _ hp
  simp only [Fields.render, List.append_assoc, List.cons_append, List.append_nil] at hs
  have e : f.call ++ [45] = call' ++ 45 :: rest' := by simpa using hs
  simp only at hcs
  rw [← e, callsignOf_exact f.call hw.call] at hcs
  simp only [Option.some.injEq, Prod.mk.injEq] at hcs
  obtain ⟨rfl, rfl⟩ := hcs
  rw [List.append_nil] at hp
  exact hp

/-! ### no line feed -/

theorem renderLocs_no_lf (gs : List (List Byte)) (h : ∀ g ∈ gs, IsLoc g) : (10 : Byte) ∉ renderLocs gs := by
  intro hm
  simp only [renderLocs, List.mem_flatMap, List.mem_cons] at hm
  obtain ⟨g, hg, hb⟩ := hm
  rcases hb with hb | hb
  · revert hb; decide
  · exact isDigit_ne_lf 10 ((h g hg).2 10 hb) rfl

theorem render_no_lf (f : Fields) (hw : f.WF) : (10 : Byte) ∉ f.render := by
  intro hm
  simp only [Fields.render, litZCZC, List.mem_append, List.mem_cons] at hm
  have d1 : ¬ ((10 : Byte) = 90) := by decide
  have d2 : ¬ ((10 : Byte) = 67) := by decide
  have d3 : ¬ ((10 : Byte) = 45) := by decide
  have d4 : ¬ ((10 : Byte) = 43) := by decide
  simp only [d1, d2, d3, d4, false_or, or_false, List.not_mem_nil] at hm
  rcases hm with (((((hm | hm) | hm) | hm) | hm) | hm)
  all_goals first
    | exact isAlpha_ne_lf 10 (hw.org.2 10 hm) rfl
    | exact isAlpha_ne_lf 10 (hw.evt.2 10 hm) rfl
    | exact renderLocs_no_lf f.locs hw.locs hm
    | exact isDigit_ne_lf 10 (hw.purge.2 10 hm) rfl
    | exact isDigit_ne_lf 10 (hw.issue.2 10 hm) rfl
    | exact notLF_ne_lf 10 (hw.call.2.2 10 hm) rfl

/-! ### prefix tests -/

theorem startsWith_iff (s lit : List Byte) : startsWith s lit = true ↔ ∃ r, s = lit ++ r := by
  unfold startsWith
  rw [Option.isSome_iff_exists]
  exact exists_congr (fun r => stripLit_some lit s r)

end SameVerif
