import SameVerif.Lemmas.HeaderParse
/- The matcher as a whole: `parseFields s = some f` iff `s` decomposes into well-formed fields. -/
namespace SameVerif

/-- the header text determined by its fields (everything except `rest`) -/
def Fields.render (f : Fields) : List Byte :=
  litZCZC ++ f.org ++ 45 :: f.evt ++ renderLocs f.locs ++ 43 :: f.purge ++ 45 :: f.issue ++ 45 :: f.call ++ [45]

structure Fields.WF (f : Fields) : Prop where
  org : f.org.length = 3 ∧ ∀ b ∈ f.org, isAlpha b = true
  evt : f.evt.length = 3 ∧ ∀ b ∈ f.evt, isAlpha b = true
  locs_ne : f.locs ≠ []
  locs : ∀ g ∈ f.locs, IsLoc g
  purge : f.purge.length = 4 ∧ ∀ b ∈ f.purge, isDigit b = true
  issue : f.issue.length = 7 ∧ ∀ b ∈ f.issue, isDigit b = true
  call : IsCall f.call

theorem parseFields_sound' (s : List Byte) (f : Fields) (h : parseFields s = some f) :
    f.WF ∧ s = f.render ++ f.rest ∧ callsignOf (f.call ++ 45 :: f.rest) = some (f.call, f.rest) := by
  unfold parseFields at h
  cases h0 : stripLit litZCZC s with
  | none => simp [h0] at h
  | some s1 =>
  simp only [h0] at h
  cases h1 : takeN isAlpha 3 s1 with
  | none => simp [h1] at h
  | some p1 =>
  obtain ⟨org, s2⟩ := p1
  simp only [h1] at h
  cases s2 with
  | nil => simp at h
  | cons c2 s3 =>
  have hc2 : c2 = 45 := by
    by_cases hc : c2 = 45
    · exact hc
    · exfalso; split at h <;> simp_all
  subst hc2
  simp only at h
  cases h3 : takeN isAlpha 3 s3 with
  | none => simp [h3] at h
  | some p3 =>
  obtain ⟨evt, s4⟩ := p3
  simp only [h3] at h
  cases h4 : locGroups s4.length s4 with
  | mk locs s5 =>
  simp only [h4] at h
  cases locs with
  | nil => simp at h
  | cons l0 locs' =>
  simp only at h
  cases s5 with
  | nil => simp at h
  | cons c5 s6 =>
  have hc5 : c5 = 43 := by
    by_cases hc : c5 = 43
    · exact hc
    · exfalso; split at h <;> simp_all
  subst hc5
  simp only at h
  cases h6 : takeN isDigit 4 s6 with
  | none => simp [h6] at h
  | some p6 =>
  obtain ⟨purge, s7⟩ := p6
  simp only [h6] at h
  cases s7 with
  | nil => simp at h
  | cons c7 s8 =>
  have hc7 : c7 = 45 := by
    by_cases hc : c7 = 45
    · exact hc
    · exfalso; split at h <;> simp_all
  subst hc7
  simp only at h
  cases h8 : takeN isDigit 7 s8 with
  | none => simp [h8] at h
  | some p8 =>
  obtain ⟨issue, s9⟩ := p8
  simp only [h8] at h
  cases s9 with
  | nil => simp at h
  | cons c9 s10 =>
  have hc9 : c9 = 45 := by
    by_cases hc : c9 = 45
    · exact hc
    · exfalso; split at h <;> simp_all
  subst hc9
  simp only at h
  cases h10 : callsignOf s10 with
  | none => simp [h10] at h
  | some p10 =>
  obtain ⟨call, rest⟩ := p10
  simp only [h10, Option.some.injEq] at h
  subst h
  have e0 := (stripLit_some litZCZC s s1).mp h0
  obtain ⟨e1, l1, a1⟩ := takeN_some _ _ _ _ _ h1
  obtain ⟨e3, l3, a3⟩ := takeN_some _ _ _ _ _ h3
  obtain ⟨e4, a4⟩ := locGroups_sound _ _ _ _ h4
  obtain ⟨e6, l6, a6⟩ := takeN_some _ _ _ _ _ h6
  obtain ⟨e8, l8, a8⟩ := takeN_some _ _ _ _ _ h8
  obtain ⟨e10, a10⟩ := callsignOf_sound _ _ _ h10
  refine ⟨⟨⟨l1, a1⟩, ⟨l3, a3⟩, by simp, a4, ⟨l6, a6⟩, ⟨l8, a8⟩, a10⟩, ?_, ?_⟩
  · simp only [Fields.render]
    rw [e0, e1, e3, e4, e6, e8, e10]
    simp [List.append_assoc]
  · simp only; rw [← e10]; exact h10

theorem parseFields_sound (s : List Byte) (f : Fields) (h : parseFields s = some f) :
    f.WF ∧ s = f.render ++ f.rest :=
  ⟨(parseFields_sound' s f h).1, (parseFields_sound' s f h).2.1⟩

end SameVerif

namespace SameVerif

theorem renderLocs_length (gs : List (List Byte)) (h : ∀ g ∈ gs, IsLoc g) :
    (renderLocs gs).length = 7 * gs.length := by
  induction gs with
  | nil => simp [renderLocs]
  | cons g gs ih =>
    have hg := (h g (by simp)).1
    have := ih (fun x hx => h x (by simp [hx]))
    simp only [renderLocs, List.flatMap_cons, List.length_append, List.length_cons] at this ⊢
    omega

/-- any text that begins with well-formed fields is accepted; the matcher may extend the callsign
    (greedy `.{3,8}-`), everything before it is found exactly -/
theorem parseFields_complete (f : Fields) (rest : List Byte) (hw : f.WF) :
    ∃ call' rest', parseFields (f.render ++ rest) = some { f with call := call', rest := rest' } := by
  obtain ⟨⟨l1, a1⟩, ⟨l3, a3⟩, hne, a4, ⟨l6, a6⟩, ⟨l8, a8⟩, a10⟩ := hw
  have hs : f.render ++ rest
      = litZCZC ++ (f.org ++ (45 :: (f.evt ++ (renderLocs f.locs ++ (43 :: (f.purge ++ (45 :: (f.issue ++ (45 :: (f.call ++ 45 :: rest)))))))))) := by
    simp [Fields.render, List.append_assoc]
  rw [hs]
  have t1 := takeN_append isAlpha f.org (45 :: (f.evt ++ (renderLocs f.locs ++ (43 :: (f.purge ++ (45 :: (f.issue ++ (45 :: (f.call ++ 45 :: rest))))))))) a1
  rw [l1] at t1
  have t3 := takeN_append isAlpha f.evt (renderLocs f.locs ++ (43 :: (f.purge ++ (45 :: (f.issue ++ (45 :: (f.call ++ 45 :: rest))))))) a3
  rw [l3] at t3
  have t4 : ∀ n, f.locs.length ≤ n →
      locGroups n (renderLocs f.locs ++ (43 :: (f.purge ++ (45 :: (f.issue ++ (45 :: (f.call ++ 45 :: rest)))))))
        = (f.locs, 43 :: (f.purge ++ (45 :: (f.issue ++ (45 :: (f.call ++ 45 :: rest)))))) := by
    intro n hn
    exact locGroups_complete f.locs n _ a4 hn (by simp)
  have t6 := takeN_append isDigit f.purge (45 :: (f.issue ++ (45 :: (f.call ++ 45 :: rest)))) a6
  rw [l6] at t6
  have t8 := takeN_append isDigit f.issue (45 :: (f.call ++ 45 :: rest)) a8
  rw [l8] at t8
  have t10 := callsignOf_complete f.call rest a10
  cases hcs : callsignOf (f.call ++ 45 :: rest) with
  | none => simp [hcs] at t10
  | some p =>
    obtain ⟨call', rest'⟩ := p
    refine ⟨call', rest', ?_⟩
    have hlen : f.locs.length ≤ (renderLocs f.locs ++ (43 :: (f.purge ++ (45 :: (f.issue ++ (45 :: (f.call ++ 45 :: rest))))))).length := by
      rw [List.length_append, renderLocs_length _ a4]; omega
    unfold parseFields
    rw [(stripLit_some litZCZC _ _).mpr rfl]
    simp only [t1, t3]
    rw [t4 _ hlen]
    cases hl : f.locs with
    | nil => exact absurd hl hne
    | cons l0 ls =>
      simp only [← hl, t6, t8, hcs]

end SameVerif
