import SameVerif.Spec.StreamObserved
import SameVerif.Lemmas.ChainLinkR
/-
  From the observational assumptions on a whole stream (`Spec.StreamObserved`) to the state-based
  assumptions of every burst (`Spec.BurstObserved'`, `Spec.NoFalseHits`), the link model running
  from the initial state `{}` (support for `Thm/C01s.lean`, `Thm/ChainR.lean`).
-/
namespace SameVerif.Chain
open SameVerif SameVerif.Spec

/-! ### slices of a stream -/

/-- the ticks `xs[a, b)` -/
def slice (xs : List Tick) (a b : Nat) : List Tick := (xs.drop a).take (b - a)

theorem slice_length (xs : List Tick) (a b : Nat) (h : b ≤ xs.length) : (slice xs a b).length = b - a := by
  unfold slice; rw [List.length_take, List.length_drop]; omega

theorem slice_getElem? (xs : List Tick) (a b i : Nat) (hi : i < b - a) :
    (slice xs a b)[i]? = xs[a + i]? := by
  unfold slice; rw [List.getElem?_take_of_lt hi, List.getElem?_drop]

theorem getElem_slice (xs : List Tick) (a b i : Nat) (h : i < (slice xs a b).length) :
    (slice xs a b)[i] = xs.getD (a + i) dfltTick := by
  have hi : i < b - a := by
    unfold slice at h; rw [List.length_take] at h; omega
  have h1 := slice_getElem? xs a b i hi
  rw [List.getElem?_eq_getElem h] at h1
  rw [List.getD_eq_getElem?_getD, ← h1]; rfl

theorem slice_append (xs : List Tick) (a b c : Nat) (h1 : a ≤ b) (h2 : b ≤ c) :
    slice xs a b ++ slice xs b c = slice xs a c := by
  unfold slice
  rw [show c - a = (b - a) + (c - b) by omega, List.take_add, List.drop_drop,
    show a + (b - a) = b by omega]

theorem take_append_slice (xs : List Tick) (a b : Nat) (h : a ≤ b) :
    xs.take a ++ slice xs a b = xs.take b := by
  unfold slice
  rw [show b = a + (b - a) by omega, List.take_add, show a + (b - a) - a = b - a by omega]

attribute [irreducible] slice

/-! ### the observational no-hit condition is the model's -/

theorem bitAt_eq (xs : List Tick) (m : Nat) : bitAt xs m = (xs.getD m dfltTick).1.bit := by
  unfold bitAt; rw [List.getD_eq_getElem?_getD]; cases xs[m]? <;> rfl

/-- window far from the sync word or open threshold not met ⇒ the model cannot hit, whatever the
    state it started from (`errOf_run`: after 31 ticks the correlator is a function of the stream) -/
theorem noHitAt_of_quietAt (c : LCfg) (s : LState) (xs : List Tick) (t : Nat) (h31 : 31 ≤ t)
    (h : t < xs.length → QuietAtF c.maxErrors (fun i => xs.getD i dfltTick) t) : NoHitAt c s xs t := by
  intro x hx
  obtain ⟨ht, rfl⟩ := List.getElem?_eq_some_iff.1 hx
  rcases h ht with h | h
  · right; left
    simpa [List.getD_eq_getElem?_getD, List.getElem?_eq_getElem ht] using h
  · right; right
    rw [errOf_run c s xs t h31 ht]
    unfold windowErrF at h
    simp only [← bitAt_eq] at h
    exact h

theorem noHitAt_mid (c : LCfg) (s : LState) (pre xs post : List Tick) (a t : Nat) (hp : pre.length = a)
    (ht : t < xs.length) (h : NoHitAt c s (pre ++ (xs ++ post)) (a + t)) :
    NoHitAt c (lrunState c s pre) xs t := by
  subst hp
  rwa [noHitAt_append_right, noHitAt_append_left _ _ _ _ _ ht] at h

/-! ### the global condition, burst by burst -/

/-- the no-false-hit condition cut along the bursts: quiet from `a` to the first synchronised
    stretch, over each minimal tail, between bursts, and after the last one -/
def QuietOutside (maxErr : Nat) (tk : Nat → Tick) (len : Nat) : Nat → List BurstSpec → Prop
  | a, [] => ∀ t, a ≤ t → t < len → 31 ≤ t → QuietAtF maxErr tk t
  | a, g :: gs => (∀ t, a ≤ t → t < g.o + g.acq + 31 → 31 ≤ t → QuietAtF maxErr tk t)
      ∧ (∀ t, g.e ≤ t → t < g.stop → QuietAtF maxErr tk t)
      ∧ QuietOutside maxErr tk len g.stop gs

theorem _root_.SameVerif.Spec.BurstSpec.n_ge (g : BurstSpec) : 128 ≤ g.n := by
  unfold BurstSpec.n; rw [frame_length]; omega

theorem _root_.SameVerif.Spec.BurstSpec.e_le_stop (g : BurstSpec) : g.e ≤ g.stop := by
  unfold BurstSpec.e BurstSpec.stop; omega

theorem ordered_lb : ∀ (gs : List BurstSpec) (lo : Nat), orderedFrom lo gs → ∀ g ∈ gs, lo ≤ g.o := by
  intro gs
  induction gs with
  | nil => intro lo _ g hg; cases hg
  | cons g gs ih =>
    intro lo h g' hg'
    obtain ⟨h1, h2⟩ := h
    rcases List.mem_cons.1 hg' with rfl | hm
    · exact h1
    · have := ih _ h2 g' hm
      have := g.e_le_stop
      unfold BurstSpec.e at this
      omega

theorem ordered_mono : ∀ (gs : List BurstSpec) (lo lo' : Nat), lo' ≤ lo → orderedFrom lo gs → orderedFrom lo' gs := by
  intro gs lo lo' h ho
  cases gs with
  | nil => trivial
  | cons g gs => exact ⟨Nat.le_trans h ho.1, ho.2⟩

theorem quietOutside_of_global (maxErr : Nat) (tk : Nat → Tick) (len : Nat) (all : List BurstSpec)
    (hall : ∀ g ∈ all, BurstAtF tk len g)
    (hglob : ∀ t, t < len → 31 ≤ t → InSynced all t ∨ QuietAtF maxErr tk t) :
    ∀ (segs pre : List BurstSpec) (a : Nat), all = pre ++ segs → (∀ g ∈ pre, g.e ≤ a) →
      orderedFrom a segs → QuietOutside maxErr tk len a segs := by
  intro segs
  induction segs with
  | nil =>
    intro pre a hsplit hpre _ t h1 h2 h3
    rcases hglob t h2 h3 with ⟨g, hg, _, hlt⟩ | h
    · rw [hsplit, List.append_nil] at hg
      have := hpre g hg
      unfold BurstSpec.e at this
      omega
    · exact h
  | cons g gs ih =>
    intro pre a hsplit hpre hord
    obtain ⟨ho1, ho2⟩ := hord
    have hgall : g ∈ all := by rw [hsplit]; simp
    obtain ⟨b1, b2, _⟩ := hall g hgall
    have hn := g.n_ge
    have hes := g.e_le_stop
    have hlb := ordered_lb gs _ ho2
    have he : g.e = g.o + g.n := rfl
    refine ⟨?_, ?_, ?_⟩
    · intro t h1 h2 h3
      rcases hglob t (by omega) h3 with ⟨g', hg', hge, hlt⟩ | h
      · rw [hsplit] at hg'
        rcases List.mem_append.1 hg' with hp | hp
        · have := hpre g' hp
          unfold BurstSpec.e at this
          omega
        · rcases List.mem_cons.1 hp with rfl | hp
          · omega
          · have := hlb g' hp
            omega
      · exact h
    · intro t h1 h2
      rcases hglob t (by omega) (by omega) with ⟨g', hg', hge, hlt⟩ | h
      · rw [hsplit] at hg'
        rcases List.mem_append.1 hg' with hp | hp
        · have := hpre g' hp
          unfold BurstSpec.e at this
          omega
        · rcases List.mem_cons.1 hp with rfl | hp
          · omega
          · have := hlb g' hp
            omega
      · exact h
    · apply ih (pre ++ [g]) g.stop (by rw [hsplit]; simp) ?_ ho2
      intro g' hg'
      rcases List.mem_append.1 hg' with hp | hp
      · have := hpre g' hp
        omega
      · rw [List.mem_singleton.1 hp]; exact hes

/-! ### one burst of the stream as a segment -/

/-- burst `g` with its lead-in from tick `a`, cut out of the stream -/
def segOf (stream : List Tick) (a : Nat) (g : BurstSpec) : Seg :=
  ⟨slice stream a g.o, slice stream g.o g.e, slice stream g.e g.stop, g.acq, g.rel⟩

theorem segOf_ticks (stream : List Tick) (a : Nat) (g : BurstSpec) (ha : a ≤ g.o) :
    (segOf stream a g).ticks = slice stream a g.stop := by
  have he : g.o ≤ g.e := by unfold BurstSpec.e; omega
  have hes := g.e_le_stop
  unfold Seg.ticks segOf
  simp only
  rw [slice_append _ _ _ _ ha he, slice_append _ _ _ _ (by omega) hes]

theorem burstObserved'_of_burstAt (stream : List Tick) (g : BurstSpec)
    (h : BurstAtF (fun i => stream.getD i dfltTick) stream.length g) :
    BurstObserved' g.payload (slice stream g.o g.e) (slice stream g.e g.stop) g.acq g.rel := by
  obtain ⟨b1, b2, b3, b4, b5, b6, b7, b8, b9⟩ := h
  have hes := g.e_le_stop
  have he : g.e = g.o + g.n := rfl
  have hst : g.stop = g.e + (g.rel + 40) := rfl
  have hbl : (slice stream g.o g.e).length = g.n := by rw [slice_length _ _ _ (by omega)]; omega
  have htl : (slice stream g.e g.stop).length = g.rel + 40 := by rw [slice_length _ _ _ b1]; omega
  have hn : g.n = 8 * (frameOf g.payload).length := rfl
  refine ⟨by rw [hbl, hn], b2, ?_, ?_, ?_, ?_, ?_, ?_, ?_, by rw [htl]; exact Nat.le_refl _⟩
  · intro j hj hacq
    rw [getElem_slice, bitsOf_getD]
    exact b3 j (by rw [← hbl]; exact hj) hacq
  · intro j hj hacq
    rw [getElem_slice]
    exact b4 j (by rw [← hbl]; exact hj) hacq
  · intro j hj hacq
    rw [getElem_slice]
    exact b5 j (by rw [← hbl]; exact hj) hacq
  · intro m hm hj
    rw [getElem_slice]
    exact b6 m (by omega)
  · intro m hm hk
    rw [getElem_slice]
    exact b7 m hm
  · intro k hk hr
    rw [getElem_slice]
    exact b8 k hr
  · intro k hk hr
    rw [getElem_slice]
    exact b9 k (by rw [← htl]; exact hk) hr

theorem observed'_of_burstAt (stream : List Tick) (a : Nat) (g : BurstSpec)
    (h : BurstAtF (fun i => stream.getD i dfltTick) stream.length g) :
    Observed' g.payload (segOf stream a g) := burstObserved'_of_burstAt stream g h

theorem stream_split (stream : List Tick) (a b : Nat) (h : a ≤ b) :
    stream.take a ++ (slice stream a b ++ stream.drop b) = stream := by
  rw [← List.append_assoc, take_append_slice _ _ _ h, List.take_append_drop]

/-- no false hits over one burst, from the observational condition -/
theorem noFalse_of_stream (c : LCfg) (stream : List Tick) (a : Nat) (g : BurstSpec)
    (ha : a ≤ g.o) (h32 : 32 ≤ g.o) (hstop : g.stop ≤ stream.length) (hacq : g.acq ≤ 89)
    (hq1 : ∀ t, a ≤ t → t < g.o + g.acq + 31 → 31 ≤ t →
      QuietAtF c.maxErrors (fun i => stream.getD i dfltTick) t)
    (hq2 : ∀ t, g.e ≤ t → t < g.stop → QuietAtF c.maxErrors (fun i => stream.getD i dfltTick) t) :
    NoFalse c (lrunState c {} (stream.take a)) (segOf stream a g) := by
  have hn := g.n_ge
  have hes := g.e_le_stop
  have he : g.e = g.o + g.n := rfl
  have hst : g.stop = g.e + (g.rel + 40) := rfl
  have hll : (slice stream a g.o).length = g.o - a := slice_length _ _ _ (by omega)
  have hbl : (slice stream g.o g.e).length = g.n := by rw [slice_length _ _ _ (by omega)]; omega
  have htl : (slice stream g.e g.stop).length = g.rel + 40 := by rw [slice_length _ _ _ hstop]; omega
  have hsl : (slice stream a g.stop).length = g.stop - a := slice_length _ _ _ hstop
  have hta : (stream.take a).length = a := by rw [List.length_take]; omega
  have hticks : slice stream a g.o ++ slice stream g.o g.e ++ slice stream g.e g.stop
      = slice stream a g.stop := by
    have := segOf_ticks stream a g ha
    unfold Seg.ticks segOf at this
    exact this
  -- the key fact: a quiet global tick is a no-hit tick of the segment
  have key : ∀ t, t < g.stop - a → 31 ≤ a + t →
      QuietAtF c.maxErrors (fun i => stream.getD i dfltTick) (a + t) →
      NoHitAt c (lrunState c {} (stream.take a)) (slice stream a g.stop) t := by
    intro t ht h31 hq
    have h0 := noHitAt_of_quietAt c {} stream (a + t) h31 (fun _ => hq)
    have h1 : NoHitAt c {} (stream.take a ++ (slice stream a g.stop ++ stream.drop g.stop)) (a + t) := by
      rw [stream_split stream a g.stop (by omega)]; exact h0
    exact noHitAt_mid c {} _ _ _ a t hta (by omega) h1
  constructor
  · intro t ht hns
    show NoHitAt c _ (slice stream a g.o ++ slice stream g.o g.e ++ slice stream g.e g.stop) t
    rw [hticks]
    change t < (slice stream a g.o).length at ht
    rw [nsym_run, hta] at hns
    have hns : 31 ≤ a + t := by simpa using hns
    exact key t (by omega) hns (hq1 (a + t) (by omega) (by omega) hns)
  · intro t ht
    show NoHitAt c _ (slice stream a g.o ++ slice stream g.o g.e ++ slice stream g.e g.stop)
      ((slice stream a g.o).length + t)
    rw [hticks, hll]
    change t < g.acq + 31 at ht
    exact key _ (by omega) (by omega)
      (by rw [show a + (g.o - a + t) = g.o + t by omega]; exact hq1 _ (by omega) (by omega) (by omega))
  · intro t ht
    show NoHitAt c _ (slice stream a g.o ++ slice stream g.o g.e ++ slice stream g.e g.stop)
      ((slice stream a g.o).length + (slice stream g.o g.e).length + t)
    rw [hticks, hll, hbl]
    change t < (slice stream g.e g.stop).length at ht
    exact key _ (by omega) (by omega)
      (by rw [show a + (g.o - a + g.n + t) = g.e + t by omega]; exact hq2 _ (by omega) (by omega))

/-! ### all bursts of the stream -/

/-- the bursts as segments: the first lead-in starts at `a`, each following one where the previous
    minimal tail ends -/
def segsOf (stream : List Tick) : Nat → List BurstSpec → List (List Byte × Seg)
  | _, [] => []
  | a, g :: gs => (g.payload, segOf stream a g) :: segsOf stream g.stop gs

/-- where the last minimal tail ends -/
def lastStop : Nat → List BurstSpec → Nat
  | a, [] => a
  | _, g :: gs => lastStop g.stop gs

/-- **from the stream to the segments**: the state-based hypotheses hold for every burst (each
    entered in the state the link model actually is in), the segments tile the stream up to
    `lastStop`, and the rest of the stream is quiet -/
theorem segsOk_of_stream (c : LCfg) (stream : List Tick) :
    ∀ (segs : List BurstSpec) (a : Nat),
      (∀ g ∈ segs, BurstAtF (fun i => stream.getD i dfltTick) stream.length g ∧ PayloadCond c g.payload
        ∧ 32 ≤ g.o) →
      orderedFrom a segs → a ≤ stream.length →
      QuietOutside c.maxErrors (fun i => stream.getD i dfltTick) stream.length a segs →
      SegsOk c (lrunState c {} (stream.take a)) (segsOf stream a segs)
        ∧ stream.take (lastStop a segs)
            = stream.take a ++ (segsOf stream a segs).flatMap (fun p => p.2.ticks)
        ∧ a ≤ lastStop a segs ∧ lastStop a segs ≤ stream.length
        ∧ (∀ t, lastStop a segs ≤ t → t < stream.length → 31 ≤ t →
            QuietAtF c.maxErrors (fun i => stream.getD i dfltTick) t) := by
  intro segs
  induction segs with
  | nil =>
    intro a _ _ ha hq
    exact ⟨trivial, by simp [segsOf, lastStop], Nat.le_refl _, ha, hq⟩
  | cons g gs ih =>
    intro a hall hord ha hq
    obtain ⟨hb, hpc, h32⟩ := hall g List.mem_cons_self
    obtain ⟨ho1, ho2⟩ := hord
    obtain ⟨hq1, hq2, hq3⟩ := hq
    have hstop : g.stop ≤ stream.length := hb.1
    have hes := g.e_le_stop
    have he : g.e = g.o + g.n := rfl
    have hta : (stream.take a).length = a := by rw [List.length_take]; omega
    have hticks := segOf_ticks stream a g ho1
    have hstate : lrunState c (lrunState c {} (stream.take a)) (segOf stream a g).ticks
        = lrunState c {} (stream.take g.stop) := by
      rw [← lrunState_append, hticks, take_append_slice _ _ _ (by omega)]
    obtain ⟨i1, i2, i3, i4, i5⟩ := ih g.stop (fun g' hg' => hall g' (List.mem_cons_of_mem _ hg'))
      ho2 hstop hq3
    refine ⟨⟨hpc, observed'_of_burstAt stream a g hb, ?_,
      noFalse_of_stream c stream a g ho1 h32 hstop hb.2.1 hq1 hq2, ?_⟩, ?_, ?_, i4, i5⟩
    · rw [nsym_run, hta]
      show 32 ≤ ({} : LState).nsym + a + (slice stream a g.o).length
      rw [slice_length _ _ _ (by omega)]
      omega
    · show SegsOk c (lrunState c (lrunState c {} (stream.take a)) (segOf stream a g).ticks)
        (segsOf stream g.stop gs)
      rw [hstate]; exact i1
    · show stream.take (lastStop g.stop gs) = _
      rw [i2]
      simp only [segsOf, List.flatMap_cons]
      rw [hticks, ← List.append_assoc, take_append_slice _ _ _ (by omega)]
    · show a ≤ lastStop g.stop gs
      omega

/-- the rest of the stream, after the last minimal tail, is a stretch without possible hits -/
theorem quiet_rest (c : LCfg) (stream : List Tick) (L : Nat) (hL : L ≤ stream.length)
    (hq : ∀ t, L ≤ t → t < stream.length → 31 ≤ t →
      QuietAtF c.maxErrors (fun i => stream.getD i dfltTick) t) :
    QuietNoHit c (lrunState c {} (stream.take L)) (stream.drop L) := by
  intro t h31
  have hta : (stream.take L).length = L := by rw [List.length_take]; omega
  rw [nsym_run, hta] at h31
  have h31 : 31 ≤ L + t := by simpa using h31
  have h0 := noHitAt_of_quietAt c {} stream (L + t) h31 (fun hlt => hq _ (by omega) hlt h31)
  have h1 : NoHitAt c {} (stream.take L ++ stream.drop L) ((stream.take L).length + t) := by
    rw [List.take_append_drop, hta]; exact h0
  exact (noHitAt_append_right c {} _ _ t).1 h1

end SameVerif.Chain
