/-
  Helper lemmas for Thm/SilenceCloses.lean.

  (1) receiver-glue level (`rRun`): an event of a run comes from one of its ticks
      (`rRun_event_split`); a StartOfMessage event anywhere in a run is closed once a later `NoCarrier`
      tick is stamped beyond the timeout (`closed_after_event`: `C09.closed_within` with the
      StartOfMessage tick located in the run).
  (2) whole-receiver level: from any state satisfying `SilInv`, enough zeros contain a `NoCarrier` tick
      stamped beyond any given deadline (`noCarrier_tick_after_aux`).
-/
import SameVerif.Thm.Silence
import SameVerif.Thm.C09

namespace SameVerif.SilenceClosesAux

open SameVerif SameVerif.C09

/-! ## (1) the receiver glue -/

/-- **An event of a run comes from one tick.**  If the event list of `rRun` over the ticks `T` is
    `a ++ x :: b`, then `T = pre ++ tick :: post`, the tick's own events are `u ++ x :: v`, the events
    before `x` are those of `pre` followed by `u`, and the events after `x` are `v` followed by those
    of `post`. -/
theorem rRun_event_split (rate : Nat) : ∀ (T : List RTick) (s : RState) (a b : List Event) (x : Event),
    (rRun rate s T).2 = a ++ x :: b →
    ∃ pre post smp sym ls u v, T = pre ++ (smp, sym, ls) :: post ∧
      (rTick rate (rRun rate s pre).1 smp sym ls).2 = u ++ x :: v ∧
      a = (rRun rate s pre).2 ++ u ∧
      b = v ++ (rRun rate (rTick rate (rRun rate s pre).1 smp sym ls).1 post).2 := by
  intro T
  induction T with
  | nil =>
    intro s a b x h
    rw [rRun_nil] at h
    cases a <;> cases h
  | cons t T ih =>
    intro s a b x h
    obtain ⟨smp, sym, ls⟩ := t
    rw [rRun_cons] at h
    dsimp only at h
    rcases List.append_eq_append_iff.1 h with ⟨a', ha, hr⟩ | ⟨c', hE, hx⟩
    · obtain ⟨pre, post, smp', sym', ls', u, v, hT, hu, ha', hb⟩ := ih _ a' b x hr
      refine ⟨(smp, sym, ls) :: pre, post, smp', sym', ls', u, v, ?_, ?_, ?_, ?_⟩
      · rw [hT]; rfl
      · rw [rRun_cons]; exact hu
      · rw [rRun_cons]; dsimp only; rw [ha, ha', List.append_assoc]
      · rw [rRun_cons]; exact hb
    · cases c' with
      | nil =>
        rw [List.nil_append] at hx
        rw [List.append_nil] at hE
        obtain ⟨pre, post, smp', sym', ls', u, v, hT, hu, ha', hb⟩ := ih _ [] b x hx.symm
        refine ⟨(smp, sym, ls) :: pre, post, smp', sym', ls', u, v, ?_, ?_, ?_, ?_⟩
        · rw [hT]; rfl
        · rw [rRun_cons]; exact hu
        · rw [rRun_cons]; dsimp only; rw [List.append_assoc, ← ha', List.append_nil, hE]
        · rw [rRun_cons]; exact hb
      | cons y c'' =>
        rw [List.cons_append] at hx
        injection hx with hxy hb
        subst hxy
        refine ⟨[], T, smp, sym, ls, a, c'', rfl, ?_, ?_, ?_⟩
        · rw [rRun_nil]; exact hE
        · rw [rRun_nil]; rfl
        · rw [rRun_nil]; exact hb

/-- membership form: an event of a run is an event of one of its ticks -/
theorem event_from_tick (rate : Nat) (T : List RTick) (s : RState) (x : Event) (h : x ∈ (rRun rate s T).2) :
    ∃ pre post smp sym ls, T = pre ++ (smp, sym, ls) :: post ∧
      x ∈ (rTick rate (rRun rate s pre).1 smp sym ls).2 := by
  obtain ⟨a, b, e⟩ := List.append_of_mem h
  obtain ⟨pre, post, smp, sym, ls, u, v, hT, hu, _, _⟩ := rRun_event_split rate T s a b x e
  exact ⟨pre, post, smp, sym, ls, hT, by rw [hu]; simp⟩

/-- **`C09.closed_within`, with the StartOfMessage tick located in the run.**  From ANY state `s0`:
    if the events of the ticks `T1` are `a ++ StartOfMessage(p) :: b`, then for any further ticks `mid`
    followed by a `NoCarrier` tick stamped `> p + 135 * rate`, the events after the StartOfMessage —
    `b`, then those of `mid ++ [that tick]` — contain an EndOfMessage or a newer StartOfMessage. -/
theorem closed_after_event (rate : Nat) (s0 : RState) (T1 mid : List RTick) (a b : List Event)
    (p : Nat) (h : Header) (sample sym : Nat)
    (he : (rRun rate s0 T1).2 = a ++ Event.transport p (.message (.ok (.som h))) :: b)
    (hlate : sample > p + Gen.MAX_MESSAGE_DURATION_SECS * rate) :
    ∃ e ∈ b ++ (rRun rate (rRun rate s0 T1).1 (mid ++ [(sample, sym, .noCarrier)])).2, Closes e := by
  obtain ⟨pre, post, smp, symp, ls, u, v, hT, hu, _, hb⟩ := rRun_event_split rate T1 s0 a b _ he
  have hmem : Event.transport p (.message (.ok (.som h))) ∈ (rTick rate (rRun rate s0 pre).1 smp symp ls).2 := by
    rw [hu]; simp
  obtain ⟨hp, _, _⟩ := som_event_arms rate _ smp symp ls p h hmem
  subst hp
  obtain ⟨e, hmem', hcl⟩ := closed_within rate s0 pre (post ++ mid) p symp ls h sample sym hmem hlate
  refine ⟨e, ?_, hcl⟩
  have hst : (rRun rate s0 T1).1 = (rRun rate (rTick rate (rRun rate s0 pre).1 p symp ls).1 post).1 := by
    rw [hT, rRun_append, rRun_cons]
  rw [List.append_assoc, rRun_append] at hmem'
  dsimp only at hmem'
  rw [hst, hb, List.append_assoc]
  exact List.mem_append_right _ hmem'

/-- the same over three consecutive runs (the audio with the StartOfMessage, any further audio, the
    silence): only the final STATES have to be chained -/
theorem closed_three_runs (rate : Nat) (s0 : RState) (T1 T2 T3a T3b : List RTick) (a b : List Event)
    (p : Nat) (h : Header) (sample sym : Nat)
    (he : (rRun rate s0 T1).2 = a ++ Event.transport p (.message (.ok (.som h))) :: b)
    (hlate : sample > p + Gen.MAX_MESSAGE_DURATION_SECS * rate) :
    ∃ e ∈ b ++ (rRun rate (rRun rate s0 T1).1 T2).2 ++
        (rRun rate (rRun rate (rRun rate s0 T1).1 T2).1 (T3a ++ (sample, sym, .noCarrier) :: T3b)).2,
      Closes e := by
  obtain ⟨e, hmem, hcl⟩ := closed_after_event rate s0 T1 (T2 ++ T3a) a b p h sample sym he hlate
  refine ⟨e, ?_, hcl⟩
  rw [List.append_assoc, rRun_append] at hmem
  dsimp only at hmem
  have h3 : T3a ++ (sample, sym, LinkSt.noCarrier) :: T3b = (T3a ++ [(sample, sym, LinkSt.noCarrier)]) ++ T3b := by
    simp
  rw [h3, rRun_append (xs := T3a ++ [(sample, sym, LinkSt.noCarrier)])]
  dsimp only
  simp only [List.mem_append] at hmem ⊢
  rcases hmem with hm | hm | hm
  · exact Or.inl (Or.inl hm)
  · exact Or.inl (Or.inr hm)
  · exact Or.inr (Or.inl hm)

end SameVerif.SilenceClosesAux

namespace SameVerif.Dsp
open Arith SameVerif

section Whole
variable [Hypot Rat]

/-! ## (2) a late `NoCarrier` tick -/

omit [Hypot Rat] in
/-- the first receiver tick of a non-empty trace -/
theorem stampedTicks_head_mem (c : LCfg) (ls : LState) (p : Nat × Tick) (tr : List (Nat × Tick)) :
    ∃ sym st, (p.1, sym, st) ∈ stampedTicks c ls (p :: tr) := by
  obtain ⟨n, t⟩ := p
  exact ⟨_, _, by simp only [stampedTicks]; exact List.mem_cons_self⟩

/-- from any state satisfying the invariant, `n` zero samples with `n ≥ N0 + (K + 32) * G + G` and
    `counter + n ≥ T + G`: the receiver ticks of the run contain a `NoCarrier` tick stamped `> T`
    (and the receiver ends idle) -/
theorem noCarrier_tick_after_aux {c : RxCfg Rat} {spt pmin pmax A : Rat} {r : FullRx Rat}
    (hc : SilCfg c spt pmin pmax A) (h : SilInv c spt pmin pmax A r) (hco : c.powerClose ≤ c.powerOpen)
    {G K : Nat} (hG : 2 * pmax + 2 * A + 5 / 2 ≤ (G : Rat)) (hK : (1 - r.pt.bandwidth) ^ K < c.powerClose)
    (T : Nat) {n : Nat} (hn1 : 2 * c.dcLen + max 1 c.mark.length + (K + 32) * G + G ≤ n)
    (hn2 : T + G ≤ r.inputCounter + n) :
    ∃ r' tr, FullRx.trace r (zeros n) = some (r', tr) ∧ SilInv c spt pmin pmax A r' ∧ Idle c r' ∧
      ∃ tk ∈ stampedTicks c.lcfg r.link tr, tk.2.2 = .noCarrier ∧ T < tk.1 := by
  generalize hN : 2 * c.dcLen + max 1 c.mark.length + (K + 32) * G = N1 at hn1
  obtain ⟨ra, ta, ea, ha, ia, _⟩ := SilenceThm.zeros_link_idle hc h hco hG hK (n := n - G) (by omega)
  obtain ⟨eva, era, _, _, _, hla⟩ := trace_run ea
  have hcnt := (FullRx.run_timestamps _ r ra eva era).1
  simp only [zeros, List.length_replicate] at hcnt
  obtain ⟨rb, tb, eb, hb, ib, hnc⟩ := idle_run hc ha ia hco G
  have hlen := ticks_ge hc hG 1 (zeros G) ra ha (by simp [zeros]) rb tb eb
  have hst := (FullRx.trace_stamps _ ra rb tb eb).1
  have e : FullRx.trace r (zeros (n - G + G)) = some (rb, ta ++ tb) := by
    rw [zeros_add, trace_append, ea]; dsimp only; rw [eb]
  rw [show n - G + G = n by omega] at e
  refine ⟨rb, ta ++ tb, e, hb, ib, ?_⟩
  cases tb with
  | nil => simp at hlen
  | cons p tb' =>
    obtain ⟨sym, st, hm⟩ := stampedTicks_head_mem c.lcfg ra.link p tb'
    have hst' : st = .noCarrier := by
      apply hnc
      rw [← (stampedTicks_spec c.lcfg (p :: tb') ra.link).2.1]
      exact List.mem_map.2 ⟨_, hm, rfl⟩
    refine ⟨(p.1, sym, st), ?_, hst', ?_⟩
    · rw [h.cfg] at hla
      rw [stampedTicks_append, ← hla]
      exact List.mem_append_right _ hm
    · have := (hst p List.mem_cons_self).1
      show T < p.1
      omega

end Whole
end SameVerif.Dsp
