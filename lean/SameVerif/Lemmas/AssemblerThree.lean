import SameVerif.Lemmas.AssemblerRuns
/-
  Run lemmas for three-burst scenarios: one burst step with a known pending slot, poll stretches
  that keep the history / release the pending message, and the two ways a third burst can end
  (replace the pending entry, or be suppressed as a duplicate of what was just reported).
-/
namespace SameVerif.Asm

theorem runOps_cons_snd (s : AState) (op : AOp) (ops : List AOp) :
    (runOps s (op :: ops)).2 = outOf op.time (stepOp s op).2 ++ (runOps (stepOp s op).1 ops).2 := rfl

theorem runOps_cons_fst (s : AState) (op : AOp) (ops : List AOp) :
    (runOps s (op :: ops)).1 = (runOps (stepOp s op).1 ops).1 := rfl

theorem runOps_append_snd (s : AState) (a b : List AOp) :
    (runOps s (a ++ b)).2 = (runOps s a).2 ++ (runOps (runOps s a).1 b).2 := by
  rw [runOps_append]

theorem runOps_append_fst (s : AState) (a b : List AOp) :
    (runOps s (a ++ b)).1 = (runOps (runOps s a).1 b).1 := by
  rw [runOps_append]

/-! ### one burst step, by what the pending slot holds afterwards -/

/-- the burst leaves something in the slot that is not yet due: nothing is output -/
theorem step_burst_pending (s : AState) (b : List Byte) (now : Nat) (tm : Timed MsgResult)
    (hne : b.isEmpty = false) (hpa : pendingAfter s b now = some tm) (hd : now < tm.deadline) :
    (stepOp s (.burst b now)).1
        = { history := pruneHistory (historyAfter s b now) now, pending := some tm,
            previous := prunePrevious s.previous now }
      ∧ ∀ r, (stepOp s (.burst b now)).2 ≠ .message r := by
  rw [stepOp_eq, preIdle_burst _ _ _ hne, hpa]
  exact idle_of_not_due _ tm now rfl hd

/-- the burst leaves the slot empty: nothing is output -/
theorem step_burst_none (s : AState) (b : List Byte) (now : Nat)
    (hne : b.isEmpty = false) (hpa : pendingAfter s b now = none) :
    (stepOp s (.burst b now)).1
        = { history := pruneHistory (historyAfter s b now) now, pending := none,
            previous := prunePrevious s.previous now }
      ∧ ∀ r, (stepOp s (.burst b now)).2 ≠ .message r := by
  rw [stepOp_eq, preIdle_burst _ _ _ hne, hpa]
  exact idle_of_pending_none _ now rfl

/-- the burst leaves a decoded message in the slot that is already due (an EndOfMessage): it is
    output by the same call -/
theorem step_burst_due (s : AState) (b : List Byte) (now : Nat) (tm : Timed MsgResult) (m : Msg)
    (hne : b.isEmpty = false) (hpa : pendingAfter s b now = some tm) (hdat : tm.data = .ok m)
    (hd : tm.deadline ≤ now) :
    stepOp s (.burst b now)
        = ({ history := pruneHistory (historyAfter s b now) now, pending := none,
             previous := some ⟨m, now + HIST⟩ }, .message (.ok m)) := by
  rw [stepOp_eq, preIdle_burst _ _ _ hne, hpa]
  exact idle_of_due_ok _ tm m now rfl hdat hd

theorem step_burst_history (s : AState) (b : List Byte) (now : Nat) (hne : b.isEmpty = false) :
    (stepOp s (.burst b now)).1.history = pruneHistory (historyAfter s b now) now := by
  rw [stepOp_eq, preIdle_burst _ _ _ hne, idle_history]
  rfl

/-! ### stretches of polls -/

theorem pruneHistory_sublist (h : List (Timed (List Byte))) (now : Nat) :
    (pruneHistory h now).Sublist h := by
  unfold pruneHistory
  exact (List.drop_sublist _ _).trans List.filter_sublist

/-- polls only ever remove stored bursts -/
theorem run_polls_history_sublist (polls : List Nat) : ∀ s : AState,
    ((runOps s (polls.map .poll)).1.history).Sublist s.history := by
  induction polls with
  | nil => intro s; exact List.Sublist.refl _
  | cons u polls ih =>
    intro s
    simp only [List.map_cons, runOps_cons_fst, stepOp]
    refine (ih (aIdle s u).1).trans ?_
    rw [idle_history]
    exact pruneHistory_sublist _ _

theorem sublist_singleton {α} (l : List α) (a : α) (h : l.Sublist [a]) : l = [] ∨ l = [a] := by
  cases h with
  | cons _ h' => left; exact List.eq_nil_of_sublist_nil h'
  | cons_cons _ h' => right; rw [List.eq_nil_of_sublist_nil h']

/-- polls that come before any stored burst expires leave the history alone -/
theorem run_polls_history (polls : List Nat) : ∀ s : AState, s.history.length ≤ 2 →
    (∀ u ∈ polls, ∀ e ∈ s.history, u < e.deadline) →
    (runOps s (polls.map .poll)).1.history = s.history := by
  induction polls with
  | nil => intro s _ _; rfl
  | cons u polls ih =>
    intro s hl hf
    have hh : (aIdle s u).1.history = s.history := by
      rw [idle_history]; exact pruneHistory_fresh _ _ hl (hf u (by simp))
    simp only [List.map_cons, runOps_cons_fst, stepOp]
    rw [ih (aIdle s u).1 (by rw [hh]; exact hl)
      (by rw [hh]; exact fun v hv => hf v (by simp [hv])), hh]

/-- polls of which at least one is at or after the deadline of a pending decoded message: the
    message is output exactly once, by the first such poll; afterwards the slot is empty -/
theorem run_polls_release (polls : List Nat) (tm : Timed MsgResult) (m : Msg) (hdat : tm.data = .ok m) :
    ∀ s : AState, s.pending = some tm → (∃ u ∈ polls, tm.deadline ≤ u) →
    ∃ u ∈ polls, tm.deadline ≤ u ∧ (runOps s (polls.map .poll)).2 = [(u, .ok m)]
      ∧ (runOps s (polls.map .poll)).1.pending = none
      ∧ (runOps s (polls.map .poll)).1.previous = some ⟨m, u + HIST⟩ := by
  induction polls with
  | nil => intro s _ hex; obtain ⟨u, hu, _⟩ := hex; cases hu
  | cons v polls ih =>
    intro s hp hex
    simp only [List.map_cons, runOps_cons_snd, runOps_cons_fst, stepOp, AOp.time]
    by_cases hv : tm.deadline ≤ v
    · have hi := idle_of_due_ok s tm m v hp hdat hv
      obtain ⟨h1, h2, h3⟩ := run_polls_quiet polls (aIdle s v).1 (by rw [hi])
      refine ⟨v, by simp, hv, ?_, h2, ?_⟩
      · rw [h1, hi]; rfl
      · rw [h3, hi]
    · have hi := idle_of_not_due s tm v hp (by omega)
      have hex' : ∃ u ∈ polls, tm.deadline ≤ u := by
        obtain ⟨u, hu, hd⟩ := hex
        rcases List.mem_cons.mp hu with rfl | hu
        · exact absurd hd hv
        · exact ⟨u, hu, hd⟩
      obtain ⟨u, hu, hd, h1, h2, h3⟩ := ih (aIdle s v).1 (by rw [hi.1]) hex'
      refine ⟨u, by simp [hu], hd, ?_, h2, h3⟩
      rw [outOf_quiet _ _ hi.2, h1]; rfl

/-! ### pruning short histories -/

theorem prune_two_fresh (e1 e2 : Timed (List Byte)) (now : Nat) (h1 : now < e1.deadline)
    (h2 : now < e2.deadline) : pruneHistory [e1, e2] now = [e1, e2] := by
  apply pruneHistory_fresh
  · simp
  · intro e he
    simp only [List.mem_cons, List.not_mem_nil, or_false] at he
    rcases he with rfl | rfl <;> assumption

theorem prune_one_fresh (e1 : Timed (List Byte)) (now : Nat) (h1 : now < e1.deadline) :
    pruneHistory [e1] now = [e1] := by
  apply pruneHistory_fresh
  · simp
  · intro e he
    simp only [List.mem_singleton] at he
    subst he; assumption

/-! ### the third burst -/

/-- **The third burst re-votes the held header.**  Two bursts are stored, a StartOfMessage is held
    (due or not); the third burst completes a StartOfMessage with at least as many voted bytes and
    a text that was not just reported.  The held entry is replaced; the new one is output exactly
    once, by the first later poll at or after `t3 + HOLD`. -/
theorem third_burst_replaces (S : AState) (b3 : List Byte) (e1 e2 : Timed (List Byte)) (t3 d : Nat)
    (hold hnew : Header) (polls : List Nat)
    (hne : b3.isEmpty = false)
    (hh : S.history = [e1, e2]) (hf1 : t3 < e1.deadline) (hf2 : t3 < e2.deadline)
    (hpend : S.pending = some ⟨.ok (.som hold), d⟩)
    (hc : combine MAXLEN [e1.data, e2.data, b3.take MAXLEN] = some (.ok (.som hnew)))
    (hvote : hold.voting ≤ hnew.voting)
    (hprev : ∀ p, S.previous = some p → p.data.text ≠ hnew.text)
    (hex : ∃ u ∈ polls, t3 + HOLD ≤ u) :
    ∃ u ∈ polls, t3 + HOLD ≤ u
      ∧ (runOps S (.burst b3 t3 :: polls.map .poll)).2 = [(u, .ok (.som hnew))] := by
  have hist : (historyAfter S b3 t3).map (·.data) = [e1.data, e2.data, b3.take MAXLEN] := by
    simp [historyAfter, hh, prune_two_fresh e1 e2 t3 hf1 hf2]
  have hest : estimateOf S b3 t3 = some (.ok (.som hnew)) := by
    unfold estimateOf
    rw [hist, hc]
    apply dedup_pass
    intro p hpp
    rcases prunePrevious_cases S.previous t3 with ⟨hn, _⟩ | ⟨hk, _⟩
    · rw [hn] at hpp; cases hpp
    · rw [hk] at hpp; exact hprev p hpp
  have hpa : pendingAfter S b3 t3 = some ⟨.ok (.som hnew), t3 + HOLD⟩ := by
    unfold pendingAfter
    rw [hest]
    simp only [hpend, accept, acceptReplaces, ge_iff_le, hvote, decide_true, ↓reduceIte, acceptNew_som]
  obtain ⟨hs, hq⟩ := step_burst_pending S b3 t3 _ hne hpa (by have := HOLD_pos; simp only; omega)
  obtain ⟨u, hu, hd, hout, _, _⟩ := run_polls_release polls ⟨.ok (.som hnew), t3 + HOLD⟩ (.som hnew) rfl
    (stepOp S (.burst b3 t3)).1 (by rw [hs]) hex
  refine ⟨u, hu, hd, ?_⟩
  rw [runOps_cons_snd, outOf_quiet _ _ hq, hout]
  rfl

/-- **The third burst after an early release.**  Two bursts are stored, nothing is held, and the
    header was reported recently enough to be remembered; the third burst completes a
    StartOfMessage with the same text.  It is suppressed; no later poll outputs anything. -/
theorem third_burst_suppressed (S : AState) (b3 : List Byte) (e1 e2 : Timed (List Byte)) (t3 : Nat)
    (prev : Timed Msg) (hnew : Header) (polls : List Nat)
    (hne : b3.isEmpty = false)
    (hh : S.history = [e1, e2]) (hf1 : t3 < e1.deadline) (hf2 : t3 < e2.deadline)
    (hpend : S.pending = none)
    (hc : combine MAXLEN [e1.data, e2.data, b3.take MAXLEN] = some (.ok (.som hnew)))
    (hprev : S.previous = some prev) (hlive : t3 < prev.deadline)
    (htext : prev.data.text = hnew.text) :
    (runOps S (.burst b3 t3 :: polls.map .poll)).2 = [] := by
  have hist : (historyAfter S b3 t3).map (·.data) = [e1.data, e2.data, b3.take MAXLEN] := by
    simp [historyAfter, hh, prune_two_fresh e1 e2 t3 hf1 hf2]
  have hpp : prunePrevious S.previous t3 = some prev := by
    have : ¬ (prev.deadline ≤ t3) := by omega
    simp [hprev, prunePrevious, Timed.expiredAt, this]
  have hest : estimateOf S b3 t3 = none := by
    unfold estimateOf
    rw [hist, hc, hpp]
    have ht' : prev.data.text = (Msg.som hnew).text := htext
    simp [dedup, ht']
  have hpa : pendingAfter S b3 t3 = none := by
    unfold pendingAfter; rw [hest]; exact hpend
  obtain ⟨hs, hq⟩ := step_burst_none S b3 t3 hne hpa
  obtain ⟨h1, _, _⟩ := run_polls_quiet polls (stepOp S (.burst b3 t3)).1 (by rw [hs])
  rw [runOps_cons_snd, outOf_quiet _ _ hq, h1]
  rfl

/-- **Two bursts stored, a header held, then polls, the third burst, more polls.**  If a poll
    reaches the hold deadline before the third burst, the held header is output there and the third
    burst's estimate (same text) is suppressed; otherwise the third burst replaces the held entry,
    which is output by the first poll at or after `t3 + HOLD`.  Exactly one output either way. -/
theorem held_then_third (S : AState) (b3 : List Byte) (e1 e2 : Timed (List Byte)) (t2 t3 : Nat)
    (hold hnew : Header) (polls2 polls : List Nat)
    (hne : b3.isEmpty = false)
    (hh : S.history = [e1, e2]) (hf1 : t3 < e1.deadline) (hf2 : t3 < e2.deadline)
    (hp2 : ∀ u ∈ polls2, u ≤ t3)
    (hpend : S.pending = some ⟨.ok (.som hold), t2 + HOLD⟩)
    (hc : combine MAXLEN [e1.data, e2.data, b3.take MAXLEN] = some (.ok (.som hnew)))
    (hvote : hold.voting ≤ hnew.voting)
    (htext : hold.text = hnew.text)
    (hprev : ∀ p, S.previous = some p → p.data.text ≠ hnew.text)
    (hwin : t3 < t2 + HOLD + HIST)
    (hex : ∃ u ∈ polls, t3 + HOLD ≤ u) :
    (∃ u ∈ polls2, t2 + HOLD ≤ u ∧
        (runOps S (polls2.map .poll ++ .burst b3 t3 :: polls.map .poll)).2 = [(u, .ok (.som hold))])
    ∨ ((∀ u ∈ polls2, u < t2 + HOLD) ∧ ∃ u ∈ polls, t3 + HOLD ≤ u ∧
        (runOps S (polls2.map .poll ++ .burst b3 t3 :: polls.map .poll)).2 = [(u, .ok (.som hnew))]) := by
  have hhist : (runOps S (polls2.map .poll)).1.history = [e1, e2] := by
    rw [run_polls_history polls2 S (by rw [hh]; simp), hh]
    intro u hu e he
    rw [hh] at he
    have := hp2 u hu
    simp only [List.mem_cons, List.not_mem_nil, or_false] at he
    rcases he with rfl | rfl <;> omega
  by_cases hB : ∃ u ∈ polls2, t2 + HOLD ≤ u
  · left
    obtain ⟨u, hu, hd, hout, hpn, hpv⟩ :=
      run_polls_release polls2 ⟨.ok (.som hold), t2 + HOLD⟩ (.som hold) rfl S hpend hB
    refine ⟨u, hu, hd, ?_⟩
    have h3 := third_burst_suppressed (runOps S (polls2.map .poll)).1 b3 e1 e2 t3
      ⟨.som hold, u + HIST⟩ hnew polls hne hhist hf1 hf2 hpn hc hpv
      (by simp only at hd ⊢; omega) htext
    rw [runOps_append_snd, hout, h3]
    rfl
  · right
    have hA : ∀ u ∈ polls2, u < t2 + HOLD := by
      intro u hu
      by_cases h : u < t2 + HOLD
      · exact h
      · exact absurd ⟨u, hu, by omega⟩ hB
    obtain ⟨hout, hpn, hpv⟩ := run_polls_waiting polls2 ⟨.ok (.som hold), t2 + HOLD⟩ S hpend hA
    obtain ⟨u, hu, hd, h3⟩ := third_burst_replaces (runOps S (polls2.map .poll)).1 b3 e1 e2 t3 (t2 + HOLD)
      hold hnew polls hne hhist hf1 hf2 hpn hc hvote (by rw [hpv]; exact hprev) hex
    refine ⟨hA, u, hu, hd, ?_⟩
    rw [runOps_append_snd, hout, h3]
    rfl

end SameVerif.Asm
