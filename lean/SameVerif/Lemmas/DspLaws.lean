/-
  Laws and helper lemmas for the theorems about `Model/Dsp.lean` (Thm/Dsp.lean).

  * `OrderLaws F`: the order/sign facts about `Arith F` that the order-only theorems (tier A) need.
    Every law is true of the rationals (`instance : OrderLaws Rat` below) and of IEEE floats without
    NaN.  No ring axioms.
  * `instance : Arith Rat`: the real-number semantics used by tier B.
  * run functions over operation lists and their invariants.
-/
import SameVerif.Model.Dsp

namespace SameVerif.Dsp

open Arith

/-- Order-only laws.  Why each one is there:
  * `le_iff_not_lt`   : `<=` is the negation of the flipped `<` (a total preorder; false for NaN) —
                        used by every clamp/min/max bound;
  * `lt_irrefl`       : `le a a` (reflexivity), used when `clamp`/`fmax`/`fmin` return a limit;
  * `lt_trans`        : only through asymmetry (`lt a b → le a b`) in `initialGain`;
  * `lt_neg_trans`    : transitivity of `le` (`periodMin ≤ samplesPerTed ≤ periodMax → periodMin ≤ periodMax`);
  * `zero_le_one`     : the `clamp(bandwidth, 0, 1)` of `Agc::new` cannot panic;
  * `zero_le_half`    : the `clamp(max_deviation, 0, 0.5)` of `TimingLoop::new` cannot panic;
  * `neg_half_le_half`: the `clamp(offset, -0.5, 0.5)` of `advance_loop` cannot panic;
  * `neg_one_le_one`  : the `clamp(err, -1, 1)` of `advance_loop` cannot panic. -/
class OrderLaws (F : Type) [Arith F] : Prop where
  le_iff_not_lt : ∀ a b : F, Arith.le a b = !Arith.lt b a
  lt_irrefl : ∀ a : F, Arith.lt a a = false
  lt_trans : ∀ a b c : F, Arith.lt a b = true → Arith.lt b c = true → Arith.lt a c = true
  lt_neg_trans : ∀ a b c : F, Arith.lt a b = false → Arith.lt b c = false → Arith.lt a c = false
  zero_le_one : Arith.le (Arith.zero : F) Arith.one = true
  zero_le_half : Arith.le (Arith.zero : F) half = true
  neg_half_le_half : Arith.le (Arith.neg (half : F)) half = true
  neg_one_le_one : Arith.le (Arith.neg (Arith.one : F)) Arith.one = true

section Order
variable {F : Type} [Arith F] [OrderLaws F]

theorem le_refl' (a : F) : le a a = true := by
  rw [OrderLaws.le_iff_not_lt, OrderLaws.lt_irrefl]; rfl

theorem le_of_not_lt {a b : F} (h : lt b a = false) : le a b = true := by
  rw [OrderLaws.le_iff_not_lt, h]; rfl

theorem not_lt_of_le {a b : F} (h : le a b = true) : lt b a = false := by
  rw [OrderLaws.le_iff_not_lt] at h; simpa using h

theorem le_of_lt' {a b : F} (h : lt a b = true) : le a b = true := by
  apply le_of_not_lt
  cases hba : lt b a with
  | false => rfl
  | true =>
    have := OrderLaws.lt_trans a b a h hba
    rw [OrderLaws.lt_irrefl] at this; cases this

theorem le_trans' {a b c : F} (h1 : le a b = true) (h2 : le b c = true) : le a c = true :=
  le_of_not_lt (OrderLaws.lt_neg_trans c b a (not_lt_of_le h2) (not_lt_of_le h1))

/-! ### clamp -/

omit [OrderLaws F] in
theorem clamp_none_iff (x lo hi : F) : clamp x lo hi = none ↔ le lo hi = false := by
  unfold clamp; cases h : le lo hi <;> simp

omit [OrderLaws F] in
theorem clamp_isSome_of_le {x lo hi : F} (h : le lo hi = true) : ∃ y, clamp x lo hi = some y := by
  unfold clamp; simp [h]

theorem clamp_bounds' {x lo hi y : F} (h : clamp x lo hi = some y) :
    le lo hi = true ∧ le lo y = true ∧ le y hi = true := by
  unfold clamp at h
  cases hle : le lo hi with
  | false => simp [hle] at h
  | true =>
    simp only [hle, if_true, Option.some.injEq] at h
    refine ⟨rfl, ?_⟩
    cases h1 : lt x lo <;> simp only [h1] at h
    · cases h2 : lt hi x <;> simp [h2] at h <;> subst h
      · exact ⟨le_of_not_lt h1, le_of_not_lt h2⟩
      · exact ⟨hle, le_refl' _⟩
    · cases h2 : lt hi lo <;> simp [h2] at h <;> subst h
      · exact ⟨le_refl' _, hle⟩
      · exact ⟨hle, le_refl' _⟩

/-- inside the range `clamp` is the identity (uses only `le_iff_not_lt`) -/
theorem clamp_of_mem {x lo hi : F} (h1 : le lo x = true) (h2 : le x hi = true) (h : le lo hi = true) :
    clamp x lo hi = some x := by
  unfold clamp
  simp [h, not_lt_of_le h1, not_lt_of_le h2]

/-! ### AGC -/

theorem initialGain_bounds {lo hi : F} (h : le lo hi = true) :
    le lo (Agc.initialGain lo hi) = true ∧ le (Agc.initialGain lo hi) hi = true := by
  have hm : le (fmin one hi) hi = true := by
    unfold fmin; split
    · exact le_refl' _
    · rename_i hn; exact le_of_not_lt (by simpa using hn)
  unfold Agc.initialGain fmax; split
  · rename_i hl; exact ⟨le_of_lt' hl, hm⟩
  · exact ⟨le_refl' _, h⟩

end Order

/-! ### operation lists -/

section Runs
variable {F : Type} [Arith F]

inductive AgcOp (F : Type) where
  | input (x : F)
  | lock (b : Bool)
  | reset

/-- run a list of AGC operations; the outputs of `input` are collected; `none` = a panic -/
def agcRun : Agc F → List (AgcOp F) → Option (Agc F × List F)
  | a, [] => some (a, [])
  | a, .input x :: ops =>
    match a.input x with
    | none => none
    | some (a', y) => (agcRun a' ops).map fun (r, ys) => (r, y :: ys)
  | a, .lock b :: ops => agcRun (a.lock b) ops
  | a, .reset :: ops => agcRun a.reset ops

inductive TlOp (F : Type) where
  | input (s o : F)
  | reset
  | setGains (a b : F)

/-- run a list of timing-loop operations; what `input` returned is collected; `none` = a panic -/
def tlRun : TimingLoop F → List (TlOp F) → Option (TimingLoop F × List (F × Option (SymEst F)))
  | l, [] => some (l, [])
  | l, .input s o :: ops =>
    match l.input s o with
    | none => none
    | some (l', u, sym) => (tlRun l' ops).map fun (r, ys) => (r, (u, sym) :: ys)
  | l, .reset :: ops => tlRun l.reset ops
  | l, .setGains a b :: ops => tlRun (l.setGains a b) ops

/-- feed a list of samples to a moving average; outputs collected; `none` = a panic -/
def movavgRun : MovAvg F → List F → Option (MovAvg F × List (F × F))
  | m, [] => some (m, [])
  | m, x :: xs =>
    match m.filter x with
    | none => none
    | some (m', y) => (movavgRun m' xs).map fun (r, ys) => (r, y :: ys)

/-- feed a list of samples (`some x`) and resets (`none`) to a DC blocker -/
def dcRun : DcBlock F → List (Option F) → Option (DcBlock F × List F)
  | d, [] => some (d, [])
  | d, some x :: xs =>
    match d.filter x with
    | none => none
    | some (d', y) => (dcRun d' xs).map fun (r, ys) => (r, y :: ys)
  | d, none :: xs => dcRun d.reset xs

end Runs

/-! ### AGC invariant -/

section AgcInv
variable {F : Type} [Arith F] [OrderLaws F]

/-- the invariant of a running AGC built with limits `lo ≤ hi` and (clamped) bandwidth `bw` -/
structure AgcInv (lo hi bw : F) (a : Agc F) : Prop where
  minGain : a.minGain = lo
  maxGain : a.maxGain = hi
  bandwidth : a.bandwidth = bw
  lo_le : le lo a.gain = true
  le_hi : le a.gain hi = true

omit [OrderLaws F] in
theorem agc_input_none_iff' (a : Agc F) (x : F) :
    a.input x = none ↔ le a.minGain a.maxGain = false := by
  unfold Agc.input
  simp only [Option.map_eq_none_iff]
  exact clamp_none_iff _ _ _

theorem agcInv_input {lo hi bw : F} {a : Agc F} (hi' : AgcInv lo hi bw a) (hle : le lo hi = true)
    (x : F) : ∃ a' y, a.input x = some (a', y) ∧ AgcInv lo hi bw a' ∧ a'.locked = a.locked := by
  have hle' : le a.minGain a.maxGain = true := by rw [hi'.minGain, hi'.maxGain]; exact hle
  unfold Agc.input
  simp only []
  obtain ⟨g, hg⟩ := clamp_isSome_of_le (x := add a.gain (mul (mul (ofBool (!a.locked)) (sub one (abs (mul x a.gain)))) a.bandwidth)) hle'
  obtain ⟨_, h1, h2⟩ := clamp_bounds' hg
  rw [hg]
  exact ⟨_, _, rfl, ⟨hi'.minGain, hi'.maxGain, hi'.bandwidth, hi'.minGain ▸ h1, hi'.maxGain ▸ h2⟩, rfl⟩

theorem agcInv_reset {lo hi bw : F} {a : Agc F} (hi' : AgcInv lo hi bw a) (hle : le lo hi = true) :
    AgcInv lo hi bw a.reset := by
  obtain ⟨h1, h2⟩ := initialGain_bounds hle
  refine ⟨hi'.minGain, hi'.maxGain, hi'.bandwidth, ?_, ?_⟩ <;>
    simp only [Agc.reset, hi'.minGain, hi'.maxGain] <;> assumption

omit [OrderLaws F] in
theorem agcInv_lock {lo hi bw : F} {a : Agc F} (hi' : AgcInv lo hi bw a) (b : Bool) :
    AgcInv lo hi bw (a.lock b) :=
  ⟨hi'.minGain, hi'.maxGain, hi'.bandwidth, hi'.lo_le, hi'.le_hi⟩

theorem agcInv_run {lo hi bw : F} (hle : le lo hi = true) (ops : List (AgcOp F)) :
    ∀ a : Agc F, AgcInv lo hi bw a → ∃ a' outs, agcRun a ops = some (a', outs) ∧ AgcInv lo hi bw a' := by
  induction ops with
  | nil => intro a h; exact ⟨a, [], rfl, h⟩
  | cons op ops ih =>
    intro a h
    cases op with
    | input x =>
      obtain ⟨a1, y, h1, hinv, _⟩ := agcInv_input h hle x
      obtain ⟨a', outs, h2, hinv'⟩ := ih a1 hinv
      exact ⟨a', y :: outs, by simp [agcRun, h1, h2], hinv'⟩
    | lock b => exact ih _ (agcInv_lock h b)
    | reset => exact ih _ (agcInv_reset h hle)

theorem agc_new_some (bw lo hi : F) : ∃ bw', clamp bw zero one = some bw' ∧
    Agc.new bw lo hi = some ⟨bw', lo, hi, false, Agc.initialGain lo hi⟩ := by
  obtain ⟨bw', h⟩ := clamp_isSome_of_le (x := bw) (OrderLaws.zero_le_one (F := F))
  exact ⟨bw', h, by simp [Agc.new, h]⟩

theorem agcInv_new {bw lo hi : F} {a0 : Agc F} (h : Agc.new bw lo hi = some a0) (hle : le lo hi = true) :
    AgcInv lo hi a0.bandwidth a0 ∧ a0.locked = false ∧ a0.gain = Agc.initialGain lo hi := by
  obtain ⟨bw', _, h'⟩ := agc_new_some bw lo hi
  rw [h'] at h; cases h
  obtain ⟨h1, h2⟩ := initialGain_bounds hle
  exact ⟨⟨rfl, rfl, rfl, h1, h2⟩, rfl, rfl⟩

omit [OrderLaws F] in
theorem agcInv_reset_eq {lo hi : F} {a0 a : Agc F} (h0 : AgcInv lo hi a0.bandwidth a0)
    (hl : a0.locked = false) (hg : a0.gain = Agc.initialGain lo hi) (h : AgcInv lo hi a0.bandwidth a) :
    a.reset = a0 := by
  cases a0; cases a
  have := h0.minGain; have := h0.maxGain; have := h.minGain; have := h.maxGain; have := h.bandwidth
  simp_all [Agc.reset]

end AgcInv

/-! ### timing loop, order-only part -/

section TlInv
variable {F : Type} [Arith F] [OrderLaws F]

theorem tl_new_some (sps alpha beta maxDev : F) : ∃ dev, clamp maxDev zero half = some dev ∧
    TimingLoop.new sps alpha beta maxDev =
      some ⟨div sps two, sub (div sps two) (mul sps dev), add (div sps two) (mul sps dev),
            alpha, beta, div sps two, div sps two, Ted.init⟩ := by
  obtain ⟨dev, h⟩ := clamp_isSome_of_le (x := maxDev) (OrderLaws.zero_le_half (F := F))
  exact ⟨dev, h, by simp [TimingLoop.new, h]⟩

/-- `advance_loop` with a symbol, spelled out -/
theorem tl_advance_sym (l : TimingLoop F) (o : F) (s : SymEst F)
    (h : le l.periodMin l.periodMax = true) :
    ∃ o' err avg, clamp o (neg half) half = some o' ∧
      clamp (sub s.err (div o' l.samplesPerTed)) (neg one) one = some err ∧
      clamp (add l.periodAvg (mul l.beta err)) l.periodMin l.periodMax = some avg ∧
      l.advance o (some s) = some { l with
        periodAvg := avg,
        periodInst := if lt (add (add avg (mul l.alpha err)) o') zero then avg
                      else add (add avg (mul l.alpha err)) o' } := by
  obtain ⟨o', h1⟩ := clamp_isSome_of_le (x := o) (OrderLaws.neg_half_le_half (F := F))
  obtain ⟨err, h2⟩ := clamp_isSome_of_le (x := sub s.err (div o' l.samplesPerTed))
    (OrderLaws.neg_one_le_one (F := F))
  obtain ⟨avg, h3⟩ := clamp_isSome_of_le (x := add l.periodAvg (mul l.beta err)) h
  exact ⟨o', err, avg, h1, h2, h3, by simp [TimingLoop.advance, h1, h2, h3]⟩

/-- `advance_loop` without a symbol, spelled out -/
theorem tl_advance_nosym (l : TimingLoop F) (o : F) :
    ∃ o', clamp o (neg half) half = some o' ∧
      l.advance o none = some { l with periodInst := add l.periodInst o' } := by
  obtain ⟨o', h1⟩ := clamp_isSome_of_le (x := o) (OrderLaws.neg_half_le_half (F := F))
  exact ⟨o', h1, by simp [TimingLoop.advance, h1]⟩

/-- the order-only invariant of a timing loop -/
structure TlInv (spt pmin pmax : F) (l : TimingLoop F) : Prop where
  samplesPerTed : l.samplesPerTed = spt
  periodMin : l.periodMin = pmin
  periodMax : l.periodMax = pmax
  min_le_avg : le pmin l.periodAvg = true
  avg_le_max : le l.periodAvg pmax = true

theorem tl_advance_inv {spt pmin pmax : F} {l : TimingLoop F} (hinv : TlInv spt pmin pmax l)
    (hle : le pmin pmax = true) (o : F) (sym : Option (SymEst F)) :
    ∃ l', l.advance o sym = some l' ∧ TlInv spt pmin pmax l' ∧ l'.ted = l.ted ∧
      l'.alpha = l.alpha ∧ l'.beta = l.beta := by
  have hle' : le l.periodMin l.periodMax = true := by rw [hinv.periodMin, hinv.periodMax]; exact hle
  cases sym with
  | none =>
    obtain ⟨o', _, h⟩ := tl_advance_nosym l o
    exact ⟨_, h, ⟨hinv.samplesPerTed, hinv.periodMin, hinv.periodMax, hinv.min_le_avg, hinv.avg_le_max⟩,
      rfl, rfl, rfl⟩
  | some s =>
    obtain ⟨o', err, avg, _, _, h3, h⟩ := tl_advance_sym l o s hle'
    obtain ⟨_, b1, b2⟩ := clamp_bounds' h3
    exact ⟨_, h, ⟨hinv.samplesPerTed, hinv.periodMin, hinv.periodMax, hinv.periodMin ▸ b1,
      hinv.periodMax ▸ b2⟩, rfl, rfl, rfl⟩

theorem tl_input_inv {spt pmin pmax : F} {l : TimingLoop F} (hinv : TlInv spt pmin pmax l)
    (hle : le pmin pmax = true) (x o : F) :
    ∃ l', l.input x o = some (l', l'.periodInst, (l.ted.input x).2) ∧ TlInv spt pmin pmax l' ∧
      l'.ted = (l.ted.input x).1 := by
  have hinv' : TlInv spt pmin pmax { l with ted := (l.ted.input x).1 } :=
    ⟨hinv.samplesPerTed, hinv.periodMin, hinv.periodMax, hinv.min_le_avg, hinv.avg_le_max⟩
  obtain ⟨l', h, hi, ht, _⟩ := tl_advance_inv hinv' hle o (l.ted.input x).2
  refine ⟨l', ?_, hi, ht⟩
  unfold TimingLoop.input
  simp only [h, Option.map_some]

omit [OrderLaws F] in
theorem tl_reset_inv {spt pmin pmax : F} {l : TimingLoop F} (hinv : TlInv spt pmin pmax l)
    (h1 : le pmin spt = true) (h2 : le spt pmax = true) : TlInv spt pmin pmax l.reset :=
  ⟨hinv.samplesPerTed, hinv.periodMin, hinv.periodMax,
    by simp only [TimingLoop.reset, hinv.samplesPerTed, h1],
    by simp only [TimingLoop.reset, hinv.samplesPerTed, h2]⟩

omit [OrderLaws F] in
theorem tl_setGains_inv {spt pmin pmax : F} {l : TimingLoop F} (hinv : TlInv spt pmin pmax l)
    (a b : F) : TlInv spt pmin pmax (l.setGains a b) :=
  ⟨hinv.samplesPerTed, hinv.periodMin, hinv.periodMax, hinv.min_le_avg, hinv.avg_le_max⟩

theorem tl_run_inv {spt pmin pmax : F} (h1 : le pmin spt = true) (h2 : le spt pmax = true)
    (ops : List (TlOp F)) : ∀ l : TimingLoop F, TlInv spt pmin pmax l →
    ∃ l' outs, tlRun l ops = some (l', outs) ∧ TlInv spt pmin pmax l' := by
  have hle := le_trans' h1 h2
  induction ops with
  | nil => intro l h; exact ⟨l, [], rfl, h⟩
  | cons op ops ih =>
    intro l h
    cases op with
    | input x o =>
      obtain ⟨l1, e1, hinv, _⟩ := tl_input_inv h hle x o
      obtain ⟨l', outs, e2, hinv'⟩ := ih l1 hinv
      exact ⟨l', (l1.periodInst, (l.ted.input x).2) :: outs, by simp [tlRun, e1, e2], hinv'⟩
    | reset => exact ih _ (tl_reset_inv h h1 h2)
    | setGains a b => exact ih _ (tl_setGains_inv h a b)

end TlInv

/-! ### moving average / DC blocker, structural part -/

section DcInv
variable {F : Type} [Arith F]

theorem movavg_new_none_iff (len : Nat) : (MovAvg.new len : Option (MovAvg F)) = none ↔ len = 0 := by
  unfold MovAvg.new; split <;> simp_all

theorem movavg_new_some {len : Nat} (h : 0 < len) :
    (MovAvg.new len : Option (MovAvg F)) = some ⟨List.replicate len zero, div one (ofNat len), zero⟩ := by
  unfold MovAvg.new; rw [if_neg (by omega)]

/-- `filter` spelled out on a non-empty window -/
theorem movavg_filter_cons (m : MovAvg F) (x aged : F) (rest : List F) (h : m.window = aged :: rest) :
    m.filter x = some ({ m with window := rest ++ [x], sum := add m.sum (sub x aged) },
      mul (add m.sum (sub x aged)) m.invLen, (rest ++ [x]).head (by simp)) := by
  unfold MovAvg.filter
  rw [h]
  simp only []
  cases rest <;> rfl

theorem movavg_filter_some (m : MovAvg F) (x : F) (h : 0 < m.window.length) :
    ∃ m' y, m.filter x = some (m', y) ∧ m'.window.length = m.window.length ∧ m'.invLen = m.invLen := by
  cases hw : m.window with
  | nil => simp [hw] at h
  | cons aged rest =>
    refine ⟨_, _, movavg_filter_cons m x aged rest hw, ?_, rfl⟩
    simp

theorem movavg_filter_length {m m' : MovAvg F} {x : F} {y : F × F} (h : m.filter x = some (m', y)) :
    m'.window.length = m.window.length ∧ m'.invLen = m.invLen ∧ 0 < m.window.length := by
  cases hw : m.window with
  | nil => simp [MovAvg.filter, hw] at h
  | cons aged rest =>
    rw [movavg_filter_cons m x aged rest hw] at h
    cases h
    simp

theorem movavg_filter_none_iff (m : MovAvg F) (x : F) : m.filter x = none ↔ m.window = [] := by
  cases hw : m.window with
  | nil => simp [MovAvg.filter, hw]
  | cons aged rest => simp [movavg_filter_cons m x aged rest hw]

theorem movavg_reset_length (m : MovAvg F) :
    m.reset.window.length = m.window.length ∧ m.reset.invLen = m.invLen := by
  simp [MovAvg.reset]

theorem movavg_run_some (xs : List F) : ∀ m : MovAvg F, 0 < m.window.length →
    ∃ m' outs, movavgRun m xs = some (m', outs) ∧ m'.window.length = m.window.length ∧
      m'.invLen = m.invLen ∧ outs.length = xs.length := by
  induction xs with
  | nil => intro m _; exact ⟨m, [], rfl, rfl, rfl, rfl⟩
  | cons x xs ih =>
    intro m hm
    obtain ⟨m1, y, e1, hl, hi⟩ := movavg_filter_some m x hm
    obtain ⟨m', outs, e2, hl', hi', ho⟩ := ih m1 (hl ▸ hm)
    exact ⟨m', y :: outs, by simp [movavgRun, e1, e2], hl'.trans hl, hi'.trans hi, by simp [ho]⟩

/-- the structural invariant of a DC blocker of length `len` -/
structure DcInv (len : Nat) (d : DcBlock F) : Prop where
  ff_len : d.ff.window.length = len
  fb_len : d.fb.window.length = len
  ff_inv : d.ff.invLen = div one (ofNat len)
  fb_inv : d.fb.invLen = div one (ofNat len)

theorem dc_new_none_iff' (len : Nat) : (DcBlock.new len : Option (DcBlock F)) = none ↔ len = 0 := by
  unfold DcBlock.new MovAvg.new; split <;> simp_all

theorem dc_new_some {len : Nat} (h : 0 < len) :
    (DcBlock.new len : Option (DcBlock F)) =
      some ⟨⟨List.replicate len zero, div one (ofNat len), zero⟩,
            ⟨List.replicate len zero, div one (ofNat len), zero⟩⟩ := by
  unfold DcBlock.new; rw [movavg_new_some h]

theorem dcInv_new {len : Nat} {d0 : DcBlock F} (h : DcBlock.new len = some d0) :
    0 < len ∧ DcInv len d0 := by
  have hl : 0 < len := by
    cases len with
    | zero => rw [(dc_new_none_iff' 0).2 rfl] at h; cases h
    | succ n => omega
  rw [dc_new_some hl] at h; cases h
  exact ⟨hl, by simp, by simp, rfl, rfl⟩

theorem dc_filter_of {d : DcBlock F} {x : F} {ff fb : MovAvg F} {y1 y2 : F × F}
    (e1 : d.ff.filter x = some (ff, y1)) (e2 : d.fb.filter y1.1 = some (fb, y2)) :
    d.filter x = some (⟨ff, fb⟩, sub y1.2 (mul (ofBool (decide (1 < ff.window.length))) y2.1)) := by
  unfold DcBlock.filter
  rw [e1]; simp only []; rw [e2]

theorem dcInv_filter {len : Nat} {d : DcBlock F} (hinv : DcInv len d) (hl : 0 < len) (x : F) :
    ∃ d' y, d.filter x = some (d', y) ∧ DcInv len d' := by
  obtain ⟨ff, y1, e1, l1, i1⟩ := movavg_filter_some d.ff x (hinv.ff_len ▸ hl)
  obtain ⟨fb, y2, e2, l2, i2⟩ := movavg_filter_some d.fb y1.1 (hinv.fb_len ▸ hl)
  exact ⟨⟨ff, fb⟩, _, dc_filter_of e1 e2, ⟨l1.trans hinv.ff_len, l2.trans hinv.fb_len,
    i1.trans hinv.ff_inv, i2.trans hinv.fb_inv⟩⟩

theorem dcInv_reset {len : Nat} {d : DcBlock F} (hinv : DcInv len d) : DcInv len d.reset :=
  ⟨by simp [DcBlock.reset, MovAvg.reset, hinv.ff_len], by simp [DcBlock.reset, MovAvg.reset, hinv.fb_len],
   hinv.ff_inv, hinv.fb_inv⟩

theorem dcInv_run {len : Nat} (hl : 0 < len) (xs : List (Option F)) : ∀ d : DcBlock F, DcInv len d →
    ∃ d' outs, dcRun d xs = some (d', outs) ∧ DcInv len d' := by
  induction xs with
  | nil => intro d h; exact ⟨d, [], rfl, h⟩
  | cons x xs ih =>
    intro d h
    cases x with
    | none => exact ih _ (dcInv_reset h)
    | some x =>
      obtain ⟨d1, y, e1, h1⟩ := dcInv_filter h hl x
      obtain ⟨d', outs, e2, h2⟩ := ih d1 h1
      exact ⟨d', y :: outs, by simp [dcRun, e1, e2], h2⟩

theorem dcInv_reset_eq {len : Nat} {d : DcBlock F} (hinv : DcInv len d) :
    d.reset = ⟨⟨List.replicate len zero, div one (ofNat len), zero⟩,
               ⟨List.replicate len zero, div one (ofNat len), zero⟩⟩ := by
  obtain ⟨⟨w1, i1, s1⟩, ⟨w2, i2, s2⟩⟩ := d
  have := hinv.ff_len; have := hinv.fb_len; have := hinv.ff_inv; have := hinv.fb_inv
  simp_all [DcBlock.reset, MovAvg.reset]

end DcInv

/-! ### generic: the sample-clock search -/

section Clock
variable {F : Type} [Arith F]

/-- if the clock fires at some `k` inside the searched range, `clockNext` finds the first such -/
theorem clockNext_spec (u : F) : ∀ (fuel n k : Nat), n ≤ k → k < n + fuel → clockFires u k = true →
    ∃ m, clockNext u fuel n = some m ∧ n ≤ m ∧ m ≤ k ∧ clockFires u m = true ∧
      ∀ j, n ≤ j → j < m → clockFires u j = false := by
  intro fuel
  induction fuel with
  | zero => intro n k h1 h2; omega
  | succ fuel ih =>
    intro n k h1 h2 hk
    cases hn : clockFires u n with
    | true =>
      exact ⟨n, by simp [clockNext, hn], Nat.le_refl _, h1, hn, fun j a b => by omega⟩
    | false =>
      have hne : n ≠ k := by intro e; subst e; rw [hn] at hk; cases hk
      obtain ⟨m, e, b1, b2, b3, b4⟩ := ih (n + 1) k (by omega) (by omega) hk
      refine ⟨m, by simp [clockNext, hn, e], by omega, b2, b3, ?_⟩
      intro j hj1 hj2
      by_cases hj : j = n
      · subst hj; exact hn
      · exact b4 j (by omega) hj2

end Clock

/-! ## real-number semantics: `Arith Rat` -/

instance : Arith Rat where
  add := (· + ·)
  sub := (· - ·)
  mul := (· * ·)
  div := (· / ·)
  neg := fun x => -x
  abs := Rat.abs
  lt := fun a b => decide (a < b)
  le := fun a b => decide (a ≤ b)
  signNeg := fun x => decide (x < 0)
  zero := 0
  one := 1
  ofNat := fun n => (n : Rat)

section RatSimp
@[simp] theorem rat_add (a b : Rat) : Arith.add a b = a + b := rfl
@[simp] theorem rat_sub (a b : Rat) : Arith.sub a b = a - b := rfl
@[simp] theorem rat_mul (a b : Rat) : Arith.mul a b = a * b := rfl
@[simp] theorem rat_div (a b : Rat) : Arith.div a b = a / b := rfl
@[simp] theorem rat_neg (a : Rat) : Arith.neg a = -a := rfl
@[simp] theorem rat_abs (a : Rat) : Arith.abs a = a.abs := rfl
@[simp] theorem rat_lt (a b : Rat) : Arith.lt a b = decide (a < b) := rfl
@[simp] theorem rat_le (a b : Rat) : Arith.le a b = decide (a ≤ b) := rfl
@[simp] theorem rat_signNeg (a : Rat) : Arith.signNeg a = decide (a < 0) := rfl
@[simp] theorem rat_zero : (Arith.zero : Rat) = 0 := rfl
@[simp] theorem rat_one : (Arith.one : Rat) = 1 := rfl
@[simp] theorem rat_ofNat (n : Nat) : (Arith.ofNat n : Rat) = (n : Rat) := rfl
@[simp] theorem rat_half : (half : Rat) = 1 / 2 := rfl
@[simp] theorem rat_two : (two : Rat) = 2 := rfl

theorem rat_le_iff (a b : Rat) : Arith.le a b = true ↔ a ≤ b := by simp
theorem rat_lt_iff (a b : Rat) : Arith.lt a b = true ↔ a < b := by simp
end RatSimp

instance : OrderLaws Rat where
  le_iff_not_lt a b := by
    by_cases h : a ≤ b <;> simp [h, Rat.not_lt] <;> grind
  lt_irrefl a := by simp [Rat.lt_irrefl]
  lt_trans a b c := by simp; grind
  lt_neg_trans a b c := by simp; grind
  zero_le_one := by decide
  zero_le_half := by decide +kernel
  neg_half_le_half := by decide +kernel
  neg_one_le_one := by decide

section RatLemmas

/-- `clamp` over the rationals -/
theorem clamp_rat {x lo hi : Rat} (h : lo ≤ hi) :
    ∃ y, clamp x lo hi = some y ∧ lo ≤ y ∧ y ≤ hi ∧ (lo ≤ x → x ≤ hi → y = x) := by
  have h' := (rat_le_iff lo hi).2 h
  obtain ⟨y, e⟩ := clamp_isSome_of_le (x := x) h'
  obtain ⟨_, b1, b2⟩ := clamp_bounds' e
  refine ⟨y, e, (rat_le_iff _ _).1 b1, (rat_le_iff _ _).1 b2, ?_⟩
  intro h1 h2
  have := clamp_of_mem ((rat_le_iff _ _).2 h1) ((rat_le_iff _ _).2 h2) h'
  rw [this] at e; cases e; rfl

theorem abs_le_iff_rat (x b : Rat) : x.abs ≤ b ↔ -b ≤ x ∧ x ≤ b := by
  unfold Rat.abs; split <;> grind

theorem mul_bound_rat (a e : Rat) (h1 : -1 ≤ e) (h2 : e ≤ 1) : -a.abs ≤ a * e ∧ a * e ≤ a.abs := by
  unfold Rat.abs
  split
  · rename_i ha
    have p1 := Rat.mul_le_mul_of_nonneg_left h2 ha
    have p2 := Rat.mul_le_mul_of_nonneg_left h1 ha
    grind
  · rename_i ha
    have ha' : 0 ≤ -a := by grind
    have p1 := Rat.mul_le_mul_of_nonneg_left h2 ha'
    have p2 := Rat.mul_le_mul_of_nonneg_left h1 ha'
    grind

theorem natCast_succ_rat (n : Nat) : ((n + 1 : Nat) : Rat) = (n : Rat) + 1 := by grind

/-! ### the sample clock over the rationals -/

theorem clockRemaining_rat (u : Rat) (n : Nat) : clockRemaining u n = u - (n : Rat) := rfl

/-- the clock fires at `n` exactly when fewer than half a sample remains -/
theorem clockFires_rat (u : Rat) (n : Nat) : clockFires u n = true ↔ u - (n : Rat) < 1 / 2 := by
  unfold clockFires
  simp only [clockRemaining_rat, rat_le, rat_lt, rat_abs, rat_zero, rat_half, Bool.or_eq_true,
    decide_eq_true_eq]
  unfold Rat.abs
  split <;> grind

theorem clockFires_rat_false (u : Rat) (n : Nat) : clockFires u n = false ↔ 1 / 2 ≤ u - (n : Rat) := by
  rw [← Bool.not_eq_true, clockFires_rat]; grind

theorem le_natCast_ceil_toNat (u : Rat) : u ≤ ((u.ceil.toNat : Nat) : Rat) := by
  have h1 := Rat.le_ceil (x := u)
  have h2 : u.ceil ≤ (u.ceil.toNat : Int) := Int.self_le_toNat _
  have h3 := Rat.intCast_le_intCast.2 h2
  rw [Rat.intCast_natCast] at h3
  grind

end RatLemmas

/-! ### the timing error detector alternates -/

section TedAlt
variable {F : Type} [Arith F]

theorem ted_input_counter (t : Ted F) (x : F) : (t.input x).1.counter = (t.counter + 1) % 2 := by
  unfold Ted.input; simp only []; split <;> rfl

/-- a symbol estimate is produced exactly when the new counter is 1 -/
theorem ted_input_isSome (t : Ted F) (x : F) :
    (t.input x).2.isSome = true ↔ (t.input x).1.counter = 1 := by
  unfold Ted.input; simp only []; split <;> simp_all

theorem ted_input_of_zero {t : Ted F} (h : t.counter = 0) (x : F) :
    t.input x = (⟨t.h1, t.h2, x, 1⟩, some ⟨t.h2, x, zeroCrossingMetric t.h1 t.h2 x⟩) := by
  unfold Ted.input; simp [h]

theorem ted_input_of_one {t : Ted F} (h : t.counter = 1) (x : F) :
    t.input x = (⟨t.h1, t.h2, x, 0⟩, none) := by
  unfold Ted.input; simp [h]

/-- feed a list of samples to the timing error detector, collecting what it yields -/
def tedRun : Ted F → List F → Ted F × List (Option (SymEst F))
  | t, [] => (t, [])
  | t, x :: xs => let r := tedRun (t.input x).1 xs; (r.1, (t.input x).2 :: r.2)

theorem ted_run_spec (xs : List F) : ∀ t : Ted F, t.counter < 2 →
    (tedRun t xs).1.counter = (t.counter + xs.length) % 2 ∧ (tedRun t xs).2.length = xs.length ∧
    ∀ k, k < xs.length → ∃ o, (tedRun t xs).2[k]? = some o ∧ (o.isSome = true ↔ (t.counter + k) % 2 = 0) := by
  induction xs with
  | nil => intro t h; exact ⟨by simp [tedRun]; omega, rfl, by simp⟩
  | cons x xs ih =>
    intro t h
    have hc := ted_input_counter t x
    obtain ⟨i1, i2, i3⟩ := ih (t.input x).1 (by omega)
    refine ⟨by simp only [tedRun, i1, hc, List.length_cons]; omega, by simp [tedRun, i2], ?_⟩
    intro k hk
    cases k with
    | zero =>
      refine ⟨(t.input x).2, by simp [tedRun], ?_⟩
      rw [ted_input_isSome, hc]; omega
    | succ k =>
      obtain ⟨o, e, ho⟩ := i3 k (by simpa using hk)
      refine ⟨o, by simpa [tedRun] using e, ?_⟩
      rw [ho, hc]; omega

end TedAlt

/-! ### the timing loop over the rationals -/

section TlRat

/-- `TimingLoop::new` over the rationals, for a non-negative samples-per-symbol -/
theorem tl_new_rat (sps alpha beta maxDev : Rat) (h : 0 ≤ sps) :
    ∃ l dev, TimingLoop.new sps alpha beta maxDev = some l ∧
      0 ≤ dev ∧ dev ≤ 1 / 2 ∧ (0 ≤ maxDev → maxDev ≤ 1 / 2 → dev = maxDev) ∧
      l = ⟨sps / 2, sps / 2 - sps * dev, sps / 2 + sps * dev, alpha, beta, sps / 2, sps / 2, Ted.init⟩ ∧
      0 ≤ sps * dev ∧ sps * dev ≤ sps / 2 := by
  obtain ⟨dev, e, h1, h2, h3⟩ := clamp_rat (x := maxDev) (lo := 0) (hi := 1 / 2) (by decide +kernel)
  refine ⟨⟨sps / 2, sps / 2 - sps * dev, sps / 2 + sps * dev, alpha, beta, sps / 2, sps / 2, Ted.init⟩,
    dev, ?_, h1, h2, h3, rfl, Rat.mul_nonneg h h1, ?_⟩
  · simp only [TimingLoop.new, rat_zero, rat_half, e, Option.map_some]; rfl
  · have := Rat.mul_le_mul_of_nonneg_left h2 h
    grind

/-- `advance_loop` with a symbol over the rationals: the instantaneous period is non-negative and at
    most `period_max + |alpha| + 1/2` -/
theorem tl_advance_sym_rat (l : TimingLoop Rat) (o : Rat) (s : SymEst Rat)
    (h0 : 0 ≤ l.periodMin) (h : l.periodMin ≤ l.periodMax) :
    ∃ avg inst, l.advance o (some s) = some { l with periodAvg := avg, periodInst := inst } ∧
      l.periodMin ≤ avg ∧ avg ≤ l.periodMax ∧ 0 ≤ inst ∧ inst ≤ l.periodMax + l.alpha.abs + 1 / 2 := by
  obtain ⟨o', err, avg, c1, c2, c3, e⟩ := tl_advance_sym l o s ((rat_le_iff _ _).2 h)
  obtain ⟨_, a1, a2⟩ := clamp_bounds' c1
  obtain ⟨_, b1, b2⟩ := clamp_bounds' c2
  obtain ⟨_, d1, d2⟩ := clamp_bounds' c3
  simp only [rat_le, rat_neg, rat_half, rat_one, decide_eq_true_eq] at a1 a2 b1 b2 d1 d2
  obtain ⟨m1, m2⟩ := mul_bound_rat l.alpha err b1 b2
  refine ⟨avg, _, e, d1, d2, ?_, ?_⟩ <;>
    simp only [rat_lt, rat_add, rat_mul, rat_zero] <;> split <;> simp only [decide_eq_true_eq] at * <;> grind

/-- `advance_loop` without a symbol over the rationals: the offset (limited to ±1/2) is added -/
theorem tl_advance_nosym_rat (l : TimingLoop Rat) (o : Rat) :
    ∃ o', -(1 / 2) ≤ o' ∧ o' ≤ 1 / 2 ∧ (-(1 / 2) ≤ o → o ≤ 1 / 2 → o' = o) ∧
      l.advance o none = some { l with periodInst := l.periodInst + o' } := by
  obtain ⟨o', e, h1, h2, h3⟩ := clamp_rat (x := o) (lo := -(1 / 2)) (hi := 1 / 2) (by decide +kernel)
  refine ⟨o', h1, h2, h3, ?_⟩
  simp only [TimingLoop.advance, rat_neg, rat_half, e, rat_add]

/-- the invariant of a timing loop over the rationals: the order-only invariant, the bound `A` on the
    proportional gain, the TED counter is 0 or 1, and when it is 1 (a symbol was just processed) the
    instantaneous period is inside `[0, period_max + A + 1/2]` -/
structure TlRInv (spt pmin pmax A : Rat) (l : TimingLoop Rat) : Prop where
  base : TlInv spt pmin pmax l
  alpha : l.alpha.abs ≤ A
  counter : l.ted.counter < 2
  inst : l.ted.counter = 1 → 0 ≤ l.periodInst ∧ l.periodInst ≤ pmax + A + 1 / 2

/-- every `set_loop_bandwidth` in the list installs a proportional gain with `|alpha| ≤ A` -/
def TlOp.gainBounded (A : Rat) : TlOp Rat → Prop
  | .setGains a _ => a.abs ≤ A
  | _ => True

theorem tlR_input {spt pmin pmax A : Rat} {l : TimingLoop Rat} (hinv : TlRInv spt pmin pmax A l)
    (h0 : 0 ≤ pmin) (hle : pmin ≤ pmax) (x o : Rat) :
    ∃ l' u sym, l.input x o = some (l', u, sym) ∧ TlRInv spt pmin pmax A l' ∧
      (sym.isSome = true ↔ l.ted.counter = 0) ∧
      -(1 / 2) ≤ u ∧ u ≤ pmax + A + 1 ∧ (sym.isSome = true → 0 ≤ u ∧ u ≤ pmax + A + 1 / 2) := by
  have hb := hinv.base
  have hA : 0 ≤ A := Rat.le_trans Rat.abs_nonneg hinv.alpha
  have hc := hinv.counter
  by_cases hz : l.ted.counter = 0
  · -- a symbol is produced
    have e := ted_input_of_zero hz x
    obtain ⟨avg, inst, ea, a1, a2, a3, a4⟩ := tl_advance_sym_rat
      { l with ted := (l.ted.input x).1 } o ⟨l.ted.h2, x, zeroCrossingMetric l.ted.h1 l.ted.h2 x⟩
      (by simp only [hb.periodMin]; exact h0) (by simp only [hb.periodMin, hb.periodMax]; exact hle)
    rw [e] at ea
    dsimp only at ea a1 a2 a4
    rw [hb.periodMin] at a1; rw [hb.periodMax] at a2 a4
    have hal := hinv.alpha
    refine ⟨{ l with ted := ⟨l.ted.h1, l.ted.h2, x, 1⟩, periodAvg := avg, periodInst := inst }, inst,
      some ⟨l.ted.h2, x, zeroCrossingMetric l.ted.h1 l.ted.h2 x⟩, ?_, ?_,
      by simp [hz], by grind, by grind, fun _ => ⟨a3, by grind⟩⟩
    · unfold TimingLoop.input; rw [e]; dsimp only; rw [ea]; rfl
    · exact ⟨⟨hb.samplesPerTed, hb.periodMin, hb.periodMax, (rat_le_iff _ _).2 a1, (rat_le_iff _ _).2 a2⟩,
        hinv.alpha, by simp, fun _ => ⟨a3, by grind⟩⟩
  · have ho : l.ted.counter = 1 := by omega
    have e := ted_input_of_one ho x
    obtain ⟨o', b1, b2, _, ea⟩ := tl_advance_nosym_rat { l with ted := (l.ted.input x).1 } o
    rw [e] at ea
    dsimp only at ea
    obtain ⟨i1, i2⟩ := hinv.inst ho
    refine ⟨{ l with ted := ⟨l.ted.h1, l.ted.h2, x, 0⟩, periodInst := l.periodInst + o' },
      l.periodInst + o', none, ?_, ?_, by simp [ho], by grind, by grind, by simp⟩
    · unfold TimingLoop.input; rw [e]; dsimp only; rw [ea]; rfl
    · exact ⟨⟨hb.samplesPerTed, hb.periodMin, hb.periodMax, hb.min_le_avg, hb.avg_le_max⟩,
        hinv.alpha, by simp, by simp⟩

theorem tlR_reset {spt pmin pmax A : Rat} {l : TimingLoop Rat} (hinv : TlRInv spt pmin pmax A l)
    (h1 : pmin ≤ spt) (h2 : spt ≤ pmax) : TlRInv spt pmin pmax A l.reset :=
  ⟨tl_reset_inv hinv.base ((rat_le_iff _ _).2 h1) ((rat_le_iff _ _).2 h2), hinv.alpha,
    by simp [TimingLoop.reset, Ted.init], by simp [TimingLoop.reset, Ted.init]⟩

theorem tlR_setGains {spt pmin pmax A : Rat} {l : TimingLoop Rat} (hinv : TlRInv spt pmin pmax A l)
    (a b : Rat) (ha : a.abs ≤ A) : TlRInv spt pmin pmax A (l.setGains a b) :=
  ⟨tl_setGains_inv hinv.base a b, ha, hinv.counter, hinv.inst⟩

theorem tlR_run {spt pmin pmax A : Rat} (h0 : 0 ≤ pmin) (h1 : pmin ≤ spt) (h2 : spt ≤ pmax)
    (ops : List (TlOp Rat)) : ∀ l : TimingLoop Rat, TlRInv spt pmin pmax A l →
    (∀ op ∈ ops, TlOp.gainBounded A op) →
    ∃ l' outs, tlRun l ops = some (l', outs) ∧ TlRInv spt pmin pmax A l' ∧
      ∀ p ∈ outs, -(1 / 2) ≤ p.1 ∧ p.1 ≤ pmax + A + 1 ∧
        (p.2.isSome = true → 0 ≤ p.1 ∧ p.1 ≤ pmax + A + 1 / 2) := by
  have hle : pmin ≤ pmax := Rat.le_trans h1 h2
  induction ops with
  | nil => intro l h _; exact ⟨l, [], rfl, h, by simp⟩
  | cons op ops ih =>
    intro l h hops
    have hops' : ∀ op ∈ ops, TlOp.gainBounded A op := fun op hm => hops op (List.mem_cons_of_mem _ hm)
    cases op with
    | input x o =>
      obtain ⟨l1, u, sym, e1, hinv, _, u1, u2, u3⟩ := tlR_input h h0 hle x o
      obtain ⟨l', outs, e2, hinv', hout⟩ := ih l1 hinv hops'
      refine ⟨l', (u, sym) :: outs, by simp [tlRun, e1, e2], hinv', ?_⟩
      intro p hp
      rcases List.mem_cons.1 hp with rfl | hp
      · exact ⟨u1, u2, u3⟩
      · exact hout p hp
    | reset => exact ih _ (tlR_reset h h1 h2) hops'
    | setGains a b =>
      exact ih _ (tlR_setGains h a b (hops (.setGains a b) (List.mem_cons_self ..))) hops'

end TlRat

/-! ### moving average over the rationals -/

section MovRat

theorem take_succ_append {α : Type} (rest xs : List α) (x : α) :
    (rest ++ x :: xs).take (rest.length + 1) = rest ++ [x] := by
  have : rest ++ x :: xs = (rest ++ [x]) ++ xs := by simp
  rw [this, List.take_left' (by simp)]

theorem sum_append_rat (l1 l2 : List Rat) : (l1 ++ l2).sum = l1.sum + l2.sum := by
  induction l1 with
  | nil => simp [Rat.zero_add]
  | cons a l ih => simp [ih]; grind

theorem sum_replicate_rat (n : Nat) (c : Rat) : (List.replicate n c).sum = (n : Rat) * c := by
  induction n with
  | zero => simp [Rat.zero_mul]
  | succ n ih => simp [List.replicate_succ, ih]; grind

/-- the closed form of a run of the moving average from a state whose `sum` is the window's sum -/
theorem movavg_run_exact (xs : List Rat) : ∀ (m : MovAvg Rat), 0 < m.window.length →
    m.sum = m.window.sum →
    ∃ m' outs, movavgRun m xs = some (m', outs) ∧
      m'.window = (m.window ++ xs).drop xs.length ∧ m'.sum = m'.window.sum ∧ m'.invLen = m.invLen ∧
      outs.length = xs.length ∧
      ∀ k, k < xs.length → outs[k]? =
        some ((((m.window ++ xs).drop (k + 1)).take m.window.length).sum * m.invLen,
              ((m.window ++ xs)[k + 1]?).getD 0) := by
  induction xs with
  | nil => intro m _ hs; exact ⟨m, [], rfl, by simp, hs, rfl, rfl, by simp⟩
  | cons x xs ih =>
    intro m hm hs
    cases hw : m.window with
    | nil => simp [hw] at hm
    | cons aged rest =>
      have e1 := movavg_filter_cons m x aged rest hw
      have hs1 : (rest ++ [x]).sum = m.sum + (x - aged) := by
        rw [hs, hw, sum_append_rat]; simp; grind
      obtain ⟨m', outs, e2, w2, s2, i2, l2, o2⟩ := ih
        { m with window := rest ++ [x], sum := add m.sum (sub x aged) } (by simp) (by simp [hs1])
      refine ⟨m', (mul (add m.sum (sub x aged)) m.invLen, (rest ++ [x]).head (by simp)) :: outs,
        by simp only [movavgRun, e1, e2, Option.map_some], ?_, s2, i2, by simp [l2], ?_⟩
      · rw [w2]; simp
      · intro k hk
        cases k with
        | zero =>
          simp only [List.getElem?_cons_zero, Option.some.injEq, Prod.mk.injEq]
          refine ⟨?_, ?_⟩
          · simp only [rat_mul, rat_add, rat_sub, List.cons_append, List.drop_succ_cons, List.drop_zero,
              List.length_cons, take_succ_append, hs1]
          · cases rest <;> simp
        | succ k =>
          have := o2 k (by simpa using hk)
          simp only [List.getElem?_cons_succ, this]
          simp

end MovRat

/-! ### DC blocker over the rationals -/

section DcRat

theorem list_length_one {α : Type} {l : List α} (h : l.length = 1) : ∃ a, l = [a] := by
  match l, h with
  | [a], _ => exact ⟨a, rfl⟩

/-- a DC blocker of length 1 passes its input through -/
theorem dc_len1_filter {d : DcBlock Rat} (hinv : DcInv 1 d) (x : Rat) :
    ∃ d', d.filter x = some (d', x) ∧ DcInv 1 d' := by
  obtain ⟨a, ha⟩ := list_length_one hinv.ff_len
  obtain ⟨b, hb⟩ := list_length_one hinv.fb_len
  have e1 := movavg_filter_cons d.ff x a [] ha
  have e2 := movavg_filter_cons d.fb (mul (add d.ff.sum (sub x a)) d.ff.invLen) b [] hb
  have e := dc_filter_of e1 e2
  obtain ⟨d', y, e', h'⟩ := dcInv_filter hinv (by omega) x
  refine ⟨d', ?_, h'⟩
  rw [e'] at e
  simp only [Option.some.injEq, Prod.mk.injEq] at e
  rw [e', e.2]
  simp [ofBool, Rat.zero_mul, Rat.sub_eq_add_neg, Rat.add_zero]

theorem dc_len1_run (xs : List (Option Rat)) : ∀ d : DcBlock Rat, DcInv 1 d →
    ∃ d', dcRun d xs = some (d', xs.filterMap id) ∧ DcInv 1 d' := by
  induction xs with
  | nil => intro d h; exact ⟨d, rfl, h⟩
  | cons x xs ih =>
    intro d h
    cases x with
    | none =>
      obtain ⟨d', e, h'⟩ := ih _ (dcInv_reset h)
      exact ⟨d', by simpa [dcRun] using e, h'⟩
    | some x =>
      obtain ⟨d1, e1, h1⟩ := dc_len1_filter h x
      obtain ⟨d', e2, h2⟩ := ih d1 h1
      exact ⟨d', by simp [dcRun, e1, e2], h2⟩

/-- a moving average of length `len` whose `sum` is exact -/
structure MovGood (len : Nat) (m : MovAvg Rat) : Prop where
  length : m.window.length = len
  sum : m.sum = m.window.sum
  inv : m.invLen = 1 / (len : Rat)

/-- the newest `i` entries of the window are all `c` -/
def MovTail (len : Nat) (c : Rat) (i : Nat) (m : MovAvg Rat) : Prop :=
  ∃ pre, m.window = pre ++ List.replicate i c ∧ pre.length + i = len

theorem movGood_filter {len : Nat} {m : MovAvg Rat} (hg : MovGood len m) (hl : 0 < len) (x : Rat) :
    ∃ m' y, m.filter x = some (m', y) ∧ MovGood len m' := by
  cases hw : m.window with
  | nil => have := hg.length; simp [hw] at this; omega
  | cons aged rest =>
    refine ⟨_, _, movavg_filter_cons m x aged rest hw, ?_, ?_, hg.inv⟩
    · have := hg.length; simp [hw] at this; simp; omega
    · simp only [rat_add, rat_sub, hg.sum, hw, sum_append_rat]; simp; grind

theorem movTail_zero {len : Nat} {m : MovAvg Rat} (hg : MovGood len m) (c : Rat) : MovTail len c 0 m :=
  ⟨m.window, by simp, by simp [hg.length]⟩

/-- feeding `c` extends the tail of `c`s (up to `len - 1`, which is then kept); once the tail has
    `len - 1` entries the outputs are `(c, c)` -/
theorem movTail_filter {len : Nat} {c : Rat} {i : Nat} {m : MovAvg Rat} (hg : MovGood len m)
    (ht : MovTail len c i m) (hi : i ≤ len - 1) (hl : 0 < len) :
    ∃ m' y, m.filter c = some (m', y) ∧ MovGood len m' ∧ MovTail len c (min (i + 1) (len - 1)) m' ∧
      (i = len - 1 → y = (c, c)) := by
  obtain ⟨pre, hw, hlen⟩ := ht
  cases pre with
  | nil => simp at hlen; omega
  | cons a pre' =>
    have hw' : m.window = a :: (pre' ++ List.replicate i c) := by simpa using hw
    have e := movavg_filter_cons m c a _ hw'
    have hwin : pre' ++ List.replicate i c ++ [c] = pre' ++ List.replicate (i + 1) c := by
      simp [List.replicate_succ']
    have hsum : add m.sum (sub c a) = (pre' ++ List.replicate (i + 1) c).sum := by
      simp only [rat_add, rat_sub, hg.sum, hw', sum_append_rat, sum_replicate_rat, List.sum_cons,
        natCast_succ_rat]
      grind
    refine ⟨_, _, e, ⟨?_, ?_, hg.inv⟩, ?_, ?_⟩
    · simp at hlen ⊢; omega
    · simp only [hwin, hsum]
    · by_cases hlt : i + 1 ≤ len - 1
      · rw [Nat.min_eq_left hlt]
        exact ⟨pre', hwin, by simp at hlen; omega⟩
      · have hi' : i = len - 1 := by omega
        have hp : pre' = [] := by
          simp at hlen
          exact List.eq_nil_of_length_eq_zero (by omega)
        rw [Nat.min_eq_right (by omega)]
        refine ⟨[c], ?_, by simp; omega⟩
        simp only [hp, List.nil_append]
        rw [hi', ← List.replicate_succ', List.replicate_succ]; rfl
    · intro hi'
      have hp : pre' = [] := by
        simp at hlen
        exact List.eq_nil_of_length_eq_zero (by omega)
      have hne : (len : Rat) ≠ 0 := by simp; omega
      have hcast : ((i + 1 : Nat) : Rat) = (len : Rat) := by
        rw [show i + 1 = len by omega]
      simp only [Prod.mk.injEq]
      refine ⟨?_, ?_⟩
      · rw [hsum, hp, hg.inv]
        simp only [List.nil_append, sum_replicate_rat, rat_mul, hcast]
        grind
      · subst hp; cases i <;> simp [List.replicate_succ]

/-- the state of a DC blocker of length `len` after `j` samples of the constant `c` -/
structure DcConst (len : Nat) (c : Rat) (j : Nat) (d : DcBlock Rat) : Prop where
  ffGood : MovGood len d.ff
  fbGood : MovGood len d.fb
  ffTail : MovTail len c (min j (len - 1)) d.ff
  fbTail : MovTail len c (min (j - (len - 1)) (len - 1)) d.fb

theorem dcConst_filter {len : Nat} {c : Rat} {j : Nat} {d : DcBlock Rat} (h : DcConst len c j d)
    (hl : 1 < len) :
    ∃ d' y, d.filter c = some (d', y) ∧ DcConst len c (j + 1) d' ∧ (2 * (len - 1) ≤ j → y = 0) := by
  obtain ⟨ff, y1, e1, g1, t1, o1⟩ := movTail_filter h.ffGood h.ffTail (Nat.min_le_right _ _) (by omega)
  by_cases hj : len - 1 ≤ j
  · have hy1 : y1 = (c, c) := o1 (by omega)
    subst hy1
    obtain ⟨fb, y2, e2, g2, t2, o2⟩ := movTail_filter h.fbGood h.fbTail (Nat.min_le_right _ _) (by omega)
    refine ⟨⟨ff, fb⟩, _, dc_filter_of e1 e2, ⟨g1, g2, ?_, ?_⟩, ?_⟩
    · rw [show min (j + 1) (len - 1) = min (min j (len - 1) + 1) (len - 1) by omega]; exact t1
    · rw [show min (j + 1 - (len - 1)) (len - 1) = min (min (j - (len - 1)) (len - 1) + 1) (len - 1) by omega]
      exact t2
    · intro hj2
      have hy2 : y2 = (c, c) := o2 (by omega)
      subst hy2
      have : decide (1 < ff.window.length) = true := by simp [g1.length, hl]
      simp only [this, ofBool, rat_sub, rat_mul, rat_one, if_true]
      grind
  · obtain ⟨fb, y2, e2, g2⟩ := movGood_filter h.fbGood (by omega) y1.1
    refine ⟨⟨ff, fb⟩, _, dc_filter_of e1 e2, ⟨g1, g2, ?_, ?_⟩, by omega⟩
    · rw [show min (j + 1) (len - 1) = min (min j (len - 1) + 1) (len - 1) by omega]; exact t1
    · rw [show min (j + 1 - (len - 1)) (len - 1) = 0 by omega]
      exact movTail_zero g2 c

theorem dcConst_run {len : Nat} {c : Rat} (hl : 1 < len) (k : Nat) : ∀ (j : Nat) (d : DcBlock Rat),
    DcConst len c j d →
    ∃ d' outs, dcRun d (List.replicate k (some c)) = some (d', outs) ∧ DcConst len c (j + k) d' ∧
      outs.length = k ∧ ∀ i, i < k → 2 * (len - 1) ≤ j + i → outs[i]? = some 0 := by
  induction k with
  | zero => intro j d h; exact ⟨d, [], rfl, h, rfl, by simp⟩
  | succ k ih =>
    intro j d h
    obtain ⟨d1, y, e1, h1, hy⟩ := dcConst_filter h hl
    obtain ⟨d', outs, e2, h2, l2, o2⟩ := ih (j + 1) d1 h1
    refine ⟨d', y :: outs, by simp [List.replicate_succ, dcRun, e1, e2],
      by rw [show j + (k + 1) = j + 1 + k by omega]; exact h2, by simp [l2], ?_⟩
    intro i hi hji
    cases i with
    | zero => simp [hy (by omega)]
    | succ i => simpa using o2 i (by omega) (by omega)

end DcRat

end SameVerif.Dsp

