import SameVerif.Lemmas.LinkInv
/-
  Helper lemmas for C10, third part: how much a burst can still grow once silence has begun —
  at most one byte per 8 ticks until the power history has drained, i.e. at most 4 bytes.
-/
namespace SameVerif

/-- the number of byte ticks that can still happen when `j` silent ticks have been heard and the
    byte clock shows `clk`: byte ticks need clock 0, and tick number `32 - j` from now is a
    carrier drop at the latest -/
def byteBudget (j : Nat) (clk : Option Nat) : Nat :=
  match clk with
  | none => 0
  | some k => (31 - j - (8 - k) % 8 + 7) / 8

theorem byteBudget_le (clk : Option Nat) : byteBudget 0 clk ≤ 4 := by
  cases clk with
  | none => simp [byteBudget]
  | some k => simp only [byteBudget]; omega

/-- `read_step` with the byte budget -/
theorem read_step_budget (c : LCfg) (s : LState) (o : Obs) (b : Byte) (msg : List Byte) (inv : Nat)
    (j : Nat) (hinv : LinkInv s) (hj : j < 32) (ht : TailFalse j s.pwr)
    (hf : s.fr = .read msg inv) (ho : o.openOk = false) (hcl : o.closeOk = false) :
    (∃ msg' inv', (lstep c s o b).1.fr = .read msg' inv'
        ∧ (∀ m, (lstep c s o b).2.1 ≠ .burst m)
        ∧ msg'.length + byteBudget (j + 1) (lstep c s o b).1.clock
            ≤ msg.length + byteBudget j s.clock)
      ∨ ((lstep c s o b).1.fr = .idle ∧ (lstep c s o b).2.1 = .burst msg) := by
  have ht' : TailFalse (j + 1) (push32 s.pwr false) := tailFalse_push j _ ht
  rw [lstep_closed c s o b ho, hcl]
  split
  · right; simp [baseOf, hf, fend]
  · split
    · right; simp [baseOf, hf, fend, LState.endRx]
    · next hnd =>
      split
      · right; simp [baseOf, hf, fend]
      · next hc =>
        -- a byte tick: the history has not drained yet, so `j ≤ 30`
        have hj30 : j + 1 < 32 := by
          apply Classical.byContradiction
          intro hge
          have hhead : (push32 s.pwr false).headD true = false := by
            apply tailFalse_head (j + 1) _ ht' _ (push32_ne_nil _ _)
            rw [push32_length]; omega
          apply hnd
          rw [hc, hhead]; rfl
        obtain ⟨byte, _, hout, _, _, _, hfr, _, hcases⟩ := byteTick_shape c (baseOf s o) false b
        rw [hout, hfr]
        have e : (baseOf s o).fr = .read msg inv := hf
        rw [e] at hcases ⊢
        simp only [finput, Bool.false_eq_true, ↓reduceIte] at hcases ⊢
        rcases finputNR_read c.fc msg inv byte with h | ⟨inv', h⟩
        · right; rw [h]; exact ⟨rfl, rfl⟩
        · left
          rw [h] at hcases ⊢
          refine ⟨msg ++ [byte], inv', rfl, (fun m hm => by cases hm), ?_⟩
          rcases hcases with ⟨_, h1, _⟩ | ⟨h0, _⟩ | ⟨h0, _⟩
          · rw [h1, hc]
            simp only [byteBudget, List.length_append, List.length_singleton]
            omega
          · cases h0
          · rcases h0 with h0 | ⟨m, h0⟩ <;> cases h0
      · next k hc =>
        left
        have hk := hinv.clock_lt _ hc
        refine ⟨msg, inv, hf, ?_, ?_⟩
        · intro m hm
          simp [hf, fstate] at hm
        · rw [hc]
          simp only [byteBudget]
          omega

theorem read_run_budget (c : LCfg) (xs : List Tick) : ∀ (s : LState) (j : Nat) msg inv,
    LinkInv s → j < 32 → TailFalse j s.pwr → s.fr = .read msg inv → AllSilent xs →
    (∃ msg' inv', (lrunState c s xs).fr = .read msg' inv' ∧ lrunBursts c s xs = [])
      ∨ (∃ msg', lrunBursts c s xs = [msg']
          ∧ msg'.length ≤ msg.length + byteBudget j s.clock) := by
  induction xs with
  | nil => intro s j msg inv _ _ _ h _; exact Or.inl ⟨msg, inv, h, rfl⟩
  | cons x xs ih =>
    intro s j msg inv hinv hj ht h hx
    have hx' : AllSilent xs := fun y hy => hx y (by simp [hy])
    obtain ⟨ho, hcl⟩ := hx x (by simp)
    rcases read_step_budget c s x.1 x.2 msg inv j hinv hj ht h ho hcl with
      ⟨msg', inv', h1, h3, h4⟩ | ⟨h1, h2⟩
    · rw [lrunBursts_cons_other c s x xs h3]
      have hd := draining_step c j s x.1 x.2 hinv (Or.inr ⟨hj, ht⟩) ho hcl
      rcases hd with ⟨_, _, hq⟩ | ⟨hj', ht'⟩
      · rw [hq] at h1; cases h1
      · rcases ih _ (j + 1) msg' inv' (linkInv_step c s x.1 x.2 hinv) hj' ht' h1 hx' with
          ⟨m2, i2, g1, g2⟩ | ⟨m2, g1, g2⟩
        · exact Or.inl ⟨m2, i2, g1, g2⟩
        · exact Or.inr ⟨m2, g1, by omega⟩
    · rw [lrunBursts_cons_burst c s x xs msg h2]
      obtain ⟨g1, _⟩ := idle_run c xs _ h1 hx'.closed
      exact Or.inr ⟨msg, by rw [g1], by omega⟩

end SameVerif
