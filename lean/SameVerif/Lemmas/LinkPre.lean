import SameVerif.Lemmas.LinkBurst
import SameVerif.Lemmas.LinkFramer2
import SameVerif.Spec.PreSync
/-
  The squelch BEFORE the framer locks, abstractly (support for `Thm/C01t.lean`).

  While unlocked, what the link model does depends on two Booleans per tick only: `ph` — a
  (potential) sync hit: open threshold met and window within the budget — and `hd` — the oldest
  entry of the power history is above the close threshold.  `preStep` is the resulting automaton
  on `Option Nat`: `none` = unsynchronised and idle, `some k` = `k` ticks after the last ADJUSTING
  hit (a hit that (re)started the byte clock: framer restarted, four training bytes pending).
  Up to `k = 32` the framer has been fed training bytes `0xAB` only, so its state is known; the
  automaton FAILS (outer `none`) if an equalizer byte would be consumed before the next adjusting
  hit or carrier drop.  `preRun_sim`: the link model follows the automaton.
-/
namespace SameVerif
open SameVerif.Spec

/-- the link state that an abstract state stands for -/
def SimPre : Option Nat → LState → Prop
  | none, st => st.clock = none ∧ st.lock = false ∧ st.fr = .idle
  | some k, st => 1 ≤ k ∧ k ≤ 32 ∧ st.clock = some (k % 8) ∧ st.lock = false
      ∧ st.train = 4 - ((k - 1) / 8 + 1) ∧ st.fr = .search (abw ((k - 1) / 8 + 1)) ((k - 1) / 8 + 1)

theorem hitOf_eq (c : LCfg) (s : LState) (o : Obs) :
    hitOf c s o = (!s.lock && decide (errOf s o ≤ c.maxErrors) && o.openOk) := rfl

theorem noHit_of_hitOf {c : LCfg} {s : LState} {o : Obs} (h : hitOf c s o = false) : NoHit c s o := by
  rw [hitOf_eq] at h
  unfold NoHit
  cases hl : s.lock
  · cases ho : o.openOk
    · right; left; rfl
    · right; right
      rw [hl, ho] at h
      simpa using h
  · left; rfl

/-- a re-synchronisation: a hit while the byte clock runs at another phase -/
theorem lstep_resync (c : LCfg) (s : LState) (o : Obs) (b : Byte) (k : Nat) (w : UInt32) (n : Nat)
    (h1 : 31 ≤ s.nsym) (hc : s.clock = some k) (hk : 1 ≤ k) (hl : s.lock = false)
    (hf : s.fr = .search w n)
    (ho : o.openOk = true) (he : errOf s o ≤ c.maxErrors) (hp : c.fc.maxPrefixErr < 15) :
    (lstep c s o b).2.1 = .searching ∧ (lstep c s o b).1.clock = some 1
      ∧ (lstep c s o b).1.lock = false ∧ (lstep c s o b).1.fr = .search 0xAB 1
      ∧ (lstep c s o b).1.train = 3 := by
  have h2 : ¬ s.nsym + 1 < 32 := by omega
  have he' : popcount32 (SYNC_WORD ^^^ ((s.corr >>> 1) ||| ((if o.bit then (1 : UInt32) else 0) <<< 31))) ≤ c.maxErrors := he
  have hw : PREAMBLE_BYTE.toUInt32 = 0xAB := by decide
  have hpe : prefixErrors (0xAB : UInt32) = 15 := by decide +kernel
  have hq : ¬ 15 ≤ c.fc.maxPrefixErr := by omega
  have hs : ¬ (0 + 1 > Gen.PREFIX_SEARCH_LEN) := by decide
  obtain ⟨k', rfl⟩ : ∃ k', k = k' + 1 := ⟨k - 1, by omega⟩
  simp [lstep, h2, hc, hl, hf, ho, he', fend, finput, finputNR, hw, hpe, hq, hs]

/-- a byte tick that is not a resynchronisation; with a hit the power history is not looked at -/
theorem lstep_byte' (c : LCfg) (s : LState) (o : Obs) (b : Byte)
    (h1 : 31 ≤ s.nsym) (hc : s.clock = some 0) (hh : hitOf c s o = true ∨ headOf s o = true) :
    let byte := if s.train > 0 then PREAMBLE_BYTE else b
    let r := finputNR c.fc s.fr byte
    (lstep c s o b).2.1 = r.2 ∧ (lstep c s o b).1.fr = r.1
      ∧ (lstep c s o b).1.train = s.train - 1
      ∧ (lstep c s o b).1.clock = (match r.2 with | .reading => some 1 | .searching => some 1 | _ => none)
      ∧ (lstep c s o b).1.lock = (match r.2 with | .reading => true | .searching => s.lock | _ => false) := by
  by_cases hhead : headOf s o = true
  · exact lstep_byte c s o b h1 hc hhead
  · have hhit : hitOf c s o = true := by
      rcases hh with h | h
      · exact h
      · exact absurd h hhead
    intro byte r
    have h2 : ¬ s.nsym + 1 < 32 := by omega
    have hr : finputNR c.fc s.fr (if s.train > 0 then PREAMBLE_BYTE else b) = r := rfl
    unfold hitOf at hhit
    simp only [lstep, h2, hhit, hc, finput, LState.endRx, if_false, if_true]
    simp
    rw [hr]
    cases r.2 <;> simp

/-- a training byte `0xAB` into the searching framer -/
theorem finputNR_training (fc : FCfg) (hp : fc.maxPrefixErr < 15) (m : Nat) (h1 : 1 ≤ m) (h3 : m ≤ 3) :
    finputNR fc (.search (abw m) m) PREAMBLE_BYTE = (.search (abw (m + 1)) (m + 1), .searching) := by
  have hb : PREAMBLE_BYTE = 0xAB := by decide
  have := abw_errors (m + 1) (by omega)
  have hps : Gen.PREFIX_SEARCH_LEN = 21 := rfl
  simp only [finputNR]
  rw [hb, abw_step m h1, if_neg (by omega), if_neg (by omega)]

/-- **one tick**: the link model follows the abstract squelch -/
theorem preStep_sim (c : LCfg) (hP : c.fc.maxPrefixErr < 15) (st : LState) (o : Obs) (b : Byte)
    (h31 : 31 ≤ st.nsym) (ast ast' : Option Nat) (hsim : SimPre ast st)
    (hstep : preStep (hitOf c st o) (headOf st o) ast = some ast') :
    SimPre ast' (lstep c st o b).1 ∧ burstOf (lstep c st o b).2.1 = [] := by
  cases ast with
  | none =>
    obtain ⟨s1, s2, s3⟩ := hsim
    simp only [preStep, Option.some.injEq] at hstep
    cases hph : hitOf c st o
    · rw [hph] at hstep
      simp only [Bool.false_eq_true, if_false] at hstep
      subst hstep
      obtain ⟨o1, o2, o3, o4, _⟩ := lstep_quiet c st o b h31 s1 s3 (noHit_of_hitOf hph)
      exact ⟨⟨o2, by rw [o3, s2], o4⟩, by rw [o1]; rfl⟩
    · rw [hph] at hstep
      simp only [if_true] at hstep
      subst hstep
      rw [hitOf_eq, s2] at hph
      have ho : o.openOk = true := by
        cases h : o.openOk
        · rw [h] at hph; simp at hph
        · rfl
      have he : errOf st o ≤ c.maxErrors := by
        rw [ho] at hph
        simpa using hph
      obtain ⟨o1, o2, o3, o4, o5, _⟩ := lstep_sync c st o b h31 s1 s2 s3 ho he hP
      refine ⟨⟨by omega, by omega, o2, o3, by rw [o5], ?_⟩, by rw [o1]; rfl⟩
      rw [o4]; rfl
  | some k =>
    obtain ⟨k1, k32, s1, s2, s3, s4⟩ := hsim
    simp only [preStep] at hstep
    cases hph : hitOf c st o
    · -- no hit
      have hno := noHit_of_hitOf hph
      rw [hph] at hstep
      simp only [Bool.false_eq_true, if_false] at hstep
      cases hhd : headOf st o
      · -- carrier dropped
        rw [hhd] at hstep
        simp only [Bool.not_false, if_true, Option.some.injEq] at hstep
        subst hstep
        obtain ⟨o1, o2, o3, o4⟩ := lstep_drop c st o b _ h31 s1 hno hhd
        rw [s4] at o1 o4
        exact ⟨⟨o2, o3, o4⟩, by rw [o1]; rfl⟩
      · rw [hhd] at hstep
        simp only [Bool.not_true, Bool.false_eq_true, if_false] at hstep
        by_cases hk : k < 32
        · rw [if_pos hk] at hstep
          simp only [Option.some.injEq] at hstep
          subst hstep
          by_cases hb : k % 8 = 0
          · -- training byte
            have hm1 : 1 ≤ (k - 1) / 8 + 1 := by omega
            have hm3 : (k - 1) / 8 + 1 ≤ 3 := by omega
            have hstepb := lstep_byte' c st o b h31 (by rw [s1, hb]) (Or.inr hhd)
            simp only at hstepb
            rw [s3, if_pos (by omega), s4, finputNR_training c.fc hP _ hm1 hm3] at hstepb
            obtain ⟨o1, o2, o3, o4, o5⟩ := hstepb
            refine ⟨⟨by omega, by omega, ?_, ?_, ?_, ?_⟩, by rw [o1]; rfl⟩
            · rw [o4]; simp only; congr 1; omega
            · rw [o5]; exact s2
            · rw [o3]; omega
            · rw [o2, show (k + 1 - 1) / 8 + 1 = (k - 1) / 8 + 1 + 1 by omega]
          · -- ordinary tick
            obtain ⟨o1, o2, o3, o4, o5⟩ := lstep_tick c st o b (k % 8) h31 s1 (by omega) hno hhd
            refine ⟨⟨by omega, by omega, ?_, by rw [o3]; exact s2, ?_, ?_⟩, ?_⟩
            · rw [o2]; congr 1; omega
            · rw [o5, s3, show (k + 1 - 1) / 8 = (k - 1) / 8 by omega]
            · rw [o4, s4, show (k + 1 - 1) / 8 = (k - 1) / 8 by omega]
            · rw [o1, s4]; rfl
        · rw [if_neg hk] at hstep
          cases hstep
    · -- a hit
      rw [hph] at hstep
      simp only [if_true] at hstep
      have hph' := hph
      rw [hitOf_eq, s2] at hph'
      have ho : o.openOk = true := by
        cases h : o.openOk
        · rw [h] at hph'; simp at hph'
        · rfl
      have he : errOf st o ≤ c.maxErrors := by
        rw [ho] at hph'
        simpa using hph'
      by_cases hb : k % 8 ≠ 0
      · -- adjusting
        rw [if_pos hb] at hstep
        simp only [Option.some.injEq] at hstep
        subst hstep
        obtain ⟨o1, o2, o3, o4, o5⟩ := lstep_resync c st o b (k % 8) _ _ h31 s1 (by omega) s2 s4 ho he hP
        refine ⟨⟨by omega, by omega, o2, o3, by rw [o5], ?_⟩, by rw [o1]; rfl⟩
        rw [o4]; rfl
      · -- re-affirming hit at a byte tick: a training byte
        rw [if_neg hb] at hstep
        have hb : k % 8 = 0 := by omega
        by_cases hk : k < 32
        · rw [if_pos hk] at hstep
          simp only [Option.some.injEq] at hstep
          subst hstep
          have hm1 : 1 ≤ (k - 1) / 8 + 1 := by omega
          have hm3 : (k - 1) / 8 + 1 ≤ 3 := by omega
          have hstepb := lstep_byte' c st o b h31 (by rw [s1, hb]) (Or.inl hph)
          simp only at hstepb
          rw [s3, if_pos (by omega), s4, finputNR_training c.fc hP _ hm1 hm3] at hstepb
          obtain ⟨o1, o2, o3, o4, o5⟩ := hstepb
          refine ⟨⟨by omega, by omega, ?_, ?_, ?_, ?_⟩, by rw [o1]; rfl⟩
          · rw [o4]; simp only; congr 1; omega
          · rw [o5]; exact s2
          · rw [o3]; omega
          · rw [o2, show (k + 1 - 1) / 8 + 1 = (k - 1) / 8 + 1 + 1 by omega]
        · rw [if_neg hk] at hstep
          cases hstep

/-- **the run**: from an unsynchronised idle state at tick `a` (sample history full), as long as
    the abstract squelch — driven by `ph t` = hit possible at tick `t`, `hd t` = power-history head
    at tick `t` — does not fail, the link model is in the state it stands for, and reports no
    burst -/
theorem preRun_sim (c : LCfg) (hP : c.fc.maxPrefixErr < 15) (xs : List Tick) (s : LState)
    (ph hd : Nat → Bool) (a : Nat) (hready : Ready (lrunState c s (xs.take a)))
    (hwarm : 31 ≤ s.nsym + a)
    (hph : ∀ t (ht : t < xs.length), a ≤ t → (lrunState c s (xs.take t)).lock = false →
      hitOf c (lrunState c s (xs.take t)) xs[t].1 = ph t)
    (hhd : ∀ t (ht : t < xs.length), a ≤ t → headOf (lrunState c s (xs.take t)) xs[t].1 = hd t) :
    ∀ m ast, a + m ≤ xs.length → preRun ph hd a m = some ast →
      SimPre ast (lrunState c s (xs.take (a + m)))
        ∧ lrunBursts c s (xs.take (a + m)) = lrunBursts c s (xs.take a) := by
  intro m
  induction m with
  | zero =>
    intro ast _ h
    simp only [preRun, Option.some.injEq] at h
    subst h
    exact ⟨⟨hready.clock, hready.lock, hready.fr⟩, rfl⟩
  | succ m ih =>
    intro ast' hlen h
    simp only [preRun] at h
    cases hpr : preRun ph hd a m with
    | none => rw [hpr] at h; cases h
    | some ast =>
      rw [hpr] at h
      simp only [Option.bind_some] at h
      obtain ⟨i1, i2⟩ := ih ast (by omega) hpr
      have htx : a + m < xs.length := by omega
      have hlock : (lrunState c s (xs.take (a + m))).lock = false := by
        cases ast with
        | none => exact i1.2.1
        | some k => exact i1.2.2.2.1
      rw [← hph (a + m) htx (by omega) hlock, ← hhd (a + m) htx (by omega)] at h
      obtain ⟨j1, j2⟩ := preStep_sim c hP _ _ (xs[a + m]).2 (by rw [nsym_run, List.length_take]; omega)
        ast ast' i1 h
      rw [show a + (m + 1) = a + m + 1 by omega, lrunState_take_succ c s xs _ htx,
        lrunBursts_take_succ c s xs _ htx, j2, List.append_nil]
      exact ⟨j1, i2⟩

end SameVerif
