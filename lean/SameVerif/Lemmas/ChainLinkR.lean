import SameVerif.Lemmas.ChainLink
import SameVerif.Thm.C01r
/-
  Layer 2 of the digital chain on the realistic front-end assumptions (`Spec.BurstObserved'` +
  `Spec.NoFalseHits`, state-based): several bursts one after the other, then a stretch without
  possible hits.  Generalises `Lemmas/ChainLink.lean`; the start state need only be `Ready`
  (e.g. the initial state `{}`) if the first lead-in fills the sample history.
-/
namespace SameVerif.Chain
open SameVerif SameVerif.Spec

/-- `Spec.BurstObserved'` for a segment -/
abbrev Observed' (payload : List Byte) (g : Seg) : Prop :=
  BurstObserved' payload g.body g.tail g.acq g.rel

/-- `Spec.NoFalseHits` for a segment entered in state `s` -/
abbrev NoFalse (c : LCfg) (s : LState) (g : Seg) : Prop :=
  NoFalseHits c s g.lead g.body g.tail g.acq

theorem observed_refines {payload : List Byte} {g : Seg} (h : Observed payload g) (c : LCfg) (s : LState) :
    Observed' payload g ∧ NoFalse c s g := ⟨h.weaken, h.noFalseHits c s⟩

/-- **One segment, with the position of the burst** (`seg_out` on the new assumptions). -/
theorem seg_out_r (c : LCfg) (hE : c.maxErrors ≤ 6) (hP : c.fc.maxPrefixErr ≤ 7)
    (payload : List Byte) (hc : PayloadCond c payload) (g : Seg) (hg : Observed' payload g)
    (s : LState) (hs : Ready s) (hw : 32 ≤ s.nsym + g.lead.length) (hn : NoFalse c s g) :
    ∃ t, SegOut g payload t (lrun c s g.ticks) ∧ lrunBursts c s g.ticks = [payload ++ t]
      ∧ Quiescent (lrunState c s g.ticks) := by
  obtain ⟨t, hb, hlen, hq⟩ :=
    C01r.burst_delivered c hE hP s hs payload hc.ok hc.dash hc.p4 g.lead g.body g.tail g.acq g.rel hw hg hn
  obtain ⟨_, hl2, _, _⟩ := C01r.lead_quiet c s hs g.lead hn.quiet
  obtain ⟨_, _, _, _, hf⟩ :=
    C01r.framer_sees c hE hP s hs payload hc.ok hc.dash hc.p4 g.lead g.body g.tail g.acq g.rel hw hg hn
  refine ⟨t, ⟨lrun_length c _ s, ?_, hlen⟩, hb, hq⟩
  have htl := hg.tail_len
  have hk : g.lead.length + g.body.length + 31 ≤ g.ticks.length := by
    simp only [Seg.ticks, List.length_append]; omega
  have htake : g.ticks.take (g.lead.length + g.body.length + 31)
      = g.lead ++ (g.body ++ g.tail).take (g.body.length + 31) := by
    simp only [Seg.ticks, List.append_assoc]
    rw [List.take_append, List.take_of_length_le (by omega)]
    congr 2
    omega
  have hpre : ((lrun c s g.ticks).take (g.lead.length + g.body.length + 31)).flatMap burstOf = [] := by
    rw [← lrun_take, ← lrunBursts_eq, htake, lrunBursts_append, hl2, hf]; rfl
  have hall : (lrun c s g.ticks).flatMap burstOf = [payload ++ t] := by
    rw [← lrunBursts_eq]; exact hb
  rw [← List.take_append_drop (g.lead.length + g.body.length + 31) (lrun c s g.ticks),
    List.flatMap_append, hpre, List.nil_append] at hall
  obtain ⟨pre, post, h1, h2, h3⟩ := split_single _ _ hall
  refine ⟨(lrun c s g.ticks).take (g.lead.length + g.body.length + 31) ++ pre, post, ?_, ?_, h3, ?_⟩
  · rw [List.append_assoc, ← h1, List.take_append_drop]
  · exact noBurst_append _ _ ((noBurst_iff _).1 hpre) h2
  · rw [List.length_append, List.length_take, lrun_length]
    omega

/-- the hypotheses for a sequence of segments, each entered in the state the previous one left -/
def SegsOk (c : LCfg) : LState → List (List Byte × Seg) → Prop
  | _, [] => True
  | s, p :: ps => PayloadCond c p.1 ∧ Observed' p.1 p.2 ∧ 32 ≤ s.nsym + p.2.lead.length
      ∧ NoFalse c s p.2 ∧ SegsOk c (lrunState c s p.2.ticks) ps

/-- **A whole transmission at the link layer** (`segments_delivered` on the new assumptions). -/
theorem segments_delivered_r (c : LCfg) (hE : c.maxErrors ≤ 6) (hP : c.fc.maxPrefixErr ≤ 7)
    (ps : List (List Byte × Seg)) : ∀ (s : LState), Ready s → SegsOk c s ps →
    Forall₂ (fun p b => ∃ t, b = p.1 ++ t ∧ t.length ≤ (p.2.rel + 7) / 8) ps
        (lrunBursts c s (ps.flatMap (fun p => p.2.ticks)))
      ∧ Ready (lrunState c s (ps.flatMap (fun p => p.2.ticks))) := by
  induction ps with
  | nil => intro s hs _; exact ⟨.nil, hs⟩
  | cons p ps ih =>
    intro s hs hall
    obtain ⟨hc, ho, hw, hn, hrest⟩ := hall
    obtain ⟨t, hso, hb, hq⟩ := seg_out_r c hE hP p.1 hc p.2 ho s hs hw hn
    obtain ⟨i1, i2⟩ := ih _ hq.ready hrest
    simp only [List.flatMap_cons]
    rw [lrunBursts_append, lrunState_append, hb]
    exact ⟨.cons ⟨t, rfl, hso.tail_len⟩ i1, i2⟩

/-- a stretch without possible hits after the transmission: only `.noCarrier` -/
theorem quiet_out_r (c : LCfg) (s : LState) (hs : Ready s) (quiet : List Tick)
    (hq : QuietNoHit c s quiet) :
    lrun c s quiet = List.replicate quiet.length .noCarrier ∧ Ready (lrunState c s quiet) := by
  obtain ⟨h1, _, h3, _⟩ := C01r.lead_quiet c s hs quiet hq
  exact ⟨List.eq_replicate_iff.2 ⟨lrun_length c quiet s, h1⟩, h3⟩

/-- **Three bursts and a quiet stretch, tick by tick** (`three_segments` on the new assumptions). -/
theorem three_segments_r (c : LCfg) (hE : c.maxErrors ≤ 6) (hP : c.fc.maxPrefixErr ≤ 7)
    (payload : List Byte) (hc : PayloadCond c payload) (g1 g2 g3 : Seg)
    (quiet : List Tick) (s : LState) (hs : Ready s)
    (h1 : Observed' payload g1) (w1 : 32 ≤ s.nsym + g1.lead.length) (n1 : NoFalse c s g1)
    (h2 : Observed' payload g2) (n2 : NoFalse c (lrunState c s g1.ticks) g2)
    (h3 : Observed' payload g3) (n3 : NoFalse c (lrunState c (lrunState c s g1.ticks) g2.ticks) g3)
    (hq : QuietNoHit c (lrunState c (lrunState c (lrunState c s g1.ticks) g2.ticks) g3.ticks) quiet) :
    ∃ t1 t2 t3 L1 L2 L3,
      lrun c s (g1.ticks ++ g2.ticks ++ g3.ticks ++ quiet)
          = L1 ++ L2 ++ L3 ++ List.replicate quiet.length .noCarrier
        ∧ SegOut g1 payload t1 L1 ∧ SegOut g2 payload t2 L2 ∧ SegOut g3 payload t3 L3
        ∧ lrunBursts c s (g1.ticks ++ g2.ticks ++ g3.ticks ++ quiet)
            = [payload ++ t1, payload ++ t2, payload ++ t3]
        ∧ Ready (lrunState c s (g1.ticks ++ g2.ticks ++ g3.ticks ++ quiet)) := by
  obtain ⟨t1, o1, b1, q1⟩ := seg_out_r c hE hP payload hc g1 h1 s hs w1 n1
  obtain ⟨t2, o2, b2, q2⟩ := seg_out_r c hE hP payload hc g2 h2 _ q1.ready
    (by have := q1.warm; omega) n2
  obtain ⟨t3, o3, b3, q3⟩ := seg_out_r c hE hP payload hc g3 h3 _ q2.ready
    (by have := q2.warm; omega) n3
  obtain ⟨hqo, q4⟩ := quiet_out_r c _ q3.ready quiet hq
  have hqb : lrunBursts c (lrunState c (lrunState c (lrunState c s g1.ticks) g2.ticks) g3.ticks) quiet = [] := by
    rw [lrunBursts_eq, hqo]
    exact (noBurst_iff _).2 (noBurst_replicate _)
  refine ⟨t1, t2, t3, _, _, _, ?_, o1, o2, o3, ?_, ?_⟩
  · simp only [lrun_append, lrunState_append, hqo]
  · simp only [lrunBursts_append, lrunState_append, b1, b2, b3, hqb]
    rfl
  · simp only [lrunState_append]
    exact q4

end SameVerif.Chain
