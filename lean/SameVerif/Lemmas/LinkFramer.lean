import SameVerif.Lemmas.LinkSync
import SameVerif.Lemmas.FramerRun
/-
  The framer's state, in closed form, while it is fed `0xAB × a ++ payload` after a restart
  (support for C01).
-/
namespace SameVerif
open SameVerif.Spec

/-- search word after `m` preamble bytes -/
def abw (m : Nat) : UInt32 :=
  if m = 0 then 0 else if m = 1 then 0xAB else if m = 2 then 0xABAB else if m = 3 then 0xABABAB
  else 0xABABABAB

/-- framer state after `m ≥ 1` bytes of `0xAB × a ++ pl` -/
def Fst (a : Nat) (pl : List Byte) (m : Nat) : FState :=
  if m ≤ a then .search (abw m) m
  else if m = a + 1 then .search (wordOf [0xAB, 0xAB, 0xAB, pl.getD 0 0]) m
  else if m = a + 2 then .search (wordOf [0xAB, 0xAB, pl.getD 0 0, pl.getD 1 0]) m
  else if m = a + 3 then .search (wordOf [0xAB, pl.getD 0 0, pl.getD 1 0, pl.getD 2 0]) m
  else .read (pl.take (m - a)) 0

/-- byte number `m` (0-based) of `0xAB × a ++ pl`, as a byte of the frame -/
def byteAt (a : Nat) (pl : List Byte) (m : Nat) : Byte := (frameOf pl).getD (16 - a + m) 0

theorem abw_step (m : Nat) (hm : 1 ≤ m) : (abw m <<< 8) ||| (0xAB : Byte).toUInt32 = abw (m + 1) := by
  have : m = 1 ∨ m = 2 ∨ m = 3 ∨ 4 ≤ m := by omega
  rcases this with rfl | rfl | rfl | h
  · decide
  · decide
  · decide
  · have e1 : abw m = 0xABABABAB := by
      unfold abw
      rw [if_neg (by omega), if_neg (by omega), if_neg (by omega), if_neg (by omega)]
    have e2 : abw (m + 1) = 0xABABABAB := by
      unfold abw
      rw [if_neg (by omega), if_neg (by omega), if_neg (by omega), if_neg (by omega)]
    rw [e1, e2]
    decide

theorem abw_ge4 (m : Nat) (hm : 4 ≤ m) : abw m = wordOf [0xAB, 0xAB, 0xAB, 0xAB] := by
  unfold abw
  rw [if_neg (by omega), if_neg (by omega), if_neg (by omega), if_neg (by omega)]
  decide

theorem abw_errors (m : Nat) (hm : 1 ≤ m) : 15 ≤ prefixErrors (abw m) := by
  have : m = 1 ∨ m = 2 ∨ m = 3 ∨ 4 ≤ m := by omega
  rcases this with rfl | rfl | rfl | h
  · decide +kernel
  · decide +kernel
  · decide +kernel
  · rw [abw_ge4 m h]; decide +kernel

theorem take4_eq {pl : List Byte} (h : 4 ≤ pl.length) :
    pl.take 4 = [pl.getD 0 0, pl.getD 1 0, pl.getD 2 0, pl.getD 3 0] := by
  match pl, h with
  | a :: b :: c :: d :: rest, _ => simp

/-- what the prefix-error budget must exclude (windows with preamble bytes) and include (the prefix) -/
structure PrefixFacts (fc : FCfg) (pl : List Byte) : Prop where
  b0 : fc.maxPrefixErr < 15
  b1 : ¬ prefixErrors (wordOf [0xAB, 0xAB, 0xAB, pl.getD 0 0]) ≤ fc.maxPrefixErr
  b2 : ¬ prefixErrors (wordOf [0xAB, 0xAB, pl.getD 0 0, pl.getD 1 0]) ≤ fc.maxPrefixErr
  b3 : ¬ prefixErrors (wordOf [0xAB, pl.getD 0 0, pl.getD 1 0, pl.getD 2 0]) ≤ fc.maxPrefixErr
  b4 : prefixErrors (wordOf [pl.getD 0 0, pl.getD 1 0, pl.getD 2 0, pl.getD 3 0]) ≤ fc.maxPrefixErr

/-- prefix-error budgets up to 7 are safe for `ZCZC`, up to 4 for `NNNN`
    (`AB 4E 4E 4E` is 5 bit errors from `NNNN`) -/
theorem prefixFacts_of (fc : FCfg) (pl : List Byte) (hok : PayloadOk pl) (h7 : fc.maxPrefixErr ≤ 7)
    (h4 : pl.take 4 = [78, 78, 78, 78] → fc.maxPrefixErr ≤ 4) : PrefixFacts fc pl := by
  rcases hok.starts with hs | hs
  · obtain ⟨g0, g1, g2, g3⟩ := getD_of_take4 hs
    have e1 : prefixErrors (wordOf [0xAB, 0xAB, 0xAB, 90]) = 17 := by decide +kernel
    have e2 : prefixErrors (wordOf [0xAB, 0xAB, 90, 67]) = 9 := by decide +kernel
    have e3 : prefixErrors (wordOf [0xAB, 90, 67, 90]) = 12 := by decide +kernel
    have e4 : prefixErrors (wordOf [90, 67, 90, 67]) = 0 := by decide +kernel
    refine ⟨by omega, ?_, ?_, ?_, ?_⟩ <;> simp only [g0, g1, g2, g3, e1, e2, e3, e4] <;> omega
  · obtain ⟨g0, g1, g2, g3⟩ := getD_of_take4 hs
    have := h4 hs
    have e1 : prefixErrors (wordOf [0xAB, 0xAB, 0xAB, 78]) = 15 := by decide +kernel
    have e2 : prefixErrors (wordOf [0xAB, 0xAB, 78, 78]) = 10 := by decide +kernel
    have e3 : prefixErrors (wordOf [0xAB, 78, 78, 78]) = 5 := by decide +kernel
    have e4 : prefixErrors (wordOf [78, 78, 78, 78]) = 0 := by decide +kernel
    refine ⟨by omega, ?_, ?_, ?_, ?_⟩ <;> simp only [g0, g1, g2, g3, e1, e2, e3, e4] <;> omega

/-- one byte of `0xAB × a ++ pl` into the framer: it keeps searching until the fourth prefix
    byte, then reads the payload verbatim -/
theorem Fst_step (fc : FCfg) (a : Nat) (ha4 : 4 ≤ a) (ha16 : a ≤ 16) (pl : List Byte)
    (hall : ∀ b ∈ pl, isAllowed b = true) (hfits : pl.length ≤ Gen.MAX_BURST_LENGTH)
    (hlen : 4 ≤ pl.length) (hb0 : fc.maxPrefixErr < 15)
    (hb1 : ¬ prefixErrors (wordOf [0xAB, 0xAB, 0xAB, pl.getD 0 0]) ≤ fc.maxPrefixErr)
    (hb2 : ¬ prefixErrors (wordOf [0xAB, 0xAB, pl.getD 0 0, pl.getD 1 0]) ≤ fc.maxPrefixErr)
    (hb3 : ¬ prefixErrors (wordOf [0xAB, pl.getD 0 0, pl.getD 1 0, pl.getD 2 0]) ≤ fc.maxPrefixErr)
    (hb4 : prefixErrors (wordOf [pl.getD 0 0, pl.getD 1 0, pl.getD 2 0, pl.getD 3 0]) ≤ fc.maxPrefixErr)
    (m : Nat) (hm1 : 1 ≤ m) (hmM : m < a + pl.length) :
    finputNR fc (Fst a pl m) (byteAt a pl m)
      = (Fst a pl (m + 1), if m + 1 < a + 4 then .searching else .reading) := by
  have hps : Gen.PREFIX_SEARCH_LEN = 21 := rfl
  by_cases c1 : m < a
  · -- preamble byte onto preamble bytes
    have hbyte : byteAt a pl m = 0xAB := by unfold byteAt; exact frame_getD_lt pl _ (by omega)
    have := abw_errors (m + 1) (by omega)
    unfold Fst
    rw [if_pos (by omega), if_pos (by omega), hbyte]
    simp only [finputNR]
    rw [abw_step m hm1, if_neg (by omega), if_neg (by omega), if_pos (by omega)]
  · have hbyte : byteAt a pl m = pl.getD (m - a) 0 := by
      unfold byteAt
      rw [frame_getD_ge pl _ (by omega)]
      congr 1
      omega
    by_cases c2 : m = a
    · subst c2
      unfold Fst
      rw [if_pos (Nat.le_refl _), if_neg (by omega), if_pos rfl, hbyte, abw_ge4 m ha4,
        Nat.sub_self]
      simp only [finputNR]
      rw [← wordOf_slide, if_neg hb1, if_neg (by omega), if_pos (by omega)]
    · by_cases c3 : m = a + 1
      · subst c3
        unfold Fst
        rw [if_neg (by omega), if_pos rfl, if_neg (by omega), if_neg (by omega), if_pos rfl, hbyte,
          show a + 1 - a = 1 by omega]
        simp only [finputNR]
        rw [← wordOf_slide, if_neg hb2, if_neg (by omega), if_pos (by omega)]
      · by_cases c4 : m = a + 2
        · subst c4
          unfold Fst
          rw [if_neg (by omega), if_neg (by omega), if_pos rfl, if_neg (by omega), if_neg (by omega),
            if_neg (by omega), if_pos rfl, hbyte, show a + 2 - a = 2 by omega]
          simp only [finputNR]
          rw [← wordOf_slide, if_neg hb3, if_neg (by omega), if_pos (by omega)]
        · by_cases c5 : m = a + 3
          · subst c5
            unfold Fst
            rw [if_neg (by omega), if_neg (by omega), if_neg (by omega), if_pos rfl, if_neg (by omega),
              if_neg (by omega), if_neg (by omega), if_neg (by omega), hbyte,
              show a + 3 - a = 3 by omega, show a + 3 + 1 - a = 4 by omega]
            simp only [finputNR]
            rw [← wordOf_slide, if_pos hb4, beBytes_wordOf_four, if_neg (by omega), take4_eq hlen]
          · -- reading the payload
            have hk : m - a < pl.length := by omega
            have hby : pl.getD (m - a) 0 = pl[m - a] := by
              rw [List.getD_eq_getElem?_getD, List.getElem?_eq_getElem hk]; rfl
            have hal : isAllowed pl[m - a] = true := hall _ (List.getElem_mem hk)
            unfold Fst
            rw [if_neg (by omega), if_neg (by omega), if_neg (by omega), if_neg (by omega),
              if_neg (by omega), if_neg (by omega), if_neg (by omega), if_neg (by omega), hbyte, hby,
              if_neg (by omega)]
            simp only [finputNR, hal, if_true, Nat.add_zero]
            have hl : (pl.take (m - a)).length = m - a := by rw [List.length_take]; omega
            have hnot : ¬ ((decide (0 > fc.maxInvalid) || decide ((pl.take (m - a)).length ≥ Gen.MAX_BURST_LENGTH)) = true) := by
              rw [hl]; simp; omega
            rw [if_neg hnot, List.take_append_getElem hk, show m + 1 - a = m - a + 1 by omega]

end SameVerif
