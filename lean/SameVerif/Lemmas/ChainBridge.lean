import SameVerif.Model.Chain
import SameVerif.Lemmas.ReceiverFacts
import SameVerif.Lemmas.AssemblerThree
/-
  Layer 1 of the digital chain: a receiver run in which the forced end-of-message timer does not
  fire is the assembler run over `opsOfTicks`.
-/
namespace SameVerif.Chain
open SameVerif SameVerif.Asm SameVerif.C08

abbrev TIMEOUT (rate : Nat) : Nat := Gen.MAX_MESSAGE_DURATION_SECS * rate

/-- the timer, if armed, does not expire before sample `smax` -/
def NoFire (smax : Nat) (s : RState) : Prop := ∀ T, s.forceEomAt = some T → smax ≤ T

/-- all samples of the run are at most `smax`, and `smax` is less than one timeout after each of
    them: a timer armed during the run cannot expire within it -/
structure SamplesWithin (rate smax : Nat) (ticks : List RTick) : Prop where
  hi : ∀ tk ∈ ticks, tk.1 ≤ smax
  lo : ∀ tk ∈ ticks, smax ≤ tk.1 + TIMEOUT rate

theorem samplesWithin_nil (rate smax : Nat) : SamplesWithin rate smax [] :=
  ⟨(by intro tk h; cases h), (by intro tk h; cases h)⟩

theorem Forall₂.append {α β : Type} {R : α → β → Prop} {a1 a2 : List α} {b1 b2 : List β}
    (h1 : Forall₂ R a1 b1) (h2 : Forall₂ R a2 b2) : Forall₂ R (a1 ++ a2) (b1 ++ b2) := by
  induction h1 with
  | nil => exact h2
  | cons h _ ih => exact .cons h ih

theorem SamplesWithin.tail {rate smax : Nat} {tk : RTick} {ts : List RTick}
    (h : SamplesWithin rate smax (tk :: ts)) : SamplesWithin rate smax ts :=
  ⟨fun x hx => h.hi x (List.mem_cons_of_mem _ hx), fun x hx => h.lo x (List.mem_cons_of_mem _ hx)⟩

theorem noFire_init (smax : Nat) : NoFire smax {} := by
  intro T h; cases h

/-! ### one tick -/

/-- the assembler part of a tick, when the timer does not fire -/
theorem tlCore_noforce (s : RState) (sample sym : Nat) (ls : LinkSt)
    (hnf : ∀ T, s.forceEomAt = some T → sample ≤ T) :
    tlCore s sample sym ls
      = match ls with
        | .burst b => ((stepOp s.asm (.burst b sym)).1, some (stepOp s.asm (.burst b sym)).2)
        | .noCarrier => ((stepOp s.asm (.poll sym)).1, some (stepOp s.asm (.poll sym)).2)
        | .searching => (s.asm, none)
        | .reading => (s.asm, none) := by
  cases ls with
  | searching => rfl
  | reading => rfl
  | burst b => rfl
  | noCarrier =>
    cases hf : s.forceEomAt with
    | none => simp [tlCore, hf, stepOp]
    | some T =>
      have := hnf T hf
      simp [tlCore, hf, stepOp, Nat.not_lt.mpr this]

/-- the assembler state after a tick is the assembler state after the tick's operation -/
theorem tlCore_asm (s : RState) (sample sym : Nat) (ls : LinkSt)
    (hnf : ∀ T, s.forceEomAt = some T → sample ≤ T) :
    (tlCore s sample sym ls).1 = (runOps s.asm (opOfTick (sample, sym, ls))).1 := by
  rw [tlCore_noforce s sample sym ls hnf]
  cases ls <;> rfl

/-- the timer after a tick that does not fire it: armed only by a StartOfMessage, one timeout
    after the tick's sample -/
theorem noFire_next (rate smax : Nat) (s : RState) (sample sym : Nat) (ls : LinkSt)
    (h : NoFire smax s) (hlo : smax ≤ sample + TIMEOUT rate) :
    NoFire smax (rNext rate s sample sym ls) := by
  intro T hT
  simp only [rNext] at hT
  generalize (tlCore s sample sym ls).2 = out at hT
  unfold forceAfter at hT
  split at hT
  · cases hT; exact hlo
  · cases hT
  · exact h T hT

theorem msgEvents_append (a b : List Event) : msgEvents (a ++ b) = msgEvents a ++ msgEvents b := by
  simp [msgEvents]

theorem msgEvents_linkEv (s : RState) (sample : Nat) (ls : LinkSt) : msgEvents (linkEv s sample ls) = [] := by
  unfold linkEv
  split <;> rfl

/-- a message answered by the assembler, other than EndOfMessage, is the pending result and so
    differs from the reported transport state: the change filter lets it through -/
theorem msg_out_ne_state (s : RState) (hinv : RInv s) (sample sym : Nat) (ls : LinkSt) (r : MsgResult)
    (hr : r ≠ .ok .eom) (hout : (tlCore s sample sym ls).2 = some (.message r)) :
    Transport.message r ≠ s.transportState := by
  rcases tlCore_cases s sample sym ls with ⟨h1, _⟩ | ⟨_, h1⟩ | ⟨_, ⟨_, h1⟩ | ⟨b, _, h1⟩⟩ <;> rw [h1] at hout
  · cases hout
  · simp only [Option.some.injEq, Transport.message.injEq] at hout
    exact absurd hout.symm hr
  · simp only [Option.some.injEq] at hout
    rcases aIdle_cases s.asm sym with ⟨t, h2, _, h3, _⟩ | ⟨_, h3, _⟩
    · rw [h3] at hout
      injection hout with hout
      rw [← hout]
      exact pending_ne_state s t h2 hinv.2.1 hinv.2.2
    · rcases h3 with h3 | h3 <;> rw [h3] at hout <;> cases hout
  · simp only [Option.some.injEq] at hout
    rcases (aAssemble_message s.asm b sym _ hout).2 with h2 | ⟨t, h2, _, h3⟩
    · exact absurd h2 hr
    · rw [← h3]
      exact pending_ne_state s t h2 hinv.2.1 hinv.2.2

/-- the message events of the transport part of a tick -/
theorem msgEvents_trEv (s : RState) (hinv : RInv s) (sample sym : Nat) (ls : LinkSt)
    (hne : ∀ r, (tlCore s sample sym ls).2 = some (.message r) → r ≠ .ok .eom) :
    msgEvents (trEv s sample (tlCore s sample sym ls).2)
      = match (tlCore s sample sym ls).2 with
        | some (.message r) => [(sample, r)]
        | _ => [] := by
  cases hout : (tlCore s sample sym ls).2 with
  | none => rfl
  | some t =>
    cases t with
    | idle => simp only [trEv]; split <;> rfl
    | assembling => simp only [trEv]; split <;> rfl
    | message r =>
      have hn := msg_out_ne_state s hinv sample sym ls r (hne r hout) hout
      have hb : (Transport.message r).beq' s.transportState = false :=
        (Transport.beq'_false_iff _ _).2 hn
      simp [trEv, hb, msgEvents, msgOfEvent]

/-! ### runs -/

theorem opsOfTicks_cons (tk : RTick) (ts : List RTick) :
    opsOfTicks (tk :: ts) = opOfTick tk ++ opsOfTicks ts := by
  simp [opsOfTicks]

theorem opsOfTicks_append (a b : List RTick) : opsOfTicks (a ++ b) = opsOfTicks a ++ opsOfTicks b := by
  simp [opsOfTicks]

/-- **Bridge, state part.**  If the timer does not fire during the run, the assembler inside the
    receiver goes through exactly the operations `opsOfTicks ticks`; and the timer still cannot
    fire before `smax` afterwards. -/
theorem run_asm (rate smax : Nat) (ticks : List RTick) : ∀ (s : RState), NoFire smax s →
    SamplesWithin rate smax ticks →
    (rRun rate s ticks).1.asm = (runOps s.asm (opsOfTicks ticks)).1 ∧ NoFire smax (rRun rate s ticks).1 := by
  induction ticks with
  | nil => intro s h _; exact ⟨rfl, h⟩
  | cons tk ts ih =>
    intro s hnf hsw
    obtain ⟨sample, sym, ls⟩ := tk
    have hhi := hsw.hi _ List.mem_cons_self
    have hlo := hsw.lo _ List.mem_cons_self
    simp only at hhi hlo
    have hnf' : ∀ T, s.forceEomAt = some T → sample ≤ T := fun T hT => Nat.le_trans hhi (hnf T hT)
    rw [rRun_cons, rTick_eq]
    simp only
    obtain ⟨i1, i2⟩ := ih (rNext rate s sample sym ls) (noFire_next rate smax s sample sym ls hnf hlo) hsw.tail
    refine ⟨?_, i2⟩
    rw [i1, opsOfTicks_cons, runOps_append_fst]
    simp only [rNext]
    rw [tlCore_asm s sample sym ls hnf']

/-- how a message event of the run corresponds to an output of the assembler run: same result,
    and the event's sample and the output's time are the sample and the symbol count of one tick -/
def Matches (ticks : List RTick) (e o : Nat × MsgResult) : Prop :=
  e.2 = o.2 ∧ ∃ ls, (e.1, o.1, ls) ∈ ticks

theorem forall2_matches_mono (a : List RTick) (b : List RTick) (h : ∀ x ∈ a, x ∈ b)
    (es os : List (Nat × MsgResult)) (hf : Forall₂ (Matches a) es os) :
    Forall₂ (Matches b) es os := by
  induction hf with
  | nil => exact .nil
  | cons hm _ ih =>
    obtain ⟨h1, ls, h2⟩ := hm
    exact .cons ⟨h1, ls, h _ h2⟩ ih

/-- one tick: its message events against its operation's outputs -/
theorem tick_events (s : RState) (hinv : RInv s) (sample sym : Nat) (ls : LinkSt)
    (hnf : ∀ T, s.forceEomAt = some T → sample ≤ T)
    (hne : ∀ o ∈ (runOps s.asm (opOfTick (sample, sym, ls))).2, o.2 ≠ .ok .eom) :
    Forall₂ (Matches [(sample, sym, ls)])
      (msgEvents (linkEv s sample ls ++ trEv s sample (tlCore s sample sym ls).2))
      (runOps s.asm (opOfTick (sample, sym, ls))).2 := by
  have hcore := tlCore_noforce s sample sym ls hnf
  have hne' : ∀ r, (tlCore s sample sym ls).2 = some (.message r) → r ≠ .ok .eom := by
    intro r hr
    rw [hcore] at hr
    cases ls with
    | searching => cases hr
    | reading => cases hr
    | burst b =>
      simp only [Option.some.injEq] at hr
      apply hne (sym, r)
      simp [opOfTick, runOps, hr, outOf, AOp.time]
    | noCarrier =>
      simp only [Option.some.injEq] at hr
      apply hne (sym, r)
      simp [opOfTick, runOps, hr, outOf, AOp.time]
  rw [msgEvents_append, msgEvents_linkEv, List.nil_append, msgEvents_trEv s hinv sample sym ls hne', hcore]
  cases ls with
  | searching => exact .nil
  | reading => exact .nil
  | burst b =>
    simp only [opOfTick, runOps, AOp.time, List.append_nil]
    cases (stepOp s.asm (.burst b sym)).2 with
    | idle => exact .nil
    | assembling => exact .nil
    | message r => exact .cons ⟨rfl, _, List.mem_singleton.2 rfl⟩ .nil
  | noCarrier =>
    simp only [opOfTick, runOps, AOp.time, List.append_nil]
    cases (stepOp s.asm (.poll sym)).2 with
    | idle => exact .nil
    | assembling => exact .nil
    | message r => exact .cons ⟨rfl, _, List.mem_singleton.2 rfl⟩ .nil

/-- **Bridge, event part.**  Receiver invariant `RInv` (true of `{}` and preserved), timer not
    firing, and no EndOfMessage among the outputs of the assembler run (this is what makes the
    correspondence exact: a StartOfMessage or an error always comes out of the pending slot and
    differs from the reported transport state, whereas an EndOfMessage answered while the reported
    state already is EndOfMessage produces no event).  Then the message events of the receiver run
    are, in order and one for one, the outputs of the assembler run; each event carries the sample
    of the tick whose operation (identified by its symbol count) produced the output. -/
theorem run_events (rate smax : Nat) (ticks : List RTick) : ∀ (s : RState), RInv s → NoFire smax s →
    SamplesWithin rate smax ticks →
    (∀ o ∈ (runOps s.asm (opsOfTicks ticks)).2, o.2 ≠ .ok .eom) →
    Forall₂ (Matches ticks) (msgEvents (rRun rate s ticks).2) (runOps s.asm (opsOfTicks ticks)).2 := by
  induction ticks with
  | nil => intro s _ _ _ _; exact .nil
  | cons tk ts ih =>
    intro s hinv hnf hsw hne
    obtain ⟨sample, sym, ls⟩ := tk
    have hhi := hsw.hi _ List.mem_cons_self
    have hlo := hsw.lo _ List.mem_cons_self
    simp only at hhi hlo
    have hnf' : ∀ T, s.forceEomAt = some T → sample ≤ T := fun T hT => Nat.le_trans hhi (hnf T hT)
    rw [opsOfTicks_cons, runOps_append_snd] at hne
    have hasm : (rNext rate s sample sym ls).asm = (runOps s.asm (opOfTick (sample, sym, ls))).1 := by
      simp only [rNext]; exact tlCore_asm s sample sym ls hnf'
    rw [rRun_cons, rTick_eq, opsOfTicks_cons, runOps_append_snd]
    simp only
    rw [msgEvents_append]
    apply Forall₂.append
    · apply forall2_matches_mono [(sample, sym, ls)] _ (by simp)
      exact tick_events s hinv sample sym ls hnf' (fun o ho => hne o (List.mem_append_left _ ho))
    · apply forall2_matches_mono ts _ (fun x hx => List.mem_cons_of_mem _ hx)
      rw [← hasm]
      apply ih _ (rInv_next rate s sample sym ls hinv) (noFire_next rate smax s sample sym ls hnf hlo) hsw.tail
      intro o ho
      rw [hasm] at ho
      exact hne o (List.mem_append_right _ ho)

/-- the results alone, in order -/
theorem forall2_matches_results (ticks : List RTick) (es os : List (Nat × MsgResult))
    (h : Forall₂ (Matches ticks) es os) : es.map (·.2) = os.map (·.2) := by
  induction h with
  | nil => rfl
  | cons hm _ ih => simp only [List.map_cons, hm.1, ih]

end SameVerif.Chain
