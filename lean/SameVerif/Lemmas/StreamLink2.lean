import SameVerif.Spec.StreamObserved2
import SameVerif.Lemmas.StreamLink
import SameVerif.Lemmas.LinkPhases2
import SameVerif.Lemmas.ChainLinkG
/-
  From `Spec.StreamObserved2` (generalised synchronisation: early, wrong-phase and dropped first
  hits allowed, the last adjusting hit at the correct phase) to `Chain.Delivers` for every burst,
  the link model running from the initial state `{}` (support for `Thm/C01t.lean`).
-/
namespace SameVerif.Chain
open SameVerif SameVerif.Spec

/-! ### the model's hit and power-history tests are the observational ones -/

theorem getD_eq_getElem (xs : List Tick) (t : Nat) (ht : t < xs.length) : xs.getD t dfltTick = xs[t] := by
  rw [List.getD_eq_getElem?_getD, List.getElem?_eq_getElem ht]; rfl

theorem hitOf_stream (c : LCfg) (s : LState) (xs : List Tick) (t : Nat) (h31 : 31 ≤ t) (ht : t < xs.length)
    (hl : (lrunState c s (xs.take t)).lock = false) :
    hitOf c (lrunState c s (xs.take t)) xs[t].1 = potHit c.maxErrors (fun i => xs.getD i dfltTick) t := by
  rw [hitOf_eq, hl, errOf_run c s xs t h31 ht]
  unfold potHit windowErrF
  simp only [← bitAt_eq]
  rw [getD_eq_getElem xs t ht]
  simp [Bool.and_comm]

theorem headOf_stream (c : LCfg) (s : LState) (xs : List Tick) (t : Nat) (h31 : 31 ≤ t) (ht : t < xs.length) :
    headOf (lrunState c s (xs.take t)) xs[t].1 = headAt (fun i => xs.getD i dfltTick) t := by
  rw [headOf_run c s xs t h31 ht]
  unfold headAt
  simp only
  rw [getD_eq_getElem xs (t - 31) (by omega)]

theorem quietAt_of_potHit {m : Nat} {tk : Nat → Tick} {t : Nat} (h : potHit m tk t = false) :
    QuietAtF m tk t := by
  unfold potHit at h
  unfold QuietAtF
  cases ho : (tk t).1.openOk
  · left; rfl
  · right
    rw [ho] at h
    simpa using h

/-- the first 31 ticks: the sample history fills, nothing can happen -/
theorem ready_warm (c : LCfg) (xs : List Tick) :
    Ready (lrunState c {} (xs.take 31)) ∧ lrunBursts c {} (xs.take 31) = [] := by
  obtain ⟨_, r2, r3⟩ := quiet_run c (xs.take 31) {} ready_init (by
    intro t h31 x hx
    have h1 := (List.getElem?_eq_some_iff.1 hx).1
    rw [List.length_take] at h1
    have h0 : ({} : LState).nsym = 0 := rfl
    omega)
  exact ⟨r3, r2⟩

/-- the sync tick itself: a hit from an `adjustable` abstract state restarts clock, training and
    framer -/
theorem sync_tick (c : LCfg) (hP : c.fc.maxPrefixErr < 15) (st : LState) (o : Obs) (b : Byte)
    (h31 : 31 ≤ st.nsym) (ast : Option Nat) (hsim : SimPre ast st)
    (hadj : adjustable (some ast) = true) (hhit : hitOf c st o = true) :
    (lstep c st o b).1.clock = some 1 ∧ (lstep c st o b).1.lock = false
      ∧ (lstep c st o b).1.fr = .search 0xAB 1 ∧ (lstep c st o b).1.train = 3
      ∧ burstOf (lstep c st o b).2.1 = [] := by
  have hstep : preStep (hitOf c st o) (headOf st o) ast = some (some 1) := by
    rw [hhit]
    cases ast with
    | none => rfl
    | some k =>
      have hk : k % 8 ≠ 0 := by simpa [adjustable] using hadj
      simp [preStep, hk]
  obtain ⟨⟨_, _, s1, s2, s3, s4⟩, hb⟩ := preStep_sim c hP st o b h31 ast (some 1) hsim hstep
  exact ⟨s1, s2, by rw [s4]; rfl, s3, hb⟩

/-! ### global and local coordinates -/

theorem slice_take (xs : List Tick) (a b t : Nat) (ht : t ≤ b - a) :
    (slice xs a b).take t = slice xs a (a + t) := by
  unfold slice
  rw [List.take_take, show a + t - a = t by omega, Nat.min_eq_left ht]

theorem local_state (c : LCfg) (stream : List Tick) (o stop t : Nat) (ht : t ≤ stop - o) :
    lrunState c (lrunState c {} (stream.take o)) ((slice stream o stop).take t)
      = lrunState c {} (stream.take (o + t)) := by
  rw [slice_take _ _ _ _ ht, ← lrunState_append, take_append_slice _ _ _ (by omega)]

theorem local_bursts (c : LCfg) (stream : List Tick) (o stop t : Nat) (ht : t ≤ stop - o) :
    lrunBursts c {} (stream.take (o + t))
      = lrunBursts c {} (stream.take o)
        ++ lrunBursts c (lrunState c {} (stream.take o)) ((slice stream o stop).take t) := by
  rw [slice_take _ _ _ _ ht, ← lrunBursts_append, take_append_slice _ _ _ (by omega)]

theorem bursts_split (c : LCfg) (stream : List Tick) (t1 t2 : Nat) (h : t1 ≤ t2) :
    lrunBursts c {} (stream.take t2)
      = lrunBursts c {} (stream.take t1)
        ++ lrunBursts c (lrunState c {} (stream.take t1)) (slice stream t1 t2) := by
  rw [← lrunBursts_append, take_append_slice _ _ _ h]

/-! ### one burst -/

theorem _root_.SameVerif.Spec.BurstSpec2.n_ge (g : BurstSpec2) : 128 ≤ g.n := by
  unfold BurstSpec2.n; rw [frame_length]; omega

def segOf2 (stream : List Tick) (a : Nat) (g : BurstSpec2) : Seg :=
  ⟨slice stream a g.o, slice stream g.o g.e, slice stream g.e g.stop, g.acq, g.rel⟩

theorem segOf2_ticks (stream : List Tick) (a : Nat) (g : BurstSpec2) (ha : a ≤ g.o) :
    (segOf2 stream a g).ticks = slice stream a g.stop := by
  have he : g.o ≤ g.e := by unfold BurstSpec2.e; omega
  have hes : g.e ≤ g.stop := by unfold BurstSpec2.e BurstSpec2.stop; omega
  unfold Seg.ticks segOf2
  simp only
  rw [slice_append _ _ _ _ ha he, slice_append _ _ _ _ (by omega) hes]

theorem burstTracked_of_trackAt2 (stream : List Tick) (g : BurstSpec2)
    (h : TrackAt2F (fun i => stream.getD i dfltTick) stream.length g) :
    BurstTracked g.payload (slice stream g.o g.e) (slice stream g.e g.stop) g.acq g.rel := by
  obtain ⟨b1, b2, b3, b5, b6, b7, b8, b9⟩ := h
  have he : g.e = g.o + g.n := rfl
  have hst : g.stop = g.e + (g.rel + 40) := rfl
  have hbl : (slice stream g.o g.e).length = g.n := by rw [slice_length _ _ _ (by omega)]; omega
  have htl : (slice stream g.e g.stop).length = g.rel + 40 := by rw [slice_length _ _ _ b1]; omega
  have hn : g.n = 8 * (frameOf g.payload).length := rfl
  refine ⟨by rw [hbl, hn], b2, ?_, ?_, ?_, ?_, ?_, ?_, by rw [htl]; exact Nat.le_refl _⟩
  · intro j hj hacq
    rw [getElem_slice, bitsOf_getD]
    exact b3 j (by rw [← hbl]; exact hj) hacq
  · intro j hj hacq
    rw [getElem_slice]
    exact b5 j (by rw [← hbl]; exact hj) hacq
  · intro m hm hj
    rw [getElem_slice]
    exact b6 m (by omega)
  · intro m hm hk
    rw [getElem_slice]
    exact b7 m hm
  · intro k hk hr
    rw [getElem_slice]
    exact b8 k hr
  · intro hk
    rw [getElem_slice]
    exact b9

/-- **one burst of the stream is delivered**, under the generalised synchronisation clauses -/
theorem delivers_of_stream2 (c : LCfg) (hE : c.maxErrors ≤ 6) (hP : c.fc.maxPrefixErr ≤ 7)
    (stream : List Tick) (a : Nat) (g : BurstSpec2)
    (ha : a = 0 ∨ 31 ≤ a) (hready : Ready (lrunState c {} (stream.take a)))
    (hpc : PayloadCond c g.payload) (hao : a ≤ g.o) (h32 : 32 ≤ g.o)
    (htrack : TrackAt2F (fun i => stream.getD i dfltTick) stream.length g)
    (hsync : SyncAt2F c.maxErrors (fun i => stream.getD i dfltTick) (max a 31) g)
    (htail : ∀ t, t < g.stop → g.e ≤ t → potHit c.maxErrors (fun i => stream.getD i dfltTick) t = false) :
    Delivers c (lrunState c {} (stream.take a)) (segOf2 stream a g) g.payload := by
  have hstop : g.stop ≤ stream.length := htrack.1
  have hacq : g.acq ≤ 89 := htrack.2.1
  have hn := g.n_ge
  have he : g.e = g.o + g.n := rfl
  have hst : g.stop = g.e + (g.rel + 40) := rfl
  have hcdef : g.c = g.o + g.sync := rfl
  obtain ⟨⟨hs7, hs15, hs127, hac⟩, hadj, hpot, hheads, hlate⟩ := hsync
  -- 1. ready at the start of the abstract run
  have h1 : Ready (lrunState c {} (stream.take (max a 31)))
      ∧ lrunBursts c {} (stream.take (max a 31)) = lrunBursts c {} (stream.take a) := by
    rcases ha with rfl | h
    · rw [show max 0 31 = 31 from rfl]
      exact ⟨(ready_warm c stream).1, by rw [(ready_warm c stream).2]; rfl⟩
    · rw [Nat.max_eq_left h]; exact ⟨hready, rfl⟩
  have ha31 : 31 ≤ max a 31 := Nat.le_max_right _ _
  have haa : a ≤ max a 31 := Nat.le_max_left _ _
  have hao' : max a 31 ≤ g.o := Nat.max_le.2 ⟨hao, by omega⟩
  -- 2. the abstract squelch over the lead-in
  cases hpr : preRun (potHit c.maxErrors (fun i => stream.getD i dfltTick))
      (headAt (fun i => stream.getD i dfltTick)) (max a 31) (g.c - max a 31) with
  | none => rw [hpr] at hadj; cases hadj
  | some ast =>
    rw [hpr] at hadj
    obtain ⟨simC, bC⟩ := preRun_sim c (by omega) stream {} _ _ (max a 31) h1.1
      (by show 31 ≤ ({} : LState).nsym + max a 31; omega)
      (fun t ht hat hl => hitOf_stream c {} stream t (by omega) ht hl)
      (fun t ht hat => headOf_stream c {} stream t (by omega) ht) (g.c - max a 31) ast (by omega) hpr
    rw [show max a 31 + (g.c - max a 31) = g.c by omega] at simC bC
    -- 3. the sync tick
    have hcl : g.c < stream.length := by omega
    have hlockC : (lrunState c {} (stream.take g.c)).lock = false := by
      cases ast with
      | none => exact simC.2.1
      | some k => exact simC.2.2.2.1
    have hhit : hitOf c (lrunState c {} (stream.take g.c)) stream[g.c].1 = true := by
      rw [hitOf_stream c {} stream g.c (by omega) hcl hlockC]; exact hpot
    obtain ⟨y1, y2, y3, y4, y5⟩ := sync_tick c (by omega) _ _ (stream[g.c]).2
      (by rw [nsym_run, List.length_take]; omega) ast simC hadj hhit
    have hS := lrunState_take_succ c {} stream g.c hcl
    have hB := lrunBursts_take_succ c {} stream g.c hcl
    rw [y5, List.append_nil, bC, h1.2] at hB
    -- 4. local coordinates: s1 = state at the first body tick
    have hlead_state : lrunState c (lrunState c {} (stream.take a)) (slice stream a g.o)
        = lrunState c {} (stream.take g.o) := by
      rw [← lrunState_append, take_append_slice _ _ _ hao]
    have hbt : slice stream g.o g.e ++ slice stream g.e g.stop = slice stream g.o g.stop :=
      slice_append _ _ _ _ (by omega) (by omega)
    have hbtl : (slice stream g.o g.stop).length = g.stop - g.o := slice_length _ _ _ hstop
    -- no burst over the lead-in, nor up to the sync tick
    have hBo := bursts_split c stream a g.o hao
    have hBc := local_bursts c stream g.o g.stop (g.sync + 1) (by omega)
    rw [show g.o + (g.sync + 1) = g.c + 1 by omega, hB, hBo, List.append_assoc] at hBc
    have hnil := List.self_eq_append_right.1 hBc
    obtain ⟨hleadB, hsyncB⟩ := List.append_eq_nil_iff.1 hnil
    -- no hit at a quiet global tick, in local coordinates
    have key : ∀ t, t < g.stop - g.o → potHit c.maxErrors (fun i => stream.getD i dfltTick) (g.o + t) = false →
        NoHitAt c (lrunState c {} (stream.take g.o)) (slice stream g.o g.stop) t := by
      intro t ht hq
      have h0 := noHitAt_of_quietAt c {} stream (g.o + t) (by omega) (fun _ => quietAt_of_potHit hq)
      have h1' : NoHitAt c {} (stream.take g.o ++ (slice stream g.o g.stop ++ stream.drop g.stop)) (g.o + t) := by
        rw [stream_split stream g.o g.stop (by omega)]; exact h0
      exact noHitAt_mid c {} _ _ _ g.o t (by rw [List.length_take]; omega) (by omega) h1'
    have Nl : ∀ t, (slice stream g.o g.e).length ≤ t →
        NoHitAt c (lrunState c {} (stream.take g.o)) (slice stream g.o g.e ++ slice stream g.e g.stop) t := by
      intro t ht
      rw [slice_length _ _ _ (by omega)] at ht
      rw [hbt]
      by_cases hlt : t < g.stop - g.o
      · exact key t hlt (htail _ (by omega) (by omega))
      · intro x hx
        have := (List.getElem?_eq_some_iff.1 hx).1
        omega
    have Ne : ∀ t, 8 * (g.sync / 8) + 8 ≤ t → t < g.acq + 31 → t % 8 ≠ 7 →
        NoHitAt c (lrunState c {} (stream.take g.o)) (slice stream g.o g.e ++ slice stream g.e g.stop) t := by
      intro t h1t h2t h3t
      rw [hbt]
      exact key t (by omega) (hlate t h2t (by omega) h3t)
    have Hh : ∀ t, 8 * (g.sync / 8) + 8 ≤ t → t < g.acq + 31 →
        HeadAt c (lrunState c {} (stream.take g.o)) (slice stream g.o g.e ++ slice stream g.e g.stop) t := by
      intro t h1t h2t x hx
      rw [hbt] at hx ⊢
      have hlt : t < g.stop - g.o := by omega
      rw [slice_getElem? _ _ _ _ hlt] at hx
      obtain ⟨hgl, rfl⟩ := List.getElem?_eq_some_iff.1 hx
      rw [local_state c stream g.o g.stop t (by omega), headOf_stream c {} stream (g.o + t) (by omega) hgl]
      exact hheads t h2t (by omega)
    have hq0 : g.sync = 8 * (g.sync / 8) + 7 := by omega
    have hbase : (lrunState c (lrunState c {} (stream.take g.o))
          ((slice stream g.o g.e ++ slice stream g.e g.stop).take (8 * (g.sync / 8) + 7 + 1))).clock = some 1
        ∧ (lrunState c (lrunState c {} (stream.take g.o))
          ((slice stream g.o g.e ++ slice stream g.e g.stop).take (8 * (g.sync / 8) + 7 + 1))).lock = false
        ∧ (lrunState c (lrunState c {} (stream.take g.o))
          ((slice stream g.o g.e ++ slice stream g.e g.stop).take (8 * (g.sync / 8) + 7 + 1))).fr = .search 0xAB 1
        ∧ (lrunState c (lrunState c {} (stream.take g.o))
          ((slice stream g.o g.e ++ slice stream g.e g.stop).take (8 * (g.sync / 8) + 7 + 1))).train = 3
        ∧ lrunBursts c (lrunState c {} (stream.take g.o))
          ((slice stream g.o g.e ++ slice stream g.e g.stop).take (8 * (g.sync / 8) + 7 + 1)) = [] := by
      rw [← hq0, hbt, local_state c stream g.o g.stop (g.sync + 1) (by omega),
        show g.o + (g.sync + 1) = g.c + 1 by omega, hS]
      exact ⟨y1, y2, y3, y4, hsyncB⟩
    -- 5. the synchronised phases
    have H := burstTracked_of_trackAt2 stream g htrack
    have hF := prefixFacts_of c.fc g.payload hpc.ok hP hpc.p4
    have hw : 32 ≤ (lrunState c {} (stream.take g.o)).nsym := by
      rw [nsym_run, List.length_take]
      show 32 ≤ ({} : LState).nsym + _
      omega
    obtain ⟨t, r1, r2, r3⟩ := burst_body_tail2 H hpc.ok hpc.dash c hE hF _ hw (g.sync / 8)
      (by omega) (by omega) Nl Ne Hh hbase
    obtain ⟨_, _, _, _, e5⟩ := synced_end2 H hpc.ok hpc.dash c hE hF _ hw (g.sync / 8)
      (by omega) (by omega) Nl Ne Hh hbase
    -- 6. the segment
    have hticks : (segOf2 stream a g).ticks
        = slice stream a g.o ++ (slice stream g.o g.e ++ slice stream g.e g.stop) := by
      unfold Seg.ticks segOf2
      simp only [List.append_assoc]
    refine ⟨t, ?_, ?_, ?_⟩
    · apply segOut_of_facts c _ (segOf2 stream a g) g.payload t
      · rw [hticks, lrunBursts_append, hleadB, hlead_state, r1]; rfl
      · exact hleadB
      · show lrunBursts c (lrunState c (lrunState c {} (stream.take a)) (slice stream a g.o))
          ((slice stream g.o g.e ++ slice stream g.e g.stop).take ((slice stream g.o g.e).length + 31)) = []
        rw [hlead_state]; exact e5
      · show 31 ≤ (slice stream g.e g.stop).length
        rw [slice_length _ _ _ hstop]; omega
      · exact r2
    · rw [hticks, lrunBursts_append, hleadB, hlead_state, r1]; rfl
    · rw [hticks, lrunState_append, hlead_state]; exact r3

/-! ### all bursts -/

def segsOf2 (stream : List Tick) : Nat → List BurstSpec2 → List (List Byte × Seg)
  | _, [] => []
  | a, g :: gs => (g.payload, segOf2 stream a g) :: segsOf2 stream g.stop gs

def lastStop2 : Nat → List BurstSpec2 → Nat
  | a, [] => a
  | _, g :: gs => lastStop2 g.stop gs

/-- **from the stream to the segments**: every burst is delivered, each entered in the state the
    link model actually is in; the segments tile the stream up to `lastStop2`; the rest is quiet -/
theorem deliversAll_of_stream2 (c : LCfg) (hE : c.maxErrors ≤ 6) (hP : c.fc.maxPrefixErr ≤ 7)
    (stream : List Tick) :
    ∀ (segs : List BurstSpec2) (a : Nat), (a = 0 ∨ 31 ≤ a) → a ≤ stream.length →
      Ready (lrunState c {} (stream.take a)) →
      (∀ g ∈ segs, PayloadCond c g.payload) →
      chainOk2 c.maxErrors (fun i => stream.getD i dfltTick) stream.length a segs →
      DeliversAll c (lrunState c {} (stream.take a)) (segsOf2 stream a segs)
        ∧ stream.take (lastStop2 a segs)
            = stream.take a ++ (segsOf2 stream a segs).flatMap (fun p => p.2.ticks)
        ∧ a ≤ lastStop2 a segs ∧ lastStop2 a segs ≤ stream.length
        ∧ (∀ t, lastStop2 a segs ≤ t → t < stream.length → 31 ≤ t →
            potHit c.maxErrors (fun i => stream.getD i dfltTick) t = false) := by
  intro segs
  induction segs with
  | nil =>
    intro a _ ha _ _ hq
    exact ⟨trivial, by simp [segsOf2, lastStop2], Nat.le_refl _, ha, fun t h1 h2 h3 => hq t h2 h1 h3⟩
  | cons g gs ih =>
    intro a ha0 ha hready hpc hq
    obtain ⟨⟨hao, h32⟩, htrack, hsync, htail, hrest⟩ := hq
    have hstop : g.stop ≤ stream.length := htrack.1
    have hn := g.n_ge
    have hge : g.o ≤ g.stop := by unfold BurstSpec2.stop; omega
    have hd := delivers_of_stream2 c hE hP stream a g ha0 hready (hpc g List.mem_cons_self) hao h32
      htrack hsync htail
    have hticks := segOf2_ticks stream a g hao
    have hstate : lrunState c (lrunState c {} (stream.take a)) (segOf2 stream a g).ticks
        = lrunState c {} (stream.take g.stop) := by
      rw [← lrunState_append, hticks, take_append_slice _ _ _ (by omega)]
    have hready' : Ready (lrunState c {} (stream.take g.stop)) := by
      obtain ⟨_, _, _, hqq⟩ := hd
      rw [hstate] at hqq
      exact hqq.ready
    obtain ⟨i1, i2, i3, i4, i5⟩ := ih g.stop (Or.inr (by unfold BurstSpec2.stop; omega)) hstop hready'
      (fun g' hg' => hpc g' (List.mem_cons_of_mem _ hg')) hrest
    refine ⟨⟨hd, ?_⟩, ?_, ?_, i4, i5⟩
    · show DeliversAll c (lrunState c (lrunState c {} (stream.take a)) (segOf2 stream a g).ticks)
        (segsOf2 stream g.stop gs)
      rw [hstate]; exact i1
    · show stream.take (lastStop2 g.stop gs) = _
      rw [i2]
      simp only [segsOf2, List.flatMap_cons]
      rw [hticks, ← List.append_assoc, take_append_slice _ _ _ (by omega)]
    · show a ≤ lastStop2 g.stop gs
      omega

end SameVerif.Chain
