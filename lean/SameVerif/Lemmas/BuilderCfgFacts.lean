/-
  Helper lemmas for Thm/BuilderCfg.lean: `fmax` / `fmin` bounds under `OrderLaws`, the shape of
  `eqSetters` / `applySetters` (every `clamp` they perform succeeds), the fields of `rxCfgOf`.
-/
import SameVerif.Model.BuilderCfg
import SameVerif.Lemmas.DspLaws

namespace SameVerif.Dsp
open Arith

section Order
variable {F : Type} [Arith F] [OrderLaws F]

theorem le_fmax_left (a b : F) : le a (fmax a b) = true := by
  unfold fmax; split
  · rename_i h; exact le_of_lt' h
  · exact le_refl' _

theorem fmin_le_right (a b : F) : le (fmin a b) b = true := by
  unfold fmin; split
  · exact le_refl' _
  · rename_i h; exact le_of_not_lt (by simpa using h)

theorem fmin_le_left (a b : F) : le (fmin a b) a = true := by
  unfold fmin; split
  · rename_i h; exact le_of_lt' h
  · exact le_refl' _

/-- the equalizer's setters never panic (given `0 ≤ f32::MAX`) and what they store -/
theorem eqSetters_spec {fmaxVal : F} (hmax : le zero fmaxVal = true) (e : Nat × Nat × F × F) :
    ∃ relax reg, clamp e.2.2.1 zero one = some relax ∧ clamp e.2.2.2 zero fmaxVal = some reg ∧
      eqSetters fmaxVal e = some (max e.1 1, min (max e.2.1 1) (max e.1 1), relax, reg) := by
  obtain ⟨relax, h1⟩ := clamp_isSome_of_le (x := e.2.2.1) (OrderLaws.zero_le_one (F := F))
  obtain ⟨reg, h2⟩ := clamp_isSome_of_le (x := e.2.2.2) hmax
  refine ⟨relax, reg, h1, h2, ?_⟩
  unfold eqSetters
  simp only [h1, h2]

/-- the five `clamp`s of the receiver builder's setters all succeed -/
theorem applySetters_spec {fmaxVal : F} (hmax : le zero fmaxVal = true) (a : BuilderArgs F) :
    ∃ agcBw tbu tbl dev sqo eq,
      clamp a.agcBw zero one = some agcBw ∧ clamp a.timingBwUnlocked zero one = some tbu ∧
      clamp a.timingBwLocked zero tbu = some tbl ∧ clamp a.timingMaxDev zero half = some dev ∧
      clamp a.squelchOpen zero one = some sqo ∧
      (match a.eq with
        | none => eq = none
        | some e => ∃ relax reg, clamp e.2.2.1 zero one = some relax ∧
            clamp e.2.2.2 zero fmaxVal = some reg ∧
            eq = some (max e.1 1, min (max e.2.1 1) (max e.1 1), relax, reg)) ∧
      applySetters fmaxVal a = some
        { rate := a.rate, dcLen := fmax zero a.dcLen, agcBw, agcMin := a.agcMin, agcMax := a.agcMax,
          timingBwUnlocked := tbu, timingBwLocked := tbl, timingMaxDev := dev,
          squelchOpen := sqo, squelchClose := fmin a.squelchClose a.squelchOpen, squelchBw := a.squelchBw,
          preambleMaxErrors := a.preambleMaxErrors, eq,
          framePrefixMaxErrors := min a.framePrefixMaxErrors 7, frameMaxInvalid := a.frameMaxInvalid } := by
  have h01 := OrderLaws.zero_le_one (F := F)
  obtain ⟨agcBw, h1⟩ := clamp_isSome_of_le (x := a.agcBw) h01
  obtain ⟨tbu, h2⟩ := clamp_isSome_of_le (x := a.timingBwUnlocked) h01
  obtain ⟨_, h0tbu, _⟩ := clamp_bounds' h2
  obtain ⟨tbl, h3⟩ := clamp_isSome_of_le (x := a.timingBwLocked) h0tbu
  obtain ⟨dev, h4⟩ := clamp_isSome_of_le (x := a.timingMaxDev) (OrderLaws.zero_le_half (F := F))
  obtain ⟨sqo, h5⟩ := clamp_isSome_of_le (x := a.squelchOpen) h01
  cases hq : a.eq with
  | none =>
    refine ⟨agcBw, tbu, tbl, dev, sqo, none, h1, h2, h3, h4, h5, rfl, ?_⟩
    unfold applySetters
    simp only [h1, h2, h3, h4, h5, hq]
  | some e =>
    obtain ⟨relax, reg, q1, q2, q3⟩ := eqSetters_spec hmax e
    refine ⟨agcBw, tbu, tbl, dev, sqo, _, h1, h2, h3, h4, h5, ⟨relax, reg, q1, q2, rfl⟩, ?_⟩
    unfold applySetters
    simp only [h1, h2, h3, h4, h5, hq, q3, Option.map_some]

end Order

/-! ### over the rationals -/

theorem rat_div_nonneg {a b : Rat} (ha : 0 ≤ a) (hb : 0 < b) : 0 ≤ a / b := by
  rw [Rat.div_def]
  exact Rat.mul_nonneg ha (Rat.le_of_lt (Rat.inv_pos.2 hb))

end SameVerif.Dsp
