import SameVerif.Lemmas.AssemblerSteps
import SameVerif.Thm.C08
/-
  Invariants of the assembler model used by C05 and C02: the duplicate-suppression invariant and
  its preservation, what happens to `previous` across one operation, and list predicates for
  statements about `runOps`.
-/
namespace SameVerif.Asm
open SameVerif.C08

/-- a pending StartOfMessage with the same text as the previously reported message was accepted
    only after that entry's deadline -/
def DedupInv (s : AState) : Prop :=
  ∀ t h p, s.pending = some t → t.data = .ok (.som h) → s.previous = some p →
    p.data.text = h.text → p.deadline + HOLD ≤ t.deadline

theorem dedupInv_preIdle (s : AState) (op : AOp) (h : DedupInv s) : DedupInv (preIdle s op) := by
  cases op with
  | poll t => exact h
  | burst b now =>
    by_cases hb : b.isEmpty = true
    · rw [preIdle_burst_empty _ _ _ hb]; exact h
    · rw [preIdle_burst _ _ _ (by simpa using hb)]
      intro t hd p hpend hdat hprev htext
      simp only at hpend hprev
      rcases prunePrevious_cases s.previous now with ⟨hn, _⟩ | ⟨hk, _⟩
      · rw [hn] at hprev; cases hprev
      · rw [hk] at hprev
        rcases pendingAfter_cases s b now with hpa | ⟨r, hest, hpa⟩
        · rw [hpa] at hpend
          exact h t hd p hpend hdat hprev htext
        · rw [hpa] at hpend
          cases hpend
          rw [acceptNew_data'] at hdat
          subst hdat
          unfold estimateOf at hest
          rw [hk] at hest
          exact absurd htext (dedup_ok_text _ _ _ hest p hprev)

theorem dedupInv_idle (s : AState) (now : Nat) (h : DedupInv s) : DedupInv (aIdle s now).1 := by
  rcases idle_cases s now with ⟨_, _, _, _, _, he⟩ | ⟨_, _, _, _, _, he⟩ | ⟨_, he⟩
  · rw [he]; intro t hd p hpend; cases hpend
  · rw [he]; intro t hd p hpend; cases hpend
  · rw [he]; exact h

/-- an EndOfMessage in the slot that `aIdle` is about to poll was accepted by this very call -/
theorem preIdle_eom_pending (s : AState) (op : AOp) (h : NoEomPending s) (t : Timed MsgResult)
    (hp : (preIdle s op).pending = some t) (hdat : t.data = .ok .eom) :
    ∃ b now, op = .burst b now ∧ b.isEmpty = false ∧ estimateOf s b now = some (.ok .eom)
      ∧ t = ⟨.ok .eom, now⟩ := by
  cases op with
  | poll u => exact absurd hdat (h t hp)
  | burst b now =>
    by_cases hb : b.isEmpty = true
    · rw [preIdle_burst_empty _ _ _ hb] at hp; exact absurd hdat (h t hp)
    · rw [preIdle_burst _ _ _ (by simpa using hb)] at hp
      simp only at hp
      rcases pendingAfter_cases s b now with hpa | ⟨r, hest, hpa⟩
      · rw [hpa] at hp; exact absurd hdat (h t hp)
      · rw [hpa] at hp
        cases hp
        rw [acceptNew_data'] at hdat
        subst hdat
        exact ⟨b, now, rfl, by simpa using hb, hest, rfl⟩

/-- `previous` across an operation that reports no decoded message: kept, or dropped because it
    had expired -/
theorem previous_step_quiet (s : AState) (op : AOp)
    (hq : ∀ m, (stepOp s op).2 ≠ .message (.ok m)) (q : Timed Msg) (hprev : s.previous = some q) :
    (stepOp s op).1.previous = some q ∨ q.deadline ≤ op.time := by
  rw [stepOp_eq] at hq ⊢
  have hpre : (preIdle s op).previous = some q ∨ q.deadline ≤ op.time := by
    cases op with
    | poll t => left; exact hprev
    | burst b now =>
      by_cases hb : b.isEmpty = true
      · left; rw [preIdle_burst_empty _ _ _ hb]; exact hprev
      · rw [preIdle_burst _ _ _ (by simpa using hb)]
        simp only [AOp.time]
        rcases prunePrevious_cases s.previous now with ⟨_, hx⟩ | ⟨hk, _⟩
        · right; exact hx q hprev
        · left; rw [hk]; exact hprev
  rcases hpre with hpre | hpre
  · rcases idle_cases (preIdle s op) op.time with ⟨_, m, _, _, _, he⟩ | ⟨_, _, _, _, _, he⟩ | ⟨_, he⟩
    · rw [he] at hq; exact absurd rfl (hq m)
    · rw [he]; left; exact hpre
    · rw [he]; left; exact hpre
  · right; exact hpre

/-! ### list predicates for run statements -/

/-- the decoded messages among the outputs -/
def okOutputs : List (Nat × MsgResult) → List (Nat × Msg)
  | [] => []
  | (t, .ok m) :: r => (t, m) :: okOutputs r
  | (_, .error _) :: r => okOutputs r

/-- adjacent reports with the same text are at least `HIST` ticks apart -/
def Spaced : List (Nat × Msg) → Prop
  | [] => True
  | a :: r => (∀ b, r.head? = some b → a.2.text = b.2.text → a.1 + HIST ≤ b.1) ∧ Spaced r

theorem spaced_append (pre post : List (Nat × Msg)) (a b : Nat × Msg)
    (h : Spaced (pre ++ a :: b :: post)) : a.2.text = b.2.text → a.1 + HIST ≤ b.1 := by
  induction pre with
  | nil => exact h.1 b rfl
  | cons x pre ih => exact ih h.2

end SameVerif.Asm
