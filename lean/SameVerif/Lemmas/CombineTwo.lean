import SameVerif.Lemmas.Estimate
import SameVerif.Model.Message
import SameVerif.Spec.Combine
/- From the estimator lemma to `combine` on (H, H, X). -/
namespace SameVerif
open SameVerif.Spec

theorem zipPart_length (hs : List Byte) : ∀ xs, (zipPart hs xs).length = hs.length := by
  induction hs with
  | nil => intro xs; simp [zipPart]
  | cons h hs ih => intro xs; cases xs <;> simp [zipPart, ih]

theorem zipPart_bytes (hs : List Byte) : ∀ xs, (zipPart hs xs).map (·.byte) = hs := by
  induction hs with
  | nil => intro xs; simp [zipPart]
  | cons h hs ih => intro xs; cases xs <;> simp [zipPart, ih]

theorem zipPart_counts_ge (hs : List Byte) : ∀ xs, ∀ e ∈ zipPart hs xs, 2 ≤ e.nbursts := by
  induction hs with
  | nil => intro xs e he; simp [zipPart] at he
  | cons h hs ih =>
    intro xs e he
    cases xs with
    | nil =>
      simp [zipPart] at he
      rcases he with rfl | he
      · simp
      · exact ih [] e he
    | cons x xs =>
      simp [zipPart] at he
      rcases he with rfl | he
      · simp
      · exact ih xs e he

theorem zipPart_errs_sum (hs : List Byte) : ∀ xs, ((zipPart hs xs).map (·.errs)).sum = specParity hs xs := by
  induction hs with
  | nil => intro xs; simp [zipPart, specParity]
  | cons h hs ih =>
    intro xs
    cases xs with
    | nil =>
      have := ih []
      simp [zipPart, specParity] at this ⊢
      exact this
    | cons x xs =>
      have := ih xs
      simp [zipPart, specParity, perByteErr, mask7] at this ⊢
      omega

theorem zipPart_voting (hs : List Byte) :
    ∀ xs, ((zipPart hs xs).filter (fun e => !(e.nbursts < 3))).length = min hs.length xs.length := by
  induction hs with
  | nil => intro xs; simp [zipPart]
  | cons h hs ih =>
    intro xs
    cases xs with
    | nil =>
      have := ih []
      simp [zipPart] at this ⊢
      exact this
    | cons x xs =>
      have := ih xs
      simp [zipPart] at this ⊢
      omega

theorem takeWhile_append_stop {α} (p : α → Bool) (l1 l2 : List α)
    (h1 : ∀ a ∈ l1, p a = true) (h2 : ∀ a ∈ l2, p a = false) :
    (l1 ++ l2).takeWhile p = l1 := by
  induction l1 with
  | nil =>
    cases l2 with
    | nil => rfl
    | cons b l2 => simp [h2 b (by simp)]
  | cons a l1 ih =>
    simp [h1 a (by simp)]
    exact ih (fun a ha => h1 a (by simp [ha]))

theorem zip_append_left {α β} (a b : List α) (c : List β) (h : a.length = c.length) :
    (a ++ b).zip c = a.zip c := by
  induction a generalizing c with
  | nil => cases c <;> simp at h ⊢
  | cons x a ih =>
    cases c with
    | nil => simp at h
    | cons y c => simp at h ⊢; exact ih c h

theorem validUtf8_of_ascii : ∀ (s : List Byte), (∀ b ∈ s, b < 128) → validUtf8 s = true := by
  intro s
  induction s with
  | nil => intro _; rfl
  | cons b s ih =>
    intro h
    have hb : b < 128 := h b (by simp)
    have hb' : b < 0x80 := hb
    unfold validUtf8
    simp [hb']
    exact ih (fun c hc => h c (by simp [hc]))

end SameVerif

namespace SameVerif

theorem startsWith_of_checkHeader (H : List Byte) (r : Nat × Nat) (h : checkHeader H = some r) :
    startsWith H litZCZC = true := by
  unfold checkHeader at h
  cases hp : parseFields H with
  | none => simp [hp] at h
  | some f =>
    unfold parseFields at hp
    cases hs : stripLit litZCZC H with
    | none => simp [hs] at hp
    | some s => simp [startsWith, hs]

theorem ne_nil_of_checkHeader (H : List Byte) (r : Nat × Nat) (h : checkHeader H = some r) : H ≠ [] := by
  intro hn
  subst hn
  simp [checkHeader, parseFields, stripLit, litZCZC] at h

/-- `Header.newWithErrorInfo` on a canonical all-ASCII header text -/
theorem newWithErrorInfo_canonical (H : List Byte) (off : Nat) (errs counts : List Nat)
    (hascii : ∀ b ∈ H, b < 128) (hcan : checkHeader H = some (off, H.length)) :
    Header.newWithErrorInfo H errs counts
      = .ok ⟨H, off, ((errs.zip H).map (·.1)).sum, ((counts.zip H).filter (fun p => !(p.1 < 3))).length⟩ := by
  have hall : H.all isAsciiByte = true := by
    simp [List.all_eq_true, isAsciiByte]
    exact hascii
  simp [Header.newWithErrorInfo, Header.newWithErrors, Header.new, hall, hcan]

end SameVerif
