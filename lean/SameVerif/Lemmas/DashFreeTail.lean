import SameVerif.Lemmas.HeaderAccessors
/-
  Text appended to a canonical header cannot extend the regex match unless it contains a `-`:
  the location groups are closed by `+`, and the only open end is the greedy callsign `.{3,8}-`,
  which needs one more `-` to grow.
-/
namespace SameVerif

theorem fields_render_length (f : Fields) (hw : f.WF) :
    f.render.length = 27 + 7 * f.locs.length + f.call.length := by
  have hl := renderLocs_length f.locs hw.locs
  simp only [Fields.render, litZCZC, List.length_append, List.length_cons, List.length_nil,
    hw.org.1, hw.evt.1, hl, hw.purge.1, hw.issue.1]
  omega

/-- a text whose match covers it entirely is the rendering of its fields -/
theorem canonical_fields (H : List Byte) (off : Nat) (hcan : checkHeader H = some (off, H.length)) :
    ∃ f, parseFields H = some f ∧ f.WF ∧ H = f.render ∧ f.rest = [] ∧ off = 12 + 7 * f.locs.length := by
  unfold checkHeader at hcan
  cases hp : parseFields H with
  | none => simp [hp] at hcan
  | some f =>
    simp only [hp, Option.some.injEq, Prod.mk.injEq] at hcan
    obtain ⟨hoff, hlen⟩ := hcan
    obtain ⟨hw, hs, _⟩ := parseFields_sound' H f hp
    have hrl := fields_render_length f hw
    have hl := congrArg List.length hs
    rw [List.length_append, hrl] at hl
    have hr : f.rest = [] := List.eq_nil_of_length_eq_zero (by omega)
    refine ⟨f, rfl, hw, ?_, hr, hoff.symm⟩
    rw [hs, hr, List.append_nil]

/-- on `callsign-` followed by text without `-`, the greedy `.{3,8}-` finds exactly that callsign -/
theorem callsignOf_dashfree (c t : List Byte) (hc : IsCall c) (ht : ∀ b ∈ t, b ≠ 45) :
    callsignOf (c ++ 45 :: t) = some (c, t) := by
  have hs := callsignOf_complete c t hc
  cases hcs : callsignOf (c ++ 45 :: t) with
  | none => simp [hcs] at hs
  | some p =>
    obtain ⟨c', r'⟩ := p
    obtain ⟨e, _⟩ := callsignOf_sound _ _ _ hcs
    have hge := callsignOf_greedy _ c' r' c t hcs rfl hc
    by_cases hlt : c.length < c'.length
    · exfalso
      have h1 : (c' ++ 45 :: r')[c'.length]? = some 45 := by
        rw [List.getElem?_append_right (Nat.le_refl _)]; simp
      rw [← e, List.getElem?_append_right (by omega)] at h1
      obtain ⟨k, hk⟩ : ∃ k, c'.length - c.length = k + 1 := ⟨c'.length - c.length - 1, by omega⟩
      rw [hk, List.getElem?_cons_succ] at h1
      exact ht 45 (List.mem_of_getElem? h1) rfl
    · have hlen : c.length = c'.length := by omega
      obtain ⟨h1, h2⟩ := List.append_inj e hlen
      simp only [List.cons.injEq, true_and] at h2
      subst h1 h2
      rfl

/-- **Dash-free text after a canonical header is not matched.** -/
theorem parseFields_dashfree_tail (H : List Byte) (off : Nat) (t : List Byte)
    (hcan : checkHeader H = some (off, H.length)) (ht : ∀ b ∈ t, b ≠ 45) :
    ∃ f, parseFields H = some f ∧ f.rest = [] ∧ parseFields (H ++ t) = some { f with rest := t } := by
  obtain ⟨f, hp, hw, hH, hr, _⟩ := canonical_fields H off hcan
  refine ⟨f, hp, hr, ?_⟩
  obtain ⟨call', rest', hp'⟩ := parseFields_complete f t hw
  obtain ⟨_, hs, hcs⟩ := parseFields_sound' _ _ hp'
  simp only [Fields.render, List.append_assoc, List.cons_append, List.nil_append] at hs
  have e : f.call ++ 45 :: t = call' ++ 45 :: rest' := by simpa using hs
  simp only at hcs
  rw [← e, callsignOf_dashfree f.call t hw.call ht] at hcs
  simp only [Option.some.injEq, Prod.mk.injEq] at hcs
  obtain ⟨rfl, rfl⟩ := hcs
  rw [hH]
  exact hp'

theorem checkHeader_dashfree_tail (H : List Byte) (off : Nat) (t : List Byte)
    (hcan : checkHeader H = some (off, H.length)) (ht : ∀ b ∈ t, b ≠ 45) :
    checkHeader (H ++ t) = some (off, H.length) := by
  obtain ⟨f, hp, _, hp'⟩ := parseFields_dashfree_tail H off t hcan ht
  have h0 := hcan
  unfold checkHeader at h0 ⊢
  rw [hp] at h0
  rw [hp']
  exact h0

end SameVerif
