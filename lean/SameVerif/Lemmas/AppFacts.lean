import SameVerif.Model.App
/-
  Facts about the `samedec` application model (Model/App.lean).

  The fuel-bounded `alerting` is shown equal to a structurally recursive walk `appGo` over the
  single list `all = live ++ flushed.map (n, ·)`, whenever the fuel is at least the number of
  remaining messages + 1.  Everything else is list induction on `appGo`.
-/
namespace SameVerif

/-- position of the next message of the walk, or `n` (end of input) if there is none -/
def nextPos (n : Nat) : List (Nat × AMsg) → Nat
  | [] => n
  | (q, _) :: _ => q

/-- SPECIFICATION of the children: one per StartOfMessage, in order, fed the samples from the
    position at which its header was returned up to the position of the next message
    (a flushed message has position `n`), or to the end of input `n` if there is none. -/
def expectedChildren (n : Nat) : List (Nat × AMsg) → List (AMsg × Nat × Nat)
  | [] => []
  | (p, .som t) :: tl => (.som t, p, nextPos n tl) :: expectedChildren n tl
  | (_, .eom) :: tl => expectedChildren n tl

/-- all messages the receiver produces, with positions: live ones, then flushed ones at `n` -/
def AppInput.all (inp : AppInput) : List (Nat × AMsg) :=
  inp.live ++ inp.flushed.map (fun m => (inp.n, m))

/-- the reference output: what should be printed -/
def AppInput.msgs (inp : AppInput) : List AMsg := inp.live.map (·.2) ++ inp.flushed

def AMsg.isSom : AMsg → Bool
  | .som _ => true
  | .eom => false

/-- fuel-free structural walk over the positioned messages -/
def appGo (cfg : AppCfg) (spawnOk : Nat → Bool) (n : Nat) : List (Nat × AMsg) → AppOut → AppOut
  | [], out => out
  | (pos, m) :: tl, out =>
    let out := if cfg.quiet then out else { out with printed := out.printed ++ [m] }
    match m with
    | .eom => appGo cfg spawnOk n tl out
    | .som _ =>
      if !cfg.hasChild then appGo cfg spawnOk n tl out
      else
        let k := out.spawnAttempts
        let out := { out with spawnAttempts := k + 1 }
        if !spawnOk k then appGo cfg spawnOk n tl out
        else appGo cfg spawnOk n tl { out with children := out.children ++ [(m, pos, nextPos n tl)] }

theorem all_map_snd (inp : AppInput) : inp.all.map (·.2) = inp.msgs := by
  simp [AppInput.all, AppInput.msgs, List.map_map, Function.comp_def]

theorem appGo_cons (cfg : AppCfg) (spawnOk : Nat → Bool) (n pos : Nat) (m : AMsg)
    (tl : List (Nat × AMsg)) (out : AppOut) :
    appGo cfg spawnOk n ((pos, m) :: tl) out =
      (let out := if cfg.quiet then out else { out with printed := out.printed ++ [m] }
       match m with
       | .eom => appGo cfg spawnOk n tl out
       | .som _ =>
         if !cfg.hasChild then appGo cfg spawnOk n tl out
         else
           let k := out.spawnAttempts
           let out := { out with spawnAttempts := k + 1 }
           if !spawnOk k then appGo cfg spawnOk n tl out
           else appGo cfg spawnOk n tl { out with children := out.children ++ [(m, pos, nextPos n tl)] }) := by
  cases m <;> rfl

/-- **alerting = structural walk**, for any sufficient fuel -/
theorem alerting_eq_go (cfg : AppCfg) (spawnOk : Nat → Bool) (inp : AppInput) :
    ∀ (fuel : Nat) (m : AMsg) (pos : Nat) (rest : List (Nat × AMsg)) (fl : List AMsg) (out : AppOut),
      rest.length + fl.length + 1 ≤ fuel →
      alerting cfg spawnOk inp fuel m pos rest fl out
        = appGo cfg spawnOk inp.n ((pos, m) :: (rest ++ fl.map (fun m => (inp.n, m)))) out := by
  intro fuel
  induction fuel with
  | zero => intro m pos rest fl out h; omega
  | succ fuel ih =>
    intro m pos rest fl out h
    unfold alerting
    rw [appGo_cons]
    cases rest with
    | cons x rest' =>
      obtain ⟨p, m'⟩ := x
      have h' : rest'.length + fl.length + 1 ≤ fuel := by simp at h; omega
      simp only [List.cons_append, nextPos, ih _ _ _ _ _ h']
      cases m <;> rfl
    | nil =>
      cases fl with
      | cons m' fl' =>
        have h' : ([] : List (Nat × AMsg)).length + fl'.length + 1 ≤ fuel := by simp at h ⊢; omega
        simp only [List.nil_append, List.map_cons, nextPos, ih _ _ _ _ _ h']
        cases m <;> rfl
      | nil =>
        simp only [List.nil_append, List.map_nil, nextPos, appGo]
        cases m <;> simp

/-- the program is the structural walk over `all`, started from the empty output -/
theorem appRun_eq_go (cfg : AppCfg) (spawnOk : Nat → Bool) (inp : AppInput) :
    appRun cfg spawnOk inp = appGo cfg spawnOk inp.n inp.all {} := by
  unfold appRun AppInput.all
  cases hl : inp.live with
  | cons x rest =>
    obtain ⟨p, m⟩ := x
    simp only [List.cons_append]
    rw [alerting_eq_go]
    simp
  | nil =>
    cases hf : inp.flushed with
    | cons m fl =>
      simp only [List.nil_append, List.map_cons]
      rw [alerting_eq_go]
      · simp
      · simp
    | nil => simp [appGo]

theorem go_printed (cfg : AppCfg) (spawnOk : Nat → Bool) (n : Nat) (l : List (Nat × AMsg))
    (out : AppOut) :
    (appGo cfg spawnOk n l out).printed
      = out.printed ++ (if cfg.quiet then [] else l.map (·.2)) := by
  induction l generalizing out with
  | nil => simp [appGo]
  | cons x tl ih =>
    obtain ⟨pos, m⟩ := x
    rw [appGo_cons]
    cases m <;> simp only [] <;> (repeat' split) <;> simp_all

theorem go_no_child (cfg : AppCfg) (spawnOk : Nat → Bool) (n : Nat) (l : List (Nat × AMsg))
    (out : AppOut) (hc : cfg.hasChild = false) :
    (appGo cfg spawnOk n l out).children = out.children ∧
    (appGo cfg spawnOk n l out).spawnAttempts = out.spawnAttempts := by
  induction l generalizing out with
  | nil => simp [appGo]
  | cons x tl ih =>
    obtain ⟨pos, m⟩ := x
    rw [appGo_cons]
    cases m <;> simp only [hc] <;> (repeat' split) <;> simp_all

theorem go_children_all_ok (cfg : AppCfg) (spawnOk : Nat → Bool) (n : Nat) (l : List (Nat × AMsg))
    (out : AppOut) (hc : cfg.hasChild = true) (hok : ∀ k, spawnOk k = true) :
    (appGo cfg spawnOk n l out).children = out.children ++ expectedChildren n l := by
  induction l generalizing out with
  | nil => simp [appGo, expectedChildren]
  | cons x tl ih =>
    obtain ⟨pos, m⟩ := x
    rw [appGo_cons]
    cases m <;> simp only [hc, hok, expectedChildren] <;> (repeat' split) <;> simp_all

/-- number of StartOfMessage messages -/
def somCount (l : List AMsg) : Nat := l.countP AMsg.isSom

/-- number of spawn attempts `k` with `a ≤ k < a + c` that the OS lets succeed -/
def okCount (spawnOk : Nat → Bool) (a c : Nat) : Nat := (List.range' a c).countP spawnOk

theorem go_spawnAttempts (cfg : AppCfg) (spawnOk : Nat → Bool) (n : Nat) (l : List (Nat × AMsg))
    (out : AppOut) (hc : cfg.hasChild = true) :
    (appGo cfg spawnOk n l out).spawnAttempts = out.spawnAttempts + somCount (l.map (·.2)) := by
  induction l generalizing out with
  | nil => simp [appGo, somCount]
  | cons x tl ih =>
    obtain ⟨pos, m⟩ := x
    rw [appGo_cons]
    cases m <;> simp only [hc] <;> (repeat' split) <;>
      simp_all [somCount, AMsg.isSom, List.countP_cons] <;> omega

theorem go_children_length (cfg : AppCfg) (spawnOk : Nat → Bool) (n : Nat) (l : List (Nat × AMsg))
    (out : AppOut) (hc : cfg.hasChild = true) :
    (appGo cfg spawnOk n l out).children.length
      = out.children.length + okCount spawnOk out.spawnAttempts (somCount (l.map (·.2))) := by
  induction l generalizing out with
  | nil => simp [appGo, somCount, okCount]
  | cons x tl ih =>
    obtain ⟨pos, m⟩ := x
    rw [appGo_cons]
    cases m <;> simp only [hc] <;> (repeat' split) <;>
      simp_all [somCount, okCount, AMsg.isSom, List.countP_cons, List.range'_succ] <;> omega

/-- the children as a function of the messages and the number of spawn attempts made so far -/
def goChildren (spawnOk : Nat → Bool) (n : Nat) : List (Nat × AMsg) → Nat → List (AMsg × Nat × Nat)
  | [], _ => []
  | (_, .eom) :: tl, k => goChildren spawnOk n tl k
  | (p, .som t) :: tl, k =>
    if spawnOk k then (.som t, p, nextPos n tl) :: goChildren spawnOk n tl (k + 1)
    else goChildren spawnOk n tl (k + 1)

theorem go_children (cfg : AppCfg) (spawnOk : Nat → Bool) (n : Nat) (l : List (Nat × AMsg))
    (out : AppOut) (hc : cfg.hasChild = true) :
    (appGo cfg spawnOk n l out).children
      = out.children ++ goChildren spawnOk n l out.spawnAttempts := by
  induction l generalizing out with
  | nil => simp [appGo, goChildren]
  | cons x tl ih =>
    obtain ⟨pos, m⟩ := x
    rw [appGo_cons]
    cases m <;> simp only [hc, goChildren] <;> (repeat' split) <;> simp_all

/-- whatever the OS does, the children are a subsequence of the expected ones -/
theorem goChildren_sublist (spawnOk : Nat → Bool) (n : Nat) (l : List (Nat × AMsg)) (k : Nat) :
    (goChildren spawnOk n l k).Sublist (expectedChildren n l) := by
  induction l generalizing k with
  | nil => simp [goChildren, expectedChildren]
  | cons x tl ih =>
    obtain ⟨pos, m⟩ := x
    cases m with
    | eom => simpa [goChildren, expectedChildren] using ih k
    | som t =>
      simp only [goChildren, expectedChildren]
      split
      · exact (ih (k + 1)).cons_cons _
      · exact (ih (k + 1)).cons _

/-! ### the expected children: messages and ranges -/

/-- exactly one expected child per StartOfMessage, in order -/
theorem expectedChildren_msgs (n : Nat) (l : List (Nat × AMsg)) :
    (expectedChildren n l).map (·.1) = (l.map (·.2)).filter AMsg.isSom := by
  induction l with
  | nil => simp [expectedChildren]
  | cons x tl ih =>
    obtain ⟨pos, m⟩ := x
    cases m <;> simp [expectedChildren, AMsg.isSom, ih, List.filter_cons]

theorem expectedChildren_length (n : Nat) (l : List (Nat × AMsg)) :
    (expectedChildren n l).length = somCount (l.map (·.2)) := by
  have h := congrArg List.length (expectedChildren_msgs n l)
  simpa [somCount, List.countP_eq_length_filter] using h

/-- positions non-decreasing and within the input -/
def PosOk (n : Nat) (l : List (Nat × AMsg)) : Prop :=
  l.Pairwise (fun a b => a.1 ≤ b.1) ∧ ∀ x ∈ l, x.1 ≤ n

theorem posOk_all (inp : AppInput) (hs : inp.live.Pairwise (fun a b => a.1 ≤ b.1))
    (hn : ∀ x ∈ inp.live, x.1 ≤ inp.n) : PosOk inp.n inp.all := by
  refine ⟨?_, ?_⟩
  · unfold AppInput.all
    rw [List.pairwise_append]
    refine ⟨hs, ?_, ?_⟩
    · rw [List.pairwise_map]
      exact List.pairwise_of_forall_mem_list (fun _ _ _ _ => Nat.le_refl _)
    · intro a ha b hb
      simp only [List.mem_map] at hb
      obtain ⟨m, _, rfl⟩ := hb
      exact hn a ha
  · intro x hx
    simp only [AppInput.all, List.mem_append, List.mem_map] at hx
    rcases hx with hx | ⟨m, _, rfl⟩
    · exact hn x hx
    · exact Nat.le_refl _

theorem PosOk.tail {n : Nat} {x : Nat × AMsg} {tl : List (Nat × AMsg)} (h : PosOk n (x :: tl)) :
    PosOk n tl :=
  ⟨(List.pairwise_cons.mp h.1).2, fun y hy => h.2 y (List.mem_cons_of_mem _ hy)⟩

theorem nextPos_le {n : Nat} {l : List (Nat × AMsg)} (h : PosOk n l) : nextPos n l ≤ n := by
  cases l with
  | nil => exact Nat.le_refl _
  | cons x tl => exact h.2 x (List.mem_cons_self)

theorem nextPos_le_of_mem {n : Nat} {l : List (Nat × AMsg)} (h : PosOk n l) {x : Nat × AMsg}
    (hx : x ∈ l) : nextPos n l ≤ x.1 := by
  cases l with
  | nil => cases hx
  | cons y tl =>
    obtain ⟨q, m⟩ := y
    simp only [nextPos]
    rcases List.mem_cons.mp hx with rfl | hx
    · exact Nat.le_refl _
    · exact (List.pairwise_cons.mp h.1).1 x hx

/-- every expected child starts where some message of the walk was returned -/
theorem expectedChildren_from_mem {n : Nat} {l : List (Nat × AMsg)} {c : AMsg × Nat × Nat}
    (hc : c ∈ expectedChildren n l) : ∃ x ∈ l, x.1 = c.2.1 := by
  induction l with
  | nil => simp [expectedChildren] at hc
  | cons x tl ih =>
    obtain ⟨pos, m⟩ := x
    cases m with
    | eom =>
      simp only [expectedChildren] at hc
      obtain ⟨y, hy, h⟩ := ih hc
      exact ⟨y, List.mem_cons_of_mem _ hy, h⟩
    | som t =>
      simp only [expectedChildren, List.mem_cons] at hc
      rcases hc with rfl | hc
      · exact ⟨_, List.mem_cons_self, rfl⟩
      · obtain ⟨y, hy, h⟩ := ih hc
        exact ⟨y, List.mem_cons_of_mem _ hy, h⟩

/-- every expected range is well-formed: `from ≤ to ≤ n` -/
theorem expectedChildren_range {n : Nat} {l : List (Nat × AMsg)} (h : PosOk n l)
    {c : AMsg × Nat × Nat} (hc : c ∈ expectedChildren n l) : c.2.1 ≤ c.2.2 ∧ c.2.2 ≤ n := by
  induction l with
  | nil => simp [expectedChildren] at hc
  | cons x tl ih =>
    obtain ⟨pos, m⟩ := x
    cases m with
    | eom =>
      simp only [expectedChildren] at hc
      exact ih h.tail hc
    | som t =>
      simp only [expectedChildren, List.mem_cons] at hc
      rcases hc with rfl | hc
      · refine ⟨?_, nextPos_le h.tail⟩
        show pos ≤ nextPos n tl
        cases tl with
        | nil => exact h.2 _ List.mem_cons_self
        | cons y tl' => exact (List.pairwise_cons.mp h.1).1 y List.mem_cons_self
      · exact ih h.tail hc

/-- expected ranges do not overlap: an earlier child's range ends before a later one's begins -/
theorem expectedChildren_pairwise {n : Nat} {l : List (Nat × AMsg)} (h : PosOk n l) :
    (expectedChildren n l).Pairwise (fun a b => a.2.2 ≤ b.2.1) := by
  induction l with
  | nil => simp [expectedChildren]
  | cons x tl ih =>
    obtain ⟨pos, m⟩ := x
    cases m with
    | eom => simpa [expectedChildren] using ih h.tail
    | som t =>
      simp only [expectedChildren]
      refine List.pairwise_cons.mpr ⟨?_, ih h.tail⟩
      intro c hc
      obtain ⟨y, hy, hy'⟩ := expectedChildren_from_mem hc
      show nextPos n tl ≤ c.2.1
      rw [← hy']
      exact nextPos_le_of_mem h.tail hy

/-- for a list whose every earlier/later pair is related, consecutive entries are related -/
theorem pairwise_consecutive {α : Type} {R : α → α → Prop} {l : List α} (h : l.Pairwise R)
    (k : Nat) (hk : k + 1 < l.length) : R (l[k]'(by omega)) (l[k + 1]'hk) :=
  List.pairwise_iff_getElem.mp h k (k + 1) (by omega) hk (by omega)

end SameVerif
