import SameVerif.Thm.ChainFull
/-
  Support for `Thm/ChainLatency.lean` (property C08 at model level, UPPER bounds in symbol ticks).

  PART A — the link model: over `body ++ tail` the burst is reported no later than tail tick
           `rel + 31` (the tick at which the oldest entry of the 32-tick power history is the first
           sub-threshold one), and every later tick of the tail reports `.noCarrier`
           (`BTTiming`, `SegTiming`, `SegOutT`), for every form of the per-burst assumptions.
  PART B — the transport: `Full.full_transmission` together with WHICH poll releases
           (`C02.three_bursts_report_tails`).
  PART C — the operation list of a run cut at its six bursts and the release poll
           (`full_of_split`).
-/
namespace SameVerif.Chain
open SameVerif SameVerif.Spec SameVerif.Asm SameVerif.Full

/-! ## PART A — the link model -/

/-- the link state reported at tick `t` -/
theorem lrun_getElem? (c : LCfg) : ∀ (xs : List Tick) (s : LState) (t : Nat) (ht : t < xs.length),
    (lrun c s xs)[t]? = some (lstep c (lrunState c s (xs.take t)) xs[t].1 xs[t].2).2.1 := by
  intro xs
  induction xs with
  | nil => intro s t ht; simp at ht
  | cons x xs ih =>
    intro s t ht
    cases t with
    | zero => simp [lrun, lrunState]
    | succ t =>
      simp only [lrun, List.getElem?_cons_succ, List.take_succ_cons, lrunState, List.getElem_cons_succ]
      exact ih _ t (by simpa using ht)

/-! ### a tick that reports `.noCarrier` leaves the framer idle -/

theorem fend_fst' (f : FState) : (fend f).1 = .idle := by cases f <;> rfl

theorem finputNR_noCarrier_idle (c : FCfg) (f : FState) (data : Byte)
    (h : (finputNR c f data).2 = .noCarrier) : (finputNR c f data).1 = .idle := by
  cases f with
  | idle => rfl
  | search w n =>
    simp only [finputNR] at h ⊢
    split at h
    · cases h
    · split at h
      · rename_i h1 h2; rw [if_neg h1, if_pos h2]
      · cases h
  | read msg inv =>
    exfalso
    simp only [finputNR] at h
    repeat' split at h
    all_goals simp at h

theorem finput_noCarrier_idle (c : FCfg) (f : FState) (data : Byte) (adj : Bool)
    (h : (finput c f data adj).2 = .noCarrier) : (finput c f data adj).1 = .idle := by
  cases adj with
  | true =>
    exfalso
    cases f <;> simp [finput, fend] at h
  | false =>
    have e : finput c f data false = finputNR c f data := by simp [finput]
    rw [e] at h ⊢
    exact finputNR_noCarrier_idle c f data h

/-- whatever the state and the observation: a tick that reports `.noCarrier` leaves the framer idle -/
theorem lstep_noCarrier_idle (c : LCfg) (s : LState) (o : Obs) (b : Byte) :
    (lstep c s o b).2.1 = .noCarrier → (lstep c s o b).1.fr = .idle := by
  unfold lstep
  dsimp only
  generalize ((if o.bit = true then (1 : UInt32) else 0) <<< 31) = bitv
  generalize (!s.lock && decide (popcount32 (SYNC_WORD ^^^ (s.corr >>> 1 ||| bitv)) ≤ c.maxErrors) && o.openOk) = hit
  by_cases hw : s.nsym + 1 < 32
  · simp only [hw, ↓reduceIte]
    intro _
    exact fend_fst' _
  · simp only [hw, ↓reduceIte]
    generalize (!hit && s.clock.isSome && !(push32 s.pwr o.closeOk).headD true) = dr
    cases dr with
    | true =>
      simp only [↓reduceIte]
      intro _
      exact fend_fst' _
    | false =>
      simp only [Bool.false_eq_true, ↓reduceIte]
      generalize (if hit = true then
          match s.clock with
          | none => (some 0, true)
          | some 0 => (some 0, false)
          | some _ => (some 0, true)
        else (s.clock, false)) = ca
      obtain ⟨clk, adj⟩ := ca
      dsimp only
      rcases clk with _ | k
      · dsimp only
        intro _
        exact fend_fst' _
      · cases k with
        | zero =>
          generalize (if (if adj = true then 4 else s.train) > 0 then PREAMBLE_BYTE else b) = byte
          have key := finput_noCarrier_idle c.fc s.fr byte adj
          generalize finput c.fc s.fr byte adj = r at key ⊢
          obtain ⟨fr, ls⟩ := r
          cases ls with
          | noCarrier => intro _; exact key rfl
          | searching => intro h; cases h
          | reading => intro h; cases h
          | burst m => intro h; cases h
        | succ k =>
          intro h
          cases hf : s.fr <;> rw [hf] at h <;> first | rfl | cases h

theorem Fst_ne_idle (a : Nat) (pl : List Byte) (m : Nat) : Fst a pl m ≠ .idle := by
  unfold Fst
  repeat' split
  all_goals simp

/-- timing of the link model over `body ++ tail`, entered in `s1`: a burst has been reported by the
    end of tail tick `rel + 31`; once a burst has been reported, every further tick of the tail
    reports `.noCarrier` -/
structure BTTiming (c : LCfg) (s1 : LState) (body tail : List Tick) (rel : Nat) : Prop where
  prompt : lrunBursts c s1 ((body ++ tail).take (body.length + (rel + 32))) ≠ []
  after : ∀ t, body.length + 31 ≤ t → t < (body ++ tail).length →
    lrunBursts c s1 ((body ++ tail).take t) ≠ [] → (lrun c s1 (body ++ tail))[t]? = some .noCarrier

section
variable {pl : List Byte} {body tail : List Tick} {acq rel : Nat}

/-- **burst-termination latency, the garbage phase.**  From the state before the byte tick that
    follows the last payload byte (`hbase`, as in `phase_garbage`): the burst is out by the end of
    tail tick `rel + 31`, and afterwards the link reports `.noCarrier`. -/
theorem garbage_timing (H : BurstTracked pl body tail acq rel) (hok : PayloadOk pl)
    (c : LCfg) (s1 : LState) (hw : 32 ≤ s1.nsym)
    (N : ∀ t, body.length ≤ t → NoHitAt c s1 (body ++ tail) t)
    (hbase : (lrunState c s1 ((body ++ tail).take (body.length + 31))).clock = some 0
      ∧ (lrunState c s1 ((body ++ tail).take (body.length + 31))).lock = true
      ∧ (lrunState c s1 ((body ++ tail).take (body.length + 31))).train = 0
      ∧ (lrunState c s1 ((body ++ tail).take (body.length + 31))).fr = .read pl 0
      ∧ lrunBursts c s1 ((body ++ tail).take (body.length + 31)) = []) :
    BTTiming c s1 body tail rel := by
  have htl := H.tail_len
  constructor
  · have hg := phase_garbage H hok c s1 hw N hbase (rel + 1) (by omega)
    unfold GarbageInv at hg
    rcases hg with ⟨hk, _⟩ | ⟨_, _, _, g, hb, _⟩
    · omega
    · rw [show body.length + (rel + 32) = body.length + (31 + (rel + 1)) by omega, hb]
      simp
  · intro t h31 hlt hne
    have hlt' : t < body.length + tail.length := by rw [List.length_append] at hlt; exact hlt
    have hg := phase_garbage H hok c s1 hw N hbase (t - body.length - 31) (by omega)
    unfold GarbageInv at hg
    rw [show body.length + (31 + (t - body.length - 31)) = t by omega] at hg
    rcases hg with ⟨_, _, _, _, _, _, _, _, hb⟩ | ⟨i1, _, i3, _⟩
    · exact absurd hb hne
    · have hns : 31 ≤ (lrunState c s1 ((body ++ tail).take t)).nsym := by
        rw [nsym_run]; omega
      have hno := noHit_tail N t (by omega) hlt
      obtain ⟨o1, _⟩ := lstep_quiet c _ _ ((body ++ tail)[t]).2 hns i1 i3 hno
      rw [lrun_getElem? c _ s1 t hlt, o1]

/-- the same under the hypotheses of `burst_body_tail` (`Spec.BurstObserved'` + no false hits) -/
theorem bt_timing (H : BurstObserved' pl body tail acq rel) (hok : PayloadOk pl)
    (hdash : ∀ h : 4 < pl.length, pl[4] = 45)
    (c : LCfg) (hE : c.maxErrors ≤ 6) (hF : PrefixFacts c.fc pl) (s1 : LState) (hq : Quiescent s1)
    (N : BTNoHit c s1 body tail acq) : BTTiming c s1 body tail rel :=
  garbage_timing H.tracked hok c s1 hq.warm N.late (synced_end H hok hdash c hE hF s1 hq N)

/-- the same under the hypotheses of `burst_body_tail2` (generalised synchronisation) -/
theorem bt_timing2 (H : BurstTracked pl body tail acq rel) (hok : PayloadOk pl)
    (hdash : ∀ h : 4 < pl.length, pl[4] = 45)
    (c : LCfg) (hE : c.maxErrors ≤ 6) (hF : PrefixFacts c.fc pl) (s1 : LState) (hw : 32 ≤ s1.nsym)
    (q0 : Nat) (h1 : 1 ≤ q0) (h15 : q0 ≤ 15)
    (Nl : ∀ t, body.length ≤ t → NoHitAt c s1 (body ++ tail) t)
    (Ne : ∀ t, 8 * q0 + 8 ≤ t → t < acq + 31 → t % 8 ≠ 7 → NoHitAt c s1 (body ++ tail) t)
    (Hh : ∀ t, 8 * q0 + 8 ≤ t → t < acq + 31 → HeadAt c s1 (body ++ tail) t)
    (hbase : (lrunState c s1 ((body ++ tail).take (8 * q0 + 7 + 1))).clock = some 1
      ∧ (lrunState c s1 ((body ++ tail).take (8 * q0 + 7 + 1))).lock = false
      ∧ (lrunState c s1 ((body ++ tail).take (8 * q0 + 7 + 1))).fr = .search 0xAB 1
      ∧ (lrunState c s1 ((body ++ tail).take (8 * q0 + 7 + 1))).train = 3
      ∧ lrunBursts c s1 ((body ++ tail).take (8 * q0 + 7 + 1)) = []) :
    BTTiming c s1 body tail rel :=
  garbage_timing H hok c s1 hw Nl (synced_end2 H hok hdash c hE hF s1 hw q0 h1 h15 Nl Ne Hh hbase)

/-- over `body ++ tail`, entered in `s1`: from tick `q` on, as long as no burst has been reported,
    no tick reports `.noCarrier` (the link is busy: `.searching` or `.reading`) -/
def BTBusy (c : LCfg) (s1 : LState) (body tail : List Tick) (q : Nat) : Prop :=
  ∀ t, q ≤ t → t < (body ++ tail).length → lrunBursts c s1 ((body ++ tail).take (t + 1)) = [] →
    (lrun c s1 (body ++ tail))[t]? ≠ some .noCarrier

/-- **from the adjusting sync hit (body tick `8 q0 + 7`) to the burst the link is busy**, under the
    hypotheses of `burst_body_tail2` -/
theorem bt_busy2 (H : BurstTracked pl body tail acq rel) (hok : PayloadOk pl)
    (hdash : ∀ h : 4 < pl.length, pl[4] = 45)
    (c : LCfg) (hE : c.maxErrors ≤ 6) (hF : PrefixFacts c.fc pl) (s1 : LState) (hw : 32 ≤ s1.nsym)
    (q0 : Nat) (h1 : 1 ≤ q0) (h15 : q0 ≤ 15)
    (Nl : ∀ t, body.length ≤ t → NoHitAt c s1 (body ++ tail) t)
    (Ne : ∀ t, 8 * q0 + 8 ≤ t → t < acq + 31 → t % 8 ≠ 7 → NoHitAt c s1 (body ++ tail) t)
    (Hh : ∀ t, 8 * q0 + 8 ≤ t → t < acq + 31 → HeadAt c s1 (body ++ tail) t)
    (hbase : (lrunState c s1 ((body ++ tail).take (8 * q0 + 7 + 1))).clock = some 1
      ∧ (lrunState c s1 ((body ++ tail).take (8 * q0 + 7 + 1))).lock = false
      ∧ (lrunState c s1 ((body ++ tail).take (8 * q0 + 7 + 1))).fr = .search 0xAB 1
      ∧ (lrunState c s1 ((body ++ tail).take (8 * q0 + 7 + 1))).train = 3
      ∧ lrunBursts c s1 ((body ++ tail).take (8 * q0 + 7 + 1)) = []) :
    BTBusy c s1 body tail (8 * q0 + 7) := by
  intro t hq hlt hnb hnc
  have hlt' : t < body.length + tail.length := by rw [List.length_append] at hlt; exact hlt
  rw [lrun_getElem? c _ s1 t hlt] at hnc
  have hidle := lstep_noCarrier_idle c _ _ _ (Option.some.inj hnc)
  rw [← lrunState_take_succ c s1 _ t hlt] at hidle
  by_cases hearly : t + 1 ≤ body.length + 31
  · obtain ⟨d, hd⟩ : ∃ d, t + 1 = 8 * q0 + 8 + d := ⟨t + 1 - (8 * q0 + 8), by omega⟩
    have := phase_synced2 H hok hdash c hE hF s1 hw q0 h1 h15 Nl Ne Hh hbase d (by omega)
    rw [← hd] at this
    rw [this.2.2.1] at hidle
    exact Fst_ne_idle _ _ _ hidle
  · have hb := synced_end2 H hok hdash c hE hF s1 hw q0 h1 h15 Nl Ne Hh hbase
    have hg := phase_garbage H hok c s1 hw Nl hb (t + 1 - body.length - 31) (by omega)
    unfold GarbageInv at hg
    rw [show body.length + (31 + (t + 1 - body.length - 31)) = t + 1 by omega] at hg
    rcases hg with ⟨_, _, _, _, g, inv, hfr, _⟩ | ⟨_, _, _, g, hb', _⟩
    · rw [hfr] at hidle; cases hidle
    · rw [hb'] at hnb; cases hnb

end

/-! ### one segment -/

/-- timing of the link model over one segment entered in `s`: a burst has been reported by the end
    of tail tick `rel + 31`; once a burst has been reported, every further tick of the segment
    reports `.noCarrier` -/
structure SegTiming (c : LCfg) (s : LState) (g : Seg) : Prop where
  prompt : lrunBursts c s (g.ticks.take (g.lead.length + g.body.length + (g.rel + 32))) ≠ []
  after : ∀ t, g.lead.length + g.body.length + 31 ≤ t → t < g.ticks.length →
    lrunBursts c s (g.ticks.take t) ≠ [] → (lrun c s g.ticks)[t]? = some .noCarrier

/-- from the timing over `body ++ tail`, when the lead-in reports no burst -/
theorem segTiming_of_bt (c : LCfg) (s : LState) (g : Seg) (hlead : lrunBursts c s g.lead = [])
    (h : BTTiming c (lrunState c s g.lead) g.body g.tail g.rel) : SegTiming c s g := by
  have hticks : g.ticks = g.lead ++ (g.body ++ g.tail) := by
    simp only [Seg.ticks, List.append_assoc]
  have htake : ∀ m, g.ticks.take (g.lead.length + m) = g.lead ++ (g.body ++ g.tail).take m := by
    intro m
    rw [hticks, List.take_append, List.take_of_length_le (by omega)]
    congr 2
    omega
  have hb : ∀ m, lrunBursts c s (g.ticks.take (g.lead.length + m))
      = lrunBursts c (lrunState c s g.lead) ((g.body ++ g.tail).take m) := by
    intro m
    rw [htake, lrunBursts_append, hlead, List.nil_append]
  constructor
  · rw [show g.lead.length + g.body.length + (g.rel + 32) = g.lead.length + (g.body.length + (g.rel + 32))
      by omega, hb]
    exact h.prompt
  · intro t h31 hlt hne
    have hlen : g.ticks.length = g.lead.length + (g.body ++ g.tail).length := by
      rw [hticks, List.length_append]
    obtain ⟨m, rfl⟩ : ∃ m, t = g.lead.length + m := ⟨t - g.lead.length, by omega⟩
    rw [hb] at hne
    have := h.after m (by omega) (by omega) hne
    rw [hticks, lrun_append, List.getElem?_append_right (by rw [lrun_length]; omega), lrun_length,
      show g.lead.length + m - g.lead.length = m by omega]
    exact this

/-- over one segment entered in `s`: from tick `|lead| + q` on, as long as no burst has been
    reported, no tick reports `.noCarrier` -/
def SegBusy (c : LCfg) (s : LState) (g : Seg) (q : Nat) : Prop :=
  ∀ t, g.lead.length + q ≤ t → t < g.ticks.length → lrunBursts c s (g.ticks.take (t + 1)) = [] →
    (lrun c s g.ticks)[t]? ≠ some .noCarrier

theorem segBusy_of_bt (c : LCfg) (s : LState) (g : Seg) (q : Nat) (hlead : lrunBursts c s g.lead = [])
    (h : BTBusy c (lrunState c s g.lead) g.body g.tail q) : SegBusy c s g q := by
  have hticks : g.ticks = g.lead ++ (g.body ++ g.tail) := by
    simp only [Seg.ticks, List.append_assoc]
  intro t hq hlt hnb
  have hlen : g.ticks.length = g.lead.length + (g.body ++ g.tail).length := by
    rw [hticks, List.length_append]
  obtain ⟨m, rfl⟩ : ∃ m, t = g.lead.length + m := ⟨t - g.lead.length, by omega⟩
  have htake : g.ticks.take (g.lead.length + m + 1) = g.lead ++ (g.body ++ g.tail).take (m + 1) := by
    rw [hticks, List.take_append, List.take_of_length_le (by omega)]
    congr 2
    omega
  rw [htake, lrunBursts_append, hlead, List.nil_append] at hnb
  have := h m (by omega) (by omega) hnb
  rw [hticks, lrun_append, List.getElem?_append_right (by rw [lrun_length]; omega), lrun_length,
    show g.lead.length + m - g.lead.length = m by omega]
  exact this

/-- a list of link states: from tick `q` on, as long as there has been no `.burst`, no
    `.noCarrier` -/
def BusyFrom (L : List LinkSt) (q : Nat) : Prop :=
  ∀ t, q ≤ t → (∀ j, j ≤ t → ∀ b, L[j]? ≠ some (.burst b)) → L[t]? ≠ some .noCarrier

theorem busyFrom_of_segBusy (c : LCfg) (s : LState) (g : Seg) (q : Nat) (h : SegBusy c s g q) :
    BusyFrom (lrun c s g.ticks) (g.lead.length + q) := by
  intro t hq hnb hnc
  have hlt : t < g.ticks.length := by
    have := (List.getElem?_eq_some_iff.1 hnc).1
    rwa [lrun_length] at this
  refine h t hq hlt ?_ hnc
  rw [lrunBursts_eq, lrun_take]
  apply (noBurst_iff _).2
  intro ls hls b hb
  obtain ⟨j, hj, rfl⟩ := List.getElem_of_mem hls
  rw [List.length_take] at hj
  rw [List.getElem_take] at hb
  exact hnb j (by omega) b (by rw [List.getElem?_eq_getElem (by omega), hb])

/-- what the link model reports over one segment, with the timing: exactly one `.burst`, at a tick
    `k` with `|lead| + |body| + 31 ≤ k ≤ |lead| + |body| + rel + 31`, nothing but `.noCarrier`
    after it -/
structure SegOutT (g : Seg) (payload t : List Byte) (L : List LinkSt) : Prop where
  len : L.length = g.ticks.length
  split : ∃ pre m, L = pre ++ .burst (payload ++ t) :: List.replicate m .noCarrier ∧ NoBurst pre
    ∧ g.lead.length + g.body.length + 31 ≤ pre.length
    ∧ pre.length ≤ g.lead.length + g.body.length + g.rel + 31
  tail_len : t.length ≤ (g.rel + 7) / 8

theorem SegOutT.toSegOut {g : Seg} {payload t : List Byte} {L : List LinkSt} (h : SegOutT g payload t L) :
    SegOut g payload t L := by
  obtain ⟨pre, m, h1, h2, h3, _⟩ := h.split
  exact ⟨h.len, ⟨pre, _, h1, h2, noBurst_replicate m, h3⟩, h.tail_len⟩

theorem flatMap_burstOf_take_of_noBurst (pre : List LinkSt) (h : NoBurst pre) (k : Nat) :
    (pre.take k).flatMap burstOf = [] :=
  (noBurst_iff _).2 (fun ls hls => h ls (List.mem_of_mem_take hls))

/-- `SegOut` and `SegTiming` together -/
theorem segOutT_of (c : LCfg) (s : LState) (g : Seg) (payload t : List Byte)
    (h : SegOut g payload t (lrun c s g.ticks)) (ht : SegTiming c s g) :
    SegOutT g payload t (lrun c s g.ticks) := by
  obtain ⟨pre, post, h1, h2, h3, h4⟩ := h.split
  have hlen := h.len
  have hpl : pre.length + 1 + post.length = g.ticks.length := by
    rw [← hlen, h1, List.length_append, List.length_cons]; omega
  -- bursts among the first `k` ticks
  have hbk : ∀ k, lrunBursts c s (g.ticks.take k) = ((lrun c s g.ticks).take k).flatMap burstOf := by
    intro k; rw [lrunBursts_eq, lrun_take]
  -- the burst is early
  have hhi : pre.length ≤ g.lead.length + g.body.length + g.rel + 31 := by
    refine Nat.le_of_not_lt (fun hlt => ht.prompt ?_)
    rw [hbk, h1, List.take_append_of_le_length (by omega)]
    exact flatMap_burstOf_take_of_noBurst pre h2 _
  -- the ticks after it
  have hpost : ∀ x ∈ post, x = .noCarrier := by
    intro x hx
    obtain ⟨j, hj, rfl⟩ := List.getElem_of_mem hx
    have hne : lrunBursts c s (g.ticks.take (pre.length + 1 + j)) ≠ [] := by
      rw [hbk, h1, show pre.length + 1 + j = pre.length + (1 + j) by omega, List.take_length_add_append,
        List.flatMap_append]
      simp [List.take_succ_cons, burstOf, Nat.add_comm 1 j]
    have := ht.after (pre.length + 1 + j) (by omega) (by omega) hne
    rw [h1, List.getElem?_append_right (by omega),
      show pre.length + 1 + j - pre.length = j + 1 by omega, List.getElem?_cons_succ,
      List.getElem?_eq_getElem hj] at this
    exact Option.some.inj this
  refine ⟨hlen, ⟨pre, post.length, ?_, h2, h4, hhi⟩, h.tail_len⟩
  rw [h1, List.eq_replicate_iff.2 ⟨rfl, hpost⟩, List.length_replicate]

/-! ### the timing for each form of the per-burst assumptions -/

/-- realistic assumptions (`Spec.BurstObserved'` + `Spec.NoFalseHits`), as in `seg_out_r` -/
theorem segTiming_of_observed_r (c : LCfg) (hE : c.maxErrors ≤ 6) (hP : c.fc.maxPrefixErr ≤ 7)
    (payload : List Byte) (hc : PayloadCond c payload) (g : Seg) (hg : Observed' payload g)
    (s : LState) (hs : Ready s) (hw : 32 ≤ s.nsym + g.lead.length) (hn : NoFalse c s g) :
    SegTiming c s g := by
  obtain ⟨_, l2, l3⟩ := quiet_run c g.lead s hs hn.quiet
  exact segTiming_of_bt c s g l2 (bt_timing hg hc.ok hc.dash c hE
    (prefixFacts_of c.fc payload hc.ok hP hc.p4) _
    (quiescent_of_ready l3 (by rw [nsym_run]; exact hw)) hn.bt)

/-- the original assumptions (`Spec.BurstObserved`), as in `seg_out` -/
theorem segTiming_of_observed (c : LCfg) (hE : c.maxErrors ≤ 6) (hP : c.fc.maxPrefixErr ≤ 7)
    (payload : List Byte) (hc : PayloadCond c payload) (g : Seg) (hg : Observed payload g)
    (s : LState) (hs : Quiescent s) : SegTiming c s g :=
  segTiming_of_observed_r c hE hP payload hc g hg.weaken s hs.ready (by have := hs.warm; omega)
    (hg.noFalseHits c s)

/-- generalised synchronisation (`Spec.StreamObserved2`), as in `delivers_of_stream2` (same
    hypotheses, same derivation up to the synchronised phases) -/
theorem segFacts_of_stream2 (c : LCfg) (hE : c.maxErrors ≤ 6) (hP : c.fc.maxPrefixErr ≤ 7)
    (stream : List Tick) (a : Nat) (g : BurstSpec2)
    (ha : a = 0 ∨ 31 ≤ a) (hready : Ready (lrunState c {} (stream.take a)))
    (hpc : PayloadCond c g.payload) (hao : a ≤ g.o) (h32 : 32 ≤ g.o)
    (htrack : TrackAt2F (fun i => stream.getD i dfltTick) stream.length g)
    (hsync : SyncAt2F c.maxErrors (fun i => stream.getD i dfltTick) (max a 31) g)
    (htail : ∀ t, t < g.stop → g.e ≤ t → potHit c.maxErrors (fun i => stream.getD i dfltTick) t = false) :
    SegTiming c (lrunState c {} (stream.take a)) (segOf2 stream a g)
      ∧ SegBusy c (lrunState c {} (stream.take a)) (segOf2 stream a g) g.sync := by
  have hstop : g.stop ≤ stream.length := htrack.1
  have hacq : g.acq ≤ 89 := htrack.2.1
  have hn := g.n_ge
  have he : g.e = g.o + g.n := rfl
  have hst : g.stop = g.e + (g.rel + 40) := rfl
  have hcdef : g.c = g.o + g.sync := rfl
  obtain ⟨⟨hs7, hs15, hs127, hac⟩, hadj, hpot, hheads, hlate⟩ := hsync
  -- 1. ready at the start of the abstract run
  have h1 : Ready (lrunState c {} (stream.take (max a 31)))
      ∧ lrunBursts c {} (stream.take (max a 31)) = lrunBursts c {} (stream.take a) := by
    rcases ha with rfl | h
    · rw [show max 0 31 = 31 from rfl]
      exact ⟨(ready_warm c stream).1, by rw [(ready_warm c stream).2]; rfl⟩
    · rw [Nat.max_eq_left h]; exact ⟨hready, rfl⟩
  have ha31 : 31 ≤ max a 31 := Nat.le_max_right _ _
  have haa : a ≤ max a 31 := Nat.le_max_left _ _
  have hao' : max a 31 ≤ g.o := Nat.max_le.2 ⟨hao, by omega⟩
  -- 2. the abstract squelch over the lead-in
  cases hpr : preRun (potHit c.maxErrors (fun i => stream.getD i dfltTick))
      (headAt (fun i => stream.getD i dfltTick)) (max a 31) (g.c - max a 31) with
  | none => rw [hpr] at hadj; cases hadj
  | some ast =>
    rw [hpr] at hadj
    obtain ⟨simC, bC⟩ := preRun_sim c (by omega) stream {} _ _ (max a 31) h1.1
      (by show 31 ≤ ({} : LState).nsym + max a 31; omega)
      (fun t ht hat hl => hitOf_stream c {} stream t (by omega) ht hl)
      (fun t ht hat => headOf_stream c {} stream t (by omega) ht) (g.c - max a 31) ast (by omega) hpr
    rw [show max a 31 + (g.c - max a 31) = g.c by omega] at simC bC
    -- 3. the sync tick
    have hcl : g.c < stream.length := by omega
    have hlockC : (lrunState c {} (stream.take g.c)).lock = false := by
      cases ast with
      | none => exact simC.2.1
      | some k => exact simC.2.2.2.1
    have hhit : hitOf c (lrunState c {} (stream.take g.c)) stream[g.c].1 = true := by
      rw [hitOf_stream c {} stream g.c (by omega) hcl hlockC]; exact hpot
    obtain ⟨y1, y2, y3, y4, y5⟩ := sync_tick c (by omega) _ _ (stream[g.c]).2
      (by rw [nsym_run, List.length_take]; omega) ast simC hadj hhit
    have hS := lrunState_take_succ c {} stream g.c hcl
    have hB := lrunBursts_take_succ c {} stream g.c hcl
    rw [y5, List.append_nil, bC, h1.2] at hB
    -- 4. local coordinates: s1 = state at the first body tick
    have hlead_state : lrunState c (lrunState c {} (stream.take a)) (slice stream a g.o)
        = lrunState c {} (stream.take g.o) := by
      rw [← lrunState_append, take_append_slice _ _ _ hao]
    have hbt : slice stream g.o g.e ++ slice stream g.e g.stop = slice stream g.o g.stop :=
      slice_append _ _ _ _ (by omega) (by omega)
    have hbtl : (slice stream g.o g.stop).length = g.stop - g.o := slice_length _ _ _ hstop
    -- no burst over the lead-in, nor up to the sync tick
    have hBo := bursts_split c stream a g.o hao
    have hBc := local_bursts c stream g.o g.stop (g.sync + 1) (by omega)
    rw [show g.o + (g.sync + 1) = g.c + 1 by omega, hB, hBo, List.append_assoc] at hBc
    have hnil := List.self_eq_append_right.1 hBc
    obtain ⟨hleadB, hsyncB⟩ := List.append_eq_nil_iff.1 hnil
    -- no hit at a quiet global tick, in local coordinates
    have key : ∀ t, t < g.stop - g.o → potHit c.maxErrors (fun i => stream.getD i dfltTick) (g.o + t) = false →
        NoHitAt c (lrunState c {} (stream.take g.o)) (slice stream g.o g.stop) t := by
      intro t ht hq
      have h0 := noHitAt_of_quietAt c {} stream (g.o + t) (by omega) (fun _ => quietAt_of_potHit hq)
      have h1' : NoHitAt c {} (stream.take g.o ++ (slice stream g.o g.stop ++ stream.drop g.stop)) (g.o + t) := by
        rw [stream_split stream g.o g.stop (by omega)]; exact h0
      exact noHitAt_mid c {} _ _ _ g.o t (by rw [List.length_take]; omega) (by omega) h1'
    have Nl : ∀ t, (slice stream g.o g.e).length ≤ t →
        NoHitAt c (lrunState c {} (stream.take g.o)) (slice stream g.o g.e ++ slice stream g.e g.stop) t := by
      intro t ht
      rw [slice_length _ _ _ (by omega)] at ht
      rw [hbt]
      by_cases hlt : t < g.stop - g.o
      · exact key t hlt (htail _ (by omega) (by omega))
      · intro x hx
        have := (List.getElem?_eq_some_iff.1 hx).1
        omega
    have Ne : ∀ t, 8 * (g.sync / 8) + 8 ≤ t → t < g.acq + 31 → t % 8 ≠ 7 →
        NoHitAt c (lrunState c {} (stream.take g.o)) (slice stream g.o g.e ++ slice stream g.e g.stop) t := by
      intro t h1t h2t h3t
      rw [hbt]
      exact key t (by omega) (hlate t h2t (by omega) h3t)
    have Hh : ∀ t, 8 * (g.sync / 8) + 8 ≤ t → t < g.acq + 31 →
        HeadAt c (lrunState c {} (stream.take g.o)) (slice stream g.o g.e ++ slice stream g.e g.stop) t := by
      intro t h1t h2t x hx
      rw [hbt] at hx ⊢
      have hlt : t < g.stop - g.o := by omega
      rw [slice_getElem? _ _ _ _ hlt] at hx
      obtain ⟨hgl, rfl⟩ := List.getElem?_eq_some_iff.1 hx
      rw [local_state c stream g.o g.stop t (by omega), headOf_stream c {} stream (g.o + t) (by omega) hgl]
      exact hheads t h2t (by omega)
    have hq0 : g.sync = 8 * (g.sync / 8) + 7 := by omega
    have hbase : (lrunState c (lrunState c {} (stream.take g.o))
          ((slice stream g.o g.e ++ slice stream g.e g.stop).take (8 * (g.sync / 8) + 7 + 1))).clock = some 1
        ∧ (lrunState c (lrunState c {} (stream.take g.o))
          ((slice stream g.o g.e ++ slice stream g.e g.stop).take (8 * (g.sync / 8) + 7 + 1))).lock = false
        ∧ (lrunState c (lrunState c {} (stream.take g.o))
          ((slice stream g.o g.e ++ slice stream g.e g.stop).take (8 * (g.sync / 8) + 7 + 1))).fr = .search 0xAB 1
        ∧ (lrunState c (lrunState c {} (stream.take g.o))
          ((slice stream g.o g.e ++ slice stream g.e g.stop).take (8 * (g.sync / 8) + 7 + 1))).train = 3
        ∧ lrunBursts c (lrunState c {} (stream.take g.o))
          ((slice stream g.o g.e ++ slice stream g.e g.stop).take (8 * (g.sync / 8) + 7 + 1)) = [] := by
      rw [← hq0, hbt, local_state c stream g.o g.stop (g.sync + 1) (by omega),
        show g.o + (g.sync + 1) = g.c + 1 by omega, hS]
      exact ⟨y1, y2, y3, y4, hsyncB⟩
    -- 5. the synchronised phases
    have H := burstTracked_of_trackAt2 stream g htrack
    have hF := prefixFacts_of c.fc g.payload hpc.ok hP hpc.p4
    have hw : 32 ≤ (lrunState c {} (stream.take g.o)).nsym := by
      rw [nsym_run, List.length_take]
      show 32 ≤ ({} : LState).nsym + _
      omega
    have hbt2 := bt_timing2 H hpc.ok hpc.dash c hE hF _ hw (g.sync / 8)
      (by omega) (by omega) Nl Ne Hh hbase
    have hbb2 := bt_busy2 H hpc.ok hpc.dash c hE hF _ hw (g.sync / 8)
      (by omega) (by omega) Nl Ne Hh hbase
    rw [← hq0] at hbb2
    -- 6. the segment
    constructor
    · apply segTiming_of_bt c _ (segOf2 stream a g) hleadB
      show BTTiming c (lrunState c (lrunState c {} (stream.take a)) (slice stream a g.o))
        (slice stream g.o g.e) (slice stream g.e g.stop) g.rel
      rw [hlead_state]
      exact hbt2
    · apply segBusy_of_bt c _ (segOf2 stream a g) g.sync hleadB
      show BTBusy c (lrunState c (lrunState c {} (stream.take a)) (slice stream a g.o))
        (slice stream g.o g.e) (slice stream g.e g.stop) g.sync
      rw [hlead_state]
      exact hbb2

theorem segTiming_of_stream2 (c : LCfg) (hE : c.maxErrors ≤ 6) (hP : c.fc.maxPrefixErr ≤ 7)
    (stream : List Tick) (a : Nat) (g : BurstSpec2)
    (ha : a = 0 ∨ 31 ≤ a) (hready : Ready (lrunState c {} (stream.take a)))
    (hpc : PayloadCond c g.payload) (hao : a ≤ g.o) (h32 : 32 ≤ g.o)
    (htrack : TrackAt2F (fun i => stream.getD i dfltTick) stream.length g)
    (hsync : SyncAt2F c.maxErrors (fun i => stream.getD i dfltTick) (max a 31) g)
    (htail : ∀ t, t < g.stop → g.e ≤ t → potHit c.maxErrors (fun i => stream.getD i dfltTick) t = false) :
    SegTiming c (lrunState c {} (stream.take a)) (segOf2 stream a g) :=
  (segFacts_of_stream2 c hE hP stream a g ha hready hpc hao h32 htrack hsync htail).1

/-! ### all bursts -/

/-- `SegTiming` for every segment of a sequence, each entered in the state the previous one left -/
def TimingAll (c : LCfg) : LState → List (List Byte × Seg) → Prop
  | _, [] => True
  | s, p :: ps => SegTiming c s p.2 ∧ TimingAll c (lrunState c s p.2.ticks) ps

/-- **from the stream to the timing of every segment** (companion of `deliversAll_of_stream2`) -/
theorem timingAll_of_stream2 (c : LCfg) (hE : c.maxErrors ≤ 6) (hP : c.fc.maxPrefixErr ≤ 7)
    (stream : List Tick) :
    ∀ (segs : List BurstSpec2) (a : Nat), (a = 0 ∨ 31 ≤ a) → a ≤ stream.length →
      Ready (lrunState c {} (stream.take a)) →
      (∀ g ∈ segs, PayloadCond c g.payload) →
      chainOk2 c.maxErrors (fun i => stream.getD i dfltTick) stream.length a segs →
      TimingAll c (lrunState c {} (stream.take a)) (segsOf2 stream a segs) := by
  intro segs
  induction segs with
  | nil => intro a _ _ _ _ _; trivial
  | cons g gs ih =>
    intro a ha0 ha hready hpc hq
    obtain ⟨⟨hao, h32⟩, htrack, hsync, htail, hrest⟩ := hq
    have hstop : g.stop ≤ stream.length := htrack.1
    have hn := g.n_ge
    have hge : g.o ≤ g.stop := by unfold BurstSpec2.stop; omega
    have hd := delivers_of_stream2 c hE hP stream a g ha0 hready (hpc g List.mem_cons_self) hao h32
      htrack hsync htail
    have ht := segTiming_of_stream2 c hE hP stream a g ha0 hready (hpc g List.mem_cons_self) hao h32
      htrack hsync htail
    have hticks := segOf2_ticks stream a g hao
    have hstate : lrunState c (lrunState c {} (stream.take a)) (segOf2 stream a g).ticks
        = lrunState c {} (stream.take g.stop) := by
      rw [← lrunState_append, hticks, take_append_slice _ _ _ (by omega)]
    have hready' : Ready (lrunState c {} (stream.take g.stop)) := by
      obtain ⟨_, _, _, hqq⟩ := hd
      rw [hstate] at hqq
      exact hqq.ready
    refine ⟨ht, ?_⟩
    show TimingAll c (lrunState c (lrunState c {} (stream.take a)) (segOf2 stream a g).ticks)
      (segsOf2 stream g.stop gs)
    rw [hstate]
    exact ih g.stop (Or.inr (by unfold BurstSpec2.stop; omega)) hstop hready'
      (fun g' hg' => hpc g' (List.mem_cons_of_mem _ hg')) hrest

/-- companion of `C01t.stream_segments2` -/
theorem stream_timing2 (c : LCfg) (hE : c.maxErrors ≤ 6) (hP : c.fc.maxPrefixErr ≤ 7)
    (stream : List Tick) (segs : List BurstSpec2)
    (hobs : StreamObserved2 c.maxErrors stream segs) (hpc : ∀ g ∈ segs, PayloadCond c g.payload) :
    TimingAll c {} (segsOf2 stream 0 segs) :=
  timingAll_of_stream2 c hE hP stream segs 0 (Or.inl rfl) (by omega) ready_init hpc hobs

/-- **Six delivered bursts (three of `H`, three of `NNNN`) and a quiet stretch, tick by tick, with
    the timing** (`six_delivered` with `SegOutT`); the first `m + 1` ticks of the fourth segment
    hold no possible hit, so they all report `.noCarrier`. -/
theorem six_deliveredT (c : LCfg) (H : List Byte) (g1 g2 g3 g4 g5 g6 : Seg) (quiet : List Tick)
    (s : LState)
    (hd : DeliversAll c s [(H, g1), (H, g2), (H, g3), (litNNNN, g4), (litNNNN, g5), (litNNNN, g6)])
    (ht : TimingAll c s [(H, g1), (H, g2), (H, g3), (litNNNN, g4), (litNNNN, g5), (litNNNN, g6)])
    (hq : QuietNoHit c (lrunState c s (g1.ticks ++ g2.ticks ++ g3.ticks ++ g4.ticks ++ g5.ticks
      ++ g6.ticks)) quiet)
    (m : Nat) (hm : m < g4.ticks.length)
    (hgap : QuietNoHit c (lrunState c s (g1.ticks ++ g2.ticks ++ g3.ticks)) (g4.ticks.take (m + 1))) :
    ∃ t1 t2 t3 e1 e2 e3 L1 L2 L3 L4 L5 L6,
      lrun c s (g1.ticks ++ g2.ticks ++ g3.ticks ++ g4.ticks ++ g5.ticks ++ g6.ticks ++ quiet)
          = L1 ++ L2 ++ L3 ++ L4 ++ L5 ++ L6 ++ List.replicate quiet.length .noCarrier
        ∧ SegOutT g1 H t1 L1 ∧ SegOutT g2 H t2 L2 ∧ SegOutT g3 H t3 L3
        ∧ SegOutT g4 litNNNN e1 L4 ∧ SegOutT g5 litNNNN e2 L5 ∧ SegOutT g6 litNNNN e3 L6
        ∧ (∀ j, j ≤ m → L4[j]? = some .noCarrier)
        ∧ lrunBursts c s (g1.ticks ++ g2.ticks ++ g3.ticks ++ g4.ticks ++ g5.ticks ++ g6.ticks ++ quiet)
            = [H ++ t1, H ++ t2, H ++ t3, litNNNN ++ e1, litNNNN ++ e2, litNNNN ++ e3]
        ∧ L3 = lrun c (lrunState c (lrunState c s g1.ticks) g2.ticks) g3.ticks := by
  simp only [DeliversAll] at hd
  simp only [TimingAll] at ht
  obtain ⟨⟨t1, o1, b1, q1⟩, ⟨t2, o2, b2, q2⟩, ⟨t3, o3, b3, q3⟩, ⟨e1, o4, b4, q4⟩, ⟨e2, o5, b5, q5⟩,
    ⟨e3, o6, b6, q6⟩, _⟩ := hd
  obtain ⟨u1, u2, u3, u4, u5, u6, _⟩ := ht
  simp only [lrunState_append] at hq hgap
  obtain ⟨hqo, _⟩ := quiet_out_r c _ q6.ready quiet hq
  have hqb : lrunBursts c (lrunState c (lrunState c (lrunState c (lrunState c (lrunState c
      (lrunState c s g1.ticks) g2.ticks) g3.ticks) g4.ticks) g5.ticks) g6.ticks) quiet = [] := by
    rw [lrunBursts_eq, hqo]
    exact (noBurst_iff _).2 (noBurst_replicate _)
  obtain ⟨hgo, _⟩ := quiet_out_r c _ q3.ready _ hgap
  have hnc : ∀ j, j ≤ m →
      (lrun c (lrunState c (lrunState c (lrunState c s g1.ticks) g2.ticks) g3.ticks) g4.ticks)[j]?
        = some .noCarrier := by
    intro j hj
    have hlen : (g4.ticks.take (m + 1)).length = m + 1 := by rw [List.length_take]; omega
    rw [lrun_take, hlen] at hgo
    have h1 : ((lrun c (lrunState c (lrunState c (lrunState c s g1.ticks) g2.ticks) g3.ticks)
        g4.ticks).take (m + 1))[j]? = some .noCarrier := by
      rw [hgo, List.getElem?_replicate]; simp; omega
    rwa [List.getElem?_take_of_lt (by omega)] at h1
  refine ⟨t1, t2, t3, e1, e2, e3, _, _, _, _, _, _, ?_, segOutT_of c _ g1 H t1 o1 u1,
    segOutT_of c _ g2 H t2 o2 u2, segOutT_of c _ g3 H t3 o3 u3, segOutT_of c _ g4 litNNNN e1 o4 u4,
    segOutT_of c _ g5 litNNNN e2 o5 u5, segOutT_of c _ g6 litNNNN e3 o6 u6, hnc, ?_, rfl⟩
  · simp only [lrun_append, lrunState_append, hqo]
  · simp only [lrunBursts_append, lrunState_append, b1, b2, b3, b4, b5, b6, hqb]
    rfl

/-! ## PART B — the transport: which poll releases -/

/-- **The whole transmission at the transport, with the releasing poll.**  `full_transmission`
    (exactly two outputs, the EndOfMessage at `eomTick`) and `C02.three_bursts_report_tails` (which
    poll outputs the StartOfMessage) put together:
    * a poll `u` between header bursts 2 and 3 with `t2 + HOLD ≤ u` (then `voting = 0`), or
    * there is no such poll, and `u` is a poll after burst 3 (among `p3 ++ [t]`) with
      `t3 + HOLD ≤ u` (then `voting = |H|`). -/
theorem full_transmission_exact (s : AState) (H g1 g2 g3 e1 e2 e3 : List Byte)
    (off t1 t2 t3 t n1 n2 n3 : Nat) (p1 p2 p3 q0 q1 q2 q3 : List Nat)
    (hall : ∀ b ∈ H, isAllowed b = true)
    (hcan : checkHeader H = some (off, H.length))
    (hfit : H.length ≤ MAXLEN)
    (hd2 : ∀ e ∈ estimateLoop (MAXLEN - H.length) [g1, g2], 2 ≤ e.nbursts → e.byte ≠ 45)
    (hd3 : ∀ e ∈ estimateLoop (MAXLEN - H.length) [g1, g2, g3], 2 ≤ e.nbursts → e.byte ≠ 45)
    (hdT : n1 < t2 + HIST → ∀ e ∈ estimateLoop (MAXLEN - H.length)
      [g2, g3, (litNNNN ++ e1).drop H.length], 2 ≤ e.nbursts → e.byte ≠ 45)
    (hh : s.history = []) (hp : s.pending = none)
    (hprev : ∀ p, s.previous = some p → p.data.text ≠ H)
    (hsort : Sorted (headerOps H g1 g2 g3 t1 t2 t3 t p1 p2 p3
      ++ trailerOps e1 e2 e3 n1 n2 n3 q0 q1 q2 q3))
    (h31 : t3 < t1 + HIST) (ht : t3 + HOLD ≤ t) (hn31 : n3 < n1 + HIST) :
    ∃ u h, (runOps s (headerOps H g1 g2 g3 t1 t2 t3 t p1 p2 p3
            ++ trailerOps e1 e2 e3 n1 n2 n3 q0 q1 q2 q3)).2
          = [(u, .ok (.som h)), (eomTick t3 n1 n2, .ok .eom)]
      ∧ h.text = H ∧ h.offsetTime = off ∧ h.parity = 0
      ∧ ((h.voting = 0 ∧ u ∈ p2 ∧ t2 + HOLD ≤ u)
        ∨ (h.voting = H.length ∧ (∀ w ∈ p2, w < t2 + HOLD) ∧ u ∈ p3 ++ [t] ∧ t3 + HOLD ≤ u)) := by
  obtain ⟨h12, h23, hp1, hp2, _⟩ := sorted_full _ _ _ _ _ _ _ _ _ _ _ _ _ _ _ _ _ _ _ _ _ hsort
  obtain ⟨u, v, h, hout, _, _, _, _, _, _, _, _, hv⟩ := full_transmission s H g1 g2 g3 e1 e2 e3 off
    t1 t2 t3 t n1 n2 n3 p1 p2 p3 q0 q1 q2 q3 hall hcan hfit hd2 hd3 hdT hh hp hprev hsort h31 ht hn31
  have hsplit := runOps_append_snd s (headerOps H g1 g2 g3 t1 t2 t3 t p1 p2 p3)
    (trailerOps e1 e2 e3 n1 n2 n3 q0 q1 q2 q3)
  rw [hout] at hsplit
  rcases C02.three_bursts_report_tails s H g1 g2 g3 off t1 t2 t3 t p1 p2 p3 hall hcan hfit hd2 hd3
    hh hp hprev h12 h23 h31 hp1 hp2 ht with ⟨u', hm, hl, ho⟩ | ⟨hnone, u', hm, hl, ho⟩
  · have ho' : (runOps s (headerOps H g1 g2 g3 t1 t2 t3 t p1 p2 p3)).2
        = [(u', .ok (.som ⟨H, off, 0, 0⟩))] := ho
    rw [ho'] at hsplit
    simp only [List.cons_append, List.nil_append, List.cons.injEq, Prod.mk.injEq] at hsplit
    obtain ⟨⟨rfl, hmsg⟩, _⟩ := hsplit
    cases hmsg
    exact ⟨u, _, by rw [hout, hv], rfl, rfl, rfl, Or.inl ⟨rfl, hm, hl⟩⟩
  · have ho' : (runOps s (headerOps H g1 g2 g3 t1 t2 t3 t p1 p2 p3)).2
        = [(u', .ok (.som ⟨H, off, 0, H.length⟩))] := ho
    rw [ho'] at hsplit
    simp only [List.cons_append, List.nil_append, List.cons.injEq, Prod.mk.injEq] at hsplit
    obtain ⟨⟨rfl, hmsg⟩, _⟩ := hsplit
    cases hmsg
    exact ⟨u, _, by rw [hout, hv], rfl, rfl, rfl, Or.inr ⟨rfl, hnone, hm, hl⟩⟩

/-! ## PART C — the operation list of a run cut at its bursts -/

/-- the symbol counts of the `.noCarrier` ticks of a stretch that starts at tick `i` -/
def pollsAt (sym0 : Nat) : Nat → List LinkSt → List Nat
  | _, [] => []
  | i, .noCarrier :: L => (sym0 + 1 + i) :: pollsAt sym0 (i + 1) L
  | i, _ :: L => pollsAt sym0 (i + 1) L

theorem opsAt_pollsAt (samples : Nat → Nat) (sym0 : Nat) (L : List LinkSt) (h : NoBurst L) : ∀ (i : Nat),
    opsAt samples sym0 i L = (pollsAt sym0 i L).map .poll := by
  induction L with
  | nil => intro i; rfl
  | cons x L ih =>
    intro i
    have ih' := ih (fun ls hls => h ls (List.mem_cons_of_mem _ hls)) (i + 1)
    rw [opsAt_cons, ih']
    cases x with
    | burst b => exact absurd rfl (h (.burst b) List.mem_cons_self b)
    | noCarrier => rfl
    | searching => rfl
    | reading => rfl

theorem mem_pollsAt (sym0 : Nat) (L : List LinkSt) : ∀ (i u : Nat),
    u ∈ pollsAt sym0 i L ↔ ∃ j, L[j]? = some .noCarrier ∧ u = sym0 + 1 + (i + j) := by
  induction L with
  | nil => intro i u; simp [pollsAt]
  | cons x L ih =>
    intro i u
    have hshift : (∃ j, L[j]? = some LinkSt.noCarrier ∧ u = sym0 + 1 + (i + 1 + j))
        ↔ ∃ j, 0 < j ∧ (x :: L)[j]? = some LinkSt.noCarrier ∧ u = sym0 + 1 + (i + j) := by
      constructor
      · rintro ⟨j, h1, h2⟩
        exact ⟨j + 1, by omega, by simpa using h1, by omega⟩
      · rintro ⟨j, h0, h1, h2⟩
        obtain ⟨j', rfl⟩ : ∃ j', j = j' + 1 := ⟨j - 1, by omega⟩
        exact ⟨j', by simpa using h1, by omega⟩
    cases x with
    | noCarrier =>
      simp only [pollsAt, List.mem_cons, ih, hshift]
      constructor
      · rintro (rfl | ⟨j, _, h1, h2⟩)
        · exact ⟨0, rfl, rfl⟩
        · exact ⟨j, h1, h2⟩
      · rintro ⟨j, h1, h2⟩
        cases j with
        | zero => left; exact h2
        | succ j => right; exact ⟨j + 1, by omega, h1, h2⟩
    | searching =>
      simp only [pollsAt, ih, hshift]
      constructor
      · rintro ⟨j, _, h1, h2⟩; exact ⟨j, h1, h2⟩
      · rintro ⟨j, h1, h2⟩
        cases j with
        | zero => simp at h1
        | succ j => exact ⟨j + 1, by omega, h1, h2⟩
    | reading =>
      simp only [pollsAt, ih, hshift]
      constructor
      · rintro ⟨j, _, h1, h2⟩; exact ⟨j, h1, h2⟩
      · rintro ⟨j, h1, h2⟩
        cases j with
        | zero => simp at h1
        | succ j => exact ⟨j + 1, by omega, h1, h2⟩
    | burst b =>
      simp only [pollsAt, ih, hshift]
      constructor
      · rintro ⟨j, _, h1, h2⟩; exact ⟨j, h1, h2⟩
      · rintro ⟨j, h1, h2⟩
        cases j with
        | zero => simp at h1
        | succ j => exact ⟨j + 1, by omega, h1, h2⟩

/-- element `|A| + 1 + k` of `A ++ x :: R` -/
theorem getElem?_skip {α : Type} (A : List α) (x : α) (R : List α) (k : Nat) :
    (A ++ x :: R)[A.length + 1 + k]? = R[k]? := by
  rw [List.getElem?_append_right (by omega), show A.length + 1 + k - A.length = k + 1 by omega,
    List.getElem?_cons_succ]

theorem getElem?_at {α : Type} (A : List α) (x : α) (R : List α) :
    (A ++ x :: R)[A.length]? = some x := by
  rw [List.getElem?_append_right (Nat.le_refl _), Nat.sub_self, List.getElem?_cons_zero]

/-- **The chain on a run cut at its six bursts and the release poll.**  The link model's per-tick
    output `L`: burst-free stretches `P0 … P6` around three bursts of `H` (ticks `b1 b2 b3`) and
    three of `NNNN` (ticks `b4 b5 b6`); tick `r`, between `b3` and `b4`, is `.noCarrier`, it is at
    least `HOLD` ticks after `b3` and it is the first such tick (`hmin`).  Timing: each group of
    three within one history time.  Then exactly two message events:
    * StartOfMessage at tick `i`: EITHER a `.noCarrier` tick with `b2 + HOLD ≤ i < b3` (two-burst
      release, `voting = 0`), OR there is no such tick and `i = r` (`voting = |H|`);
    * EndOfMessage at tick `j = b5` if `b4 < b3 + HIST` (near and mid zone), else `j = b4`. -/
theorem full_of_split (rate sym0 smax : Nat) (samples : Nat → Nat) (H : List Byte) (off : Nat)
    (hcan : checkHeader H = some (off, H.length))
    (hall : ∀ b ∈ H, isAllowed b = true)
    (hfit : H.length ≤ MAXLEN)
    (t1 t2 t3 x1 x2 x3 : List Byte) (P0 P1 P2 P3a P3b P4 P5 P6 : List LinkSt)
    (n0 : NoBurst P0) (n1 : NoBurst P1) (n2 : NoBurst P2) (n3a : NoBurst P3a) (n3b : NoBurst P3b)
    (n4 : NoBurst P4) (n5 : NoBurst P5) (n6 : NoBurst P6)
    (b1 b2 b3 r b4 b5 b6 : Nat)
    (hb1 : b1 = P0.length) (hb2 : b2 = b1 + 1 + P1.length) (hb3 : b3 = b2 + 1 + P2.length)
    (hr : r = b3 + 1 + P3a.length) (hb4 : b4 = r + 1 + P3b.length) (hb5 : b5 = b4 + 1 + P4.length)
    (hb6 : b6 = b5 + 1 + P5.length)
    (L : List LinkSt)
    (hL : L = P0 ++ .burst (H ++ t1) :: (P1 ++ .burst (H ++ t2) :: (P2 ++ .burst (H ++ t3) ::
      (P3a ++ .noCarrier :: (P3b ++ .burst (litNNNN ++ x1) :: (P4 ++ .burst (litNNNN ++ x2) ::
      (P5 ++ .burst (litNNNN ++ x3) :: P6)))))))
    (hhold : b3 + HOLD ≤ r)
    (hmin : ∀ j, HOLD ≤ j + 1 → P3a[j]? ≠ some .noCarrier)
    (hspanH : b3 < b1 + HIST) (hspanT : b6 < b4 + HIST)
    (htd : TailsNoDash H t1 t2 t3) (hshort : x1.length + 4 ≤ H.length)
    (hsamp : ∀ i, i < L.length → samples i ≤ smax ∧ smax ≤ samples i + TIMEOUT rate) :
    ∃ i j h, msgEvents (rRun rate {} (mkTicks samples sym0 0 L)).2
          = [(samples i, .ok (.som h)), (samples j, .ok .eom)]
      ∧ h.text = H ∧ h.offsetTime = off ∧ h.parity = 0
      ∧ j = (if b4 < b3 + HIST then b5 else b4)
      ∧ ((h.voting = 0 ∧ b2 + HOLD ≤ i ∧ i < b3 ∧ L[i]? = some .noCarrier)
        ∨ (h.voting = H.length ∧ i = r ∧ ∀ k, b2 + HOLD ≤ k → k < b3 → L[k]? ≠ some .noCarrier)) := by
  have hHOLD := HOLD_pos
  -- the operation list
  have hops : opsAt samples sym0 0 L
      = (pollsAt sym0 0 P0).map .poll ++ (headerOps H t1 t2 t3 (sym0 + 1 + b1) (sym0 + 1 + b2)
            (sym0 + 1 + b3) (sym0 + 1 + r)
            (pollsAt sym0 (b1 + 1) P1) (pollsAt sym0 (b2 + 1) P2) (pollsAt sym0 (b3 + 1) P3a)
          ++ trailerOps x1 x2 x3 (sym0 + 1 + b4) (sym0 + 1 + b5) (sym0 + 1 + b6)
            (pollsAt sym0 (r + 1) P3b) (pollsAt sym0 (b4 + 1) P4) (pollsAt sym0 (b5 + 1) P5)
            (pollsAt sym0 (b6 + 1) P6)) := by
    rw [hL, opsAt_append, opsAt_burst, opsAt_append, opsAt_burst, opsAt_append, opsAt_burst,
      opsAt_append, opsAt_cons, opsAt_append, opsAt_burst, opsAt_append, opsAt_burst, opsAt_append,
      opsAt_burst, opsAt_pollsAt _ _ _ n0, opsAt_pollsAt _ _ _ n1, opsAt_pollsAt _ _ _ n2,
      opsAt_pollsAt _ _ _ n3a, opsAt_pollsAt _ _ _ n3b, opsAt_pollsAt _ _ _ n4, opsAt_pollsAt _ _ _ n5,
      opsAt_pollsAt _ _ _ n6]
    simp only [Nat.zero_add]
    rw [← hb1, ← hb2, ← hb3, ← hr, ← hb4, ← hb5, ← hb6]
    unfold headerOps trailerOps
    simp only [opOfTick, List.append_assoc, List.cons_append, List.nil_append]
  have hsorted := opsAt_sorted samples sym0 L 0
  rw [hops] at hsorted
  have hsorted' := (C05seq.sorted_append _ _ hsorted).2.1
  obtain ⟨z1, z2, z3, z4⟩ := run_polls_init (pollsAt sym0 0 P0)
  obtain ⟨u, h, hres, hx1, hx2, hx3, hbr⟩ :=
    full_transmission_exact (runOps {} ((pollsAt sym0 0 P0).map .poll)).1 H t1 t2 t3 x1 x2 x3 off
      (sym0 + 1 + b1) (sym0 + 1 + b2) (sym0 + 1 + b3) (sym0 + 1 + r) (sym0 + 1 + b4) (sym0 + 1 + b5)
      (sym0 + 1 + b6) _ _ _ _ _ _ _
      hall hcan hfit htd.1 htd.2 (fun _ => trailer_tail_cond H t1 t2 t3 x1 hshort htd.2)
      z2 z3 (by intro p hp; rw [z4] at hp; cases hp) hsorted' (by omega) (by omega) (by omega)
  have hrun : (runOps ({} : RState).asm (opsOfTicks (mkTicks samples sym0 0 L))).2
      = [(u, .ok (.som h)), (eomTick (sym0 + 1 + b3) (sym0 + 1 + b4) (sym0 + 1 + b5), .ok .eom)] := by
    show (runOps {} (opsAt samples sym0 0 L)).2 = _
    rw [hops, runOps_append_snd, z1, List.nil_append]
    exact hres
  -- the receiver run
  have hsw : SamplesWithin rate smax (mkTicks samples sym0 0 L) :=
    samplesWithin_mkTicks rate smax samples sym0 0 L (fun j _ hj => hsamp j (by omega))
  have hev := run_events_eom rate smax (mkTicks samples sym0 0 L) {} rInv_init (noFire_init smax) hsw
    (by intro hc; cases hc) (by rw [hrun]; exact eomCount_som_eom u _ h)
  rw [hrun] at hev
  obtain ⟨ev1, ev2, he, ⟨hm1, ls1, hm1'⟩, ⟨hm2, ls2, hm2'⟩⟩ := forall2_pair hev
  obtain ⟨i, _, hi2, hi3, hi4⟩ := mem_mkTicks samples sym0 L 0 _ hm1'
  obtain ⟨j, _, hj2, hj3, hj4⟩ := mem_mkTicks samples sym0 L 0 _ hm2'
  simp only at hm1 hm2 hi3 hi4 hj3 hj4
  refine ⟨i, j, h, ?_, hx1, hx2, hx3, ?_, ?_⟩
  · rw [he, ← hi3, ← hj3, ← hm1, ← hm2]
  · unfold eomTick at hj4
    by_cases hz : b4 < b3 + HIST
    · rw [if_pos (by omega)] at hj4; rw [if_pos hz]; omega
    · rw [if_neg (by omega)] at hj4; rw [if_neg hz]; omega
  · rcases hbr with ⟨hv, hmem, hlo⟩ | ⟨hv, hnone, hmem, hlo⟩
    · obtain ⟨k, hk, huk⟩ := (mem_pollsAt sym0 P2 (b2 + 1) u).1 hmem
      left
      have hkl : k < P2.length := (List.getElem?_eq_some_iff.1 hk).1
      refine ⟨hv, by omega, by omega, ?_⟩
      have hi : i = P0.length + 1 + (P1.length + 1 + k) := by omega
      rw [hi, hL, getElem?_skip, getElem?_skip, List.getElem?_append_left hkl]
      exact hk
    · right
      refine ⟨hv, ?_, ?_⟩
      · rcases List.mem_append.1 hmem with hm | hm
        · obtain ⟨k, hk, huk⟩ := (mem_pollsAt sym0 P3a (b3 + 1) u).1 hm
          exact absurd hk (hmin k (by omega))
        · simp only [List.mem_singleton] at hm; omega
      · intro k hk1 hk2 hnc
        obtain ⟨k', rfl⟩ : ∃ k', k = P0.length + 1 + (P1.length + 1 + k') := ⟨k - b2 - 1, by omega⟩
        have hkl : k' < P2.length := by omega
        rw [hL, getElem?_skip, getElem?_skip, List.getElem?_append_left hkl] at hnc
        have := hnone _ ((mem_pollsAt sym0 P2 (b2 + 1) _).2 ⟨k', hnc, rfl⟩)
        omega

/-- where the bursts are in a list cut as in `full_of_split` -/
theorem split_bursts {B1 B2 B3 X B4 B5 B6 : LinkSt} (P0 P1 P2 P3a P3b P4 P5 P6 L : List LinkSt)
    (hL : L = P0 ++ B1 :: (P1 ++ B2 :: (P2 ++ B3 :: (P3a ++ X :: (P3b ++ B4 :: (P4 ++ B5 ::
      (P5 ++ B6 :: P6))))))) :
    L[P0.length + 1 + P1.length]? = some B2
      ∧ L[P0.length + 1 + (P1.length + 1 + P2.length)]? = some B3
      ∧ L[P0.length + 1 + (P1.length + 1 + (P2.length + 1 + (P3a.length + 1 + P3b.length)))]? = some B4
      ∧ L[P0.length + 1 + (P1.length + 1 + (P2.length + 1 + (P3a.length + 1
          + (P3b.length + 1 + P4.length))))]? = some B5 := by
  subst hL
  simp only [getElem?_skip, getElem?_at, and_self]

/-- a list with a known element at `k` splits there -/
theorem split_at_getElem? {α : Type} (P : List α) (k : Nat) (x : α) (h : P[k]? = some x) :
    ∃ A B, P = A ++ x :: B ∧ A.length = k := by
  obtain ⟨hk, rfl⟩ := List.getElem?_eq_some_iff.1 h
  refine ⟨P.take k, P.drop (k + 1), ?_, by rw [List.length_take]; omega⟩
  rw [← List.drop_eq_getElem_cons hk, List.take_append_drop]

/-! ## PART D — the header alone (three bursts, then a quiet channel) -/

/-- **Three header bursts, the release poll, any further polls — with the releasing poll.**
    `Full.header_st` (exactly one output, nothing held afterwards) and
    `C02.three_bursts_report_tails` (which poll releases) put together; polls after the release
    output nothing. -/
theorem header_then_polls_exact (s : AState) (H g1 g2 g3 : List Byte) (off t1 t2 t3 t : Nat)
    (p1 p2 p3 q : List Nat)
    (hall : ∀ b ∈ H, isAllowed b = true)
    (hcan : checkHeader H = some (off, H.length))
    (hfit : H.length ≤ MAXLEN)
    (hd2 : ∀ e ∈ estimateLoop (MAXLEN - H.length) [g1, g2], 2 ≤ e.nbursts → e.byte ≠ 45)
    (hd3 : ∀ e ∈ estimateLoop (MAXLEN - H.length) [g1, g2, g3], 2 ≤ e.nbursts → e.byte ≠ 45)
    (hh : s.history = []) (hp : s.pending = none)
    (hprev : ∀ p, s.previous = some p → p.data.text ≠ H)
    (h12 : t1 ≤ t2) (h23 : t2 ≤ t3) (h31 : t3 < t1 + HIST)
    (hp1 : ∀ u ∈ p1, u ≤ t2) (hp2 : ∀ u ∈ p2, u ≤ t3) (hp3 : ∀ u ∈ p3, u ≤ t)
    (ht : t3 + HOLD ≤ t) :
    ∃ u h, (runOps s (headerOps H g1 g2 g3 t1 t2 t3 t p1 p2 p3 ++ q.map .poll)).2
          = [(u, .ok (.som h))]
      ∧ h.text = H ∧ h.offsetTime = off ∧ h.parity = 0
      ∧ ((h.voting = 0 ∧ u ∈ p2 ∧ t2 + HOLD ≤ u)
        ∨ (h.voting = H.length ∧ (∀ w ∈ p2, w < t2 + HOLD) ∧ u ∈ p3 ++ [t] ∧ t3 + HOLD ≤ u)) := by
  obtain ⟨u, h, _, _, _, hout, hL⟩ := header_st s H g1 g2 g3 off t1 t2 t3 t p1 p2 p3 hall hcan
    hfit hd2 hd3 hh hp hprev h12 h23 h31 hp1 hp2 hp3 ht
  obtain ⟨hq, _⟩ := run_polls_quiet q _ hL.pending
  have hall' : (runOps s (headerOps H g1 g2 g3 t1 t2 t3 t p1 p2 p3 ++ q.map .poll)).2
      = [(u, .ok (.som h))] := by
    rw [runOps_append_snd, hout, hq]; rfl
  rcases C02.three_bursts_report_tails s H g1 g2 g3 off t1 t2 t3 t p1 p2 p3 hall hcan hfit hd2 hd3
    hh hp hprev h12 h23 h31 hp1 hp2 ht with ⟨u', hm, hl, ho⟩ | ⟨hnone, u', hm, hl, ho⟩
  · have ho' : (runOps s (headerOps H g1 g2 g3 t1 t2 t3 t p1 p2 p3)).2
        = [(u', .ok (.som ⟨H, off, 0, 0⟩))] := ho
    rw [ho'] at hout
    simp only [List.cons.injEq, Prod.mk.injEq, and_true] at hout
    obtain ⟨rfl, hmsg⟩ := hout
    cases hmsg
    exact ⟨u', _, hall', rfl, rfl, rfl, Or.inl ⟨rfl, hm, hl⟩⟩
  · have ho' : (runOps s (headerOps H g1 g2 g3 t1 t2 t3 t p1 p2 p3)).2
        = [(u', .ok (.som ⟨H, off, 0, H.length⟩))] := ho
    rw [ho'] at hout
    simp only [List.cons.injEq, Prod.mk.injEq, and_true] at hout
    obtain ⟨rfl, hmsg⟩ := hout
    cases hmsg
    exact ⟨u', _, hall', rfl, rfl, rfl, Or.inr ⟨rfl, hnone, hm, hl⟩⟩

/-- **The chain on a run cut at its three header bursts and the release poll** (`full_of_split`
    without a trailer): exactly one message event, the StartOfMessage, at tick `i`: EITHER a
    `.noCarrier` tick with `b2 + HOLD ≤ i < b3` (`voting = 0`), OR there is no such tick and
    `i = r`, the first `.noCarrier` tick at or after `b3 + HOLD` (`voting = |H|`). -/
theorem decoded_of_split (rate sym0 smax : Nat) (samples : Nat → Nat) (H : List Byte) (off : Nat)
    (hcan : checkHeader H = some (off, H.length))
    (hall : ∀ b ∈ H, isAllowed b = true)
    (hfit : H.length ≤ MAXLEN)
    (t1 t2 t3 : List Byte) (P0 P1 P2 P3a P3b : List LinkSt)
    (n0 : NoBurst P0) (n1 : NoBurst P1) (n2 : NoBurst P2) (n3a : NoBurst P3a) (n3b : NoBurst P3b)
    (b1 b2 b3 r : Nat)
    (hb1 : b1 = P0.length) (hb2 : b2 = b1 + 1 + P1.length) (hb3 : b3 = b2 + 1 + P2.length)
    (hr : r = b3 + 1 + P3a.length)
    (L : List LinkSt)
    (hL : L = P0 ++ .burst (H ++ t1) :: (P1 ++ .burst (H ++ t2) :: (P2 ++ .burst (H ++ t3) ::
      (P3a ++ .noCarrier :: P3b))))
    (hhold : b3 + HOLD ≤ r)
    (hmin : ∀ j, HOLD ≤ j + 1 → P3a[j]? ≠ some .noCarrier)
    (hspanH : b3 < b1 + HIST)
    (htd : TailsNoDash H t1 t2 t3)
    (hsamp : ∀ i, i < L.length → samples i ≤ smax ∧ smax ≤ samples i + TIMEOUT rate) :
    ∃ i h, msgEvents (rRun rate {} (mkTicks samples sym0 0 L)).2 = [(samples i, .ok (.som h))]
      ∧ h.text = H ∧ h.offsetTime = off ∧ h.parity = 0
      ∧ ((h.voting = 0 ∧ b2 + HOLD ≤ i ∧ i < b3 ∧ L[i]? = some .noCarrier)
        ∨ (h.voting = H.length ∧ i = r ∧ ∀ k, b2 + HOLD ≤ k → k < b3 → L[k]? ≠ some .noCarrier)) := by
  have hHOLD := HOLD_pos
  have hops : opsAt samples sym0 0 L
      = (pollsAt sym0 0 P0).map .poll ++ (headerOps H t1 t2 t3 (sym0 + 1 + b1) (sym0 + 1 + b2)
            (sym0 + 1 + b3) (sym0 + 1 + r)
            (pollsAt sym0 (b1 + 1) P1) (pollsAt sym0 (b2 + 1) P2) (pollsAt sym0 (b3 + 1) P3a)
          ++ (pollsAt sym0 (r + 1) P3b).map .poll) := by
    rw [hL, opsAt_append, opsAt_burst, opsAt_append, opsAt_burst, opsAt_append, opsAt_burst,
      opsAt_append, opsAt_cons, opsAt_pollsAt _ _ _ n0, opsAt_pollsAt _ _ _ n1,
      opsAt_pollsAt _ _ _ n2, opsAt_pollsAt _ _ _ n3a, opsAt_pollsAt _ _ _ n3b]
    simp only [Nat.zero_add]
    rw [← hb1, ← hb2, ← hb3, ← hr]
    unfold headerOps
    simp only [opOfTick, List.append_assoc, List.cons_append, List.nil_append]
  have hsorted := opsAt_sorted samples sym0 L 0
  rw [hops] at hsorted
  have hsorted' := (C05seq.sorted_append _ _ hsorted).2.1
  obtain ⟨hsH, _, _⟩ := C05seq.sorted_append _ _ hsorted'
  obtain ⟨h12, h23, hp1, hp2, hrest⟩ := sorted_three _ _ _ _ _ _ _ _ _ hsH
  have hp3 : ∀ u ∈ pollsAt sym0 (b3 + 1) P3a, u ≤ sym0 + 1 + r := by
    intro u hu
    unfold Sorted at hrest
    exact (List.pairwise_append.mp hrest).2.2 (.poll u) (List.mem_map.mpr ⟨u, hu, rfl⟩)
      (.poll (sym0 + 1 + r)) (by simp)
  obtain ⟨z1, z2, z3, z4⟩ := run_polls_init (pollsAt sym0 0 P0)
  obtain ⟨u, h, hres, hx1, hx2, hx3, hbr⟩ :=
    header_then_polls_exact (runOps {} ((pollsAt sym0 0 P0).map .poll)).1 H t1 t2 t3 off
      (sym0 + 1 + b1) (sym0 + 1 + b2) (sym0 + 1 + b3) (sym0 + 1 + r) _ _ _ (pollsAt sym0 (r + 1) P3b)
      hall hcan hfit htd.1 htd.2 z2 z3 (by intro p hp; rw [z4] at hp; cases hp) h12 h23 (by omega)
      hp1 hp2 hp3 (by omega)
  have hrun : (runOps ({} : RState).asm (opsOfTicks (mkTicks samples sym0 0 L))).2
      = [(u, .ok (.som h))] := by
    show (runOps {} (opsAt samples sym0 0 L)).2 = _
    rw [hops, runOps_append_snd, z1, List.nil_append]
    exact hres
  have hsw : SamplesWithin rate smax (mkTicks samples sym0 0 L) :=
    samplesWithin_mkTicks rate smax samples sym0 0 L (fun j _ hj => hsamp j (by omega))
  have hev := run_events rate smax (mkTicks samples sym0 0 L) {} rInv_init (noFire_init smax) hsw
    (by rw [hrun]; intro o ho; rw [List.mem_singleton.1 ho]; simp)
  rw [hrun] at hev
  obtain ⟨ev, he, hm1, ls, hm2⟩ := forall2_singleton hev
  obtain ⟨i, _, hi2, hi3, hi4⟩ := mem_mkTicks samples sym0 L 0 _ hm2
  simp only at hm1 hi3 hi4
  refine ⟨i, h, ?_, hx1, hx2, hx3, ?_⟩
  · rw [he, ← hi3, ← hm1]
  · rcases hbr with ⟨hv, hmem, hlo⟩ | ⟨hv, hnone, hmem, hlo⟩
    · obtain ⟨k, hk, huk⟩ := (mem_pollsAt sym0 P2 (b2 + 1) u).1 hmem
      left
      have hkl : k < P2.length := (List.getElem?_eq_some_iff.1 hk).1
      refine ⟨hv, by omega, by omega, ?_⟩
      have hi : i = P0.length + 1 + (P1.length + 1 + k) := by omega
      rw [hi, hL, getElem?_skip, getElem?_skip, List.getElem?_append_left hkl]
      exact hk
    · right
      refine ⟨hv, ?_, ?_⟩
      · rcases List.mem_append.1 hmem with hm | hm
        · obtain ⟨k, hk, huk⟩ := (mem_pollsAt sym0 P3a (b3 + 1) u).1 hm
          exact absurd hk (hmin k (by omega))
        · simp only [List.mem_singleton] at hm; omega
      · intro k hk1 hk2 hnc
        obtain ⟨k', rfl⟩ : ∃ k', k = P0.length + 1 + (P1.length + 1 + k') := ⟨k - b2 - 1, by omega⟩
        have hkl : k' < P2.length := by omega
        rw [hL, getElem?_skip, getElem?_skip, List.getElem?_append_left hkl] at hnc
        have := hnone _ ((mem_pollsAt sym0 P2 (b2 + 1) _).2 ⟨k', hnc, rfl⟩)
        omega

/-- **three delivered bursts and a quiet stretch, tick by tick, with the timing**
    (`three_delivered` with `SegOutT`) -/
theorem three_deliveredT (c : LCfg) (payload : List Byte) (g1 g2 g3 : Seg) (quiet : List Tick) (s : LState)
    (d1 : Delivers c s g1 payload) (d2 : Delivers c (lrunState c s g1.ticks) g2 payload)
    (d3 : Delivers c (lrunState c (lrunState c s g1.ticks) g2.ticks) g3 payload)
    (u1 : SegTiming c s g1) (u2 : SegTiming c (lrunState c s g1.ticks) g2)
    (u3 : SegTiming c (lrunState c (lrunState c s g1.ticks) g2.ticks) g3)
    (hq : QuietNoHit c (lrunState c (lrunState c (lrunState c s g1.ticks) g2.ticks) g3.ticks) quiet) :
    ∃ t1 t2 t3 L1 L2 L3,
      lrun c s (g1.ticks ++ g2.ticks ++ g3.ticks ++ quiet)
          = L1 ++ L2 ++ L3 ++ List.replicate quiet.length .noCarrier
        ∧ SegOutT g1 payload t1 L1 ∧ SegOutT g2 payload t2 L2 ∧ SegOutT g3 payload t3 L3
        ∧ lrunBursts c s (g1.ticks ++ g2.ticks ++ g3.ticks ++ quiet)
            = [payload ++ t1, payload ++ t2, payload ++ t3]
        ∧ L3 = lrun c (lrunState c (lrunState c s g1.ticks) g2.ticks) g3.ticks := by
  obtain ⟨t1, o1, b1, q1⟩ := d1
  obtain ⟨t2, o2, b2, q2⟩ := d2
  obtain ⟨t3, o3, b3, q3⟩ := d3
  obtain ⟨hqo, q4⟩ := quiet_out_r c _ q3.ready quiet hq
  have hqb : lrunBursts c (lrunState c (lrunState c (lrunState c s g1.ticks) g2.ticks) g3.ticks) quiet = [] := by
    rw [lrunBursts_eq, hqo]
    exact (noBurst_iff _).2 (noBurst_replicate _)
  refine ⟨t1, t2, t3, _, _, _, ?_, segOutT_of c _ g1 payload t1 o1 u1, segOutT_of c _ g2 payload t2 o2 u2,
    segOutT_of c _ g3 payload t3 o3 u3, ?_, rfl⟩
  · simp only [lrun_append, lrunState_append, hqo]
  · simp only [lrunBursts_append, lrunState_append, b1, b2, b3, hqb]
    rfl

end SameVerif.Chain
