/-
  Helper definitions and lemmas for Thm/FullRxReset.lean: `SameReceiver::reset()` on the
  whole-receiver model (`Model/FullRx.lean`).

  * the *static* part of a receiver (what neither `sample` nor `reset` changes) as an invariant
    `StaticInv r0 r` relative to a reference state `r0`; no law about the number type is used;
  * `FullRx.upd`: a receiver with the two fields that survive `reset()` (the equalizer's mode and
    its image `LState.train` in the link model) overwritten;
  * `lstep` with a stopped byte clock does not read `train`;
  * one sample from two states that differ only in those two fields, byte clock stopped;
  * `FullRx.updW`: the demodulator's window overwritten; its oldest entry is dead (the front end
    pushes before anything reads the window) — used for the degenerate empty matched filter.
-/
import SameVerif.Lemmas.FullRxFacts

set_option linter.unusedSectionVars false

namespace SameVerif.Dsp
open Arith SameVerif.FullRxAux

section Static
variable {F : Type} [Arith F]

/-! ### lengths -/

theorem identityCoeff_congr {a b : Nat} (h : a - 1 = b - 1) :
    (identityCoeff a : List F) = identityCoeff b := by
  unfold identityCoeff; rw [h]

theorem identityCoeff_length (n : Nat) : (identityCoeff n : List F).length = n - 1 + 1 := by
  simp [identityCoeff]

theorem windowPush_length (w xs : List F) : (windowPush w xs).length = w.length := by
  simp only [windowPush, List.length_append, List.length_drop]
  omega

theorem nlmsUpdate_length (relax reg e : F) (w c : List F) :
    (nlmsUpdate relax reg e w c).length = min c.length w.length := by
  simp [nlmsUpdate]

/-! ### the components: what `new` fixes and nothing changes afterwards -/

/-- DC blocker: the window lengths and the stored `1/len` -/
structure DcS (d0 d : DcBlock F) : Prop where
  ffl : d.ff.window.length = d0.ff.window.length
  fbl : d.fb.window.length = d0.fb.window.length
  ffi : d.ff.invLen = d0.ff.invLen
  fbi : d.fb.invLen = d0.fb.invLen

/-- AGC: bandwidth and gain limits -/
structure AgcS (a0 a : Agc F) : Prop where
  bw : a.bandwidth = a0.bandwidth
  lo : a.minGain = a0.minGain
  hi : a.maxGain = a0.maxGain

/-- demodulator: the matched filters and the window length.  (Up to `len - 1` in general: for an
    EMPTY matched filter the model's window is `[]` when built and has one entry after the first
    `push`; for a non-empty one the length is exactly the built one.) -/
structure DmS (d0 d : Demod F) : Prop where
  mark : d.mark = d0.mark
  space : d.space = d0.space
  len : d.window.length - 1 = d0.window.length - 1
  pos : 0 < d0.window.length → 0 < d.window.length

theorem DmS.len_eq {d0 d : Demod F} (h : DmS d0 d) (h0 : 0 < d0.window.length) :
    d.window.length = d0.window.length := by
  have := h.len; have := h.pos h0; omega

/-- timing loop: nominal period and its limits (the PI gains do change: locked / unlocked) -/
structure TlS (l0 l : TimingLoop F) : Prop where
  spt : l.samplesPerTed = l0.samplesPerTed
  pmin : l.periodMin = l0.periodMin
  pmax : l.periodMax = l0.periodMax

/-- equalizer: the NLMS parameters, the training word, the window lengths; the coefficient lengths
    up to what `identityCoeff` looks at (`len - 1`: for an order-0 window `Equalizer::new` stores one
    coefficient and the first update cuts it to none; `reset()` puts the one back) -/
structure EqS (e0 e : Equalizer F) : Prop where
  relax : e.relaxation = e0.relaxation
  reg : e.regularization = e0.regularization
  trainTo : e.trainTo = e0.trainTo
  ffw : e.ffWind.length = e0.ffWind.length
  fbw : e.fbWind.length = e0.fbWind.length
  ffc : e.ffCoeff.length - 1 = e0.ffWind.length - 1
  fbc : e.fbCoeff.length - 1 = e0.fbWind.length - 1

/-- the static part of a whole receiver agrees with that of `r0` -/
structure StaticInv (r0 r : FullRx F) : Prop where
  cfg : r.cfg = r0.cfg
  dc : DcS r0.dc r.dc
  agc : AgcS r0.agc r.agc
  dm : DmS r0.demod r.demod
  tl : TlS r0.tl r.tl
  pt : r.pt.bandwidth = r0.pt.bandwidth
  eq : EqS r0.eq r.eq

/-! ### component steps -/

theorem DcS.filter {d0 d d' : DcBlock F} {x y : F} (h : DcS d0 d) (e : d.filter x = some (d', y)) :
    DcS d0 d' := by
  unfold DcBlock.filter at e
  cases h1 : d.ff.filter x with
  | none => rw [h1] at e; cases e
  | some p =>
    obtain ⟨ff, ma0, sig⟩ := p
    rw [h1] at e
    dsimp only at e
    cases h2 : d.fb.filter ma0 with
    | none => rw [h2] at e; cases e
    | some p =>
      obtain ⟨fb, ma1, z⟩ := p
      rw [h2] at e
      simp only [Option.some.injEq, Prod.mk.injEq] at e
      obtain ⟨rfl, _⟩ := e
      obtain ⟨a1, a2, _⟩ := movavg_filter_length h1
      obtain ⟨b1, b2, _⟩ := movavg_filter_length h2
      exact ⟨a1.trans h.ffl, b1.trans h.fbl, a2.trans h.ffi, b2.trans h.fbi⟩

theorem DcS.reset {d0 d : DcBlock F} (h : DcS d0 d) : DcS d0 d.reset :=
  ⟨by simp [DcBlock.reset, MovAvg.reset, h.ffl], by simp [DcBlock.reset, MovAvg.reset, h.fbl], h.ffi, h.fbi⟩

theorem AgcS.input {a0 a a' : Agc F} {x y : F} (h : AgcS a0 a) (e : a.input x = some (a', y)) :
    AgcS a0 a' := by
  unfold Agc.input at e
  simp only [Option.map_eq_some_iff, Prod.mk.injEq] at e
  obtain ⟨g, _, rfl, _⟩ := e
  exact ⟨h.bw, h.lo, h.hi⟩

theorem AgcS.lock {a0 a : Agc F} (h : AgcS a0 a) (b : Bool) : AgcS a0 (a.lock b) := ⟨h.bw, h.lo, h.hi⟩
theorem AgcS.reset {a0 a : Agc F} (h : AgcS a0 a) : AgcS a0 a.reset := ⟨h.bw, h.lo, h.hi⟩

theorem DmS.push {d0 d : Demod F} (h : DmS d0 d) (x : F) : DmS d0 (d.push x) := by
  have := h.len
  refine ⟨h.mark, h.space, ?_, fun _ => ?_⟩ <;>
    simp only [Demod.push, List.length_append, List.length_drop, List.length_cons, List.length_nil] <;>
    omega

theorem TlS.setGains {l0 l : TimingLoop F} (h : TlS l0 l) (a b : F) : TlS l0 (l.setGains a b) :=
  ⟨h.spt, h.pmin, h.pmax⟩
theorem TlS.reset {l0 l : TimingLoop F} (h : TlS l0 l) : TlS l0 l.reset := ⟨h.spt, h.pmin, h.pmax⟩

theorem tl_advance_static {l l' : TimingLoop F} {o : F} {sym : Option (SymEst F)}
    (e : l.advance o sym = some l') :
    l'.samplesPerTed = l.samplesPerTed ∧ l'.periodMin = l.periodMin ∧ l'.periodMax = l.periodMax := by
  unfold TimingLoop.advance at e
  split at e
  · cases e
  · split at e
    · split at e
      · cases e
      · split at e
        · cases e
        · cases e; exact ⟨rfl, rfl, rfl⟩
    · cases e; exact ⟨rfl, rfl, rfl⟩

theorem TlS.input {l0 l l' : TimingLoop F} {x o u : F} {sym : Option (SymEst F)} (h : TlS l0 l)
    (e : l.input x o = some (l', u, sym)) : TlS l0 l' := by
  unfold TimingLoop.input at e
  simp only [Option.map_eq_some_iff, Prod.mk.injEq] at e
  obtain ⟨l1, e1, rfl, _⟩ := e
  obtain ⟨a, b, c⟩ := tl_advance_static e1
  exact ⟨a.trans h.spt, b.trans h.pmin, c.trans h.pmax⟩

/-! ### equalizer -/

theorem EqS.train {e0 e : Equalizer F} (h : EqS e0 e) : EqS e0 e.train :=
  ⟨h.relax, h.reg, h.trainTo, h.ffw, h.fbw, h.ffc, h.fbc⟩

theorem EqS.reset {e0 e : Equalizer F} (h : EqS e0 e) : EqS e0 e.reset := by
  have := h.ffw; have := h.fbw; have := h.ffc; have := h.fbc
  refine ⟨h.relax, h.reg, h.trainTo, ?_, ?_, ?_, ?_⟩ <;>
    simp only [Equalizer.reset, List.length_replicate, identityCoeff_length] <;> omega

theorem EqS.setMode {e0 e : Equalizer F} (h : EqS e0 e) (m : EqMode) : EqS e0 { e with mode := m } :=
  ⟨h.relax, h.reg, h.trainTo, h.ffw, h.fbw, h.ffc, h.fbc⟩

theorem EqS.evolve {e0 e : Equalizer F} (h : EqS e0 e) (err : F) : EqS e0 (e.evolve err) := by
  have := h.ffw; have := h.fbw; have := h.ffc; have := h.fbc
  refine ⟨h.relax, h.reg, h.trainTo, h.ffw, h.fbw, ?_, ?_⟩ <;>
    simp only [Equalizer.evolve, nlmsUpdate_length] <;> omega

theorem EqS.pushFf {e0 e : Equalizer F} (h : EqS e0 e) (xs : List F) :
    EqS e0 { e with ffWind := windowPush e.ffWind xs } :=
  ⟨h.relax, h.reg, h.trainTo, (windowPush_length _ _).trans h.ffw, h.fbw, h.ffc, h.fbc⟩

theorem EqS.pushFb {e0 e : Equalizer F} (h : EqS e0 e) (xs : List F) :
    EqS e0 { e with fbWind := windowPush e.fbWind xs } :=
  ⟨h.relax, h.reg, h.trainTo, h.ffw, (windowPush_length _ _).trans h.fbw, h.ffc, h.fbc⟩

theorem EqS.estimateSymbol {e0 e : Equalizer F} (h : EqS e0 e) (s0 s1 : F) :
    EqS e0 (e.estimateSymbol s0 s1).1 := by
  unfold Equalizer.estimateSymbol
  dsimp only
  split
  · exact EqS.pushFb (h.pushFf _) _
  · exact EqS.pushFb (EqS.evolve (h.pushFf _) _) _
  · split
    · exact EqS.pushFb (EqS.setMode (EqS.evolve (h.pushFf _) _) _) _
    · exact EqS.pushFb (EqS.setMode (EqS.evolve (h.pushFf _) _) _) _

theorem EqS.go {e0 : Equalizer F} : ∀ (n : Nat) (xs : List F), xs.length ≤ n →
    ∀ (e : Equalizer F) (i : Nat) (byte : UInt8), EqS e0 e → EqS e0 (Equalizer.input.go e xs i byte).1 := by
  intro n
  induction n with
  | zero =>
    intro xs hx e i byte h
    cases xs with
    | nil => unfold Equalizer.input.go; exact h
    | cons a t => simp at hx
  | succ n ih =>
    intro xs hx e i byte h
    match xs with
    | [] => unfold Equalizer.input.go; exact h
    | [_] => unfold Equalizer.input.go; exact h
    | s0 :: s1 :: rest =>
      unfold Equalizer.input.go
      exact ih rest (by simp only [List.length_cons] at hx; omega) _ _ _ (h.estimateSymbol s0 s1)

theorem EqS.input {e0 e : Equalizer F} (h : EqS e0 e) (xs : List F) : EqS e0 (e.input xs).1 :=
  EqS.go xs.length xs (Nat.le_refl _) e 0 0 h

/-! ### the whole receiver: `StaticInv` along `sample` and `reset` -/

theorem StaticInv.pre {r0 r : FullRx F} (h : StaticInv r0 r) (s : SymEst F) : StaticInv r0 (r.pre s).1 := by
  unfold FullRx.pre
  dsimp only
  split
  · exact ⟨h.cfg, h.dc, h.agc, h.dm, h.tl, h.pt, h.eq⟩
  · rename_i adj _
    cases adj
    · exact ⟨h.cfg, h.dc, h.agc, h.dm, h.tl, h.pt, h.eq.input _⟩
    · exact ⟨h.cfg, h.dc, h.agc.lock true, h.dm, h.tl.setGains _ _, h.pt, h.eq.train.input _⟩

theorem StaticInv.post {r0 : FullRx F} (p : FullRx F × (LState × LinkSt × Option Bool))
    (h : StaticInv r0 p.1) : StaticInv r0 (FullRx.post p).1 := by
  obtain ⟨r, res⟩ := p
  unfold FullRx.post
  dsimp only
  cases (r.link.clock.isSome && res.1.clock.isNone)
  · exact ⟨h.cfg, h.dc, h.agc, h.dm, h.tl, h.pt, h.eq⟩
  · exact ⟨h.cfg, h.dc, h.agc.lock false, h.dm, (h.tl.setGains _ _).reset, h.pt, h.eq.reset⟩

theorem StaticInv.symbol {r0 r : FullRx F} (h : StaticInv r0 r) (s : SymEst F) :
    StaticInv r0 (r.symbol s).1 := by
  rw [FullRx.symbol_eq]
  exact StaticInv.post _ (h.pre s)

theorem StaticInv.reset {r0 r : FullRx F} (h : StaticInv r0 r) : StaticInv r0 r.reset :=
  ⟨h.cfg, h.dc.reset, h.agc.reset,
    ⟨h.dm.mark, h.dm.space, by simp [FullRx.reset, h.dm.len],
      fun h0 => by simp [FullRx.reset, h.dm.pos h0]⟩,
    (h.tl.setGains _ _).reset, h.pt, h.eq.reset⟩

end Static

section StaticSample
variable {F : Type} [Arith F] [Hypot F]

theorem StaticInv.front {r0 r q : FullRx F} {x : F} {sym : Option (SymEst F)} (h : StaticInv r0 r)
    (e : r.front x = some (q, sym)) : StaticInv r0 q := by
  unfold FullRx.front at e
  cases h1 : r.dc.filter x with
  | none => rw [h1] at e; cases e
  | some p =>
    obtain ⟨dc, y⟩ := p
    rw [h1] at e
    dsimp only at e
    cases h2 : r.agc.input y with
    | none => rw [h2] at e; cases e
    | some p =>
      obtain ⟨agc, sa⟩ := p
      rw [h2] at e
      dsimp only at e
      have hdc := h.dc.filter h1
      have hagc := h.agc.input h2
      cases h3 : clockFires r.untilNext (r.tedClock + 1) with
      | false =>
        rw [h3] at e
        simp only [Bool.false_eq_true, ↓reduceIte, Option.some.injEq, Prod.mk.injEq] at e
        obtain ⟨rfl, _⟩ := e
        exact ⟨h.cfg, hdc, hagc, h.dm.push sa, h.tl, h.pt, h.eq⟩
      | true =>
        rw [h3] at e
        simp only [↓reduceIte] at e
        cases h4 : (r.demod.push sa).demod with
        | none => rw [h4] at e; cases e
        | some saLow =>
          rw [h4] at e
          dsimp only at e
          cases h5 : r.tl.input saLow (clockRemaining r.untilNext (r.tedClock + 1)) with
          | none => rw [h5] at e; cases e
          | some p =>
            obtain ⟨tl, u, sym'⟩ := p
            rw [h5] at e
            simp only [Option.some.injEq, Prod.mk.injEq] at e
            obtain ⟨rfl, _⟩ := e
            exact ⟨h.cfg, hdc, hagc, h.dm.push sa, h.tl.input h5, h.pt, h.eq⟩

theorem StaticInv.sample {r0 r r' : FullRx F} {x : F} {evs : List Event} (h : StaticInv r0 r)
    (e : r.sample x = some (r', evs)) : StaticInv r0 r' := by
  obtain ⟨q, sym, hf, hc⟩ := FullRx.sample_cases e
  have hq := h.front hf
  rcases hc with ⟨_, rfl, _⟩ | ⟨s, _, hs⟩
  · exact hq
  · have := hq.symbol s
    rw [hs] at this
    exact this

end StaticSample
/-! ### `reset()` against `new` -/

section ResetNew
variable {F : Type} [Arith F]

/-- overwrite the two fields `reset()` leaves alone: the equalizer's mode and `LState.train` -/
def FullRx.upd (r : FullRx F) (m : EqMode) (t : Nat) : FullRx F :=
  { r with eq := { r.eq with mode := m }, link := { r.link with train := t } }

/-- overwrite the demodulator's input window -/
def FullRx.updW (r : FullRx F) (w : List F) : FullRx F :=
  { r with demod := { r.demod with window := w } }

/-- what `FullRx.new` builds, field by field (no laws needed) -/
theorem FullRx.new_explicit {c : RxCfg F} {r0 : FullRx F} (h : FullRx.new c = some r0) :
    ∃ (bwA dev bwP : F), c.dcLen ≠ 0 ∧
      r0 = ⟨c, ⟨⟨List.replicate c.dcLen zero, div one (ofNat c.dcLen), zero⟩,
                ⟨List.replicate c.dcLen zero, div one (ofNat c.dcLen), zero⟩⟩,
            ⟨bwA, c.agcMin, c.agcMax, false, Agc.initialGain c.agcMin c.agcMax⟩,
            Demod.new c.mark c.space,
            ⟨div c.sps two, sub (div c.sps two) (mul c.sps dev), add (div c.sps two) (mul c.sps dev),
              c.alphaU, c.betaU, div c.sps two, div c.sps two, Ted.init⟩,
            0, div c.sps two, 0, ⟨bwP, zero⟩, [],
            Equalizer.new c.nff c.nfb c.relax c.reg SYNC_WORD, {}, {}⟩ := by
  unfold FullRx.new at h
  split at h
  · rename_i dc agc tl pt h1 h2 h3 h4
    cases h
    have hl : c.dcLen ≠ 0 := by
      intro h0
      rw [(dc_new_none_iff' c.dcLen).2 h0] at h1; cases h1
    rw [dc_new_some (Nat.pos_of_ne_zero hl)] at h1
    cases h1
    unfold Agc.new at h2
    unfold TimingLoop.new at h3
    unfold PowerTracker.new at h4
    simp only [Option.map_eq_some_iff] at h2 h3 h4
    obtain ⟨bwA, _, rfl⟩ := h2
    obtain ⟨dev, _, rfl⟩ := h3
    obtain ⟨bwP, _, rfl⟩ := h4
    exact ⟨bwA, dev, bwP, hl, rfl⟩
  · cases h

/-- a newly built receiver satisfies its own static invariant -/
theorem StaticInv.new {c : RxCfg F} {r0 : FullRx F} (h : FullRx.new c = some r0) :
    StaticInv r0 r0 := by
  obtain ⟨bwA, dev, bwP, hl, rfl⟩ := FullRx.new_explicit h
  refine ⟨rfl, ⟨rfl, rfl, rfl, rfl⟩, ⟨rfl, rfl, rfl⟩, ⟨rfl, rfl, rfl, id⟩, ⟨rfl, rfl, rfl⟩, rfl,
    ⟨rfl, rfl, rfl, rfl, rfl, ?_, ?_⟩⟩
  · simp only [Equalizer.new, identityCoeff_length, List.length_replicate]; omega
  · simp only [Equalizer.new, identityCoeff_length, List.length_replicate]; omega

/-- `reset()` on a newly built receiver changes nothing at all -/
theorem FullRx.reset_new {c : RxCfg F} {r0 : FullRx F} (h : FullRx.new c = some r0) : r0.reset = r0 := by
  obtain ⟨bwA, dev, bwP, hl, rfl⟩ := FullRx.new_explicit h
  simp only [FullRx.reset, DcBlock.reset, MovAvg.reset, Agc.reset, TimingLoop.reset, TimingLoop.setGains,
    Equalizer.reset, Equalizer.new, Demod.new, List.length_replicate, identityCoeff_length]
  rw [identityCoeff_congr (F := F) (show c.nff - 1 + 1 - 1 = c.nff - 1 by omega),
    identityCoeff_congr (F := F) (show c.nfb - 1 + 1 - 1 = c.nfb - 1 by omega)]

/-- two receivers with the same static part have the same `reset()`, up to the two surviving fields
    (and the length of the demodulator's cleared window, which is the same too unless the matched
    filter is empty: `reset_of_static`) -/
theorem FullRx.reset_of_static' {r0 r : FullRx F} (h0 : StaticInv r0 r0) (h : StaticInv r0 r) :
    r.reset = (r0.reset.upd r.eq.mode r.link.train).updW (List.replicate r.demod.window.length zero) := by
  obtain ⟨cfg, ⟨⟨w1, i1, s1⟩, ⟨w2, i2, s2⟩⟩, ⟨bw, lo, hi, lk, g⟩, ⟨dw, mk, sp⟩,
    ⟨spt, pmin, pmax, al, be, pa, pi, ted⟩, tc, un, ic, ⟨pbw, pw⟩, hist,
    ⟨rl, rg, tt, ffc, fbc, ffw, fbw, mode⟩, link, rx⟩ := r
  obtain ⟨cfg', ⟨⟨w1', i1', s1'⟩, ⟨w2', i2', s2'⟩⟩, ⟨bw', lo', hi', lk', g'⟩, ⟨dw', mk', sp'⟩,
    ⟨spt', pmin', pmax', al', be', pa', pi', ted'⟩, tc', un', ic', ⟨pbw', pw'⟩, hist',
    ⟨rl', rg', tt', ffc', fbc', ffw', fbw', mode'⟩, link', rx'⟩ := r0
  obtain ⟨a1, ⟨b1, b2, b3, b4⟩, ⟨c1, c2, c3⟩, ⟨d1, d2, d3, _⟩, ⟨e1, e2, e3⟩, f1, ⟨g1, g2, g3, g4, g5, g6, g7⟩⟩ := h
  have k6 := h0.eq.ffc
  have k7 := h0.eq.fbc
  dsimp only at a1 b1 b2 b3 b4 c1 c2 c3 d1 d2 d3 e1 e2 e3 f1 g1 g2 g3 g4 g5 g6 g7 k6 k7
  subst a1 b3 b4 c1 c2 c3 d1 d2 e1 e2 e3 f1 g1 g2 g3
  simp only [FullRx.reset, FullRx.upd, FullRx.updW, DcBlock.reset, MovAvg.reset, Agc.reset,
    TimingLoop.reset, TimingLoop.setGains, Equalizer.reset, b1, b2, g4, g5]
  rw [identityCoeff_congr (F := F) (g6.trans k6.symm), identityCoeff_congr (F := F) (g7.trans k7.symm)]

theorem FullRx.reset_of_static {r0 r : FullRx F} (h0 : StaticInv r0 r0) (h : StaticInv r0 r)
    (hp : 0 < r0.demod.window.length) :
    r.reset = r0.reset.upd r.eq.mode r.link.train := by
  rw [FullRx.reset_of_static' h0 h, h.dm.len_eq hp]
  rfl

end ResetNew

end SameVerif.Dsp

/-! ### `lstep` with a stopped byte clock does not read `train` -/

namespace SameVerif
open FullRxAux

theorem lstep_clock_none (c : LCfg) (s : LState) (o : Obs) (b : Byte) (hc : s.clock = none) :
    lstep c s o b =
      if s.nsym + 1 < 32 then endTick (baseOf s o)
      else if hitOf c s o then byteTick c (baseOf s o) true b
      else endTick (baseOf s o) := by
  have hd : droppedOf c s o = false := by simp [droppedOf, hc]
  rw [lstep_eq, hd, hc]
  simp only [adjOf, Bool.false_eq_true, ↓reduceIte]

/-- With the byte clock stopped, one symbol tick either is no byte tick — then `train` is carried
    along untouched, unread, and the clock stays stopped — or it is a synchronisation
    (`adjusted = true`), which overwrites `train` without reading it. -/
theorem lstep_train_dead (c : LCfg) (s : LState) (o : Obs) (hc : s.clock = none) (t : Nat) :
    (∀ b, (lstep c s o b).2.2 = none ∧ (lstep c s o b).1.clock = none ∧
        lstep c { s with train := t } o b = ({ (lstep c s o b).1 with train := t }, (lstep c s o b).2)) ∨
    (∀ b, (lstep c s o b).2.2 = some true ∧ lstep c { s with train := t } o b = lstep c s o b) := by
  have hh : hitOf c { s with train := t } o = hitOf c s o := rfl
  have hn : ({ s with train := t } : LState).nsym = s.nsym := rfl
  have hk : ({ s with train := t } : LState).clock = none := hc
  by_cases hw : s.nsym + 1 < 32
  · left
    intro b
    rw [lstep_clock_none c s o b hc, lstep_clock_none c _ o b hk, hn]
    simp only [hw, ↓reduceIte]
    exact ⟨rfl, hc, rfl⟩
  · cases hit : hitOf c s o with
    | true =>
      right
      intro b
      rw [lstep_clock_none c s o b hc, lstep_clock_none c _ o b hk, hn, hh]
      simp only [hw, ↓reduceIte, hit]
      exact ⟨byteTick_flag _ _ _ _, rfl⟩
    | false =>
      left
      intro b
      rw [lstep_clock_none c s o b hc, lstep_clock_none c _ o b hk, hn, hh]
      simp only [hw, ↓reduceIte, hit, Bool.false_eq_true]
      exact ⟨rfl, hc, rfl⟩

/-- for the examples: a link event as `(timestamp, link state)` (decidable equality), `none` for a
    transport event -/
def Event.linkView : Event → Option (Nat × LinkSt)
  | .link n ls => some (n, ls)
  | .transport _ _ => none

end SameVerif

namespace SameVerif.Dsp
open Arith SameVerif.FullRxAux

/-! ### one step from two states that differ only in the surviving fields -/

section Live
variable {F : Type} [Arith F]

theorem FullRx.pre_upd_none (q : FullRx F) (m : EqMode) (t : Nat) (s : SymEst F)
    (h1 : (lstep q.cfg.lcfg q.link (q.obsOf s) 0).2.2 = none)
    (h3 : lstep q.cfg.lcfg { q.link with train := t } (q.obsOf s) 0
      = ({ (lstep q.cfg.lcfg q.link (q.obsOf s) 0).1 with train := t }, (lstep q.cfg.lcfg q.link (q.obsOf s) 0).2)) :
    (q.upd m t).pre s = ((q.pre s).1.upd m t, ({ (q.pre s).2.1 with train := t }, (q.pre s).2.2)) := by
  unfold FullRx.obsOf at h1 h3
  unfold FullRx.pre FullRx.upd
  dsimp only at h3 ⊢
  rw [h3]
  simp only [h1]

theorem FullRx.pre_upd_some (q : FullRx F) (m : EqMode) (t : Nat) (s : SymEst F)
    (h1 : ∀ b, (lstep q.cfg.lcfg q.link (q.obsOf s) b).2.2 = some true)
    (h3 : ∀ b, lstep q.cfg.lcfg { q.link with train := t } (q.obsOf s) b = lstep q.cfg.lcfg q.link (q.obsOf s) b) :
    (q.upd m t).pre s = ({ (q.pre s).1 with link := { q.link with train := t } }, (q.pre s).2) := by
  unfold FullRx.obsOf at h1 h3
  unfold FullRx.pre FullRx.upd
  dsimp only at h3 ⊢
  simp only [h3, h1 0, ↓reduceIte]
  rfl
/-- one symbol from two states that differ only in the two surviving fields, byte clock stopped:
    the same events; the successor states are equal (the tick was a synchronisation) or again differ
    only in those two fields, byte clock still stopped -/
theorem FullRx.symbol_upd (q : FullRx F) (hc : q.link.clock = none) (m : EqMode) (t : Nat) (s : SymEst F) :
    ((q.upd m t).symbol s).2 = (q.symbol s).2 ∧
    (((q.upd m t).symbol s).1 = (q.symbol s).1 ∨
      ((q.symbol s).1.link.clock = none ∧ ((q.upd m t).symbol s).1 = (q.symbol s).1.upd m t)) := by
  obtain ⟨_, _, p3, _⟩ := FullRx.pre_spec q s
  have hpc : (q.pre s).1.link.clock = none := by rw [p3]; exact hc
  rw [FullRx.symbol_eq, FullRx.symbol_eq]
  rcases lstep_train_dead q.cfg.lcfg q.link (q.obsOf s) hc t with hA | hB
  · obtain ⟨h1, h2, h3⟩ := hA 0
    rw [FullRx.pre_upd_none q m t s h1 h3]
    have hres : (q.pre s).2.1.clock = none := by
      have : (q.pre s).2 = lstep q.cfg.lcfg q.link (q.obsOf s) 0 := by
        unfold FullRx.pre FullRx.obsOf
        unfold FullRx.obsOf at h1
        dsimp only
        simp only [h1]
      rw [this]; exact h2
    generalize q.pre s = p at hpc hres
    obtain ⟨r, res⟩ := p
    dsimp only at hpc hres
    unfold FullRx.post FullRx.upd
    simp only [hpc, hres, Option.isSome_none, Bool.false_and, Bool.false_eq_true, ↓reduceIte]
    exact ⟨trivial, Or.inr ⟨trivial, trivial⟩⟩
  · rw [FullRx.pre_upd_some q m t s (fun b => (hB b).1) (fun b => (hB b).2)]
    generalize q.pre s = p at hpc
    obtain ⟨r, res⟩ := p
    dsimp only at hpc
    have : ({ r with link := { q.link with train := t } } : FullRx F).link.clock = none := hc
    unfold FullRx.post
    simp only [hpc, hc, Option.isSome_none, Bool.false_and, Bool.false_eq_true, ↓reduceIte]
    exact ⟨trivial, Or.inl trivial⟩

end Live

section LiveSample
variable {F : Type} [Arith F] [Hypot F]

/-- the float front end does not look at the two surviving fields -/
theorem FullRx.front_upd (b : FullRx F) (m : EqMode) (t : Nat) (x : F) :
    (b.upd m t).front x = (b.front x).map fun p => (p.1.upd m t, p.2) := by
  unfold FullRx.front FullRx.upd
  dsimp only
  cases b.dc.filter x with
  | none => rfl
  | some p =>
    obtain ⟨dc, y⟩ := p
    dsimp only
    cases b.agc.input y with
    | none => rfl
    | some p =>
      obtain ⟨agc, sa⟩ := p
      dsimp only
      cases clockFires b.untilNext (b.tedClock + 1) with
      | false => rfl
      | true =>
        simp only [↓reduceIte]
        cases (b.demod.push sa).demod with
        | none => rfl
        | some saLow =>
          dsimp only
          cases b.tl.input saLow (clockRemaining b.untilNext (b.tedClock + 1)) with
          | none => rfl
          | some p => rfl

/-- one sample from two states that differ only in the two surviving fields, byte clock stopped -/
theorem FullRx.sample_upd (b : FullRx F) (hc : b.link.clock = none) (m : EqMode) (t : Nat) (x : F) :
    ((b.upd m t).sample x).map (·.2) = (b.sample x).map (·.2) ∧
    ∀ a' b' ea eb, (b.upd m t).sample x = some (a', ea) → b.sample x = some (b', eb) →
      a' = b' ∨ (b'.link.clock = none ∧ a' = b'.upd m t) := by
  rw [FullRx.sample_eq, FullRx.sample_eq, FullRx.front_upd]
  cases hf : b.front x with
  | none => exact ⟨rfl, fun _ _ _ _ h => by cases h⟩
  | some p =>
    obtain ⟨q, sym⟩ := p
    obtain ⟨_, hl, _⟩ := FullRx.front_spec hf
    have hq : q.link.clock = none := by rw [hl]; exact hc
    cases sym with
    | none =>
      refine ⟨rfl, ?_⟩
      intro a' b' ea eb h1 h2
      simp only [Option.map_some, FullRx.finish, Option.some.injEq, Prod.mk.injEq] at h1 h2
      obtain ⟨rfl, _⟩ := h1
      obtain ⟨rfl, _⟩ := h2
      exact Or.inr ⟨hq, rfl⟩
    | some s =>
      obtain ⟨e1, e2⟩ := FullRx.symbol_upd q hq m t s
      refine ⟨by simp only [Option.map_some, FullRx.finish, e1], ?_⟩
      intro a' b' ea eb h1 h2
      simp only [Option.map_some, FullRx.finish, Option.some.injEq] at h1 h2
      rw [h1, h2] at e2
      exact e2

end LiveSample

/-! ### the demodulator's window: its oldest entry is dead -/

section W
variable {F : Type} [Arith F] [Hypot F]

/-- the front end pushes the new sample into the demodulator's window before anything reads it:
    the oldest entry of the window is dead -/
theorem FullRx.front_updW (b : FullRx F) (w : List F) (hw : w.drop 1 = b.demod.window.drop 1) (x : F) :
    (b.updW w).front x = b.front x := by
  have hpush : ∀ sa, Demod.push { b.demod with window := w } sa = b.demod.push sa := by
    intro sa
    simp only [Demod.push, hw]
  unfold FullRx.front FullRx.updW
  dsimp only
  simp only [hpush]

theorem FullRx.sample_updW (b : FullRx F) (w : List F) (hw : w.drop 1 = b.demod.window.drop 1) (x : F) :
    (b.updW w).sample x = b.sample x := by
  rw [FullRx.sample_eq, FullRx.sample_eq, FullRx.front_updW b w hw]

theorem FullRx.run_updW (b : FullRx F) (w : List F) (hw : w.drop 1 = b.demod.window.drop 1) (xs : List F) :
    ((b.updW w).run xs).map (·.2) = (b.run xs).map (·.2) := by
  cases xs with
  | nil => rfl
  | cons x xs => unfold FullRx.run; rw [FullRx.sample_updW b w hw]
end W

section NewWindow
variable {F : Type} [Arith F]

theorem FullRx.new_window {c : RxCfg F} {r0 : FullRx F} (h : FullRx.new c = some r0) :
    r0.demod.window = List.replicate c.mark.length zero := by
  obtain ⟨_, _, _, _, rfl⟩ := FullRx.new_explicit h
  rfl

/-- the cleared window after `reset()` and the freshly built one agree from the second entry on -/
theorem FullRx.reset_window_drop {c : RxCfg F} {r0 r : FullRx F} (h : FullRx.new c = some r0)
    (hs : StaticInv r0 r) :
    (List.replicate r.demod.window.length (zero : F)).drop 1 = r0.demod.window.drop 1 := by
  have := hs.dm.len
  rw [FullRx.new_window h] at this ⊢
  simp only [List.length_replicate] at this
  simp only [List.drop_replicate, this]

end NewWindow

end SameVerif.Dsp
