import SameVerif.Model.Chain
import SameVerif.Thm.C01
/-
  Layer 2 of the digital chain: the link model over a whole transmission — several observed bursts
  one after the other, then silence.
-/
namespace SameVerif.Chain
open SameVerif SameVerif.Spec

/-- `Spec.BurstObserved` for a segment -/
abbrev Observed (payload : List Byte) (g : Seg) : Prop :=
  BurstObserved payload g.lead g.body g.tail g.acq g.rel

/-- the side conditions `C01.burst_delivered` puts on the payload and the configuration -/
structure PayloadCond (c : LCfg) (payload : List Byte) : Prop where
  ok : PayloadOk payload
  dash : ∀ h : 4 < payload.length, payload[4] = 45
  p4 : payload.take 4 = [78, 78, 78, 78] → c.fc.maxPrefixErr ≤ 4

/-! ### lists of link states -/

theorem lrun_length (c : LCfg) (xs : List Tick) : ∀ s, (lrun c s xs).length = xs.length := by
  induction xs with
  | nil => intro s; rfl
  | cons x xs ih => intro s; simp [lrun, ih]

theorem lrun_take (c : LCfg) (s : LState) (xs : List Tick) (k : Nat) :
    lrun c s (xs.take k) = (lrun c s xs).take k := by
  induction xs generalizing s k with
  | nil => simp [lrun]
  | cons x xs ih =>
    cases k with
    | zero => simp [lrun]
    | succ k => simp [lrun, ih]

theorem noBurst_iff (L : List LinkSt) : L.flatMap burstOf = [] ↔ NoBurst L := by
  induction L with
  | nil => simp [NoBurst]
  | cons x L ih =>
    cases x <;> simp [burstOf, NoBurst, ih] <;> intro h <;> exact h

theorem noBurst_append (a b : List LinkSt) (ha : NoBurst a) (hb : NoBurst b) : NoBurst (a ++ b) := by
  intro ls h
  rcases List.mem_append.1 h with h | h
  · exact ha ls h
  · exact hb ls h

theorem noBurst_replicate (n : Nat) : NoBurst (List.replicate n .noCarrier) := by
  intro ls h b
  rw [(List.mem_replicate.1 h).2]
  simp

/-- a list of link states with exactly one burst splits around it -/
theorem split_single (L : List LinkSt) (b : List Byte) (h : L.flatMap burstOf = [b]) :
    ∃ pre post, L = pre ++ .burst b :: post ∧ NoBurst pre ∧ NoBurst post := by
  induction L with
  | nil => cases h
  | cons x L ih =>
    cases x with
    | burst b' =>
      simp only [List.flatMap_cons, burstOf, List.cons_append, List.nil_append, List.cons.injEq] at h
      refine ⟨[], L, by rw [h.1]; rfl, (by intro ls h; cases h), (noBurst_iff L).1 h.2⟩
    | noCarrier =>
      obtain ⟨pre, post, h1, h2, h3⟩ := ih (by simpa [burstOf] using h)
      refine ⟨.noCarrier :: pre, post, by rw [h1]; rfl, ?_, h3⟩
      intro ls hls b
      rcases List.mem_cons.1 hls with h | h
      · rw [h]; simp
      · exact h2 ls h b
    | searching =>
      obtain ⟨pre, post, h1, h2, h3⟩ := ih (by simpa [burstOf] using h)
      refine ⟨.searching :: pre, post, by rw [h1]; rfl, ?_, h3⟩
      intro ls hls b
      rcases List.mem_cons.1 hls with h | h
      · rw [h]; simp
      · exact h2 ls h b
    | reading =>
      obtain ⟨pre, post, h1, h2, h3⟩ := ih (by simpa [burstOf] using h)
      refine ⟨.reading :: pre, post, by rw [h1]; rfl, ?_, h3⟩
      intro ls hls b
      rcases List.mem_cons.1 hls with h | h
      · rw [h]; simp
      · exact h2 ls h b

/-! ### one segment -/

/-- **One segment, with the position of the burst.**  From a quiescent state, over the ticks of
    one observed burst the link model reports exactly one `.burst`, `payload ++ t`, and it does
    so at a tick more than 31 ticks after the end of the body (`SegOut`); it is quiescent again. -/
theorem seg_out (c : LCfg) (hE : c.maxErrors ≤ 6) (hP : c.fc.maxPrefixErr ≤ 7)
    (payload : List Byte) (hc : PayloadCond c payload) (g : Seg) (hg : Observed payload g)
    (s : LState) (hs : Quiescent s) :
    ∃ t, SegOut g payload t (lrun c s g.ticks) ∧ lrunBursts c s g.ticks = [payload ++ t]
      ∧ Quiescent (lrunState c s g.ticks) := by
  obtain ⟨t, hb, hlen, hq⟩ :=
    C01.burst_delivered c hE hP s hs payload hc.ok hc.dash hc.p4 g.lead g.body g.tail g.acq g.rel hg
  obtain ⟨_, hl2, hl3⟩ := C01.lead_quiet c s hs g.lead hg.lead_closed
  obtain ⟨_, _, _, _, hf⟩ :=
    C01.framer_sees c hE hP _ hl3 payload hc.ok hc.dash hc.p4 g.lead g.body g.tail g.acq g.rel hg
  refine ⟨t, ⟨lrun_length c _ s, ?_, hlen⟩, hb, hq⟩
  have htl := hg.tail_len
  -- nothing is reported during the first `k` ticks
  have hk : g.lead.length + g.body.length + 31 ≤ g.ticks.length := by
    simp only [Seg.ticks, List.length_append]; omega
  have htake : g.ticks.take (g.lead.length + g.body.length + 31)
      = g.lead ++ (g.body ++ g.tail).take (g.body.length + 31) := by
    simp only [Seg.ticks, List.append_assoc]
    rw [List.take_append, List.take_of_length_le (by omega)]
    congr 2
    omega
  have hpre : ((lrun c s g.ticks).take (g.lead.length + g.body.length + 31)).flatMap burstOf = [] := by
    rw [← lrun_take, ← lrunBursts_eq, htake, lrunBursts_append, hl2, hf]; rfl
  have hall : (lrun c s g.ticks).flatMap burstOf = [payload ++ t] := by
    rw [← lrunBursts_eq]; exact hb
  rw [← List.take_append_drop (g.lead.length + g.body.length + 31) (lrun c s g.ticks),
    List.flatMap_append, hpre, List.nil_append] at hall
  obtain ⟨pre, post, h1, h2, h3⟩ := split_single _ _ hall
  refine ⟨(lrun c s g.ticks).take (g.lead.length + g.body.length + 31) ++ pre, post, ?_, ?_, h3, ?_⟩
  · rw [List.append_assoc, ← h1, List.take_append_drop]
  · exact noBurst_append _ _ ((noBurst_iff _).1 hpre) h2
  · rw [List.length_append, List.length_take, lrun_length]
    omega

/-! ### several segments -/

/-- **A whole transmission at the link layer.**  Segments, each an observed burst of its own
    payload (`ps`: payload and segment), one after the other from a quiescent state: the bursts
    reported are, in order and one for one, `payload_i ++ t_i` with `|t_i| ≤ ⌈rel_i / 8⌉`; and the
    link is quiescent at the end. -/
theorem segments_delivered (c : LCfg) (hE : c.maxErrors ≤ 6) (hP : c.fc.maxPrefixErr ≤ 7)
    (ps : List (List Byte × Seg)) : ∀ (s : LState), Quiescent s →
    (∀ p ∈ ps, PayloadCond c p.1 ∧ Observed p.1 p.2) →
    Forall₂ (fun p b => ∃ t, b = p.1 ++ t ∧ t.length ≤ (p.2.rel + 7) / 8) ps
        (lrunBursts c s (ps.flatMap (fun p => p.2.ticks)))
      ∧ Quiescent (lrunState c s (ps.flatMap (fun p => p.2.ticks))) := by
  induction ps with
  | nil => intro s hs _; exact ⟨.nil, hs⟩
  | cons p ps ih =>
    intro s hs hall
    obtain ⟨hc, ho⟩ := hall p List.mem_cons_self
    obtain ⟨t, hso, hb, hq⟩ := seg_out c hE hP p.1 hc p.2 ho s hs
    obtain ⟨i1, i2⟩ := ih _ hq (fun q hq => hall q (List.mem_cons_of_mem _ hq))
    simp only [List.flatMap_cons]
    rw [lrunBursts_append, lrunState_append, hb]
    exact ⟨.cons ⟨t, rfl, hso.tail_len⟩ i1, i2⟩

/-- silence after the transmission: only `.noCarrier` -/
theorem quiet_out (c : LCfg) (s : LState) (hs : Quiescent s) (quiet : List Tick)
    (hq : ∀ x ∈ quiet, x.1.openOk = false) :
    lrun c s quiet = List.replicate quiet.length .noCarrier ∧ Quiescent (lrunState c s quiet) := by
  obtain ⟨h1, _, h3⟩ := C01.lead_quiet c s hs quiet hq
  exact ⟨List.eq_replicate_iff.2 ⟨lrun_length c quiet s, h1⟩, h3⟩

/-- **Three bursts and silence, tick by tick.**  The per-tick output of the link model over three
    observed bursts of the same payload followed by silence: three stretches, each with exactly one
    `.burst` (after the end of the respective body), then `.noCarrier` throughout. -/
theorem three_segments (c : LCfg) (hE : c.maxErrors ≤ 6) (hP : c.fc.maxPrefixErr ≤ 7)
    (payload : List Byte) (hc : PayloadCond c payload) (g1 g2 g3 : Seg)
    (h1 : Observed payload g1) (h2 : Observed payload g2) (h3 : Observed payload g3)
    (quiet : List Tick) (hq : ∀ x ∈ quiet, x.1.openOk = false)
    (s : LState) (hs : Quiescent s) :
    ∃ t1 t2 t3 L1 L2 L3,
      lrun c s (g1.ticks ++ g2.ticks ++ g3.ticks ++ quiet)
          = L1 ++ L2 ++ L3 ++ List.replicate quiet.length .noCarrier
        ∧ SegOut g1 payload t1 L1 ∧ SegOut g2 payload t2 L2 ∧ SegOut g3 payload t3 L3
        ∧ lrunBursts c s (g1.ticks ++ g2.ticks ++ g3.ticks ++ quiet)
            = [payload ++ t1, payload ++ t2, payload ++ t3]
        ∧ Quiescent (lrunState c s (g1.ticks ++ g2.ticks ++ g3.ticks ++ quiet)) := by
  obtain ⟨t1, o1, b1, q1⟩ := seg_out c hE hP payload hc g1 h1 s hs
  obtain ⟨t2, o2, b2, q2⟩ := seg_out c hE hP payload hc g2 h2 _ q1
  obtain ⟨t3, o3, b3, q3⟩ := seg_out c hE hP payload hc g3 h3 _ q2
  obtain ⟨hqo, q4⟩ := quiet_out c _ q3 quiet hq
  have hqb : lrunBursts c (lrunState c (lrunState c (lrunState c s g1.ticks) g2.ticks) g3.ticks) quiet = [] := by
    rw [lrunBursts_eq, hqo]
    exact (noBurst_iff _).2 (noBurst_replicate _)
  refine ⟨t1, t2, t3, _, _, _, ?_, o1, o2, o3, ?_, ?_⟩
  · simp only [lrun_append, lrunState_append, hqo]
  · simp only [lrunBursts_append, lrunState_append, b1, b2, b3, hqb]
    rfl
  · simp only [lrunState_append]
    exact q4

end SameVerif.Chain
