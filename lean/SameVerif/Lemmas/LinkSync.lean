import SameVerif.Lemmas.LinkBits
import SameVerif.Lemmas.Bits
/-
  Sync-word errors of the 32-bit windows over the transmitted frame `AB×16 ++ payload`
  (support for C01): aligned preamble windows match, misaligned preamble windows are 8 or 24 away,
  and no misaligned window that ends before the squelch locks is within 6 errors.
-/
namespace SameVerif
open SameVerif.Spec

def sel5 (a b c d e : Byte) : Nat → Byte
  | 0 => a | 1 => b | 2 => c | 3 => d | _ => e

/-- error of the window that starts `ρ` bits into byte `a` of five consecutive bytes -/
def W5 (a b c d e : Byte) (ρ : Nat) : Nat :=
  (List.range 32).countP (fun i =>
    SYNC_WORD.toBitVec.getLsbD i != bitOf (sel5 a b c d e ((ρ + i) / 8)) ((ρ + i) % 8))

/-- the share of byte `x`, sitting at position `k` of the five, in that error -/
def part (x : Byte) (ρ k : Nat) : Nat :=
  (List.range 32).countP (fun i =>
    (ρ + i) / 8 == k && (SYNC_WORD.toBitVec.getLsbD i != bitOf x ((ρ + i) % 8)))

theorem countP_split5 (cls : Nat → Nat) (f : Nat → Nat → Bool) (l : List Nat)
    (h : ∀ i ∈ l, cls i < 5) :
    l.countP (fun i => f (cls i) i)
      = l.countP (fun i => cls i == 0 && f 0 i) + l.countP (fun i => cls i == 1 && f 1 i)
        + l.countP (fun i => cls i == 2 && f 2 i) + l.countP (fun i => cls i == 3 && f 3 i)
        + l.countP (fun i => cls i == 4 && f 4 i) := by
  induction l with
  | nil => simp
  | cons x l ih =>
    have hx := h x List.mem_cons_self
    have ih' := ih (fun i hi => h i (List.mem_cons_of_mem _ hi))
    simp only [List.countP_cons]
    rw [ih']
    have : cls x = 0 ∨ cls x = 1 ∨ cls x = 2 ∨ cls x = 3 ∨ cls x = 4 := by omega
    rcases this with e | e | e | e | e <;> simp [e] <;> omega

/-- the window error is the sum of the five bytes' shares -/
theorem W5_eq_parts (a b c d e : Byte) (ρ : Nat) (hρ : ρ ≤ 7) :
    W5 a b c d e ρ = part a ρ 0 + part b ρ 1 + part c ρ 2 + part d ρ 3 + part e ρ 4 := by
  unfold W5
  rw [countP_split5 (fun i => (ρ + i) / 8)
    (fun k i => SYNC_WORD.toBitVec.getLsbD i != bitOf (sel5 a b c d e k) ((ρ + i) % 8))]
  · rfl
  · intro i hi
    have : i < 32 := List.mem_range.mp hi
    show (ρ + i) / 8 < 5
    omega

theorem sel5_getD (T : List Byte) (p k : Nat) (hk : k ≤ 4) :
    sel5 (T.getD p 0) (T.getD (p + 1) 0) (T.getD (p + 2) 0) (T.getD (p + 3) 0) (T.getD (p + 4) 0) k
      = T.getD (p + k) 0 := by
  have : k = 0 ∨ k = 1 ∨ k = 2 ∨ k = 3 ∨ k = 4 := by omega
  rcases this with rfl | rfl | rfl | rfl | rfl <;> rfl

/-- every window is a window over five consecutive bytes -/
theorem werr_eq_W5 (T : List Byte) (j : Nat) (hj : 31 ≤ j) :
    werr T j = W5 (T.getD ((j - 31) / 8) 0) (T.getD ((j - 31) / 8 + 1) 0) (T.getD ((j - 31) / 8 + 2) 0)
      (T.getD ((j - 31) / 8 + 3) 0) (T.getD ((j - 31) / 8 + 4) 0) ((j - 31) % 8) := by
  unfold werr W5
  apply List.countP_congr
  intro i hi
  have hi : i < 32 := List.mem_range.mp hi
  have hk : ((j - 31) % 8 + i) / 8 ≤ 4 := by omega
  rw [sel5_getD T _ _ hk]
  have e1 : (j - 31 + i) / 8 = (j - 31) / 8 + ((j - 31) % 8 + i) / 8 := by omega
  have e2 : (j - 31 + i) % 8 = ((j - 31) % 8 + i) % 8 := by omega
  unfold frameBit
  rw [e1, e2]

/-! ### the frame's bytes -/

theorem frame_getD_lt (pl : List Byte) (q : Nat) (hq : q < 16) : (frameOf pl).getD q 0 = 0xAB := by
  unfold frameOf
  rw [List.getD_eq_getElem?_getD, List.getElem?_append_left (by simpa using hq), List.getElem?_replicate]
  simp [hq]

theorem frame_getD_ge (pl : List Byte) (q : Nat) (hq : 16 ≤ q) :
    (frameOf pl).getD q 0 = pl.getD (q - 16) 0 := by
  unfold frameOf
  rw [List.getD_eq_getElem?_getD, List.getElem?_append_right (by simpa using hq), List.getD_eq_getElem?_getD]
  simp

theorem frame_length (pl : List Byte) : (frameOf pl).length = 16 + pl.length := by
  unfold frameOf
  rw [List.length_append, List.length_replicate]

/-! ### evaluated facts -/

theorem all7 {P : Nat → Bool} (h : (List.range 7).all (fun r => P (r + 1)) = true) :
    ∀ ρ, 1 ≤ ρ → ρ ≤ 7 → P ρ = true := by
  intro ρ h1 h7
  have := List.all_eq_true.mp h (ρ - 1) (List.mem_range.mpr (by omega))
  rwa [show ρ - 1 + 1 = ρ by omega] at this

/-- minimum share of an allowed byte at position 3, by bit offset -/
def tbl3 : Nat → Nat
  | 2 => 1 | 4 => 2 | 6 => 1 | 7 => 1 | _ => 0

def fixedOK (a b c d e : Byte) : Bool := (List.range 7).all (fun r => decide (6 < W5 a b c d e (r + 1)))
def fixed4OK (a b c d : Byte) : Bool :=
  (List.range 7).all (fun r => decide (6 < part a (r + 1) 0 + part b (r + 1) 1 + part c (r + 1) 2 + part d (r + 1) 3))
def fixed3OK (a b c : Byte) : Bool :=
  (List.range 7).all (fun r => decide (6 < part a (r + 1) 0 + part b (r + 1) 1 + part c (r + 1) 2 + tbl3 (r + 1)))

theorem tbl3_le : ∀ x : Byte, isAllowed x = true → ∀ ρ, 1 ≤ ρ → ρ ≤ 7 → tbl3 ρ ≤ part x ρ 3 := by
  have := forall_byte
    (fun x => !isAllowed x || (List.range 7).all (fun r => decide (tbl3 (r + 1) ≤ part x (r + 1) 3)))
    (by decide +kernel)
  intro x hx ρ h1 h7
  have h := this x
  simp only [hx, Bool.not_true, Bool.false_or] at h
  have := all7 (P := fun ρ => decide (tbl3 ρ ≤ part x ρ 3)) h ρ h1 h7
  simpa using this

theorem preamble_windows :
    (List.range 8).map (fun ρ => W5 0xAB 0xAB 0xAB 0xAB 0xAB ρ) = [0, 24, 8, 24, 8, 24, 8, 24] := by
  decide +kernel

theorem preamble_aligned_any : ∀ x : Byte, W5 0xAB 0xAB 0xAB 0xAB x 0 = 0 := by
  have := forall_byte (fun x => W5 0xAB 0xAB 0xAB 0xAB x 0 == 0) (by decide +kernel)
  intro x
  simpa using this x

theorem fixedZ : fixedOK 0xAB 0xAB 0xAB 0xAB 90 = true ∧ fixedOK 0xAB 0xAB 0xAB 90 67 = true
    ∧ fixedOK 0xAB 0xAB 90 67 90 = true ∧ fixedOK 0xAB 90 67 90 67 = true
    ∧ fixedOK 90 67 90 67 45 = true ∧ fixed4OK 67 90 67 45 = true ∧ fixed3OK 90 67 45 = true := by
  decide +kernel

theorem fixedN : fixedOK 0xAB 0xAB 0xAB 0xAB 78 = true ∧ fixedOK 0xAB 0xAB 0xAB 78 78 = true
    ∧ fixedOK 0xAB 0xAB 78 78 78 = true ∧ fixedOK 0xAB 78 78 78 78 = true
    ∧ fixedOK 78 78 78 78 45 = true ∧ fixed4OK 78 78 78 45 = true ∧ fixed3OK 78 78 45 = true := by
  decide +kernel

theorem fixedOK_elim {a b c d e : Byte} (h : fixedOK a b c d e = true) (ρ : Nat) (h1 : 1 ≤ ρ) (h7 : ρ ≤ 7) :
    6 < W5 a b c d e ρ := by
  have := all7 (P := fun ρ => decide (6 < W5 a b c d e ρ)) h ρ h1 h7
  simpa using this

theorem fixed4OK_elim {a b c d : Byte} (h : fixed4OK a b c d = true) (e : Byte) (ρ : Nat) (h1 : 1 ≤ ρ) (h7 : ρ ≤ 7) :
    6 < W5 a b c d e ρ := by
  have := all7 (P := fun ρ => decide (6 < part a ρ 0 + part b ρ 1 + part c ρ 2 + part d ρ 3)) h ρ h1 h7
  have h' : 6 < part a ρ 0 + part b ρ 1 + part c ρ 2 + part d ρ 3 := by simpa using this
  rw [W5_eq_parts _ _ _ _ _ _ h7]
  omega

theorem fixed3OK_elim {a b c : Byte} (h : fixed3OK a b c = true) (d e : Byte) (hd : isAllowed d = true)
    (ρ : Nat) (h1 : 1 ≤ ρ) (h7 : ρ ≤ 7) : 6 < W5 a b c d e ρ := by
  have := all7 (P := fun ρ => decide (6 < part a ρ 0 + part b ρ 1 + part c ρ 2 + tbl3 ρ)) h ρ h1 h7
  have h' : 6 < part a ρ 0 + part b ρ 1 + part c ρ 2 + tbl3 ρ := by simpa using this
  have := tbl3_le d hd ρ h1 h7
  rw [W5_eq_parts _ _ _ _ _ _ h7]
  omega

theorem W5_preamble (ρ : Nat) (h : ρ < 8) :
    W5 0xAB 0xAB 0xAB 0xAB 0xAB ρ = if ρ = 0 then 0 else if ρ % 2 = 1 then 24 else 8 := by
  have hρ : ρ = 0 ∨ ρ = 1 ∨ ρ = 2 ∨ ρ = 3 ∨ ρ = 4 ∨ ρ = 5 ∨ ρ = 6 ∨ ρ = 7 := by omega
  rcases hρ with rfl | rfl | rfl | rfl | rfl | rfl | rfl | rfl <;> decide +kernel

/-- aligned all-preamble windows match the sync word exactly -/
theorem werr_preamble_aligned (pl : List Byte) (j : Nat) (h31 : 31 ≤ j) (h : j ≤ 127) (ha : j % 8 = 7) :
    werr (frameOf pl) j = 0 := by
  rw [werr_eq_W5 _ _ h31]
  have hρ : (j - 31) % 8 = 0 := by omega
  have hp : (j - 31) / 8 ≤ 12 := by omega
  rw [hρ, frame_getD_lt pl _ (by omega), frame_getD_lt pl _ (by omega), frame_getD_lt pl _ (by omega),
    frame_getD_lt pl _ (by omega)]
  exact preamble_aligned_any _

/-- misaligned all-preamble windows are 8 or 24 errors away -/
theorem werr_preamble_misaligned (pl : List Byte) (j : Nat) (h31 : 31 ≤ j) (h : j ≤ 126) (ha : j % 8 ≠ 7) :
    8 ≤ werr (frameOf pl) j := by
  rw [werr_eq_W5 _ _ h31]
  have hρ : (j - 31) % 8 ≠ 0 := by omega
  have hp : (j - 31) / 8 ≤ 11 := by omega
  rw [frame_getD_lt pl _ (by omega), frame_getD_lt pl _ (by omega), frame_getD_lt pl _ (by omega),
    frame_getD_lt pl _ (by omega), frame_getD_lt pl _ (by omega), W5_preamble _ (by omega), if_neg hρ]
  split <;> omega

theorem getD_of_take4 {pl : List Byte} {a b c d : Byte} (h : pl.take 4 = [a, b, c, d]) :
    pl.getD 0 0 = a ∧ pl.getD 1 0 = b ∧ pl.getD 2 0 = c ∧ pl.getD 3 0 = d := by
  have h0 := congrArg (fun l => l[0]?) h
  have h1 := congrArg (fun l => l[1]?) h
  have h2 := congrArg (fun l => l[2]?) h
  have h3 := congrArg (fun l => l[3]?) h
  simp at h0 h1 h2 h3
  simp [List.getD_eq_getElem?_getD, h0, h1, h2, h3]

theorem getD_mem_allowed {pl : List Byte} (hall : ∀ b ∈ pl, isAllowed b = true) (k : Nat) (hk : k < pl.length) :
    isAllowed (pl.getD k 0) = true := by
  rw [List.getD_eq_getElem?_getD, List.getElem?_eq_getElem hk]
  exact hall _ (List.getElem_mem hk)

/-- **no false resynchronisation**: every misaligned window that ends after the preamble and before the
    squelch can be locked (bit 183) is more than 6 errors away from the sync word -/
theorem werr_payload_misaligned (pl : List Byte) (hok : PayloadOk pl)
    (hdash : ∀ h : 4 < pl.length, pl[4] = 45) (j : Nat) (h128 : 128 ≤ j) (h182 : j ≤ 182)
    (hn : j < 8 * (frameOf pl).length) (ha : j % 8 ≠ 7) : 6 < werr (frameOf pl) j := by
  rw [werr_eq_W5 _ _ (by omega)]
  rw [frame_length] at hn
  have hρ1 : 1 ≤ (j - 31) % 8 := by omega
  have hρ7 : (j - 31) % 8 ≤ 7 := by omega
  generalize hρ : (j - 31) % 8 = ρ at hρ1 hρ7
  have hp : (j - 31) / 8 = 12 ∨ (j - 31) / 8 = 13 ∨ (j - 31) / 8 = 14 ∨ (j - 31) / 8 = 15
      ∨ (j - 31) / 8 = 16 ∨ (j - 31) / 8 = 17 ∨ (j - 31) / 8 = 18 := by omega
  have hlen : (j - 31) / 8 - 12 < pl.length := by omega
  have g4 : 4 < pl.length → pl.getD 4 0 = 45 := by
    intro h
    rw [List.getD_eq_getElem?_getD, List.getElem?_eq_getElem h]
    simp [hdash h]
  have ga := getD_mem_allowed hok.allowed
  rcases hok.starts with hs | hs
  · obtain ⟨g0, g1, g2, g3⟩ := getD_of_take4 hs
    obtain ⟨f12, f13, f14, f15, f16, f17, f18⟩ := fixedZ
    rcases hp with e | e | e | e | e | e | e <;> rw [e] at hlen ⊢
    · rw [frame_getD_lt pl _ (by omega), frame_getD_lt pl _ (by omega), frame_getD_lt pl _ (by omega),
        frame_getD_lt pl _ (by omega), frame_getD_ge pl _ (by omega), g0]
      exact fixedOK_elim f12 ρ hρ1 hρ7
    · rw [frame_getD_lt pl _ (by omega), frame_getD_lt pl _ (by omega), frame_getD_lt pl _ (by omega),
        frame_getD_ge pl _ (by omega), frame_getD_ge pl _ (by omega), g0, g1]
      exact fixedOK_elim f13 ρ hρ1 hρ7
    · rw [frame_getD_lt pl _ (by omega), frame_getD_lt pl _ (by omega), frame_getD_ge pl _ (by omega),
        frame_getD_ge pl _ (by omega), frame_getD_ge pl _ (by omega), g0, g1, g2]
      exact fixedOK_elim f14 ρ hρ1 hρ7
    · rw [frame_getD_lt pl _ (by omega), frame_getD_ge pl _ (by omega), frame_getD_ge pl _ (by omega),
        frame_getD_ge pl _ (by omega), frame_getD_ge pl _ (by omega), g0, g1, g2, g3]
      exact fixedOK_elim f15 ρ hρ1 hρ7
    · rw [frame_getD_ge pl _ (by omega), frame_getD_ge pl _ (by omega), frame_getD_ge pl _ (by omega),
        frame_getD_ge pl _ (by omega), frame_getD_ge pl _ (by omega), g0, g1, g2, g3, g4 (by omega)]
      exact fixedOK_elim f16 ρ hρ1 hρ7
    · rw [frame_getD_ge pl _ (by omega), frame_getD_ge pl _ (by omega), frame_getD_ge pl _ (by omega),
        frame_getD_ge pl _ (by omega), frame_getD_ge pl _ (by omega), g1, g2, g3, g4 (by omega)]
      exact fixed4OK_elim f17 _ ρ hρ1 hρ7
    · rw [frame_getD_ge pl _ (by omega), frame_getD_ge pl _ (by omega), frame_getD_ge pl _ (by omega),
        frame_getD_ge pl _ (by omega), frame_getD_ge pl _ (by omega), g2, g3, g4 (by omega)]
      exact fixed3OK_elim f18 _ _ (ga 5 (by omega)) ρ hρ1 hρ7
  · obtain ⟨g0, g1, g2, g3⟩ := getD_of_take4 hs
    obtain ⟨f12, f13, f14, f15, f16, f17, f18⟩ := fixedN
    rcases hp with e | e | e | e | e | e | e <;> rw [e] at hlen ⊢
    · rw [frame_getD_lt pl _ (by omega), frame_getD_lt pl _ (by omega), frame_getD_lt pl _ (by omega),
        frame_getD_lt pl _ (by omega), frame_getD_ge pl _ (by omega), g0]
      exact fixedOK_elim f12 ρ hρ1 hρ7
    · rw [frame_getD_lt pl _ (by omega), frame_getD_lt pl _ (by omega), frame_getD_lt pl _ (by omega),
        frame_getD_ge pl _ (by omega), frame_getD_ge pl _ (by omega), g0, g1]
      exact fixedOK_elim f13 ρ hρ1 hρ7
    · rw [frame_getD_lt pl _ (by omega), frame_getD_lt pl _ (by omega), frame_getD_ge pl _ (by omega),
        frame_getD_ge pl _ (by omega), frame_getD_ge pl _ (by omega), g0, g1, g2]
      exact fixedOK_elim f14 ρ hρ1 hρ7
    · rw [frame_getD_lt pl _ (by omega), frame_getD_ge pl _ (by omega), frame_getD_ge pl _ (by omega),
        frame_getD_ge pl _ (by omega), frame_getD_ge pl _ (by omega), g0, g1, g2, g3]
      exact fixedOK_elim f15 ρ hρ1 hρ7
    · rw [frame_getD_ge pl _ (by omega), frame_getD_ge pl _ (by omega), frame_getD_ge pl _ (by omega),
        frame_getD_ge pl _ (by omega), frame_getD_ge pl _ (by omega), g0, g1, g2, g3, g4 (by omega)]
      exact fixedOK_elim f16 ρ hρ1 hρ7
    · rw [frame_getD_ge pl _ (by omega), frame_getD_ge pl _ (by omega), frame_getD_ge pl _ (by omega),
        frame_getD_ge pl _ (by omega), frame_getD_ge pl _ (by omega), g1, g2, g3, g4 (by omega)]
      exact fixed4OK_elim f17 _ ρ hρ1 hρ7
    · rw [frame_getD_ge pl _ (by omega), frame_getD_ge pl _ (by omega), frame_getD_ge pl _ (by omega),
        frame_getD_ge pl _ (by omega), frame_getD_ge pl _ (by omega), g2, g3, g4 (by omega)]
      exact fixed3OK_elim f18 _ _ (ga 5 (by omega)) ρ hρ1 hρ7
end SameVerif
