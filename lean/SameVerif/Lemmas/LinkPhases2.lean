import SameVerif.Lemmas.LinkPre
/-
  The synchronised phases of one burst when the (last adjusting) sync hit comes at ANY byte-aligned
  body tick `8 q0 + 7`, `1 ≤ q0 ≤ 15` — possibly before the correlator window is all-correct
  (support for `Thm/C01t.lean`).  Generalises `phase_synced`, `synced_end`, `burst_body_tail` of
  `LinkPhases.lean` / `LinkBurst.lean`: the start state `s1` (at the first body tick) is arbitrary
  but warm; between the sync tick and `acq + 31` the absence of wrong-phase hits (`Ne`) and of
  carrier drops (`Hh`) is assumed, from `acq + 31` on it is derived as before.
-/
namespace SameVerif
open SameVerif.Spec

/-- running from `s` over `xs`, the power history does not drop the carrier at tick `t` -/
def HeadAt (c : LCfg) (s : LState) (xs : List Tick) (t : Nat) : Prop :=
  ∀ x, xs[t]? = some x → headOf (lrunState c s (xs.take t)) x.1 = true

section
variable {pl : List Byte} {body tail : List Tick} {acq rel : Nat}

/-- phase 3: from the first sync to the byte tick after the last payload byte, the byte clock ticks
    every 8 symbols without a resynchronisation, and the framer has been fed
    `0xAB × (19 - q0) ++ payload`; `d` counts the ticks after the sync tick `8 q0 + 7` -/
theorem phase_synced2 (H : BurstTracked pl body tail acq rel) (hok : PayloadOk pl)
    (hdash : ∀ h : 4 < pl.length, pl[4] = 45)
    (c : LCfg) (hE : c.maxErrors ≤ 6) (hF : PrefixFacts c.fc pl) (s1 : LState) (hw : 32 ≤ s1.nsym)
    (q0 : Nat) (h1 : 1 ≤ q0) (h15 : q0 ≤ 15)
    (Nl : ∀ t, body.length ≤ t → NoHitAt c s1 (body ++ tail) t)
    (Ne : ∀ t, 8 * q0 + 8 ≤ t → t < acq + 31 → t % 8 ≠ 7 → NoHitAt c s1 (body ++ tail) t)
    (Hh : ∀ t, 8 * q0 + 8 ≤ t → t < acq + 31 → HeadAt c s1 (body ++ tail) t)
    (hbase : (lrunState c s1 ((body ++ tail).take (8 * q0 + 7 + 1))).clock = some 1
      ∧ (lrunState c s1 ((body ++ tail).take (8 * q0 + 7 + 1))).lock = false
      ∧ (lrunState c s1 ((body ++ tail).take (8 * q0 + 7 + 1))).fr = .search 0xAB 1
      ∧ (lrunState c s1 ((body ++ tail).take (8 * q0 + 7 + 1))).train = 3
      ∧ lrunBursts c s1 ((body ++ tail).take (8 * q0 + 7 + 1)) = []) :
    ∀ d, 8 * q0 + 8 + d ≤ body.length + 31 →
      (lrunState c s1 ((body ++ tail).take (8 * q0 + 8 + d))).clock = some ((d % 8 + 1) % 8)
      ∧ (lrunState c s1 ((body ++ tail).take (8 * q0 + 8 + d))).train = 4 - (d / 8 + 1)
      ∧ (lrunState c s1 ((body ++ tail).take (8 * q0 + 8 + d))).fr = Fst (19 - q0) pl (d / 8 + 1)
      ∧ (lrunState c s1 ((body ++ tail).take (8 * q0 + 8 + d))).lock = decide (19 - q0 + 4 ≤ d / 8 + 1)
      ∧ lrunBursts c s1 ((body ++ tail).take (8 * q0 + 8 + d)) = [] := by
  have hlen := H.body_len
  have hfl := frame_length pl
  have hpl := payload_len_ge hok
  have htl := H.tail_len
  have hacq := H.acq_le
  intro d
  induction d with
  | zero =>
    intro _
    obtain ⟨b1, b2, b3, b4, b5⟩ := hbase
    refine ⟨b1, b4, ?_, ?_, b5⟩
    · rw [b3]; unfold Fst abw; rw [if_pos (by omega)]; simp
    · rw [b2]; simp
  | succ d ih =>
    intro hd
    obtain ⟨i1, i2, i3, i4, i5⟩ := ih (by omega)
    have htx : 8 * q0 + 8 + d < (body ++ tail).length := by rw [List.length_append]; omega
    have hns : 31 ≤ (lrunState c s1 ((body ++ tail).take (8 * q0 + 8 + d))).nsym := by
      rw [nsym_run]; omega
    have hhead : headOf (lrunState c s1 ((body ++ tail).take (8 * q0 + 8 + d)))
        ((body ++ tail)[8 * q0 + 8 + d]).1 = true := by
      by_cases hlate : acq + 31 ≤ 8 * q0 + 8 + d
      · exact head_true H c s1 (8 * q0 + 8 + d) hlate (by omega) htx
      · exact Hh _ (by omega) (by omega) _ (List.getElem?_eq_getElem htx)
    rw [show 8 * q0 + 8 + (d + 1) = 8 * q0 + 8 + d + 1 by omega,
      lrunState_take_succ c s1 _ _ htx, lrunBursts_take_succ c s1 _ _ htx]
    by_cases hbt : d % 8 = 7
    · -- byte tick
      have hc0 : (lrunState c s1 ((body ++ tail).take (8 * q0 + 8 + d))).clock = some 0 := by
        rw [i1, hbt]
      have hstep := lstep_byte c _ _ ((body ++ tail)[8 * q0 + 8 + d]).2 hns hc0 hhead
      simp only at hstep
      have hbyte : (if (lrunState c s1 ((body ++ tail).take (8 * q0 + 8 + d))).train > 0 then PREAMBLE_BYTE
          else ((body ++ tail)[8 * q0 + 8 + d]).2) = byteAt2 (19 - q0) pl (d / 8 + 1) := by
        rw [i2]
        by_cases htr : 4 - (d / 8 + 1) > 0
        · rw [if_pos htr]
          unfold byteAt2
          rw [if_pos (by omega)]
          decide
        · rw [if_neg htr]
          have e : 8 * q0 + 8 + d = 8 * (q0 + (d / 8 + 1)) + 7 := by omega
          simp only [e]
          rw [eq_byte H (q0 + (d / 8 + 1)) (by omega) (by omega) (by rw [← e]; exact htx)]
          unfold byteAt2
          by_cases hpre : d / 8 + 1 < 19 - q0
          · rw [if_pos hpre, frame_getD_lt pl _ (by omega)]
          · rw [if_neg hpre, frame_getD_ge pl _ (by omega)]
            congr 1
            omega
      rw [hbyte, i3, Fst_step2 c.fc (19 - q0) (by omega) (by omega) pl hok.allowed hok.fits hpl
        hF.b0 hF.b1 hF.b2 hF.b3 hF.b4 (d / 8 + 1) (by omega) (by omega)] at hstep
      obtain ⟨o1, o2, o3, o4, o5⟩ := hstep
      have em : (d + 1) / 8 + 1 = d / 8 + 1 + 1 := by omega
      have ec : ((d + 1) % 8 + 1) % 8 = 1 := by omega
      rw [o1, o2, o3, o4, o5, i4, i5, em, ec]
      by_cases hs : d / 8 + 1 + 1 < 19 - q0 + 4
      · simp only [if_pos hs]
        refine ⟨?_, ?_, ?_, ?_, ?_⟩ <;> first | trivial | rfl | omega | (simp; omega)
      · simp only [if_neg hs]
        refine ⟨?_, ?_, ?_, ?_, ?_⟩ <;> first | trivial | rfl | omega | (simp; omega)
    · -- ordinary tick
      have hk : (d % 8 + 1) % 8 = d % 8 + 1 := by omega
      have hno : NoHit c (lrunState c s1 ((body ++ tail).take (8 * q0 + 8 + d)))
          ((body ++ tail)[8 * q0 + 8 + d]).1 := by
        by_cases hl : 19 - q0 + 4 ≤ d / 8 + 1
        · left; rw [i4]; simpa using hl
        · by_cases hb : 8 * q0 + 8 + d < body.length
          · by_cases hearly : 8 * q0 + 8 + d < acq + 31
            · exact Ne _ (by omega) hearly (by omega) _ (List.getElem?_eq_getElem htx)
            refine Or.inr (Or.inr ?_)
            rw [err_body H c s1 _ (by omega) hb]
            by_cases hpre : 8 * q0 + 8 + d ≤ 126
            · have := werr_preamble_misaligned pl (8 * q0 + 8 + d) (by omega) hpre (by omega)
              omega
            · have := werr_payload_misaligned pl hok hdash (8 * q0 + 8 + d) (by omega) (by omega)
                (by omega) (by omega)
              omega
          · exact noHit_tail Nl _ (by omega) htx
      obtain ⟨o1, o2, o3, o4, o5⟩ := lstep_tick c _ _ ((body ++ tail)[8 * q0 + 8 + d]).2 (d % 8 + 1) hns
        (by rw [i1, hk]) (by omega) hno hhead
      have em : (d + 1) / 8 = d / 8 := by omega
      rw [o1, o2, o3, o4, o5, i2, i3, i4, i5, em]
      refine ⟨by congr 1; omega, rfl, rfl, rfl, ?_⟩
      cases (Fst (19 - q0) pl (d / 8 + 1)) <;> rfl


/-- state before the byte tick that follows the last payload byte (tail index 31), from the
    canonical state right after a sync hit at body tick `8 q0 + 7` -/
theorem synced_end2 (H : BurstTracked pl body tail acq rel) (hok : PayloadOk pl)
    (hdash : ∀ h : 4 < pl.length, pl[4] = 45)
    (c : LCfg) (hE : c.maxErrors ≤ 6) (hF : PrefixFacts c.fc pl) (s1 : LState) (hw : 32 ≤ s1.nsym)
    (q0 : Nat) (h1 : 1 ≤ q0) (h15 : q0 ≤ 15)
    (Nl : ∀ t, body.length ≤ t → NoHitAt c s1 (body ++ tail) t)
    (Ne : ∀ t, 8 * q0 + 8 ≤ t → t < acq + 31 → t % 8 ≠ 7 → NoHitAt c s1 (body ++ tail) t)
    (Hh : ∀ t, 8 * q0 + 8 ≤ t → t < acq + 31 → HeadAt c s1 (body ++ tail) t)
    (hbase : (lrunState c s1 ((body ++ tail).take (8 * q0 + 7 + 1))).clock = some 1
      ∧ (lrunState c s1 ((body ++ tail).take (8 * q0 + 7 + 1))).lock = false
      ∧ (lrunState c s1 ((body ++ tail).take (8 * q0 + 7 + 1))).fr = .search 0xAB 1
      ∧ (lrunState c s1 ((body ++ tail).take (8 * q0 + 7 + 1))).train = 3
      ∧ lrunBursts c s1 ((body ++ tail).take (8 * q0 + 7 + 1)) = []) :
    (lrunState c s1 ((body ++ tail).take (body.length + 31))).clock = some 0
      ∧ (lrunState c s1 ((body ++ tail).take (body.length + 31))).lock = true
      ∧ (lrunState c s1 ((body ++ tail).take (body.length + 31))).train = 0
      ∧ (lrunState c s1 ((body ++ tail).take (body.length + 31))).fr = .read pl 0
      ∧ lrunBursts c s1 ((body ++ tail).take (body.length + 31)) = [] := by
  have hlen := H.body_len
  have hfl := frame_length pl
  have hpl := payload_len_ge hok
  have htl := H.tail_len
  have hd : 8 * q0 + 8 + (body.length + 31 - (8 * q0 + 8)) = body.length + 31 := by omega
  have hsy := phase_synced2 H hok hdash c hE hF s1 hw q0 h1 h15 Nl Ne Hh hbase
    (body.length + 31 - (8 * q0 + 8)) (by omega)
  rw [hd] at hsy
  obtain ⟨y1, y2, y3, y4, y5⟩ := hsy
  have e1 : (body.length + 31 - (8 * q0 + 8)) % 8 = 7 := by omega
  have e2 : (body.length + 31 - (8 * q0 + 8)) / 8 + 1 = 19 - q0 + pl.length := by omega
  rw [e1] at y1
  rw [e2] at y2 y3 y4
  have hfr : Fst (19 - q0) pl (19 - q0 + pl.length) = .read pl 0 := by
    unfold Fst
    rw [if_neg (by omega), if_neg (by omega), if_neg (by omega), if_neg (by omega),
      show 19 - q0 + pl.length - (19 - q0) = pl.length by omega, List.take_length]
  refine ⟨y1, ?_, ?_, ?_, y5⟩
  · rw [y4]; simp; omega
  · rw [y2]; omega
  · rw [y3, hfr]

/-- `body ++ tail` from the canonical state after a sync hit at body tick `8 q0 + 7`: exactly one
    burst, `payload ++ g`; quiescent at the end -/
theorem burst_body_tail2 (H : BurstTracked pl body tail acq rel) (hok : PayloadOk pl)
    (hdash : ∀ h : 4 < pl.length, pl[4] = 45)
    (c : LCfg) (hE : c.maxErrors ≤ 6) (hF : PrefixFacts c.fc pl) (s1 : LState) (hw : 32 ≤ s1.nsym)
    (q0 : Nat) (h1 : 1 ≤ q0) (h15 : q0 ≤ 15)
    (Nl : ∀ t, body.length ≤ t → NoHitAt c s1 (body ++ tail) t)
    (Ne : ∀ t, 8 * q0 + 8 ≤ t → t < acq + 31 → t % 8 ≠ 7 → NoHitAt c s1 (body ++ tail) t)
    (Hh : ∀ t, 8 * q0 + 8 ≤ t → t < acq + 31 → HeadAt c s1 (body ++ tail) t)
    (hbase : (lrunState c s1 ((body ++ tail).take (8 * q0 + 7 + 1))).clock = some 1
      ∧ (lrunState c s1 ((body ++ tail).take (8 * q0 + 7 + 1))).lock = false
      ∧ (lrunState c s1 ((body ++ tail).take (8 * q0 + 7 + 1))).fr = .search 0xAB 1
      ∧ (lrunState c s1 ((body ++ tail).take (8 * q0 + 7 + 1))).train = 3
      ∧ lrunBursts c s1 ((body ++ tail).take (8 * q0 + 7 + 1)) = []) :
    ∃ g, lrunBursts c s1 (body ++ tail) = [pl ++ g] ∧ g.length ≤ (rel + 7) / 8
      ∧ Quiescent (lrunState c s1 (body ++ tail)) := by
  have htl := H.tail_len
  have hb := synced_end2 H hok hdash c hE hF s1 hw q0 h1 h15 Nl Ne Hh hbase
  have hg := phase_garbage H hok c s1 hw Nl hb (tail.length - 31) (by omega)
  unfold GarbageInv at hg
  have hall : body.length + (31 + (tail.length - 31)) = (body ++ tail).length := by
    rw [List.length_append]; omega
  rw [hall, List.take_length] at hg
  rcases hg with ⟨hk, _⟩ | ⟨g1, g2, g3, g, g4, g5⟩
  · omega
  · exact ⟨g, g4, g5, ⟨by rw [nsym_run]; omega, g1, g2, g3⟩⟩

end
end SameVerif
