import SameVerif.Lemmas.CombineFew
import SameVerif.Lemmas.DashFreeTail
/-
  `estimate_message` / `combine` on bursts `H ++ g_i` that share the canonical header `H` and
  differ only in what follows it.
-/
namespace SameVerif
open SameVerif.Spec

/-- the estimate over a stretch on which `n` bursts hold the same allowed bytes -/
def agreePart (n : Nat) (H : List Byte) : List EstByte := H.map (fun h => ⟨h, n, 0⟩)

theorem agreePart_length (n : Nat) (H : List Byte) : (agreePart n H).length = H.length := by
  simp [agreePart]

theorem agreePart_cons (n : Nat) (h : Byte) (hs : List Byte) :
    agreePart n (h :: hs) = ⟨h, n, 0⟩ :: agreePart n hs := rfl

theorem agreePart_bytes (n : Nat) (H : List Byte) : (agreePart n H).map (·.byte) = H := by
  induction H with
  | nil => rfl
  | cons h hs ih => simp [agreePart_cons, ih]

theorem disputes2_self (h : Byte) : disputes2 h h = 0 := by
  simp [disputes2]

theorem voteCorrect_same (h : Byte) : voteCorrect h h h = (h, 0) := by
  rw [voteCorrect_hhx, disputes2_self]

/-! ### the estimator over a common prefix -/

theorem estimateLoop_prefix3 (H : List Byte) : ∀ (g1 g2 g3 : List Byte) (cap : Nat),
    (∀ b ∈ H, isAllowed b = true) → H.length ≤ cap →
    estimateLoop cap [H ++ g1, H ++ g2, H ++ g3]
      = agreePart 3 H ++ estimateLoop (cap - H.length) [g1, g2, g3] := by
  induction H with
  | nil => intro g1 g2 g3 cap _ _; simp [agreePart]
  | cons h hs ih =>
    intro g1 g2 g3 cap hall hcap
    have hh : isAllowed h = true := hall h (by simp)
    have hall' : ∀ b ∈ hs, isAllowed b = true := fun b hb => hall b (by simp [hb])
    obtain ⟨cap', rfl⟩ : ∃ c, cap = c + 1 := ⟨cap - 1, by simp at hcap; omega⟩
    have hcap' : hs.length ≤ cap' := by simp at hcap; omega
    have hm : h &&& ~~~(0x80 : Byte) = h := allowed_mask h hh
    have hmsb : ((h &&& 0x80) != 0) = false := allowed_msb h hh
    have hsub : cap' + 1 - (h :: hs).length = cap' - hs.length := by simp
    have key : estimateLoop (cap' + 1) [h :: hs ++ g1, h :: hs ++ g2, h :: hs ++ g3]
        = ⟨h, 3, 0⟩ :: estimateLoop cap' [hs ++ g1, hs ++ g2, hs ++ g3] := by
      simp [estimateLoop, voteAt, List.filterMap, hm, hmsb, voteCorrect_same, hh]
    rw [hsub, key, ih g1 g2 g3 cap' hall' hcap', agreePart_cons]
    rfl

theorem estimateLoop_prefix2 (H : List Byte) : ∀ (g1 g2 : List Byte) (cap : Nat),
    (∀ b ∈ H, isAllowed b = true) → H.length ≤ cap →
    estimateLoop cap [H ++ g1, H ++ g2]
      = agreePart 2 H ++ estimateLoop (cap - H.length) [g1, g2] := by
  induction H with
  | nil => intro g1 g2 cap _ _; simp [agreePart]
  | cons h hs ih =>
    intro g1 g2 cap hall hcap
    have hh : isAllowed h = true := hall h (by simp)
    have hall' : ∀ b ∈ hs, isAllowed b = true := fun b hb => hall b (by simp [hb])
    obtain ⟨cap', rfl⟩ : ∃ c, cap = c + 1 := ⟨cap - 1, by simp at hcap; omega⟩
    have hcap' : hs.length ≤ cap' := by simp at hcap; omega
    have hm : h &&& ~~~(0x80 : Byte) = h := allowed_mask h hh
    have hmsb : ((h &&& 0x80) != 0) = false := allowed_msb h hh
    have hsub : cap' + 1 - (h :: hs).length = cap' - hs.length := by simp
    have key : estimateLoop (cap' + 1) [h :: hs ++ g1, h :: hs ++ g2]
        = ⟨h, 2, 0⟩ :: estimateLoop cap' [hs ++ g1, hs ++ g2] := by
      simp [estimateLoop, voteAt, List.filterMap, hm, hmsb, voteDetect_same, hh]
    rw [hsub, key, ih g1 g2 cap' hall' hcap', agreePart_cons]
    rfl

/-- every estimated byte is in the SAME character set -/
theorem estimateLoop_allowed : ∀ (cap : Nat) (bs : List (List Byte)),
    ∀ e ∈ estimateLoop cap bs, isAllowed e.byte = true := by
  intro cap
  induction cap with
  | zero => intro bs e he; simp [estimateLoop] at he
  | succ c ih =>
    intro bs e he
    simp only [estimateLoop] at he
    split at he
    · cases he
    · split at he
      · cases he
      · rename_i hnot
        rcases List.mem_cons.mp he with rfl | h
        · simpa using hnot
        · exact ih _ _ h

/-! ### every estimated byte is the vote over one column of the bursts -/

/-- the bytes (eighth bit cleared) that the bursts hold at position `j`, in burst order -/
def columnAt (gs : List (List Byte)) (j : Nat) : List Byte :=
  (gs.filterMap (fun g => g[j]?)).map mask7

theorem columnAt_zero (gs : List (List Byte)) :
    columnAt gs 0 = (gs.filterMap List.head?).map (fun b => b &&& ~~~(0x80 : Byte)) := by
  have hf : (fun g : List Byte => g[0]?) = List.head? := by
    funext g; cases g <;> rfl
  unfold columnAt
  rw [hf]
  rfl

theorem columnAt_tail (gs : List (List Byte)) (j : Nat) :
    columnAt (gs.map List.tail) j = columnAt gs (j + 1) := by
  have hf : ((fun g : List Byte => g[j]?) ∘ List.tail) = (fun g : List Byte => g[j + 1]?) := by
    funext g; cases g <;> simp
  unfold columnAt
  rw [List.filterMap_map, hf]

theorem estimateLoop_mem_vote : ∀ (cap : Nat) (gs : List (List Byte)) (e : EstByte),
    e ∈ estimateLoop cap gs →
    ∃ j v, voteAt (columnAt gs j) = some (e.byte, v) ∧ e.nbursts = (columnAt gs j).length := by
  intro cap
  induction cap with
  | zero => intro gs e he; simp [estimateLoop] at he
  | succ c ih =>
    intro gs e he
    simp only [estimateLoop] at he
    split at he
    · cases he
    · rename_i est nerr hv
      split at he
      · cases he
      · rcases List.mem_cons.mp he with rfl | h
        · refine ⟨0, nerr, ?_, ?_⟩
          · rw [columnAt_zero]; exact hv
          · rw [columnAt_zero]
        · obtain ⟨j, v, h1, h2⟩ := ih _ _ h
          rw [columnAt_tail] at h1 h2
          exact ⟨j + 1, v, h1, h2⟩

/-- the estimator never looks beyond its capacity -/
theorem estimateLoop_take : ∀ (cap : Nat) (gs : List (List Byte)),
    estimateLoop cap (gs.map (List.take cap)) = estimateLoop cap gs := by
  intro cap
  induction cap with
  | zero => intro gs; rfl
  | succ c ih =>
    intro gs
    have h1 : (gs.map (List.take (c + 1))).filterMap List.head? = gs.filterMap List.head? := by
      rw [List.filterMap_map]
      congr 1
      funext g
      cases g <;> rfl
    have h2 : (gs.map (List.take (c + 1))).map List.tail = (gs.map List.tail).map (List.take c) := by
      rw [List.map_map, List.map_map]
      congr 1
      funext g
      cases g <;> simp
    simp only [estimateLoop, h1, h2, ih]

/-- clipping a burst `H ++ g` to the buffer clips the tail -/
theorem take_header_tail (H g : List Byte) (n : Nat) (h : H.length ≤ n) :
    (H ++ g).take n = H ++ g.take (n - H.length) := by
  rw [List.take_append, List.take_of_length_le h]

/-! ### list plumbing -/

theorem take_length_takeWhile {α} (p : α → Bool) (l : List α) :
    l.take (l.takeWhile p).length = l.takeWhile p := by
  induction l with
  | nil => rfl
  | cons a l ih =>
    by_cases h : p a = true
    · simp [h, ih]
    · simp [h]

theorem mem_takeWhile_holds {α} (p : α → Bool) (l : List α) (a : α) (h : a ∈ l.takeWhile p) : p a = true := by
  induction l with
  | nil => simp at h
  | cons b l ih =>
    by_cases hb : p b = true
    · simp only [List.takeWhile_cons, hb, ↓reduceIte, List.mem_cons] at h
      rcases h with rfl | h
      · exact hb
      · exact ih h
    · simp [hb] at h

theorem takeWhile_append_all {α} (p : α → Bool) (l1 l2 : List α) (h1 : ∀ a ∈ l1, p a = true) :
    (l1 ++ l2).takeWhile p = l1 ++ l2.takeWhile p := by
  induction l1 with
  | nil => rfl
  | cons a l1 ih =>
    simp [h1 a (by simp)]
    exact ih (fun a ha => h1 a (by simp [ha]))

theorem takeWhile_map' {α β} (f : α → β) (p : β → Bool) (l : List α) :
    (l.map f).takeWhile p = (l.takeWhile (fun a => p (f a))).map f := by
  induction l with
  | nil => rfl
  | cons a l ih =>
    by_cases h : p (f a) = true
    · simp [h, ih]
    · simp [h]

/-- the part of an estimate that `combine` hands to the parser -/
theorem truncated_agree (n : Nat) (hn : 2 ≤ n) (H : List Byte) (tl : List EstByte) :
    ((agreePart n H ++ tl).map (·.byte)).take
        (truncLen ((agreePart n H ++ tl).map (·.nbursts)) 2)
      = H ++ (tl.takeWhile (fun e => !(e.nbursts < 2))).map (·.byte) := by
  have h1 : ((agreePart n H ++ tl).map (·.nbursts)).takeWhile (fun v => !(v < 2))
      = ((agreePart n H ++ tl).takeWhile (fun e => !(e.nbursts < 2))).map (·.nbursts) :=
    takeWhile_map' _ _ _
  have h2 : (agreePart n H ++ tl).takeWhile (fun e => !(e.nbursts < 2))
      = agreePart n H ++ tl.takeWhile (fun e => !(e.nbursts < 2)) := by
    apply takeWhile_append_all
    intro a ha
    simp only [agreePart, List.mem_map] at ha
    obtain ⟨b, _, rfl⟩ := ha
    simp; omega
  unfold truncLen
  rw [h1, List.length_map, ← List.map_take, take_length_takeWhile, h2, List.map_append, agreePart_bytes]

theorem agree_parity (n : Nat) (H : List Byte) (tl : List EstByte) :
    ((((agreePart n H ++ tl).map (·.errs)).zip H).map (·.1)).sum = 0 := by
  induction H with
  | nil => simp
  | cons h hs ih =>
    simp only [agreePart_cons, List.cons_append, List.map_cons, List.zip_cons_cons, List.sum_cons]
    rw [ih]

theorem agree_voting (n : Nat) (H : List Byte) (tl : List EstByte) :
    ((((agreePart n H ++ tl).map (·.nbursts)).zip H).filter (fun p => !(p.1 < 3))).length
      = if n < 3 then 0 else H.length := by
  induction H with
  | nil => simp
  | cons h hs ih =>
    simp only [agreePart_cons, List.cons_append, List.map_cons, List.zip_cons_cons, List.filter_cons]
    by_cases hn : n < 3
    · simp only [hn, decide_true, Bool.not_true, Bool.false_eq_true, ↓reduceIte] at ih ⊢
      exact ih
    · simp only [hn, decide_false, Bool.not_false, ↓reduceIte, List.length_cons] at ih ⊢
      rw [ih]

/-! ### the parser on `H ++ t` -/

theorem newWithErrorInfo_tail (H t : List Byte) (off : Nat) (errs counts : List Nat)
    (hascii : ∀ b ∈ H ++ t, b < 128) (hchk : checkHeader (H ++ t) = some (off, H.length)) :
    Header.newWithErrorInfo (H ++ t) errs counts
      = .ok ⟨H, off, ((errs.zip H).map (·.1)).sum, ((counts.zip H).filter (fun p => !(p.1 < 3))).length⟩ := by
  have hall : (H ++ t).all isAsciiByte = true := by
    rw [List.all_eq_true]
    intro b hb
    simpa [isAsciiByte] using hascii b hb
  simp [Header.newWithErrorInfo, Header.newWithErrors, Header.new, hall, hchk]

/-- **`combine` from the shape of the estimate.**  If the estimate is the header `H`, every byte
    backed by `n ≥ 2` bursts without error, followed by anything whose two-burst-backed leading part
    contains no `-`, the result is exactly `H`. -/
theorem combine_of_agree (maxLen : Nat) (bs : List (List Byte)) (H : List Byte) (off n : Nat)
    (tl : List EstByte) (hn : 2 ≤ n)
    (hest : estimateMessage maxLen bs = agreePart n H ++ tl)
    (hall : ∀ b ∈ H, isAllowed b = true)
    (hcan : checkHeader H = some (off, H.length))
    (htl : ∀ e ∈ tl, isAllowed e.byte = true)
    (hdash : ∀ e ∈ tl.takeWhile (fun e => !(e.nbursts < 2)), e.byte ≠ 45) :
    combine maxLen bs = some (.ok (.som ⟨H, off, 0, if n < 3 then 0 else H.length⟩)) := by
  have hne : H ≠ [] := ne_nil_of_checkHeader H _ hcan
  unfold combine
  rw [hest]
  have hempty : (agreePart n H ++ tl).isEmpty = false := by
    cases H with
    | nil => exact absurd rfl hne
    | cons a l => simp [agreePart_cons]
  simp only [hempty]
  rw [truncated_agree n hn H tl]
  generalize ht : (tl.takeWhile (fun e => !(e.nbursts < 2))).map (·.byte) = t
  have htmem : ∀ b ∈ t, isAllowed b = true ∧ b ≠ 45 := by
    intro b hb
    rw [← ht] at hb
    obtain ⟨e, he, rfl⟩ := List.mem_map.mp hb
    exact ⟨htl e ((List.takeWhile_sublist _).subset he), hdash e he⟩
  have hascii : ∀ b ∈ H ++ t, b < 128 := by
    intro b hb
    rcases List.mem_append.mp hb with hb | hb
    · exact allowed_lt_128 b (hall b hb)
    · exact allowed_lt_128 b (htmem b hb).1
  have hvalid : validUtf8 (H ++ t) = true := validUtf8_of_ascii _ hascii
  have hstart : startsWith (H ++ t) litZCZC = true := by
    obtain ⟨r, hr⟩ := (startsWith_iff H litZCZC).mp (startsWith_of_checkHeader H _ hcan)
    exact (startsWith_iff _ _).mpr ⟨r ++ t, by rw [hr, List.append_assoc]⟩
  have hchk := checkHeader_dashfree_tail H off t hcan (fun b hb => (htmem b hb).2)
  simp only [Msg.tryFromBytes, hvalid, hstart, newWithErrorInfo_tail H t off _ _ hascii hchk,
    agree_parity, agree_voting]
  simp

end SameVerif

namespace SameVerif.Asm

/-- a lone burst that begins with a header gives nothing at all, whatever follows the header -/
theorem combine_single_prefixed (maxLen : Nat) (H g : List Byte) (r : Nat × Nat)
    (hcan : checkHeader H = some r) : combine maxLen [H ++ g] = none := by
  rcases combine_single maxLen (H ++ g) with h | h
  · exact h
  · obtain ⟨x, xs, hb, hx⟩ := combine_single_eom maxLen (H ++ g) h
    obtain ⟨rest, hr⟩ := head_of_checkHeader H r hcan
    rw [hr] at hb
    cases hb
    exact absurd hx (by decide)

/-- no tails, no tail estimate -/
theorem estimateLoop_nils3 (cap : Nat) : estimateLoop cap [[], [], []] = [] := by
  cases cap <;> simp [estimateLoop, voteAt, List.filterMap]

theorem estimateLoop_nils2 (cap : Nat) : estimateLoop cap [[], []] = [] := by
  cases cap <;> simp [estimateLoop, voteAt, List.filterMap]

end SameVerif.Asm
