import SameVerif.Lemmas.AssemblerSeq
import SameVerif.Lemmas.CombineTails
import SameVerif.Lemmas.Estimate
/-
  Support for the WHOLE transmission (header ×3, then `NNNN` ×3) at the transport:
  * `combine` on the burst runs that occur: trailer bursts alone, trailer bursts voted with one
    remembered header burst, one trailer burst voted with two remembered header bursts
    (all with link-layer tails);
  * a small calculus of burst steps from a state in which nothing is held (`Calm`).
-/
namespace SameVerif
open SameVerif.Spec

/-! ### an estimate that begins `NN` is an EndOfMessage -/

theorem startsWith_nil_ZCZC : startsWith [] litZCZC = false := rfl

theorem startsWith_78_ZCZC (l : List Byte) : startsWith (78 :: l) litZCZC = false := by
  simp [startsWith, litZCZC, stripLit]

/-- whatever the parser makes of the well-backed part of an estimate that begins `NN`, the
    answer is EndOfMessage: either the parser says so, or the raw-prefix test does -/
theorem combine_eom_of_estimate (maxLen : Nat) (bs : List (List Byte)) (a b : EstByte)
    (rest : List EstByte) (hest : estimateMessage maxLen bs = a :: b :: rest)
    (ha : a.byte = 78) (hb : b.byte = 78) : combine maxLen bs = some (.ok .eom) := by
  unfold combine
  rw [hest]
  simp only [List.isEmpty_cons, Bool.false_eq_true, ↓reduceIte, List.map_cons, ha, hb]
  generalize truncLen (a.nbursts :: b.nbursts :: rest.map (·.nbursts)) 2 = k
  generalize a.errs :: b.errs :: rest.map (·.errs) = errs
  generalize a.nbursts :: b.nbursts :: rest.map (·.nbursts) = counts
  have hpre : prefixIsEom (78 :: 78 :: rest.map (·.byte)) = true := rfl
  have hzc : startsWith ((78 :: 78 :: rest.map (·.byte)).take k) litZCZC = false := by
    cases k with
    | zero => rfl
    | succ k => rw [List.take_succ_cons]; exact startsWith_78_ZCZC _
  have hcases : Msg.tryFromBytes ((78 :: 78 :: rest.map (·.byte)).take k) errs counts = .ok .eom
      ∨ ∃ e, Msg.tryFromBytes ((78 :: 78 :: rest.map (·.byte)).take k) errs counts = .error e := by
    unfold Msg.tryFromBytes
    rw [hzc]
    by_cases hv : validUtf8 ((78 :: 78 :: rest.map (·.byte)).take k) = true
    · by_cases hn : startsWith ((78 :: 78 :: rest.map (·.byte)).take k) litNN = true
      · left; simp [hv, hn]
      · right; exact ⟨.unrecognizedPrefix, by simp [hv, hn]⟩
    · right; exact ⟨.notAscii, by simp [hv]⟩
  rcases hcases with h | ⟨e, h⟩
  · rw [h]
  · rw [h]; simp only [hpre, ↓reduceIte]

/-! ### the first two columns of the trailer runs -/

theorem mask78 : (78 : Byte) &&& ~~~(0x80 : Byte) = 78 := by decide
theorem msb78 : (((78 : Byte) &&& 0x80) != 0) = false := by decide
theorem allowed78 : isAllowed 78 = true := by decide

theorem est_trailer1 (c : Nat) (r1 : List Byte) :
    ∃ a b rest, estimateLoop (c + 2) [78 :: 78 :: r1] = a :: b :: rest ∧ a.byte = 78 ∧ b.byte = 78 := by
  refine ⟨⟨78, 1, 0⟩, ⟨78, 1, 0⟩, estimateLoop c [r1], ?_, rfl, rfl⟩
  simp [estimateLoop, voteAt, List.filterMap, mask78, msb78, allowed78]

theorem est_trailer2 (c : Nat) (r1 r2 : List Byte) :
    ∃ a b rest, estimateLoop (c + 2) [78 :: 78 :: r1, 78 :: 78 :: r2] = a :: b :: rest
      ∧ a.byte = 78 ∧ b.byte = 78 := by
  refine ⟨⟨78, 2, 0⟩, ⟨78, 2, 0⟩, estimateLoop c [r1, r2], ?_, rfl, rfl⟩
  simp [estimateLoop, voteAt, List.filterMap, mask78, msb78, allowed78, voteDetect_same]

theorem est_trailer3 (c : Nat) (r1 r2 r3 : List Byte) :
    ∃ a b rest, estimateLoop (c + 2) [78 :: 78 :: r1, 78 :: 78 :: r2, 78 :: 78 :: r3] = a :: b :: rest
      ∧ a.byte = 78 ∧ b.byte = 78 := by
  refine ⟨⟨78, 3, 0⟩, ⟨78, 3, 0⟩, estimateLoop c [r1, r2, r3], ?_, rfl, rfl⟩
  simp [estimateLoop, voteAt, List.filterMap, mask78, msb78, allowed78, voteCorrect_same]

/-- one foreign burst (any two leading bytes) in front of two trailer bursts: outvoted -/
theorem est_foreign_trailer2 (c : Nat) (x0 x1 : Byte) (xr r1 r2 : List Byte) :
    ∃ a b rest, estimateLoop (c + 2) [x0 :: x1 :: xr, 78 :: 78 :: r1, 78 :: 78 :: r2] = a :: b :: rest
      ∧ a.byte = 78 ∧ b.byte = 78 := by
  refine ⟨⟨78, 3, disputes2 78 (x0 &&& ~~~(0x80 : Byte)) + (if ((x0 &&& 0x80) != 0) then 1 else 0)⟩,
    ⟨78, 3, disputes2 78 (x1 &&& ~~~(0x80 : Byte)) + (if ((x1 &&& 0x80) != 0) then 1 else 0)⟩,
    estimateLoop c [xr, r1, r2], ?_, rfl, rfl⟩
  simp [estimateLoop, voteAt, List.filterMap, mask78, msb78, allowed78, voteCorrect_xhh]

/-! ### two remembered header bursts (with tails) and one foreign burst -/

/-- over the length of `H` the two header bursts outvote the third burst byte for byte; what
    follows is the vote over the two tails and whatever the third burst has left -/
theorem estimateLoop_two_tails_third (H : List Byte) :
    ∀ (g2 g3 X : List Byte) (cap : Nat), (∀ b ∈ H, isAllowed b = true) → H.length ≤ cap →
      estimateLoop cap [H ++ g2, H ++ g3, X]
        = zipPart H X ++ estimateLoop (cap - H.length) [g2, g3, X.drop H.length] := by
  induction H with
  | nil => intro g2 g3 X cap _ _; simp [zipPart]
  | cons h hs ih =>
    intro g2 g3 X cap hall hcap
    have hh : isAllowed h = true := hall h (by simp)
    have hall' : ∀ b ∈ hs, isAllowed b = true := fun b hb => hall b (by simp [hb])
    obtain ⟨cap', rfl⟩ : ∃ c, cap = c + 1 := ⟨cap - 1, by simp at hcap; omega⟩
    have hcap' : hs.length ≤ cap' := by simp at hcap; omega
    have hm : h &&& ~~~(0x80 : Byte) = h := allowed_mask h hh
    have hmsb : ((h &&& 0x80) != 0) = false := allowed_msb h hh
    have hsub : cap' + 1 - (h :: hs).length = cap' - hs.length := by simp
    rw [hsub]
    cases X with
    | nil =>
      have key : estimateLoop (cap' + 1) [h :: hs ++ g2, h :: hs ++ g3, []]
          = ⟨h, 2, 0⟩ :: estimateLoop cap' [hs ++ g2, hs ++ g3, []] := by
        simp [estimateLoop, voteAt, List.filterMap, hm, hmsb, voteDetect_same, hh]
      rw [key, ih g2 g3 [] cap' hall' hcap']
      simp [zipPart]
    | cons x xs =>
      have key : estimateLoop (cap' + 1) [h :: hs ++ g2, h :: hs ++ g3, x :: xs]
          = ⟨h, 3, perByteErr h x⟩ :: estimateLoop cap' [hs ++ g2, hs ++ g3, xs] := by
        simp [estimateLoop, voteAt, List.filterMap, hm, hmsb, voteCorrect_hhx, hh, perByteErr, mask7]
      rw [key, ih g2 g3 xs cap' hall' hcap']
      simp [zipPart]

/-- the part of such an estimate that `combine` hands to the parser -/
theorem truncated_zip (H X : List Byte) (tl : List EstByte) :
    ((zipPart H X ++ tl).map (·.byte)).take (truncLen ((zipPart H X ++ tl).map (·.nbursts)) 2)
      = H ++ (tl.takeWhile (fun e => !(e.nbursts < 2))).map (·.byte) := by
  have h1 : ((zipPart H X ++ tl).map (·.nbursts)).takeWhile (fun v => !(v < 2))
      = ((zipPart H X ++ tl).takeWhile (fun e => !(e.nbursts < 2))).map (·.nbursts) :=
    takeWhile_map' _ _ _
  have h2 : (zipPart H X ++ tl).takeWhile (fun e => !(e.nbursts < 2))
      = zipPart H X ++ tl.takeWhile (fun e => !(e.nbursts < 2)) := by
    apply takeWhile_append_all
    intro a ha
    have := zipPart_counts_ge H X a ha
    simp; omega
  unfold truncLen
  rw [h1, List.length_map, ← List.map_take, take_length_takeWhile, h2, List.map_append, zipPart_bytes]

/-- **Two header bursts with tails and a third burst of anything.**  If the voted continuation
    (tails of the two header bursts and what the third burst has beyond `|H|`) holds no `-` where
    two or more bursts back it, `combine` returns a header whose text is exactly `H`. -/
theorem combine_two_tails_third (maxLen : Nat) (H g2 g3 X : List Byte) (off : Nat)
    (hall : ∀ b ∈ H, isAllowed b = true)
    (hcan : checkHeader H = some (off, H.length))
    (hfit : H.length ≤ maxLen)
    (hdash : ∀ e ∈ estimateLoop (maxLen - H.length) [g2, g3, X.drop H.length],
      2 ≤ e.nbursts → e.byte ≠ 45) :
    ∃ p v, combine maxLen [H ++ g2, H ++ g3, X] = some (.ok (.som ⟨H, off, p, v⟩)) := by
  have hne : H ≠ [] := ne_nil_of_checkHeader H _ hcan
  have hest : estimateMessage maxLen [H ++ g2, H ++ g3, X]
      = zipPart H X ++ estimateLoop (maxLen - H.length) [g2, g3, X.drop H.length] := by
    unfold estimateMessage
    exact estimateLoop_two_tails_third H g2 g3 X maxLen hall hfit
  generalize htl : estimateLoop (maxLen - H.length) [g2, g3, X.drop H.length] = tl at hest hdash
  have htlA : ∀ e ∈ tl, isAllowed e.byte = true := by
    intro e he; rw [← htl] at he; exact estimateLoop_allowed _ _ e he
  unfold combine
  rw [hest]
  have hempty : (zipPart H X ++ tl).isEmpty = false := by
    cases hz : zipPart H X with
    | nil =>
      have := zipPart_length H X
      rw [hz] at this
      exact absurd (List.length_eq_zero_iff.mp this.symm) hne
    | cons a l => simp
  simp only [hempty]
  rw [truncated_zip H X tl]
  generalize ht : (tl.takeWhile (fun e => !(e.nbursts < 2))).map (·.byte) = t
  have htmem : ∀ b ∈ t, isAllowed b = true ∧ b ≠ 45 := by
    intro b hb
    rw [← ht] at hb
    obtain ⟨e, he, rfl⟩ := List.mem_map.mp hb
    have hp := mem_takeWhile_holds _ _ e he
    refine ⟨htlA e ((List.takeWhile_sublist _).subset he),
      hdash e ((List.takeWhile_sublist _).subset he) ?_⟩
    simp at hp; omega
  have hascii : ∀ b ∈ H ++ t, b < 128 := by
    intro b hb
    rcases List.mem_append.mp hb with hb | hb
    · exact allowed_lt_128 b (hall b hb)
    · exact allowed_lt_128 b (htmem b hb).1
  have hvalid : validUtf8 (H ++ t) = true := validUtf8_of_ascii _ hascii
  have hstart : startsWith (H ++ t) litZCZC = true := by
    obtain ⟨r, hr⟩ := (startsWith_iff H litZCZC).mp (startsWith_of_checkHeader H _ hcan)
    exact (startsWith_iff _ _).mpr ⟨r ++ t, by rw [hr, List.append_assoc]⟩
  have hchk := checkHeader_dashfree_tail H off t hcan (fun b hb => (htmem b hb).2)
  refine ⟨((((zipPart H X ++ tl).map (·.errs)).zip H).map (·.1)).sum,
    ((((zipPart H X ++ tl).map (·.nbursts)).zip H).filter (fun p => !(p.1 < 3))).length, ?_⟩
  simp only [Msg.tryFromBytes, hvalid, hstart, newWithErrorInfo_tail H t off _ _ hascii hchk]
  rfl

/-! ### one header burst and one trailer burst: nothing -/

theorem combine_header_trailer (maxLen : Nat) (a b : List Byte) :
    combine maxLen [90 :: a, 78 :: b] = none := by
  have hest : estimateMessage maxLen [90 :: a, 78 :: b] = [] := by
    unfold estimateMessage
    cases maxLen with
    | zero => rfl
    | succ c =>
      have h1 : voteDetect ((90 : Byte) &&& ~~~(0x80 : Byte)) ((78 : Byte) &&& ~~~(0x80 : Byte)) = (0, 2) := by
        decide
      simp [estimateLoop, voteAt, List.filterMap, h1]
      decide
  unfold combine
  rw [hest]
  rfl

/-- an exhausted burst at the end contributes to no vote -/
theorem estimateLoop_pair_nil (cap : Nat) : ∀ a b : List Byte,
    estimateLoop cap [a, b, []] = estimateLoop cap [a, b] := by
  induction cap with
  | zero => intro a b; rfl
  | succ c ih =>
    intro a b
    have h1 : [a, b, []].filterMap List.head? = [a, b].filterMap List.head? := by
      cases a <;> cases b <;> rfl
    have h2 : [a, b, []].map List.tail = [a.tail, b.tail, []] := rfl
    have h3 : [a, b].map List.tail = [a.tail, b.tail] := rfl
    simp only [estimateLoop, h1, h2, h3, ih]

end SameVerif

namespace SameVerif.Asm

/-! ### burst steps from a state in which nothing is held -/

/-- Nothing is held; the previous-report slot is `p`; at most two bursts are stored and, at any
    time from `T` on, they prune like `h0`.  (`LeftBy` without the commitment to a report.) -/
structure Calm (S : AState) (p : Option (Timed Msg)) (h0 : List (Timed (List Byte))) (T : Nat) : Prop where
  pending : S.pending = none
  previous : S.previous = p
  hlen : S.history.length ≤ 2
  hist : ∀ now, T ≤ now → pruneHistory S.history now = pruneHistory h0 now

theorem LeftBy.calm {S : AState} {m : Msg} {d T : Nat} {h0 : List (Timed (List Byte))}
    (h : LeftBy S m d h0 T) : Calm S (some ⟨m, d⟩) h0 T :=
  ⟨h.pending, h.previous, h.hlen, h.hist⟩

theorem Calm.mono {S : AState} {p : Option (Timed Msg)} {h0 : List (Timed (List Byte))} {T T' : Nat}
    (h : Calm S p h0 T) (hT : T ≤ T') : Calm S p h0 T' :=
  ⟨h.pending, h.previous, h.hlen, fun now hn => h.hist now (by omega)⟩

/-- polls (at times `≤ T`) while nothing is held -/
theorem calm_polls (polls : List Nat) (S : AState) (p : Option (Timed Msg))
    (h0 : List (Timed (List Byte))) (T : Nat) (hs : Calm S p h0 T) (hT : ∀ u ∈ polls, u ≤ T) :
    (runOps S (polls.map .poll)).2 = [] ∧ Calm (runOps S (polls.map .poll)).1 p h0 T := by
  obtain ⟨h1, h2, h3⟩ := run_polls_quiet polls S hs.pending
  refine ⟨h1, h2, by rw [h3, hs.previous], (run_polls_prune polls T S hs.hlen hT).2, ?_⟩
  intro now hnow
  rw [(run_polls_prune polls now S hs.hlen (fun v hv => Nat.le_trans (hT v hv) hnow)).1]
  exact hs.hist now hnow

/-- the history the estimate is taken over when a burst meets a calm state -/
def calmHist (h0 : List (Timed (List Byte))) (b : List Byte) (now : Nat) : List (Timed (List Byte)) :=
  pruneHistory h0 now ++ [⟨b.take MAXLEN, now + HIST⟩]

theorem calm_estimate (S : AState) (p : Option (Timed Msg)) (h0 : List (Timed (List Byte))) (T : Nat)
    (hs : Calm S p h0 T) (b : List Byte) (now : Nat) (hT : T ≤ now) :
    historyAfter S b now = calmHist h0 b now
      ∧ estimateOf S b now
        = dedup (prunePrevious p now) (combine MAXLEN ((calmHist h0 b now).map (·.data))) := by
  have h1 : historyAfter S b now = calmHist h0 b now := by
    unfold historyAfter calmHist
    rw [hs.hist now hT]
  refine ⟨h1, ?_⟩
  unfold estimateOf
  rw [h1, hs.previous]

/-- a burst whose (filtered) estimate is nothing: stored, nothing output, still calm -/
theorem calm_burst_none (S : AState) (p : Option (Timed Msg)) (h0 : List (Timed (List Byte))) (T : Nat)
    (hs : Calm S p h0 T) (b : List Byte) (now : Nat) (hne : b.isEmpty = false) (hT : T ≤ now)
    (hest : dedup (prunePrevious p now) (combine MAXLEN ((calmHist h0 b now).map (·.data))) = none) :
    (∀ r, (stepOp S (.burst b now)).2 ≠ .message r)
      ∧ Calm (stepOp S (.burst b now)).1 (prunePrevious p now)
          (pruneHistory (calmHist h0 b now) now) now := by
  obtain ⟨h1, h2⟩ := calm_estimate S p h0 T hs b now hT
  have hpa : pendingAfter S b now = none := by
    unfold pendingAfter; rw [h2, hest]; exact hs.pending
  obtain ⟨hst, hq⟩ := step_burst_none S b now hne hpa
  refine ⟨hq, ?_⟩
  rw [hst, h1, hs.previous]
  exact ⟨rfl, rfl, pruneHistory_length_le _ _, fun _ _ => rfl⟩

/-- a burst whose (filtered) estimate is EndOfMessage: output by the same call, remembered -/
theorem calm_burst_eom (S : AState) (p : Option (Timed Msg)) (h0 : List (Timed (List Byte))) (T : Nat)
    (hs : Calm S p h0 T) (b : List Byte) (now : Nat) (hne : b.isEmpty = false) (hT : T ≤ now)
    (hest : dedup (prunePrevious p now) (combine MAXLEN ((calmHist h0 b now).map (·.data)))
      = some (.ok .eom)) :
    (stepOp S (.burst b now)).2 = .message (.ok .eom)
      ∧ Calm (stepOp S (.burst b now)).1 (some ⟨.eom, now + HIST⟩)
          (pruneHistory (calmHist h0 b now) now) now := by
  obtain ⟨h1, h2⟩ := calm_estimate S p h0 T hs b now hT
  have hpa : pendingAfter S b now = some ⟨.ok .eom, now⟩ := by
    unfold pendingAfter; rw [h2, hest, hs.pending]; rfl
  have hst := step_burst_due S b now ⟨.ok .eom, now⟩ .eom hne hpa rfl (Nat.le_refl _)
  rw [hst, h1]
  exact ⟨rfl, rfl, rfl, pruneHistory_length_le _ _, fun _ _ => rfl⟩

/-! ### trailer bursts -/

/-- a trailer burst with its link-layer tail, as stored -/
theorem trailer_take (e : List Byte) :
    (litNNNN ++ e).take MAXLEN = 78 :: 78 :: 78 :: 78 :: e.take (MAXLEN - 4) := by
  rw [take_header_tail litNNNN e MAXLEN (by decide)]
  rfl

theorem trailer_nonempty (e : List Byte) : (litNNNN ++ e).isEmpty = false := rfl

theorem combine_trailers1 (r1 : List Byte) :
    combine MAXLEN [78 :: 78 :: r1] = some (.ok .eom) := by
  obtain ⟨a, b, rest, h, ha, hb⟩ := est_trailer1 266 r1
  exact combine_eom_of_estimate MAXLEN _ a b rest h ha hb

theorem combine_trailers2 (r1 r2 : List Byte) :
    combine MAXLEN [78 :: 78 :: r1, 78 :: 78 :: r2] = some (.ok .eom) := by
  obtain ⟨a, b, rest, h, ha, hb⟩ := est_trailer2 266 r1 r2
  exact combine_eom_of_estimate MAXLEN _ a b rest h ha hb

theorem combine_trailers3 (r1 r2 r3 : List Byte) :
    combine MAXLEN [78 :: 78 :: r1, 78 :: 78 :: r2, 78 :: 78 :: r3] = some (.ok .eom) := by
  obtain ⟨a, b, rest, h, ha, hb⟩ := est_trailer3 266 r1 r2 r3
  exact combine_eom_of_estimate MAXLEN _ a b rest h ha hb

theorem combine_foreign_trailers2 (x0 x1 : Byte) (xr r1 r2 : List Byte) :
    combine MAXLEN [x0 :: x1 :: xr, 78 :: 78 :: r1, 78 :: 78 :: r2] = some (.ok .eom) := by
  obtain ⟨a, b, rest, h, ha, hb⟩ := est_foreign_trailer2 266 x0 x1 xr r1 r2
  exact combine_eom_of_estimate MAXLEN _ a b rest h ha hb

theorem dedup_eom_dup (d now : Nat) (h : now < d) :
    dedup (prunePrevious (some ⟨.eom, d⟩) now) (some (.ok .eom)) = none := by
  have : ¬ (d ≤ now) := by omega
  simp [prunePrevious, Timed.expiredAt, this, dedup]

theorem dedup_eom_pass (p : Option (Timed Msg)) (now : Nat)
    (hp : ∀ q, p = some q → q.data.text ≠ litNNNN) :
    dedup (prunePrevious p now) (some (.ok .eom)) = some (.ok .eom) := by
  apply dedup_pass
  intro q hq
  rcases prunePrevious_cases p now with ⟨hn, _⟩ | ⟨hk, _⟩
  · rw [hn] at hq; cases hq
  · rw [hk] at hq; exact hp q hq

/-- **The last trailer burst is a duplicate.**  Two trailer bursts stored, the EndOfMessage
    remembered until `d`; a third trailer burst at `n3` (before `d` and before the first stored
    burst expires), any polls before (at times `≤ n3`) and after: nothing is output. -/
theorem trailer_third_dup (S : AState) (r1 r2 : List Byte) (e3 : List Byte) (d1 d2 d T n3 : Nat)
    (q2 q3 : List Nat)
    (hs : Calm S (some ⟨.eom, d⟩) [⟨78 :: 78 :: r1, d1⟩, ⟨78 :: 78 :: r2, d2⟩] T) (hT : T ≤ n3)
    (h1 : n3 < d1) (h2 : n3 < d2) (hd : n3 < d) (hq2 : ∀ u ∈ q2, u ≤ n3) :
    (runOps S (q2.map .poll ++ .burst (litNNNN ++ e3) n3 :: q3.map .poll)).2 = [] := by
  obtain ⟨ho1, hc1⟩ := calm_polls q2 S _ _ n3 (hs.mono hT) hq2
  have hest : dedup (prunePrevious (some ⟨.eom, d⟩) n3)
      (combine MAXLEN ((calmHist [⟨78 :: 78 :: r1, d1⟩, ⟨78 :: 78 :: r2, d2⟩] (litNNNN ++ e3) n3).map
        (·.data))) = none := by
    unfold calmHist
    rw [prune_two_fresh _ _ n3 h1 h2, trailer_take]
    simp only [List.cons_append, List.nil_append, List.map_cons, List.map_nil]
    rw [combine_trailers3]
    exact dedup_eom_dup d n3 hd
  obtain ⟨hq, hc2⟩ := calm_burst_none _ _ _ n3 hc1 (litNNNN ++ e3) n3 (trailer_nonempty e3)
    (Nat.le_refl _) hest
  obtain ⟨ho3, _, _⟩ := run_polls_quiet q3 _ hc2.pending
  rw [runOps_append_snd, ho1, List.nil_append, runOps_cons_snd, outOf_quiet _ _ hq, ho3]
  rfl

/-- **Trailer, late EndOfMessage.**  One foreign burst `A3` (first byte `Z`) still stored together
    with the first trailer burst (at `n1`), nothing held, the previous report (if any) not a
    trailer.  The second trailer burst at `n2` is voted with what is still alive — `A3` and the first
    trailer burst, or the first trailer burst alone — and outputs EndOfMessage in that very call;
    the third trailer burst is a duplicate. -/
theorem trailer_late (S : AState) (a3 r1 e2 e3 : List Byte) (x1 : Byte) (d3 n1 n2 n3 : Nat)
    (p : Option (Timed Msg)) (q1 q2 q3 : List Nat)
    (hs : Calm S p [⟨90 :: x1 :: a3, d3⟩, ⟨78 :: 78 :: r1, n1 + HIST⟩] n1)
    (hp : ∀ q, p = some q → q.data.text ≠ litNNNN)
    (h12 : n1 ≤ n2) (h23 : n2 ≤ n3) (h31 : n3 < n1 + HIST)
    (hq1 : ∀ u ∈ q1, u ≤ n2) (hq2 : ∀ u ∈ q2, u ≤ n3) :
    (runOps S (q1.map .poll ++ .burst (litNNNN ++ e2) n2 ::
        (q2.map .poll ++ .burst (litNNNN ++ e3) n3 :: q3.map .poll))).2 = [(n2, .ok .eom)] := by
  have hH := HIST_pos
  obtain ⟨ho1, hc1⟩ := calm_polls q1 S _ _ n2 (hs.mono h12) hq1
  have key : combine MAXLEN ((calmHist [⟨90 :: x1 :: a3, d3⟩, ⟨78 :: 78 :: r1, n1 + HIST⟩]
        (litNNNN ++ e2) n2).map (·.data)) = some (.ok .eom)
      ∧ pruneHistory (calmHist [⟨90 :: x1 :: a3, d3⟩, ⟨78 :: 78 :: r1, n1 + HIST⟩] (litNNNN ++ e2) n2) n2
        = [⟨78 :: 78 :: r1, n1 + HIST⟩, ⟨78 :: 78 :: 78 :: 78 :: e2.take (MAXLEN - 4), n2 + HIST⟩] := by
    unfold calmHist
    rw [trailer_take]
    by_cases hl : n2 < d3
    · rw [prune_two_fresh _ _ n2 (by simp only; omega) (by simp only; omega)]
      simp only [List.cons_append, List.nil_append, List.map_cons, List.map_nil]
      exact ⟨combine_foreign_trailers2 _ _ _ _ _,
        prune_three_fresh _ _ _ n2 (by simp only; omega) (by simp only; omega) (by simp only; omega)⟩
    · rw [prune_two_second _ _ n2 (by simp only; omega) (by simp only; omega)]
      simp only [List.cons_append, List.nil_append, List.map_cons, List.map_nil]
      exact ⟨combine_trailers2 _ _,
        prune_two_fresh _ _ n2 (by simp only; omega) (by simp only; omega)⟩
  have hest : dedup (prunePrevious p n2) (combine MAXLEN ((calmHist
      [⟨90 :: x1 :: a3, d3⟩, ⟨78 :: 78 :: r1, n1 + HIST⟩] (litNNNN ++ e2) n2).map (·.data)))
      = some (.ok .eom) := by
    rw [key.1]; exact dedup_eom_pass p n2 hp
  obtain ⟨hout, hc2⟩ := calm_burst_eom _ _ _ n2 hc1 (litNNNN ++ e2) n2 (trailer_nonempty e2)
    (Nat.le_refl _) hest
  rw [key.2] at hc2
  have h3 := trailer_third_dup _ r1 (78 :: 78 :: e2.take (MAXLEN - 4)) e3 (n1 + HIST) (n2 + HIST)
    (n2 + HIST) n2 n3 q2 q3 hc2 h23 h31 (by omega) (by omega) hq2
  rw [runOps_append_snd, ho1, List.nil_append, runOps_cons_snd, hout, h3]
  rfl

/-- **Trailer, fast EndOfMessage.**  Nothing alive in the history when the first trailer burst
    arrives at `n1`: it is output as EndOfMessage by that very call; the second and third trailer
    bursts are duplicates. -/
theorem trailer_fast (S : AState) (e1 e2 e3 : List Byte) (h0 : List (Timed (List Byte))) (T n1 n2 n3 : Nat)
    (p : Option (Timed Msg)) (q1 q2 q3 : List Nat)
    (hs : Calm S p h0 T) (hT : T ≤ n1) (hx : ∀ e ∈ h0, e.deadline ≤ n1)
    (hp : ∀ q, p = some q → q.data.text ≠ litNNNN)
    (h12 : n1 ≤ n2) (h23 : n2 ≤ n3) (h31 : n3 < n1 + HIST)
    (hq1 : ∀ u ∈ q1, u ≤ n2) (hq2 : ∀ u ∈ q2, u ≤ n3) :
    (runOps S (.burst (litNNNN ++ e1) n1 :: (q1.map .poll ++ .burst (litNNNN ++ e2) n2 ::
        (q2.map .poll ++ .burst (litNNNN ++ e3) n3 :: q3.map .poll)))).2 = [(n1, .ok .eom)] := by
  have hH := HIST_pos
  -- first burst
  have hch1 : calmHist h0 (litNNNN ++ e1) n1
      = [⟨78 :: 78 :: 78 :: 78 :: e1.take (MAXLEN - 4), n1 + HIST⟩] := by
    unfold calmHist
    rw [pruneHistory_expired h0 n1 hx, trailer_take]
    rfl
  have hest1 : dedup (prunePrevious p n1) (combine MAXLEN ((calmHist h0 (litNNNN ++ e1) n1).map (·.data)))
      = some (.ok .eom) := by
    rw [hch1]
    simp only [List.map_cons, List.map_nil]
    rw [combine_trailers1]
    exact dedup_eom_pass p n1 hp
  obtain ⟨hout1, hc1⟩ := calm_burst_eom S p h0 T hs (litNNNN ++ e1) n1 (trailer_nonempty e1) hT hest1
  rw [hch1, prune_one_fresh _ n1 (by simp only; omega)] at hc1
  -- polls, second burst
  obtain ⟨ho1, hc1'⟩ := calm_polls q1 _ _ _ n2 (hc1.mono h12) hq1
  have hch2 : calmHist [⟨78 :: 78 :: 78 :: 78 :: e1.take (MAXLEN - 4), n1 + HIST⟩] (litNNNN ++ e2) n2
      = [⟨78 :: 78 :: 78 :: 78 :: e1.take (MAXLEN - 4), n1 + HIST⟩,
         ⟨78 :: 78 :: 78 :: 78 :: e2.take (MAXLEN - 4), n2 + HIST⟩] := by
    unfold calmHist
    rw [prune_one_fresh _ n2 (by simp only; omega), trailer_take]
    rfl
  have hest2 : dedup (prunePrevious (some ⟨.eom, n1 + HIST⟩) n2)
      (combine MAXLEN ((calmHist [⟨78 :: 78 :: 78 :: 78 :: e1.take (MAXLEN - 4), n1 + HIST⟩]
        (litNNNN ++ e2) n2).map (·.data))) = none := by
    rw [hch2]
    simp only [List.map_cons, List.map_nil]
    rw [combine_trailers2]
    exact dedup_eom_dup _ _ (by omega)
  obtain ⟨hq2', hc2⟩ := calm_burst_none _ _ _ n2 hc1' (litNNNN ++ e2) n2 (trailer_nonempty e2)
    (Nat.le_refl _) hest2
  have hpp : prunePrevious (some (⟨.eom, n1 + HIST⟩ : Timed Msg)) n2 = some ⟨.eom, n1 + HIST⟩ := by
    have : ¬ (n1 + HIST ≤ n2) := by omega
    simp [prunePrevious, Timed.expiredAt, this]
  rw [hch2, prune_two_fresh _ _ n2 (by simp only; omega) (by simp only; omega), hpp] at hc2
  have h3 := trailer_third_dup _ (78 :: 78 :: e1.take (MAXLEN - 4)) (78 :: 78 :: e2.take (MAXLEN - 4)) e3
    (n1 + HIST) (n2 + HIST) (n1 + HIST) n2 n3 q2 q3 hc2 h23 h31 (by omega) h31 hq2
  rw [runOps_cons_snd, hout1, runOps_append_snd, ho1, List.nil_append, runOps_cons_snd,
    outOf_quiet _ _ hq2', h3]
  rfl

end SameVerif.Asm

namespace SameVerif
open SameVerif.Spec SameVerif.Asm

/-! ### the pair condition on tails follows from the triple condition -/

theorem voteDetect_ne (x y : Byte) (h : x ≠ y) : (voteDetect x y).1 = 0 := by
  have hx : (x ^^^ y) ≠ 0 := by
    intro hx
    exact h (UInt8.xor_eq_zero_iff.mp hx)
  have h255 : (~~~(255 : Byte)) = 0 := by decide
  simp [voteDetect, hx, h255]

theorem column_pair_nil_right (g : List Byte) (j : Nat) : (columnAt [g, []] j).length ≤ 1 := by
  unfold columnAt
  cases h : g[j]? <;> simp [h]

theorem column_pair_nil_left (g : List Byte) (j : Nat) : (columnAt [[], g] j).length ≤ 1 := by
  unfold columnAt
  cases h : g[j]? <;> simp [h]

/-- **The pair condition follows from the triple condition.**  If the vote over three tails never
    gives a `-` backed by two or more bursts, neither does the two-burst "vote" over the last two:
    it only passes bytes on which both agree, and those win the three-burst vote too. -/
theorem pair_of_triple : ∀ (cap : Nat) (g1 g2 g3 : List Byte),
    (∀ e ∈ estimateLoop cap [g1, g2, g3], 2 ≤ e.nbursts → e.byte ≠ 45) →
    ∀ e ∈ estimateLoop cap [g2, g3], 2 ≤ e.nbursts → e.byte ≠ 45 := by
  intro cap
  induction cap with
  | zero => intro g1 g2 g3 _ e he; simp [estimateLoop] at he
  | succ c ih =>
    intro g1 g2 g3 h e he hn
    cases g2 with
    | nil =>
      obtain ⟨j, v, _, h2⟩ := estimateLoop_mem_vote _ _ e he
      have := column_pair_nil_left g3 j
      omega
    | cons a g2' =>
      cases g3 with
      | nil =>
        obtain ⟨j, v, _, h2⟩ := estimateLoop_mem_vote _ _ e he
        have := column_pair_nil_right (a :: g2') j
        omega
      | cons b g3' =>
        cases g1 with
        | nil =>
          rw [estimateLoop_nil_cons] at h
          exact h e he hn
        | cons z g1' =>
          by_cases hab : (a &&& ~~~(0x80 : Byte)) = (b &&& ~~~(0x80 : Byte))
          · by_cases hal : isAllowed (b &&& ~~~(0x80 : Byte)) = true
            · have k2 : estimateLoop (c + 1) [a :: g2', b :: g3']
                  = ⟨b &&& ~~~(0x80 : Byte), 2, 0 + (if (((a &&& 0x80) != 0) || ((b &&& 0x80) != 0)) then 1 else 0)⟩
                    :: estimateLoop c [g2', g3'] := by
                simp [estimateLoop, voteAt, List.filterMap, hab, voteDetect_same, hal]
              have k3 : ∃ er, estimateLoop (c + 1) [z :: g1', a :: g2', b :: g3']
                  = ⟨b &&& ~~~(0x80 : Byte), 3, er⟩ :: estimateLoop c [g1', g2', g3'] := by
                refine ⟨disputes2 (b &&& ~~~(0x80 : Byte)) (z &&& ~~~(0x80 : Byte))
                  + (if (((z &&& 0x80) != 0) || (((a &&& 0x80) != 0) || ((b &&& 0x80) != 0))) then 1 else 0), ?_⟩
                simp [estimateLoop, voteAt, List.filterMap, hab, voteCorrect_xhh, hal]
              obtain ⟨er, k3⟩ := k3
              rw [k3] at h
              rw [k2] at he
              rcases List.mem_cons.mp he with rfl | he'
              · exact h ⟨_, 3, er⟩ List.mem_cons_self (by simp)
              · exact ih g1' g2' g3' (fun e' he'' => h e' (List.mem_cons_of_mem _ he'')) e he' hn
            · have k2 : estimateLoop (c + 1) [a :: g2', b :: g3'] = [] := by
                simp [estimateLoop, voteAt, List.filterMap, hab, voteDetect_same, hal]
              rw [k2] at he; cases he
          · have k2 : estimateLoop (c + 1) [a :: g2', b :: g3'] = [] := by
              have h0 : isAllowed 0 = false := by decide
              simp [estimateLoop, voteAt, List.filterMap, voteDetect_ne _ _ hab, h0]
            rw [k2] at he; cases he

end SameVerif
