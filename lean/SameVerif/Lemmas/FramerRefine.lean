import SameVerif.Lemmas.FramerPhases
/- Per-byte output of one framer start = `Spec.linkAt` (support for C07). -/
namespace SameVerif
open SameVerif.Spec

/-- the model's step on byte `k` (0-based) while still searching -/
theorem step_search (c : FCfg) (bs : List Byte) (k : Nat) (hk : k < bs.length)
    (hk' : k ≤ Gen.PREFIX_SEARCH_LEN)
    (hno : ∀ k', 1 ≤ k' → k' ≤ k → ¬ prefixErrors (wordOf (windowAt bs k')) ≤ c.maxPrefixErr) :
    finputNR c (stAfter c bs k) bs[k]
      = if prefixErrors (wordOf (windowAt bs (k + 1))) ≤ c.maxPrefixErr then
          (.read (windowAt bs (k + 1)) 0, .reading)
        else if k + 1 > Gen.PREFIX_SEARCH_LEN then (.idle, .noCarrier)
        else (.search (wordOf (windowAt bs (k + 1))) (k + 1), .searching) := by
  rw [stAfter_search c bs k (by omega) hk' hno, finputNR_search c bs k hk]

/-- the model's step on data byte `j` (0-based) of a burst started at `k0` -/
theorem step_read (c : FCfg) (bs : List Byte) (k0 : Nat)
    (hk0 : stAfter c bs k0 = .read (windowAt bs k0) 0) (j : Nat) (hj : k0 + j < bs.length)
    (hno : ∀ j', 1 ≤ j' → j' ≤ j →
        ¬ (invalidUpTo (bs.drop k0) j' > c.maxInvalid ∨ 4 + (j' - 1) ≥ Gen.MAX_BURST_LENGTH)) :
    finputNR c (stAfter c bs (k0 + j)) bs[k0 + j]
      = if invalidUpTo (bs.drop k0) (j + 1) > c.maxInvalid ∨ 4 + j ≥ Gen.MAX_BURST_LENGTH then
          (.idle, .burst (windowAt bs k0 ++ (bs.drop k0).take j))
        else (.read (windowAt bs k0 ++ (bs.drop k0).take (j + 1)) (invalidUpTo (bs.drop k0) (j + 1)),
              .reading) := by
  have hj' : j < (bs.drop k0).length := by rw [List.length_drop]; omega
  have hb : bs[k0 + j] = (bs.drop k0)[j] := by rw [List.getElem_drop]
  rw [stAfter_read c bs k0 hk0 j (by omega) hno, hb,
    finputNR_read c _ (windowAt_length bs k0) _ j hj']

theorem stAfter_giveup (c : FCfg) (bs : List Byte) (hlen : Gen.PREFIX_SEARCH_LEN + 1 ≤ bs.length)
    (hno : ∀ k', 1 ≤ k' → k' ≤ Gen.PREFIX_SEARCH_LEN + 1 →
      ¬ prefixErrors (wordOf (windowAt bs k')) ≤ c.maxPrefixErr) :
    stAfter c bs (Gen.PREFIX_SEARCH_LEN + 1) = .idle := by
  rw [stAfter_succ c bs _ (by omega),
    step_search c bs _ (by omega) (Nat.le_refl _) (fun k' a b => hno k' a (by omega)),
    if_neg (hno _ (by omega) (Nat.le_refl _)), if_pos (by omega)]

theorem stAfter_start (c : FCfg) (bs : List Byte) {k0 : Nat}
    (h : startIndex c.maxPrefixErr bs = some k0) :
    stAfter c bs k0 = .read (windowAt bs k0) 0 := by
  obtain ⟨hk1, hk2, hk3, hP, hmin⟩ := startIndex_some h
  obtain ⟨k, rfl⟩ : ∃ k, k0 = k + 1 := ⟨k0 - 1, by omega⟩
  rw [stAfter_succ c bs _ (by omega),
    step_search c bs k (by omega) (by omega) (fun k' a b => hmin k' a (by omega)), if_pos hP]

theorem stAfter_end (c : FCfg) (bs : List Byte) {k0 je : Nat}
    (h : startIndex c.maxPrefixErr bs = some k0)
    (he : endIndex c.maxInvalid (bs.drop k0) = some je) :
    stAfter c bs (k0 + je) = .idle := by
  obtain ⟨h1, h2, h3, h4⟩ := endIndex_some he
  rw [List.length_drop] at h2
  obtain ⟨j, rfl⟩ : ∃ j, je = j + 1 := ⟨je - 1, by omega⟩
  rw [← Nat.add_assoc, stAfter_succ c bs _ (by omega),
    step_read c bs k0 (stAfter_start c bs h) j (by omega) (fun j' a b => h4 j' a (by omega)),
    if_pos (by simpa using h3)]

/-- byte number `i + 1 ≥ 2` of the stream: the restarted framer reports what the spec says -/
theorem out_eq_linkAt (c : FCfg) (bs : List Byte) (i : Nat) (hi : i < bs.length) (h1 : 1 ≤ i) :
    (finputNR c (stAfter c bs i) bs[i]).2 = linkAt c.maxPrefixErr c.maxInvalid bs (i + 1) := by
  unfold linkAt
  split
  · next heq =>
    have hn := startIndex_none heq
    by_cases hA : i + 1 ≤ Gen.PREFIX_SEARCH_LEN
    · rw [if_pos hA,
        step_search c bs i hi (by omega) (fun k' a b => hn k' a (by omega) (by omega)),
        if_neg (hn (i + 1) (by omega) (by omega) (by omega)), if_neg (by omega)]
    · rw [if_neg hA]
      by_cases hB : i = Gen.PREFIX_SEARCH_LEN
      · rw [step_search c bs i hi (by omega) (fun k' a b => hn k' a (by omega) (by omega)),
          if_neg (hn (i + 1) (by omega) (by omega) (by omega)), if_pos (by omega)]
      · have hidle := stAfter_giveup c bs (by omega) (fun k' a b => hn k' a (by omega) b)
        have := stAfter_idle c bs _ hidle (i - (Gen.PREFIX_SEARCH_LEN + 1)) (by omega)
        rw [show Gen.PREFIX_SEARCH_LEN + 1 + (i - (Gen.PREFIX_SEARCH_LEN + 1)) = i by omega] at this
        rw [this, finputNR_idle]
  · next k0 heq =>
    obtain ⟨hk1, hk2, hk3, hP, hmin⟩ := startIndex_some heq
    by_cases hA : i + 1 < k0
    · rw [if_pos hA,
        step_search c bs i hi (by omega) (fun k' a b => hmin k' a (by omega)),
        if_neg (hmin (i + 1) (by omega) hA), if_neg (by omega)]
    · rw [if_neg hA]
      by_cases hB : i + 1 = k0
      · subst hB
        have h11 : ¬ ((i + 1 == 1) = true) := by simp; omega
        rw [if_pos (by simp), if_neg h11,
          step_search c bs i hi (by omega) (fun k' a b => hmin k' a (by omega)), if_pos hP]
      · rw [if_neg (by simpa using hB)]
        have hread := stAfter_start c bs heq
        obtain ⟨j, rfl⟩ : ∃ j, i = k0 + j := ⟨i - k0, by omega⟩
        have hjj : k0 + j + 1 - k0 = j + 1 := by omega
        simp only [hjj]
        split
        · next hend =>
          have he := endIndex_none hend
          rw [List.length_drop] at he
          rw [step_read c bs k0 hread j hi (fun j' a b => he j' a (by omega)),
            if_neg (by simpa using he (j + 1) (by omega) (by omega))]
        · next je hend =>
          obtain ⟨e1, e2, e3, e4⟩ := endIndex_some hend
          rw [List.length_drop] at e2
          by_cases hC : j + 1 < je
          · rw [if_pos hC, step_read c bs k0 hread j hi (fun j' a b => e4 j' a (by omega)),
              if_neg (by simpa using e4 (j + 1) (by omega) hC)]
          · rw [if_neg hC]
            by_cases hD : j + 1 = je
            · subst hD
              rw [if_pos (by simp), step_read c bs k0 hread j hi (fun j' a b => e4 j' a (by omega)),
                if_pos (by simpa using e3)]
              simp
            · rw [if_neg (by simpa using hD)]
              have hidle := stAfter_end c bs heq hend
              have := stAfter_idle c bs _ hidle (j - je) (by omega)
              rw [show k0 + je + (j - je) = k0 + j by omega] at this
              rw [this, finputNR_idle]

end SameVerif
