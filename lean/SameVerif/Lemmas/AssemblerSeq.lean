import SameVerif.Lemmas.AssemblerThree
import SameVerif.Lemmas.AssemblerInv
import SameVerif.Lemmas.AsmEvidence
/-
  Run lemmas for *sequences* of transmissions (C05): what a completed transmission leaves behind in
  the assembler state (`LeftBy`), state-level versions of the third-burst lemmas, the second
  transmission met by the leftovers of the first, and the "everything is a duplicate" stretch.
  `combine` results are hypotheses here; the theorem file supplies them.
-/
namespace SameVerif.Asm

/-! ### pruning short histories -/

/-- on a history of at most two entries pruning is just the liveness filter -/
theorem prune_short (h : List (Timed (List Byte))) (now : Nat) (hl : h.length ≤ 2) :
    pruneHistory h now = h.filter (fun e => !e.expiredAt now) := by
  have h1 : (h.filter (fun e => !e.expiredAt now)).length ≤ 2 :=
    Nat.le_trans (List.length_filter_le _ _) hl
  have h0 : (h.filter (fun e => !e.expiredAt now)).length - 2 = 0 := by omega
  simp only [pruneHistory, h0]
  rfl

/-- pruning at `u` and then at a later time `now` is pruning at `now` -/
theorem prune_prune (h : List (Timed (List Byte))) (u now : Nat) (hl : h.length ≤ 2) (hu : u ≤ now) :
    pruneHistory (pruneHistory h u) now = pruneHistory h now := by
  rw [prune_short _ now (pruneHistory_length_le h u), prune_short h u hl, prune_short h now hl,
    List.filter_filter]
  apply List.filter_congr
  intro e _
  simp only [Timed.expiredAt]
  by_cases hd : e.deadline ≤ now
  · simp [hd]
  · have : ¬ e.deadline ≤ u := by omega
    simp [hd, this]

/-- pruning twice at the same time (any length) -/
theorem prune_idem (h : List (Timed (List Byte))) (now : Nat) :
    pruneHistory (pruneHistory h now) now = pruneHistory h now :=
  pruneHistory_fresh _ _ (pruneHistory_length_le h now) (fun e he => (mem_pruneHistory h now e he).2)

theorem prune_three_fresh (e1 e2 e3 : Timed (List Byte)) (now : Nat) (h1 : now < e1.deadline)
    (h2 : now < e2.deadline) (h3 : now < e3.deadline) : pruneHistory [e1, e2, e3] now = [e2, e3] := by
  have hfil : [e1, e2, e3].filter (fun e => !e.expiredAt now) = [e1, e2, e3] := by
    apply List.filter_eq_self.mpr
    intro e he
    simp only [List.mem_cons, List.not_mem_nil, or_false] at he
    simp only [Timed.expiredAt, Bool.not_eq_true', decide_eq_false_iff_not]
    rcases he with rfl | rfl | rfl <;> omega
  simp only [pruneHistory, hfil]
  rfl

/-- the older of two entries has expired, the newer has not -/
theorem prune_two_second (e1 e2 : Timed (List Byte)) (now : Nat) (h1 : e1.deadline ≤ now)
    (h2 : now < e2.deadline) : pruneHistory [e1, e2] now = [e2] := by
  rw [prune_short _ _ (by simp)]
  have a1 : (!e1.expiredAt now) = false := by simp [Timed.expiredAt, h1]
  have a2 : (!e2.expiredAt now) = true := by simp [Timed.expiredAt]; omega
  simp [a1, a2]

/-- polls at times `≤ now` do not change what pruning at `now` leaves -/
theorem run_polls_prune (polls : List Nat) (now : Nat) : ∀ s : AState, s.history.length ≤ 2 →
    (∀ u ∈ polls, u ≤ now) →
    pruneHistory (runOps s (polls.map .poll)).1.history now = pruneHistory s.history now
      ∧ (runOps s (polls.map .poll)).1.history.length ≤ 2 := by
  induction polls with
  | nil => intro s hl _; exact ⟨rfl, hl⟩
  | cons u polls ih =>
    intro s hl hu
    simp only [List.map_cons, runOps_cons_fst, stepOp]
    have hh : (aIdle s u).1.history = pruneHistory s.history u := idle_history s u
    obtain ⟨h1, h2⟩ := ih (aIdle s u).1 (by rw [hh]; exact pruneHistory_length_le _ _)
      (fun v hv => hu v (by simp [hv]))
    refine ⟨?_, h2⟩
    rw [h1, hh, prune_prune _ _ _ hl (hu u (by simp))]

/-! ### a burst step looks at the history and the previous report only through their pruned forms -/

theorem prunePrevious_idem (p : Option (Timed Msg)) (now : Nat) :
    prunePrevious (prunePrevious p now) now = prunePrevious p now := by
  rcases prunePrevious_cases p now with ⟨h, _⟩ | ⟨h, _⟩
  · rw [h]; rfl
  · rw [h, h]

theorem stepOp_burst_normalize (s : AState) (b : List Byte) (now : Nat) (hb : b.isEmpty = false) :
    stepOp s (.burst b now)
      = stepOp { history := pruneHistory s.history now, pending := s.pending,
                 previous := prunePrevious s.previous now } (.burst b now) := by
  rw [stepOp_eq, stepOp_eq, preIdle_burst _ _ _ hb, preIdle_burst _ _ _ hb]
  simp only [historyAfter, estimateOf, pendingAfter, prune_idem, prunePrevious_idem]

/-- a non-empty burst arriving when every stored burst has expired: the run continues as from a
    state with an empty history (and the previous report pruned) -/
theorem runOps_burst_expired (s : AState) (b : List Byte) (now : Nat) (ops : List AOp)
    (hb : b.isEmpty = false) (hx : pruneHistory s.history now = []) :
    runOps s (.burst b now :: ops)
      = runOps { history := [], pending := s.pending, previous := prunePrevious s.previous now }
          (.burst b now :: ops) := by
  rw [runOps_cons, runOps_cons, stepOp_burst_normalize s b now hb, hx]

/-! ### what a completed transmission leaves behind -/

/-- Nothing is held; the report `m` is remembered until `d`; at most two bursts are stored and, at
    any time from `T` on, they prune like `h0`. -/
structure LeftBy (S : AState) (m : Msg) (d : Nat) (h0 : List (Timed (List Byte))) (T : Nat) : Prop where
  pending : S.pending = none
  previous : S.previous = some ⟨m, d⟩
  hlen : S.history.length ≤ 2
  sub : ∀ e ∈ S.history, e ∈ h0
  hist : ∀ now, T ≤ now → pruneHistory S.history now = pruneHistory h0 now


/-- polls that release a held decoded message, with the state they leave -/
theorem run_polls_release_st (polls : List Nat) (tm : Timed MsgResult) (m : Msg)
    (hdat : tm.data = .ok m) (T : Nat) (s : AState) (hp : s.pending = some tm)
    (hl : s.history.length ≤ 2) (hT : ∀ u ∈ polls, u ≤ T) (hex : ∃ u ∈ polls, tm.deadline ≤ u) :
    ∃ u ∈ polls, tm.deadline ≤ u ∧ (runOps s (polls.map .poll)).2 = [(u, .ok m)]
      ∧ LeftBy (runOps s (polls.map .poll)).1 m (u + HIST) s.history T := by
  obtain ⟨u, hu, hd, hout, hpn, hpv⟩ := run_polls_release polls tm m hdat s hp hex
  refine ⟨u, hu, hd, hout, hpn, hpv, ?_, ?_, ?_⟩
  · exact (run_polls_prune polls T s hl hT).2
  · exact fun e he => (run_polls_history_sublist polls s).subset he
  · intro now hnow
    exact (run_polls_prune polls now s hl (fun v hv => Nat.le_trans (hT v hv) hnow)).1

/-- polls while nothing is held, with the state they leave -/
theorem run_polls_quiet_st (polls : List Nat) (m : Msg) (d T : Nat) (h0 : List (Timed (List Byte)))
    (s : AState) (hs : LeftBy s m d h0 T) (hT : ∀ u ∈ polls, u ≤ T) :
    (runOps s (polls.map .poll)).2 = [] ∧ LeftBy (runOps s (polls.map .poll)).1 m d h0 T := by
  obtain ⟨h1, h2, h3⟩ := run_polls_quiet polls s hs.pending
  refine ⟨h1, h2, by rw [h3, hs.previous], (run_polls_prune polls T s hs.hlen hT).2,
    fun e he => hs.sub e ((run_polls_history_sublist polls s).subset he), ?_⟩
  intro now hnow
  rw [(run_polls_prune polls now s hs.hlen (fun v hv => Nat.le_trans (hT v hv) hnow)).1]
  exact hs.hist now hnow

/-! ### the third burst, with the state it leaves -/

theorem third_burst_replaces_st (S : AState) (b3 : List Byte) (e1 e2 : Timed (List Byte))
    (t3 d T : Nat) (hold hnew : Header) (polls : List Nat)
    (hne : b3.isEmpty = false)
    (hh : S.history = [e1, e2]) (hf1 : t3 < e1.deadline) (hf2 : t3 < e2.deadline)
    (hpend : S.pending = some ⟨.ok (.som hold), d⟩)
    (hc : combine MAXLEN [e1.data, e2.data, b3.take MAXLEN] = some (.ok (.som hnew)))
    (hvote : hold.voting ≤ hnew.voting)
    (hprev : ∀ p, S.previous = some p → p.data.text ≠ hnew.text)
    (hT : ∀ u ∈ polls, u ≤ T)
    (hex : ∃ u ∈ polls, t3 + HOLD ≤ u) :
    ∃ u ∈ polls, t3 + HOLD ≤ u
      ∧ (runOps S (.burst b3 t3 :: polls.map .poll)).2 = [(u, .ok (.som hnew))]
      ∧ LeftBy (runOps S (.burst b3 t3 :: polls.map .poll)).1 (.som hnew) (u + HIST)
          [e2, ⟨b3.take MAXLEN, t3 + HIST⟩] T := by
  have hist0 : historyAfter S b3 t3 = [e1, e2, ⟨b3.take MAXLEN, t3 + HIST⟩] := by
    simp [historyAfter, hh, prune_two_fresh e1 e2 t3 hf1 hf2]
  have hest : estimateOf S b3 t3 = some (.ok (.som hnew)) := by
    unfold estimateOf
    rw [hist0]
    simp only [List.map_cons, List.map_nil]
    rw [hc]
    apply dedup_pass
    intro p hpp
    rcases prunePrevious_cases S.previous t3 with ⟨hn, _⟩ | ⟨hk, _⟩
    · rw [hn] at hpp; cases hpp
    · rw [hk] at hpp; exact hprev p hpp
  have hpa : pendingAfter S b3 t3 = some ⟨.ok (.som hnew), t3 + HOLD⟩ := by
    unfold pendingAfter
    rw [hest]
    simp only [hpend, accept, acceptReplaces, ge_iff_le, hvote, decide_true, ↓reduceIte, acceptNew_som]
  obtain ⟨hs, hq⟩ := step_burst_pending S b3 t3 _ hne hpa (by have := HOLD_pos; simp only; omega)
  rw [hist0, prune_three_fresh _ _ _ t3 hf1 hf2 (by have := HIST_pos; simp only; omega)] at hs
  obtain ⟨u, hu, hd, hout, hleft⟩ := run_polls_release_st polls ⟨.ok (.som hnew), t3 + HOLD⟩
    (.som hnew) rfl T (stepOp S (.burst b3 t3)).1 (by rw [hs]) (by rw [hs]; simp) hT hex
  refine ⟨u, hu, hd, ?_, ?_⟩
  · rw [runOps_cons_snd, outOf_quiet _ _ hq, hout]
    rfl
  · rw [runOps_cons_fst]
    rw [hs] at hleft
    rw [hs]
    exact hleft

theorem third_burst_suppressed_st (S : AState) (b3 : List Byte) (e1 e2 : Timed (List Byte))
    (t3 d T : Nat) (m : Msg) (hnew : Header) (polls : List Nat)
    (hne : b3.isEmpty = false)
    (hh : S.history = [e1, e2]) (hf1 : t3 < e1.deadline) (hf2 : t3 < e2.deadline)
    (hpend : S.pending = none)
    (hc : combine MAXLEN [e1.data, e2.data, b3.take MAXLEN] = some (.ok (.som hnew)))
    (hprev : S.previous = some ⟨m, d⟩) (hlive : t3 < d)
    (htext : m.text = hnew.text)
    (hT : ∀ u ∈ polls, u ≤ T) :
    (runOps S (.burst b3 t3 :: polls.map .poll)).2 = []
      ∧ LeftBy (runOps S (.burst b3 t3 :: polls.map .poll)).1 m d
          [e2, ⟨b3.take MAXLEN, t3 + HIST⟩] T := by
  have hist0 : historyAfter S b3 t3 = [e1, e2, ⟨b3.take MAXLEN, t3 + HIST⟩] := by
    simp [historyAfter, hh, prune_two_fresh e1 e2 t3 hf1 hf2]
  have hpp : prunePrevious S.previous t3 = some ⟨m, d⟩ := by
    have : ¬ (d ≤ t3) := by omega
    simp [hprev, prunePrevious, Timed.expiredAt, this]
  have hest : estimateOf S b3 t3 = none := by
    unfold estimateOf
    rw [hist0]
    simp only [List.map_cons, List.map_nil]
    rw [hc, hpp]
    have ht' : m.text = (Msg.som hnew).text := htext
    simp [dedup, ht']
  have hpa : pendingAfter S b3 t3 = none := by
    unfold pendingAfter; rw [hest]; exact hpend
  obtain ⟨hs, hq⟩ := step_burst_none S b3 t3 hne hpa
  rw [hist0, prune_three_fresh _ _ _ t3 hf1 hf2 (by have := HIST_pos; simp only; omega), hpp] at hs
  have hL : LeftBy (stepOp S (.burst b3 t3)).1 m d [e2, ⟨b3.take MAXLEN, t3 + HIST⟩] T := by
    rw [hs]
    exact ⟨rfl, rfl, by simp, fun _ he => he, fun _ _ => rfl⟩
  obtain ⟨h1, h2⟩ := run_polls_quiet_st polls m d T _ _ hL hT
  refine ⟨?_, ?_⟩
  · rw [runOps_cons_snd, outOf_quiet _ _ hq, h1]
    rfl
  · rw [runOps_cons_fst]; exact h2

/-- **Two bursts stored, a header held, then polls, the third burst, more polls** — as
    `held_then_third`, with the state left at the end. -/
theorem held_then_third_st (S : AState) (b3 : List Byte) (e1 e2 : Timed (List Byte)) (t2 t3 T : Nat)
    (hold hnew : Header) (polls2 polls : List Nat)
    (hne : b3.isEmpty = false)
    (hh : S.history = [e1, e2]) (hf1 : t3 < e1.deadline) (hf2 : t3 < e2.deadline)
    (hp2 : ∀ u ∈ polls2, u ≤ t3)
    (hpend : S.pending = some ⟨.ok (.som hold), t2 + HOLD⟩)
    (hc : combine MAXLEN [e1.data, e2.data, b3.take MAXLEN] = some (.ok (.som hnew)))
    (hvote : hold.voting ≤ hnew.voting)
    (htext : hold.text = hnew.text)
    (hprev : ∀ p, S.previous = some p → p.data.text ≠ hnew.text)
    (h23 : t2 ≤ t3) (hwin : t3 < t2 + HOLD + HIST)
    (hT : ∀ u ∈ polls, u ≤ T)
    (hex : ∃ u ∈ polls, t3 + HOLD ≤ u) :
    ∃ u h, (h = hold ∨ h = hnew) ∧ t2 + HOLD ≤ u ∧ (u ≤ t3 ∨ u ∈ polls)
      ∧ (runOps S (polls2.map .poll ++ .burst b3 t3 :: polls.map .poll)).2 = [(u, .ok (.som h))]
      ∧ LeftBy (runOps S (polls2.map .poll ++ .burst b3 t3 :: polls.map .poll)).1 (.som h) (u + HIST)
          [e2, ⟨b3.take MAXLEN, t3 + HIST⟩] T := by
  have hhist : (runOps S (polls2.map .poll)).1.history = [e1, e2] := by
    rw [run_polls_history polls2 S (by rw [hh]; simp), hh]
    intro u hu e he
    rw [hh] at he
    have := hp2 u hu
    simp only [List.mem_cons, List.not_mem_nil, or_false] at he
    rcases he with rfl | rfl <;> omega
  by_cases hB : ∃ u ∈ polls2, t2 + HOLD ≤ u
  · obtain ⟨u, hu, hd, hout, hpn, hpv⟩ :=
      run_polls_release polls2 ⟨.ok (.som hold), t2 + HOLD⟩ (.som hold) rfl S hpend hB
    obtain ⟨h3, hL⟩ := third_burst_suppressed_st (runOps S (polls2.map .poll)).1 b3 e1 e2 t3
      (u + HIST) T (.som hold) hnew polls hne hhist hf1 hf2 hpn hc hpv
      (by simp only at hd; omega) htext hT
    refine ⟨u, hold, Or.inl rfl, hd, Or.inl (hp2 u hu), ?_, ?_⟩
    · rw [runOps_append_snd, hout, h3]
      rfl
    · rw [runOps_append_fst]; exact hL
  · have hA : ∀ u ∈ polls2, u < t2 + HOLD := by
      intro u hu
      by_cases h : u < t2 + HOLD
      · exact h
      · exact absurd ⟨u, hu, by omega⟩ hB
    obtain ⟨hout, hpn, hpv⟩ := run_polls_waiting polls2 ⟨.ok (.som hold), t2 + HOLD⟩ S hpend hA
    obtain ⟨u, hu, hd, h3, hL⟩ := third_burst_replaces_st (runOps S (polls2.map .poll)).1 b3 e1 e2 t3
      (t2 + HOLD) T hold hnew polls hne hhist hf1 hf2 hpn hc hvote (by rw [hpv]; exact hprev) hT hex
    refine ⟨u, hnew, Or.inr rfl, by omega, Or.inr hu, ?_, ?_⟩
    · rw [runOps_append_snd, hout, h3]
      rfl
    · rw [runOps_append_fst]; exact hL

/-! ### the first two bursts of a transmission -/

/-- **Burst, polls, burst — from an empty history.**  The first burst alone combines to nothing, the
    two together to the header `h2`, which the duplicate filter lets through: the run so far is
    silent and ends with both bursts stored and `h2` held until `t2 + HOLD`. -/
theorem two_bursts_held (s : AState) (H : List Byte) (t1 t2 : Nat) (h2 : Header) (polls1 : List Nat)
    (hne : H.isEmpty = false) (hfit : H.length ≤ MAXLEN)
    (hc1 : combine MAXLEN [H] = none)
    (hc2 : combine MAXLEN [H, H] = some (.ok (.som h2)))
    (hh : s.history = []) (hp : s.pending = none)
    (hprev : ∀ p, s.previous = some p → p.data.text ≠ h2.text)
    (h21 : t2 < t1 + HIST)
    (hp1 : ∀ u ∈ polls1, u ≤ t2) :
    ∃ S2 : AState,
      (∀ rest, runOps s (.burst H t1 :: (polls1.map .poll ++ .burst H t2 :: rest)) = runOps S2 rest)
      ∧ S2.history = [⟨H, t1 + HIST⟩, ⟨H, t2 + HIST⟩]
      ∧ S2.pending = some ⟨.ok (.som h2), t2 + HOLD⟩
      ∧ (∀ p, S2.previous = some p → s.previous = some p) := by
  have htake : H.take MAXLEN = H := List.take_of_length_le hfit
  obtain ⟨hs1, hq1⟩ := burst_stored s H t1 hne hh hp (by rw [htake]; exact hc1)
  rw [htake] at hs1
  generalize hS1 : (stepOp s (.burst H t1)).1 = S1 at hs1
  have hstill : runOps S1 (polls1.map .poll) = (S1, []) := by
    apply run_polls_still
    · rw [hs1]
    · rw [hs1]; simp
    · intro u hu e he
      rw [hs1] at he
      simp only [List.mem_singleton] at he
      subst he
      have := hp1 u hu
      simp only; omega
  have hhist2 : historyAfter S1 H t2 = [⟨H, t1 + HIST⟩, ⟨H, t2 + HIST⟩] := by
    rw [historyAfter, hs1, htake]
    simp only
    rw [prune_one_fresh _ _ (by simp only; omega)]
    rfl
  have hprev1 : ∀ p, S1.previous = some p → s.previous = some p := by
    intro p hpp
    rw [hs1] at hpp
    simp only at hpp
    rcases prunePrevious_cases s.previous t1 with ⟨hn, _⟩ | ⟨hk, _⟩
    · rw [hn] at hpp; cases hpp
    · rw [hk] at hpp; exact hpp
  obtain ⟨hpend2, hpv2, hq2⟩ := burst_accepted S1 H t2 h2 hne (by rw [hs1])
    (by rw [hhist2]; exact hc2) (fun p hpp => hprev p (hprev1 p hpp))
  have hh2 := step_burst_history S1 H t2 hne
  rw [hhist2, prune_two_fresh _ _ _ (by simp only; omega) (by simp only; have := HIST_pos; omega)] at hh2
  refine ⟨(stepOp S1 (.burst H t2)).1, ?_, hh2, hpend2, ?_⟩
  · intro rest
    rw [runOps_cons, outOf_quiet _ _ hq1, hS1, runOps_append, hstill]
    simp only [List.nil_append]
    rw [runOps_cons, outOf_quiet _ _ hq2]
    simp only [List.nil_append]
  · intro p hpp
    rw [hpv2] at hpp
    rcases prunePrevious_cases S1.previous t2 with ⟨hn, _⟩ | ⟨hk, _⟩
    · rw [hn] at hpp; cases hpp
    · rw [hk] at hpp; exact hprev1 p hpp


/-! ### whole transmissions from an empty history, with the state they leave -/

/-- **Three equal bursts**, any polls (those after the third burst at times `≤ T`), a poll at or
    after `t3 + HOLD`: one report (`h2` if a poll reaches `t2 + HOLD` before the third burst, else
    `h3`), and what is left behind. -/
theorem transmission3_st (s : AState) (H : List Byte) (t1 t2 t3 t T : Nat) (h2 h3 : Header)
    (polls1 polls2 polls3 : List Nat)
    (hne : H.isEmpty = false) (hfit : H.length ≤ MAXLEN)
    (hc1 : combine MAXLEN [H] = none)
    (hc2 : combine MAXLEN [H, H] = some (.ok (.som h2)))
    (hc3 : combine MAXLEN [H, H, H] = some (.ok (.som h3)))
    (hvote : h2.voting ≤ h3.voting) (htext : h2.text = h3.text)
    (hh : s.history = []) (hp : s.pending = none)
    (hprev : ∀ p, s.previous = some p → p.data.text ≠ h3.text)
    (h12 : t1 ≤ t2) (h23 : t2 ≤ t3) (h31 : t3 < t1 + HIST)
    (hp1 : ∀ u ∈ polls1, u ≤ t2) (hp2 : ∀ u ∈ polls2, u ≤ t3)
    (hp3 : ∀ u ∈ polls3, u ≤ T) (htT : t ≤ T) (ht : t3 + HOLD ≤ t) :
    ∃ u h, (h = h2 ∨ h = h3) ∧ t2 + HOLD ≤ u ∧ u ≤ T
      ∧ (runOps s (.burst H t1 :: (polls1.map .poll ++ .burst H t2 ::
          (polls2.map .poll ++ .burst H t3 :: (polls3.map .poll ++ [.poll t]))))).2
          = [(u, .ok (.som h))]
      ∧ LeftBy (runOps s (.burst H t1 :: (polls1.map .poll ++ .burst H t2 ::
          (polls2.map .poll ++ .burst H t3 :: (polls3.map .poll ++ [.poll t]))))).1
          (.som h) (u + HIST) [⟨H, t2 + HIST⟩, ⟨H, t3 + HIST⟩] T := by
  have htake : H.take MAXLEN = H := List.take_of_length_le hfit
  obtain ⟨S2, hrun, hh2, hpend2, hpv2⟩ := two_bursts_held s H t1 t2 h2 polls1 hne hfit hc1 hc2 hh hp
    (by rw [htext]; exact hprev) (by omega) hp1
  have hpT : ∀ u ∈ polls3 ++ [t], u ≤ T := by
    intro u hu
    rcases List.mem_append.mp hu with hu | hu
    · exact hp3 u hu
    · simp only [List.mem_singleton] at hu; omega
  obtain ⟨u, h, hh', hu1, hu2, hout, hL⟩ := held_then_third_st S2 H ⟨H, t1 + HIST⟩ ⟨H, t2 + HIST⟩
    t2 t3 T h2 h3 polls2 (polls3 ++ [t]) hne hh2 (by simp only; omega) (by simp only; omega) hp2
    hpend2 (by rw [htake]; exact hc3) hvote htext (fun p hpp => hprev p (hpv2 p hpp)) h23 (by omega)
    hpT ⟨t, by simp, ht⟩
  rw [htake] at hL
  have hops : polls3.map AOp.poll ++ [.poll t] = (polls3 ++ [t]).map AOp.poll := by simp
  refine ⟨u, h, hh', hu1, ?_, ?_, ?_⟩
  · rcases hu2 with hu2 | hu2
    · omega
    · exact hpT u hu2
  · rw [hrun, hops]; exact hout
  · rw [hrun, hops]; exact hL

/-- **Two equal bursts**, any polls (those after the second burst at times `≤ T`), a poll at or
    after `t2 + HOLD`: one report, and what is left behind. -/
theorem transmission2_st (s : AState) (H : List Byte) (t1 t2 t T : Nat) (h2 : Header)
    (polls1 polls2 : List Nat)
    (hne : H.isEmpty = false) (hfit : H.length ≤ MAXLEN)
    (hc1 : combine MAXLEN [H] = none)
    (hc2 : combine MAXLEN [H, H] = some (.ok (.som h2)))
    (hh : s.history = []) (hp : s.pending = none)
    (hprev : ∀ p, s.previous = some p → p.data.text ≠ h2.text)
    (h21 : t2 < t1 + HIST)
    (hp1 : ∀ u ∈ polls1, u ≤ t2)
    (hp2 : ∀ u ∈ polls2, u ≤ T) (htT : t ≤ T) (ht : t2 + HOLD ≤ t) :
    ∃ u, t2 + HOLD ≤ u ∧ u ≤ T
      ∧ (runOps s (.burst H t1 :: (polls1.map .poll ++ .burst H t2 ::
          (polls2.map .poll ++ [.poll t])))).2 = [(u, .ok (.som h2))]
      ∧ LeftBy (runOps s (.burst H t1 :: (polls1.map .poll ++ .burst H t2 ::
          (polls2.map .poll ++ [.poll t])))).1
          (.som h2) (u + HIST) [⟨H, t1 + HIST⟩, ⟨H, t2 + HIST⟩] T := by
  obtain ⟨S2, hrun, hh2, hpend2, _⟩ := two_bursts_held s H t1 t2 h2 polls1 hne hfit hc1 hc2 hh hp
    hprev h21 hp1
  have hpT : ∀ u ∈ polls2 ++ [t], u ≤ T := by
    intro u hu
    rcases List.mem_append.mp hu with hu | hu
    · exact hp2 u hu
    · simp only [List.mem_singleton] at hu; omega
  obtain ⟨u, hu, hd, hout, hL⟩ := run_polls_release_st (polls2 ++ [t]) ⟨.ok (.som h2), t2 + HOLD⟩
    (.som h2) rfl T S2 hpend2 (by rw [hh2]; simp) hpT ⟨t, by simp, ht⟩
  rw [hh2] at hL
  have hops : polls2.map AOp.poll ++ [.poll t] = (polls2 ++ [t]).map AOp.poll := by simp
  refine ⟨u, hd, hpT u hu, ?_, ?_⟩
  · rw [hrun, hops]; exact hout
  · rw [hrun, hops]; exact hL

/-! ### the next transmission, met by the leftovers of the previous one -/

/-- **A different header while both leftover bursts are alive.**  The previous transmission left
    two bursts `A` (due at `d2 ≤ d3`) and the report `m`, remembered until `d`.  The first burst `B`
    comes before `d2` and `d`: the vote over `A A B` has the text of `m` and is suppressed.  The
    second burst `B` is voted with the remaining `A` (if still alive) or with the first `B` alone;
    either way a header `hB` is held until `b2 + HOLD`.  Nothing is output so far. -/
theorem second_near_held (S : AState) (A B : List Byte) (m : Msg) (d d2 d3 T b1 b2 : Nat)
    (hx hABB hBB : Header) (polls1 : List Nat)
    (hne : B.isEmpty = false) (hfit : B.length ≤ MAXLEN)
    (hL : LeftBy S m d [⟨A, d2⟩, ⟨A, d3⟩] T) (hT : T ≤ b1)
    (hlive : b1 < d) (hd2 : b1 < d2) (hd23 : d2 ≤ d3)
    (hcAAB : combine MAXLEN [A, A, B] = some (.ok (.som hx))) (hxt : m.text = hx.text)
    (hcABB : combine MAXLEN [A, B, B] = some (.ok (.som hABB)))
    (hcBB : combine MAXLEN [B, B] = some (.ok (.som hBB)))
    (hne1 : m.text ≠ hABB.text) (hne2 : m.text ≠ hBB.text)
    (h21 : b2 < b1 + HIST)
    (hp1 : ∀ u ∈ polls1, u ≤ b2) :
    ∃ (S2 : AState) (hB : Header), (hB = hABB ∨ hB = hBB) ∧
      (∀ rest, runOps S (.burst B b1 :: (polls1.map .poll ++ .burst B b2 :: rest)) = runOps S2 rest)
      ∧ S2.history = [⟨B, b1 + HIST⟩, ⟨B, b2 + HIST⟩]
      ∧ S2.pending = some ⟨.ok (.som hB), b2 + HOLD⟩
      ∧ (∀ p, S2.previous = some p → p.data = m) := by
  have htake : B.take MAXLEN = B := List.take_of_length_le hfit
  have hHpos := HIST_pos
  -- first burst: the vote goes to the old header and is suppressed
  have hist1 : historyAfter S B b1 = [⟨A, d2⟩, ⟨A, d3⟩, ⟨B, b1 + HIST⟩] := by
    rw [historyAfter, hL.hist b1 hT, htake,
      prune_two_fresh _ _ b1 (by simp only; omega) (by simp only; omega)]
    rfl
  have hpp1 : prunePrevious S.previous b1 = some ⟨m, d⟩ := by
    have : ¬ (d ≤ b1) := by omega
    simp [hL.previous, prunePrevious, Timed.expiredAt, this]
  have hest1 : estimateOf S B b1 = none := by
    unfold estimateOf
    rw [hist1]
    simp only [List.map_cons, List.map_nil]
    rw [hcAAB, hpp1]
    have ht' : m.text = (Msg.som hx).text := hxt
    simp [dedup, ht']
  have hpa1 : pendingAfter S B b1 = none := by
    unfold pendingAfter; rw [hest1]; exact hL.pending
  obtain ⟨hs1, hq1⟩ := step_burst_none S B b1 hne hpa1
  rw [hist1, prune_three_fresh _ _ _ b1 (by simp only; omega) (by simp only; omega)
    (by simp only; omega), hpp1] at hs1
  generalize hS1 : (stepOp S (.burst B b1)).1 = S1 at hs1
  have hL1 : LeftBy S1 m d [⟨A, d3⟩, ⟨B, b1 + HIST⟩] b2 := by
    rw [hs1]
    exact ⟨rfl, rfl, by simp, fun _ he => he, fun _ _ => rfl⟩
  -- polls: nothing held, nothing happens
  obtain ⟨hq, hL1'⟩ := run_polls_quiet_st polls1 m d b2 _ S1 hL1 hp1
  generalize hS1' : (runOps S1 (polls1.map .poll)).1 = S1' at hL1'
  -- second burst
  have hprev1 : ∀ hB : Header, m.text ≠ hB.text → ∀ p, S1'.previous = some p → p.data.text ≠ hB.text := by
    intro hB hne' p hpp
    rw [hL1'.previous] at hpp
    cases hpp
    exact hne'
  have key : ∃ hB : Header, (hB = hABB ∨ hB = hBB) ∧
      combine MAXLEN ((historyAfter S1' B b2).map (·.data)) = some (.ok (.som hB)) ∧
      pruneHistory (historyAfter S1' B b2) b2 = [⟨B, b1 + HIST⟩, ⟨B, b2 + HIST⟩] := by
    by_cases hlive3 : b2 < d3
    · refine ⟨hABB, Or.inl rfl, ?_, ?_⟩
      · rw [historyAfter, hL1'.hist b2 (Nat.le_refl _), htake,
          prune_two_fresh _ _ b2 (by simp only; omega) (by simp only; omega)]
        exact hcABB
      · rw [historyAfter, hL1'.hist b2 (Nat.le_refl _), htake,
          prune_two_fresh _ _ b2 (by simp only; omega) (by simp only; omega)]
        exact prune_three_fresh _ _ _ b2 (by simp only; omega) (by simp only; omega)
          (by simp only; omega)
    · refine ⟨hBB, Or.inr rfl, ?_, ?_⟩
      · rw [historyAfter, hL1'.hist b2 (Nat.le_refl _), htake,
          prune_two_second _ _ b2 (by simp only; omega) (by simp only; omega)]
        exact hcBB
      · rw [historyAfter, hL1'.hist b2 (Nat.le_refl _), htake,
          prune_two_second _ _ b2 (by simp only; omega) (by simp only; omega)]
        exact prune_two_fresh _ _ b2 (by simp only; omega) (by simp only; omega)
  obtain ⟨hB, hBc, hc, hh2'⟩ := key
  have hneB : m.text ≠ hB.text := by rcases hBc with rfl | rfl <;> assumption
  obtain ⟨hpend2, hpv2, hq2⟩ := burst_accepted S1' B b2 hB hne hL1'.pending hc (hprev1 hB hneB)
  have hh2 := step_burst_history S1' B b2 hne
  rw [hh2'] at hh2
  refine ⟨(stepOp S1' (.burst B b2)).1, hB, hBc, ?_, hh2, hpend2, ?_⟩
  · intro rest
    rw [runOps_cons, outOf_quiet _ _ hq1, hS1, runOps_append, hq, hS1']
    simp only [List.nil_append]
    rw [runOps_cons, outOf_quiet _ _ hq2]
    simp only [List.nil_append]
  · intro p hpp
    rw [hpv2] at hpp
    rcases prunePrevious_cases S1'.previous b2 with ⟨hn, _⟩ | ⟨hk, _⟩
    · rw [hn] at hpp; cases hpp
    · rw [hk, hL1'.previous] at hpp; cases hpp; rfl

/-! ### everything is a duplicate -/

/-- **Repeats inside the window.**  The report `m` is remembered until `d`, nothing is held, every
    stored burst is `A`.  Polls at any times and bursts `A` at times before `d`, in any number and
    order: nothing is output. -/
theorem run_all_suppressed (A : List Byte) (m : Msg) (d : Nat) (h2 h3 : Header)
    (hne : A.isEmpty = false) (hfit : A.length ≤ MAXLEN)
    (hc1 : combine MAXLEN [A] = none)
    (hc2 : combine MAXLEN [A, A] = some (.ok (.som h2)))
    (hc3 : combine MAXLEN [A, A, A] = some (.ok (.som h3)))
    (ht2 : m.text = h2.text) (ht3 : m.text = h3.text) (ops : List AOp) :
    ∀ s : AState, (∀ op ∈ ops, ∀ b t, op = .burst b t → b = A ∧ t < d) →
      s.pending = none → s.previous = some ⟨m, d⟩ → (∀ e ∈ s.history, e.data = A) →
      (runOps s ops).2 = [] ∧ (runOps s ops).1.pending = none
        ∧ (runOps s ops).1.previous = some ⟨m, d⟩ ∧ (∀ e ∈ (runOps s ops).1.history, e.data = A) := by
  have htake : A.take MAXLEN = A := List.take_of_length_le hfit
  induction ops with
  | nil => intro s _ hp hv hh; exact ⟨rfl, hp, hv, hh⟩
  | cons op ops ih =>
    intro s hops hp hv hh
    have hops' : ∀ op' ∈ ops, ∀ b t, op' = .burst b t → b = A ∧ t < d :=
      fun op' h' => hops op' (by simp [h'])
    have step : (∀ r, (stepOp s op).2 ≠ .message r) ∧ (stepOp s op).1.pending = none
        ∧ (stepOp s op).1.previous = some ⟨m, d⟩ ∧ (∀ e ∈ (stepOp s op).1.history, e.data = A) := by
      cases op with
      | poll u =>
        have hi := idle_of_pending_none s u hp
        simp only [stepOp]
        rw [hi.1]
        exact ⟨hi.2, rfl, hv, fun e he => hh e (mem_pruneHistory _ _ _ he).1⟩
      | burst b now =>
        obtain ⟨rfl, hnow⟩ := hops (.burst b now) (by simp) b now rfl
        have hpp : prunePrevious s.previous now = some ⟨m, d⟩ := by
          have : ¬ (d ≤ now) := by omega
          simp [hv, prunePrevious, Timed.expiredAt, this]
        have hall : ∀ e ∈ historyAfter s b now, e.data = b := by
          intro e he
          simp only [historyAfter, List.mem_append, List.mem_singleton] at he
          rcases he with he | rfl
          · exact hh e (mem_pruneHistory _ _ _ he).1
          · exact htake
        have hdata : (historyAfter s b now).map (·.data) = [b] ∨
            (historyAfter s b now).map (·.data) = [b, b] ∨
            (historyAfter s b now).map (·.data) = [b, b, b] := by
          have hlen : (pruneHistory s.history now).length ≤ 2 := pruneHistory_length_le _ _
          have hmem : ∀ e ∈ pruneHistory s.history now, e.data = b :=
            fun e he => hh e (mem_pruneHistory _ _ _ he).1
          simp only [historyAfter, List.map_append, List.map_cons, List.map_nil, htake]
          match hph : pruneHistory s.history now, hlen, hmem with
          | [], _, _ => left; rfl
          | [x], _, hmem => right; left; simp [hmem x (by simp)]
          | [x, y], _, hmem => right; right; simp [hmem x (by simp), hmem y (by simp)]
          | _ :: _ :: _ :: _, hlen, _ => simp at hlen
        have hest : estimateOf s b now = none := by
          unfold estimateOf
          rw [hpp]
          rcases hdata with h | h | h
          · rw [h, hc1]; rfl
          · rw [h, hc2]
            have ht' : m.text = (Msg.som h2).text := ht2
            simp [dedup, ht']
          · rw [h, hc3]
            have ht' : m.text = (Msg.som h3).text := ht3
            simp [dedup, ht']
        have hpa : pendingAfter s b now = none := by
          unfold pendingAfter; rw [hest]; exact hp
        obtain ⟨hs, hq⟩ := step_burst_none s b now hne hpa
        refine ⟨hq, ?_, ?_, ?_⟩
        · rw [hs]
        · rw [hs]; exact hpp
        · rw [hs]; exact fun e he => hall e (mem_pruneHistory _ _ _ he).1
    obtain ⟨hq, h1, h2', h3'⟩ := step
    obtain ⟨r1, r2, r3, r4⟩ := ih (stepOp s op).1 hops' h1 h2' h3'
    refine ⟨?_, ?_, ?_, ?_⟩
    · rw [runOps_cons_snd, outOf_quiet _ _ hq, r1]; rfl
    · rw [runOps_cons_fst]; exact r2
    · rw [runOps_cons_fst]; exact r3
    · rw [runOps_cons_fst]; exact r4

end SameVerif.Asm

/-
  Reports follow the burst log (C05/G4): the evidence invariant of C04 (`Inv`), strengthened with
  the *position* in the burst log at which the run supporting the pending result ends.
-/
namespace SameVerif.AsmPos
open SameVerif SameVerif.Spec

/-- the burst log of an operation list: its non-empty bursts, each clipped to the burst buffer, in
    order (an empty burst is a poll) -/
def burstLog : List AOp → List (List Byte)
  | [] => []
  | .burst b _ :: ops => if b.isEmpty then burstLog ops else b.take MAXLEN :: burstLog ops
  | .poll _ :: ops => burstLog ops

/-- `r` is the run of `r.length ≤ 3` consecutive bursts of `log` whose last burst is burst number
    `e` of the log (counting from 1) -/
def RunEndsAt (r log : List (List Byte)) (e : Nat) : Prop :=
  r.length ≤ 3 ∧ ∃ pre post, log = pre ++ r ++ post ∧ (pre ++ r).length = e

theorem RunEndsAt.isRun {r log : List (List Byte)} {e : Nat} (h : RunEndsAt r log e) : IsRun r log := by
  obtain ⟨hl, pre, post, hlog, _⟩ := h
  exact ⟨⟨pre, post, hlog.symm⟩, hl⟩

theorem RunEndsAt.le {r log : List (List Byte)} {e : Nat} (h : RunEndsAt r log e) : e ≤ log.length := by
  obtain ⟨_, pre, post, hlog, he⟩ := h
  rw [hlog, ← he]
  simp only [List.length_append]
  omega

theorem RunEndsAt.ge {r log : List (List Byte)} {e : Nat} (h : RunEndsAt r log e) : r.length ≤ e := by
  obtain ⟨_, pre, post, _, he⟩ := h
  rw [← he]
  simp only [List.length_append]
  omega

/-- the run is determined by its length and its end: bursts `e - |r| + 1 … e` of the log -/
theorem RunEndsAt.eq {r log : List (List Byte)} {e : Nat} (h : RunEndsAt r log e) :
    r = (log.take e).drop (e - r.length) := by
  obtain ⟨_, pre, post, hlog, he⟩ := h
  have h1 : log.take e = pre ++ r := by
    rw [hlog, ← he, List.take_left]
  have h2 : e - r.length = pre.length := by
    rw [← he]; simp only [List.length_append]; omega
  rw [h1, h2, List.drop_left]

theorem RunEndsAt.mono {r log : List (List Byte)} {e : Nat} (h : RunEndsAt r log e)
    (more : List (List Byte)) : RunEndsAt r (log ++ more) e := by
  obtain ⟨hl, pre, post, hlog, he⟩ := h
  exact ⟨hl, pre, post ++ more, by rw [hlog]; simp, he⟩

theorem runEndsAt_of_suffix (r log : List (List Byte)) (hs : r <:+ log) (hl : r.length ≤ 3) :
    RunEndsAt r log log.length := by
  obtain ⟨pre, hpre⟩ := hs
  exact ⟨hl, pre, [], by rw [← hpre]; simp, by rw [← hpre]⟩

/-- the pending result is `combine` of a run that ends after burst number `k` -/
def PendPos (log : List (List Byte)) (s : AState) (k : Nat) : Prop :=
  ∀ t, s.pending = some t → ∃ r e, RunEndsAt r log e ∧ k < e ∧ combine MAXLEN r = some t.data

/-- the outputs matched one by one with the ends of runs that combine to them -/
inductive Matches (log : List (List Byte)) : List (Nat × MsgResult) → List Nat → Prop where
  | nil : Matches log [] []
  | cons {o : Nat × MsgResult} {outs : List (Nat × MsgResult)} {e : Nat} {ends : List Nat} :
      (∃ r, RunEndsAt r log e ∧ combine MAXLEN r = some o.2) → Matches log outs ends →
      Matches log (o :: outs) (e :: ends)

/-- what `aIdle` is applied to inside one operation, with the log as it then stands -/
theorem pre_step (s : AState) (op : AOp) (log : List (List Byte)) (T k : Nat) (hT : T ≤ op.time)
    (hinv : Inv log T s) (hpos : PendPos log s k) (hk : k ≤ log.length) :
    ∃ log' T', log ++ burstLog (op :: []) = log' ∧ T' ≤ op.time ∧ Inv log' T' (Asm.preIdle s op)
      ∧ PendPos log' (Asm.preIdle s op) k ∧ k ≤ log'.length := by
  cases op with
  | poll t => exact ⟨log, T, by simp [burstLog], hT, hinv, hpos, hk⟩
  | burst b now =>
    by_cases hb : b.isEmpty = true
    · rw [Asm.preIdle_burst_empty _ _ _ hb]
      exact ⟨log, T, by simp [burstLog, hb], hT, hinv, hpos, hk⟩
    · have hb' : b.isEmpty = false := by simpa using hb
      rw [Asm.preIdle_burst _ _ _ hb']
      refine ⟨log ++ [b.take MAXLEN], now, by simp [burstLog, hb'], Nat.le_refl _,
        inv_afterBurst log T now s b hT hinv, ?_, by simp; omega⟩
      intro t ht
      simp only at ht
      rcases pending_from_estimate s b now with hp | ⟨r, he, hp⟩
      · rw [hp] at ht
        obtain ⟨r, e, hr, hke, hc⟩ := hpos t ht
        exact ⟨r, e, hr.mono _, hke, hc⟩
      · rw [hp] at ht
        cases ht
        refine ⟨(historyAfter s b now).map (·.data), (log ++ [b.take MAXLEN]).length,
          runEndsAt_of_suffix _ _ (historyAfter_suffix log T now s b hinv)
            (by simpa using historyAfter_length_le s b now), by simp; omega, ?_⟩
        rw [C08.acceptNew_data]
        exact estimate_from_history s b now r he

theorem pendPos_of_none (log : List (List Byte)) (s : AState) (k : Nat) (h : s.pending = none) :
    PendPos log s k := by
  intro t ht; rw [h] at ht; cases ht

/-- **Reports follow the burst log — the run invariant.** -/
theorem run_matches (ops : List AOp) : ∀ (s : AState) (log : List (List Byte)) (T k : Nat),
    Sorted ops → (∀ op ∈ ops, T ≤ op.time) → Inv log T s → PendPos log s k → k ≤ log.length →
    ∃ ends, Matches (log ++ burstLog ops) (runOps s ops).2 ends ∧ ends.Pairwise (· < ·)
      ∧ ∀ e ∈ ends, k < e := by
  induction ops with
  | nil => intro s log T k _ _ _ _ _; exact ⟨[], .nil, List.Pairwise.nil, by simp⟩
  | cons op ops ih =>
    intro s log T k hsort hT hinv hpos hk
    have hsort' : Sorted ops := (List.pairwise_cons.mp hsort).2
    have hle : ∀ op' ∈ ops, op.time ≤ op'.time := (List.pairwise_cons.mp hsort).1
    obtain ⟨log', T', hlog', hT', hinv', hpos', hk'⟩ :=
      pre_step s op log T k (hT op (by simp)) hinv hpos hk
    have hlogeq : log ++ burstLog (op :: ops) = log' ++ burstLog ops := by
      rw [← hlog']
      cases op with
      | poll t => simp [burstLog]
      | burst b t =>
        simp only [burstLog]
        split <;> simp
    have hinv'' : Inv log' op.time (aIdle (Asm.preIdle s op) op.time).1 :=
      inv_idle log' T' op.time _ hT' hinv'
    rw [hlogeq, Asm.runOps_cons_snd, Asm.stepOp_eq]
    rcases Asm.idle_cases (Asm.preIdle s op) op.time with
      ⟨t, m, hp, _, hdat, he⟩ | ⟨t, e, hp, _, hdat, he⟩ | ⟨_, he⟩
    · obtain ⟨r, e, hr, hke, hc⟩ := hpos' t hp
      obtain ⟨ends, hm, hpw, hgt⟩ := ih (aIdle (Asm.preIdle s op) op.time).1 log' op.time e hsort' hle
        hinv'' (pendPos_of_none _ _ _ (by rw [he])) hr.le
      refine ⟨e :: ends, ?_, List.pairwise_cons.mpr ⟨hgt, hpw⟩, ?_⟩
      · rw [he]
        simp only [outOf, List.cons_append, List.nil_append]
        rw [he] at hm
        exact .cons ⟨r, hr.mono _, by rw [hc, hdat]⟩ hm
      · intro x hx
        rcases List.mem_cons.mp hx with rfl | hx
        · exact hke
        · exact Nat.lt_trans hke (hgt x hx)
    · obtain ⟨r, e', hr, hke, hc⟩ := hpos' t hp
      obtain ⟨ends, hm, hpw, hgt⟩ := ih (aIdle (Asm.preIdle s op) op.time).1 log' op.time e' hsort' hle
        hinv'' (pendPos_of_none _ _ _ (by rw [he])) hr.le
      refine ⟨e' :: ends, ?_, List.pairwise_cons.mpr ⟨hgt, hpw⟩, ?_⟩
      · rw [he]
        simp only [outOf, List.cons_append, List.nil_append]
        rw [he] at hm
        exact .cons ⟨r, hr.mono _, by rw [hc, hdat]⟩ hm
      · intro x hx
        rcases List.mem_cons.mp hx with rfl | hx
        · exact hke
        · exact Nat.lt_trans hke (hgt x hx)
    · have hpos'' : PendPos log' (aIdle (Asm.preIdle s op) op.time).1 k := by
        rw [he]; exact hpos'
      obtain ⟨ends, hm, hpw, hgt⟩ := ih (aIdle (Asm.preIdle s op) op.time).1 log' op.time k hsort' hle
        hinv'' hpos'' hk'
      refine ⟨ends, ?_, hpw, hgt⟩
      have hq : outOf op.time (aIdle (Asm.preIdle s op) op.time).2 = [] := by
        rw [he]; simp only; split <;> rfl
      rw [hq]
      exact hm

/-- the output ticks are operation ticks, in order -/
theorem out_times_sublist (ops : List AOp) : ∀ s : AState,
    ((runOps s ops).2.map (·.1)).Sublist (ops.map AOp.time) := by
  induction ops with
  | nil => intro s; exact List.Sublist.refl _
  | cons op ops ih =>
    intro s
    rw [Asm.runOps_cons_snd, List.map_append, List.map_cons]
    cases (stepOp s op).2 with
    | message r => exact (ih _).cons_cons _
    | idle => exact (ih _).cons _
    | assembling => exact (ih _).cons _

theorem matches_split (log : List (List Byte)) (o : Nat × MsgResult) :
    ∀ (pre post : List (Nat × MsgResult)) (ends : List Nat), Matches log (pre ++ o :: post) ends →
    ∃ e1 e e2, ends = e1 ++ e :: e2 ∧ e1.length = pre.length ∧ Matches log post e2
      ∧ ∃ r, RunEndsAt r log e ∧ combine MAXLEN r = some o.2 := by
  intro pre
  induction pre with
  | nil =>
    intro post ends h
    cases h with
    | cons h1 h2 => exact ⟨[], _, _, rfl, rfl, h2, h1⟩
  | cons a pre ih =>
    intro post ends h
    cases h with
    | cons h1 h2 =>
      obtain ⟨e1, e, e2, heq, hl, hm, hr⟩ := ih post _ h2
      exact ⟨_ :: e1, e, e2, by rw [heq]; rfl, by simp [hl], hm, hr⟩

end SameVerif.AsmPos

/-
  The gap zone: the next transmission starts while exactly one burst of the previous one is still
  stored, and the two-burst vote over the old and the new header is an error.
-/
namespace SameVerif.Asm

/-- a pending error that is due is output; `previous` is untouched -/
theorem idle_of_due_err (s : AState) (t : Timed MsgResult) (e : DecodeErr) (now : Nat)
    (hp : s.pending = some t) (hdat : t.data = .error e) (hd : t.deadline ≤ now) :
    aIdle s now = ({ history := pruneHistory s.history now, pending := none,
                     previous := s.previous }, .message (.error e)) := by
  rcases idle_cases s now with ⟨t', m', h, _, hdat', _⟩ | ⟨t', e', h, _, hdat', he⟩ | ⟨h, _⟩
  · rw [hp] at h; cases h
    rw [hdat] at hdat'; cases hdat'
  · rw [hp] at h; cases h
    rw [hdat] at hdat'; cases hdat'
    exact he
  · rcases h with h | ⟨t', h, hd'⟩
    · rw [hp] at h; cases h
    · rw [hp] at h; cases h; omega

/-- polls of which at least one is at or after the deadline of a pending error: the error is
    output exactly once, by the first such poll; afterwards the slot is empty -/
theorem run_polls_release_err (polls : List Nat) (tm : Timed MsgResult) (e : DecodeErr)
    (hdat : tm.data = .error e) :
    ∀ s : AState, s.pending = some tm → (∃ u ∈ polls, tm.deadline ≤ u) →
    ∃ u ∈ polls, tm.deadline ≤ u ∧ (runOps s (polls.map .poll)).2 = [(u, .error e)]
      ∧ (runOps s (polls.map .poll)).1.pending = none
      ∧ (runOps s (polls.map .poll)).1.previous = s.previous := by
  induction polls with
  | nil => intro s _ hex; obtain ⟨u, hu, _⟩ := hex; cases hu
  | cons v polls ih =>
    intro s hp hex
    simp only [List.map_cons, runOps_cons_snd, runOps_cons_fst, stepOp, AOp.time]
    by_cases hv : tm.deadline ≤ v
    · have hi := idle_of_due_err s tm e v hp hdat hv
      obtain ⟨h1, h2, h3⟩ := run_polls_quiet polls (aIdle s v).1 (by rw [hi])
      refine ⟨v, by simp, hv, ?_, h2, ?_⟩
      · rw [h1, hi]; rfl
      · rw [h3, hi]
    · have hi := idle_of_not_due s tm v hp (by omega)
      have hex' : ∃ u ∈ polls, tm.deadline ≤ u := by
        obtain ⟨u, hu, hd⟩ := hex
        rcases List.mem_cons.mp hu with rfl | hu
        · exact absurd hd hv
        · exact ⟨u, hu, hd⟩
      obtain ⟨u, hu, hd, h1, h2, h3⟩ := ih (aIdle s v).1 (by rw [hi.1]) hex'
      refine ⟨u, by simp [hu], hd, ?_, h2, ?_⟩
      · rw [outOf_quiet _ _ hi.2, h1]; rfl
      · rw [h3, hi.1]

/-- a burst that completes a StartOfMessage the duplicate filter lets through, with nothing or an
    error pending: the message takes the slot -/
theorem burst_accepted_over_error (s : AState) (b : List Byte) (now : Nat) (h : Header)
    (hne : b.isEmpty = false)
    (hp : s.pending = none ∨ ∃ e d, s.pending = some ⟨.error e, d⟩)
    (hc : combine MAXLEN ((historyAfter s b now).map (·.data)) = some (.ok (.som h)))
    (hprev : ∀ p, s.previous = some p → p.data.text ≠ h.text) :
    (stepOp s (.burst b now)).1.pending = some ⟨.ok (.som h), now + HOLD⟩
      ∧ (stepOp s (.burst b now)).1.previous = prunePrevious s.previous now
      ∧ ∀ r, (stepOp s (.burst b now)).2 ≠ .message r := by
  have hest : estimateOf s b now = some (.ok (.som h)) := by
    unfold estimateOf
    rw [hc]
    apply dedup_pass
    intro p hpp
    rcases prunePrevious_cases s.previous now with ⟨hn, _⟩ | ⟨hk, _⟩
    · rw [hn] at hpp; cases hpp
    · rw [hk] at hpp; exact hprev p hpp
  have hpa : pendingAfter s b now = some ⟨.ok (.som h), now + HOLD⟩ := by
    unfold pendingAfter; rw [hest]
    rcases hp with hp | ⟨e, d, hp⟩
    · simp only [hp, accept, acceptNew_som]
    · simp only [hp, accept, acceptReplaces, ↓reduceIte, acceptNew_som]
  obtain ⟨hs, hq⟩ := step_burst_pending s b now _ hne hpa (by have := HOLD_pos; simp only; omega)
  rw [hs]
  exact ⟨rfl, rfl, hq⟩

/-- **A different header while exactly one leftover burst is alive.**  The first burst `B` ends in
    `[d2, d3)`: it is voted with the one remaining `A`, and that vote is an error, held until
    `b1 + HOLD`.  If a poll reaches that deadline before the second burst `B`, the error is output
    (once); otherwise the second burst's vote replaces it.  Either way a header `hB` is then held
    until `b2 + HOLD`. -/
theorem second_mid_held (S : AState) (A B : List Byte) (m : Msg) (d d2 d3 T b1 b2 : Nat)
    (err : DecodeErr) (hABB hBB : Header) (polls1 : List Nat)
    (hne : B.isEmpty = false) (hfit : B.length ≤ MAXLEN)
    (hL : LeftBy S m d [⟨A, d2⟩, ⟨A, d3⟩] T) (hT : T ≤ b1)
    (hd2 : d2 ≤ b1) (hd3 : b1 < d3)
    (hcAB : combine MAXLEN [A, B] = some (.error err))
    (hcABB : combine MAXLEN [A, B, B] = some (.ok (.som hABB)))
    (hcBB : combine MAXLEN [B, B] = some (.ok (.som hBB)))
    (hne1 : m.text ≠ hABB.text) (hne2 : m.text ≠ hBB.text)
    (h21 : b2 < b1 + HIST)
    (hp1 : ∀ u ∈ polls1, u ≤ b2) :
    ∃ (S2 : AState) (hB : Header) (errs : List (Nat × MsgResult)), (hB = hABB ∨ hB = hBB)
      ∧ ((errs = [] ∧ ∀ u ∈ polls1, u < b1 + HOLD)
          ∨ ∃ p ∈ polls1, b1 + HOLD ≤ p ∧ errs = [(p, .error err)])
      ∧ (∀ rest, runOps S (.burst B b1 :: (polls1.map .poll ++ .burst B b2 :: rest))
          = ((runOps S2 rest).1, errs ++ (runOps S2 rest).2))
      ∧ S2.history = [⟨B, b1 + HIST⟩, ⟨B, b2 + HIST⟩]
      ∧ S2.pending = some ⟨.ok (.som hB), b2 + HOLD⟩
      ∧ (∀ p, S2.previous = some p → p.data = m) := by
  have htake : B.take MAXLEN = B := List.take_of_length_le hfit
  have hHpos := HIST_pos
  have hHOLD := HOLD_pos
  -- first burst: the vote over `A B` is an error, held
  have hist1 : historyAfter S B b1 = [⟨A, d3⟩, ⟨B, b1 + HIST⟩] := by
    rw [historyAfter, hL.hist b1 hT, htake,
      prune_two_second _ _ b1 (by simp only; omega) (by simp only; omega)]
    rfl
  have hest1 : estimateOf S B b1 = some (.error err) := by
    unfold estimateOf
    rw [hist1]
    simp only [List.map_cons, List.map_nil]
    rw [hcAB]
    rfl
  have hpa1 : pendingAfter S B b1 = some ⟨.error err, b1 + HOLD⟩ := by
    unfold pendingAfter; rw [hest1]; simp only [hL.pending, accept, acceptNew_error]
  obtain ⟨hs1, hq1⟩ := step_burst_pending S B b1 _ hne hpa1 (by simp only; omega)
  rw [hist1, prune_two_fresh _ _ b1 (by simp only; omega) (by simp only; omega)] at hs1
  generalize hS1 : (stepOp S (.burst B b1)).1 = S1 at hs1
  have hS1h : S1.history = [⟨A, d3⟩, ⟨B, b1 + HIST⟩] := by rw [hs1]
  have hS1p : S1.pending = some ⟨.error err, b1 + HOLD⟩ := by rw [hs1]
  have hS1v : ∀ p, S1.previous = some p → p.data = m := by
    intro p hp
    rw [hs1] at hp
    simp only at hp
    rcases prunePrevious_cases S.previous b1 with ⟨hn, _⟩ | ⟨hk, _⟩
    · rw [hn] at hp; cases hp
    · rw [hk, hL.previous] at hp; cases hp; rfl
  -- polls: the error is released, or it waits
  have hpolls : ∃ errs : List (Nat × MsgResult),
      ((errs = [] ∧ ∀ u ∈ polls1, u < b1 + HOLD)
          ∨ ∃ p ∈ polls1, b1 + HOLD ≤ p ∧ errs = [(p, .error err)])
      ∧ (runOps S1 (polls1.map .poll)).2 = errs
      ∧ ((runOps S1 (polls1.map .poll)).1.pending = none
          ∨ ∃ e d, (runOps S1 (polls1.map .poll)).1.pending = some ⟨.error e, d⟩)
      ∧ (runOps S1 (polls1.map .poll)).1.previous = S1.previous := by
    by_cases hB : ∃ u ∈ polls1, b1 + HOLD ≤ u
    · obtain ⟨p, hp, hd, hout, hpn, hpv⟩ := run_polls_release_err polls1 ⟨.error err, b1 + HOLD⟩ err rfl
        S1 hS1p hB
      exact ⟨[(p, .error err)], Or.inr ⟨p, hp, hd, rfl⟩, hout, Or.inl hpn, hpv⟩
    · have hA : ∀ u ∈ polls1, u < b1 + HOLD := by
        intro u hu
        by_cases h : u < b1 + HOLD
        · exact h
        · exact absurd ⟨u, hu, by omega⟩ hB
      obtain ⟨hout, hpn, hpv⟩ := run_polls_waiting polls1 ⟨.error err, b1 + HOLD⟩ S1 hS1p hA
      exact ⟨[], Or.inl ⟨rfl, hA⟩, hout, Or.inr ⟨err, b1 + HOLD, hpn⟩, hpv⟩
  obtain ⟨errs, herrs, hout, hpend', hprev'⟩ := hpolls
  have hprune := (run_polls_prune polls1 b2 S1 (by rw [hS1h]; simp) hp1).1
  generalize hS1' : (runOps S1 (polls1.map .poll)).1 = S1' at hout hpend' hprev' hprune
  rw [hS1h] at hprune
  -- second burst
  have key : ∃ hB : Header, (hB = hABB ∨ hB = hBB) ∧
      combine MAXLEN ((historyAfter S1' B b2).map (·.data)) = some (.ok (.som hB)) ∧
      pruneHistory (historyAfter S1' B b2) b2 = [⟨B, b1 + HIST⟩, ⟨B, b2 + HIST⟩] := by
    by_cases hlive3 : b2 < d3
    · refine ⟨hABB, Or.inl rfl, ?_, ?_⟩
      · rw [historyAfter, hprune, htake,
          prune_two_fresh _ _ b2 (by simp only; omega) (by simp only; omega)]
        exact hcABB
      · rw [historyAfter, hprune, htake,
          prune_two_fresh _ _ b2 (by simp only; omega) (by simp only; omega)]
        exact prune_three_fresh _ _ _ b2 (by simp only; omega) (by simp only; omega)
          (by simp only; omega)
    · refine ⟨hBB, Or.inr rfl, ?_, ?_⟩
      · rw [historyAfter, hprune, htake,
          prune_two_second _ _ b2 (by simp only; omega) (by simp only; omega)]
        exact hcBB
      · rw [historyAfter, hprune, htake,
          prune_two_second _ _ b2 (by simp only; omega) (by simp only; omega)]
        exact prune_two_fresh _ _ b2 (by simp only; omega) (by simp only; omega)
  obtain ⟨hB, hBc, hc, hh2'⟩ := key
  have hneB : m.text ≠ hB.text := by rcases hBc with rfl | rfl <;> assumption
  obtain ⟨hpend2, hpv2, hq2⟩ := burst_accepted_over_error S1' B b2 hB hne hpend' hc
    (by
      intro p hp
      rw [hprev'] at hp
      rw [hS1v p hp]; exact hneB)
  have hh2 := step_burst_history S1' B b2 hne
  rw [hh2'] at hh2
  refine ⟨(stepOp S1' (.burst B b2)).1, hB, errs, hBc, herrs, ?_, hh2, hpend2, ?_⟩
  · intro rest
    rw [runOps_cons, outOf_quiet _ _ hq1, hS1, runOps_append, hout, hS1']
    simp only [List.nil_append]
    rw [runOps_cons, outOf_quiet _ _ hq2]
    simp only [List.nil_append]
  · intro p hpp
    rw [hpv2] at hpp
    rcases prunePrevious_cases S1'.previous b2 with ⟨hn, _⟩ | ⟨hk, _⟩
    · rw [hn] at hpp; cases hpp
    · rw [hk, hprev'] at hpp; exact hS1v p hpp

end SameVerif.Asm
