import SameVerif.Lemmas.LinkPhases
/- One burst through the link model: the phases put together (support for C01). -/
namespace SameVerif
open SameVerif.Spec

/-- warm-up or no hit: an unsynchronised, idle receiver stays so and reports `noCarrier` -/
theorem lstep_ready (c : LCfg) (s : LState) (o : Obs) (b : Byte) (hs : Ready s)
    (hno : 31 ≤ s.nsym → NoHit c s o) :
    (lstep c s o b).2.1 = .noCarrier ∧ Ready (lstep c s o b).1 := by
  by_cases h : s.nsym + 1 < 32
  · have h1 : (lstep c s o b).2.1 = .noCarrier ∧ (lstep c s o b).1.clock = s.clock
        ∧ (lstep c s o b).1.lock = s.lock ∧ (lstep c s o b).1.fr = .idle := by
      simp [lstep, h, hs.fr, fend]
    exact ⟨h1.1, ⟨by rw [h1.2.1, hs.clock], by rw [h1.2.2.1, hs.lock], h1.2.2.2⟩⟩
  · obtain ⟨o1, o2, o3, o4, _⟩ := lstep_quiet c s o b (by omega) hs.clock hs.fr (hno (by omega))
    exact ⟨o1, ⟨o2, by rw [o3, hs.lock], o4⟩⟩

/-- **quiet run.**  While no hit is possible (`QuietNoHit`: at every tick, once the sample history
    is full, the model's state and the observation exclude a sync hit) an unsynchronised, idle
    receiver stays so, reports `noCarrier` throughout and no burst -/
theorem quiet_run (c : LCfg) (xs : List Tick) :
    ∀ s, Ready s → QuietNoHit c s xs →
      (∀ ls ∈ lrun c s xs, ls = .noCarrier) ∧ lrunBursts c s xs = []
        ∧ Ready (lrunState c s xs) := by
  induction xs with
  | nil => intro s hs _; exact ⟨by simp [lrun], rfl, hs⟩
  | cons x xs ih =>
    intro s hs hx
    obtain ⟨o1, hs'⟩ := lstep_ready c s x.1 x.2 hs (fun h => hx 0 (by omega) x rfl)
    have hx' : QuietNoHit c (lstep c s x.1 x.2).1 xs := by
      intro t h31 y hy
      rw [lstep_nsym] at h31
      exact hx (t + 1) (by omega) y (by simpa using hy)
    obtain ⟨r1, r2, r3⟩ := ih _ hs' hx'
    refine ⟨?_, ?_, ?_⟩
    · intro ls hls
      simp only [lrun, List.mem_cons] at hls
      rcases hls with h | h
      · rw [h, o1]
      · exact r1 ls h
    · rw [show x :: xs = [x] ++ xs from rfl, lrunBursts_append, lrunBursts_single, o1]
      exact r2
    · exact r3

theorem quiescent_of_ready {s : LState} (h : Ready s) (hw : 32 ≤ s.nsym) : Quiescent s :=
  ⟨hw, h.clock, h.lock, h.fr⟩

/-- while the power is below the open threshold a quiescent receiver stays quiescent -/
theorem quiet_run_closed (c : LCfg) (xs : List Tick) (hx : ∀ x ∈ xs, x.1.openOk = false) :
    ∀ s, Quiescent s →
      (∀ ls ∈ lrun c s xs, ls = .noCarrier) ∧ lrunBursts c s xs = []
        ∧ Quiescent (lrunState c s xs) := by
  intro s hs
  obtain ⟨r1, r2, r3⟩ := quiet_run c xs s hs.ready
    (fun t _ => noHitAt_of_closed c s xs t (fun x h => hx x (List.mem_of_getElem? h)))
  exact ⟨r1, r2, quiescent_of_ready r3 (by rw [nsym_run]; have := hs.warm; omega)⟩

section
variable {pl : List Byte} {lead body tail : List Tick} {acq rel : Nat}

/-- the first sync tick: the end of the first byte-aligned 32-bit window at or after `acq + 31` -/
def syncTick (acq : Nat) : Nat := 8 * ((acq + 31) / 8) + 7

/-- state right after the first sync -/
theorem first_sync_state (H : BurstObserved' pl body tail acq rel) (hok : PayloadOk pl)
    (c : LCfg) (hE : c.maxErrors ≤ 6) (hP : c.fc.maxPrefixErr < 15) (s1 : LState) (hq : Quiescent s1)
    (N : BTNoHit c s1 body tail acq) :
    (lrunState c s1 ((body ++ tail).take (syncTick acq + 1))).clock = some 1
      ∧ (lrunState c s1 ((body ++ tail).take (syncTick acq + 1))).lock = false
      ∧ (lrunState c s1 ((body ++ tail).take (syncTick acq + 1))).fr = .search 0xAB 1
      ∧ (lrunState c s1 ((body ++ tail).take (syncTick acq + 1))).train = 3
      ∧ lrunBursts c s1 ((body ++ tail).take (syncTick acq + 1)) = [] := by
  have hacq := H.acq_le
  unfold syncTick
  exact phase_sync H hok c hE hP s1 hq N _ (by omega) (by omega) (by omega) (by intro t h1 h2; omega)

/-- state before the byte tick that follows the last payload byte (tail index 31): the framer has
    read exactly the payload, the squelch is locked, nothing has been reported yet -/
theorem synced_end (H : BurstObserved' pl body tail acq rel) (hok : PayloadOk pl)
    (hdash : ∀ h : 4 < pl.length, pl[4] = 45)
    (c : LCfg) (hE : c.maxErrors ≤ 6) (hF : PrefixFacts c.fc pl) (s1 : LState) (hq : Quiescent s1)
    (N : BTNoHit c s1 body tail acq) :
    (lrunState c s1 ((body ++ tail).take (body.length + 31))).clock = some 0
      ∧ (lrunState c s1 ((body ++ tail).take (body.length + 31))).lock = true
      ∧ (lrunState c s1 ((body ++ tail).take (body.length + 31))).train = 0
      ∧ (lrunState c s1 ((body ++ tail).take (body.length + 31))).fr = .read pl 0
      ∧ lrunBursts c s1 ((body ++ tail).take (body.length + 31)) = [] := by
  have hlen := H.body_len
  have hfl := frame_length pl
  have hpl := payload_len_ge hok
  have htl := H.tail_len
  have hacq := H.acq_le
  have hsync := first_sync_state H hok c hE hF.b0 s1 hq N
  unfold syncTick at hsync
  have hq3 : 3 ≤ (acq + 31) / 8 := by omega
  have hq15 : (acq + 31) / 8 ≤ 15 := by omega
  generalize hq0 : (acq + 31) / 8 = q0 at hq3 hq15 hsync
  have hj0 : acq + 31 ≤ 8 * q0 + 7 := by omega
  have hd : 8 * q0 + 8 + (body.length + 31 - (8 * q0 + 8)) = body.length + 31 := by omega
  have hsy := phase_synced H hok hdash c hE hF s1 hq N q0 hq3 hq15 hj0 hsync
    (body.length + 31 - (8 * q0 + 8)) (by omega)
  rw [hd] at hsy
  obtain ⟨y1, y2, y3, y4, y5⟩ := hsy
  have e1 : (body.length + 31 - (8 * q0 + 8)) % 8 = 7 := by omega
  have e2 : (body.length + 31 - (8 * q0 + 8)) / 8 + 1 = 19 - q0 + pl.length := by omega
  rw [e1] at y1
  rw [e2] at y2 y3 y4
  have hfr : Fst (19 - q0) pl (19 - q0 + pl.length) = .read pl 0 := by
    unfold Fst
    rw [if_neg (by omega), if_neg (by omega), if_neg (by omega), if_neg (by omega),
      show 19 - q0 + pl.length - (19 - q0) = pl.length by omega, List.take_length]
  refine ⟨y1, ?_, ?_, ?_, y5⟩
  · rw [y4]; simp; omega
  · rw [y2]; omega
  · rw [y3, hfr]

/-- `body ++ tail` from a quiescent state: exactly one burst, `payload ++ g` -/
theorem burst_body_tail (H : BurstObserved' pl body tail acq rel) (hok : PayloadOk pl)
    (hdash : ∀ h : 4 < pl.length, pl[4] = 45)
    (c : LCfg) (hE : c.maxErrors ≤ 6) (hF : PrefixFacts c.fc pl) (s1 : LState) (hq : Quiescent s1)
    (N : BTNoHit c s1 body tail acq) :
    ∃ g, lrunBursts c s1 (body ++ tail) = [pl ++ g] ∧ g.length ≤ (rel + 7) / 8
      ∧ Quiescent (lrunState c s1 (body ++ tail)) := by
  have htl := H.tail_len
  have hbase := synced_end H hok hdash c hE hF s1 hq N
  have hg := phase_garbage H.tracked hok c s1 hq.warm N.late hbase (tail.length - 31) (by omega)
  unfold GarbageInv at hg
  have hall : body.length + (31 + (tail.length - 31)) = (body ++ tail).length := by
    rw [List.length_append]; omega
  rw [hall, List.take_length] at hg
  rcases hg with ⟨hk, _⟩ | ⟨g1, g2, g3, g, g4, g5⟩
  · omega
  · exact ⟨g, g4, g5, ⟨by rw [nsym_run]; have := hq.warm; omega, g1, g2, g3⟩⟩

/-- one burst, from lead-in to the end of the tail; the start state need only be unsynchronised
    and idle, provided the lead-in fills the sample history -/
theorem burst_whole {lead : List Tick} (H : BurstObserved' pl body tail acq rel) (hok : PayloadOk pl)
    (hdash : ∀ h : 4 < pl.length, pl[4] = 45)
    (c : LCfg) (hE : c.maxErrors ≤ 6) (hF : PrefixFacts c.fc pl) (s : LState) (hq : Ready s)
    (hw : 32 ≤ s.nsym + lead.length) (N : NoFalseHits c s lead body tail acq) :
    ∃ g, lrunBursts c s (lead ++ body ++ tail) = [pl ++ g] ∧ g.length ≤ (rel + 7) / 8
      ∧ Quiescent (lrunState c s (lead ++ body ++ tail)) := by
  obtain ⟨_, l2, l3⟩ := quiet_run c lead s hq N.quiet
  obtain ⟨g, b1, b2, b3⟩ := burst_body_tail H hok hdash c hE hF _
    (quiescent_of_ready l3 (by rw [nsym_run]; exact hw)) N.bt
  refine ⟨g, ?_, b2, ?_⟩
  · rw [List.append_assoc, lrunBursts_append, l2, b1]; rfl
  · rw [List.append_assoc, lrunState_append]; exact b3

end
end SameVerif
