import SameVerif.Lemmas.LinkStep
import SameVerif.Spec.FrontEnd
/- The correlator window and the power history as functions of the input stream (support for C01). -/
namespace SameVerif

theorem getLsbD_corrPush (w : UInt32) (b : Bool) (i : Nat) (hi : i < 32) :
    (corrPush w b).toBitVec.getLsbD i = if i = 31 then b else w.toBitVec.getLsbD (i + 1) := by
  have h1 : (1 : UInt32).toBitVec % 32 = 1#32 := by decide
  have h31 : (31 : UInt32).toBitVec % 32 = 31#32 := by decide
  have h1' : (1#32).toNat = 1 := by decide
  have h31' : (31#32).toNat = 31 := by decide
  unfold corrPush
  simp only [UInt32.toBitVec_or, UInt32.toBitVec_shiftRight, UInt32.toBitVec_shiftLeft, h1, h31,
    BitVec.getLsbD_or, BitVec.ushiftRight_eq', BitVec.getLsbD_ushiftRight, BitVec.shiftLeft_eq',
    BitVec.getLsbD_shiftLeft, h1', h31']
  by_cases h : i = 31
  · subst h
    cases b <;> simp
  · have : i < 31 := by omega
    cases b <;> simp [h, this, Nat.add_comm]

theorem popcount32_xor (a w : UInt32) :
    popcount32 (a ^^^ w)
      = (List.range 32).countP (fun i => a.toBitVec.getLsbD i != w.toBitVec.getLsbD i) := by
  unfold popcount32
  apply List.countP_congr
  intro i _
  simp [UInt32.toBitVec_xor]

/-! ### the state before tick `t` -/

theorem nsym_run (c : LCfg) (s : LState) (xs : List Tick) :
    (lrunState c s xs).nsym = s.nsym + xs.length := by
  induction xs generalizing s with
  | nil => rfl
  | cons x xs ih => simp only [lrunState, ih, lstep_nsym, List.length_cons]; omega

/-- after at least `32 - i` ticks, bit `i` of the correlator is the stream bit `32 - i` ticks back -/
theorem corr_run (c : LCfg) (s : LState) (xs : List Tick) :
    ∀ t (ht : t ≤ xs.length) i (hi : i < 32) (h : 32 ≤ t + i),
      (lrunState c s (xs.take t)).corr.toBitVec.getLsbD i = (xs[t + i - 32]'(by omega)).1.bit := by
  intro t
  induction t with
  | zero => intro _ i hi h; omega
  | succ t ih =>
    intro ht i hi h
    rw [lrunState_take_succ c s xs t (by omega), lstep_corr, getLsbD_corrPush _ _ _ hi]
    by_cases h31 : i = 31
    · subst h31
      rw [if_pos rfl]
      congr 3
    · rw [if_neg h31, ih (by omega) (i + 1) (by omega) (by omega)]
      congr 3
      omega

/-! ### power history -/

theorem push32_drop (H : List Bool) (b : Bool) :
    push32 (H.drop (H.length - 32)) b = (H ++ [b]).drop ((H ++ [b]).length - 32) := by
  unfold push32
  simp only [List.length_append, List.length_drop, List.length_cons, List.length_nil]
  by_cases h : H.length ≤ 32
  · have e1 : H.length - 32 = 0 := by omega
    have e2 : H.length - (H.length - 32) + (0 + 1) - 32 = H.length + (0 + 1) - 32 := by omega
    rw [e2, e1, List.drop_zero]
  · have e : H.length - (H.length - 32) + (0 + 1) - 32 = 1 := by omega
    rw [e, ← List.drop_append_of_le_length (by omega), List.drop_drop]
    congr 1
    omega

theorem map_take_succ {α β : Type} (f : α → β) (xs : List α) (t : Nat) (ht : t < xs.length) :
    (xs.take (t + 1)).map f = (xs.take t).map f ++ [f xs[t]] := by
  rw [← List.take_append_getElem ht, List.map_append]; rfl

theorem pwr_run (c : LCfg) (s : LState) (xs : List Tick) :
    ∀ t, 1 ≤ t → t ≤ xs.length →
      (lrunState c s (xs.take t)).pwr
        = (s.pwr ++ (xs.take t).map (fun x => x.1.closeOk)).drop
            ((s.pwr ++ (xs.take t).map (fun x => x.1.closeOk)).length - 32) := by
  intro t
  induction t with
  | zero => intro h; omega
  | succ t ih =>
    intro _ ht
    rw [lrunState_take_succ c s xs t (by omega), lstep_pwr, map_take_succ _ xs t (by omega),
      ← List.append_assoc]
    by_cases h0 : t = 0
    · subst h0
      simp only [List.take_zero, lrunState, List.map_nil, List.append_nil]
      rfl
    · rw [ih (by omega) (by omega), push32_drop]

/-- after at least 32 ticks the oldest power-history entry is the `closeOk` of 32 ticks back -/
theorem head_run (c : LCfg) (s : LState) (xs : List Tick) (t : Nat) (h32 : 32 ≤ t) (ht : t ≤ xs.length) :
    (lrunState c s (xs.take t)).pwr.headD true = (xs[t - 32]'(by omega)).1.closeOk := by
  rw [pwr_run c s xs t (by omega) ht]
  simp only [List.length_append, List.length_map, List.length_take, Nat.min_eq_left ht]
  have e : s.pwr.length + t - 32 = s.pwr.length + (t - 32) := by omega
  rw [e, List.drop_append, List.drop_eq_nil_of_le (by omega)]
  simp only [List.nil_append, Nat.add_sub_cancel_left]
  rw [List.headD_eq_head?_getD, List.head?_drop]
  simp [show t - 32 < t by omega, show t - 32 < xs.length by omega]

/-- bit of stream entry `m` (false beyond the end) -/
def bitAt (xs : List Tick) (m : Nat) : Bool := (xs[m]?.map (fun x => x.1.bit)).getD false

/-- what tick `t` computes as correlator error: a function of the last 32 bits -/
theorem errOf_run (c : LCfg) (s : LState) (xs : List Tick) (t : Nat) (h31 : 31 ≤ t) (ht : t < xs.length) :
    errOf (lrunState c s (xs.take t)) xs[t].1
      = (List.range 32).countP (fun i => SYNC_WORD.toBitVec.getLsbD i != bitAt xs (t - 31 + i)) := by
  unfold errOf
  rw [← lstep_corr c _ _ xs[t].2, ← lrunState_take_succ c s xs t ht, popcount32_xor]
  apply List.countP_congr
  intro i hi
  have hi : i < 32 := List.mem_range.mp hi
  rw [corr_run c s xs (t + 1) (by omega) i hi (by omega)]
  have e : t + 1 + i - 32 = t - 31 + i := by omega
  have hlt : t - 31 + i < xs.length := by omega
  simp [bitAt, e, hlt]

/-- what tick `t` looks at in the power history -/
theorem headOf_run (c : LCfg) (s : LState) (xs : List Tick) (t : Nat) (h31 : 31 ≤ t) (ht : t < xs.length) :
    headOf (lrunState c s (xs.take t)) xs[t].1 = (xs[t - 31]'(by omega)).1.closeOk := by
  unfold headOf
  rw [← lstep_pwr c _ _ xs[t].2, ← lrunState_take_succ c s xs t ht, head_run c s xs (t + 1) (by omega) (by omega)]
  congr 3

/-! ### transmitted bits -/

/-- bit `j` of the transmitted bit string -/
def frameBit (T : List Byte) (j : Nat) : Bool := bitOf (T.getD (j / 8) 0) (j % 8)

theorem bitsOf_getD (T : List Byte) (j : Nat) : (Spec.bitsOf T).getD j false = frameBit T j := by
  induction T generalizing j with
  | nil => simp [Spec.bitsOf, frameBit, bitOf]
  | cons b T ih =>
    have hb : Spec.bitsOf (b :: T) = (List.range 8).map (bitOf b) ++ Spec.bitsOf T := by
      simp [Spec.bitsOf]
    rw [hb]
    by_cases hj : j < 8
    · have : j / 8 = 0 := by omega
      have h8 : j % 8 = j := by omega
      simp [frameBit, this, h8, List.getD_eq_getElem?_getD, List.getElem?_append_left, hj]
    · have e1 : j / 8 = (j - 8) / 8 + 1 := by omega
      have e2 : j % 8 = (j - 8) % 8 := by omega
      have := ih (j - 8)
      simp only [List.getD_eq_getElem?_getD] at this ⊢
      rw [List.getElem?_append_right (by simp; omega)]
      simp only [List.length_map, List.length_range]
      rw [this]
      simp [frameBit, e1, e2]

/-- error of the 32-bit window ending at transmitted bit `j ≥ 31` against the sync word -/
def werr (T : List Byte) (j : Nat) : Nat :=
  (List.range 32).countP (fun i => SYNC_WORD.toBitVec.getLsbD i != frameBit T (j - 31 + i))

end SameVerif
