import SameVerif.Model.Framer
import SameVerif.Spec.Frame
/- Bit-level facts about the framer's 32-bit shift register (`wordOf`, `beBytes`). -/
namespace SameVerif
open SameVerif.Spec

/-- shifting a byte into the register, bit by bit -/
theorem getLsbD_shiftIn (w : UInt32) (x : Byte) (i : Nat) (hi : i < 32) :
    ((w <<< 8) ||| x.toUInt32).toBitVec.getLsbD i
      = if i < 8 then x.toBitVec.getLsbD i else w.toBitVec.getLsbD (i - 8) := by
  have h8 : (8 : UInt32).toBitVec % 32 = 8#32 := by decide
  have h8' : (8#32).toNat = 8 := by decide
  simp only [UInt32.toBitVec_or, UInt32.toBitVec_shiftLeft, UInt8.toBitVec_toUInt32, h8,
    BitVec.getLsbD_or, BitVec.shiftLeft_eq', BitVec.getLsbD_shiftLeft, BitVec.getLsbD_setWidth, h8']
  by_cases h : i < 8
  · simp only [h, hi, decide_true, Bool.not_true, Bool.and_false, Bool.true_and, Bool.false_and,
      Bool.false_or, if_true]
  · have hx : x.toBitVec.getLsbD i = false := BitVec.getLsbD_of_ge _ _ (by omega)
    simp only [h, hi, hx, decide_true, decide_false, Bool.not_false, Bool.and_false, Bool.true_and,
      Bool.or_false, if_false]

/-- bits of byte `n` (0 = least significant) of a 32-bit word -/
theorem getLsbD_shr_toUInt8 (w s : UInt32) (n : Nat) (hs : s.toBitVec % 32 = BitVec.ofNat 32 n)
    (hn : (BitVec.ofNat 32 n).toNat = n) (i : Nat) :
    ((w >>> s).toUInt8).toBitVec.getLsbD i = (decide (i < 8) && w.toBitVec.getLsbD (n + i)) := by
  simp only [UInt32.toBitVec_toUInt8, UInt32.toBitVec_shiftRight, hs, BitVec.getLsbD_setWidth,
      BitVec.ushiftRight_eq', BitVec.getLsbD_ushiftRight, hn]

/-- four shifts push the old register contents out completely -/
theorem getLsbD_shiftIn4 (w : UInt32) (a b c d : Byte) (i : Nat) (hi : i < 32) :
    ((((((((w <<< 8) ||| a.toUInt32) <<< 8) ||| b.toUInt32) <<< 8) ||| c.toUInt32) <<< 8)
        ||| d.toUInt32).toBitVec.getLsbD i
      = if i < 8 then d.toBitVec.getLsbD i
        else if i < 16 then c.toBitVec.getLsbD (i - 8)
        else if i < 24 then b.toBitVec.getLsbD (i - 16)
        else a.toBitVec.getLsbD (i - 24) := by
  rw [getLsbD_shiftIn _ _ _ hi]
  split
  · rfl
  · rw [getLsbD_shiftIn _ _ _ (by omega)]
    split
    · rw [if_pos (by omega)]
    · rw [if_neg (by omega), getLsbD_shiftIn _ _ _ (by omega)]
      split
      · rw [if_pos (by omega)]; congr 1
      · rw [if_neg (by omega), getLsbD_shiftIn _ _ _ (by omega), if_pos (by omega)]
        congr 1

theorem shiftIn4_indep (w w' : UInt32) (a b c d : Byte) :
    ((((((((w <<< 8) ||| a.toUInt32) <<< 8) ||| b.toUInt32) <<< 8) ||| c.toUInt32) <<< 8) ||| d.toUInt32)
      = ((((((((w' <<< 8) ||| a.toUInt32) <<< 8) ||| b.toUInt32) <<< 8) ||| c.toUInt32) <<< 8) ||| d.toUInt32) := by
  apply UInt32.eq_of_toBitVec_eq
  apply BitVec.eq_of_getLsbD_eq
  intro i hi
  rw [getLsbD_shiftIn4 _ _ _ _ _ _ hi, getLsbD_shiftIn4 _ _ _ _ _ _ hi]

theorem wordOf_four (a b c d : Byte) :
    wordOf [a, b, c, d]
      = ((((((((0 : UInt32) <<< 8) ||| a.toUInt32) <<< 8) ||| b.toUInt32) <<< 8) ||| c.toUInt32) <<< 8) ||| d.toUInt32 := by
  simp only [wordOf, List.foldl_cons, List.foldl_nil]

/-- shifting the next byte into the register = sliding the 4-byte window by one -/
theorem wordOf_slide (a b c d e : Byte) :
    wordOf [b, c, d, e] = (wordOf [a, b, c, d] <<< 8) ||| e.toUInt32 := by
  rw [wordOf_four, wordOf_four]
  exact shiftIn4_indep 0 ((0 : UInt32) <<< 8 ||| a.toUInt32) b c d e

theorem getLsbD_wordOf_four (a b c d : Byte) (i : Nat) (hi : i < 32) :
    (wordOf [a, b, c, d]).toBitVec.getLsbD i
      = if i < 8 then d.toBitVec.getLsbD i
        else if i < 16 then c.toBitVec.getLsbD (i - 8)
        else if i < 24 then b.toBitVec.getLsbD (i - 16)
        else a.toBitVec.getLsbD (i - 24) := by
  rw [wordOf_four, getLsbD_shiftIn4 _ _ _ _ _ _ hi]

/-- `to_be_bytes` gives back the four bytes that were shifted in, in arrival order -/
theorem beBytes_wordOf_four (a b c d : Byte) : beBytes (wordOf [a, b, c, d]) = [a, b, c, d] := by
  unfold beBytes
  congr 1
  · apply UInt8.eq_of_toBitVec_eq
    apply BitVec.eq_of_getLsbD_eq
    intro i hi
    rw [getLsbD_shr_toUInt8 _ _ 24 (by decide) (by decide), getLsbD_wordOf_four _ _ _ _ _ (by omega),
      if_neg (by omega), if_neg (by omega), if_neg (by omega)]
    simp only [hi, decide_true, Bool.true_and]
    congr 1; omega
  congr 1
  · apply UInt8.eq_of_toBitVec_eq
    apply BitVec.eq_of_getLsbD_eq
    intro i hi
    rw [getLsbD_shr_toUInt8 _ _ 16 (by decide) (by decide), getLsbD_wordOf_four _ _ _ _ _ (by omega),
      if_neg (by omega), if_neg (by omega), if_pos (by omega)]
    simp only [hi, decide_true, Bool.true_and]
    congr 1; omega
  congr 1
  · apply UInt8.eq_of_toBitVec_eq
    apply BitVec.eq_of_getLsbD_eq
    intro i hi
    rw [getLsbD_shr_toUInt8 _ _ 8 (by decide) (by decide), getLsbD_wordOf_four _ _ _ _ _ (by omega),
      if_neg (by omega), if_pos (by omega)]
    simp only [hi, decide_true, Bool.true_and]
    congr 1; omega
  congr 1
  · apply UInt8.eq_of_toBitVec_eq
    apply BitVec.eq_of_getLsbD_eq
    intro i hi
    rw [UInt32.toBitVec_toUInt8, BitVec.getLsbD_setWidth, getLsbD_wordOf_four _ _ _ _ _ (by omega),
      if_pos hi]
    simp only [hi, decide_true, Bool.true_and]

end SameVerif
