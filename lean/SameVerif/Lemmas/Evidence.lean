import SameVerif.Spec.Evidence
import SameVerif.Model.Message
import SameVerif.Thm.C03
import SameVerif.Lemmas.HeaderParse
/-
  Position-by-position characterisation of `estimateLoop`, and what `combine` keeps of it (C04).
-/
namespace SameVerif
open SameVerif.Spec

/-! ### columns -/

theorem column_nil (i : Nat) : column [] i = [] := rfl

theorem column_cons (b : List Byte) (bs : List (List Byte)) (i : Nat) :
    column (b :: bs) i = (match b[i]? with | some x => m7 x :: column bs i | none => column bs i) := by
  unfold column
  cases h : b[i]? <;> simp [h]

theorem column_zero (bs : List (List Byte)) :
    (bs.filterMap List.head?).map (fun b => b &&& ~~~(0x80 : Byte)) = column bs 0 := by
  induction bs with
  | nil => rfl
  | cons b bs ih =>
    rw [column_cons]
    cases b with
    | nil => simp only [List.filterMap_cons, List.head?_nil, List.getElem?_nil]; exact ih
    | cons x xs =>
      simp only [List.filterMap_cons, List.head?_cons, List.map_cons, List.getElem?_cons_zero, m7]
      rw [ih]

theorem column_tail (bs : List (List Byte)) (i : Nat) :
    column (bs.map List.tail) i = column bs (i + 1) := by
  induction bs with
  | nil => rfl
  | cons b bs ih =>
    rw [List.map_cons, column_cons, column_cons, ih]
    cases b with
    | nil => simp
    | cons x xs => simp

/-- the number of bytes in a column is the number of bursts that reach it -/
theorem column_length (bs : List (List Byte)) (i : Nat) :
    (column bs i).length = (bs.filter (fun b => i < b.length)).length := by
  induction bs with
  | nil => rfl
  | cons b bs ih =>
    rw [column_cons, List.filter_cons]
    by_cases h : i < b.length
    · simp [h, ih]
    · have : b[i]? = none := by simp; omega
      rw [this]; simp [h, ih]

theorem column_length_le (bs : List (List Byte)) (i : Nat) : (column bs i).length ≤ bs.length := by
  rw [column_length]; exact List.length_filter_le _ _

/-- what `SupportsByte` says of a run of exactly two bursts -/
theorem supportsByte_pair (a b : List Byte) (i : Nat) (c : Byte) (h : SupportsByte [a, b] i c) :
    (a[i]?).map m7 = some c ∧ (b[i]?).map m7 = some c := by
  unfold SupportsByte at h
  rw [column_cons, column_cons, column_nil] at h
  cases ha : a[i]? <;> cases hb : b[i]? <;> simp [ha, hb] at h ⊢
  exact h

theorem supportsByte_length (run : List (List Byte)) (i : Nat) (c : Byte) (h : SupportsByte run i c) :
    2 ≤ (column run i).length := by
  rcases h with ⟨a, b, hcol, _⟩ | ⟨a, b, d, hcol, _⟩ <;> rw [hcol] <;> simp

/-! ### one entry of the estimate -/

/-- entry `i` of the estimate is the vote over column `i`, is an allowed character, and records
    how many bursts reach position `i` -/
theorem estimateLoop_entry : ∀ (cap : Nat) (bs : List (List Byte)) (i : Nat) (e : EstByte),
    (estimateLoop cap bs)[i]? = some e →
      (∃ n, voteAt (column bs i) = some (e.byte, n)) ∧ e.nbursts = (column bs i).length
        ∧ isAllowed e.byte = true := by
  intro cap
  induction cap with
  | zero => intro bs i e h; simp [estimateLoop] at h
  | succ cap ih =>
    intro bs i e h
    simp only [estimateLoop, column_zero] at h
    cases hv : voteAt (column bs 0) with
    | none => simp [hv] at h
    | some p =>
      obtain ⟨est, nerr⟩ := p
      simp only [hv] at h
      by_cases hal : isAllowed est = true
      · simp only [hal, Bool.not_true, Bool.false_eq_true, ↓reduceIte] at h
        cases i with
        | zero =>
          simp only [List.getElem?_cons_zero, Option.some.injEq] at h
          subst h
          exact ⟨⟨nerr, hv⟩, rfl, hal⟩
        | succ j =>
          simp only [List.getElem?_cons_succ] at h
          have := ih (bs.map List.tail) j e h
          rw [column_tail] at this
          exact this
      · simp [hal] at h

/-- a vote over two or three bytes that yields an allowed character is justified -/
theorem voteAt_supported (cur : List Byte) (c : Byte) (n : Nat)
    (hv : voteAt cur = some (c, n)) (h2 : 2 ≤ cur.length) (hal : isAllowed c = true) :
    (∃ a b, cur = [a, b] ∧ a = c ∧ b = c) ∨
    (∃ a b d, cur = [a, b, d] ∧ ∀ k, k < 8 → bitOf c k = maj (bitOf a k) (bitOf b k) (bitOf d k)) := by
  match cur, hv, h2 with
  | [a, b], hv, _ =>
    left
    simp only [voteAt, C03.vote_detect_spec, Option.some.injEq, Prod.mk.injEq] at hv
    by_cases hab : a = b
    · subst hab; simp at hv; exact ⟨a, a, rfl, hv.1, hv.1⟩
    · simp only [hab, ↓reduceIte] at hv
      rw [← hv.1] at hal
      exact absurd hal (by decide)
  | [a, b, d], hv, _ =>
    right
    refine ⟨a, b, d, rfl, ?_⟩
    intro k hk
    simp only [voteAt, Option.some.injEq] at hv
    have := C03.vote_correct_majority a b d k hk
    rw [hv] at this
    exact this
  | [], _, h2 => simp at h2
  | [_], _, h2 => simp at h2
  | _ :: _ :: _ :: _ :: _, hv, _ => simp [voteAt] at hv

/-- a vote over a single byte is that byte -/
theorem voteAt_weak (cur : List Byte) (c : Byte) (n : Nat)
    (hv : voteAt cur = some (c, n)) (hal : isAllowed c = true) :
    cur = [c] ∨
    (∃ a b, cur = [a, b] ∧ a = c ∧ b = c) ∨
    (∃ a b d, cur = [a, b, d] ∧ ∀ k, k < 8 → bitOf c k = maj (bitOf a k) (bitOf b k) (bitOf d k)) := by
  by_cases h2 : 2 ≤ cur.length
  · exact Or.inr (voteAt_supported cur c n hv h2 hal)
  · left
    match cur, hv, h2 with
    | [], hv, _ => simp [voteAt] at hv
    | [a], hv, _ => simp [voteAt] at hv; rw [hv.1]
    | _ :: _ :: _, _, h2 => simp at h2

/-- every entry of the estimate backed by at least two bursts is justified by the bursts -/
theorem estimateLoop_supported (cap : Nat) (bs : List (List Byte)) (i : Nat) (e : EstByte)
    (h : (estimateLoop cap bs)[i]? = some e) (h2 : 2 ≤ e.nbursts) :
    SupportsByte bs i e.byte := by
  obtain ⟨⟨n, hv⟩, hn, hal⟩ := estimateLoop_entry cap bs i e h
  exact voteAt_supported _ _ n hv (by omega) hal

theorem estimateLoop_weakly_supported (cap : Nat) (bs : List (List Byte)) (i : Nat) (e : EstByte)
    (h : (estimateLoop cap bs)[i]? = some e) :
    WeaklySupportsByte bs i e.byte := by
  obtain ⟨⟨n, hv⟩, _, hal⟩ := estimateLoop_entry cap bs i e h
  exact voteAt_weak _ _ n hv hal

/-! ### what `combine` keeps -/

theorem takeWhile_get {α} (p : α → Bool) : ∀ (l : List α) (i : Nat), i < (l.takeWhile p).length →
    ∃ x, l[i]? = some x ∧ p x = true := by
  intro l
  induction l with
  | nil => intro i h; simp at h
  | cons a l ih =>
    intro i h
    rw [List.takeWhile_cons] at h
    by_cases ha : p a = true
    · simp only [ha, ↓reduceIte, List.length_cons] at h
      cases i with
      | zero => exact ⟨a, by simp, ha⟩
      | succ j =>
        obtain ⟨x, hx, hp⟩ := ih j (by omega)
        exact ⟨x, by simpa using hx, hp⟩
    · simp [ha] at h

/-- the stored header text is a non-empty-length prefix of the text handed to the parser -/
theorem newWithErrorInfo_text (s : List Byte) (errs counts : List Nat) (h : Header)
    (hn : Header.newWithErrorInfo s errs counts = .ok h) : ∃ len, 0 < len ∧ h.text = s.take len := by
  unfold Header.newWithErrorInfo Header.newWithErrors Header.new at hn
  by_cases ha : s.all isAsciiByte = true
  · simp only [ha, Bool.not_true, Bool.false_eq_true, ↓reduceIte] at hn
    cases hc : checkHeader s with
    | none => simp [hc] at hn
    | some p =>
      obtain ⟨off, len⟩ := p
      simp only [hc, Except.ok.injEq] at hn
      subst hn
      refine ⟨len, ?_, rfl⟩
      unfold checkHeader at hc
      cases hp : parseFields s with
      | none => simp [hp] at hc
      | some f => simp [hp] at hc; omega
  · simp [ha] at hn

theorem tryFromBytes_som (inp : List Byte) (errs counts : List Nat) (h : Header)
    (ht : Msg.tryFromBytes inp errs counts = .ok (.som h)) :
    startsWith inp litZCZC = true ∧ ∃ len, 0 < len ∧ h.text = inp.take len := by
  unfold Msg.tryFromBytes at ht
  split at ht
  · cases ht
  · split at ht
    · rename_i hs
      refine ⟨hs, ?_⟩
      cases hn : Header.newWithErrorInfo inp errs counts with
      | error e => simp [hn] at ht
      | ok h' =>
        simp only [hn, Except.ok.injEq, Msg.som.injEq] at ht
        subst ht
        exact newWithErrorInfo_text inp errs counts h' hn
    · split at ht <;> cases ht

theorem tryFromBytes_eom (inp : List Byte) (errs counts : List Nat)
    (ht : Msg.tryFromBytes inp errs counts = .ok .eom) : startsWith inp litNN = true := by
  unfold Msg.tryFromBytes at ht
  split at ht
  · cases ht
  · split at ht
    · cases hn : Header.newWithErrorInfo inp errs counts with
      | error e => simp [hn] at ht
      | ok h' => simp [hn] at ht
    · split at ht
      · assumption
      · cases ht

theorem startsWith_NN (s : List Byte) (h : startsWith s litNN = true) : ∃ r, s = 78 :: 78 :: r := by
  unfold startsWith at h
  cases hs : stripLit litNN s with
  | none => simp [hs] at h
  | some r => exact ⟨r, (stripLit_some litNN s r).mp hs⟩

/-- a StartOfMessage can only come out of the parser run on the well-backed prefix -/
theorem combine_som_parse (maxLen : Nat) (bursts : List (List Byte)) (h : Header)
    (hc : combine maxLen bursts = some (.ok (.som h))) :
    Msg.tryFromBytes
      (((estimateMessage maxLen bursts).map (·.byte)).take
          (truncLen ((estimateMessage maxLen bursts).map (·.nbursts)) 2))
      ((estimateMessage maxLen bursts).map (·.errs))
      ((estimateMessage maxLen bursts).map (·.nbursts)) = .ok (.som h) := by
  unfold combine at hc
  simp only at hc
  split at hc
  · cases hc
  · split at hc
    · rename_i m hm
      simp only [Option.some.injEq, Except.ok.injEq] at hc
      rw [hm, hc]
    · split at hc
      · cases hc
      · split at hc <;> cases hc

/-- an EndOfMessage comes from an estimate whose first two bytes are `N`, `N` -/
theorem combine_eom_parse (maxLen : Nat) (bursts : List (List Byte))
    (hc : combine maxLen bursts = some (.ok .eom)) :
    ∃ rest, (estimateMessage maxLen bursts).map (·.byte) = 78 :: 78 :: rest := by
  unfold combine at hc
  simp only at hc
  split at hc
  · cases hc
  · split at hc
    · rename_i m hm
      simp only [Option.some.injEq, Except.ok.injEq] at hc
      subst hc
      obtain ⟨r, hr⟩ := startsWith_NN _ (tryFromBytes_eom _ _ _ hm)
      refine ⟨r ++ List.drop (truncLen ((estimateMessage maxLen bursts).map (·.nbursts)) 2)
        ((estimateMessage maxLen bursts).map (·.byte)), ?_⟩
      conv => lhs; rw [← List.take_append_drop
        (truncLen ((estimateMessage maxLen bursts).map (·.nbursts)) 2)
        ((estimateMessage maxLen bursts).map (·.byte))]
      rw [hr]; rfl
    · split at hc
      · rename_i hp
        generalize (List.map (fun x => x.byte) (estimateMessage maxLen bursts)) = msg at hp
        match msg, hp with
        | a :: b :: rest, hp =>
          simp [prefixIsEom] at hp
          exact ⟨rest, by rw [hp.1, hp.2]⟩
        | [], hp => simp [prefixIsEom] at hp
        | [_], hp => simp [prefixIsEom] at hp
      · split at hc <;> cases hc

/-- every reported byte is an entry of the estimate backed by at least two bursts -/
theorem combine_som_entries (maxLen : Nat) (bursts : List (List Byte)) (h : Header)
    (hc : combine maxLen bursts = some (.ok (.som h))) (i : Nat) (hi : i < h.text.length) :
    ∃ e, (estimateMessage maxLen bursts)[i]? = some e ∧ e.byte = h.text[i] ∧ 2 ≤ e.nbursts := by
  obtain ⟨_, len, _, ht⟩ := tryFromBytes_som _ _ _ _ (combine_som_parse maxLen bursts h hc)
  generalize hest : estimateMessage maxLen bursts = est at ht
  have hi' := hi
  rw [ht] at hi'
  simp only [List.length_take, List.length_map] at hi'
  have hlt : i < truncLen (est.map (·.nbursts)) 2 := by omega
  obtain ⟨x, hx, hp⟩ := takeWhile_get _ _ i hlt
  have hie : i < est.length := by omega
  refine ⟨est[i], by simp [hie], ?_, ?_⟩
  · have : h.text[i]? = some est[i].byte := by
      rw [ht]
      simp [List.getElem?_take, hie]
      omega
    have h2 : h.text[i]? = some h.text[i] := by simp [hi]
    rw [h2] at this
    exact (Option.some.inj this).symm
  · simp [hie] at hx
    subst hx
    simpa using hp

/-- the reported text is not empty -/
theorem combine_som_text_pos (maxLen : Nat) (bursts : List (List Byte)) (h : Header)
    (hc : combine maxLen bursts = some (.ok (.som h))) : 0 < h.text.length := by
  obtain ⟨hs, len, hl, ht⟩ := tryFromBytes_som _ _ _ _ (combine_som_parse maxLen bursts h hc)
  generalize (List.take _ (List.map (fun x => x.byte) (estimateMessage maxLen bursts))) = good at hs ht
  rw [ht]
  cases good with
  | nil => simp [startsWith, litZCZC, stripLit] at hs
  | cons a g => simp; omega

end SameVerif
