/-
  Helper lemmas for Thm/Silence.lean: what the whole-receiver model (`Model/FullRx.lean`) does on
  zero input, over the rationals.

  Part 1 (namespace `SameVerif.SilenceAux`) is a port of the "silence drains the squelch" argument of
  Lemmas/LinkInv.lean (behind `C10.no_wedge`) onto the `lstep` decomposition of
  Lemmas/FullRxFacts.lean (`FullRxAux.FullRxAux.lstep_eq`).  It is needed because Lemmas/LinkInv.lean (and
  with it Thm/C10.lean) CANNOT be imported together with Lemmas/LinkRun.lean, which
  Lemmas/FullRxFacts.lean imports: both declare `SameVerif.lrunState_append`, `SameVerif.quiet_run`, ….
  The statements are the same as in Lemmas/LinkInv.lean; `SilenceAux.LinkInv` is field for field
  `SameVerif.LinkInv`.
-/
import SameVerif.Lemmas.FullRxFacts
import SameVerif.Thm.Dsp
import SameVerif.Thm.FullRx
import SameVerif.Thm.C14

namespace SameVerif.SilenceAux
open SameVerif

/-! ### elementary facts about the pieces -/

theorem fend_fst (f : FState) : (fend f).1 = .idle := by cases f <;> rfl

theorem fend_idle : fend .idle = (.idle, .noCarrier) := rfl

theorem hitOf_closed (c : LCfg) (s : LState) (o : Obs) (h : o.openOk = false) :
    FullRxAux.hitOf c s o = false := by simp [FullRxAux.hitOf, h]

theorem hitOf_unlocked (c : LCfg) (s : LState) (o : Obs) (h : FullRxAux.hitOf c s o = true) :
    s.lock = false := by
  simp only [FullRxAux.hitOf, Bool.and_eq_true, Bool.not_eq_true'] at h
  exact h.1.1

theorem push32_length (h : List Bool) (b : Bool) : (push32 h b).length = min (h.length + 1) 32 := by
  simp only [push32, List.length_drop, List.length_append, List.length_singleton]; omega

theorem push32_ne_nil (h : List Bool) (b : Bool) : push32 h b ≠ [] := by
  intro e
  have := push32_length h b
  rw [e] at this
  simp only [List.length_nil] at this; omega

@[simp] theorem endTick_fst (s1 : LState) : (FullRxAux.endTick s1).1 = { s1 with fr := .idle } := by
  simp [FullRxAux.endTick, fend_fst]

@[simp] theorem endTick_snd (s1 : LState) : (FullRxAux.endTick s1).2 = ((fend s1.fr).2, none) := rfl

/-- the shape of a byte tick's result -/
theorem byteTick_shape (c : LCfg) (s1 : LState) (adj : Bool) (b : Byte) :
    ∃ byte, (adj = true → byte = PREAMBLE_BYTE) ∧
      (FullRxAux.byteTick c s1 adj b).2 = ((finput c.fc s1.fr byte adj).2, some adj) ∧
      (FullRxAux.byteTick c s1 adj b).1.corr = s1.corr ∧ (FullRxAux.byteTick c s1 adj b).1.pwr = s1.pwr ∧
      (FullRxAux.byteTick c s1 adj b).1.nsym = s1.nsym ∧
      (FullRxAux.byteTick c s1 adj b).1.fr = (finput c.fc s1.fr byte adj).1 ∧
      (FullRxAux.byteTick c s1 adj b).1.train = (if adj then 4 else s1.train) - 1 ∧
      (((finput c.fc s1.fr byte adj).2 = .reading ∧ (FullRxAux.byteTick c s1 adj b).1.clock = some 1 ∧
          (FullRxAux.byteTick c s1 adj b).1.lock = true) ∨
        ((finput c.fc s1.fr byte adj).2 = .searching ∧ (FullRxAux.byteTick c s1 adj b).1.clock = some 1 ∧
          (FullRxAux.byteTick c s1 adj b).1.lock = s1.lock) ∨
        (((finput c.fc s1.fr byte adj).2 = .noCarrier ∨ ∃ m, (finput c.fc s1.fr byte adj).2 = .burst m) ∧
          (FullRxAux.byteTick c s1 adj b).1.clock = none ∧ (FullRxAux.byteTick c s1 adj b).1.lock = false)) := by
  refine ⟨if (if adj then 4 else s1.train) > 0 then PREAMBLE_BYTE else b, ?_, ?_⟩
  · intro h; simp [h]
  · simp only [FullRxAux.byteTick]
    split <;> simp_all [LState.endRx]

/-- the unconditional part of every tick -/
theorem lstep_base (c : LCfg) (s : LState) (o : Obs) (b : Byte) :
    (lstep c s o b).1.corr = corrPush s.corr o.bit ∧ (lstep c s o b).1.pwr = push32 s.pwr o.closeOk
      ∧ (lstep c s o b).1.nsym = s.nsym + 1 := by
  rw [FullRxAux.lstep_eq]
  split
  · simp [FullRxAux.baseOf]
  · split
    · obtain ⟨_, _, _, h1, h2, h3, _⟩ := byteTick_shape c (FullRxAux.baseOf s o) (FullRxAux.adjOf s.clock) b
      rw [h1, h2, h3]; simp [FullRxAux.baseOf]
    · split
      · simp [FullRxAux.baseOf, LState.endRx]
      · split
        · simp [FullRxAux.baseOf]
        · obtain ⟨_, _, _, h1, h2, h3, _⟩ := byteTick_shape c (FullRxAux.baseOf s o) false b
          rw [h1, h2, h3]; simp [FullRxAux.baseOf]
        · simp [FullRxAux.baseOf]

/-- a tick with the power below the opening threshold cannot (re)synchronise -/
theorem lstep_closed (c : LCfg) (s : LState) (o : Obs) (b : Byte) (h : o.openOk = false) :
    lstep c s o b =
      if s.nsym + 1 < 32 then FullRxAux.endTick (FullRxAux.baseOf s o)
      else if (s.clock.isSome && !((push32 s.pwr o.closeOk).headD true)) = true then
        FullRxAux.endTick (FullRxAux.baseOf s o).endRx
      else match s.clock with
        | none => FullRxAux.endTick (FullRxAux.baseOf s o)
        | some 0 => FullRxAux.byteTick c (FullRxAux.baseOf s o) false b
        | some (k + 1) => ({ FullRxAux.baseOf s o with clock := some ((k + 2) % 8) }, fstate s.fr, none) := by
  rw [FullRxAux.lstep_eq]
  simp only [FullRxAux.droppedOf, hitOf_closed c s o h, Bool.not_false, Bool.true_and, Bool.false_eq_true,
    ↓reduceIte]
  rfl

/-! ### the structural invariant -/

/-- what every reachable link state satisfies, for every configuration -/
structure LinkInv (s : LState) : Prop where
  /-- the power history holds one entry per symbol seen, at most 32 -/
  pwr_len : s.pwr.length = min s.nsym 32
  /-- no synchronisation before the sample history is full -/
  warm : s.nsym < 32 → s.clock = none
  /-- a sync lock is only held while the byte clock runs -/
  lock_sync : s.lock = true → s.clock.isSome = true
  /-- the byte clock counts symbols modulo 8 -/
  clock_lt : ∀ k, s.clock = some k → k < 8

theorem linkInv_init : LinkInv {} := by
  constructor <;> simp

theorem linkInv_step (c : LCfg) (s : LState) (o : Obs) (b : Byte) (h : LinkInv s) :
    LinkInv (lstep c s o b).1 := by
  obtain ⟨hcorr, hpwr, hnsym⟩ := lstep_base c s o b
  have hlen : (lstep c s o b).1.pwr.length = min (lstep c s o b).1.nsym 32 := by
    rw [hpwr, hnsym, push32_length, h.pwr_len]; omega
  have hrest : ((lstep c s o b).1.nsym < 32 → (lstep c s o b).1.clock = none)
      ∧ ((lstep c s o b).1.lock = true → (lstep c s o b).1.clock.isSome = true)
      ∧ ∀ k, (lstep c s o b).1.clock = some k → k < 8 := by
    rw [hnsym]
    have hbyte : ∀ adj, ¬ s.nsym + 1 < 32 →
        (s.nsym + 1 < 32 → (FullRxAux.byteTick c (FullRxAux.baseOf s o) adj b).1.clock = none)
        ∧ ((FullRxAux.byteTick c (FullRxAux.baseOf s o) adj b).1.lock = true →
            (FullRxAux.byteTick c (FullRxAux.baseOf s o) adj b).1.clock.isSome = true)
        ∧ ∀ k, (FullRxAux.byteTick c (FullRxAux.baseOf s o) adj b).1.clock = some k → k < 8 := by
      intro adj hw
      obtain ⟨_, _, _, _, _, _, _, _, hc⟩ := byteTick_shape c (FullRxAux.baseOf s o) adj b
      rcases hc with ⟨_, h1, h2⟩ | ⟨_, h1, h2⟩ | ⟨_, h1, h2⟩
      · rw [h1]; refine ⟨fun x => absurd x hw, fun _ => rfl, ?_⟩
        intro k hk; injection hk with hk; omega
      · rw [h1]; refine ⟨fun x => absurd x hw, fun _ => rfl, ?_⟩
        intro k hk; injection hk with hk; omega
      · rw [h1, h2]; simp
    rw [FullRxAux.lstep_eq]
    split
    · next hw =>
      have hn : s.nsym < 32 := by omega
      have hc := h.warm hn
      have hl : s.lock = false := by
        cases hl : s.lock with
        | false => rfl
        | true => have := h.lock_sync hl; rw [hc] at this; cases this
      simp [FullRxAux.baseOf, hc, hl]
    · next hw =>
      split
      · exact hbyte _ hw
      · split
        · simp [FullRxAux.baseOf, LState.endRx]
        · split
          · next hc =>
            have hl : s.lock = false := by
              cases hl : s.lock with
              | false => rfl
              | true => have := h.lock_sync hl; rw [hc] at this; cases this
            simp [FullRxAux.baseOf, hc, hl]
          · exact hbyte _ hw
          · next k hc =>
            refine ⟨fun x => absurd x hw, fun _ => rfl, ?_⟩
            intro k' hk'
            simp only [Option.some.injEq] at hk'
            omega
  exact ⟨hlen, hrest.1, hrest.2.1, hrest.2.2⟩

theorem linkInv_run (c : LCfg) (xs : List Tick) : ∀ s, LinkInv s → LinkInv (lrunState c s xs) := by
  induction xs with
  | nil => intro s h; exact h
  | cons x xs ih => intro s h; exact ih _ (linkInv_step c s x.1 x.2 h)

/-! ### the unsynchronised state -/

/-- the squelch is not synchronised, holds no lock, and the framer is idle — the state of a
    new receiver as far as everything except the two shift registers is concerned -/
def QuietState (s : LState) : Prop := s.clock = none ∧ s.lock = false ∧ s.fr = .idle

theorem quietState_init : QuietState {} := ⟨rfl, rfl, rfl⟩

/-- without enough power to open the squelch, an unsynchronised link stays unsynchronised and
    reports `noCarrier` -/
theorem quiet_step (c : LCfg) (s : LState) (o : Obs) (b : Byte) (hs : QuietState s)
    (ho : o.openOk = false) :
    QuietState (lstep c s o b).1 ∧ (lstep c s o b).2 = (.noCarrier, none) := by
  obtain ⟨h1, h2, h3⟩ := hs
  rw [lstep_closed c s o b ho]
  simp [h1, FullRxAux.baseOf, QuietState, h2, h3, fend_idle]

/-- streams whose every tick is below the opening threshold -/
def AllClosed (xs : List Tick) : Prop := ∀ x ∈ xs, x.1.openOk = false

/-- streams whose every tick is below both thresholds -/
def AllSilent (xs : List Tick) : Prop := ∀ x ∈ xs, x.1.openOk = false ∧ x.1.closeOk = false

theorem AllSilent.closed {xs : List Tick} (h : AllSilent xs) : AllClosed xs :=
  fun x hx => (h x hx).1

theorem quiet_run (c : LCfg) (xs : List Tick) : ∀ s, QuietState s → AllClosed xs →
    QuietState (lrunState c s xs) ∧ ∀ ls ∈ lrun c s xs, ls = .noCarrier := by
  induction xs with
  | nil => intro s h _; exact ⟨h, by simp [lrun]⟩
  | cons x xs ih =>
    intro s h hx
    have h1 := quiet_step c s x.1 x.2 h (hx x (by simp))
    have h2 := ih _ h1.1 (fun y hy => hx y (by simp [hy]))
    refine ⟨h2.1, ?_⟩
    intro ls hls
    simp only [lrun, List.mem_cons] at hls
    rcases hls with hls | hls
    · rw [hls, h1.2]
    · exact h2.2 ls hls

theorem lrunState_nsym (c : LCfg) (xs : List Tick) : ∀ s,
    (lrunState c s xs).nsym = s.nsym + xs.length := by
  induction xs with
  | nil => intro s; rfl
  | cons x xs ih =>
    intro s
    simp only [lrunState, ih, (lstep_base c s x.1 x.2).2.2, List.length_cons]; omega

/-! ### silence drains the power history -/

/-- the newest `k` entries of the power history are all "below the closing threshold" -/
def TailFalse (k : Nat) (h : List Bool) : Prop := ∀ x ∈ h.drop (h.length - k), x = false

theorem tailFalse_zero (h : List Bool) : TailFalse 0 h := by
  intro x hx; simp at hx

theorem mem_drop_of_le {α : Type} {l : List α} {m n : Nat} {x : α} (hmn : m ≤ n)
    (hx : x ∈ l.drop n) : x ∈ l.drop m := by
  have : l.drop n = (l.drop m).drop (n - m) := by
    rw [List.drop_drop]; congr 1; omega
  rw [this] at hx
  exact List.mem_of_mem_drop hx

theorem tailFalse_push (k : Nat) (h : List Bool) (hk : TailFalse k h) :
    TailFalse (k + 1) (push32 h false) := by
  intro x hx
  rw [push32_length] at hx
  simp only [push32, List.drop_drop, List.length_append, List.length_singleton] at hx
  have hx' : x ∈ (h ++ [false]).drop (h.length - k) := by
    apply mem_drop_of_le _ hx
    omega
  rw [List.drop_append_of_le_length (by omega)] at hx'
  simp only [List.mem_append, List.mem_singleton] at hx'
  rcases hx' with hx' | hx'
  · exact hk x hx'
  · exact hx'

theorem headD_of_all_false (l : List Bool) (hne : l ≠ []) (h : ∀ x ∈ l, x = false) :
    l.headD true = false := by
  cases l with
  | nil => exact absurd rfl hne
  | cons a l => simpa using h a (by simp)

theorem tailFalse_head (k : Nat) (h : List Bool) (hk : TailFalse k h) (hlen : h.length ≤ k)
    (hne : h ≠ []) : h.headD true = false := by
  apply headD_of_all_false h hne
  intro x hx
  apply hk
  have : h.length - k = 0 := by omega
  rw [this]; exact hx

/-- `k` silent ticks have been heard: either the link is already unsynchronised, or the newest
    `k` power-history entries are below the closing threshold -/
def Draining (k : Nat) (s : LState) : Prop := QuietState s ∨ (k < 32 ∧ TailFalse k s.pwr)

theorem draining_zero (s : LState) : Draining 0 s := Or.inr ⟨by omega, tailFalse_zero _⟩

theorem draining_done (k : Nat) (s : LState) (hk : 32 ≤ k) (h : Draining k s) : QuietState s := by
  rcases h with h | ⟨h, _⟩
  · exact h
  · omega

theorem unlocked_of_unsync {s : LState} (h : LinkInv s) (hc : s.clock = none) : s.lock = false := by
  cases hl : s.lock with
  | false => rfl
  | true => have := h.lock_sync hl; rw [hc] at this; cases this

theorem draining_step (c : LCfg) (k : Nat) (s : LState) (o : Obs) (b : Byte) (hinv : LinkInv s)
    (hd : Draining k s) (ho : o.openOk = false) (hcl : o.closeOk = false) :
    Draining (k + 1) (lstep c s o b).1 := by
  rcases hd with hq | ⟨hk, ht⟩
  · exact Or.inl (quiet_step c s o b hq ho).1
  · have ht' : TailFalse (k + 1) (push32 s.pwr false) := tailFalse_push k _ ht
    by_cases hk' : k + 1 < 32
    · right
      refine ⟨hk', ?_⟩
      rw [(lstep_base c s o b).2.1, hcl]; exact ht'
    · left
      have hhead : (push32 s.pwr false).headD true = false := by
        apply tailFalse_head (k + 1) _ ht' _ (push32_ne_nil _ _)
        rw [push32_length]; omega
      rw [lstep_closed c s o b ho, hcl, hhead]
      split
      · next hw =>
        have hc := hinv.warm (by omega)
        simp [QuietState, FullRxAux.baseOf, hc, unlocked_of_unsync hinv hc]
      · cases hc : s.clock with
        | none => simp [QuietState, FullRxAux.baseOf, hc, unlocked_of_unsync hinv hc]
        | some j => simp [QuietState, FullRxAux.baseOf, LState.endRx]

theorem draining_run (c : LCfg) (xs : List Tick) : ∀ (k : Nat) (s : LState), LinkInv s →
    Draining k s → AllSilent xs → Draining (k + xs.length) (lrunState c s xs) := by
  induction xs with
  | nil => intro k s _ hd _; exact hd
  | cons x xs ih =>
    intro k s hinv hd hx
    have h1 := draining_step c k s x.1 x.2 hinv hd (hx x (by simp)).1 (hx x (by simp)).2
    have h2 := ih (k + 1) _ (linkInv_step c s x.1 x.2 hinv) h1 (fun y hy => hx y (by simp [hy]))
    simp only [lrunState, List.length_cons]
    have e : k + (xs.length + 1) = k + 1 + xs.length := by omega
    rw [e]; exact h2


/-- **No wedge** (`C10.no_wedge`, ported): from any state satisfying the invariant, 32 or more ticks
    below both power thresholds leave the link unsynchronised, unlocked and idle. -/
theorem no_wedge (c : LCfg) (s : LState) (xs : List Tick) (hinv : LinkInv s)
    (hlen : 32 ≤ xs.length) (hq : ∀ x ∈ xs, x.1.openOk = false ∧ x.1.closeOk = false) :
    QuietState (lrunState c s xs) ∧ LinkInv (lrunState c s xs) := by
  have hd := draining_run c xs 0 s hinv (draining_zero s) hq
  exact ⟨draining_done _ _ (by omega) hd, linkInv_run c xs s hinv⟩

end SameVerif.SilenceAux

/-! ## Part 2: the float front end on zero input, over the rationals -/

namespace SameVerif.Dsp
open Arith

/-! ### the DC blocker forgets (Z1) -/

section DcZero

/-- the newest `i` entries of the window are zero (`MovTail` at `c = 0`, but without its cap at
    `len - 1`: `i = len` says that the whole window is zero) -/
def ZTail (len i : Nat) (m : MovAvg Rat) : Prop :=
  ∃ pre, m.window = pre ++ List.replicate i 0 ∧ pre.length + i = len

theorem zTail_zero {len : Nat} {m : MovAvg Rat} (hg : MovGood len m) : ZTail len 0 m :=
  ⟨m.window, by simp, by simp [hg.length]⟩

/-- a moving average in its all-zero state (what `new` builds and `reset` restores) -/
structure MovZero (len : Nat) (m : MovAvg Rat) : Prop where
  window : m.window = List.replicate len 0
  sum : m.sum = 0
  inv : m.invLen = 1 / (len : Rat)

theorem movZero_of_tail {len : Nat} {m : MovAvg Rat} (hg : MovGood len m) (ht : ZTail len len m) :
    MovZero len m := by
  obtain ⟨pre, hw, hlen⟩ := ht
  have hp : pre = [] := List.eq_nil_of_length_eq_zero (by omega)
  subst hp
  simp only [List.nil_append] at hw
  exact ⟨hw, by rw [hg.sum, hw, sum_replicate_rat]; grind, hg.inv⟩

/-- a non-empty window with a zero tail, head split off: the head is dropped by the next `filter` -/
theorem zTail_split {len i : Nat} {m : MovAvg Rat} (ht : ZTail len i m) (hl : 0 < len) :
    ∃ a pre' i', m.window = a :: (pre' ++ List.replicate i' 0) ∧ pre'.length + i' + 1 = len ∧
      i' + 1 = min (i + 1) len := by
  obtain ⟨pre, hw, hlen⟩ := ht
  cases pre with
  | nil =>
    simp only [List.length_nil, Nat.zero_add] at hlen
    subst hlen
    obtain ⟨n, rfl⟩ : ∃ n, i = n + 1 := ⟨i - 1, by omega⟩
    exact ⟨0, [], n, by simpa [List.replicate_succ] using hw, by simp, by omega⟩
  | cons a pre' =>
    simp only [List.length_cons] at hlen
    exact ⟨a, pre', i, by simpa using hw, by omega, by omega⟩

/-- feeding `0` extends the zero tail; once the whole new window is zero the outputs are `(0, 0)` -/
theorem zTail_filter {len i : Nat} {m : MovAvg Rat} (hg : MovGood len m) (ht : ZTail len i m)
    (hl : 0 < len) :
    ∃ m' y, m.filter 0 = some (m', y) ∧ MovGood len m' ∧ ZTail len (min (i + 1) len) m' ∧
      (len ≤ i + 1 → y = (0, 0)) := by
  obtain ⟨a, pre', i', hw, hlen, hi⟩ := zTail_split ht hl
  have e := movavg_filter_cons m 0 a _ hw
  have hwin : pre' ++ List.replicate i' 0 ++ [(0 : Rat)] = pre' ++ List.replicate (i' + 1) 0 := by
    simp [List.replicate_succ']
  have hsum : add m.sum (sub 0 a) = (pre' ++ List.replicate (i' + 1) 0).sum := by
    simp only [rat_add, rat_sub, hg.sum, hw, sum_append_rat, sum_replicate_rat, List.sum_cons]
    grind
  refine ⟨_, _, e, ⟨?_, ?_, hg.inv⟩, ?_, ?_⟩
  · simp; omega
  · simp only [hwin, hsum]
  · rw [← hi]; exact ⟨pre', hwin, by omega⟩
  · intro hle
    have hp : pre' = [] := List.eq_nil_of_length_eq_zero (by omega)
    subst hp
    simp only [Prod.mk.injEq]
    refine ⟨?_, ?_⟩
    · rw [hsum]
      simp only [List.nil_append, sum_replicate_rat, rat_mul]
      grind
    · cases i' <;> simp [List.replicate_succ]

/-- the state of a DC blocker of length `len` after `j` zero samples (from any state with exact sums) -/
structure DcZ (len j : Nat) (d : DcBlock Rat) : Prop where
  ffGood : MovGood len d.ff
  fbGood : MovGood len d.fb
  ffTail : ZTail len (min j len) d.ff
  fbTail : ZTail len (min (j - len) len) d.fb

theorem dcZ_start {len : Nat} {d : DcBlock Rat} (h1 : MovGood len d.ff) (h2 : MovGood len d.fb) :
    DcZ len 0 d :=
  ⟨h1, h2, by simpa using zTail_zero h1, by simpa using zTail_zero h2⟩

/-- one more zero sample; from the `2 * len`-th on the output is `0` -/
theorem dcZ_filter {len j : Nat} {d : DcBlock Rat} (h : DcZ len j d) (hl : 0 < len) :
    ∃ d' y, d.filter 0 = some (d', y) ∧ DcZ len (j + 1) d' ∧ (2 * len ≤ j + 1 → y = 0) := by
  obtain ⟨ff, y1, e1, g1, t1, o1⟩ := zTail_filter h.ffGood h.ffTail hl
  have t1' : ZTail len (min (j + 1) len) ff := by
    rw [show min (j + 1) len = min (min j len + 1) len by omega]; exact t1
  by_cases hj : len ≤ j
  · have hy1 : y1 = (0, 0) := o1 (by omega)
    subst hy1
    obtain ⟨fb, y2, e2, g2, t2, o2⟩ := zTail_filter h.fbGood h.fbTail hl
    refine ⟨⟨ff, fb⟩, _, dc_filter_of e1 e2, ⟨g1, g2, t1', ?_⟩, ?_⟩
    · rw [show min (j + 1 - len) len = min (min (j - len) len + 1) len by omega]; exact t2
    · intro hj2
      have hy2 : y2 = (0, 0) := o2 (by omega)
      subst hy2
      simp only [rat_sub, rat_mul]
      grind
  · obtain ⟨fb, y2, e2, g2⟩ := movGood_filter h.fbGood hl y1.1
    refine ⟨⟨ff, fb⟩, _, dc_filter_of e1 e2, ⟨g1, g2, t1', ?_⟩, by omega⟩
    rw [show min (j + 1 - len) len = 0 by omega]
    exact zTail_zero g2

/-- the all-zero state of a DC blocker -/
structure DcZero (len : Nat) (d : DcBlock Rat) : Prop where
  ff : MovZero len d.ff
  fb : MovZero len d.fb

theorem dcZero_of_dcZ {len j : Nat} {d : DcBlock Rat} (h : DcZ len j d) (hj : 2 * len ≤ j) :
    DcZero len d := by
  refine ⟨movZero_of_tail h.ffGood ?_, movZero_of_tail h.fbGood ?_⟩
  · have := h.ffTail; rwa [show min j len = len by omega] at this
  · have := h.fbTail; rwa [show min (j - len) len = len by omega] at this

theorem dcZ_of_dcZero {len : Nat} {d : DcBlock Rat} (h : DcZero len d) (j : Nat) : DcZ len j d := by
  have g1 : MovGood len d.ff := ⟨by simp [h.ff.window], by rw [h.ff.sum, h.ff.window, sum_replicate_rat]; grind, h.ff.inv⟩
  have g2 : MovGood len d.fb := ⟨by simp [h.fb.window], by rw [h.fb.sum, h.fb.window, sum_replicate_rat]; grind, h.fb.inv⟩
  refine ⟨g1, g2, ?_, ?_⟩
  · exact ⟨List.replicate (len - min j len) 0, by rw [h.ff.window, List.replicate_append_replicate]; congr 1; omega,
      by simp; omega⟩
  · exact ⟨List.replicate (len - min (j - len) len) 0, by rw [h.fb.window, List.replicate_append_replicate]; congr 1; omega,
      by simp; omega⟩

/-- the all-zero state is a fixed point of `filter 0`, with output `0` -/
theorem dcZero_filter {len : Nat} {d : DcBlock Rat} (h : DcZero len d) (hl : 0 < len) :
    ∃ d', d.filter 0 = some (d', 0) ∧ DcZero len d' := by
  obtain ⟨d', y, e, h', hy⟩ := dcZ_filter (dcZ_of_dcZero h (2 * len)) hl
  rw [hy (by omega)] at e
  exact ⟨d', e, dcZero_of_dcZ h' (by omega)⟩

theorem dcGood_filter {len : Nat} {d : DcBlock Rat} (h1 : MovGood len d.ff) (h2 : MovGood len d.fb)
    (hl : 0 < len) (x : Rat) :
    ∃ d' y, d.filter x = some (d', y) ∧ MovGood len d'.ff ∧ MovGood len d'.fb := by
  obtain ⟨ff, y1, e1, g1⟩ := movGood_filter h1 hl x
  obtain ⟨fb, y2, e2, g2⟩ := movGood_filter h2 hl y1.1
  exact ⟨⟨ff, fb⟩, _, dc_filter_of e1 e2, g1, g2⟩

end DcZero

/-! ### AGC, demodulator, timing error detector on zeros (Z2) -/

section FrontZero
variable [Hypot Rat]

omit [Hypot Rat] in
/-- the AGC never panics when its limits are ordered; its output is the input times the old gain,
    its limits are never touched -/
theorem agc_input_rat {a : Agc Rat} (h : a.minGain ≤ a.maxGain) (x : Rat) :
    ∃ a', a.input x = some (a', x * a.gain) ∧ a'.minGain = a.minGain ∧ a'.maxGain = a.maxGain := by
  cases e : a.input x with
  | none => rw [agc_input_none_iff'] at e; simp at e; grind
  | some p =>
    obtain ⟨a', y⟩ := p
    obtain ⟨h1, h2, h3, _⟩ := DspThm.agc_output_eq e
    exact ⟨a', by rw [h1]; rfl, h2, h3⟩

/-- the demodulator window after `j` zero samples were pushed into a window of at most `B` entries:
    all but the oldest `B - j` entries are zero -/
def WinZ (B j : Nat) (w : List Rat) : Prop :=
  ∃ pre i, w = pre ++ List.replicate i 0 ∧ pre.length ≤ B - j

omit [Hypot Rat] in
theorem winZ_start {B : Nat} {w : List Rat} (h : w.length ≤ B) : WinZ B 0 w :=
  ⟨w, 0, by simp, by simpa using h⟩

omit [Hypot Rat] in
theorem winZ_push {B j : Nat} {d : Demod Rat} (h : WinZ B j d.window) : WinZ B (j + 1) (d.push 0).window := by
  obtain ⟨pre, i, hw, hl⟩ := h
  cases pre with
  | nil =>
    refine ⟨[], (i - 1) + 1, ?_, by simp⟩
    simp only [Demod.push, hw, List.nil_append, List.drop_replicate, List.replicate_succ']
  | cons a pre' =>
    refine ⟨pre', i + 1, ?_, by simp at hl; omega⟩
    simp [Demod.push, hw, List.replicate_succ']

omit [Hypot Rat] in
theorem winZ_all_zero {B j : Nat} {w : List Rat} (h : WinZ B j w) (hj : B ≤ j) : ∀ x ∈ w, x = 0 := by
  obtain ⟨pre, i, hw, hl⟩ := h
  have hp : pre = [] := List.eq_nil_of_length_eq_zero (by omega)
  subst hp
  intro x hx
  rw [hw] at hx
  simp only [List.nil_append, List.mem_replicate] at hx
  exact hx.2

omit [Hypot Rat] in
theorem push_length_le {B : Nat} (d : Demod Rat) (x : Rat) (hB : 1 ≤ B) (h : d.window.length ≤ B) :
    (d.push x).window.length ≤ B := by
  simp only [Demod.push, List.length_append, List.length_drop, List.length_singleton]; omega

omit [Hypot Rat] in
theorem push_all_zero (d : Demod Rat) (h : ∀ x ∈ d.window, x = 0) : ∀ x ∈ (d.push 0).window, x = 0 := by
  intro x hx
  simp only [Demod.push, List.mem_append, List.mem_singleton] at hx
  rcases hx with hx | hx
  · exact h x (List.mem_of_mem_drop hx)
  · exact hx

omit [Hypot Rat] in
theorem macCplx_zero (w : List Rat) (coeff : List (Rat × Rat)) (h : ∀ x ∈ w, x = 0) :
    macCplx w coeff = (0, 0) := by
  unfold macCplx
  suffices hs : ∀ (w : List Rat) (coeff : List (Rat × Rat)) (acc : Rat × Rat), (∀ x ∈ w, x = 0) →
      (w.zip coeff).foldl (fun acc p => (add acc.1 (mul p.1 p.2.1), add acc.2 (mul p.1 p.2.2))) acc = acc from
    hs w coeff _ h
  intro w
  induction w with
  | nil => intro coeff acc _; rfl
  | cons a w ih =>
    intro coeff acc hz
    cases coeff with
    | nil => rfl
    | cons c coeff =>
      have ha : a = 0 := hz a (by simp)
      subst ha
      simp only [List.zip_cons_cons, List.foldl_cons, rat_add, rat_mul, Rat.zero_mul, Rat.add_zero]
      exact ih coeff acc (fun x hx => hz x (by simp [hx]))

/-- the demodulator's output always lies in `[-1, 1]` -/
theorem demod_bounds (d : Demod Rat) : ∃ y, d.demod = some y ∧ -1 ≤ y ∧ y ≤ 1 := by
  obtain ⟨y, e, h1, h2, _⟩ := clamp_rat
    (x := sub (Hypot.hypot (macCplx d.window d.mark).1 (macCplx d.window d.mark).2)
      (Hypot.hypot (macCplx d.window d.space).1 (macCplx d.window d.space).2)) (lo := -1) (hi := 1)
    (by decide +kernel)
  exact ⟨y, e, h1, h2⟩

/-- on an all-zero window the two matched-filter outputs are both `hypot 0 0`: the difference is `0`
    (for ANY `hypot`) -/
theorem demod_zero (d : Demod Rat) (h : ∀ x ∈ d.window, x = 0) : d.demod = some 0 := by
  unfold Demod.demod
  simp only [macCplx_zero _ _ h, rat_sub, Rat.sub_self]
  exact clamp_of_mem (by decide +kernel) (by decide +kernel) (by decide +kernel)

omit [Hypot Rat] in
/-- the symbol estimate the TED yields on a zero sample once its newest history entry is zero -/
theorem ted_input_zero {t : Ted Rat} (h : t.h2 = 0) :
    (t.input 0).1.h2 = 0 ∧ ∀ s, (t.input 0).2 = some s → s = ⟨0, 0, 0⟩ := by
  refine ⟨by unfold Ted.input; simp only []; split <;> rfl, ?_⟩
  intro s hs
  unfold Ted.input at hs
  simp only [] at hs
  split at hs
  · simp only [Option.some.injEq] at hs
    rw [← hs, h]
    simp [zeroCrossingMetric, Rat.zero_mul]
  · cases hs

omit [Hypot Rat] in
/-- whatever the TED holds, the soft symbol of an estimate is the sample just fed -/
theorem ted_input_sym (t : Ted Rat) (x : Rat) : ∀ s, (t.input x).2 = some s → s.sym = x := by
  intro s hs
  unfold Ted.input at hs
  simp only [] at hs
  split at hs
  · simp only [Option.some.injEq] at hs; rw [← hs]
  · cases hs

end FrontZero

/-! ### the squelch power tracker (Z4) -/

section Power

/-- the tracker's invariant: bandwidth and power both in `[0, 1]` -/
structure PtInv (p : PowerTracker Rat) : Prop where
  bw0 : 0 ≤ p.bandwidth
  bw1 : p.bandwidth ≤ 1
  pw0 : 0 ≤ p.power
  pw1 : p.power ≤ 1

theorem pt_new_inv {bw : Rat} {p : PowerTracker Rat} (h : PowerTracker.new bw = some p) : PtInv p ∧ p.power = 0 := by
  obtain ⟨b, e, h1, h2, _⟩ := clamp_rat (x := bw) (lo := 0) (hi := 1) (by decide +kernel)
  simp only [PowerTracker.new, rat_zero, rat_one, e, Option.map_some, Option.some.injEq] at h
  subst h
  exact ⟨⟨h1, h2, by simp, by show (0 : Rat) ≤ 1; decide +kernel⟩, rfl⟩

/-- `power_le_one`: a soft symbol in `[-1, 1]` keeps the power in `[0, 1]` -/
theorem pt_track_inv {p : PowerTracker Rat} (h : PtInv p) {s : Rat} (h1 : -1 ≤ s) (h2 : s ≤ 1) :
    PtInv (p.track s) ∧ (p.track s).bandwidth = p.bandwidth := by
  obtain ⟨b0, b1, p0, p1⟩ := h
  have a := Rat.mul_nonneg (a := 1 - s) (b := 1 + s) (by grind) (by grind)
  have c := Rat.mul_nonneg (a := 1 - p.power) (b := 1 - p.bandwidth) (by grind) (by grind)
  have d := Rat.mul_nonneg (a := 1 - s * s) (b := p.bandwidth) (by grind) (by grind)
  refine ⟨⟨b0, b1, ?_, ?_⟩, rfl⟩ <;>
    simp only [PowerTracker.track, fmax, rat_lt, rat_add, rat_mul, rat_sub, rat_zero] <;> split <;>
    simp only [decide_eq_true_eq] at * <;> grind

/-- `power_decays`: a zero symbol multiplies the power by `1 - bandwidth` -/
theorem pt_track_zero {p : PowerTracker Rat} (h : PtInv p) :
    (p.track 0).power = p.power * (1 - p.bandwidth) := by
  obtain ⟨b0, b1, p0, p1⟩ := h
  have c := Rat.mul_nonneg (a := p.power) (b := 1 - p.bandwidth) p0 (by grind)
  simp only [PowerTracker.track, fmax, rat_lt, rat_add, rat_mul, rat_sub, rat_zero]
  split <;> simp only [decide_eq_true_eq] at * <;> grind

/-- … so a zero symbol never increases it -/
theorem pt_track_zero_le {p : PowerTracker Rat} (h : PtInv p) : (p.track 0).power ≤ p.power := by
  obtain ⟨b0, b1, p0, p1⟩ := h
  have c := Rat.mul_nonneg (a := p.power) (b := p.bandwidth) p0 b0
  rw [pt_track_zero ⟨b0, b1, p0, p1⟩]
  grind

/-- `k` zero symbols -/
def PowerTracker.trackZeros (p : PowerTracker Rat) : Nat → PowerTracker Rat
  | 0 => p
  | k + 1 => PowerTracker.trackZeros (p.track 0) k

theorem pt_trackZeros {p : PowerTracker Rat} (h : PtInv p) (k : Nat) :
    PtInv (p.trackZeros k) ∧ (p.trackZeros k).bandwidth = p.bandwidth ∧
      (p.trackZeros k).power = p.power * (1 - p.bandwidth) ^ k := by
  induction k generalizing p with
  | zero => exact ⟨h, rfl, by simp [PowerTracker.trackZeros, Rat.pow_zero, Rat.mul_one]⟩
  | succ k ih =>
    obtain ⟨i1, i2⟩ := pt_track_inv h (s := 0) (by decide +kernel) (by decide +kernel)
    obtain ⟨j1, j2, j3⟩ := ih i1
    refine ⟨j1, j2.trans i2, ?_⟩
    simp only [PowerTracker.trackZeros]
    rw [j3, i2, pt_track_zero h, Rat.pow_succ]
    grind

/-- a power in `[0, 1]` times `q ^ k` is at most `q ^ k` (for `0 ≤ q`) -/
theorem decay_le {p q : Rat} (p1 : p ≤ 1) (q0 : 0 ≤ q) (k : Nat) : p * q ^ k ≤ q ^ k := by
  have := Rat.mul_le_mul_of_nonneg_right p1 (Rat.pow_nonneg (n := k) q0)
  grind

end Power

end SameVerif.Dsp

/-! ## Part 3: the whole receiver over the rationals: invariant, one sample -/

namespace SameVerif.Dsp
open Arith

section SymbolFields
variable {F : Type} [Arith F]

/-- `symbol` tracks the power on the soft symbol, and nothing else touches the tracker -/
theorem FullRx.symbol_pt (r : FullRx F) (s : SymEst F) : (r.symbol s).1.pt = r.pt.track s.sym := by
  rw [FullRx.symbol_eq]
  have h1 : (r.pre s).1.pt = r.pt.track s.sym := by
    unfold FullRx.pre
    dsimp only
    cases h : (lstep r.cfg.lcfg r.link
        ⟨ge s.sym zero, ge (r.pt.track s.sym).power r.cfg.powerOpen,
          ge (r.pt.track s.sym).power r.cfg.powerClose⟩ 0).2.2 with
    | none => rfl
    | some adj => cases adj <;> rfl
  have h2 : ∀ p : FullRx F × (LState × LinkSt × Option Bool), (FullRx.post p).1.pt = p.1.pt := by
    intro p
    obtain ⟨r, res⟩ := p
    unfold FullRx.post
    dsimp only
    cases (r.link.clock.isSome && res.1.clock.isNone) <;> rfl
  rw [h2, h1]

/-- what `symbol` does to the fields the front end reads -/
theorem FullRx.symbol_front_fields (r : FullRx F) (s : SymEst F) :
    (r.symbol s).1.cfg = r.cfg ∧ (r.symbol s).1.dc = r.dc ∧ (r.symbol s).1.demod = r.demod ∧
    (r.symbol s).1.tedClock = r.tedClock ∧ (r.symbol s).1.untilNext = r.untilNext ∧
    (r.symbol s).1.agc.minGain = r.agc.minGain ∧ (r.symbol s).1.agc.maxGain = r.agc.maxGain ∧
    ((r.symbol s).1.tl = r.tl ∨ (r.symbol s).1.tl = r.tl.setGains r.cfg.alphaL r.cfg.betaL ∨
      (r.symbol s).1.tl = (r.tl.setGains r.cfg.alphaU r.cfg.betaU).reset ∨
      (r.symbol s).1.tl = ((r.tl.setGains r.cfg.alphaL r.cfg.betaL).setGains r.cfg.alphaU r.cfg.betaU).reset) := by
  obtain ⟨_, _, _, a4, _, a6, a7, a8, a9, a10, a11⟩ := FullRx.post_spec (r.pre s)
  obtain ⟨_, b2, _, _, _, b6, b7, b8, b9, b10, b11⟩ := FullRx.pre_spec r s
  rw [FullRx.symbol_eq]
  refine ⟨a4.trans b2, a6.trans b6, a7.trans b7, a8.trans b8, a9.trans b9, ?_, ?_, ?_⟩
  · rcases a10 with e | e <;> rcases b10 with e' | e' <;> rw [e, e'] <;> rfl
  · rcases a10 with e | e <;> rcases b10 with e' | e' <;> rw [e, e'] <;> rfl
  · rw [b2] at a11
    rcases a11 with e | e <;> rcases b11 with e' | e' <;> rw [e, e'] <;> simp
end SymbolFields

section Whole
variable [Hypot Rat]

/-- the hypotheses on the configuration: the DC blocker can be built, the timing loop's limits are
    ordered and non-negative (what `0 ≤ sps` gives: `DspThm.tl_new_bounds`), and `A` bounds the
    proportional gain of both loop bandwidths -/
structure SilCfg (c : RxCfg Rat) (spt pmin pmax A : Rat) : Prop where
  dcLen : 0 < c.dcLen
  pmin0 : 0 ≤ pmin
  min_spt : pmin ≤ spt
  spt_max : spt ≤ pmax
  alphaU : c.alphaU.abs ≤ A
  alphaL : c.alphaL.abs ≤ A

omit [Hypot Rat] in
theorem SilCfg.A0 {c : RxCfg Rat} {spt pmin pmax A : Rat} (h : SilCfg c spt pmin pmax A) : 0 ≤ A :=
  Rat.le_trans Rat.abs_nonneg h.alphaU

omit [Hypot Rat] in
theorem SilCfg.pmax0 {c : RxCfg Rat} {spt pmin pmax A : Rat} (h : SilCfg c spt pmin pmax A) : 0 ≤ pmax :=
  Rat.le_trans h.pmin0 (Rat.le_trans h.min_spt h.spt_max)

/-- an upper bound on the number of input samples until the next symbol tick: the samples until the
    sample clock fires next, plus — when the TED has just produced a symbol, so that the next
    low-rate sample produces none — one more low-rate period -/
def tickPot (pmax A : Rat) (r : FullRx Rat) : Rat :=
  max 1 (r.untilNext + 1 / 2 - (r.tedClock : Rat)) + (if r.tl.ted.counter = 1 then pmax + A + 3 / 2 else 0)

/-- the invariant of a running whole receiver over the rationals -/
structure SilInv (c : RxCfg Rat) (spt pmin pmax A : Rat) (r : FullRx Rat) : Prop where
  cfg : r.cfg = c
  ffGood : MovGood c.dcLen r.dc.ff
  fbGood : MovGood c.dcLen r.dc.fb
  agc : r.agc.minGain ≤ r.agc.maxGain
  tl : TlRInv spt pmin pmax A r.tl
  pot : tickPot pmax A r ≤ 2 * pmax + 2 * A + 5 / 2
  pt : PtInv r.pt
  link : SilenceAux.LinkInv r.link
  win : r.demod.window.length ≤ max 1 c.mark.length

/-- what the front end did at one sample, field by field (`y` is the DC blocker's output) -/
structure FrontOut (r : FullRx Rat) (x y : Rat) (q : FullRx Rat) (sym : Option (SymEst Rat)) : Prop where
  dcEq : r.dc.filter x = some (q.dc, y)
  agcEq : r.agc.input y = some (q.agc, y * r.agc.gain)
  demod : q.demod = r.demod.push (y * r.agc.gain)
  cfg : q.cfg = r.cfg
  pt : q.pt = r.pt
  link : q.link = r.link
  rx : q.rx = r.rx
  counter : q.inputCounter = r.inputCounter + 1
  clock : (clockFires r.untilNext (r.tedClock + 1) = false ∧ sym = none ∧ q.tl = r.tl ∧
            q.tedClock = r.tedClock + 1 ∧ q.untilNext = r.untilNext) ∨
          (clockFires r.untilNext (r.tedClock + 1) = true ∧ q.tedClock = 0 ∧
            ∃ saLow, q.demod.demod = some saLow ∧
              r.tl.input saLow (clockRemaining r.untilNext (r.tedClock + 1)) = some (q.tl, q.untilNext, sym))

/-- the front end never panics, and what it does -/
theorem front_R {c : RxCfg Rat} {spt pmin pmax A : Rat} {r : FullRx Rat} (hc : SilCfg c spt pmin pmax A)
    (h : SilInv c spt pmin pmax A r) (x : Rat) :
    ∃ q sym y, r.front x = some (q, sym) ∧ FrontOut r x y q sym := by
  obtain ⟨dc, y, e1, _, _⟩ := dcGood_filter h.ffGood h.fbGood hc.dcLen x
  obtain ⟨agc, e2, _, _⟩ := agc_input_rat h.agc y
  unfold FullRx.front
  rw [e1]; dsimp only; rw [e2]; dsimp only
  cases hfire : clockFires r.untilNext (r.tedClock + 1) with
  | false =>
    simp only [Bool.false_eq_true, ↓reduceIte]
    exact ⟨_, _, y, rfl, ⟨e1, e2, rfl, rfl, rfl, rfl, rfl, rfl, Or.inl ⟨hfire, rfl, rfl, rfl, rfl⟩⟩⟩
  | true =>
    simp only [↓reduceIte]
    obtain ⟨saLow, e3, _, _⟩ := demod_bounds (r.demod.push (y * r.agc.gain))
    rw [e3]; dsimp only
    obtain ⟨tl, u, sym, e4, _⟩ := tlR_input h.tl hc.pmin0 (Rat.le_trans hc.min_spt hc.spt_max) saLow
      (clockRemaining r.untilNext (r.tedClock + 1))
    rw [e4]
    exact ⟨_, _, y, rfl, ⟨e1, e2, rfl, rfl, rfl, rfl, rfl, rfl, Or.inr ⟨hfire, rfl, saLow, e3, e4⟩⟩⟩


/-- the part of the invariant that does not involve the clock, after the front end -/
theorem front_inv_common {c : RxCfg Rat} {spt pmin pmax A : Rat} {r q : FullRx Rat} {x y : Rat}
    {sym : Option (SymEst Rat)} (hc : SilCfg c spt pmin pmax A) (h : SilInv c spt pmin pmax A r)
    (hf : FrontOut r x y q sym) :
    q.cfg = c ∧ MovGood c.dcLen q.dc.ff ∧ MovGood c.dcLen q.dc.fb ∧ q.agc.minGain ≤ q.agc.maxGain ∧
      q.demod.window.length ≤ max 1 c.mark.length ∧ PtInv q.pt ∧ SilenceAux.LinkInv q.link := by
  obtain ⟨dc, y', e1, g1, g2⟩ := dcGood_filter h.ffGood h.fbGood hc.dcLen x
  obtain ⟨agc, e2, m1, m2⟩ := agc_input_rat h.agc y
  have d1 := hf.dcEq; rw [e1] at d1
  have d2 := hf.agcEq; rw [e2] at d2
  simp only [Option.some.injEq, Prod.mk.injEq] at d1 d2
  refine ⟨hf.cfg.trans h.cfg, d1.1 ▸ g1, d1.1 ▸ g2, ?_, ?_, hf.pt ▸ h.pt, hf.link ▸ h.link⟩
  · rw [← d2.1, m1, m2]; exact h.agc
  · rw [hf.demod]; exact push_length_le _ _ (by omega) h.win

/-- the timing part of the invariant after the front end, and the tick potential: it is bounded,
    and it falls by at least one at every sample without a symbol -/
theorem front_tl {c : RxCfg Rat} {spt pmin pmax A : Rat} {r q : FullRx Rat} {x y : Rat}
    {sym : Option (SymEst Rat)} (hc : SilCfg c spt pmin pmax A) (h : SilInv c spt pmin pmax A r)
    (hf : FrontOut r x y q sym) :
    TlRInv spt pmin pmax A q.tl ∧ tickPot pmax A q ≤ 2 * pmax + 2 * A + 5 / 2 ∧
      (sym = none → tickPot pmax A q ≤ tickPot pmax A r - 1) ∧
      (∀ s, sym = some s → q.tl.ted.counter = 1 ∧ -1 ≤ s.sym ∧ s.sym ≤ 1) := by
  have hA := hc.A0
  have hP := hc.pmax0
  have hpot := h.pot
  rcases hf.clock with ⟨hfire, hs, htl, hck, hun⟩ | ⟨hfire, hck, saLow, hd, hin⟩
  · have hfire' := (clockFires_rat_false _ _).1 hfire
    rw [natCast_succ_rat] at hfire'
    have hq : tickPot pmax A q = tickPot pmax A r - 1 := by
      unfold tickPot
      rw [htl, hck, hun, natCast_succ_rat]
      have e1 : max 1 (r.untilNext + 1 / 2 - ((r.tedClock : Rat) + 1)) = r.untilNext + 1 / 2 - ((r.tedClock : Rat) + 1) := by
        grind
      have e2 : max 1 (r.untilNext + 1 / 2 - (r.tedClock : Rat)) = r.untilNext + 1 / 2 - (r.tedClock : Rat) := by
        grind
      rw [e1, e2]; grind
    refine ⟨htl ▸ h.tl, by grind, fun _ => by grind, ?_⟩
    intro s hs'; rw [hs] at hs'; cases hs'
  · obtain ⟨l', u, sym', e, hinv, hiff, u1, u2, u3⟩ := tlR_input h.tl hc.pmin0
      (Rat.le_trans hc.min_spt hc.spt_max) saLow (clockRemaining r.untilNext (r.tedClock + 1))
    obtain ⟨l'', e', _, hted⟩ := tl_input_inv h.tl.base
      ((rat_le_iff _ _).2 (Rat.le_trans hc.min_spt hc.spt_max)) saLow (clockRemaining r.untilNext (r.tedClock + 1))
    rw [hin] at e e'
    simp only [Option.some.injEq, Prod.mk.injEq] at e e'
    obtain ⟨rfl, rfl, rfl⟩ := e
    obtain ⟨rfl, _, hsym⟩ := e'
    have hcnt : q.tl.ted.counter = (r.tl.ted.counter + 1) % 2 := by rw [hted, ted_input_counter]
    have hr := h.tl.counter
    have hzero : ((q.tedClock : Nat) : Rat) = 0 := by rw [hck]; rfl
    refine ⟨hinv, ?_, ?_, ?_⟩
    · unfold tickPot
      rw [hzero]
      by_cases hz : r.tl.ted.counter = 0
      · obtain ⟨v1, v2⟩ := u3 (hiff.2 hz)
        split <;> grind
      · rw [if_neg (by omega)]; grind
    · intro hs
      have hz : r.tl.ted.counter = 1 := by
        have : ¬ r.tl.ted.counter = 0 := by
          intro hz; have := hiff.2 hz; rw [hs] at this; cases this
        omega
      unfold tickPot
      rw [hzero, if_neg (by omega), if_pos hz]
      grind
    · intro s hs
      have hz : r.tl.ted.counter = 0 := hiff.1 (by rw [hs]; rfl)
      refine ⟨by omega, ?_⟩
      obtain ⟨y', ey, b1, b2⟩ := demod_bounds q.demod
      rw [hd] at ey; cases ey
      rw [ted_input_sym r.tl.ted saLow s (hsym ▸ hs)]
      exact ⟨b1, b2⟩

omit [Hypot Rat] in
/-- `symbol` preserves the invariant (given the soft symbol is in `[-1, 1]` and the TED has just
    produced it) and does not raise the tick potential -/
theorem symbol_inv_R {c : RxCfg Rat} {spt pmin pmax A : Rat} {q : FullRx Rat} {s : SymEst Rat}
    (hc : SilCfg c spt pmin pmax A)
    (hcfg : q.cfg = c) (h1 : MovGood c.dcLen q.dc.ff) (h2 : MovGood c.dcLen q.dc.fb)
    (h3 : q.agc.minGain ≤ q.agc.maxGain) (h4 : q.demod.window.length ≤ max 1 c.mark.length)
    (h5 : PtInv q.pt) (h6 : SilenceAux.LinkInv q.link) (h7 : TlRInv spt pmin pmax A q.tl)
    (h8 : tickPot pmax A q ≤ 2 * pmax + 2 * A + 5 / 2) (h9 : q.tl.ted.counter = 1)
    (hs1 : -1 ≤ s.sym) (hs2 : s.sym ≤ 1) :
    SilInv c spt pmin pmax A (q.symbol s).1 := by
  obtain ⟨f1, f2, f3, f4, f5, f6, f7, f8⟩ := FullRx.symbol_front_fields q s
  obtain ⟨g1, _, _, _, _⟩ := FullRx.symbol_refines q s
  have hA := hc.A0
  have hP := hc.pmax0
  have haU : q.cfg.alphaU.abs ≤ A := hcfg ▸ hc.alphaU
  have haL : q.cfg.alphaL.abs ≤ A := hcfg ▸ hc.alphaL
  have htl : TlRInv spt pmin pmax A (q.symbol s).1.tl ∧
      ((q.symbol s).1.tl.ted.counter = 1 ∨ (q.symbol s).1.tl.ted.counter = 0) := by
    rcases f8 with e | e | e | e <;> rw [e]
    · exact ⟨h7, Or.inl h9⟩
    · exact ⟨tlR_setGains h7 _ _ haL, Or.inl h9⟩
    · exact ⟨tlR_reset (tlR_setGains h7 _ _ haU) hc.min_spt hc.spt_max, Or.inr rfl⟩
    · exact ⟨tlR_reset (tlR_setGains (tlR_setGains h7 _ _ haL) _ _ haU) hc.min_spt hc.spt_max, Or.inr rfl⟩
  refine ⟨f1.trans hcfg, f2 ▸ h1, f2 ▸ h2, by rw [f6, f7]; exact h3, htl.1, ?_, ?_, ?_, f3 ▸ h4⟩
  · unfold tickPot at h8 ⊢
    rw [f4, f5]
    rw [if_pos h9] at h8
    rcases htl.2 with e | e
    · rw [if_pos e]; exact h8
    · rw [if_neg (by omega)]; grind
  · rw [FullRx.symbol_pt]; exact (pt_track_inv h5 hs1 hs2).1
  · rw [g1]; exact SilenceAux.linkInv_step _ _ _ _ h6

/-- **one sample**: never a panic, the invariant is kept, and either a symbol tick happens or the
    tick potential falls by at least one -/
theorem sample_R {c : RxCfg Rat} {spt pmin pmax A : Rat} {r : FullRx Rat} (hc : SilCfg c spt pmin pmax A)
    (h : SilInv c spt pmin pmax A r) (x : Rat) :
    ∃ q sym y, r.front x = some (q, sym) ∧ FrontOut r x y q sym ∧
      r.sample x = some (FullRx.finish (q, sym)) ∧ SilInv c spt pmin pmax A (FullRx.finish (q, sym)).1 ∧
      (sym = none → tickPot pmax A (FullRx.finish (q, sym)).1 ≤ tickPot pmax A r - 1) ∧
      (∀ s, sym = some s → -1 ≤ s.sym ∧ s.sym ≤ 1) := by
  obtain ⟨q, sym, y, e, hf⟩ := front_R hc h x
  obtain ⟨c1, c2, c3, c4, c5, c6, c7⟩ := front_inv_common hc h hf
  obtain ⟨t1, t2, t3, t4⟩ := front_tl hc h hf
  refine ⟨q, sym, y, e, hf, by rw [FullRx.sample_eq, e]; rfl, ?_, ?_, fun s hs => (t4 s hs).2⟩
  · cases sym with
    | none => exact ⟨c1, c2, c3, c4, t1, t2, c6, c7, c5⟩
    | some s =>
      obtain ⟨k1, k2, k3⟩ := t4 s rfl
      exact symbol_inv_R hc c1 c2 c3 c4 c5 c6 c7 t1 t2 k1 k2 k3
  · intro hs; subst hs; exact t3 rfl

/-! ### runs -/

/-- the stamped tick the discrete part is fed at this sample, given what the front end returned -/
def ticksOf (q : FullRx Rat) : Option (SymEst Rat) → List (Nat × Tick)
  | some s => [(q.inputCounter, q.tickOf s)]
  | none => []

theorem trace_append (xs ys : List Rat) : ∀ r : FullRx Rat,
    FullRx.trace r (xs ++ ys) =
      match FullRx.trace r xs with
      | none => none
      | some (r1, t1) =>
        match FullRx.trace r1 ys with
        | none => none
        | some (r2, t2) => some (r2, t1 ++ t2) := by
  induction xs with
  | nil => intro r; simp only [List.nil_append, FullRx.trace]; cases FullRx.trace r ys <;> simp
  | cons x xs ih =>
    intro r
    simp only [List.cons_append, FullRx.trace]
    cases r.sample x with
    | none => rfl
    | some p =>
      obtain ⟨r', ev⟩ := p
      dsimp only
      rw [ih r']
      cases FullRx.trace r' xs with
      | none => rfl
      | some p =>
        obtain ⟨r1, t1⟩ := p
        dsimp only
        cases FullRx.trace r1 ys with
        | none => rfl
        | some p => simp

/-- one step of `trace`, through `sample_R` -/
theorem trace_cons_R {c : RxCfg Rat} {spt pmin pmax A : Rat} {r : FullRx Rat} (hc : SilCfg c spt pmin pmax A)
    (h : SilInv c spt pmin pmax A r) (x : Rat) (xs : List Rat) :
    ∃ q sym y, FrontOut r x y q sym ∧ SilInv c spt pmin pmax A (FullRx.finish (q, sym)).1 ∧
      (sym = none → tickPot pmax A (FullRx.finish (q, sym)).1 ≤ tickPot pmax A r - 1) ∧
      (∀ s, sym = some s → -1 ≤ s.sym ∧ s.sym ≤ 1) ∧
      FullRx.trace r (x :: xs) =
        match FullRx.trace (FullRx.finish (q, sym)).1 xs with
        | none => none
        | some (r'', tr) => some (r'', ticksOf q sym ++ tr) := by
  obtain ⟨q, sym, y, e, hf, es, hinv, hpot, hsym⟩ := sample_R hc h x
  refine ⟨q, sym, y, hf, hinv, hpot, hsym, ?_⟩
  have ht : r.tickAt x = ticksOf q sym := by
    unfold FullRx.tickAt; rw [e]; cases sym <;> rfl
  simp only [FullRx.trace, es, ht]
  cases FullRx.trace (FullRx.finish (q, sym)).1 xs <;> rfl

/-- a run never panics and keeps the invariant -/
theorem trace_total {c : RxCfg Rat} {spt pmin pmax A : Rat} (hc : SilCfg c spt pmin pmax A) (xs : List Rat) :
    ∀ r : FullRx Rat, SilInv c spt pmin pmax A r →
      ∃ r' tr, FullRx.trace r xs = some (r', tr) ∧ SilInv c spt pmin pmax A r' := by
  induction xs with
  | nil => intro r h; exact ⟨r, [], rfl, h⟩
  | cons x xs ih =>
    intro r h
    obtain ⟨q, sym, y, _, hinv, _, _, et⟩ := trace_cons_R hc h x xs
    obtain ⟨r', tr, e, h'⟩ := ih _ hinv
    rw [e] at et
    exact ⟨r', _, et, h'⟩

omit [Hypot Rat] in
theorem tickPot_ge_one {c : RxCfg Rat} {spt pmin pmax A : Rat} (hc : SilCfg c spt pmin pmax A) (r : FullRx Rat) :
    1 ≤ tickPot pmax A r := by
  have hA := hc.A0
  have hP := hc.pmax0
  unfold tickPot
  split <;> grind

/-- **tick spacing, the core** (any input): if the tick potential is at most `k`, the next `k` samples
    contain a symbol tick -/
theorem tick_within {c : RxCfg Rat} {spt pmin pmax A : Rat} (hc : SilCfg c spt pmin pmax A) (xs : List Rat) :
    ∀ (r : FullRx Rat) (k : Nat), SilInv c spt pmin pmax A r → tickPot pmax A r ≤ (k : Rat) → k ≤ xs.length →
      ∀ r' tr, FullRx.trace r xs = some (r', tr) → 1 ≤ tr.length := by
  induction xs with
  | nil =>
    intro r k h hk hlen r' tr _
    have := tickPot_ge_one hc r
    have hk0 : k = 0 := by simpa using hlen
    subst hk0
    have : (1 : Rat) ≤ ((0 : Nat) : Rat) := Rat.le_trans this hk
    exact absurd this (by decide +kernel)
  | cons x xs ih =>
    intro r k h hk hlen r' tr ht
    obtain ⟨q, sym, y, _, hinv, hpot, _, et⟩ := trace_cons_R hc h x xs
    rw [et] at ht
    cases e : FullRx.trace (FullRx.finish (q, sym)).1 xs with
    | none => rw [e] at ht; cases ht
    | some p =>
      obtain ⟨r2, tr2⟩ := p
      rw [e] at ht
      simp only [Option.some.injEq, Prod.mk.injEq] at ht
      obtain ⟨_, rfl⟩ := ht
      cases sym with
      | some s => simp [ticksOf]
      | none =>
        have h1 := tickPot_ge_one hc r
        have hk1 : 1 ≤ k := by
          cases k with
          | zero => exact absurd (Rat.le_trans h1 hk) (by decide +kernel)
          | succ k => omega
        have hp := hpot rfl
        have hcast : (((k - 1 : Nat)) : Rat) = (k : Rat) - 1 := by
          obtain ⟨m, rfl⟩ : ∃ m, k = m + 1 := ⟨k - 1, by omega⟩
          rw [natCast_succ_rat]; simp; grind
        have := ih _ (k - 1) hinv (by rw [hcast]; grind) (by simp at hlen; omega) r2 tr2 e
        simpa [ticksOf] using this

/-- **tick spacing** (Z3, any input): `G` bounds the tick potential, so every `G` consecutive samples
    contain a symbol tick, and `m * G` samples contain at least `m` -/
theorem ticks_ge {c : RxCfg Rat} {spt pmin pmax A : Rat} (hc : SilCfg c spt pmin pmax A) {G : Nat}
    (hG : 2 * pmax + 2 * A + 5 / 2 ≤ (G : Rat)) (m : Nat) : ∀ (xs : List Rat) (r : FullRx Rat),
      SilInv c spt pmin pmax A r → m * G ≤ xs.length →
      ∀ r' tr, FullRx.trace r xs = some (r', tr) → m ≤ tr.length := by
  induction m with
  | zero => intro xs r _ _ r' tr _; omega
  | succ m ih =>
    intro xs r h hlen r' tr ht
    have hsplit : xs = xs.take G ++ xs.drop G := (List.take_append_drop _ _).symm
    rw [hsplit, trace_append] at ht
    obtain ⟨r1, t1, e1, h1⟩ := trace_total hc (xs.take G) r h
    rw [e1] at ht
    dsimp only at ht
    cases e2 : FullRx.trace r1 (xs.drop G) with
    | none => rw [e2] at ht; cases ht
    | some p =>
      obtain ⟨r2, t2⟩ := p
      rw [e2] at ht
      simp only [Option.some.injEq, Prod.mk.injEq] at ht
      obtain ⟨_, rfl⟩ := ht
      have hG' : G ≤ xs.length := by rw [Nat.succ_mul] at hlen; omega
      have a := tick_within hc (xs.take G) r G h (Rat.le_trans h.pot hG) (by simp; omega) r1 t1 e1
      have b := ih (xs.drop G) r1 h1 (by rw [List.length_drop, Nat.succ_mul] at *; omega) r2 t2 e2
      rw [List.length_append]; omega

/-! ### zero input: the phases -/

omit [Hypot Rat] in
/-- what the discrete step leaves of the front end's result -/
theorem finish_fields (q : FullRx Rat) (sym : Option (SymEst Rat)) :
    (FullRx.finish (q, sym)).1.dc = q.dc ∧ (FullRx.finish (q, sym)).1.demod = q.demod ∧
    (FullRx.finish (q, sym)).1.cfg = q.cfg ∧
    (FullRx.finish (q, sym)).1.pt = (match sym with | none => q.pt | some s => q.pt.track s.sym) ∧
    (q.tl.ted.h2 = 0 → (FullRx.finish (q, sym)).1.tl.ted.h2 = 0) := by
  cases sym with
  | none => exact ⟨rfl, rfl, rfl, rfl, fun h => h⟩
  | some s =>
    obtain ⟨f1, f2, f3, _, _, _, _, f8⟩ := FullRx.symbol_front_fields q s
    refine ⟨f2, f3, f1, FullRx.symbol_pt q s, ?_⟩
    intro h
    show (q.symbol s).1.tl.ted.h2 = 0
    rcases f8 with e | e | e | e <;> rw [e]
    · exact h
    · exact h
    · rfl
    · rfl

/-- the TED part of what the front end did -/
theorem front_ted {c : RxCfg Rat} {spt pmin pmax A : Rat} {r q : FullRx Rat} {x y : Rat}
    {sym : Option (SymEst Rat)} (hc : SilCfg c spt pmin pmax A) (h : SilInv c spt pmin pmax A r)
    (hf : FrontOut r x y q sym) :
    (sym = none ∧ q.tl = r.tl) ∨
      ∃ saLow, q.demod.demod = some saLow ∧ q.tl.ted = (r.tl.ted.input saLow).1 ∧
        sym = (r.tl.ted.input saLow).2 := by
  rcases hf.clock with ⟨_, hs, htl, _, _⟩ | ⟨_, _, saLow, hd, hin⟩
  · exact Or.inl ⟨hs, htl⟩
  · obtain ⟨l'', e', _, hted⟩ := tl_input_inv h.tl.base
      ((rat_le_iff _ _).2 (Rat.le_trans hc.min_spt hc.spt_max)) saLow (clockRemaining r.untilNext (r.tedClock + 1))
    rw [hin] at e'
    simp only [Option.some.injEq, Prod.mk.injEq] at e'
    obtain ⟨rfl, _, hsym⟩ := e'
    exact Or.inr ⟨saLow, hd, hted, hsym⟩

/-- the state after `j` zero input samples: the DC blocker's zero tails, and the demodulator window's
    (which starts to fill with zeros once the DC blocker's output is zero, after `2 * dcLen` samples) -/
structure ZPh (c : RxCfg Rat) (j : Nat) (r : FullRx Rat) : Prop where
  dc : DcZ c.dcLen j r.dc
  win : WinZ (max 1 c.mark.length) (j - 2 * c.dcLen) r.demod.window

omit [Hypot Rat] in
theorem zph_start {c : RxCfg Rat} {spt pmin pmax A : Rat} {r : FullRx Rat} (h : SilInv c spt pmin pmax A r) :
    ZPh c 0 r :=
  ⟨dcZ_start h.ffGood h.fbGood, by simpa using winZ_start h.win⟩

theorem zph_step {c : RxCfg Rat} {spt pmin pmax A : Rat} {r q : FullRx Rat} {y : Rat} {j : Nat}
    {sym : Option (SymEst Rat)} (hc : SilCfg c spt pmin pmax A) (h : SilInv c spt pmin pmax A r)
    (hz : ZPh c j r) (hf : FrontOut r 0 y q sym) : ZPh c (j + 1) (FullRx.finish (q, sym)).1 := by
  obtain ⟨f1, f2, _⟩ := finish_fields q sym
  obtain ⟨d', y', e, hd, hy⟩ := dcZ_filter hz.dc hc.dcLen
  have d1 := hf.dcEq; rw [e] at d1
  simp only [Option.some.injEq, Prod.mk.injEq] at d1
  obtain ⟨rfl, rfl⟩ := d1
  refine ⟨f1 ▸ hd, ?_⟩
  rw [f2]
  by_cases hj : 2 * c.dcLen ≤ j
  · have hy0 := hy (by omega)
    rw [hf.demod, hy0, Rat.zero_mul, show j + 1 - 2 * c.dcLen = (j - 2 * c.dcLen) + 1 by omega]
    exact winZ_push hz.win
  · rw [show j + 1 - 2 * c.dcLen = 0 by omega]
    exact winZ_start (front_inv_common hc h hf).2.2.2.2.1

/-- the front end has forgotten everything: DC blocker in its all-zero state, demodulator window all zero -/
structure ZQuiet (c : RxCfg Rat) (r : FullRx Rat) : Prop where
  dc : DcZero c.dcLen r.dc
  win : ∀ x ∈ r.demod.window, x = 0

omit [Hypot Rat] in
theorem zquiet_of_zph {c : RxCfg Rat} {j : Nat} {r : FullRx Rat} (hz : ZPh c j r)
    (hj : 2 * c.dcLen + max 1 c.mark.length ≤ j) : ZQuiet c r :=
  ⟨dcZero_of_dcZ hz.dc (by omega), winZ_all_zero hz.win (by omega)⟩

/-- one zero sample in the quiet state: the state is kept, the DC blocker's and so the AGC's output is
    `0`, the low-rate sample (if the clock fires) is `0`, so the soft symbol of an estimate is `0`; once
    the TED's newest entry is `0` the whole estimate is `⟨0, 0, 0⟩` -/
theorem zquiet_step {c : RxCfg Rat} {spt pmin pmax A : Rat} {r q : FullRx Rat} {y : Rat}
    {sym : Option (SymEst Rat)} (hc : SilCfg c spt pmin pmax A) (h : SilInv c spt pmin pmax A r)
    (hz : ZQuiet c r) (hf : FrontOut r 0 y q sym) :
    ZQuiet c (FullRx.finish (q, sym)).1 ∧ y = 0 ∧ (∀ s, sym = some s → s.sym = 0) ∧
      ((sym ≠ none ∨ r.tl.ted.h2 = 0) → (FullRx.finish (q, sym)).1.tl.ted.h2 = 0) ∧
      (r.tl.ted.h2 = 0 → ∀ s, sym = some s → s = ⟨0, 0, 0⟩) := by
  obtain ⟨f1, f2, _, _, f5⟩ := finish_fields q sym
  obtain ⟨d', e, hd⟩ := dcZero_filter hz.dc hc.dcLen
  have d1 := hf.dcEq; rw [e] at d1
  simp only [Option.some.injEq, Prod.mk.injEq] at d1
  obtain ⟨rfl, rfl⟩ := d1
  have hdem : q.demod = r.demod.push 0 := by rw [hf.demod, Rat.zero_mul]
  have hwin : ∀ x ∈ q.demod.window, x = 0 := by rw [hdem]; exact push_all_zero _ hz.win
  refine ⟨⟨f1 ▸ hd, f2 ▸ hwin⟩, rfl, ?_, ?_, ?_⟩
  · intro s hs
    rcases front_ted hc h hf with ⟨hn, _⟩ | ⟨saLow, e1, _, e3⟩
    · rw [hn] at hs; cases hs
    · rw [demod_zero _ hwin] at e1; cases e1
      exact ted_input_sym _ _ s (e3 ▸ hs)
  · intro hor
    apply f5
    rcases front_ted hc h hf with ⟨hn, htl⟩ | ⟨saLow, e1, e2, _⟩
    · rcases hor with hne | h2
      · exact absurd hn hne
      · rw [htl]; exact h2
    · rw [demod_zero _ hwin] at e1; cases e1
      rw [e2]; unfold Ted.input; simp only []; split <;> rfl
  · intro h2 s hs
    rcases front_ted hc h hf with ⟨hn, _⟩ | ⟨saLow, e1, _, e3⟩
    · rw [hn] at hs; cases hs
    · rw [demod_zero _ hwin] at e1; cases e1
      exact (ted_input_zero h2).2 s (e3 ▸ hs)

/-- the list of `n` zero samples: what `flush()` feeds -/
def zeros (n : Nat) : List Rat := List.replicate n 0

omit [Hypot Rat] in
theorem zeros_succ (n : Nat) : zeros (n + 1) = 0 :: zeros n := List.replicate_succ

omit [Hypot Rat] in
theorem zeros_add (m n : Nat) : zeros (m + n) = zeros m ++ zeros n := by
  simp [zeros, List.replicate_append_replicate]

/-- `n` zero samples advance the zero counter by `n` -/
theorem zph_run {c : RxCfg Rat} {spt pmin pmax A : Rat} (hc : SilCfg c spt pmin pmax A) (n : Nat) :
    ∀ (j : Nat) (r : FullRx Rat), SilInv c spt pmin pmax A r → ZPh c j r →
      ∀ r' tr, FullRx.trace r (zeros n) = some (r', tr) → ZPh c (j + n) r' := by
  induction n with
  | zero =>
    intro j r _ hz r' tr ht
    simp only [zeros, List.replicate_zero, FullRx.trace, Option.some.injEq, Prod.mk.injEq] at ht
    rw [← ht.1]; exact hz
  | succ n ih =>
    intro j r h hz r' tr ht
    rw [zeros_succ] at ht
    obtain ⟨q, sym, y, hf, hinv, _, _, et⟩ := trace_cons_R hc h 0 (zeros n)
    rw [et] at ht
    cases e : FullRx.trace (FullRx.finish (q, sym)).1 (zeros n) with
    | none => rw [e] at ht; cases ht
    | some p =>
      obtain ⟨r2, tr2⟩ := p
      rw [e] at ht
      simp only [Option.some.injEq, Prod.mk.injEq] at ht
      obtain ⟨rfl, _⟩ := ht
      have := ih (j + 1) _ hinv (zph_step hc h hz hf) r2 tr2 e
      rwa [show j + 1 + n = j + (n + 1) by omega] at this

/-- the observation the squelch makes on a zero soft symbol -/
def zeroObs (c : RxCfg Rat) (p : PowerTracker Rat) : Obs :=
  ⟨true, ge (p.track 0).power c.powerOpen, ge (p.track 0).power c.powerClose⟩

/-- in the quiet state a run of zeros keeps the quiet state; every symbol tick tracks a zero symbol;
    the sign bit is set; and once the power is below the closing threshold (≤ the opening one) every
    tick is below both -/
theorem zquiet_run {c : RxCfg Rat} {spt pmin pmax A : Rat} (hc : SilCfg c spt pmin pmax A) (n : Nat) :
    ∀ (r : FullRx Rat), SilInv c spt pmin pmax A r → ZQuiet c r →
      ∀ r' tr, FullRx.trace r (zeros n) = some (r', tr) →
        ZQuiet c r' ∧ SilInv c spt pmin pmax A r' ∧ r'.pt = r.pt.trackZeros tr.length ∧
        (∀ t ∈ tr, t.2.1.bit = true) ∧
        (r.pt.power < c.powerClose → c.powerClose ≤ c.powerOpen →
          ∀ t ∈ tr, t.2.1.openOk = false ∧ t.2.1.closeOk = false) := by
  induction n with
  | zero =>
    intro r h hz r' tr ht
    simp only [zeros, List.replicate_zero, FullRx.trace, Option.some.injEq, Prod.mk.injEq] at ht
    obtain ⟨rfl, rfl⟩ := ht
    exact ⟨hz, h, rfl, by simp, fun _ _ => by simp⟩
  | succ n ih =>
    intro r h hz r' tr ht
    rw [zeros_succ] at ht
    obtain ⟨q, sym, y, hf, hinv, _, _, et⟩ := trace_cons_R hc h 0 (zeros n)
    rw [et] at ht
    cases e : FullRx.trace (FullRx.finish (q, sym)).1 (zeros n) with
    | none => rw [e] at ht; cases ht
    | some p =>
      obtain ⟨r2, tr2⟩ := p
      rw [e] at ht
      simp only [Option.some.injEq, Prod.mk.injEq] at ht
      obtain ⟨rfl, rfl⟩ := ht
      obtain ⟨hq, _, hs0, _, _⟩ := zquiet_step hc h hz hf
      obtain ⟨i1, i2, i3, i4, i5⟩ := ih _ hinv hq r2 tr2 e
      obtain ⟨_, _, _, fpt, _⟩ := finish_fields q sym
      cases sym with
      | none =>
        simp only [hf.pt] at fpt
        refine ⟨i1, i2, by simpa [ticksOf, fpt] using i3, by simpa [ticksOf] using i4, ?_⟩
        intro hp ho
        simpa [ticksOf] using i5 (by rw [fpt]; exact hp) ho
      | some s =>
        have hs : s.sym = 0 := hs0 s rfl
        simp only [hf.pt, hs] at fpt
        have hobs : q.obsOf s = zeroObs c r.pt := by
          unfold FullRx.obsOf zeroObs
          rw [hf.pt, hs, hf.cfg, h.cfg]
          simp [ge]
        refine ⟨i1, i2, ?_, ?_, ?_⟩
        · rw [i3, fpt]; simp [ticksOf, PowerTracker.trackZeros]
        · intro t ht
          simp only [ticksOf, List.cons_append, List.nil_append, List.mem_cons] at ht
          rcases ht with rfl | ht
          · simp [FullRx.tickOf, hobs, zeroObs]
          · exact i4 t ht
        · intro hp ho t ht
          have hle := pt_track_zero_le h.pt
          simp only [ticksOf, List.cons_append, List.nil_append, List.mem_cons] at ht
          rcases ht with rfl | ht
          · simp only [FullRx.tickOf, hobs, zeroObs, ge, rat_le, decide_eq_false_iff_not]
            constructor <;> grind
          · exact i5 (by rw [fpt]; grind) ho t ht

/-! ### from the trace to the discrete chain -/

/-- a trace is a run: the events, the receiver and link states are those of the discrete chain on it -/
theorem trace_run {r r' : FullRx Rat} {xs : List Rat} {tr : List (Nat × Tick)}
    (h : FullRx.trace r xs = some (r', tr)) :
    ∃ evs, FullRx.run r xs = some (r', evs) ∧ r'.cfg = r.cfg ∧
      evs = (rRun r.cfg.rate r.rx (stampedTicks r.cfg.lcfg r.link tr)).2 ∧
      r'.rx = (rRun r.cfg.rate r.rx (stampedTicks r.cfg.lcfg r.link tr)).1 ∧
      r'.link = lrunState r.cfg.lcfg r.link (tr.map (·.2)) := by
  have hi := FullRxThm.trace_iff_run r xs
  rw [h] at hi
  cases hr : FullRx.run r xs with
  | none => rw [hr] at hi; cases hi
  | some p =>
    obtain ⟨r2, evs⟩ := p
    rw [hr] at hi
    simp only [Option.map_some, Option.some.injEq] at hi
    subst hi
    obtain ⟨tr2, t2, c2, e2, x2, l2⟩ := FullRx.run_trace xs r r' evs hr
    rw [h] at t2
    simp only [Option.some.injEq, Prod.mk.injEq] at t2
    obtain ⟨_, rfl⟩ := t2
    exact ⟨evs, rfl, c2, e2, x2, l2⟩

/-- the squelch bandwidth never changes -/
theorem trace_bw {c : RxCfg Rat} {spt pmin pmax A : Rat} (hc : SilCfg c spt pmin pmax A) (xs : List Rat) :
    ∀ (r : FullRx Rat), SilInv c spt pmin pmax A r → ∀ r' tr, FullRx.trace r xs = some (r', tr) →
      r'.pt.bandwidth = r.pt.bandwidth := by
  induction xs with
  | nil =>
    intro r _ r' tr ht
    simp only [FullRx.trace, Option.some.injEq, Prod.mk.injEq] at ht
    rw [← ht.1]
  | cons x xs ih =>
    intro r h r' tr ht
    obtain ⟨q, sym, y, hf, hinv, _, _, et⟩ := trace_cons_R hc h x xs
    rw [et] at ht
    cases e : FullRx.trace (FullRx.finish (q, sym)).1 xs with
    | none => rw [e] at ht; cases ht
    | some p =>
      obtain ⟨r2, tr2⟩ := p
      rw [e] at ht
      simp only [Option.some.injEq, Prod.mk.injEq] at ht
      obtain ⟨rfl, _⟩ := ht
      rw [ih _ hinv r2 tr2 e, (finish_fields q sym).2.2.2.1]
      cases sym <;> simp [hf.pt, PowerTracker.track]

omit [Hypot Rat] in
theorem pow_le_pow_rat {q : Rat} (q0 : 0 ≤ q) (q1 : q ≤ 1) {K m : Nat} (h : K ≤ m) : q ^ m ≤ q ^ K := by
  induction m with
  | zero => have : K = 0 := by omega
            subst this; exact Rat.le_refl
  | succ m ih =>
    by_cases hk : K = m + 1
    · subst hk; exact Rat.le_refl
    · have i := ih (by omega)
      have p := Rat.pow_nonneg (n := m) q0
      have := Rat.mul_le_mul_of_nonneg_left q1 p
      rw [Rat.pow_succ]
      grind

/-- the receiver has gone idle: the front end has forgotten everything, the tracked power is below the
    closing threshold, the link is unsynchronised, unlocked, with an idle framer -/
structure Idle (c : RxCfg Rat) (r : FullRx Rat) : Prop where
  quiet : ZQuiet c r
  power : r.pt.power < c.powerClose
  link : SilenceAux.QuietState r.link

/-- phase (a): `2 * dcLen + max 1 mark.length` zero samples empty the DC blocker and the demodulator -/
theorem zeros_to_quiet {c : RxCfg Rat} {spt pmin pmax A : Rat} {r : FullRx Rat} (hc : SilCfg c spt pmin pmax A)
    (h : SilInv c spt pmin pmax A r) {n : Nat} (hn : 2 * c.dcLen + max 1 c.mark.length ≤ n) :
    ∃ r' tr, FullRx.trace r (zeros n) = some (r', tr) ∧ SilInv c spt pmin pmax A r' ∧ ZQuiet c r' ∧
      r'.pt.bandwidth = r.pt.bandwidth := by
  obtain ⟨r', tr, e, h'⟩ := trace_total hc (zeros n) r h
  have := zph_run hc n 0 r h (zph_start h) r' tr e
  exact ⟨r', tr, e, h', zquiet_of_zph this (by omega), trace_bw hc _ r h r' tr e⟩

/-- phase (b): `K` symbol ticks on zeros bring the power below the closing threshold when
    `(1 - bandwidth) ^ K` is below it; `K * G` samples contain that many -/
theorem zeros_to_lowpower {c : RxCfg Rat} {spt pmin pmax A : Rat} {r : FullRx Rat} (hc : SilCfg c spt pmin pmax A)
    (h : SilInv c spt pmin pmax A r) (hz : ZQuiet c r) {G K : Nat}
    (hG : 2 * pmax + 2 * A + 5 / 2 ≤ (G : Rat)) (hK : (1 - r.pt.bandwidth) ^ K < c.powerClose)
    {n : Nat} (hn : K * G ≤ n) :
    ∃ r' tr, FullRx.trace r (zeros n) = some (r', tr) ∧ SilInv c spt pmin pmax A r' ∧ ZQuiet c r' ∧
      r'.pt.power < c.powerClose := by
  obtain ⟨r', tr, e, h'⟩ := trace_total hc (zeros n) r h
  obtain ⟨z1, _, z3, _, _⟩ := zquiet_run hc n r h hz r' tr e
  have hlen := ticks_ge hc hG K (zeros n) r h (by simpa [zeros] using hn) r' tr e
  obtain ⟨_, _, p3⟩ := pt_trackZeros h.pt tr.length
  have hpt := h.pt
  have q0 : 0 ≤ 1 - r.pt.bandwidth := by have := hpt.bw1; grind
  have q1 : 1 - r.pt.bandwidth ≤ 1 := by have := hpt.bw0; grind
  have a := decay_le hpt.pw1 q0 tr.length
  have b := pow_le_pow_rat q0 q1 hlen
  refine ⟨r', tr, e, h', z1, ?_⟩
  rw [z3, p3]
  grind

/-- phase (c): 32 further ticks, all below both thresholds, un-wedge the link (`no_wedge`) -/
theorem zeros_to_idle {c : RxCfg Rat} {spt pmin pmax A : Rat} {r : FullRx Rat} (hc : SilCfg c spt pmin pmax A)
    (h : SilInv c spt pmin pmax A r) (hz : ZQuiet c r) (hp : r.pt.power < c.powerClose)
    (hco : c.powerClose ≤ c.powerOpen) {G : Nat} (hG : 2 * pmax + 2 * A + 5 / 2 ≤ (G : Rat))
    {n : Nat} (hn : 32 * G ≤ n) :
    ∃ r' tr, FullRx.trace r (zeros n) = some (r', tr) ∧ SilInv c spt pmin pmax A r' ∧ Idle c r' := by
  obtain ⟨r', tr, e, h'⟩ := trace_total hc (zeros n) r h
  obtain ⟨z1, _, z3, _, z5⟩ := zquiet_run hc n r h hz r' tr e
  have hlen := ticks_ge hc hG 32 (zeros n) r h (by simpa [zeros] using hn) r' tr e
  obtain ⟨_, _, _, _, _, hl⟩ := trace_run e
  have hq : ∀ x ∈ tr.map (·.2), x.1.openOk = false ∧ x.1.closeOk = false := by
    intro x hx
    obtain ⟨t, ht, rfl⟩ := List.mem_map.1 hx
    exact z5 hp hco t ht
  obtain ⟨w, _⟩ := SilenceAux.no_wedge r.cfg.lcfg r.link (tr.map (·.2)) h.link (by simpa using hlen) hq
  obtain ⟨_, _, p3⟩ := pt_trackZeros h.pt tr.length
  have hpt := h.pt
  have q0 : 0 ≤ 1 - r.pt.bandwidth := by have := hpt.bw1; grind
  have q1 : 1 - r.pt.bandwidth ≤ 1 := by have := hpt.bw0; grind
  have b := pow_le_pow_rat q0 q1 (Nat.zero_le tr.length)
  rw [Rat.pow_zero] at b
  have b' := Rat.mul_le_mul_of_nonneg_left b hpt.pw0
  refine ⟨r', tr, e, h', ⟨z1, ?_, hl ▸ w⟩⟩
  rw [z3, p3]
  grind

/-- phase (d): idle stays idle on zeros, and every symbol tick reports `NoCarrier` -/
theorem idle_run {c : RxCfg Rat} {spt pmin pmax A : Rat} {r : FullRx Rat} (hc : SilCfg c spt pmin pmax A)
    (h : SilInv c spt pmin pmax A r) (hi : Idle c r) (hco : c.powerClose ≤ c.powerOpen) (n : Nat) :
    ∃ r' tr, FullRx.trace r (zeros n) = some (r', tr) ∧ SilInv c spt pmin pmax A r' ∧ Idle c r' ∧
      ∀ ls ∈ lrun c.lcfg r.link (tr.map (·.2)), ls = .noCarrier := by
  obtain ⟨r', tr, e, h'⟩ := trace_total hc (zeros n) r h
  obtain ⟨z1, _, z3, _, z5⟩ := zquiet_run hc n r h hi.quiet r' tr e
  obtain ⟨_, _, _, _, _, hl⟩ := trace_run e
  have hq : SilenceAux.AllClosed (tr.map (·.2)) := by
    intro x hx
    obtain ⟨t, ht, rfl⟩ := List.mem_map.1 hx
    exact (z5 hi.power hco t ht).1
  obtain ⟨w1, w2⟩ := SilenceAux.quiet_run c.lcfg (tr.map (·.2)) r.link hi.link hq
  obtain ⟨_, _, p3⟩ := pt_trackZeros h.pt tr.length
  have hpt := h.pt
  have q0 : 0 ≤ 1 - r.pt.bandwidth := by have := hpt.bw1; grind
  have q1 : 1 - r.pt.bandwidth ≤ 1 := by have := hpt.bw0; grind
  have b := pow_le_pow_rat q0 q1 (Nat.zero_le tr.length)
  rw [Rat.pow_zero] at b
  have b' := Rat.mul_le_mul_of_nonneg_left b hpt.pw0
  have hp := hi.power
  refine ⟨r', tr, e, h', ⟨z1, ?_, ?_⟩, w2⟩
  · rw [z3, p3]; grind
  · rw [hl, h.cfg]; exact w1

/-! ### a newly built receiver satisfies the invariant -/

omit [Hypot Rat] in
theorem silInv_new {c : RxCfg Rat} {r0 : FullRx Rat} {A : Rat} (hnew : FullRx.new c = some r0)
    (hsps : 0 ≤ c.sps) (hagc : c.agcMin ≤ c.agcMax) (hU : c.alphaU.abs ≤ A) (hL : c.alphaL.abs ≤ A) :
    SilCfg c (c.sps / 2) r0.tl.periodMin r0.tl.periodMax A ∧
      SilInv c (c.sps / 2) r0.tl.periodMin r0.tl.periodMax A r0 ∧ r0.tl.periodMax ≤ c.sps := by
  have hl : 0 < c.dcLen := by
    cases hn : c.dcLen with
    | zero => rw [(FullRx.new_none_iff c).2 hn] at hnew; cases hnew
    | succ n => omega
  obtain ⟨dc, agc, tl, pt, e1, e2, e3, e4, e⟩ := FullRx.new_some (c := c) hl
  rw [e] at hnew; cases hnew
  obtain ⟨l, e3', t1, t2, t3, t4, _, t6, t7, t8, t9, t10, _⟩ :=
    DspThm.tl_new_bounds c.sps c.alphaU c.betaU c.maxDev hsps
  rw [e3] at e3'; cases e3'
  rw [dc_new_some hl] at e1; cases e1
  obtain ⟨_, _, e2'⟩ := agc_new_some c.agcBw c.agcMin c.agcMax
  rw [e2] at e2'; cases e2'
  obtain ⟨hpt, _⟩ := pt_new_inv e4
  have hA : 0 ≤ A := Rat.le_trans Rat.abs_nonneg hU
  have hg : MovGood c.dcLen (⟨List.replicate c.dcLen zero, div one (ofNat c.dcLen), zero⟩ : MovAvg Rat) :=
    ⟨by simp, by simp [sum_replicate_rat, Rat.mul_zero], rfl⟩
  have hcfg : SilCfg c (c.sps / 2) tl.periodMin tl.periodMax A :=
    ⟨hl, t7, t1 ▸ t8, t1 ▸ t9, hU, hL⟩
  refine ⟨hcfg, ⟨rfl, hg, hg, hagc, ?_, ?_, hpt, SilenceAux.linkInv_init, ?_⟩, t10⟩
  · exact ⟨⟨t1, rfl, rfl, (rat_le_iff _ _).2 (t2 ▸ t1 ▸ t8), (rat_le_iff _ _).2 (t2 ▸ t1 ▸ t9)⟩,
      t4 ▸ hU, by rw [t6]; decide, by rw [t6]; intro hc; cases hc⟩
  · have hP := hcfg.pmax0
    unfold tickPot
    simp only [t6, Ted.init]
    rw [if_neg (by omega)]
    have : ((0 : Nat) : Rat) = 0 := rfl
    rw [this]
    grind
  · simp [Demod.new]; omega

/-! ### the receiver ticks of a trace -/

omit [Hypot Rat] in
theorem stampedTicks_spec (c : LCfg) (tr : List (Nat × Tick)) : ∀ ls : LState,
    (stampedTicks c ls tr).length = tr.length ∧
    (stampedTicks c ls tr).map (·.2.2) = lrun c ls (tr.map (·.2)) ∧
    (stampedTicks c ls tr).map (·.1) = tr.map (·.1) ∧
    ∀ i (hi : i < (stampedTicks c ls tr).length), ((stampedTicks c ls tr)[i]).2.1 = ls.nsym + 1 + i := by
  induction tr with
  | nil => intro ls; exact ⟨rfl, rfl, rfl, fun i hi => absurd hi (by simp [stampedTicks])⟩
  | cons p tr ih =>
    intro ls
    obtain ⟨n, t⟩ := p
    obtain ⟨i1, i2, i3, i4⟩ := ih (lstep c ls t.1 t.2).1
    refine ⟨by simp [stampedTicks, i1], by simp [stampedTicks, lrun, i2], by simp [stampedTicks, i3], ?_⟩
    intro i hi
    cases i with
    | zero => simp [stampedTicks, lstep_nsym]
    | succ i =>
      simp only [stampedTicks, List.getElem_cons_succ]
      rw [i4 i (by simpa [stampedTicks] using hi), lstep_nsym]; omega

theorem run_append (xs ys : List Rat) : ∀ r : FullRx Rat,
    FullRx.run r (xs ++ ys) =
      match FullRx.run r xs with
      | none => none
      | some (r1, e1) =>
        match FullRx.run r1 ys with
        | none => none
        | some (r2, e2) => some (r2, e1 ++ e2) := by
  induction xs with
  | nil => intro r; simp only [List.nil_append, FullRx.run]; cases FullRx.run r ys <;> simp
  | cons x xs ih =>
    intro r
    simp only [List.cons_append, FullRx.run]
    cases r.sample x with
    | none => rfl
    | some p =>
      obtain ⟨r', ev⟩ := p
      dsimp only
      rw [ih r']
      cases FullRx.run r' xs with
      | none => rfl
      | some p =>
        obtain ⟨r1, t1⟩ := p
        dsimp only
        cases FullRx.run r1 ys with
        | none => rfl
        | some p => simp

/-! ### Z6 from the idle state -/

/-- **`flush()` from an idle receiver.**  The receiver is idle (front end empty, power below the
    closing threshold, link unsynchronised), result `t` is pending, and the forced end-of-message timer
    cannot fire within the `n` zero samples.  If `n` samples are enough for the symbol count to reach the
    deadline (`G` samples per tick suffice), the message is emitted. -/
theorem flush_from_idle {c : RxCfg Rat} {spt pmin pmax A : Rat} {r : FullRx Rat} (hc : SilCfg c spt pmin pmax A)
    (h : SilInv c spt pmin pmax A r) (hi : Idle c r) (hco : c.powerClose ≤ c.powerOpen)
    {G : Nat} (hG : 2 * pmax + 2 * A + 5 / 2 ≤ (G : Rat))
    (t : Timed MsgResult) (hh : C14.Holding r.rx t) (n : Nat)
    (hforce : ∀ T, r.rx.forceEomAt = some T → r.inputCounter + n ≤ T)
    (hn : max 1 (t.deadline - r.link.nsym) * G ≤ n) :
    ∃ r' evs smp, FullRx.run r (zeros n) = some (r', evs) ∧ SilInv c spt pmin pmax A r' ∧ Idle c r' ∧
      Event.transport smp (.message t.data) ∈ evs := by
  obtain ⟨r', tr, e, h', hi', hnc⟩ := idle_run hc h hi hco n
  obtain ⟨evs, er, _, ee, _, _⟩ := trace_run e
  have hlen := ticks_ge hc hG (max 1 (t.deadline - r.link.nsym)) (zeros n) r h
    (by simpa [zeros] using hn) r' tr e
  obtain ⟨s1, _, _⟩ := FullRx.trace_stamps (zeros n) r r' tr e
  obtain ⟨k1, k2, k3, k4⟩ := stampedTicks_spec r.cfg.lcfg tr r.link
  obtain ⟨smp, hm⟩ := C14.flush_releases_consecutive r.cfg.rate r.rx t hh
    (stampedTicks r.cfg.lcfg r.link tr) r.link.nsym
    (by
      intro tk htk
      apply hnc
      rw [← h.cfg, ← k2]
      exact List.mem_map.2 ⟨tk, htk, rfl⟩)
    k4
    (by
      intro T hT tk htk
      have : tk.1 ∈ tr.map (·.1) := by rw [← k3]; exact List.mem_map.2 ⟨tk, htk, rfl⟩
      obtain ⟨p, hp, hp'⟩ := List.mem_map.1 this
      have := (s1 p hp).2
      have := hforce T hT
      simp only [zeros, List.length_replicate] at *
      omega)
    (by omega) (by omega)
  exact ⟨r', evs, smp, er, h', hi', ee ▸ hm⟩

/-! ### Z6 from any state, when the drain reports no burst -/

omit [Hypot Rat] in
/-- a `Searching` or `Reading` tick does not reach the assembler: the pending result, the timer and the
    transport state are untouched, and only a link event can be emitted -/
theorem other_tick_holding (rate : Nat) (s : RState) (t : Timed MsgResult) (h : C14.Holding s t)
    (sample sym : Nat) (ls : LinkSt) (hls : ls = .searching ∨ ls = .reading) :
    C14.Holding (rTick rate s sample sym ls).1 t ∧
      (rTick rate s sample sym ls).1.forceEomAt = s.forceEomAt ∧
      C14.NoMessage (rTick rate s sample sym ls).2 := by
  have hcore : tlCore s sample sym ls = (s.asm, none) := by rcases hls with rfl | rfl <;> rfl
  rw [rTick_eq]
  refine ⟨⟨?_, ?_, ?_⟩, ?_, ?_⟩
  · simp only [rNext, hcore]; exact h.pend
  · intro hp
    simp only [rNext, hcore] at hp ⊢
    exact h.pinv hp
  · simp only [rNext, hcore]; exact h.noeom
  · simp only [rNext, hcore, forceAfter]
  · intro e he smp r heq
    subst heq
    rw [hcore] at he
    simp only [trEv, List.append_nil] at he
    unfold linkEv at he
    split at he <;> simp at he

omit [Hypot Rat] in
/-- `C14.flush_releases_run`, for tick lists that contain `Searching`/`Reading` ticks besides the
    `NoCarrier` ones (no `Burst`): the first `NoCarrier` tick at or beyond the deadline emits the message -/
theorem flush_releases_no_burst (rate : Nat) (t : Timed MsgResult) (ticks : List RTick) :
    ∀ (s : RState), C14.Holding s t → (∀ tk ∈ ticks, ∀ b, tk.2.2 ≠ .burst b) →
      (∀ T, s.forceEomAt = some T → ∀ tk ∈ ticks, tk.1 ≤ T) →
      (∃ tk ∈ ticks, tk.2.2 = .noCarrier ∧ t.deadline ≤ tk.2.1) →
      ∃ smp, Event.transport smp (.message t.data) ∈ (rRun rate s ticks).2 := by
  induction ticks with
  | nil => intro s _ _ _ hex; obtain ⟨_, h, _⟩ := hex; cases h
  | cons x xs ih =>
    intro s h hnb hforce hex
    obtain ⟨smp, sy, ls⟩ := x
    rw [rRun_cons]
    have hnb' : ∀ tk ∈ xs, ∀ b, tk.2.2 ≠ .burst b := fun tk htk => hnb tk (List.mem_cons_of_mem _ htk)
    have tailCase : ∀ (s' : RState), C14.Holding s' t → s'.forceEomAt = s.forceEomAt →
        (∃ tk ∈ xs, tk.2.2 = .noCarrier ∧ t.deadline ≤ tk.2.1) →
        ∃ smp', Event.transport smp' (.message t.data) ∈ (rRun rate s' xs).2 := by
      intro s' h' hf' hex'
      exact ih s' h' hnb' (by rw [hf']; intro T hT tk htk; exact hforce T hT tk (List.mem_cons_of_mem _ htk)) hex'
    cases ls with
    | burst b => exact absurd rfl (hnb (smp, sy, .burst b) List.mem_cons_self b)
    | noCarrier =>
      have hnf := C14.not_forced_of s smp .noCarrier (fun T hT => hforce T hT (smp, sy, .noCarrier) List.mem_cons_self)
      by_cases hd : t.deadline ≤ sy
      · exact ⟨smp, List.mem_append_left _ (C14.due_tick rate s t h smp sy hd hnf).1⟩
      · have hh := C14.early_tick_holding rate s t h smp sy (by omega)
        obtain ⟨hfo, _⟩ := C14.early_tick rate s t h smp sy (by omega) hnf
        obtain ⟨tk, htk, h1, h2⟩ := hex
        have hin : tk ∈ xs := by
          rcases List.mem_cons.1 htk with rfl | hin
          · exact absurd h2 hd
          · exact hin
        obtain ⟨smp', hm⟩ := tailCase _ hh hfo ⟨tk, hin, h1, h2⟩
        exact ⟨smp', List.mem_append_right _ hm⟩
    | searching =>
      obtain ⟨hh, hfo, _⟩ := other_tick_holding rate s t h smp sy .searching (Or.inl rfl)
      obtain ⟨tk, htk, h1, h2⟩ := hex
      have hin : tk ∈ xs := by
        rcases List.mem_cons.1 htk with rfl | hin
        · cases h1
        · exact hin
      obtain ⟨smp', hm⟩ := tailCase _ hh hfo ⟨tk, hin, h1, h2⟩
      exact ⟨smp', List.mem_append_right _ hm⟩
    | reading =>
      obtain ⟨hh, hfo, _⟩ := other_tick_holding rate s t h smp sy .reading (Or.inr rfl)
      obtain ⟨tk, htk, h1, h2⟩ := hex
      have hin : tk ∈ xs := by
        rcases List.mem_cons.1 htk with rfl | hin
        · cases h1
        · exact hin
      obtain ⟨smp', hm⟩ := tailCase _ hh hfo ⟨tk, hin, h1, h2⟩
      exact ⟨smp', List.mem_append_right _ hm⟩

/-- **`flush()` from any state, the result pending at the START.**  If the link reports no `Burst`
    while it drains (the first `n1` samples: no frame was in progress, and the silence is not taken for
    one), the pending result is emitted: `Searching`/`Reading` ticks do not reach the assembler, and
    after the drain `NoCarrier` ticks with consecutive symbol counts keep coming. -/
theorem flush_no_burst {c : RxCfg Rat} {spt pmin pmax A : Rat} {r : FullRx Rat} (hc : SilCfg c spt pmin pmax A)
    (h : SilInv c spt pmin pmax A r) (hco : c.powerClose ≤ c.powerOpen)
    {G : Nat} (hG : 2 * pmax + 2 * A + 5 / 2 ≤ (G : Rat))
    {n1 : Nat} {rA : FullRx Rat} {trA : List (Nat × Tick)}
    (eA : FullRx.trace r (zeros n1) = some (rA, trA)) (hA : SilInv c spt pmin pmax A rA) (iA : Idle c rA)
    (hnb : ∀ tk ∈ stampedTicks c.lcfg r.link trA, ∀ b, tk.2.2 ≠ .burst b)
    (t : Timed MsgResult) (hh : C14.Holding r.rx t) (n2 : Nat)
    (hforce : ∀ T, r.rx.forceEomAt = some T → r.inputCounter + (n1 + n2) ≤ T)
    (hn2 : max 1 (t.deadline - r.link.nsym) * G ≤ n2) :
    ∃ r' evs smp, FullRx.run r (zeros (n1 + n2)) = some (r', evs) ∧ Idle c r' ∧
      Event.transport smp (.message t.data) ∈ evs := by
  obtain ⟨rB, trB, eB, _, iB, hnc⟩ := idle_run hc hA iA hco n2
  have hlenB := ticks_ge hc hG (max 1 (t.deadline - r.link.nsym)) (zeros n2) rA hA
    (by simpa [zeros] using hn2) rB trB eB
  have e : FullRx.trace r (zeros (n1 + n2)) = some (rB, trA ++ trB) := by
    rw [zeros_add, trace_append, eA]; dsimp only; rw [eB]
  obtain ⟨evs, er, _, ee, _, _⟩ := trace_run e
  obtain ⟨_, _, _, _, _, lA⟩ := trace_run eA
  obtain ⟨s1, _, _⟩ := FullRx.trace_stamps (zeros (n1 + n2)) r rB (trA ++ trB) e
  have hsplit : stampedTicks r.cfg.lcfg r.link (trA ++ trB)
      = stampedTicks r.cfg.lcfg r.link trA ++ stampedTicks r.cfg.lcfg rA.link trB := by
    rw [stampedTicks_append, lA]
  obtain ⟨k1, k2, _, k4⟩ := stampedTicks_spec r.cfg.lcfg trB rA.link
  obtain ⟨_, _, k3', _⟩ := stampedTicks_spec r.cfg.lcfg (trA ++ trB) r.link
  have hnsym : r.link.nsym ≤ rA.link.nsym := by rw [lA, SilenceAux.lrunState_nsym]; omega
  have hpos : 0 < (stampedTicks r.cfg.lcfg rA.link trB).length := by rw [k1]; omega
  obtain ⟨smp, hm⟩ := flush_releases_no_burst r.cfg.rate t (stampedTicks r.cfg.lcfg r.link (trA ++ trB))
    r.rx hh
    (by
      intro tk htk b
      rw [hsplit] at htk
      rcases List.mem_append.1 htk with hA' | hB'
      · exact hnb tk (h.cfg ▸ hA') b
      · have : tk.2.2 = .noCarrier := by
          apply hnc
          rw [← h.cfg, ← k2]
          exact List.mem_map.2 ⟨tk, hB', rfl⟩
        rw [this]; simp)
    (by
      intro T hT tk htk
      have : tk.1 ∈ (trA ++ trB).map (·.1) := by rw [← k3']; exact List.mem_map.2 ⟨tk, htk, rfl⟩
      obtain ⟨p, hp, hp'⟩ := List.mem_map.1 this
      have := (s1 p hp).2
      have := hforce T hT
      simp only [zeros, List.length_replicate] at *
      omega)
    (by
      refine ⟨(stampedTicks r.cfg.lcfg rA.link trB)[(stampedTicks r.cfg.lcfg rA.link trB).length - 1], ?_, ?_, ?_⟩
      · rw [hsplit]; exact List.mem_append_right _ (List.getElem_mem _)
      · apply hnc
        rw [← h.cfg, ← k2]
        exact List.mem_map.2 ⟨_, List.getElem_mem _, rfl⟩
      · rw [k4 _ (by omega), k1]; omega)
  exact ⟨rB, evs, smp, er, iB, ee ▸ hm⟩

end Whole
end SameVerif.Dsp
