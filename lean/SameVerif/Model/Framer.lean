import SameVerif.Model.Bytes
import SameVerif.Gen.Constants
/-
  Model of crates/sameold/src/receiver/framing.rs: `Framer::input`, `end`, `state`,
  `message_prefix_errors`.
-/
namespace SameVerif

inductive LinkSt where
  | noCarrier
  | searching
  | reading
  | burst (b : List Byte)
deriving Repr, DecidableEq

inductive FState where
  | idle
  | search (word : UInt32) (count : Nat)
  | read (msg : List Byte) (invalid : Nat)
deriving Repr, DecidableEq

structure FCfg where
  maxPrefixErr : Nat
  maxInvalid : Nat
deriving Repr

def PREFIX_ZCZC : UInt32 := 0x5A435A43
def PREFIX_NNNN : UInt32 := 0x4E4E4E4E

/-- `message_prefix_errors` -/
def prefixErrors (w : UInt32) : Nat :=
  min (popcount32 (w ^^^ PREFIX_ZCZC)) (popcount32 (w ^^^ PREFIX_NNNN))

/-- `u32::to_be_bytes` -/
def beBytes (w : UInt32) : List Byte :=
  [(w >>> 24).toUInt8, (w >>> 16).toUInt8, (w >>> 8).toUInt8, w.toUInt8]

/-- `Framer::state` -/
def fstate : FState → LinkSt
  | .idle => .noCarrier
  | .search _ _ => .searching
  | .read _ _ => .reading

/-- `Framer::end` -/
def fend : FState → FState × LinkSt
  | .read msg _ => (.idle, .burst msg)
  | _ => (.idle, .noCarrier)

/-- `Framer::input(data, _, false)` -/
def finputNR (c : FCfg) (s : FState) (data : Byte) : FState × LinkSt :=
  match s with
  | .idle => (.idle, .noCarrier)
  | .search word count =>
    let word := (word <<< 8) ||| data.toUInt32
    let count := count + 1
    if prefixErrors word ≤ c.maxPrefixErr then
      (.read (beBytes word) 0, .reading)
    else if count > Gen.PREFIX_SEARCH_LEN then (.idle, .noCarrier)
    else (.search word count, .searching)
  | .read msg invalid =>
    let invalid := invalid + (if isAllowed data then 0 else 1)
    if invalid > c.maxInvalid || msg.length ≥ Gen.MAX_BURST_LENGTH then
      -- `self.end()`; note that the counter update is lost with the state
      (.idle, .burst msg)
    else (.read (msg ++ [data]) invalid, .reading)

/-- `Framer::input(data, _, restart)` -/
def finput (c : FCfg) (s : FState) (data : Byte) (restart : Bool) : FState × LinkSt :=
  if restart then
    let (_, out) := fend s
    let (s', _) := finputNR c (.search 0 0) data
    match out with
    | .burst b => (s', .burst b)
    | _ => (s', .searching)
  else finputNR c s data

end SameVerif
