import SameVerif.Model.Link
import SameVerif.Model.Receiver
/-
  Field-level model of `SameReceiver::from(&builder)` and `SameReceiver::reset()`: every field of
  every component, what a new receiver holds in it and what `reset()` stores into it.  Floats are
  values of an abstract type `F` (only constants of the configuration and 0/1 occur).
  Mirrors, component by component:
    DCBlocker::reset, Agc::reset, FskDemod::reset, TimingLoop::reset (+ set_loop_bandwidth),
    CodeAndPowerSquelch::reset, Equalizer::reset, Framer::reset, Assembler::reset and the
    receiver's own counters.
-/
namespace SameVerif

structure RCfg (F : Type) where
  rate : Nat
  dcLen : Nat
  demodTaps : Nat
  agcMin : F
  agcMax : F
  agcInitial : F          -- unity gain limited to [agcMin, agcMax]
  samplesPerTed : F
  bwUnlocked : F
  bwLocked : F
  eqFF : Nat
  eqFB : Nat
  zero : F
  one : F

inductive EqMode where
  | disabled | feedback | training (word : Nat) (count : Nat)
deriving Repr, DecidableEq

structure FullState (F : Type) where
  cfg : RCfg F
  -- DCBlocker
  dcWindowFF : List F
  dcSumFF : F
  dcWindowFB : List F
  dcSumFB : F
  -- Agc
  agcLocked : Bool
  agcGain : F
  -- FskDemod
  demodWindow : List F
  -- TimingLoop
  loopBandwidth : F          -- determines loop_alpha / loop_beta
  periodAvg : F
  periodInst : F
  tedHistory : List F
  tedCounter : Nat
  -- CodeAndPowerSquelch
  corr : Nat
  power : F
  sampleHistory : List F
  powerHistory : List Bool
  symbolCounter : Nat
  sampleClock : Option Nat
  syncLock : Bool
  -- Equalizer
  ffCoeff : List F
  fbCoeff : List F
  ffWind : List F
  fbWind : List F
  eqMode : EqMode                     -- DEAD in an unsynchronised receiver (see C18.train_before_use)
  -- Framer
  framer : FState
  symbolCountLastBurst : Nat          -- never read
  -- Assembler
  asm : AState
  -- SameReceiver
  inputSampleCounter : Nat
  linkState : LinkSt
  transportState : Transport
  eventQueue : List Event
  tedSampleClock : Nat
  samplesUntilNextTed : F
  forceEomAt : Option Nat

variable {F : Type}

/-- identity filter coefficients: all zero, last tap one -/
def identityTaps (c : RCfg F) (n : Nat) : List F := List.replicate (n - 1) c.zero ++ [c.one]

/-- `SameReceiver::from(&builder)` -/
def FullState.init (c : RCfg F) : FullState F :=
  { cfg := c,
    dcWindowFF := List.replicate c.dcLen c.zero, dcSumFF := c.zero,
    dcWindowFB := List.replicate c.dcLen c.zero, dcSumFB := c.zero,
    agcLocked := false, agcGain := c.agcInitial,
    demodWindow := List.replicate c.demodTaps c.zero,
    loopBandwidth := c.bwUnlocked, periodAvg := c.samplesPerTed, periodInst := c.samplesPerTed,
    tedHistory := List.replicate 3 c.zero, tedCounter := 0,
    corr := 0, power := c.zero, sampleHistory := [], powerHistory := [], symbolCounter := 0,
    sampleClock := none, syncLock := false,
    ffCoeff := identityTaps c c.eqFF, fbCoeff := identityTaps c c.eqFB,
    ffWind := List.replicate c.eqFF c.zero, fbWind := List.replicate c.eqFB c.zero,
    eqMode := .feedback,
    framer := .idle, symbolCountLastBurst := 0,
    asm := {},
    inputSampleCounter := 0, linkState := .noCarrier, transportState := .idle, eventQueue := [],
    tedSampleClock := 0, samplesUntilNextTed := c.samplesPerTed, forceEomAt := none }

/-- `SameReceiver::reset()`: what each component's `reset()` stores, and the receiver's own fields -/
def FullState.reset (s : FullState F) : FullState F :=
  let c := s.cfg
  { s with
    -- dc_block.reset(): windows zeroed, sums zeroed
    dcWindowFF := List.replicate c.dcLen c.zero, dcSumFF := c.zero,
    dcWindowFB := List.replicate c.dcLen c.zero, dcSumFB := c.zero,
    -- agc.reset()
    agcLocked := false, agcGain := c.agcInitial,
    -- demod.reset()
    demodWindow := List.replicate c.demodTaps c.zero,
    -- symsync.set_loop_bandwidth(unlocked); symsync.reset()
    loopBandwidth := c.bwUnlocked, periodAvg := c.samplesPerTed, periodInst := c.samplesPerTed,
    tedHistory := List.replicate 3 c.zero, tedCounter := 0,
    -- squelch.reset()
    corr := 0, power := c.zero, sampleHistory := [], powerHistory := [], symbolCounter := 0,
    sampleClock := none, syncLock := false,
    -- equalizer.reset(): coefficients and windows, NOT the mode
    ffCoeff := identityTaps c c.eqFF, fbCoeff := identityTaps c c.eqFB,
    ffWind := List.replicate c.eqFF c.zero, fbWind := List.replicate c.eqFB c.zero,
    -- framer.reset(), assembler.reset()
    framer := .idle, symbolCountLastBurst := 0,
    asm := {},
    -- receiver
    inputSampleCounter := 0, linkState := .noCarrier, transportState := .idle, eventQueue := [],
    tedSampleClock := 0, samplesUntilNextTed := c.samplesPerTed, forceEomAt := none }

/-- two states that differ at most in the dead fields -/
def FullState.LiveEq (a b : FullState F) : Prop :=
  { a with eqMode := .feedback, symbolCountLastBurst := 0 } = { b with eqMode := .feedback, symbolCountLastBurst := 0 }

end SameVerif
