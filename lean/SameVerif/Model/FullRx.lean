import SameVerif.Model.Dsp
import SameVerif.Model.Link
import SameVerif.Model.Receiver
/-
  The WHOLE receiver as one executable model: `SameReceiver::process()` sample by sample.

  * float part (generic in `F`, run with `Float32`): DC blocker → AGC → matched-filter FSK
    demodulator (demod.rs, filter.rs) → sample clock → timing loop (Model/Dsp.lean) → squelch
    power tracker (codesquelch.rs `PowerTracker`) and sample history → adaptive equalizer
    (equalize.rs: windows, `multiply_accumulate`, NLMS update, training / decision feedback);
  * discrete part: the existing models, unchanged — `lstep` (sync-word correlator, byte clock, sync
    lock, training protocol, framer; Model/Link.lean) and `rTick` (assembler, forced end-of-message
    timer, change-filtered events; Model/Receiver.lean).

  The float part only *produces the inputs* of the discrete part: per symbol the observation
  `Obs` (sign, power ≥ open, power ≥ close) and, at byte ticks, the equalizer's byte.  The
  discrete part tells the float part when the receiver locks (`agc.lock`, locked loop bandwidth,
  `equalizer.train()`) and when it calls `end()`.

  Tie: suite `fullrx` feeds the same raw audio to the real receiver and to this model (with
  `Float32`): the event lists, timestamps included, must be identical.  No tap is involved.
  Matched-filter taps and PI gains are parameters (they come out of `sin`/`cos`/`exp`/`sinh`, which are
  not modelled); `hypot` is an operation of its own (`Hypot`).
-/
namespace SameVerif.Dsp
open Arith

/-- `f32::hypot` (what `Complex::norm` calls) -/
class Hypot (F : Type) where
  hypot : F → F → F

variable {F : Type} [Arith F] [Hypot F]

/-- `le b a`, i.e. `a >= b` as Rust writes it -/
def ge (a b : F) : Bool := le b a

/-! ### filter.rs -/

/-- `Window::push(&[..])`: keep the length, age off the oldest; an input longer than the window is
    cut to its most recent part -/
def windowPush (w xs : List F) : List F :=
  let xs := xs.drop (xs.length - w.length)
  w.drop xs.length ++ xs

/-- `multiply_accumulate` for real history and real (reversed) coefficients of the same length -/
def macReal (hist coeff : List F) : F :=
  (hist.zip coeff).foldl (fun acc p => add acc (mul p.1 p.2)) zero

/-- `multiply_accumulate` for real history and complex (reversed) coefficients:
    `out += hi * co` componentwise, from `(0, 0)` -/
def macCplx (hist : List F) (coeff : List (F × F)) : F × F :=
  (hist.zip coeff).foldl (fun acc p => (add acc.1 (mul p.1 p.2.1), add acc.2 (mul p.1 p.2.2))) (zero, zero)

/-- `FilterCoeff::from_identity(len)` (as stored, i.e. reversed: the last entry is one) -/
def identityCoeff (len : Nat) : List F := List.replicate (len - 1) zero ++ [one]

/-! ### demod.rs -/

/-- `FskDemod`: the input window (oldest first) and the two matched filters as stored (reversed) -/
structure Demod (F : Type) where
  window : List F
  mark : List (F × F)
  space : List (F × F)

/-- `FskDemod::new_from_taps` with the taps as `matched_filter(fs)` returns them -/
def Demod.new (mark space : List (F × F)) : Demod F :=
  ⟨List.replicate mark.length zero, mark.reverse, space.reverse⟩

def Demod.push (d : Demod F) (x : F) : Demod F := { d with window := d.window.drop 1 ++ [x] }

/-- `FskDemod::demod_now` -/
def Demod.demod (d : Demod F) : Option F :=
  let m := macCplx d.window d.mark
  let s := macCplx d.window d.space
  clamp (sub (Hypot.hypot m.1 m.2) (Hypot.hypot s.1 s.2)) (neg one) one

/-! ### codesquelch.rs: `PowerTracker` -/

structure PowerTracker (F : Type) where
  bandwidth : F
  power : F

def PowerTracker.new (bw : F) : Option (PowerTracker F) := (clamp bw zero one).map fun bw => ⟨bw, zero⟩

/-- `PowerTracker::track` -/
def PowerTracker.track (p : PowerTracker F) (sym : F) : PowerTracker F :=
  let pwr := mul sym sym
  let x := add p.power (mul (sub pwr p.power) p.bandwidth)
  { p with power := fmax x zero }

/-! ### equalize.rs -/

inductive EqMode where
  | disabled
  | feedback
  | training (sa : UInt32) (count : Nat)
deriving Repr, DecidableEq

structure Equalizer (F : Type) where
  relaxation : F
  regularization : F
  trainTo : UInt32
  ffCoeff : List F
  fbCoeff : List F
  ffWind : List F
  fbWind : List F
  mode : EqMode

/-- `Equalizer::new` (orders ≥ 1: the builder clamps them) -/
def Equalizer.new (nff nfb : Nat) (relax reg : F) (trainTo : UInt32) : Equalizer F :=
  ⟨relax, reg, trainTo, identityCoeff nff, identityCoeff nfb, List.replicate nff zero, List.replicate nfb zero, .feedback⟩

/-- `Equalizer::reset` (the mode is not touched) -/
def Equalizer.reset (e : Equalizer F) : Equalizer F :=
  { e with ffCoeff := identityCoeff e.ffCoeff.length, fbCoeff := identityCoeff e.fbCoeff.length,
           ffWind := List.replicate e.ffWind.length zero, fbWind := List.replicate e.fbWind.length zero }

/-- `Equalizer::train` -/
def Equalizer.train (e : Equalizer F) : Equalizer F := { e with mode := .training e.trainTo 0 }

/-- `nlms_gain` -/
def nlmsGain (relax reg : F) (window : List F) : F :=
  div relax (add reg (window.foldl (fun acc w => add acc (mul w w)) zero))

/-- `nlms_update`: `*coeff += gain * error * data` -/
def nlmsUpdate (relax reg error : F) (window coeff : List F) : List F :=
  let gain := nlmsGain relax reg window
  (coeff.zip window).map fun p => add p.1 (mul (mul gain error) p.2)

/-- `Equalizer::evolve` -/
def Equalizer.evolve (e : Equalizer F) (error : F) : Equalizer F :=
  { e with ffCoeff := nlmsUpdate e.relaxation e.regularization error e.ffWind e.ffCoeff,
           fbCoeff := nlmsUpdate e.relaxation e.regularization (neg error) e.fbWind e.fbCoeff }

/-- `Equalizer::estimate_symbol` on the two samples of one symbol: new state and the bit -/
def Equalizer.estimateSymbol (e : Equalizer F) (s0 s1 : F) : Equalizer F × Bool :=
  let e := { e with ffWind := windowPush e.ffWind [s0, s1] }
  let ff := macReal e.ffWind e.ffCoeff
  let fb := macReal e.fbWind e.fbCoeff
  let symVal := sub ff fb
  let (e, est) : Equalizer F × F :=
    match e.mode with
    | .disabled => (e, signum symVal)
    | .feedback =>
      let est := signum symVal
      (e.evolve (sub est symVal), est)
    | .training sa count =>
      let est := sub (mul two (ofNat (sa &&& 1).toNat)) one
      let e := e.evolve (sub est symVal)
      let count := count + 1
      (if count ≥ 32 then { e with mode := .feedback } else { e with mode := .training (sa >>> 1) count }, est)
  ({ e with fbWind := windowPush e.fbWind [est, zero] }, ge est zero)

/-- `Equalizer::input` on the 16 samples of one byte: bit `i` of the byte is the `i`-th symbol -/
def Equalizer.input (e : Equalizer F) (samples : List F) : Equalizer F × UInt8 :=
  let rec go (e : Equalizer F) (xs : List F) (i : Nat) (byte : UInt8) : Equalizer F × UInt8 :=
    match xs with
    | s0 :: s1 :: rest =>
      let (e, bit) := e.estimateSymbol s0 s1
      go e rest (i + 1) (byte ||| ((if bit then (1 : UInt8) else 0) <<< (UInt8.ofNat i)))
    | _ => (e, byte)
  go e samples 0 0

/-! ### receiver.rs: the whole `SameReceiver` -/

/-- constructor arguments as `From<&SameReceiverBuilder>` derives them -/
structure RxCfg (F : Type) where
  rate : Nat
  sps : F
  dcLen : Nat
  agcBw : F
  agcMin : F
  agcMax : F
  mark : List (F × F)
  space : List (F × F)
  alphaU : F
  betaU : F
  alphaL : F
  betaL : F
  maxDev : F
  powerOpen : F
  powerClose : F
  squelchBw : F
  nff : Nat
  nfb : Nat
  relax : F
  reg : F
  lcfg : LCfg

structure FullRx (F : Type) where
  cfg : RxCfg F
  dc : DcBlock F
  agc : Agc F
  demod : Demod F
  tl : TimingLoop F
  tedClock : Nat
  untilNext : F
  inputCounter : Nat
  pt : PowerTracker F
  hist : List F
  eq : Equalizer F
  link : LState
  rx : RState

/-- `SameReceiver::from(&builder)`; `none` = a constructor panics -/
def FullRx.new (c : RxCfg F) : Option (FullRx F) :=
  match DcBlock.new c.dcLen, Agc.new c.agcBw c.agcMin c.agcMax, TimingLoop.new c.sps c.alphaU c.betaU c.maxDev,
        PowerTracker.new c.squelchBw with
  | some dc, some agc, some tl, some pt =>
    some ⟨c, dc, agc, Demod.new c.mark c.space, tl, 0, tl.samplesPerTed, 0, pt, [],
          Equalizer.new c.nff c.nfb c.relax c.reg SYNC_WORD, {}, {}⟩
  | _, _, _, _ => none

/-- `SameReceiver::end()`: the float effects (the discrete ones are inside `lstep`) -/
def FullRx.endDsp (r : FullRx F) : FullRx F :=
  { r with agc := r.agc.lock false, eq := r.eq.reset,
           tl := (r.tl.setGains r.cfg.alphaU r.cfg.betaU).reset }

/-- `process_linklayer_symbol` + the transport layer and event generation of `process()` for one
    symbol estimate -/
def FullRx.symbol (r : FullRx F) (s : SymEst F) : FullRx F × List Event :=
  -- squelch: sample history (64 samples, wrapping), power tracker, thresholds
  let hist := let h := r.hist ++ [s.zero, s.sym]; h.drop (h.length - 64)
  let pt := r.pt.track s.sym
  let o : Obs := ⟨ge s.sym zero, ge pt.power r.cfg.powerOpen, ge pt.power r.cfg.powerClose⟩
  let r := { r with hist, pt }
  -- is this a byte tick, and is it a (re)synchronisation?  (independent of the equalizer's byte)
  let probe := lstep r.cfg.lcfg r.link o 0
  let (r, res) : FullRx F × (LState × LinkSt × Option Bool) :=
    match probe.2.2 with
    | none => (r, probe)
    | some adjusted =>
      let r := if adjusted then
          { r with agc := r.agc.lock true, tl := r.tl.setGains r.cfg.alphaL r.cfg.betaL, eq := r.eq.train }
        else r
      let (eq, byte) := r.eq.input (r.hist.take 16)
      ({ r with eq }, lstep r.cfg.lcfg r.link o byte)
  -- `end()` was called iff the byte clock went from running to stopped
  let ended := r.link.clock.isSome && res.1.clock.isNone
  let r := { r with link := res.1 }
  let r := if ended then r.endDsp else r
  let (rx, evs) := rTick r.cfg.rate r.rx r.inputCounter r.link.nsym res.2.1
  ({ r with rx }, evs)

/-- one input sample through `process_linklayer_high_rate` (and below); `none` = a panic -/
def FullRx.sample (r : FullRx F) (x : F) : Option (FullRx F × List Event) :=
  match r.dc.filter x with
  | none => none
  | some (dc, y) =>
    match r.agc.input y with
    | none => none
    | some (agc, sa) =>
      let r := { r with dc, agc, demod := r.demod.push sa, tedClock := r.tedClock + 1, inputCounter := r.inputCounter + 1 }
      if clockFires r.untilNext r.tedClock then
        let rem := clockRemaining r.untilNext r.tedClock
        let r := { r with tedClock := 0 }
        match r.demod.demod with
        | none => none
        | some saLow =>
          match r.tl.input saLow rem with
          | none => none
          | some (tl, untilNext, sym) =>
            let r := { r with tl, untilNext }
            match sym with
            | none => some (r, [])
            | some s => some (r.symbol s)
      else some (r, [])

/-- a whole stream; events in order -/
def FullRx.run (r : FullRx F) : List F → Option (FullRx F × List Event)
  | [] => some (r, [])
  | x :: xs =>
    match r.sample x with
    | none => none
    | some (r, ev) =>
      match FullRx.run r xs with
      | none => none
      | some (r, evs) => some (r, ev ++ evs)

/-- `SameReceiver::reset()`.  Two fields survive it, exactly as in the code: the equalizer's mode
    (`Equalizer::reset` does not touch it) and its image in the link model (`train`); both are rewritten by
    the first byte tick after a reset, which is always a (re)synchronisation (the byte clock is stopped). -/
def FullRx.reset (r : FullRx F) : FullRx F :=
  let tl := (r.tl.setGains r.cfg.alphaU r.cfg.betaU).reset
  { r with dc := r.dc.reset, agc := r.agc.reset,
           demod := { r.demod with window := List.replicate r.demod.window.length zero },
           tl, pt := { r.pt with power := zero }, hist := [], eq := r.eq.reset,
           link := { ({} : LState) with train := r.link.train }, rx := {},
           inputCounter := 0, tedClock := 0, untilNext := tl.samplesPerTed }

/-- audio, `reset()`, more audio: the two event lists -/
def FullRx.runResetRun (r : FullRx F) (xs ys : List F) : Option (List Event × List Event) :=
  match r.run xs with
  | none => none
  | some (r, e1) =>
    match r.reset.run ys with
    | none => none
    | some (_, e2) => some (e1, e2)

instance : Hypot Float32 where
  hypot a b := (a.toFloat * a.toFloat + b.toFloat * b.toFloat).sqrt.toFloat32

end SameVerif.Dsp
