import SameVerif.Model.Link
/- Running the link model over a stream of per-tick inputs. -/
namespace SameVerif

/-- per-tick input of the link model: the observation and the equalizer's byte decision
    (the latter is looked at only on byte-clock ticks outside training) -/
abbrev Tick := Obs × Byte

/-- link states reported tick by tick -/
def lrun (c : LCfg) : LState → List Tick → List LinkSt
  | _, [] => []
  | s, x :: xs => (lstep c s x.1 x.2).2.1 :: lrun c (lstep c s x.1 x.2).1 xs

/-- state after the stream -/
def lrunState (c : LCfg) : LState → List Tick → LState
  | s, [] => s
  | s, x :: xs => lrunState c (lstep c s x.1 x.2).1 xs

/-- the bursts reported over the stream, in order -/
def lrunBursts (c : LCfg) (s : LState) (xs : List Tick) : List (List Byte) :=
  (lrun c s xs).filterMap (fun ls => match ls with | .burst b => some b | _ => none)

end SameVerif
