/-
  Model of crates/samedec/src/app.rs (live mode): the Waiting/Alerting state machine,
  `run_child`'s tee of consumed samples into the child's stdin, and the flush at end of input.

  The receiver is abstracted by what C13 proves is all that matters: the sequence of messages
  it returns for the input, each with the number of input samples consumed when it is returned
  (independent of how the input is split across iterator bindings), followed by the messages
  that repeated `flush()` calls return after the input is exhausted.

  The operating system is an oracle: for the k-th spawn attempt it says whether the spawn
  succeeds (`spawnOk k`); whatever the child then does (reads, closes, exits, is killed) cannot
  influence the state machine — write errors are discarded and `wait()` results only logged —
  which is exactly what the theorems state.
-/
namespace SameVerif

inductive AMsg where
  | som (text : List Nat)      -- header text (UTF-8 bytes)
  | eom
deriving Repr, DecidableEq

/-- messages returned while input lasts: (samples consumed when returned, message), positions
    non-decreasing and ≤ `n`; then the messages returned by successive `flush()` calls -/
structure AppInput where
  n : Nat
  live : List (Nat × AMsg)
  flushed : List AMsg
deriving Repr

structure AppCfg where
  quiet : Bool
  hasChild : Bool
deriving Repr

/-- what the run produced: printed lines, and for every child that was spawned the half-open
    range of input samples [from, to) written to its stdin and the message it was spawned for -/
structure AppOut where
  printed : List AMsg := []
  children : List (AMsg × Nat × Nat) := []
  spawnAttempts : Nat := 0
deriving Repr

/-- Alerting state for message `m` returned at sample position `pos`; `rest` = messages still to
    come while input lasts.  Fuel = number of remaining messages + 1 (every iteration consumes one). -/
def alerting (cfg : AppCfg) (spawnOk : Nat → Bool) (inp : AppInput) :
    Nat → AMsg → Nat → List (Nat × AMsg) → List AMsg → AppOut → AppOut
  | 0, _, _, _, _, out => out
  | fuel + 1, m, pos, rest, fl, out =>
    let out := if cfg.quiet then out else { out with printed := out.printed ++ [m] }
    -- the continuation "→ Waiting": next live message, else next flushed message, else exit
    let waiting (out : AppOut) : AppOut :=
      match rest with
      | (p, m') :: rest' => alerting cfg spawnOk inp fuel m' p rest' fl out
      | [] =>
        match fl with
        | m' :: fl' => alerting cfg spawnOk inp fuel m' inp.n [] fl' out
        | [] => out
    match m with
    | .eom => waiting out
    | .som _ =>
      if !cfg.hasChild then waiting out
      else
        let k := out.spawnAttempts
        let out := { out with spawnAttempts := k + 1 }
        if !spawnOk k then waiting out
        else
          -- run_child: tee samples until the next live message (or end of input)
          match rest with
          | (p, m') :: rest' =>
            -- the child saw samples [pos, p); the next message is handled in the same loop
            alerting cfg spawnOk inp fuel m' p rest' fl { out with children := out.children ++ [(m, pos, p)] }
          | [] =>
            -- input exhausted while alerting: the child saw [pos, n); back to Waiting, which flushes
            let out := { out with children := out.children ++ [(m, pos, inp.n)] }
            match fl with
            | m' :: fl' => alerting cfg spawnOk inp fuel m' inp.n [] fl' out
            | [] => out

/-- `app::run` in live mode -/
def appRun (cfg : AppCfg) (spawnOk : Nat → Bool) (inp : AppInput) : AppOut :=
  let fuel := inp.live.length + inp.flushed.length + 1
  match inp.live with
  | (p, m) :: rest => alerting cfg spawnOk inp fuel m p rest inp.flushed {}
  | [] =>
    match inp.flushed with
    | m :: fl => alerting cfg spawnOk inp fuel m inp.n [] fl {}
    | [] => {}

end SameVerif
