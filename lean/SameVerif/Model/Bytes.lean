/-
  Bytes: the byte-level vocabulary shared by every model file.
  Core Lean only (no Mathlib) so that the driver links as a `lean_exe`.
-/
namespace SameVerif

abbrev Byte := UInt8

/-- bit `i` of a byte, LSb = 0 -/
def bitOf (b : Byte) (i : Nat) : Bool := b.toBitVec.getLsbD i

/-- `u8::count_ones` -/
def popcount8 (b : Byte) : Nat := (List.range 8).countP (bitOf b)

/-- `u8::count_zeros` -/
def countZeros8 (b : Byte) : Nat := 8 - popcount8 b

/-- `u32::count_ones` -/
def popcount32 (w : UInt32) : Nat := (List.range 32).countP (fun i => w.toBitVec.getLsbD i)

/-- `combiner::is_allowed_byte`, written with the same comparisons in the same order -/
def isAllowed (c : Byte) : Bool :=
  c == 45                        -- '-'
    || (48 ≤ c && c ≤ 57)        -- '0'..'9'
    || (65 ≤ c && c ≤ 90)        -- 'A'..'Z'
    || (97 ≤ c && c ≤ 122)       -- 'a'..'z'
    || c == 47                   -- '/'
    || c == 63                   -- '?'
    || c == 40                   -- '('
    || c == 41                   -- ')'
    || c == 91                   -- '['
    || c == 93                   -- ']'
    || c == 46                   -- '.'
    || c == 95                   -- '_'
    || c == 44                   -- ','
    || c == 43                   -- '+'
    || c == 32                   -- ' '

def isAsciiByte (c : Byte) : Bool := c < 128
def isAlpha (c : Byte) : Bool := (65 ≤ c && c ≤ 90) || (97 ≤ c && c ≤ 122)
def isDigit (c : Byte) : Bool := 48 ≤ c && c ≤ 57

/-- `str::from_utf8` validity (RFC 3629 / Unicode Table 3-7 well-formed byte sequences) -/
def validUtf8 : List Byte → Bool
  | [] => true
  | b0 :: rest =>
    if b0 < 0x80 then validUtf8 rest
    else if 0xC2 ≤ b0 && b0 ≤ 0xDF then
      match rest with
      | b1 :: r => (0x80 ≤ b1 && b1 ≤ 0xBF) && validUtf8 r
      | _ => false
    else if 0xE0 ≤ b0 && b0 ≤ 0xEF then
      match rest with
      | b1 :: b2 :: r =>
        let lo : Byte := if b0 == 0xE0 then 0xA0 else 0x80
        let hi : Byte := if b0 == 0xED then 0x9F else 0xBF
        (lo ≤ b1 && b1 ≤ hi) && (0x80 ≤ b2 && b2 ≤ 0xBF) && validUtf8 r
      | _ => false
    else if 0xF0 ≤ b0 && b0 ≤ 0xF4 then
      match rest with
      | b1 :: b2 :: b3 :: r =>
        let lo : Byte := if b0 == 0xF0 then 0x90 else 0x80
        let hi : Byte := if b0 == 0xF4 then 0x8F else 0xBF
        (lo ≤ b1 && b1 ≤ hi) && (0x80 ≤ b2 && b2 ≤ 0xBF) && (0x80 ≤ b3 && b3 ≤ 0xBF) && validUtf8 r
      | _ => false
    else false

/-- ASCII string literal as bytes -/
def asciiBytes (s : String) : List Byte := s.toUTF8.toList

end SameVerif
