import SameVerif.Model.Bytes
/-
  Model of `check_header` (the regex) and `MessageHeader` in crates/sameold/src/message.rs.

  Text is a list of bytes.  `MessageHeader::new` rejects non-ASCII text before the regex runs, so
  inside `checkHeader` characters and bytes coincide.

  The regex is
    ^ZCZC-[[:alpha:]]{3}-[[:alpha:]]{3}(-[0-9]{6})+(\+[0-9]{4}-[0-9]{7}-.{3,8}-)
  matched leftmost-first: `(-[0-9]{6})+` is greedy and its follow set is `+`, so taking the longest
  run of groups is exact; `.{3,8}-` is greedy, i.e. the largest n in 8,7,…,3 such that n characters
  other than LF are followed by `-`.
-/
namespace SameVerif

/-- a Rust panic in modelled code -/
inductive Panic where
  | sliceOutOfBounds
  | expectFailed
deriving Repr, DecidableEq

/-- strip a literal prefix -/
def stripLit : List Byte → List Byte → Option (List Byte)
  | [], s => some s
  | _ :: _, [] => none
  | l :: ls, c :: cs => if l == c then stripLit ls cs else none

/-- exactly `n` bytes satisfying `p` -/
def takeN (p : Byte → Bool) : Nat → List Byte → Option (List Byte × List Byte)
  | 0, s => some ([], s)
  | _ + 1, [] => none
  | n + 1, c :: cs =>
    if p c then
      match takeN p n cs with
      | some (a, r) => some (c :: a, r)
      | none => none
    else none

/-- `(-[0-9]{6})*`, greedy; fuel bounds the number of groups -/
def locGroups : Nat → List Byte → List (List Byte) × List Byte
  | 0, s => ([], s)
  | f + 1, s =>
    match s with
    | 45 :: cs =>
      match takeN isDigit 6 cs with
      | some (d, r) => let (gs, r') := locGroups f r; (d :: gs, r')
      | none => ([], s)
    | _ => ([], s)

def notLF (c : Byte) : Bool := c != 10

/-- `.{n}-` -/
def callTry (s : List Byte) (n : Nat) : Option (List Byte × List Byte) :=
  match takeN notLF n s with
  | some (c, 45 :: r) => some (c, r)
  | _ => none

/-- `.{3,8}-`, greedy -/
def callsignOf (s : List Byte) : Option (List Byte × List Byte) :=
  [8, 7, 6, 5, 4, 3].findSome? (callTry s)

/-- the fields of a header, as matched -/
structure Fields where
  org : List Byte
  evt : List Byte
  locs : List (List Byte)
  purge : List Byte
  issue : List Byte
  call : List Byte
  rest : List Byte
deriving Repr, DecidableEq

def litZCZC : List Byte := [90, 67, 90, 67, 45]   -- "ZCZC-"

/-- the regex, as a parser into fields -/
def parseFields (s : List Byte) : Option Fields :=
  match stripLit litZCZC s with
  | none => none
  | some s =>
  match takeN isAlpha 3 s with
  | none => none
  | some (org, s) =>
  match s with
  | 45 :: s =>
    match takeN isAlpha 3 s with
    | none => none
    | some (evt, s) =>
      match locGroups s.length s with
      | ([], _) => none
      | (locs, s) =>
        match s with
        | 43 :: s =>
          match takeN isDigit 4 s with
          | none => none
          | some (purge, s) =>
          match s with
          | 45 :: s =>
            match takeN isDigit 7 s with
            | none => none
            | some (issue, s) =>
            match s with
            | 45 :: s =>
              match callsignOf s with
              | none => none
              | some (call, rest) => some ⟨org, evt, locs, purge, issue, call, rest⟩
            | _ => none
          | _ => none
        | _ => none
  | _ => none

/-- `check_header`: (start of capture group 2, end of the match) -/
def checkHeader (s : List Byte) : Option (Nat × Nat) :=
  match parseFields s with
  | none => none
  | some f =>
    let offTime := 12 + 7 * f.locs.length
    some (offTime, offTime + 14 + f.call.length + 1)

inductive DecodeErr where
  | unrecognizedPrefix
  | notAscii
  | malformed
deriving Repr, DecidableEq

structure Header where
  text : List Byte
  offsetTime : Nat
  parity : Nat
  voting : Nat
deriving Repr, DecidableEq

/-- `MessageHeader::new` -/
def Header.new (s : List Byte) : Except DecodeErr Header :=
  if !s.all isAsciiByte then .error .notAscii
  else match checkHeader s with
    | none => .error .malformed
    | some (off, len) => .ok ⟨s.take len, off, 0, 0⟩

/-- `new_with_errors`: sum of `error_counts` zipped with the stored text -/
def Header.newWithErrors (s : List Byte) (errs : List Nat) : Except DecodeErr Header :=
  match Header.new s with
  | .error e => .error e
  | .ok h => .ok { h with parity := ((errs.zip h.text).map (·.1)).sum }

/-- `new_with_error_info`; 3 = MIN_BURSTS_FOR_VOTING -/
def Header.newWithErrorInfo (s : List Byte) (errs counts : List Nat) : Except DecodeErr Header :=
  match Header.newWithErrors s errs with
  | .error e => .error e
  | .ok h => .ok { h with voting := ((counts.zip h.text).filter (fun p => !(p.1 < 3))).length }

/-- `&s[a..b]` on an ASCII string: panics unless `a ≤ b ≤ len` -/
def sliceP (s : List Byte) (a b : Nat) : Except Panic (List Byte) :=
  if a ≤ b ∧ b ≤ s.length then .ok ((s.drop a).take (b - a)) else .error .sliceOutOfBounds

/-- `str::parse::<uN>().expect(..)` on a digit string -/
def parseDigits (s : List Byte) : Except Panic Nat :=
  if s.isEmpty || !s.all isDigit then .error .expectFailed
  else .ok (s.foldl (fun n c => 10 * n + (c.toNat - 48)) 0)

namespace Header
def OFFSET_ORG := 5
def OFFSET_EVT := 9
def OFFSET_AREA_START := 13
def OFFSET_FROMPLUS_VALIDTIME := 1
def OFFSET_FROMPLUS_ISSUETIME := 6
def OFFSET_FROMPLUS_CALLSIGN := 14
def OFFSET_FROMEND_CALLSIGN_END := 1

def originatorStr (h : Header) := sliceP h.text OFFSET_ORG (OFFSET_ORG + 3)
def eventStr (h : Header) := sliceP h.text OFFSET_EVT (OFFSET_EVT + 3)
def locationStr (h : Header) := sliceP h.text OFFSET_AREA_START h.offsetTime
def callsign (h : Header) :=
  if h.text.length < OFFSET_FROMEND_CALLSIGN_END then .error .sliceOutOfBounds   -- usize underflow
  else sliceP h.text (h.offsetTime + OFFSET_FROMPLUS_CALLSIGN) (h.text.length - OFFSET_FROMEND_CALLSIGN_END)

/-- `str::split('-')` -/
def splitDash (s : List Byte) : List (List Byte) :=
  let (cur, acc) := s.foldr (fun c (cur, acc) => if c == 45 then ([], cur :: acc) else (c :: cur, acc)) ([], [])
  cur :: acc

def locations (h : Header) : Except Panic (List (List Byte)) :=
  match h.locationStr with
  | .ok s => .ok (splitDash s)
  | .error e => .error e

/-- `valid_duration_fields` -/
def validDurationFields (h : Header) : Except Panic (Nat × Nat) :=
  match sliceP h.text (h.offsetTime + OFFSET_FROMPLUS_VALIDTIME) (h.offsetTime + OFFSET_FROMPLUS_VALIDTIME + 4) with
  | .error e => .error e
  | .ok d =>
    match sliceP d 0 2, sliceP d 2 4 with
    | .ok a, .ok b =>
      match parseDigits a, parseDigits b with
      | .ok x, .ok y => .ok (x, y)
      | _, _ => .error .expectFailed
    | _, _ => .error .sliceOutOfBounds

/-- `issue_daytime_fields` -/
def issueDaytimeFields (h : Header) : Except Panic (Nat × Nat × Nat) :=
  match sliceP h.text (h.offsetTime + OFFSET_FROMPLUS_ISSUETIME) (h.offsetTime + OFFSET_FROMPLUS_ISSUETIME + 7) with
  | .error e => .error e
  | .ok d =>
    match sliceP d 0 3, sliceP d 3 5, sliceP d 5 7 with
    | .ok a, .ok b, .ok c =>
      match parseDigits a, parseDigits b, parseDigits c with
      | .ok x, .ok y, .ok z => .ok (x, y, z)
      | _, _, _ => .error .expectFailed
    | _, _, _ => .error .sliceOutOfBounds
end Header

end SameVerif
