/-
  Model of `calculate_issue_time`, `yo_hms_to_utc`, `is_expired_at`, `valid_duration` in message.rs,
  with the part of chrono they use: proleptic Gregorian leap rule, `NaiveDate::from_yo_opt`,
  `and_hms_opt`, seconds since the epoch, `DateTime + Duration`, ordering.
-/
namespace SameVerif

def isLeap (y : Int) : Bool := y % 4 == 0 && (y % 100 != 0 || y % 400 == 0)

def daysInYear (y : Int) : Nat := if isLeap y then 366 else 365

/-- days from 0000-01-01 (proleptic) to `y`-01-01 -/
def daysBeforeYear (y : Int) : Int := 365 * y + (y + 3) / 4 - (y + 99) / 100 + (y + 399) / 400

/-- chrono's representable years -/
def MIN_YEAR : Int := -262143
def MAX_YEAR : Int := 262142

def i32Max : Int := 2147483647
def i32Min : Int := -2147483648

structure IssueTime where
  year : Int
  doy : Nat
  hour : Nat
  minute : Nat
deriving Repr, DecidableEq

/-- `yo_hms_to_utc(year, ordinal, hour, minute, 0)` -/
def yoHm (year : Int) (doy hour minute : Nat) : Option IssueTime :=
  if MIN_YEAR ≤ year ∧ year ≤ MAX_YEAR ∧ 1 ≤ doy ∧ doy ≤ daysInYear year ∧ hour < 24 ∧ minute < 60
  then some ⟨year, doy, hour, minute⟩ else none

/-- the ±180-day year inference of `calculate_issue_time` -/
def inferYear (doy : Nat) (rxYear : Int) (rxDoy : Nat) : Int :=
  let daydiff : Int := (rxDoy : Int) - (doy : Int)
  if daydiff ≥ 180 then min (rxYear + 1) i32Max          -- saturating_add
  else if daydiff ≤ -180 then max (rxYear - 1) i32Min    -- saturating_sub
  else rxYear

/-- `calculate_issue_time((doy, hour, minute), (rx_year, rx_doy))` -/
def calcIssue (doy hour minute : Nat) (rxYear : Int) (rxDoy : Nat) : Option IssueTime :=
  yoHm (inferYear doy rxYear rxDoy) doy hour minute

/-- seconds since 1970-01-01T00:00:00Z -/
def IssueTime.epochSecs (t : IssueTime) : Int :=
  (daysBeforeYear t.year - daysBeforeYear 1970 + (t.doy : Int) - 1) * 86400 + t.hour * 3600 + t.minute * 60

/-- `valid_duration` in seconds from the TTTT fields (any two-digit values) -/
def durationSecs (hrs mins : Nat) : Int := hrs * 3600 + mins * 60

/-- `is_expired_at(now)`; `now` = (year, day of year, seconds since the epoch, nanoseconds) -/
def isExpiredAt (doy hour minute : Nat) (durH durM : Nat) (nowYear : Int) (nowDoy : Nat)
    (nowSecs : Int) (nowNanos : Nat) : Bool :=
  match calcIssue doy hour minute nowYear nowDoy with
  | some t =>
    let e := t.epochSecs + durationSecs durH durM
    e < nowSecs || (e == nowSecs && 0 < nowNanos)
  | none => false

/-- date from a day number (days since 0000-01-01): used by the driver to enumerate receive dates -/
def dateOfDayNumber (n : Int) : Int × Nat :=
  -- first guess, then correct by at most one year either way
  let y0 : Int := n * 400 / 146097
  let fix (y : Int) : Int :=
    if n < daysBeforeYear y then y - 1
    else if n ≥ daysBeforeYear (y + 1) then y + 1 else y
  let y := fix (fix y0)
  (y, (n - daysBeforeYear y).toNat + 1)

end SameVerif
