import SameVerif.Model.FullRx
import SameVerif.Model.Iterator
import SameVerif.Model.App
/-
  The whole program: `samedec` from the bytes of its input to the lines it prints (and the sample
  ranges it hands to child processes), composed from models that already exist:

    bytes ──(main.rs: `read_i16::<NativeEndian>` until it fails, `sa as f32`)──▶ samples
          ──(Model/FullRx `sample`, under the event queue / `iter_messages` bindings of Model/Iterator)──▶
             messages with the number of samples consumed when each is returned, then the messages of
             repeated `flush()` calls (four seconds of zeros each, first message wins)
          ──(Model/App `appRun`: Waiting / Alerting, tee to the child)──▶ printed lines, child ranges

  Nothing here is new logic: it is the composition.  Tie: op `app.full` of the `app` suite runs the real
  `samedec` binary on a recording and this model (with `Float32`) on the same bytes.
-/
namespace SameVerif.Dsp
open Arith

variable {F : Type} [Arith F] [Hypot F]

/-- `sa as f32` for an `i16` -/
def ofI16 (v : Int) : F := if v < 0 then neg (ofNat v.natAbs) else ofNat v.toNat

/-- `read_i16::<NativeEndian>()` until it fails (little-endian host): a trailing odd byte is dropped -/
def pcmOfBytes : List UInt8 → List Int
  | lo :: hi :: rest =>
    let u := lo.toNat + 256 * hi.toNat
    (if u < 32768 then (u : Int) else (u : Int) - 65536) :: pcmOfBytes rest
  | _ => []

/-- the per-sample step handed to the iterator model; `none` = the receiver has panicked -/
def progStep (s : Option (FullRx F)) (x : F) : Option (FullRx F) × List Event :=
  match s with
  | none => (none, [])
  | some r =>
    match r.sample x with
    | none => (none, [])
    | some (r', evs) => (some r', evs)

/-- `SameReceiverEvent::into_message_ok` -/
def amsgOfEvent : Event → Option AMsg
  | .transport _ (.message (.ok (.som h))) => some (.som (h.text.map (·.toNat)))
  | .transport _ (.message (.ok .eom)) => some .eom
  | _ => none

abbrev PRx (F : Type) := Rx (Option (FullRx F)) Event

/-- one `iter_messages(src).next()`: events that are not messages are consumed and dropped.
    Fuel: every call of `next` either shortens the queue or the source; one sample can queue two events
    (a link-state change and a transport-state change), so `2 · |src| + |queue| + 1` calls suffice
    (`ProgramThm`: the first version of this model handed over `|src| + |queue| + 1`, which the proof
    attempt showed to be too little — a defect of the model, found by proving, not of the code). -/
def nextMsg : Nat → PRx F → List F → Option AMsg × PRx F × List F
  | 0, r, src => (none, r, src)
  | fuel + 1, r, src =>
    match next progStep r src with
    | (none, r', src') => (none, r', src')
    | (some e, r', src') =>
      match amsgOfEvent e with
      | some m => (some m, r', src')
      | none => nextMsg fuel r' src'

/-- the messages returned while the input lasts, each with the number of samples consumed when it is returned -/
def liveMsgs : Nat → PRx F → List F → List (Nat × AMsg) × PRx F
  | 0, r, _ => ([], r)
  | fuel + 1, r, src =>
    match nextMsg (2 * src.length + r.queue.length + 1) r src with
    | (none, r', _) => ([], r')
    | (some m, r', src') =>
      let (rest, r'') := liveMsgs fuel r' src'
      ((r'.consumed, m) :: rest, r'')

/-- `SameReceiver::flush()` -/
def flushOnce (rate : Nat) (r : PRx F) : Option AMsg × PRx F :=
  let zeros : List F := List.replicate (4 * rate) zero
  let res := nextMsg (2 * zeros.length + r.queue.length + 1) r zeros
  (res.1, res.2.1)

/-- `flush()` until it returns `None` (at most `fuel` times) -/
def flushAll (rate : Nat) : Nat → PRx F → List AMsg × PRx F
  | 0, r => ([], r)
  | fuel + 1, r =>
    match flushOnce rate r with
    | (none, r') => ([], r')
    | (some m, r') =>
      let (rest, r'') := flushAll rate fuel r'
      (m :: rest, r'')

/-- everything the state machine of app.rs needs to know about the receiver's behaviour on this input;
    `none` = the receiver panicked somewhere -/
def appInputOf (cfg : RxCfg F) (bytes : List UInt8) : Option AppInput :=
  match FullRx.new cfg with
  | none => none
  | some r0 =>
    let samples : List F := (pcmOfBytes bytes).map ofI16
    let (live, r) := liveMsgs (samples.length + 1) ⟨some r0, [], 0⟩ samples
    let (flushed, r) := flushAll cfg.rate 64 r
    match r.st with
    | none => none
    | some _ => some ⟨samples.length, live, flushed⟩

/-- `samedec` (live mode): printed lines and child sample ranges -/
def samedec (cfg : RxCfg F) (app : AppCfg) (spawnOk : Nat → Bool) (bytes : List UInt8) : Option AppOut :=
  (appInputOf cfg bytes).map (appRun app spawnOk)

end SameVerif.Dsp
