import SameVerif.Model.Assembler
import SameVerif.Model.Framer
/-
  Model of `SameReceiver::process_transportlayer` and the event generation of `process()`:
  link-state change events, transport-state change events, the forced end-of-message timer.
  Input: one record per symbol tick (input sample counter, squelch symbol count, link state).
-/
namespace SameVerif

inductive Event where
  | link (sample : Nat) (ls : LinkSt)
  | transport (sample : Nat) (ts : Transport)
deriving Repr

def DecodeErr.beq' : DecodeErr → DecodeErr → Bool
  | .unrecognizedPrefix, .unrecognizedPrefix => true
  | .notAscii, .notAscii => true
  | .malformed, .malformed => true
  | _, _ => false

def MsgResult.beq' : MsgResult → MsgResult → Bool
  | .ok a, .ok b => a == b
  | .error a, .error b => a.beq' b
  | _, _ => false

/-- `PartialEq for TransportState` (headers compare text, offset and both counters) -/
def Transport.beq' : Transport → Transport → Bool
  | .idle, .idle => true
  | .assembling, .assembling => true
  | .message a, .message b => MsgResult.beq' a b
  | _, _ => false

structure RState where
  asm : AState := {}
  linkState : LinkSt := .noCarrier
  transportState : Transport := .idle
  forceEomAt : Option Nat := none
deriving Repr

/-- `process_transportlayer` -/
def transportLayer (rate : Nat) (s : RState) (sample sym : Nat) (ls : LinkSt) : RState × Option Transport :=
  let (asm, out) : AState × Option Transport :=
    match ls with
    | .burst b => let (a, t) := aAssemble s.asm b sym; (a, some t)
    | .noCarrier =>
      match s.forceEomAt with
      | some timeout =>
        if sample > timeout then (s.asm, some (.message (.ok .eom)))
        else let (a, t) := aIdle s.asm sym; (a, some t)
      | none => let (a, t) := aIdle s.asm sym; (a, some t)
    | _ => (s.asm, none)
  let force := match out with
    | some (.message (.ok (.som _))) => some (sample + Gen.MAX_MESSAGE_DURATION_SECS * rate)
    | some (.message (.ok .eom)) => none
    | _ => s.forceEomAt
  ({ s with asm, forceEomAt := force }, out)

/-- one symbol tick of `process()`: events pushed on the queue, in order -/
def rTick (rate : Nat) (s : RState) (sample sym : Nat) (ls : LinkSt) : RState × List Event :=
  let (s, ev1) := if ls != s.linkState then ({ s with linkState := ls }, [Event.link sample ls]) else (s, [])
  let (s, out) := transportLayer rate s sample sym ls
  match out with
  | some t =>
    if !(t.beq' s.transportState) then ({ s with transportState := t }, ev1 ++ [Event.transport sample t])
    else (s, ev1)
  | none => (s, ev1)

end SameVerif
