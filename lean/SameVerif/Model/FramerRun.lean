import SameVerif.Model.Framer
/- Running the framer model over a byte stream (one start, no further restart, no `end()`). -/
namespace SameVerif

/-- feed bytes without restart; the link state reported for each byte -/
def feed (c : FCfg) : FState → List Byte → List LinkSt
  | _, [] => []
  | s, b :: bs => (finputNR c s b).2 :: feed c (finputNR c s b).1 bs

/-- framer state after feeding bytes without restart -/
def feedState (c : FCfg) : FState → List Byte → FState
  | s, [] => s
  | s, b :: bs => feedState c (finputNR c s b).1 bs

/-- a framer in any state `s0` is restarted at the first byte of `bs`, then fed the rest -/
def feedStart (c : FCfg) (s0 : FState) : List Byte → List LinkSt
  | [] => []
  | b :: bs => (finput c s0 b true).2 :: feed c (finput c s0 b true).1 bs

end SameVerif
