import SameVerif.Model.Header
import SameVerif.Model.Events
/-
  Model of the *interpreting* accessors of `MessageHeader` (message.rs): `originator()`,
  `event()` and `is_national()`, which combine the field slices of Model/Header.lean with the
  decoding tables of Model/Events.lean.
-/
namespace SameVerif
open SameVerif.Gen

/-- the text of a slice, as the code tables' string type -/
def natStr (s : List Byte) : Str := s.map (·.toNat)

/-- `MessageHeader::LOCATION_NATIONAL` = "000000" -/
def LOCATION_NATIONAL : Str := [48, 48, 48, 48, 48, 48]

namespace Header

/-- `MessageHeader::originator`: `Originator::from_org_and_call(self.originator_str(), self.callsign())` -/
def originator (h : Header) : Except Panic Originator :=
  match h.originatorStr with
  | .error e => .error e
  | .ok o =>
    match h.callsign with
    | .error e => .error e
    | .ok c => .ok (originatorOf (natStr o) (natStr c))

/-- `MessageHeader::event`: `EventCode::from(self.event_str())` -/
def event (h : Header) : Except Panic (Phenomenon × Significance) :=
  match h.eventStr with
  | .error e => .error e
  | .ok e => .ok (eventCode (natStr e))

/-- `MessageHeader::is_national`: `location_str() == "000000" && event().phenomenon().is_national()`
    (the right operand is only evaluated when the left is true) -/
def isNational (h : Header) : Except Panic Bool :=
  match h.locationStr with
  | .error e => .error e
  | .ok l =>
    if natStr l == LOCATION_NATIONAL then
      match h.event with
      | .error e => .error e
      | .ok ev => .ok ev.1.info.national
    else .ok false

end Header
end SameVerif
