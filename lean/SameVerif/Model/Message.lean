import SameVerif.Model.Header
import SameVerif.Model.Combiner
/-
  Model of `Message`, the `TryFrom` dispatches in message.rs, and `combiner::combine`.
-/
namespace SameVerif

inductive Msg where
  | som (h : Header)
  | eom
deriving Repr, DecidableEq

abbrev MsgResult := Except DecodeErr Msg

def litNN : List Byte := [78, 78]
def litNNNN : List Byte := [78, 78, 78, 78]

/-- `Message::as_str` -/
def Msg.text : Msg → List Byte
  | .som h => h.text
  | .eom => litNNNN

def Msg.parity : Msg → Nat
  | .som h => h.parity
  | .eom => 0

def Msg.voting : Msg → Nat
  | .som h => h.voting
  | .eom => 0

def startsWith (s lit : List Byte) : Bool := (stripLit lit s).isSome

/-- `TryFrom<(&[u8], &[u8], &[u8])> for Message` -/
def Msg.tryFromBytes (inp : List Byte) (errs counts : List Nat) : MsgResult :=
  if !validUtf8 inp then .error .notAscii
  else if startsWith inp litZCZC then
    match Header.newWithErrorInfo inp errs counts with
    | .ok h => .ok (.som h)
    | .error e => .error e
  else if startsWith inp litNN then .ok .eom
  else .error .unrecognizedPrefix

/-- `TryFrom<String> for Message` (the argument is valid UTF-8 by construction) -/
def Msg.tryFromString (inp : List Byte) : MsgResult :=
  if startsWith inp litZCZC then
    match Header.new inp with
    | .ok h => .ok (.som h)
    | .error e => .error e
  else if startsWith inp litNN then .ok .eom
  else .error .unrecognizedPrefix

/-- `combiner::combine`; 2 = MIN_BURSTS_FOR_FULL_MESSAGE -/
def combine (maxLen : Nat) (bursts : List (List Byte)) : Option MsgResult :=
  let est := estimateMessage maxLen bursts
  if est.isEmpty then none
  else
    let msg := est.map (·.byte)
    let counts := est.map (·.nbursts)
    let errs := est.map (·.errs)
    let good := msg.take (truncLen counts 2)
    match Msg.tryFromBytes good errs counts with
    | .ok m => some (.ok m)
    | .error e =>
      if prefixIsEom msg then some (.ok .eom)
      else if good.isEmpty then none
      else some (.error e)

end SameVerif
