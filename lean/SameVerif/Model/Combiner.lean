import SameVerif.Model.Bytes
/-
  Model of crates/sameold/src/receiver/combiner.rs (vote functions, estimate_message,
  truncate_bytes_with_reference).  `combine` itself lives in Model/Message.lean because it
  needs the message parser.
-/
namespace SameVerif

/-- `bit_vote_detect`: `(b0 & !(0xff * (xor != 0) as u8), xor.count_ones())` -/
def voteDetect (b0 b1 : Byte) : Byte × Nat :=
  let x := b0 ^^^ b1
  (b0 &&& ~~~((0xff : Byte) * (if x != 0 then 1 else 0)), popcount8 x)

/-- `bit_vote_correct` -/
def voteCorrect (b0 b1 b2 : Byte) : Byte × Nat :=
  let pair0 := ~~~(b0 ^^^ b1)
  let pair1 := ~~~(b1 ^^^ b2)
  let pair2 := ~~~(b0 ^^^ b2)
  ((b0 &&& pair0) ||| (b2 &&& pair1) ||| (b2 &&& pair2), countZeros8 (pair0 &&& pair1 &&& pair2))

/-- one estimated byte: value, number of bursts available, error count -/
structure EstByte where
  byte : Byte
  nbursts : Nat
  errs : Nat
deriving Repr, DecidableEq

/-- the vote over the (already MSb-masked) bytes available at one position;
    `none` when no burst has a byte here (`0 => break`) -/
def voteAt (cur : List Byte) : Option (Byte × Nat) :=
  match cur with
  | [] => none
  | [a] => some (a, 0)
  | [a, b] => some (voteDetect a b)
  | [a, b, c] => some (voteCorrect a b c)
  | _ => none        -- unreachable: at most three iterators are kept

/-- the `while out_bytes.len() < out_bytes.capacity()` loop of `estimate_message`;
    the first argument is the remaining capacity -/
def estimateLoop : Nat → List (List Byte) → List EstByte
  | 0, _ => []
  | cap + 1, bs =>
    let raw := bs.filterMap List.head?
    let msbErr := raw.any (fun b => (b &&& 0x80) != 0)
    let cur := raw.map (fun b => b &&& ~~~(0x80 : Byte))
    match voteAt cur with
    | none => []
    | some (est, nerr) =>
      if !isAllowed est then []
      else ⟨est, cur.length, nerr + (if msbErr then 1 else 0)⟩ :: estimateLoop cap (bs.map List.tail)

/-- `estimate_message`; `maxLen` is `MAX_MESSAGE_LENGTH`, the capacity of `Burst` -/
def estimateMessage (maxLen : Nat) (bursts : List (List Byte)) : List EstByte :=
  estimateLoop maxLen (bursts.take 3)

/-- `truncate_bytes_with_reference(src, compare, threshold).len()` -/
def truncLen (compare : List Nat) (threshold : Nat) : Nat :=
  (compare.takeWhile (fun v => !(v < threshold))).length

/-- `message_prefix_is_eom` -/
def prefixIsEom (inp : List Byte) : Bool :=
  match inp with
  | a :: b :: _ => a == 78 && b == 78
  | _ => false

end SameVerif
