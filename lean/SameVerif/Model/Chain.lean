import SameVerif.Model.LinkRun
import SameVerif.Model.ReceiverRun
import SameVerif.Model.AssemblerRun
import SameVerif.Spec.FrontEnd
/-
  The digital chain: link model → receiver glue → assembler, composed.
  Definitions only; the theorems are in `SameVerif/Thm/Chain.lean`.
-/
namespace SameVerif

/-! ### receiver ticks as assembler operations -/

/-- the assembler call a receiver tick makes when the forced end-of-message timer does not fire:
    a `.burst b` tick is `assemble(b, sym)`, a `.noCarrier` tick is `idle(sym)`, `Searching` and
    `Reading` ticks do not reach the assembler -/
def opOfTick (tk : RTick) : List AOp :=
  match tk.2.2 with
  | .burst b => [.burst b tk.2.1]
  | .noCarrier => [.poll tk.2.1]
  | .searching => []
  | .reading => []

def opsOfTicks (ticks : List RTick) : List AOp := ticks.flatMap opOfTick

/-- the message carried by an event, keyed by the event's sample counter -/
def msgOfEvent : Event → List (Nat × MsgResult)
  | .transport smp (.message r) => [(smp, r)]
  | _ => []

/-- the message events of an event list, in order: `(sample, result)` -/
def msgEvents (evs : List Event) : List (Nat × MsgResult) := evs.flatMap msgOfEvent

/-- two lists related element by element (core has no `List.Forall₂`) -/
inductive Forall₂ {α β : Type} (R : α → β → Prop) : List α → List β → Prop
  | nil : Forall₂ R [] []
  | cons {a b as bs} : R a b → Forall₂ R as bs → Forall₂ R (a :: as) (b :: bs)

/-! ### the composed run -/

/-- pair the link states reported tick by tick with the input sample counter `samples i` and the
    squelch's symbol counter, which is incremented once per tick: tick `i` carries `sym0 + 1 + i` -/
def mkTicks (samples : Nat → Nat) (sym0 : Nat) : Nat → List LinkSt → List RTick
  | _, [] => []
  | i, ls :: L => (samples i, sym0 + 1 + i, ls) :: mkTicks samples sym0 (i + 1) L

/-- the receiver ticks of the composed run -/
def chainTicks (c : LCfg) (ls0 : LState) (sym0 : Nat) (samples : Nat → Nat) (ticks : List Tick) :
    List RTick :=
  mkTicks samples sym0 0 (lrun c ls0 ticks)

/-- the events of the composed run: the link model's per-tick output is fed, tick by tick, into the
    receiver glue -/
def chain (c : LCfg) (rate : Nat) (ls0 : LState) (rs0 : RState) (sym0 : Nat) (samples : Nat → Nat)
    (ticks : List Tick) : List Event :=
  (rRun rate rs0 (chainTicks c ls0 sym0 samples ticks)).2

/-! ### one burst of a transmission, as observed -/

/-- the tick stream of one burst together with the parameters of `Spec.BurstObserved` -/
structure Seg where
  lead : List Tick
  body : List Tick
  tail : List Tick
  acq : Nat
  rel : Nat

def Seg.ticks (g : Seg) : List Tick := g.lead ++ g.body ++ g.tail

/-- a header transmission as the link model sees it: three bursts, then silence -/
def transmission (g1 g2 g3 : Seg) (quiet : List Tick) : List Tick :=
  g1.ticks ++ g2.ticks ++ g3.ticks ++ quiet

/-- no burst among these link states -/
def NoBurst (L : List LinkSt) : Prop := ∀ ls ∈ L, ∀ b, ls ≠ .burst b

/-- what the link model reports over one segment: exactly one `.burst`, carrying the payload and
    a tail `t`, at a tick after the end of the body -/
structure SegOut (g : Seg) (payload t : List Byte) (L : List LinkSt) : Prop where
  len : L.length = g.ticks.length
  split : ∃ pre post, L = pre ++ .burst (payload ++ t) :: post ∧ NoBurst pre ∧ NoBurst post
    ∧ g.lead.length + g.body.length + 31 ≤ pre.length
  tail_len : t.length ≤ (g.rel + 7) / 8

end SameVerif
