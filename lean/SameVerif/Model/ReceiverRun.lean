import SameVerif.Model.Receiver
/-
  Run of the receiver glue over a list of symbol ticks `(sample, sym, ls)`:
  input sample counter, squelch symbol counter, link state reported at that tick.
-/
namespace SameVerif

abbrev RTick := Nat × Nat × LinkSt

/-- fold `rTick` over the ticks, concatenating the events -/
def rRun (rate : Nat) : RState → List RTick → RState × List Event
  | s, [] => (s, [])
  | s, (sample, sym, ls) :: ts =>
    let (s', ev) := rTick rate s sample sym ls
    let (s'', evs) := rRun rate s' ts
    (s'', ev ++ evs)

end SameVerif
