import SameVerif.Gen.Constants
/-
  Model of the integer-valued part of `SameReceiverBuilder` / `EqualizerBuilder` /
  `SameReceiver::from(&builder)`: derived lengths and the panic guards they feed.
  (Float-valued settings only pass through `clamp`/`min`/`max`; the guards on them are listed as
  preconditions of the documented domain.)
-/
namespace SameVerif

/-- requested configuration, integers only: the DC-blocker length in millionths of a symbol
    (after the setter's `max(0.0, len)`), and the requested equalizer orders -/
structure BCfg where
  rate : Nat
  dcMicro : Nat
  eqEnabled : Bool
  reqFF : Nat
  reqFB : Nat
deriving Repr

/-- `EqualizerBuilder::with_filter_order`: `nff = max(nff, 1)`, `nfb = clamp(nfb, 1, nff)`;
    a disabled equalizer is built with orders (1, 1) -/
def eqOrders (c : BCfg) : Nat × Nat :=
  if c.eqEnabled then
    let ff := max c.reqFF 1
    (ff, min (max c.reqFB 1) ff)
  else (1, 1)

/-- `(cfg.dc_blocker_length() * sps) as usize`, limited below by one sample (the fix for F1) -/
def dcLen (c : BCfg) : Nat := max 1 (c.dcMicro * c.rate * 100 / (Gen.BAUD_CENTIHZ * 1000000))

/-- `floor(samples_per_symbol(fs))`: matched-filter taps / demodulator window -/
def demodTaps (c : BCfg) : Nat := c.rate * 100 / Gen.BAUD_CENTIHZ

/-- every `assert!(len > 0)` / `from_identity(len - 1)` / `usize::clamp(_, 1, nff)` reachable from
    `build()` -/
def guardsHold (c : BCfg) : Bool :=
  dcLen c > 0                       -- MovingAverage::new (x2) / Window::new
    && demodTaps c > 0              -- Window::new in FskDemod
    && (eqOrders c).1 > 0           -- Window::new, FilterCoeff::from_identity (index len-1)
    && (eqOrders c).2 > 0
    && (eqOrders c).2 ≤ (eqOrders c).1   -- usize::clamp(nfb, 1, nff) needs 1 ≤ nff

end SameVerif
