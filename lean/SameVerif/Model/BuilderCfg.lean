import SameVerif.Model.FullRx
/-
  From the public builder API to the constructor arguments of the whole-receiver model:
  the setters of `SameReceiverBuilder` / `EqualizerBuilder` (builder.rs: every `clamp` / `min` / `max`,
  in the order the code applies them) and the derivations of `From<&SameReceiverBuilder> for SameReceiver`
  (receiver.rs: samples per symbol, DC-blocker window length, AGC bandwidth per sample, equalizer orders).

  Generic in the number type like Model/Dsp.lean.  The float→integer conversion `(x) as usize`, the PI loop gains
  (`exp`, `sinh`) and the matched-filter taps (`sin`, `cos`) are parameters of the derivation.
-/
namespace SameVerif.Dsp
open Arith

variable {F : Type} [Arith F]

/-- the arguments a caller passes to the setters (every setter called once, in the order samedec calls them;
    `eq = none` is `without_adaptive_equalizer()`) -/
structure BuilderArgs (F : Type) where
  rate : Nat
  dcLen : F
  agcBw : F
  agcMin : F
  agcMax : F
  timingBwUnlocked : F
  timingBwLocked : F
  timingMaxDev : F
  squelchOpen : F
  squelchClose : F
  squelchBw : F
  preambleMaxErrors : Nat
  eq : Option (Nat × Nat × F × F)      -- filter orders, relaxation, regularization
  framePrefixMaxErrors : Nat
  frameMaxInvalid : Nat

/-- the builder's fields after the setters ran (what the getters return) -/
structure BuilderState (F : Type) where
  rate : Nat
  dcLen : F
  agcBw : F
  agcMin : F
  agcMax : F
  timingBwUnlocked : F
  timingBwLocked : F
  timingMaxDev : F
  squelchOpen : F
  squelchClose : F
  squelchBw : F
  preambleMaxErrors : Nat
  eq : Option (Nat × Nat × F × F)
  framePrefixMaxErrors : Nat
  frameMaxInvalid : Nat

/-- `EqualizerBuilder::with_filter_order / with_relaxation / with_regularization`; `fmaxVal` is `f32::MAX` -/
def eqSetters (fmaxVal : F) (e : Nat × Nat × F × F) : Option (Nat × Nat × F × F) :=
  let nff := max e.1 1
  let nfb := min (max e.2.1 1) nff          -- usize::clamp(nfb, 1, nff), 1 ≤ nff
  match clamp e.2.2.1 zero one, clamp e.2.2.2 zero fmaxVal with
  | some relax, some reg => some (nff, nfb, relax, reg)
  | _, _ => none

/-- the setters of `SameReceiverBuilder`; `none` = one of their `clamp`s panics -/
def applySetters (fmaxVal : F) (a : BuilderArgs F) : Option (BuilderState F) :=
  match clamp a.agcBw zero one, clamp a.timingBwUnlocked zero one with
  | some agcBw, some tbu =>
    match clamp a.timingBwLocked zero tbu, clamp a.timingMaxDev zero half, clamp a.squelchOpen zero one with
    | some tbl, some dev, some sqo =>
      let eq := match a.eq with
        | none => some none
        | some e => (eqSetters fmaxVal e).map some
      match eq with
      | none => none
      | some eq =>
        some { rate := a.rate, dcLen := fmax zero a.dcLen, agcBw, agcMin := a.agcMin, agcMax := a.agcMax,
               timingBwUnlocked := tbu, timingBwLocked := tbl, timingMaxDev := dev,
               squelchOpen := sqo, squelchClose := fmin a.squelchClose a.squelchOpen, squelchBw := a.squelchBw,
               preambleMaxErrors := a.preambleMaxErrors, eq,
               framePrefixMaxErrors := min a.framePrefixMaxErrors 7, frameMaxInvalid := a.frameMaxInvalid }
    | _, _, _ => none
  | _, _ => none

/-- what `From<&SameReceiverBuilder>` needs from outside the arithmetic: `x as usize`, the PI gains of a
    bandwidth, the matched-filter taps of a rate, `BAUD_HZ` and the default regularization -/
structure Derive (F : Type) where
  baud : F
  toUsize : F → Nat
  gains : F → F × F
  taps : Nat → List (F × F) × List (F × F)
  defaultReg : F

/-- `From<&SameReceiverBuilder> for SameReceiver`: the constructor arguments -/
def rxCfgOf (d : Derive F) (b : BuilderState F) : RxCfg F :=
  let sps := div (ofNat b.rate) d.baud
  let (nff, nfb, relax, reg) := match b.eq with
    | some e => e
    | none => (1, 1, zero, d.defaultReg)        -- `disabled_equalizer()`
  let gu := d.gains b.timingBwUnlocked
  let gl := d.gains b.timingBwLocked
  let tp := d.taps b.rate
  { rate := b.rate, sps, dcLen := max 1 (d.toUsize (mul b.dcLen sps)),
    agcBw := div (mul b.agcBw sps) (ofNat b.rate), agcMin := b.agcMin, agcMax := b.agcMax,
    mark := tp.1, space := tp.2, alphaU := gu.1, betaU := gu.2, alphaL := gl.1, betaL := gl.2,
    maxDev := b.timingMaxDev, powerOpen := b.squelchOpen, powerClose := b.squelchClose, squelchBw := b.squelchBw,
    nff, nfb, relax, reg, lcfg := ⟨b.preambleMaxErrors, ⟨b.framePrefixMaxErrors, b.frameMaxInvalid⟩⟩ }

end SameVerif.Dsp
