import SameVerif.Model.HeaderSem
import SameVerif.Model.Time
/-
  Model of crates/samedec/src/spawner.rs `spawn`: the SAMEDEC_* environment handed to the child
  process for a StartOfMessage.  The clock enters only as the UTC (year, day of year) of
  `Utc::now()`, which is all `issue_datetime` reads.  Values are UTF-8 byte strings (`Str`).
-/
namespace SameVerif
open SameVerif.Gen

/-- `format!("{}", n)` for a natural number, as bytes -/
def decStr (n : Nat) : Str := (Nat.toDigits 10 n).map (·.toNat)

/-- chrono `%s` (seconds since the epoch), as bytes; negative values carry a `-` -/
def epochStr (i : Int) : Str :=
  match i with
  | .ofNat n => decStr n
  | .negSucc n => 45 :: decStr (n + 1)

/-- `bool_to_env` -/
def boolEnv (b : Bool) : Str := if b then [89] else []

/-- `locations.join(" ")` -/
def joinSpace (xs : List Str) : Str := [32].intercalate xs

/-- the `SAMEDEC_*` variables, in the order `spawn` sets them -/
structure ChildEnv where
  rate : Str
  msg : Str
  org : Str
  originator : Str
  evt : Str
  event : Str
  significance : Str
  sigNum : Str
  locations : Str
  issueTime : Str
  purgeTime : Str
  isNational : Str
deriving Repr, DecidableEq

/-- `spawner::spawn`'s environment for header `h`, rate string `rateStr`, clock `(nowYear, nowDoy)` -/
def childEnv (h : Header) (rateStr : Str) (nowYear : Int) (nowDoy : Nat) : Except Panic ChildEnv :=
  match h.issueDaytimeFields, h.validDurationFields, h.locations, h.event, h.originatorStr,
        h.originator, h.eventStr, h.isNational with
  | .ok iss, .ok dur, .ok locs, .ok ev, .ok org, .ok o, .ok evt, .ok natl =>
    let times : Str × Str :=
      match calcIssue iss.1 iss.2.1 iss.2.2 nowYear nowDoy with
      | some t => (epochStr t.epochSecs, epochStr (t.epochSecs + durationSecs dur.1 dur.2))
      | none => ([], [])
    .ok { rate := rateStr
          msg := natStr h.text
          org := natStr org
          originator := o.display
          evt := natStr evt
          event := eventDisplay ev
          significance := ev.2.code
          sigNum := decStr ev.2.num
          locations := joinSpace (locs.map natStr)
          issueTime := times.1
          purgeTime := times.2
          isNational := boolEnv natl }
  | .error e, _, _, _, _, _, _, _ => .error e
  | _, .error e, _, _, _, _, _, _ => .error e
  | _, _, .error e, _, _, _, _, _ => .error e
  | _, _, _, .error e, _, _, _, _ => .error e
  | _, _, _, _, .error e, _, _, _ => .error e
  | _, _, _, _, _, .error e, _, _ => .error e
  | _, _, _, _, _, _, .error e, _ => .error e
  | _, _, _, _, _, _, _, .error e => .error e

/-- the variables as (name, value) pairs sorted by name (what `env | sort` shows) -/
def ChildEnv.sorted (e : ChildEnv) : List (String × Str) :=
  [("SAMEDEC_EVENT", e.event), ("SAMEDEC_EVT", e.evt), ("SAMEDEC_ISSUETIME", e.issueTime),
   ("SAMEDEC_IS_NATIONAL", e.isNational), ("SAMEDEC_LOCATIONS", e.locations), ("SAMEDEC_MSG", e.msg),
   ("SAMEDEC_ORG", e.org), ("SAMEDEC_ORIGINATOR", e.originator), ("SAMEDEC_PURGETIME", e.purgeTime),
   ("SAMEDEC_RATE", e.rate), ("SAMEDEC_SIGNIFICANCE", e.significance), ("SAMEDEC_SIG_NUM", e.sigNum)]

end SameVerif
