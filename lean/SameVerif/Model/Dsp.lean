/-
  Model of the *control structure* of the front-end DSP above the observation boundary:
  crates/sameold/src/receiver/agc.rs (`Agc`), dcblock.rs (`MovingAverage`, `DCBlocker`),
  symsync.rs (`ZeroCrossingTed`, `TimingLoop`) and the sample clock of
  `SameReceiver::process_linklayer_high_rate` (receiver.rs).

  The model is generic in the number type `F`: every arithmetic operation and comparison the Rust
  code performs is an explicit call into `Arith F`, in the order the Rust expression evaluates it.
  * `Arith Float32` (IEEE-754 binary32, Lean's native `Float32`) is what the driver runs: on the
    same inputs it must reproduce the real code's outputs **bit for bit** (suite `dsp`).
  * The theorems (Thm/Dsp.lean) are about the same definitions over an abstract `F` whose
    operations satisfy named laws (order laws only where that suffices; ordered-field laws
    otherwise).  Nothing is proved about `Float32` rounding.

  Panics are modelled: `f32::clamp` asserts `min <= max`, `pop_front().unwrap()` needs a non-empty
  window, `MovingAverage::new` asserts `len > 0`; each is a `none`.
-/
namespace SameVerif.Dsp

/-- the operations of `f32` used by the modelled code -/
class Arith (F : Type) where
  add : F → F → F
  sub : F → F → F
  mul : F → F → F
  div : F → F → F
  neg : F → F
  abs : F → F
  /-- IEEE `<` -/
  lt : F → F → Bool
  /-- IEEE `<=` -/
  le : F → F → Bool
  /-- the sign bit (`is_sign_negative`): what `f32::signum` looks at -/
  signNeg : F → Bool
  zero : F
  one : F
  /-- `n as f32` -/
  ofNat : Nat → F

open Arith

variable {F : Type} [Arith F]

def two : F := ofNat 2
/-- `0.5f32` (exactly `1/2` in binary floating point) -/
def half : F := div one (ofNat 2 : F)

/-- `f32::clamp(self, min, max)`: `assert!(min <= max)`, then the two comparisons -/
def clamp (x lo hi : F) : Option F :=
  if le lo hi then
    let x := if lt x lo then lo else x
    let x := if lt hi x then hi else x
    some x
  else none

/-- `f32::max` on non-NaN arguments -/
def fmax (a b : F) : F := if lt a b then b else a
/-- `f32::min` on non-NaN arguments -/
def fmin (a b : F) : F := if lt b a then b else a

/-- `f32::signum`: `1.0` if the sign bit is clear (incl. `+0.0`), `-1.0` if it is set -/
def signum (x : F) : F := if signNeg x then neg one else one

/-- `b as u8 as f32` -/
def ofBool (b : Bool) : F := if b then one else zero

/-! ### agc.rs -/

structure Agc (F : Type) where
  bandwidth : F
  minGain : F
  maxGain : F
  locked : Bool
  gain : F

/-- `Agc::initial_gain`: unity, limited to the configured range -/
def Agc.initialGain (lo hi : F) : F := fmax lo (fmin one hi)

/-- `Agc::new` -/
def Agc.new (bw lo hi : F) : Option (Agc F) :=
  (clamp bw zero one).map fun bw => ⟨bw, lo, hi, false, Agc.initialGain lo hi⟩

/-- `Agc::reset` -/
def Agc.reset (a : Agc F) : Agc F :=
  { a with gain := Agc.initialGain a.minGain a.maxGain, locked := false }

/-- `Agc::lock` -/
def Agc.lock (a : Agc F) (l : Bool) : Agc F := { a with locked := l }

/-- `Agc::input`: returns the new state and the output sample; `none` = the `clamp` assertion -/
def Agc.input (a : Agc F) (x : F) : Option (Agc F × F) :=
  let out := mul x a.gain
  let g := add a.gain (mul (mul (ofBool (!a.locked)) (sub one (abs out))) a.bandwidth)
  (clamp g a.minGain a.maxGain).map fun g => ({ a with gain := g }, out)

/-! ### dcblock.rs -/

/-- `MovingAverage`; `window` is oldest first and always has the configured length -/
structure MovAvg (F : Type) where
  window : List F
  invLen : F
  sum : F

/-- `MovingAverage::new` (`assert!(len > 0)`) -/
def MovAvg.new (len : Nat) : Option (MovAvg F) :=
  if len = 0 then none
  else some ⟨List.replicate len zero, div one (ofNat len : F), zero⟩

/-- `MovingAverage::reset` -/
def MovAvg.reset (m : MovAvg F) : MovAvg F :=
  { m with window := List.replicate m.window.length zero, sum := zero }

/-- `MovingAverage::filter`: `(moving average, input delayed by len-1)`;
    `none` = `pop_front().unwrap()` on an empty window (unreachable after `new`) -/
def MovAvg.filter (m : MovAvg F) (x : F) : Option (MovAvg F × F × F) :=
  match m.window with
  | [] => none
  | aged :: rest =>
    let w := rest ++ [x]
    let s := add m.sum (sub x aged)
    match w with
    | [] => none
    | front :: _ => some ({ m with window := w, sum := s }, mul s m.invLen, front)

structure DcBlock (F : Type) where
  ff : MovAvg F
  fb : MovAvg F

/-- `DCBlocker::new` -/
def DcBlock.new (len : Nat) : Option (DcBlock F) :=
  match MovAvg.new len, MovAvg.new len with
  | some a, some b => some ⟨a, b⟩
  | _, _ => none

/-- `DCBlocker::reset` -/
def DcBlock.reset (d : DcBlock F) : DcBlock F := ⟨d.ff.reset, d.fb.reset⟩

/-- `DCBlocker::filter` -/
def DcBlock.filter (d : DcBlock F) (x : F) : Option (DcBlock F × F) :=
  match d.ff.filter x with
  | none => none
  | some (ff, ma0, sig) =>
    match d.fb.filter ma0 with
    | none => none
    | some (fb, ma1, _) =>
      some (⟨ff, fb⟩, sub sig (mul (ofBool (decide (1 < ff.window.length))) ma1))

/-! ### symsync.rs -/

/-- `SymbolEstimate { data: [zero, sym], err }` -/
structure SymEst (F : Type) where
  zero : F
  sym : F
  err : F

/-- `ZeroCrossingTed`: the three most recent samples (oldest first) and the sample counter -/
structure Ted (F : Type) where
  h0 : F
  h1 : F
  h2 : F
  counter : Nat

/-- `ZeroCrossingTed::default` / `reset` -/
def Ted.init : Ted F := ⟨zero, zero, zero, 0⟩

/-- `zero_crossing_metric` -/
def zeroCrossingMetric (v0 v1 v2 : F) : F := mul v1 (sub (signum v0) (signum v2))

/-- `ZeroCrossingTed::input` -/
def Ted.input (t : Ted F) (x : F) : Ted F × Option (SymEst F) :=
  let c := (t.counter + 1) % 2
  let t' : Ted F := ⟨t.h1, t.h2, x, c⟩
  if c = 1 then (t', some ⟨t'.h1, t'.h2, zeroCrossingMetric t'.h0 t'.h1 t'.h2⟩)
  else (t', none)

structure TimingLoop (F : Type) where
  samplesPerTed : F
  periodMin : F
  periodMax : F
  alpha : F
  beta : F
  periodAvg : F
  periodInst : F
  ted : Ted F

/-- `TimingLoop::new`; the PI gains `(alpha, beta) = compute_loop_alphabeta(loop_bandwidth)` are
    parameters (they involve `exp`/`sinh`, which are not modelled) -/
def TimingLoop.new (sps alpha beta maxDev : F) : Option (TimingLoop F) :=
  (clamp maxDev zero half).map fun dev =>
    let spt := div sps two
    let pd := mul sps dev
    ⟨spt, sub spt pd, add spt pd, alpha, beta, spt, spt, Ted.init⟩

/-- `TimingLoop::reset` -/
def TimingLoop.reset (l : TimingLoop F) : TimingLoop F :=
  { l with ted := Ted.init, periodAvg := l.samplesPerTed, periodInst := l.samplesPerTed }

/-- `TimingLoop::set_loop_bandwidth` (with the gains already computed) -/
def TimingLoop.setGains (l : TimingLoop F) (alpha beta : F) : TimingLoop F :=
  { l with alpha := alpha, beta := beta }

/-- `TimingLoop::advance_loop` -/
def TimingLoop.advance (l : TimingLoop F) (offset : F) (sym : Option (SymEst F)) : Option (TimingLoop F) :=
  match clamp offset (neg half) half with
  | none => none
  | some offset =>
    match sym with
    | some s =>
      match clamp (sub s.err (div offset l.samplesPerTed)) (neg one) one with
      | none => none
      | some err =>
        match clamp (add l.periodAvg (mul l.beta err)) l.periodMin l.periodMax with
        | none => none
        | some avg =>
          let inst := add (add avg (mul l.alpha err)) offset
          let inst := if lt inst zero then avg else inst
          some { l with periodAvg := avg, periodInst := inst }
    | none => some { l with periodInst := add l.periodInst offset }

/-- `TimingLoop::input`: `(samples until the next call, symbol estimate if ready)` -/
def TimingLoop.input (l : TimingLoop F) (sample offset : F) : Option (TimingLoop F × F × Option (SymEst F)) :=
  let (ted, sym) := l.ted.input sample
  (TimingLoop.advance { l with ted := ted } offset sym).map fun l' => (l', l'.periodInst, sym)

/-! ### the sample clock of `process_linklayer_high_rate` -/

/-- after `n` high-rate samples since the last low-rate one: `clock_remaining_sa` -/
def clockRemaining (untilNext : F) (n : Nat) : F := sub untilNext (ofNat n)

/-- the test `clock_remaining_sa <= 0.0 || clock_remaining_sa.abs() < 0.5` -/
def clockFires (untilNext : F) (n : Nat) : Bool :=
  let r := clockRemaining untilNext n
  le r zero || lt (abs r) half

/-- the number of high-rate samples until the low-rate processing runs again: the first `n ≥ 1`
    at which the clock fires, searched up to `fuel` samples (`none` = it did not fire: a wedge) -/
def clockNext (untilNext : F) : (fuel : Nat) → (n : Nat) → Option Nat
  | 0, _ => none
  | fuel + 1, n => if clockFires untilNext n then some n else clockNext untilNext fuel (n + 1)

/-! ### the instance the driver runs -/

instance : Arith Float32 where
  add := (· + ·)
  sub := (· - ·)
  mul := (· * ·)
  div := (· / ·)
  neg := fun x => -x
  abs := Float32.abs
  lt := fun a b => decide (a < b)
  le := fun a b => decide (a ≤ b)
  signNeg := fun x => (x.toBits >>> 31) == 1
  zero := 0
  one := 1
  ofNat := Float32.ofNat

end SameVerif.Dsp
