import SameVerif.Model.Assembler
/-
  Running the assembler model over a list of operations (burst ends and polls), collecting every
  `.message` output together with the tick at which it was produced.
-/
namespace SameVerif

/-- one call into the assembler: a burst that ended at tick `t`, or a poll at tick `t` -/
inductive AOp where
  | burst (b : List Byte) (t : Nat)
  | poll (t : Nat)
deriving Repr, DecidableEq

def AOp.time : AOp → Nat
  | .burst _ t => t
  | .poll t => t

/-- `Assembler::assemble` / `Assembler::idle` -/
def stepOp (s : AState) : AOp → AState × Transport
  | .burst b t => aAssemble s b t
  | .poll t => aIdle s t

/-- the `(time, message)` record of one call's output (nothing unless it is a `.message`) -/
def outOf (t : Nat) : Transport → List (Nat × MsgResult)
  | .message r => [(t, r)]
  | _ => []

/-- run the operations in order; `(time, message)` for every `.message` output, in order -/
def runOps (s : AState) : List AOp → AState × List (Nat × MsgResult)
  | [] => (s, [])
  | op :: ops =>
    let r := stepOp s op
    let rest := runOps r.1 ops
    (rest.1, outOf op.time r.2 ++ rest.2)

/-- operation times are non-decreasing -/
def Sorted (ops : List AOp) : Prop := ops.Pairwise (fun a b => a.time ≤ b.time)

end SameVerif
