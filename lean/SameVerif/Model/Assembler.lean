import SameVerif.Model.Message
import SameVerif.Gen.Constants
/-
  Model of crates/sameold/src/receiver/assembler.rs and timeddata.rs.
-/
namespace SameVerif

structure Timed (α : Type) where
  data : α
  deadline : Nat
deriving Repr, DecidableEq

/-- `TimedData::is_expired_at` -/
def Timed.expiredAt {α} (t : Timed α) (now : Nat) : Bool := t.deadline ≤ now

inductive Transport where
  | idle
  | assembling
  | message (r : MsgResult)
deriving Repr

structure AState where
  history : List (Timed (List Byte)) := []
  pending : Option (Timed MsgResult) := none
  previous : Option (Timed Msg) := none
deriving Repr

def HOLD : Nat := Gen.MAX_INTERBURST_SYMBOLS
def HIST : Nat := Gen.MAX_HISTORY_DURATION
def MAXLEN : Nat := Gen.MAX_MESSAGE_LENGTH

/-- `prune_history`: drop expired entries, then keep the newest two -/
def pruneHistory (h : List (Timed (List Byte))) (now : Nat) : List (Timed (List Byte)) :=
  let h := h.filter (fun e => !e.expiredAt now)
  h.drop (h.length - 2)

/-- `prune_previous` -/
def prunePrevious (p : Option (Timed Msg)) (now : Nat) : Option (Timed Msg) :=
  match p with
  | some m => if m.expiredAt now then none else some m
  | none => none

/-- the entry `accept` builds: EOMs are ready immediately, everything else must wait -/
def acceptNew (msg : MsgResult) (now : Nat) : Timed MsgResult :=
  match msg with
  | .ok .eom => ⟨msg, now⟩
  | _ => ⟨msg, now + HOLD⟩

/-- the ranking in `accept`: does the new result replace the old one? -/
def acceptReplaces (old new : MsgResult) : Bool :=
  match old, new with
  | .error _, _ => true                              -- no error is better than error
  | .ok .eom, .ok (.som _) => true                   -- start of message better than end of message
  | .ok (.som o), .ok (.som n) => n.voting ≥ o.voting
  | _, _ => false

/-- `PendingResult::accept`; returns the new pending slot -/
def accept (p : Option (Timed MsgResult)) (msg : MsgResult) (now : Nat) : Option (Timed MsgResult) :=
  match p with
  | none => some (acceptNew msg now)
  | some old => if acceptReplaces old.data msg then some (acceptNew msg now) else some old

/-- `PendingResult::poll` -/
def poll (p : Option (Timed MsgResult)) (now : Nat) : Option (Timed MsgResult) × Option MsgResult :=
  match p with
  | some t => if t.expiredAt now then (none, some t.data) else (some t, none)
  | none => (none, none)

/-- `Assembler::idle` -/
def aIdle (s : AState) (now : Nat) : AState × Transport :=
  let history := pruneHistory s.history now
  let (pending, out) := poll s.pending now
  match out with
  | some (.ok m) => ({ history, pending, previous := some ⟨m, now + HIST⟩ }, .message (.ok m))
  | some (.error e) => ({ s with history, pending }, .message (.error e))
  | none => ({ s with history, pending }, if history.isEmpty then .idle else .assembling)

/-- `deduplicate` ∘ `combine` -/
def dedup (previous : Option (Timed Msg)) (res : Option MsgResult) : Option MsgResult :=
  match res with
  | some (.ok m) =>
    match previous with
    | some prev => if prev.data.text != m.text then some (.ok m) else none
    | none => some (.ok m)
  | r => r

/-- the history once the new burst (clipped to the buffer size) has been appended -/
def historyAfter (s : AState) (burst : List Byte) (now : Nat) : List (Timed (List Byte)) :=
  pruneHistory s.history now ++ [⟨burst.take MAXLEN, now + HIST⟩]

/-- `self.deduplicate(combiner::combine(self.bursts()))` -/
def estimateOf (s : AState) (burst : List Byte) (now : Nat) : Option MsgResult :=
  dedup (prunePrevious s.previous now) (combine MAXLEN ((historyAfter s burst now).map (·.data)))

/-- the pending slot after `self.state.accept(msg, symbol_count)` (if there was an estimate) -/
def pendingAfter (s : AState) (burst : List Byte) (now : Nat) : Option (Timed MsgResult) :=
  match estimateOf s burst now with
  | some r => accept s.pending r now
  | none => s.pending

/-- `Assembler::assemble` -/
def aAssemble (s : AState) (burst : List Byte) (now : Nat) : AState × Transport :=
  if burst.isEmpty then aIdle s now
  else
    aIdle { history := historyAfter s burst now, pending := pendingAfter s burst now,
            previous := prunePrevious s.previous now } now

end SameVerif
