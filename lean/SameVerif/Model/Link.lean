import SameVerif.Model.Framer
/-
  Model of the discrete part of the link layer: `CodeAndPowerSquelch::input` (sync-word correlator,
  byte clock, power history, sync lock), the equalizer's *decision protocol* (training forces the
  output bits for 32 symbols after every (re)synchronisation), the framer, and the glue in
  `SameReceiver::process_linklayer_symbol` / `end()`.

  All floating point stays outside: per symbol tick the model is given one observation
  (sign of the soft symbol as the correlator sees it, power ≥ open threshold, power ≥ close
  threshold) and, at byte-clock ticks, the byte the equalizer decided.
-/
namespace SameVerif

structure Obs where
  bit : Bool
  openOk : Bool
  closeOk : Bool
deriving Repr, DecidableEq

structure LCfg where
  maxErrors : Nat          -- preamble_max_errors
  fc : FCfg
deriving Repr

structure LState where
  corr : UInt32 := 0              -- CodeCorrelator.data
  nsym : Nat := 0                 -- symbols pushed into sample_history (full at 32)
  pwr : List Bool := []           -- power_history, oldest first, at most 32 entries
  clock : Option Nat := none      -- sample_clock
  lock : Bool := false            -- sync_lock
  train : Nat := 0                -- bytes of equalizer training still to come (4 after a sync)
  fr : FState := .idle
deriving Repr

def SYNC_WORD : UInt32 := UInt32.ofNat Gen.PREAMBLE_SYNC_WORD
def PREAMBLE_BYTE : Byte := UInt8.ofNat Gen.PREAMBLE

def push32 (h : List Bool) (b : Bool) : List Bool :=
  let h := h ++ [b]
  h.drop (h.length - 32)

/-- `SameReceiver::end()` + `squelch.end()`: the discrete effects -/
def LState.endRx (s : LState) : LState := { s with lock := false, clock := none }

/-- what one symbol tick does; `eqByte` is the equalizer's own decision for the byte that
    completes at this tick (ignored while training and at non-byte ticks).
    Returns the new state, the link state reported for this tick, and whether this tick was a
    byte tick together with its `is_resync` flag (for cross-checking against the taps). -/
def lstep (c : LCfg) (s : LState) (o : Obs) (eqByte : Byte) : LState × LinkSt × Option Bool :=
  let corr := (s.corr >>> 1) ||| ((if o.bit then (1 : UInt32) else 0) <<< 31)
  let err := popcount32 (SYNC_WORD ^^^ corr)
  let pwr := push32 s.pwr o.closeOk
  let s := { s with corr, pwr, nsym := s.nsym + 1 }
  if s.nsym < 32 then
    -- sample history not yet full: squelch says NoCarrier, the framer is ended
    let (fr, ls) := fend s.fr
    ({ s with fr }, ls, none)
  else
    let hit := !s.lock && err ≤ c.maxErrors && o.openOk
    let dropped := !hit && s.clock.isSome && !(pwr.headD true)
    if dropped then
      let (fr, ls) := fend s.fr
      ({ s.endRx with fr }, ls, none)
    else
      let (clock, adjusted) : Option Nat × Bool :=
        if hit then
          match s.clock with
          | none => (some 0, true)
          | some 0 => (some 0, false)
          | some _ => (some 0, true)
        else (s.clock, false)
      match clock with
      | none =>
        let (fr, ls) := fend s.fr
        ({ s with clock, fr }, ls, none)
      | some 0 =>
        let train := if adjusted then 4 else s.train
        let byte := if train > 0 then PREAMBLE_BYTE else eqByte
        let train := train - 1
        let (fr, ls) := finput c.fc s.fr byte adjusted
        let s := { s with clock := some 1, train, fr }
        match ls with
        | .reading => ({ s with lock := true }, ls, some adjusted)
        | .noCarrier => (s.endRx, ls, some adjusted)
        | .burst _ => (s.endRx, ls, some adjusted)
        | .searching => (s, ls, some adjusted)
      | some k => ({ s with clock := some ((k + 1) % 8) }, fstate s.fr, none)

end SameVerif
