import SameVerif.Model.Bytes
import SameVerif.Gen.Tables
/-
  Model of eventcodes.rs (three-stage lookup), message/eventcode.rs (EventCode, Display),
  message/significance.rs and message/originator.rs, over the *generated* tables.
  Strings are UTF-8 byte lists (`List Nat` to keep `decide` cheap).
-/
namespace SameVerif
open SameVerif.Gen

abbrev Str := List Nat

/-- `SignificanceLevel::from(&str)`: exact one-letter strings -/
def sigOfStr (s : Str) : Significance :=
  match s with
  | [84] => .Test          -- "T"
  | [83] => .Statement     -- "S"
  | [69] => .Emergency     -- "E"
  | [65] => .Watch         -- "A"
  | [87] => .Warning       -- "W"
  | _ => .Unknown

def lookup3 (code : Str) : Option (Phenomenon × Significance) :=
  (codebook3.find? (fun e => e.1 == code)).map (fun e => e.2)

def lookup2 (code : Str) : Option Phenomenon :=
  (codebook2.find? (fun e => e.1 == code)).map (fun e => e.2)

/-- UTF-8 continuation byte: index 2 of a three-byte string is a character boundary iff the byte
    there is not one of these -/
def isCont (b : Nat) : Bool := 0x80 ≤ b && b < 0xC0

/-- `eventcodes::parse_event` on a valid UTF-8 string given as bytes -/
def parseEvent (code : Str) : Option (Phenomenon × Significance) :=
  match code with
  | [a, b, c] =>
    match lookup3 [a, b, c] with
    | some e => some e
    | none =>
      if isCont c then none          -- `code.get(0..2)` / `code.get(2..3)` are `None`
      else
        match lookup2 [a, b] with
        | some p => some (p, sigOfStr [c])
        | none => some (.Unrecognized, sigOfStr [c])
  | _ => none                        -- `code.len() != 3`

/-- `EventCode::from` -/
def eventCode (code : Str) : Phenomenon × Significance :=
  (parseEvent code).getD (.Unrecognized, .Unknown)

/-- `Display for EventCode` (non-alternate): substitute the significance for a trailing `%` -/
def eventDisplay (e : Phenomenon × Significance) : Str :=
  let pat := e.1.info.full
  if pat.getLast? == some 37 then pat.dropLast ++ e.2.display else pat

def isTest (e : Phenomenon × Significance) : Bool := e.2 == .Test || e.1.info.test
def isUnrecognized (e : Phenomenon × Significance) : Bool := e.1 == .Unrecognized || e.2 == .Unknown

/-- strum `EnumString` for Originator: the serialize strings, and the variant name for the variant
    without one -/
def originatorParse (org : Str) : Originator :=
  if org == [] then .Unknown
  else if org == [80, 69, 80] then .PrimaryEntryPoint             -- PEP
  else if org == [67, 73, 86] then .CivilAuthority                -- CIV
  else if org == [87, 88, 82] then .NationalWeatherService        -- WXR
  else if org == [69, 65, 83] then .BroadcastStation              -- EAS
  else if org == [69,110,118,105,114,111,110,109,101,110,116,67,97,110,97,100,97] then .EnvironmentCanada
  else .Unknown

def startsWithN (s p : Str) : Bool := s.take p.length == p

/-- `Originator::from_org_and_call` -/
def originatorOf (org call : Str) : Originator :=
  let d := originatorParse org
  if d == .NationalWeatherService && startsWithN call [69, 67, 47] then .EnvironmentCanada else d

end SameVerif
