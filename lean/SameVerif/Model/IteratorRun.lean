import SameVerif.Model.Iterator
/-
  Run-level companions of the iterator model: a binding consumed to the end with exactly the
  fuel it needs (`drain`), several bindings one after the other (`drainChunks`), `k` calls of
  `next()` on a by-reference source (`nextN`), and a step function that stamps its events with
  the running sample counter (`stamp`).
-/
namespace SameVerif

variable {σ α ε : Type}

/-- the number of `next()` calls a binding needs before it returns `None`: one per queued event,
    one per event the samples will generate, and the final call that reports exhaustion.
    (No bound in terms of `src.length` alone is right for an arbitrary `step`: one sample may
    generate any number of events.) -/
def drainNeed (step : σ → α → σ × List ε) (r : Rx σ ε) (src : List α) : Nat :=
  r.queue.length + (foldEvents step r.st src).1.length + 1

/-- one `iter_events(source)` binding consumed until it returns `None` -/
def drain (step : σ → α → σ × List ε) (r : Rx σ ε) (src : List α) : List ε × Rx σ ε :=
  drainFuel step (drainNeed step r src) r src

/-- one binding per chunk, each consumed to the end, the receiver carried over -/
def drainChunks (step : σ → α → σ × List ε) : Rx σ ε → List (List α) → List ε × Rx σ ε
  | r, [] => ([], r)
  | r, c :: cs =>
    let (es, r') := drain step r c
    let (es', r'') := drainChunks step r' cs
    (es ++ es', r'')

/-- exactly `k` calls of `next()` on one by-reference source (calls after a `None` included):
    the events returned, the receiver afterwards, what is left of the source -/
def nextN (step : σ → α → σ × List ε) : Nat → Rx σ ε → List α → List ε × Rx σ ε × List α
  | 0, r, src => ([], r, src)
  | k + 1, r, src =>
    match next step r src with
    | (o, r', src') =>
      let (es, r'', src'') := nextN step k r' src'
      (o.toList ++ es, r'', src'')

/-- a step function whose state carries its own sample counter and whose events carry the value
    of that counter at generation time (`input_sample_counter` after the sample is counted) -/
def stamp {π : Type} (step : σ → α → σ × List π) : σ × Nat → α → (σ × Nat) × List (Nat × π)
  | (s, n), x =>
    let (s', es) := step s x
    ((s', n + 1), es.map (fun p => (n + 1, p)))

end SameVerif
